(* Safety of the lowering on re-checked trees: on a typed AST accepted by the re-checker of
   Lang/Wt.v the Boolean instance of the lowering (Compile/TSem.v) never reaches a [Crash]
   ("accepted programs compile without an internal panic"), every vector it produces has
   exactly the size of the static type of the expression, and the environment keeps the shape
   of the typing environment ([env_shape]).  Proved for expressions, patterns, statements and
   blocks together ([lower_safe_all], by strong induction on the fuel of the lowering: calls
   are inlined, [x * c] is rewritten), then for whole programs ([tsem_program_safe]).

   Side conditions (explicit Boolean predicates, NOT implied by the re-checker; the module
   [Findings] at the end gives, for each, an accepted tree on which the model crashes or
   produces a vector of the wrong size):
   - [node_ok] at every expression node: the annotated type is explored within [Sem.ty_fuel]
     ([ValTy.ty_ok]: definitions exist, no recursion, depth < 40), an integer type has width
     8/16/32/64, an array type has at most 2^32 elements;
   - [idx_ok]: an index expression has at most 32 bits;
   - [ok_acc]: the types annotated on the accessors of an assignment satisfy [node_ok], index
     expressions [idx_ok] (no condition on the element size any more: [array_write] takes the
     static number of elements);
   - [consts_ok]: a constant's literal has the suffix width of the constant's type.
   - [ok_pat] on a struct pattern: the definition has distinct field names, the pattern names
     no field twice and binds no variable twice.
   The reserved name [MUL_TMP] of the [x * literal] case needs NO side condition here: the sum
   runs in a scope of its own in which the name is bound, whatever the program binds elsewhere.
   (The looseness of Wt.v on struct patterns -- binding order, duplicate fields -- was found
   independently in Compile/TSemSemAgg.v and Compile/ValEnc.v.)
   Exclusions (fragment): the [join] built-in and [for ... join] loops ([ok_expr] / [ok_stmt]
     are false on them).
   About the program: [prog_ok] (every function body is accepted under its parameters and the
   constants, and satisfies [ok_stmt]) follows from [wt_program P = true] and [fns_ok P = true]
   ([prog_ok_of_wt]). *)
From Coq Require Import Lia.
From Coq Require Sorting.Permutation.
From GV Require Import Base.Util Lang.Ast Lang.Wt Lang.ValTy Lang.WtSound Lang.WtShape
  Panic.PanicRec Panic.PanicSem Gadgets.GadgetSpec Gadgets.GadgetHoare Gadgets.ExtendProofs
  Compile.Lower Compile.TSem Compile.TSemFacts Compile.TSemArith1 Compile.TSemArith2
  Compile.TSemControl.
From GV Require Lang.Sem.
Local Open Scope nat_scope.

(* ------------------------------------------------------------------ Hoare-style safety *)

Definition MB (A : Type) := pobs -> Util.res (A * pobs)%type.

(* [m] does not crash (running out of fuel is allowed) and every result satisfies [Q] *)
Definition safe {A} (m : MB A) (Q : A -> Prop) : Prop :=
  forall o, match m o with Crash => False | OutOfFuel => True | Ok (a, _) => Q a end.

Lemma safe_ret {A} (a : A) (Q : A -> Prop) : Q a -> safe (ret a) Q.
Proof. intros H o. exact H. Qed.

Lemma safe_bind {A B} (m : MB A) (k : A -> MB B) (Q1 : A -> Prop) (Q2 : B -> Prop) :
  safe m Q1 -> (forall a, Q1 a -> safe (k a) Q2) -> safe (mbind m k) Q2.
Proof.
  intros Hm Hk o. unfold mbind. specialize (Hm o). destruct (m o) as [[a o']| |]; [|contradiction|exact I].
  apply Hk. exact Hm.
Qed.

Lemma safe_conseq {A} (m : MB A) (Q1 Q2 : A -> Prop) :
  safe m Q1 -> (forall a, Q1 a -> Q2 a) -> safe m Q2.
Proof.
  intros Hm H o. specialize (Hm o). destruct (m o) as [[a o']| |]; auto.
Qed.

Lemma safe_lift {A} (r : Util.res A) (a : A) (Q : A -> Prop) : r = Ok a -> Q a -> safe (lift_res r) Q.
Proof. intros -> H o. exact H. Qed.

Lemma safe_lift_bind {A B} (r : Util.res A) (a : A) (k : A -> MB B) (Q : B -> Prop) :
  r = Ok a -> safe (k a) Q -> safe (mbind (lift_res r) k) Q.
Proof. intros -> H o. apply H. Qed.

Lemma safe_ret_bind {A B} (a : A) (k : A -> MB B) (Q : B -> Prop) :
  safe (k a) Q -> safe (mbind (ret a) k) Q.
Proof. intros H o. apply H. Qed.

Lemma safe_ok {A} (m : MB A) (Q : A -> Prop) :
  (forall o, exists a o', m o = Ok (a, o') /\ Q a) -> safe m Q.
Proof. intros H o. destruct (H o) as (a & o' & -> & Ha). exact Ha. Qed.

Lemma safe_prim {A} (m : MB A) (Q : A -> Prop) (f : pobs -> (A * pobs)%type) :
  (forall o, m o = Ok (f o)) -> (forall o, Q (fst (f o))) -> safe m Q.
Proof. intros H HQ o. rewrite H. specialize (HQ o). destruct (f o). exact HQ. Qed.

Lemma safe_nofuel {A} (Q : A -> Prop) : safe (nofuel (A:=A)) Q.
Proof. intro o. exact I. Qed.

Definition TT {A} : A -> Prop := fun _ => True.

Lemma safe_and x y : safe (m_and tops x y) TT. Proof. intro o. exact I. Qed.
Lemma safe_or x y : safe (m_or tops x y) TT. Proof. intro o. exact I. Qed.
Lemma safe_xor x y : safe (m_xor tops x y) TT. Proof. intro o. exact I. Qed.
Lemma safe_eq x y : safe (m_eq tops x y) TT. Proof. intro o. exact I. Qed.
Lemma safe_not x : safe (m_not tops x) TT. Proof. intro o. exact I. Qed.
Lemma safe_mux s x y : safe (m_mux tops s x y) TT. Proof. intro o. exact I. Qed.
Lemma safe_panic_if c r m : safe (m_panic_if tops c r m) TT. Proof. intro o. exact I. Qed.
Lemma safe_peek : safe (m_peek tops) TT. Proof. intro o. exact I. Qed.
Lemma safe_replace p : safe (m_replace tops p) TT. Proof. intro o. exact I. Qed.
Lemma safe_mux_panic c a b : safe (m_mux_panic tops c a b) TT. Proof. intro o. exact I. Qed.

Lemma safe_map2 (f : bool -> bool -> MB bool) : (forall a b, safe (f a b) TT) ->
  forall xs ys, length xs = length ys -> safe (map2_M f xs ys) (fun r => length r = length xs).
Proof.
  intros Hf. induction xs as [|x xs IH]; intros [|y ys] L; try discriminate L; cbn [map2_M].
  - apply safe_ret. reflexivity.
  - eapply safe_bind; [apply Hf|]. intros w _.
    eapply safe_bind; [apply IH; now injection L|]. intros ws Hws. apply safe_ret. cbn [length]. now rewrite Hws.
Qed.

Lemma safe_mapM (f : bool -> MB bool) : (forall a, safe (f a) TT) ->
  forall xs, safe (mapM_M f xs) (fun r => length r = length xs).
Proof.
  intros Hf. induction xs as [|x xs IH]; cbn [mapM_M].
  - apply safe_ret. reflexivity.
  - eapply safe_bind; [apply Hf|]. intros w _.
    eapply safe_bind; [apply IH|]. intros ws Hws. apply safe_ret. cbn [length]. now rewrite Hws.
Qed.

Lemma safe_mux_bits c xs ys : length xs = length ys ->
  safe (mux_bits tops c xs ys) (fun r => length r = length xs).
Proof.
  intros L o. rewrite tsem_mux_bits by exact L. destruct c; [reflexivity|now symmetry].
Qed.

(* ------------------------------------------------------------------ sizes of types *)

Definition tyok (P : program) (t : ty) : Prop := ty_ok Sem.ty_fuel P t = true.

Lemma ty_ok_mono P : forall f t, ty_ok f P t = true -> ty_ok (S f) P t = true.
Proof.
  induction f as [|f IH]; intros t H; [discriminate H|].
  destruct t as [| |el n|ts|name|name]; cbn [ty_ok] in H |- *; try reflexivity.
  - now apply IH.
  - rewrite forallb_forall in *. intros x Hx. apply IH. now apply H.
  - destruct (assocN name (p_structs P)) as [fields|]; [|discriminate].
    rewrite forallb_forall in *. intros x Hx. apply IH. now apply H.
  - destruct (assocN name (p_enums P)) as [variants|]; [|discriminate].
    rewrite forallb_forall in *. intros ts Hts. specialize (H ts Hts).
    rewrite forallb_forall in *. intros x Hx. apply IH. now apply H.
Qed.

Lemma sizeof_pred P t : ty_ok (pred Sem.ty_fuel) P t = true ->
  Sem.size_of (pred Sem.ty_fuel) P t = Sem.sizeof P t.
Proof. intro H. unfold Sem.sizeof. rewrite ty_fuel_S. symmetry. now apply size_of_stable. Qed.

Lemma tyok_pred P t : ty_ok (pred Sem.ty_fuel) P t = true -> tyok P t.
Proof. intro H. unfold tyok. rewrite ty_fuel_S. now apply ty_ok_mono. Qed.

Lemma tyok_S P t : tyok P t -> ty_ok (S (pred Sem.ty_fuel)) P t = true.
Proof. unfold tyok. rewrite <- ty_fuel_S. exact (fun H => H). Qed.

Lemma sizeof_S P t : Sem.sizeof P t = Sem.size_of (S (pred Sem.ty_fuel)) P t.
Proof. unfold Sem.sizeof. rewrite <- ty_fuel_S. reflexivity. Qed.

Lemma tyok_arr P el n : tyok P (TArr el n) ->
  tyok P el /\ Sem.sizeof P (TArr el n) = (Sem.sizeof P el * n)%N.
Proof.
  intro H. apply tyok_S in H. cbn [ty_ok] in H. split; [now apply tyok_pred|].
  rewrite sizeof_S. cbn [Sem.size_of]. now rewrite sizeof_pred.
Qed.

Lemma tyok_tup P ts : tyok P (TTup ts) ->
  Forall (tyok P) ts /\ Sem.sizeof P (TTup ts) = Sem.sum_map (Sem.sizeof P) ts.
Proof.
  intro H. apply tyok_S in H. cbn [ty_ok] in H. rewrite forallb_forall in H. split.
  - apply Forall_forall. intros x Hx. apply tyok_pred. now apply H.
  - rewrite sizeof_S. cbn [Sem.size_of]. apply sum_map_ext.
    intros a Ha. apply sizeof_pred. now apply H.
Qed.

Lemma tyok_struct P name : tyok P (TStruct name) ->
  exists fields, assocN name (p_structs P) = Some fields /\
    Forall (fun nt => tyok P (snd nt)) fields /\
    Sem.sizeof P (TStruct name) = Sem.sum_map (fun nt => Sem.sizeof P (snd nt)) fields.
Proof.
  intro H. apply tyok_S in H. cbn [ty_ok] in H. rewrite sizeof_S. cbn [Sem.size_of].
  destruct (assocN name (p_structs P)) as [fields|]; [|discriminate].
  rewrite forallb_forall in H. exists fields. split; [reflexivity|]. split.
  - apply Forall_forall. intros x Hx. apply tyok_pred. now apply H.
  - apply sum_map_ext. intros a Ha. apply sizeof_pred. now apply H.
Qed.

Lemma tyok_enum P name : tyok P (TEnum name) ->
  exists variants, assocN name (p_enums P) = Some variants /\
    Forall (Forall (tyok P)) variants /\
    Sem.sizeof P (TEnum name) =
      (Sem.tag_bits (lenN variants) +
       fold_right N.max 0%N (map (fun ts => Sem.sum_map (Sem.sizeof P) ts) variants))%N.
Proof.
  intro H. apply tyok_S in H. cbn [ty_ok] in H. rewrite sizeof_S. cbn [Sem.size_of].
  destruct (assocN name (p_enums P)) as [variants|]; [|discriminate].
  rewrite forallb_forall in H. exists variants. split; [reflexivity|]. split.
  - apply Forall_forall. intros ts Hts. specialize (H ts Hts). rewrite forallb_forall in H.
    apply Forall_forall. intros x Hx. apply tyok_pred. now apply H.
  - apply (f_equal (N.add _)). apply (f_equal (fold_right N.max 0%N)).
    apply map_ext_in. intros ts Hts. specialize (H ts Hts). rewrite forallb_forall in H.
    apply sum_map_ext. intros a Ha. apply sizeof_pred. now apply H.
Qed.

(* [ty_eqb] preserves sizes and well-foundedness *)
Lemma ty_eqb_size P : forall f a b, ty_eqb a b = true -> Sem.size_of f P a = Sem.size_of f P b.
Proof.
  induction f as [|f IH]; intros a b H; [reflexivity|].
  destruct a as [| s1 b1 | e1 n1 | xs | n1 | n1], b as [| s2 b2 | e2 n2 | ys | n2 | n2]; try discriminate H.
  - reflexivity.
  - cbn [ty_eqb] in H. cbn [Sem.size_of]. apply orb_prop in H as [H|H]; apply andb_prop in H as [H1 H2].
    + now apply N.eqb_eq in H2.
    + apply N.eqb_eq in H1, H2. congruence.
  - cbn [ty_eqb] in H. apply andb_prop in H as [H1 H2]. apply N.eqb_eq in H2. subst.
    cbn [Sem.size_of]. now rewrite (IH _ _ H1).
  - rewrite ty_eqb_tup in H. cbn [Sem.size_of]. revert ys H.
    induction xs as [|x xs IHx]; intros [|y ys] H; cbn [forallb2] in H; try discriminate H; [reflexivity|].
    apply andb_prop in H as [H1 H2]. cbn [Sem.sum_map]. now rewrite (IH _ _ H1), (IHx _ H2).
  - cbn [ty_eqb] in H. apply N.eqb_eq in H. now subst.
  - cbn [ty_eqb] in H. apply N.eqb_eq in H. now subst.
Qed.

Lemma ty_eqb_ok P : forall f a b, ty_eqb a b = true -> ty_ok f P a = ty_ok f P b.
Proof.
  induction f as [|f IH]; intros a b H; [reflexivity|].
  destruct a as [| s1 b1 | e1 n1 | xs | n1 | n1], b as [| s2 b2 | e2 n2 | ys | n2 | n2]; try discriminate H;
    try reflexivity.
  - cbn [ty_eqb] in H. apply andb_prop in H as [H1 H2]. cbn [ty_ok]. now apply IH.
  - rewrite ty_eqb_tup in H. cbn [ty_ok]. revert ys H.
    induction xs as [|x xs IHx]; intros [|y ys] H; cbn [forallb2] in H; try discriminate H; [reflexivity|].
    apply andb_prop in H as [H1 H2]. cbn [forallb]. now rewrite (IH _ _ H1), (IHx _ H2).
  - cbn [ty_eqb] in H. apply N.eqb_eq in H. now subst.
  - cbn [ty_eqb] in H. apply N.eqb_eq in H. now subst.
Qed.

Lemma ty_eqb_szn P a b : ty_eqb a b = true -> szn P a = szn P b.
Proof. intro H. unfold szn, Sem.sizeof. now rewrite (ty_eqb_size P _ _ _ H). Qed.

Lemma ty_eqb_tyok P a b : ty_eqb a b = true -> tyok P a -> tyok P b.
Proof. unfold tyok. intros H. now rewrite (ty_eqb_ok P _ _ _ H). Qed.

Lemma ty_eqb_tyok' P a b : ty_eqb a b = true -> tyok P b -> tyok P a.
Proof. unfold tyok. intros H. now rewrite (ty_eqb_ok P _ _ _ H). Qed.

(* sums of sizes, in nat *)
Fixpoint sumsz (P : program) (ts : list ty) : nat :=
  match ts with [] => 0 | t :: r => szn P t + sumsz P r end.

Lemma sum_map_sumsz P ts : N.to_nat (Sem.sum_map (Sem.sizeof P) ts) = sumsz P ts.
Proof.
  induction ts as [|t ts IH]; [reflexivity|]. cbn [Sem.sum_map sumsz].
  rewrite N2Nat.inj_add, IH. reflexivity.
Qed.

Lemma fold_left_sumsz P ts : forall a, fold_left (fun a t' => a + szn P t') ts a = a + sumsz P ts.
Proof.
  induction ts as [|t ts IH]; intro a; cbn [fold_left sumsz]; [lia|]. rewrite IH. lia.
Qed.

Lemma szn_tup P ts : tyok P (TTup ts) -> szn P (TTup ts) = sumsz P ts.
Proof. intro H. destruct (tyok_tup P ts H) as [_ E]. unfold szn. now rewrite E, sum_map_sumsz. Qed.

Lemma szn_arr P el n : tyok P (TArr el n) -> szn P (TArr el n) = szn P el * N.to_nat n.
Proof. intro H. destruct (tyok_arr P el n H) as [_ E]. unfold szn. rewrite E. lia. Qed.

Lemma szn_bool P : szn P TBool = 1.
Proof. unfold szn. rewrite sizeof_S. reflexivity. Qed.

Lemma szn_int P s b : szn P (TInt s b) = N.to_nat b.
Proof. unfold szn. rewrite sizeof_S. reflexivity. Qed.

(* ------------------------------------------------------------------ shapes of environments *)

Notation bscope := (@scope bool).
Notation benv := (@cenv bool).
Notation tscope := (list (N * (ty * bool))).

(* keys strictly increasing: the BTreeMap invariant *)
Fixpoint ssorted (s : bscope) : Prop :=
  match s with
  | [] => True
  | (k, _) :: r => Forall (fun p => (k < fst p)%N) r /\ ssorted r
  end.

(* the same names are bound, each to a vector of the size of its type *)
Definition scope_shape (P : program) (sg : tscope) (sE : bscope) : Prop :=
  ssorted sE /\
  forall x, match assocN x sE with
            | Some v => exists t m, assocN x sg = Some (t, m) /\ length v = szn P t
            | None => assocN x sg = None
            end.

Definition env_shape (P : program) (g : tenv) (E : benv) : Prop := Forall2 (scope_shape P) g E.

Lemma scope_shape_nil P : scope_shape P [] [].
Proof. split; [exact I|]. intro x. reflexivity. Qed.

Lemma ssorted_assoc_none (s : bscope) x : Forall (fun p => (x < fst p)%N) s -> assocN x s = None.
Proof.
  induction s as [|[k w] s IH]; intro H; [reflexivity|]. inversion H as [|? ? Hk Hr]; subst.
  cbn [assocN fst] in *. destruct (N.eqb_spec x k); [lia|]. now apply IH.
Qed.

Lemma ssorted_in_assoc (s : bscope) : ssorted s -> forall k v, In (k, v) s -> assocN k s = Some v.
Proof.
  induction s as [|[k0 w] s IH]; intros Hs k v Hin; [contradiction|]. destruct Hs as [Hf Hs].
  cbn [assocN]. destruct Hin as [[= <- <-]|Hin]; [now rewrite N.eqb_refl|].
  destruct (N.eqb_spec k k0) as [->|_]; [|now apply IH].
  rewrite Forall_forall in Hf. specialize (Hf _ Hin). cbn [fst] in Hf. lia.
Qed.

Lemma scope_insert_keys (s : bscope) x v : forall p, In p (scope_insert s x v) -> fst p = x \/ In p s.
Proof.
  induction s as [|[k w] s IH]; intros p Hin; cbn [scope_insert] in Hin.
  - destruct Hin as [<-|[]]. now left.
  - destruct (x <? k)%N.
    + destruct Hin as [<-|Hin]; [now left|now right].
    + destruct (x =? k)%N.
      * destruct Hin as [<-|Hin]; [now left|right; now right].
      * destruct Hin as [<-|Hin]; [right; now left|]. destruct (IH _ Hin); [now left|right; now right].
Qed.

Lemma scope_insert_sorted (s : bscope) x v : ssorted s -> ssorted (scope_insert s x v).
Proof.
  induction s as [|[k w] s IH]; intro Hs; cbn [scope_insert].
  - split; [constructor|exact I].
  - destruct Hs as [Hf Hs]. destruct (N.ltb_spec x k) as [H|H].
    + split; [|split; assumption]. constructor; [exact H|].
      eapply Forall_impl; [|exact Hf]. intros p Hp. cbn beta in *. lia.
    + destruct (N.eqb_spec x k) as [->|Hne].
      * split; assumption.
      * split; [|now apply IH]. apply Forall_forall. intros p Hp.
        destruct (scope_insert_keys _ _ _ _ Hp) as [->|Hin]; [lia|].
        rewrite Forall_forall in Hf. now apply Hf.
Qed.

Lemma scope_shape_insert P sg sE x t m v : scope_shape P sg sE -> length v = szn P t ->
  scope_shape P ((x, (t, m)) :: sg) (scope_insert sE x v).
Proof.
  intros [Hs H] L. split; [now apply scope_insert_sorted|]. intro y.
  destruct (N.eq_dec y x) as [->|Hne].
  - rewrite scope_insert_get. cbn [assocN]. rewrite N.eqb_refl. eauto.
  - rewrite scope_insert_other by exact Hne. cbn [assocN].
    destruct (N.eqb_spec y x); [contradiction|]. apply H.
Qed.

Lemma env_shape_let P s r E x t m v : env_shape P (s :: r) E -> length v = szn P t ->
  exists E', env_let E x v = Ok E' /\ env_shape P (tbind (s :: r) x t m) E'.
Proof.
  intros H L. inversion H as [|? sE ? rE Hs Hr]; subst. cbn [env_let tbind].
  eexists. split; [reflexivity|]. constructor; [now apply scope_shape_insert|exact Hr].
Qed.

Lemma env_shape_get P : forall g E x t m, env_shape P g E -> tlookup g x = Some (t, m) ->
  exists v, env_get E x = Some v /\ length v = szn P t.
Proof.
  induction g as [|s g IH]; intros E x t m H Hl; [discriminate Hl|].
  inversion H as [|? sE ? rE [_ Hs] Hr]; subst. cbn [tlookup env_get] in *.
  specialize (Hs x). destruct (assocN x sE) as [v|].
  - destruct Hs as (t' & m' & E1 & L). rewrite E1 in Hl. injection Hl as -> ->. eauto.
  - rewrite Hs in Hl. eapply IH; eassumption.
Qed.

Lemma scope_replace_keys : forall (sE : bscope) x v s', scope_replace sE x v = Some s' ->
  map fst s' = map fst sE.
Proof.
  induction sE as [|[k w] sE IH]; intros x v s' H; cbn [scope_replace] in H; [discriminate|].
  destruct (x =? k)%N; [now injection H as <-|].
  destruct (scope_replace sE x v) as [r|] eqn:Er; [|discriminate]. injection H as <-.
  cbn [map fst]. f_equal. eapply IH; eauto.
Qed.

Lemma ssorted_keys (a b : bscope) : map fst a = map fst b -> ssorted a -> ssorted b.
Proof.
  revert b. induction a as [|[k w] a IH]; intros [|[k' w'] b] H Hs; try discriminate H; [exact I|].
  cbn [map fst] in H. injection H as -> Hm. destruct Hs as [Hf Hs]. split; [|now apply IH].
  clear - Hf Hm. revert b Hm. induction Hf as [|p a Hp Hf IH]; intros [|q b] Hm; try discriminate Hm; constructor.
  - cbn [map] in Hm. injection Hm as Hq _. now rewrite <- Hq.
  - cbn [map] in Hm. injection Hm as _ Hm. now apply IH.
Qed.

Lemma scope_shape_replace P sg (sE : bscope) x v s' t m : scope_shape P sg sE ->
  scope_replace sE x v = Some s' -> assocN x sg = Some (t, m) -> length v = szn P t ->
  scope_shape P sg s'.
Proof.
  intros [Hs H] Hr Hx L. split.
  - eapply ssorted_keys; [|exact Hs]. symmetry. eapply scope_replace_keys; eauto.
  - intro y. destruct (N.eq_dec y x) as [->|Hne].
    + rewrite (scope_replace_get _ _ _ _ Hr). eauto.
    + rewrite (scope_replace_other _ _ _ _ _ Hr Hne). apply H.
Qed.

Lemma env_shape_assign P : forall g E x t m v, env_shape P g E -> tlookup g x = Some (t, m) ->
  length v = szn P t -> exists E', env_assign E x v = Ok E' /\ env_shape P g E'.
Proof.
  induction g as [|s g IH]; intros E x t m v H Hl L; [discriminate Hl|].
  inversion H as [|? sE ? rE Hs Hr]; subst. cbn [tlookup env_assign] in *.
  destruct (scope_replace sE x v) as [s'|] eqn:Er.
  - eexists. split; [reflexivity|]. constructor; [|exact Hr].
    pose proof (scope_replace_get _ _ _ _ Er) as Hg.
    destruct Hs as [Hso Hs']. pose proof (Hs' x) as Hx.
    destruct (assocN x sE) as [v0|] eqn:E0.
    + destruct Hx as (t' & m' & E1 & _). rewrite E1 in Hl. injection Hl as -> ->.
      eapply scope_shape_replace; eauto. split; assumption.
    + exfalso. clear - Er E0. revert s' Er. induction sE as [|[k w] sE IH]; intros s' Er; cbn [scope_replace assocN] in *; [discriminate|].
      destruct (x =? k)%N; [discriminate|]. destruct (scope_replace sE x v); [|discriminate]. eapply IH; eauto.
  - pose proof (scope_replace_none _ _ _ Er) as Hn. destruct Hs as [Hso Hs']. pose proof (Hs' x) as Hx.
    rewrite Hn in Hx. rewrite Hx in Hl.
    destruct (IH rE x t m v Hr Hl L) as (E' & -> & HE'). cbn [bind]. eexists. split; [reflexivity|].
    constructor; [split; assumption|exact HE'].
Qed.

Lemma env_shape_push P g E : env_shape P g E -> env_shape P ([] :: g) (env_push E).
Proof. intro H. constructor; [apply scope_shape_nil|exact H]. Qed.

Lemma env_shape_pop P s g E : env_shape P (s :: g) E -> exists E', env_pop E = Ok E' /\ env_shape P g E'.
Proof. intro H. inversion H; subst. cbn [env_pop]. eauto. Qed.

(* a scope with the keys of [a] and vectors of the same lengths has the shape of [a] *)
Lemma same_shape_assoc (a a' : bscope) : same_scope_shape a a' -> forall x,
  match assocN x a, assocN x a' with
  | Some v, Some v' => length v = length v'
  | None, None => True
  | _, _ => False
  end.
Proof.
  induction 1 as [|[k v] [k' v'] a a' [Hk Hl] _ IH]; intro x; cbn [assocN]; [exact I|].
  cbn [fst snd] in *. subst k'. destruct (x =? k)%N; [exact Hl|apply IH].
Qed.

Lemma scope_shape_same P sg (a a' : bscope) : scope_shape P sg a -> same_scope_shape a a' -> scope_shape P sg a'.
Proof.
  intros [Hs H] Hsh. split.
  - eapply ssorted_keys; [|exact Hs]. now apply same_scope_shape_keys.
  - intro x. pose proof (same_shape_assoc _ _ Hsh x) as Hx. specialize (H x).
    destruct (assocN x a) as [v|], (assocN x a') as [v'|]; try contradiction; [|exact H].
    destruct H as (t & m & E1 & L). exists t, m. split; [exact E1|congruence].
Qed.

Lemma mux_scope_safe P sg c (b : bscope) : scope_shape P sg b -> forall (a : bscope),
  (forall k va, In (k, va) a -> exists t m, assocN k sg = Some (t, m) /\ length va = szn P t) ->
  safe (mux_scope tops c a b) (fun a' => same_scope_shape a a').
Proof.
  intros [_ Hb]. induction a as [|[k va] a IH]; intros Ha; cbn [mux_scope].
  - apply safe_ret. constructor.
  - destruct (Ha k va (or_introl eq_refl)) as (t & m & E1 & L).
    pose proof (Hb k) as Hk. destruct (assocN k b) as [vb|]; [|congruence].
    destruct Hk as (t' & m' & E2 & L'). rewrite E1 in E2. injection E2 as <- <-.
    eapply safe_bind; [apply safe_mux_bits; congruence|]. intros ws Hws.
    eapply safe_bind; [apply IH; intros; apply Ha; now right|]. intros r' Hr'.
    apply safe_ret. constructor; [split; [reflexivity|now symmetry]|exact Hr'].
Qed.

Lemma scope_shape_entries P sg (a : bscope) : scope_shape P sg a ->
  forall k va, In (k, va) a -> exists t m, assocN k sg = Some (t, m) /\ length va = szn P t.
Proof.
  intros [Hs H] k va Hin. specialize (H k). now rewrite (ssorted_in_assoc a Hs k va Hin) in H.
Qed.

Lemma mux_scopes_safe P c : forall g (a b : list bscope), Forall2 (scope_shape P) g a -> Forall2 (scope_shape P) g b ->
  safe (mux_scopes tops c a b) (fun r => Forall2 (scope_shape P) g r).
Proof.
  induction g as [|sg g IH]; intros a b Ha Hb; inversion Ha; inversion Hb; subst; cbn [mux_scopes].
  - apply safe_ret. constructor.
  - eapply safe_bind; [eapply mux_scope_safe; [eassumption|]; eapply scope_shape_entries; eassumption|].
    intros s Hs. eapply safe_bind; [apply IH; eassumption|]. intros r Hr.
    apply safe_ret. constructor; [|exact Hr]. eapply scope_shape_same; cycle 1; [exact Hs|assumption].
Qed.

Lemma Forall2_rev {A B} (R : A -> B -> Prop) l l' : Forall2 R l l' -> Forall2 R (rev l) (rev l').
Proof.
  induction 1; cbn [rev]; [constructor|]. apply Forall2_app; [assumption|]. constructor; [assumption|constructor].
Qed.

Lemma Forall2_length {A B} (R : A -> B -> Prop) l l' : Forall2 R l l' -> length l = length l'.
Proof. induction 1; cbn [length]; congruence. Qed.

Lemma mux_envs_safe P c g (a b : benv) : env_shape P g a -> env_shape P g b ->
  safe (mux_envs tops c a b) (env_shape P g).
Proof.
  intros Ha Hb. unfold mux_envs.
  assert (length a = length b) as -> by (rewrite <- (Forall2_length _ _ _ Ha); apply (Forall2_length _ _ _ Hb)).
  rewrite Nat.eqb_refl. cbn [negb].
  eapply safe_bind; [apply (mux_scopes_safe P c (rev g)); now apply Forall2_rev|].
  intros ss Hss. apply safe_ret. unfold env_shape. rewrite <- (rev_involutive g). now apply Forall2_rev.
Qed.

(* ------------------------------------------------------------------ operators *)

Lemma nonempty_pos {A} (l : list A) : 0 < length l -> l <> [].
Proof. destruct l; cbn [length]; [lia|discriminate]. Qed.

Lemma as_wires_length_u n k : length (unsigned_as_wires tops n k) = k.
Proof. unfold unsigned_as_wires. now rewrite map_length, seq_length. Qed.
Lemma as_wires_length_s z k : length (signed_as_wires tops z k) = k.
Proof. unfold signed_as_wires. now rewrite map_length, seq_length. Qed.

Lemma extend_safe (v : list bool) t bits : length v <= bits ->
  safe (m_extend tops v t bits) (fun r => length r = bits).
Proof.
  intros L o. unfold m_extend, lift_res. rewrite tsem_extend_g by exact L. now apply extend_s_length.
Qed.

Lemma extend_same (v : list bool) t (o : pobs) : m_extend tops v t (length v) o = Ok (v, o).
Proof.
  unfold m_extend, lift_res, extend_g. destruct v as [|a v]; [reflexivity|]. now rewrite Nat.eqb_refl.
Qed.

Definition arith_op (o : binop) : bool :=
  match o with OAdd | OSub | OMul | ODiv | OMod | OBitAnd | OBitXor | OBitOr => true | _ => false end.

Lemma arith_safe o t tx ty_ (x y : list bool) m : x <> [] -> length x = length y -> arith_op o = true ->
  safe (lower_binop tops o t tx ty_ x y m) (fun r => length r = length x).
Proof.
  intros Hne Hl Ho o0. destruct o; try discriminate Ho.
  - destruct (is_signed tx || is_signed ty_) eqn:Hs.
    + pose proof (lower_add_signed t tx ty_ x y m o0 Hne Hl Hs) as E. cbv zeta in E. rewrite E. apply length_enc.
    + pose proof (lower_add_unsigned t tx ty_ x y m o0 Hne Hl Hs) as E. cbv zeta in E. rewrite E. apply length_enc.
  - destruct (is_signed t) eqn:Hs.
    + pose proof (lower_sub_signed t tx ty_ x y m o0 Hne Hl Hs) as E. cbv zeta in E. rewrite E. apply length_enc.
    + pose proof (lower_sub_unsigned t tx ty_ x y m o0 Hne Hl Hs) as E. cbv zeta in E. rewrite E. apply length_enc.
  - destruct (tsem_binop_mul_checked t tx ty_ x y m o0 Hne Hl) as (r & -> & L & _). exact L.
  - destruct (is_signed t) eqn:Hs.
    + pose proof (lower_div_signed t tx ty_ x y m o0 Hne Hl Hs) as E. cbv zeta in E. rewrite E. apply length_enc.
    + pose proof (lower_div_unsigned t tx ty_ x y m o0 Hne Hl Hs) as E. cbv zeta in E. rewrite E. apply length_enc.
  - destruct (is_signed t) eqn:Hs.
    + pose proof (lower_mod_signed t tx ty_ x y m o0 Hne Hl Hs) as E. cbv zeta in E. rewrite E. apply length_enc.
    + pose proof (lower_mod_unsigned t tx ty_ x y m o0 Hne Hl Hs) as E. cbv zeta in E. rewrite E. apply length_enc.
  - rewrite lower_bitand by assumption. now apply zipw_length.
  - rewrite lower_bitxor by assumption. now apply zipw_length.
  - rewrite lower_bitor by assumption. now apply zipw_length.
Qed.

Lemma cmp_safe o t tx ty_ (x y : list bool) m : length x = length y ->
  match o with OGt | OLt | OEq | ONe => True | _ => False end ->
  safe (lower_binop tops o t tx ty_ x y m) (fun r => length r = 1).
Proof.
  intros Hl Ho o0. unfold lower_binop.
  assert (Nat.max (length x) (length y) = length x) as -> by (rewrite Hl; apply Nat.max_id).
  assert (Ey : forall o, m_extend tops y ty_ (length x) o = Ok (y, o)) by (intro; rewrite Hl; apply extend_same).
  unfold mbind at 1. rewrite extend_same. unfold mbind at 1. rewrite Ey.
  destruct o; try contradiction.
  - unfold mbind. rewrite comparator_same_length by exact Hl.
    destruct (cmp_s (length x) x (is_signed tx) y (is_signed ty_)) as [lt gt]. reflexivity.
  - unfold mbind. rewrite comparator_same_length by exact Hl.
    destruct (cmp_s (length x) x (is_signed tx) y (is_signed ty_)) as [lt gt]. reflexivity.
  - rewrite Hl, Nat.eqb_refl. unfold mbind. rewrite eq_acc_tops. reflexivity.
  - rewrite Hl, Nat.eqb_refl. unfold mbind. rewrite eq_acc_tops. reflexivity.
Qed.

Lemma comparator_safe0 bits (x : list bool) sx (y : list bool) sy : bits <= length x -> bits <= length y ->
  safe (o_comparator tops bits x sx y sy) TT.
Proof.
  intros Hx Hy o. cbn [o_comparator tops].
  destruct (Nat.leb_spec bits (length x)); [|lia]. destruct (Nat.leb_spec bits (length y)); [|lia]. exact I.
Qed.

Lemma shift_safe left sg (x y : list bool) m : length y = 8 -> In (length x) [8; 16; 32; 64] ->
  safe (lower_shift tops left sg x y m) (fun r => length r = length x).
Proof.
  intros Hy Hx o. rewrite tsem_lower_shift by assumption. apply shift_once_length.
Qed.

(* ------------------------------------------------------------------ side conditions *)

Definition width_ok (b : N) : bool := ((b =? 8) || (b =? 16) || (b =? 32) || (b =? 64))%N.

(* the annotated type of a node: explored within [ty_fuel], an integer has one of the four
   widths, an array has at most 2^32 elements (the index is a 32-bit usize) *)
Definition node_ok (P : program) (t : ty) : bool :=
  ty_ok Sem.ty_fuel P t &&
  match t with TInt _ b => width_ok b | TArr _ n => (n <=? 2 ^ 32)%N | _ => true end.

(* the type of an index expression: at most 32 bits *)
Definition idx_ok (t : ty) : bool := match t with TInt _ b => (b <=? 32)%N | _ => false end.

Fixpoint nodupb (l : list N) : bool :=
  match l with
  | [] => true
  | x :: r => negb (existsb (N.eqb x) r) && nodupb r
  end.

(* [fs] is a subsequence of [ds] *)
Fixpoint subseqb (fs ds : list N) : bool :=
  match ds with
  | [] => match fs with [] => true | _ => false end
  | d :: dr =>
      match fs with
      | [] => true
      | f :: fr => if (f =? d)%N then subseqb fr dr else subseqb fs dr
      end
  end.

(* struct patterns: the definition has distinct field names, no field is named twice, and
   either no variable is bound twice or the pattern names the fields in the order of the
   definition (the lowering visits the fields in definition order, the re-checker in the order
   of the pattern: with the same order the bindings are made in the same order, and a name
   bound twice -- the wildcard `_` is a name -- is shadowed in the same way) *)
Fixpoint ok_pat (P : program) (p : pattern) {struct p} : bool :=
  match p with
  | Pat pi _ _ =>
      match pi with
      | PTup ps | PEnumTup _ _ ps => forallb (ok_pat P) ps
      | PStruct name _ fields =>
          match assocN name (p_structs P) with Some def => nodupb (map fst def) | None => false end &&
          nodupb (map fst fields) &&
          (match wt_pat P p with Some bs => nodupb (map fst bs) | None => true end ||
           match assocN name (p_structs P) with
           | Some def => subseqb (map fst fields) (map fst def)
           | None => false
           end) &&
          forallb (fun f => ok_pat P (snd f)) fields
      | _ => true
      end
  end.

Fixpoint ok_expr (P : program) (e : expr) {struct e} : bool :=
  match e with
  | Ex ei _ t =>
    node_ok P t &&
    match ei with
    | ETrue | EFalse | ENumU _ _ | ENumS _ _ | EId _ | ERange _ _ _ => true
    | EArrLit es | ETupLit es | EEnumLit _ _ es | ECall _ es => forallb (ok_expr P) es
    | EArrRep e1 _ | ETupAcc e1 _ | EFld e1 _ | ENeg e1 | ENot e1 | ECast _ e1 => ok_expr P e1
    | EIdx a i => idx_ok (e_ty i) && ok_expr P a && ok_expr P i
    | EStructLit _ fields => forallb (fun fe => ok_expr P (snd fe)) fields
    | EMatch s arms => ok_expr P s && forallb (fun arm => ok_pat P (fst arm) && ok_expr P (snd arm)) arms
    | EOp _ x y => ok_expr P x && ok_expr P y
    | EBlock b => forallb (ok_stmt P) b
    | EJoin _ _ _ _ => false
    | EIf c a b => ok_expr P c && ok_expr P a && ok_expr P b
    end
  end
with ok_stmt (P : program) (s : stmt) {struct s} : bool :=
  match s with
  | St si _ =>
    match si with
    | SLet p e => ok_pat P p && ok_expr P e
    | SLetMut _ e => ok_expr P e
    | SAssign _ accs e => forallb (ok_acc P) accs && ok_expr P e
    | SFor p arr body => ok_pat P p && ok_expr P arr && forallb (ok_stmt P) body
    | SJoinLoop _ _ _ _ _ => false
    | SExpr e => ok_expr P e
    end
  end
with ok_acc (P : program) (a : accessor) {struct a} : bool :=
  match a with
  | AIdx aty i => node_ok P aty && idx_ok (e_ty i) && ok_expr P i
  | ATup tty _ => node_ok P tty
  | AFld sty _ => node_ok P sty
  end.

(* ------------------------------------------------------------------ typing environments *)

Definition sbind_all (s : tscope) (bs : list (N * ty)) (m : bool) : tscope :=
  fold_left (fun s b => (fst b, (snd b, m)) :: s) bs s.

Lemma tbind_all_cons s r bs m : tbind_all (s :: r) bs m = sbind_all s bs m :: r.
Proof.
  revert s. induction bs as [|b bs IH]; intro s; [reflexivity|].
  unfold tbind_all, sbind_all in *. cbn [fold_left tbind]. apply IH.
Qed.

(* the scope of the global constants *)
Definition gscope (P : program) : tscope :=
  sbind_all [] (map (fun c => (fst c, e_ty (snd c))) (p_consts P)) false.

Lemma consts_tenv_gscope P : consts_tenv P = [gscope P].
Proof. unfold consts_tenv. now rewrite tbind_all_cons. Qed.

(* the outermost scope of the typing environment is the scope of the constants *)
Definition genv (P : program) (g : tenv) : Prop := exists g', g = g' ++ [gscope P].

Lemma genv_cons P s g : genv P g -> genv P (s :: g).
Proof. intros [g' ->]. now exists (s :: g'). Qed.

Definition epost (P : program) (g : tenv) (t : ty) : list bool * benv -> Prop :=
  fun r => length (fst r) = szn P t /\ env_shape P g (snd r).

Lemma node_ok_tyok P t : node_ok P t = true -> tyok P t.
Proof. unfold node_ok. intro H. now apply andb_prop in H as [H _]. Qed.

Lemma node_ok_width P s b : node_ok P (TInt s b) = true -> In (N.to_nat b) [8; 16; 32; 64].
Proof.
  unfold node_ok, width_ok. intro H. apply andb_prop in H as [_ H].
  repeat (apply orb_prop in H as [H|H]); apply N.eqb_eq in H; subst b; cbn; auto.
Qed.

Lemma in_widths_pos n : In n [8; 16; 32; 64] -> 0 < n.
Proof. cbn. intros [<-|[<-|[<-|[<-|[]]]]]; lia. Qed.

Lemma is_int_inv t : is_int t = true -> exists s b, t = TInt s b.
Proof. destruct t; try discriminate. eauto. Qed.
Lemma is_bool_inv t : is_bool t = true -> t = TBool.
Proof. destruct t; try discriminate. reflexivity. Qed.

Lemma ty_eqb_int_l t s b : ty_eqb t (TInt s b) = true -> exists s' b', t = TInt s' b'.
Proof. destruct t; try discriminate. eauto. Qed.
Lemma ty_eqb_bool_l t : ty_eqb t TBool = true -> t = TBool.
Proof. destruct t; try discriminate. reflexivity. Qed.

Ltac andb_split H :=
  match type of H with
  | (_ && _)%bool = true => let H1 := fresh H in apply andb_prop in H as [H H1]; andb_split H; andb_split H1
  | _ => idtac
  end.

Fixpoint wt_stmts (f : nat) (P : program) (ss : list stmt) (g : tenv) (last : ty) : option ty :=
  match ss with
  | [] => Some last
  | s :: r => match wt_stmt f P g s with Some (g', t) => wt_stmts f P r g' t | None => None end
  end.

Lemma wt_block_S f P g b : wt_block (S f) P g b = wt_stmts f P b g unit_ty.
Proof.
  cbn [wt_block]. generalize unit_ty. revert g. induction b as [|s r IH]; intros g last; cbn [wt_stmts]; [reflexivity|].
  destruct (wt_stmt f P g s) as [[g' t]|]; [apply IH|reflexivity].
Qed.

Lemma wt_stmt_tail fw P s r st g' t : wt_stmt fw P (s :: r) st = Some (g', t) -> exists s', g' = s' :: r.
Proof.
  destruct fw as [|f]; [discriminate|]. destruct st as [si m]. cbn [wt_stmt]. intro H.
  destruct si;
    repeat match type of H with context [match ?x with _ => _ end] => destruct x; try discriminate H end;
    injection H as <- <-; rewrite ?tbind_all_cons; cbn [tbind]; eauto.
Qed.

Lemma szn_unit P : szn P unit_ty = 0.
Proof. unfold szn, unit_ty. rewrite sizeof_S. reflexivity. Qed.

(* ------------------------------------------------------------------ array indexing *)

Lemma half_SS n : (S (S n) + 1) / 2 = S ((n + 1) / 2).
Proof. replace (S (S n) + 1) with (n + 1 + 1 * 2) by lia. rewrite Nat.div_add by lia. lia. Qed.

Lemma index_layer_unfold f s (arr : list bool) eb : arr <> [] ->
  index_layer tops (S f) s arr eb =
  match skipn eb arr with
  | [] => mapM_M (fun a0 => m_mux tops s (wT tops) a0) (firstn eb arr)
  | _ => mbind (map2_M (fun a1 a0 => m_mux tops s a1 a0) (firstn eb (skipn eb arr)) (firstn eb arr)) (fun ws =>
         mbind (index_layer tops f s (skipn eb (skipn eb arr)) eb) (fun r => ret (ws ++ r)))
  end.
Proof. destruct arr; [congruence|reflexivity]. Qed.

Lemma index_layer_safe s eb : 0 < eb -> forall fuel n (arr : list bool), length arr = n * eb ->
  safe (index_layer tops fuel s arr eb) (fun r => length r = ((n + 1) / 2) * eb).
Proof.
  intro Heb. induction fuel as [|f IH]; intros n arr L; [apply safe_nofuel|].
  destruct n as [|[|n]].
  - apply length_zero_iff_nil in L. subst arr. apply safe_ret. reflexivity.
  - rewrite index_layer_unfold by (apply nonempty_pos; lia).
    assert (skipn eb arr = []) as -> by (apply length_zero_iff_nil; rewrite skipn_length; lia).
    eapply safe_conseq; [apply safe_mapM; intro; apply safe_mux|]. intros r Hr. cbn beta in Hr.
    rewrite Hr, firstn_length. change ((1 + 1) / 2) with 1. lia.
  - rewrite index_layer_unfold by (apply nonempty_pos; lia).
    assert (length (skipn eb arr) = S n * eb) as Lr by (rewrite skipn_length; lia).
    destruct (skipn eb arr) as [|b0 rest0] eqn:Er; [cbn [length] in Lr; lia|]. rewrite <- Er in *. clear Er b0 rest0.
    eapply safe_bind; [apply safe_map2; [intros; apply safe_mux|rewrite !firstn_length; lia]|]. intros ws Hws.
    eapply safe_bind; [apply (IH n); rewrite skipn_length; lia|]. intros r Hr.
    apply safe_ret. rewrite app_length, Hws, Hr, firstn_length, half_SS. lia.
Qed.

Lemma index_layers_zero : forall (idx : list bool), safe (index_layers tops idx [] 0) (fun r => r = []).
Proof.
  induction idx as [|s idx IH]; cbn [index_layers]; [now apply safe_ret|].
  cbn [Nat.eqb]. apply safe_ret_bind. exact IH.
Qed.

Lemma index_layers_safe eb : 0 < eb -> forall (idx : list bool) n (arr : list bool), length arr = n * eb ->
  n <= 2 ^ length idx ->
  safe (index_layers tops idx arr eb) (fun r => length r = (if n =? 0 then 0 else 1) * eb).
Proof.
  intro Heb. induction idx as [|s idx IH]; intros n arr L Hn; cbn [index_layers].
  - apply safe_ret. cbn [length Nat.pow] in Hn. destruct n as [|[|n]]; cbn [Nat.eqb]; lia.
  - destruct (Nat.eqb_spec eb 0) as [|_]; [lia|].
    eapply safe_bind; [apply index_layer_safe; eassumption|]. intros arr' L'.
    eapply safe_conseq; [apply (IH ((n + 1) / 2)); [exact L'|]|].
    + cbn [length Nat.pow] in Hn. enough ((n + 1) / 2 < S (2 ^ length idx)) by lia.
      apply Nat.div_lt_upper_bound; lia.
    + intros r Hr. cbn beta in Hr. rewrite Hr. destruct n as [|n]; [reflexivity|].
      destruct (Nat.eqb_spec ((S n + 1) / 2) 0) as [H0|_]; [|reflexivity].
      exfalso. assert (1 <= (S n + 1) / 2) by (apply Nat.div_le_lower_bound; lia). lia.
Qed.

Lemma array_read_safe (arr idx : list bool) eb n ne m : length idx <= 32 -> length arr = n * eb -> n <= 2 ^ 32 ->
  safe (array_read tops arr idx eb ne m) (fun r => length (fst r) = eb /\ length (snd r) = 32).
Proof.
  intros Hi L Hn. unfold array_read.
  eapply safe_bind; [apply extend_safe; exact Hi|]. intros index Hx. unfold USZ in *.
  assert (safe (index_layers tops (rev index) arr eb) (fun r => length r = eb \/ r = [])) as Hl.
  { destruct (Nat.eq_dec eb 0) as [->|Hne].
    - assert (arr = []) as -> by (apply length_zero_iff_nil; lia).
      eapply safe_conseq; [apply index_layers_zero|]. intros r ->. now right.
    - eapply safe_conseq; [apply (index_layers_safe eb ltac:(lia) (rev index) n arr L); rewrite rev_length, Hx; exact Hn|].
      intros r Hr. cbn beta in Hr. destruct (n =? 0); [right; apply length_zero_iff_nil; lia|left; lia]. }
  eapply safe_bind; [exact Hl|]. intros arr' Ha.
  eapply safe_bind.
  { unfold bounds_check. eapply safe_bind; [apply comparator_safe0; [unfold USZ; lia|rewrite as_wires_length_u; unfold USZ; lia]|].
    intros [lt ?] _. eapply safe_bind; [apply safe_not|]. intros oob _. apply safe_panic_if. }
  intros _ _. apply safe_ret. cbn [fst snd]. split; [|exact Hx].
  destruct arr' as [|a0 r0]; [apply repeat_length|]. destruct Ha as [Ha|Ha]; [exact Ha|discriminate].
Qed.

Lemma slice_ok {A} (v : list A) a n : a + n <= length v ->
  exists r, slice v a n = Ok r /\ length r = n.
Proof.
  intro H. unfold slice. destruct (Nat.leb_spec (a + n) (length v)); [|lia].
  eexists. split; [reflexivity|]. rewrite firstn_length, skipn_length. lia.
Qed.

Lemma forallb2_Forall2 {A B} (f : A -> B -> bool) xs ys : forallb2 f xs ys = true ->
  Forall2 (fun x y => f x y = true) xs ys.
Proof.
  revert ys. induction xs as [|x xs IH]; intros [|y ys] H; cbn [forallb2] in H; try discriminate H; [constructor|].
  apply andb_prop in H as [H1 H2]. constructor; [exact H1|now apply IH].
Qed.

Lemma sumsz_app P a b : sumsz P (a ++ b) = sumsz P a + sumsz P b.
Proof. induction a as [|t a IH]; cbn [app sumsz]; [reflexivity|]. rewrite IH. lia. Qed.

Lemma sumsz_nth P : forall i ts ti, nth_error ts i = Some ti -> sumsz P (firstn i ts) + szn P ti <= sumsz P ts.
Proof.
  induction i as [|i IH]; intros [|t ts] ti H; cbn [nth_error] in H; try discriminate H.
  - injection H as ->. cbn [firstn sumsz]. lia.
  - cbn [firstn sumsz]. specialize (IH ts ti H). lia.
Qed.

Lemma concat_sumsz P (ws : list (list bool)) ts : Forall2 (fun w t => length w = szn P t) ws ts ->
  length (concat ws) = sumsz P ts.
Proof.
  induction 1 as [|w t ws ts Hw _ IH]; [reflexivity|]. cbn [concat sumsz]. rewrite app_length, Hw, IH. reflexivity.
Qed.

Lemma sumsz_repeat P el k : sumsz P (repeat el k) = szn P el * k.
Proof. induction k as [|k IH]; cbn [repeat sumsz]; [lia|]. rewrite IH. lia. Qed.

Lemma sumsz_fields P (def : list (N * ty)) :
  N.to_nat (Sem.sum_map (fun nt => Sem.sizeof P (snd nt)) def) = sumsz P (map snd def).
Proof.
  induction def as [|[k t] def IH]; [reflexivity|]. cbn [Sem.sum_map map sumsz snd].
  rewrite N2Nat.inj_add, IH. reflexivity.
Qed.

Lemma field_offsets_ok P : forall (def : list (N * ty)) fld ft before, assocN fld def = Some ft ->
  exists wb, field_offsets P def fld before = Ok (wb, szn P ft) /\ wb + szn P ft <= before + sumsz P (map snd def).
Proof.
  induction def as [|[k t] def IH]; intros fld ft before H; cbn [assocN] in H; [discriminate|].
  cbn [field_offsets map snd sumsz]. rewrite N.eqb_sym.
  destruct (fld =? k)%N.
  - injection H as ->. eexists. split; [reflexivity|]. lia.
  - destruct (IH fld ft (before + szn P t) H) as (wb & -> & Hle). eexists. split; [reflexivity|]. lia.
Qed.

(* ------------------------------------------------------------------ the re-checker depends on the
   typing environment only through [tlookup] *)

Definition tequiv (g1 g2 : tenv) : Prop := forall x, tlookup g1 x = tlookup g2 x.

Lemma tlookup_tbind g x t m y :
  tlookup (tbind g x t m) y = if (y =? x)%N then Some (t, m) else tlookup g y.
Proof. destruct g as [|s r]; cbn [tbind tlookup assocN]; destruct (y =? x)%N; reflexivity. Qed.

Lemma tequiv_push g1 g2 : tequiv g1 g2 -> tequiv ([] :: g1) ([] :: g2).
Proof. intros H x. cbn [tlookup assocN]. apply H. Qed.

Lemma tequiv_tbind g1 g2 x t m : tequiv g1 g2 -> tequiv (tbind g1 x t m) (tbind g2 x t m).
Proof. intros H y. rewrite !tlookup_tbind. now rewrite H. Qed.

Lemma tequiv_tbind_all bs m : forall g1 g2, tequiv g1 g2 -> tequiv (tbind_all g1 bs m) (tbind_all g2 bs m).
Proof.
  unfold tbind_all. induction bs as [|b bs IH]; intros g1 g2 H; cbn [fold_left]; [exact H|].
  apply IH. now apply tequiv_tbind.
Qed.

Lemma forallb_ext' {A} (f h : A -> bool) l : (forall a, f a = h a) -> forallb f l = forallb h l.
Proof. intro H. induction l as [|a l IH]; cbn [forallb]; [reflexivity|]. now rewrite H, IH. Qed.

Lemma forallb2_ext' {A B} (f h : A -> B -> bool) xs ys : (forall a b, f a b = h a b) ->
  forallb2 f xs ys = forallb2 h xs ys.
Proof.
  intro H. revert ys. induction xs as [|x xs IH]; intros [|y ys]; cbn [forallb2]; try reflexivity.
  now rewrite H, IH.
Qed.

Definition stmt_rel (r1 r2 : option (tenv * ty)) : Prop :=
  match r1, r2 with
  | Some (g1', t1), Some (g2', t2) => t1 = t2 /\ tequiv g1' g2'
  | None, None => True
  | _, _ => False
  end.

Lemma wt_stmts_equiv f P : (forall s g1 g2, tequiv g1 g2 -> stmt_rel (wt_stmt f P g1 s) (wt_stmt f P g2 s)) ->
  forall b g1 g2 last, tequiv g1 g2 -> wt_stmts f P b g1 last = wt_stmts f P b g2 last.
Proof.
  intro IHs. induction b as [|s b IH]; intros g1 g2 last H; cbn [wt_stmts]; [reflexivity|].
  specialize (IHs s g1 g2 H). unfold stmt_rel in IHs.
  destruct (wt_stmt f P g1 s) as [[g1' t1]|], (wt_stmt f P g2 s) as [[g2' t2]|]; try contradiction; [|reflexivity].
  destruct IHs as [-> H']. now apply IH.
Qed.

Lemma wt_equiv P : forall f,
  (forall e g1 g2, tequiv g1 g2 -> wt_expr f P g1 e = wt_expr f P g2 e) /\
  (forall b g1 g2, tequiv g1 g2 -> wt_block f P g1 b = wt_block f P g2 b) /\
  (forall s g1 g2, tequiv g1 g2 -> stmt_rel (wt_stmt f P g1 s) (wt_stmt f P g2 s)).
Proof.
  induction f as [|f (IHe & IHb & IHs)]; [repeat split; intros; exact I || reflexivity|].
  split; [|split].
  - intros [ei m t] g1 g2 H. cbn [wt_expr].
    destruct ei;
      repeat first
        [ reflexivity
        | rewrite (IHe _ g1 g2 H)
        | rewrite (IHb _ _ _ (tequiv_push _ _ H))
        | rewrite (H _)
        | apply forallb_ext'; intros
        | apply forallb2_ext'; intros
        | apply IHe; apply tequiv_tbind_all; apply tequiv_push; exact H
        | match goal with |- context [match ?x with _ => _ end] => destruct x end
        | apply (f_equal2 andb) ].
  - intros b g1 g2 H. rewrite !wt_block_S. now apply wt_stmts_equiv.
  - intros [si m] g1 g2 H. cbn [wt_stmt]. destruct si.
    + rewrite (IHe _ g1 g2 H). destruct (wt_expr f P g2 e && ty_eqb (p_ty p) (e_ty e)); [|exact I].
      destruct (wt_pat P p); [|exact I]. split; [reflexivity|now apply tequiv_tbind_all].
    + rewrite (IHe _ g1 g2 H). destruct (wt_expr f P g2 e); [|exact I]. split; [reflexivity|now apply tequiv_tbind].
    + rewrite (H name). destruct (tlookup g2 name) as [[tx [|]]|]; try exact I.
      match goal with |- stmt_rel (match ?F1 accs tx with _ => _ end) (match ?F2 accs tx with _ => _ end) =>
        assert (forall accs cur, F1 accs cur = F2 accs cur) as Hgo end.
      { induction accs0 as [|a accs0 IHa]; intro cur; [reflexivity|].
        destruct a; destruct cur; try reflexivity.
        - rewrite (IHe _ g1 g2 H). destruct (ty_eqb arr_ty (TArr cur len) && is_unsigned (e_ty i) && wt_expr f P g2 i); [apply IHa|reflexivity].
        - destruct (ty_eqb tup_ty (TTup fields)); [|reflexivity]. destruct (nthN fields i); [apply IHa|reflexivity].
        - destruct (ty_eqb struct_ty (TStruct name0)); [|reflexivity].
          destruct (assocN name0 (p_structs P)); [|reflexivity]. destruct (assocN fld l); [apply IHa|reflexivity]. }
      rewrite Hgo. match goal with |- stmt_rel (match ?X with _ => _ end) _ => destruct X end; [|exact I].
      rewrite (IHe _ g1 g2 H). destruct (ty_eqb t (e_ty e) && wt_expr f P g2 e); [|exact I]. split; [reflexivity|exact H].
    + destruct (e_ty arr); try exact I. rewrite (IHe _ g1 g2 H).
      destruct (wt_expr f P g2 arr && ty_eqb (p_ty p) t); [|exact I]. destruct (wt_pat P p) as [bs|]; [|exact I].
      rewrite (IHb body _ _ (tequiv_tbind_all bs false _ _ (tequiv_push _ _ H))).
      destruct (wt_block f P (tbind_all ([] :: g2) bs false) body); [|exact I]. split; [reflexivity|exact H].
    + destruct (e_ty a); try exact I. destruct (e_ty b); try exact I. rewrite !(IHe _ g1 g2 H).
      match goal with |- stmt_rel (if ?c then _ else _) _ => destruct c end; [|exact I].
      destruct (wt_pat P p) as [bs|]; [|exact I].
      rewrite (IHb body _ _ (tequiv_tbind_all bs false _ _ (tequiv_push _ _ H))).
      destruct (wt_block f P (tbind_all ([] :: g2) bs false) body); [|exact I]. split; [reflexivity|exact H].
    + rewrite (IHe _ g1 g2 H). destruct (wt_expr f P g2 e); [|exact I]. split; [reflexivity|exact H].
Qed.

(* ------------------------------------------------------------------ assignment through accessors *)

Fixpoint wt_accs (f : nat) (P : program) (g : tenv) (accs : list accessor) (cur : ty) : option ty :=
  match accs with
  | [] => Some cur
  | AIdx aty i :: r =>
      match cur with
      | TArr el _ =>
          if ty_eqb aty cur && is_unsigned (e_ty i) && wt_expr f P g i then wt_accs f P g r el else None
      | _ => None
      end
  | ATup tty i :: r =>
      match cur with
      | TTup ts =>
          if ty_eqb tty cur then
            match nthN ts i with Some ti => wt_accs f P g r ti | None => None end
          else None
      | _ => None
      end
  | AFld sty fld :: r =>
      match cur with
      | TStruct name =>
          if ty_eqb sty cur then
            match assocN name (p_structs P) with
            | Some def => match assocN fld def with Some ft => wt_accs f P g r ft | None => None end
            | None => None
            end
          else None
      | _ => None
      end
  end.

Definition is_aidx (a : accessor) : bool := match a with AIdx _ _ => true | _ => false end.
Definition nidx (accs : list accessor) : nat := length (filter is_aidx accs).

Notation acc_item := (list bool * nat * nat * option (list bool))%type.

Fixpoint chain_ok (acc : list acc_item) (inner outer : nat) : Prop :=
  match acc with
  | [] => inner = outer
  | (before, a, n, Some iw) :: r => a = inner /\ length iw = 32 /\ chain_ok r (length before) outer
  | (before, a, n, None) :: r => n = inner /\ a + n <= length before /\ chain_ok r (length before) outer
  end.

Lemma write_chain_safe x0 i : forall (index neg : list bool) x1, safe (write_chain tops x0 x1 i index neg) TT.
Proof.
  induction index as [|ix ir IH]; intros neg x1; cbn [write_chain]; [apply safe_ret; exact I|].
  destruct neg as [|nx nr]; [apply safe_ret; exact I|].
  eapply safe_bind; [apply safe_mux|]. intros x1' _. apply IH.
Qed.

Lemma write_elem_safe i (index neg : list bool) : forall (elem value : list bool), length elem <= length value ->
  safe (write_elem tops elem value i index neg) (fun r => length r = length elem).
Proof.
  induction elem as [|x0 er IH]; intros value L; cbn [write_elem]; [apply safe_ret; reflexivity|].
  destruct value as [|v vr]; [cbn [length] in L; lia|]. cbn [length] in L.
  eapply safe_bind; [apply write_chain_safe|]. intros w _.
  eapply safe_bind; [apply IH; lia|]. intros ws Hws. apply safe_ret. cbn [length]. now rewrite Hws.
Qed.

Lemma write_elems_safe eb (value index neg : list bool) : length value = eb ->
  forall fuel (arr : list bool) i, safe (write_elems tops fuel arr eb value i index neg) (fun r => length r = length arr).
Proof.
  intros Lv. induction fuel as [|f IH]; intros arr i; cbn [write_elems]; [apply safe_nofuel|].
  destruct (Nat.ltb_spec (length arr) eb) as [Hlt|Hge]; [apply safe_ret; reflexivity|].
  destruct arr as [|a0 arr0] eqn:Ea; [apply safe_ret; reflexivity|]. rewrite <- Ea in *. clear Ea a0 arr0.
  eapply safe_bind; [apply write_elem_safe; rewrite firstn_length; lia|]. intros e He.
  eapply safe_bind; [apply IH|]. intros r Hr. apply safe_ret.
  rewrite app_length, He, Hr, firstn_length, skipn_length. lia.
Qed.

Lemma bounds_check_safe (index : list bool) n m : length index = 32 -> safe (bounds_check tops index n m) TT.
Proof.
  intro L. unfold bounds_check.
  eapply safe_bind; [apply comparator_safe0; [unfold USZ; lia|rewrite as_wires_length_u; unfold USZ; lia]|].
  intros [lt ?] _. eapply safe_bind; [apply safe_not|]. intros oob _. apply safe_panic_if.
Qed.

Lemma array_write_safe (arr : list bool) eb size (iw value : list bool) m : length iw = 32 -> length value = eb ->
  safe (array_write tops arr eb size iw value m) (fun r => length r = length arr).
Proof.
  intros Li Lv. unfold array_write.
  eapply safe_bind; [apply extend_safe; unfold USZ; lia|]. intros index Hx. unfold USZ in Hx.
  eapply safe_bind; [apply safe_mapM; intro; apply safe_not|]. intros neg _.
  eapply safe_bind; [apply (write_elems_safe eb value index neg); exact Lv|]. intros arr' Ha.
  eapply safe_bind; [now apply bounds_check_safe|]. intros _ _. apply safe_ret.
  rewrite app_length, Ha, firstn_length, skipn_length. lia.
Qed.

Lemma assign_backward_safe m : forall acc (value : list bool) inner outer, chain_ok acc inner outer ->
  length value = inner -> safe (assign_backward tops m acc value) (fun v => length v = outer).
Proof.
  induction acc as [|[[[before a] n] [iw|]] acc IH]; intros value inner outer Hc L; cbn [assign_backward chain_ok] in *.
  - apply safe_ret. congruence.
  - destruct Hc as (-> & Li & Hc).
    eapply safe_bind; [now apply array_write_safe|]. intros v' Hv'. eapply IH; eassumption.
  - destruct Hc as (-> & Hle & Hc). subst inner.
    assert (splice before a (length value) value = Ok (firstn a before ++ value ++ skipn (a + length value) before)) as Hsp.
    { unfold splice. destruct (Nat.leb_spec (a + length value) (length before)); [|lia]. now rewrite Nat.eqb_refl. }
    eapply safe_lift_bind; [exact Hsp|]. eapply IH; [eassumption|].
    rewrite !app_length, firstn_length, skipn_length. lia.
Qed.

(* ------------------------------------------------------------------ association lists *)

Lemma nodupb_NoDup l : nodupb l = true -> NoDup l.
Proof.
  induction l as [|x l IH]; cbn [nodupb]; intro H; [constructor|]. apply andb_prop in H as [H1 H2].
  constructor; [|now apply IH]. intro Hin. apply negb_true_iff in H1.
  assert (existsb (N.eqb x) l = true) as E by (apply existsb_exists; exists x; split; [exact Hin|apply N.eqb_refl]).
  congruence.
Qed.

Lemma assocN_In' {A} x (l : list (N * A)) v : assocN x l = Some v -> In (x, v) l.
Proof.
  induction l as [|[k w] l IH]; cbn [assocN]; [discriminate|]. destruct (N.eqb_spec x k) as [->|_].
  - intros [= ->]. now left.
  - intro H. right. now apply IH.
Qed.

Lemma nodup_in_assoc {A} (l : list (N * A)) : NoDup (map fst l) -> forall x v, In (x, v) l -> assocN x l = Some v.
Proof.
  induction l as [|[k w] l IH]; intros Hd x v Hin; [contradiction|]. cbn [map fst] in Hd. inversion Hd as [|? ? Hnin Hd']; subst.
  cbn [assocN]. destruct Hin as [[= <- <-]|Hin]; [now rewrite N.eqb_refl|].
  destruct (N.eqb_spec x k) as [->|_]; [|now apply IH].
  exfalso. apply Hnin. apply in_map_iff. exists (k, v). split; [reflexivity|exact Hin].
Qed.

Lemma assoc_nodup_ext {A} (l l' : list (N * A)) : NoDup (map fst l) -> NoDup (map fst l') ->
  (forall p, In p l <-> In p l') -> forall x, assocN x l = assocN x l'.
Proof.
  intros Hd Hd' Hin x. destruct (assocN x l) as [v|] eqn:E.
  - symmetry. apply nodup_in_assoc; [exact Hd'|]. apply Hin. now apply assocN_In'.
  - destruct (assocN x l') as [v'|] eqn:E'; [|reflexivity].
    apply assocN_In' in E'. apply Hin in E'. rewrite (nodup_in_assoc l Hd x v' E') in E. discriminate E.
Qed.

Lemma assocN_app {A} x (l l' : list (N * A)) :
  assocN x (l ++ l') = match assocN x l with Some v => Some v | None => assocN x l' end.
Proof.
  induction l as [|[k w] l IH]; [reflexivity|]. cbn [app assocN]. destruct (x =? k)%N; [reflexivity|exact IH].
Qed.

Lemma sbind_all_assoc bs m : forall s x,
  assocN x (sbind_all s bs m) = match assocN x (rev bs) with Some t => Some (t, m) | None => assocN x s end.
Proof.
  unfold sbind_all. induction bs as [|b bs IH]; intros s x; cbn [fold_left rev]; [reflexivity|].
  rewrite IH, assocN_app. destruct (assocN x (rev bs)); [reflexivity|].
  destruct b as [k t]. cbn [assocN fst snd]. destruct (x =? k)%N; reflexivity.
Qed.

Lemma Permutation_flat_map' {A B} (f : A -> list B) l l' : Permutation.Permutation l l' ->
  Permutation.Permutation (flat_map f l) (flat_map f l').
Proof.
  induction 1 as [|x l l' _ IH|x y l|l l' l'' _ IH1 _ IH2]; cbn [flat_map].
  - constructor.
  - now apply Permutation.Permutation_app_head.
  - rewrite !app_assoc. apply Permutation.Permutation_app_tail. apply Permutation.Permutation_app_comm.
  - eapply Permutation.perm_trans; eassumption.
Qed.

Lemma sbind_all_perm s (bs bs' : list (N * ty)) m : Permutation.Permutation bs bs' -> NoDup (map fst bs) ->
  forall x, assocN x (sbind_all s bs m) = assocN x (sbind_all s bs' m).
Proof.
  intros Hp Hd x. rewrite !sbind_all_assoc.
  assert (NoDup (map fst bs')) as Hd'.
  { eapply Permutation.Permutation_NoDup; [|exact Hd]. now apply Permutation.Permutation_map. }
  rewrite (assoc_nodup_ext (rev bs) (rev bs')); [reflexivity| | |].
  - rewrite map_rev. now apply NoDup_rev.
  - rewrite map_rev. now apply NoDup_rev.
  - intro p. rewrite <- !in_rev. split; intro H.
    + eapply Permutation.Permutation_in; eassumption.
    + eapply Permutation.Permutation_in; [apply Permutation.Permutation_sym|]; eassumption.
Qed.

Lemma scope_shape_ext P sg sg' (sE : bscope) : (forall x, assocN x sg = assocN x sg') ->
  scope_shape P sg sE -> scope_shape P sg' sE.
Proof. intros H [Hs Hx]. split; [exact Hs|]. intro x. specialize (Hx x). now rewrite <- (H x). Qed.

(* struct patterns *)
Fixpoint wt_fields (P : program) (def : list (N * ty)) (fs : list (N * pattern)) : option (list (N * ty)) :=
  match fs with
  | [] => Some []
  | (f, fp) :: r =>
      match assocN f def with
      | Some ft =>
          if negb (ty_eqb (p_ty fp) ft) then None else
          match wt_pat P fp, wt_fields P def r with
          | Some a, Some b => Some (a ++ b)
          | _, _ => None
          end
      | None => None
      end
  end.

Lemma wt_pat_struct P name ir fields m n2 : wt_pat P (Pat (PStruct name ir fields) m (TStruct n2)) =
  match assocN name (p_structs P) with
  | Some def => if negb (name =? n2)%N then None else wt_fields P def fields
  | None => None
  end.
Proof.
  cbn [wt_pat]. destruct (assocN name (p_structs P)) as [def|]; [|reflexivity].
  destruct (negb (name =? n2)%N); [reflexivity|].
  induction fields as [|[f fp] r IH]; [reflexivity|]. cbn [wt_fields]. rewrite <- IH. reflexivity.
Qed.

Definition fbind (P : program) (f : N * pattern) : list (N * ty) :=
  match wt_pat P (snd f) with Some a => a | None => [] end.

Lemma wt_fields_spec P def : forall fs bs, wt_fields P def fs = Some bs ->
  bs = flat_map (fbind P) fs /\
  Forall (fun f => exists ft a, assocN (fst f) def = Some ft /\ ty_eqb (p_ty (snd f)) ft = true /\
                                wt_pat P (snd f) = Some a) fs.
Proof.
  induction fs as [|[f fp] fs IH]; intros bs H; cbn [wt_fields] in H.
  - injection H as <-. split; [reflexivity|constructor].
  - destruct (assocN f def) as [ft|] eqn:Ef; [|discriminate H].
    destruct (ty_eqb (p_ty fp) ft) eqn:Et; [|discriminate H]. cbn [negb] in H.
    destruct (wt_pat P fp) as [a|] eqn:Ea; [|discriminate H].
    destruct (wt_fields P def fs) as [b|] eqn:Eb; [|discriminate H]. injection H as <-.
    destruct (IH b eq_refl) as [-> Hf]. split.
    + cbn [flat_map]. change (fbind P (f, fp)) with (match wt_pat P fp with Some a => a | None => [] end).
      now rewrite Ea.
    + constructor; [|exact Hf]. cbn [fst snd]. eauto.
Qed.

Definition found (fields : list (N * pattern)) (ds : list (N * ty)) : list (N * pattern) :=
  flat_map (fun d => match assocN (fst d) (rev fields) with Some fp => [(fst d, fp)] | None => [] end) ds.

Lemma found_fst fields ds p : In p (found fields ds) -> In (fst p) (map fst ds).
Proof.
  unfold found. intro H. apply in_flat_map in H as (d & Hd & Hp).
  destruct (assocN (fst d) (rev fields)); [|contradiction]. destruct Hp as [<-|[]]. cbn [fst]. now apply in_map.
Qed.

Lemma found_nodup fields : forall ds, NoDup (map fst ds) -> NoDup (found fields ds).
Proof.
  induction ds as [|d ds IH]; intro H; [constructor|]. cbn [map] in H. inversion H as [|? ? Hnin Hd]; subst.
  unfold found. cbn [flat_map]. fold (found fields ds).
  destruct (assocN (fst d) (rev fields)) as [fp|]; [|now apply IH]. cbn [app]. constructor; [|now apply IH].
  intro Hin. apply found_fst in Hin. cbn [fst] in Hin. contradiction.
Qed.

Lemma found_perm fields def : NoDup (map fst fields) -> NoDup (map fst def) ->
  (forall f, In f fields -> exists ft, assocN (fst f) def = Some ft) ->
  Permutation.Permutation fields (found fields def).
Proof.
  intros Hf Hd Hall. apply Permutation.NoDup_Permutation.
  - eapply NoDup_map_inv; eassumption.
  - now apply found_nodup.
  - intros [n p]. split; intro H.
    + destruct (Hall _ H) as [ft Eft]. cbn [fst] in Eft. apply assocN_In' in Eft.
      unfold found. apply in_flat_map. exists (n, ft). split; [exact Eft|]. cbn [fst].
      rewrite (nodup_in_assoc (rev fields)) with (v := p); [now left| |now apply in_rev in H || (rewrite <- in_rev; exact H)].
      rewrite map_rev. now apply NoDup_rev.
    + unfold found in H. apply in_flat_map in H as (d & _ & Hp).
      destruct (assocN (fst d) (rev fields)) as [fp|] eqn:E; [|contradiction]. destruct Hp as [[= <- <-]|[]].
      apply assocN_In' in E. now apply in_rev in E.
Qed.

Lemma subseqb_incl : forall ds fs, subseqb fs ds = true -> incl fs ds.
Proof.
  induction ds as [|d dr IH]; intros fs H.
  - destruct fs; [intros y []|discriminate H].
  - destruct fs as [|f fr]; [intros y []|]. cbn [subseqb] in H. destruct (N.eqb_spec f d) as [->|_].
    + intros y [<-|Hy]; [now left|right; now apply (IH fr H)].
    + intros y Hy. right. now apply (IH (f :: fr) H).
Qed.

Lemma assocN_notin {A} k (l : list (N * A)) : ~ In k (map fst l) -> assocN k l = None.
Proof.
  induction l as [|[k' v] l IH]; intro H; [reflexivity|]. cbn [assocN map fst] in *.
  destruct (N.eqb_spec k k') as [->|_]; [exfalso; apply H; now left|]. apply IH. intro Hin. apply H. now right.
Qed.

Lemma found_cons_other (f : N * pattern) fr : forall ds, ~ In (fst f) (map fst ds) -> found (f :: fr) ds = found fr ds.
Proof.
  induction ds as [|d ds IH]; intro H; [reflexivity|]. unfold found. cbn [flat_map]. fold (found (f :: fr) ds). fold (found fr ds).
  cbn [map] in H. rewrite IH by (intro Hin; apply H; now right). f_equal.
  cbn [rev]. destruct f as [fn fp]. cbn [fst] in H.
  assert (assocN (fst d) (rev fr ++ [(fn, fp)]) = assocN (fst d) (rev fr)) as ->; [|reflexivity].
  induction (rev fr) as [|[k v] l IHl]; cbn [app assocN].
  - destruct (N.eqb_spec (fst d) fn) as [E|_]; [exfalso; apply H; left; now rewrite E|reflexivity].
  - destruct (fst d =? k)%N; [reflexivity|exact IHl].
Qed.

(* a pattern that names the fields in the order of the definition is visited in its own order *)
Lemma found_sorted : forall def fields, subseqb (map fst fields) (map fst def) = true ->
  NoDup (map fst fields) -> NoDup (map fst def) -> found fields def = fields.
Proof.
  induction def as [|d dr IH]; intros fields Hs Hf Hd.
  - destruct fields; [reflexivity|discriminate Hs].
  - destruct fields as [|f fr]; cbn [map subseqb] in Hs.
    + unfold found. clear. induction (d :: dr) as [|x l IHl]; [reflexivity|]. cbn [flat_map]. cbn [rev assocN]. exact IHl.
    + cbn [map] in Hd. inversion Hd as [|? ? Hnd Hd']; subst.
      destruct (N.eqb_spec (fst f) (fst d)) as [E|Hne].
      * cbn [map] in Hf. inversion Hf as [|? ? Hnf Hf']; subst.
        unfold found. cbn [flat_map]. fold (found (f :: fr) dr).
        rewrite found_cons_other by (rewrite E; exact Hnd). rewrite (IH fr Hs Hf' Hd').
        cbn [rev]. destruct f as [fn fp]. cbn [fst] in *. subst fn.
        rewrite assocN_app, (assocN_notin (fst d) (rev fr)) by (rewrite map_rev, <- in_rev; exact Hnf).
        cbn [assocN]. rewrite N.eqb_refl. reflexivity.
      * unfold found. cbn [flat_map]. fold (found (f :: fr) dr).
        rewrite (assocN_notin (fst d) (rev (f :: fr))).
        -- cbn [app]. apply IH; assumption.
        -- rewrite map_rev, <- in_rev. intro Hin. apply Hnd. exact (subseqb_incl _ _ Hs _ Hin).
Qed.

(* ------------------------------------------------------------------ lists of patterns, enums *)

Fixpoint wt_pats (P : program) (ps : list pattern) (ts : list ty) : option (list (N * ty)) :=
  match ps, ts with
  | [], [] => Some []
  | p :: pr, t :: tr =>
      if negb (ty_eqb (p_ty p) t) then None else
      match wt_pat P p, wt_pats P pr tr with
      | Some a, Some b => Some (a ++ b)
      | _, _ => None
      end
  | _, _ => None
  end.

Lemma wt_pat_tup P ps m ts : wt_pat P (Pat (PTup ps) m (TTup ts)) = wt_pats P ps ts.
Proof.
  cbn [wt_pat]. revert ts. induction ps as [|p ps IH]; intros [|t ts]; try reflexivity.
  cbn [wt_pats]. rewrite <- IH. reflexivity.
Qed.

Lemma wt_pat_enumtup P en v ps m n2 : wt_pat P (Pat (PEnumTup en v ps) m (TEnum n2)) =
  match assocN en (p_enums P) with
  | Some variants => if negb (en =? n2)%N then None else
                     match nthN variants v with Some ts => wt_pats P ps ts | None => None end
  | None => None
  end.
Proof.
  cbn [wt_pat]. destruct (assocN en (p_enums P)) as [variants|]; [|reflexivity].
  destruct (negb (en =? n2)%N); [reflexivity|]. destruct (nthN variants v) as [ts|]; [|reflexivity].
  rewrite <- (wt_pat_tup P ps m ts). reflexivity.
Qed.

Lemma zip_sizes_map P : forall ps ts bs, wt_pats P ps ts = Some bs ->
  map (fun fp => (fp, szn P (p_ty fp))) ps = zip_sizes P ps ts.
Proof.
  induction ps as [|p ps IH]; intros [|t ts] bs H; cbn [wt_pats] in H; try discriminate H; [reflexivity|].
  destruct (ty_eqb (p_ty p) t) eqn:Et; [|discriminate H]. cbn [negb] in H.
  destruct (wt_pat P p); [|discriminate H]. destruct (wt_pats P ps ts) as [b|] eqn:Eb; [|discriminate H].
  cbn [map zip_sizes]. rewrite (ty_eqb_szn P _ _ Et). f_equal. eapply IH. eassumption.
Qed.

Definition maxsz (P : program) (variants : list (list ty)) : nat :=
  fold_right (fun ts a => Nat.max (sumsz P ts) a) 0 variants.

Lemma maxsz_In P ts variants : In ts variants -> sumsz P ts <= maxsz P variants.
Proof.
  induction variants as [|v vs IH]; intro H; [contradiction|]. cbn [maxsz fold_right].
  destruct H as [->|H]; [lia|]. specialize (IH H). unfold maxsz in IH. lia.
Qed.

Lemma enum_fold_left P variants : forall acc,
  fold_left (fun mx ts => let s := fold_left (fun a t => a + szn P t) ts 0 in if mx <? s then s else mx) variants acc
  = Nat.max acc (maxsz P variants).
Proof.
  induction variants as [|v vs IH]; intro acc; cbn [fold_left maxsz fold_right]; [lia|].
  rewrite IH, fold_left_sumsz. cbn [Nat.add]. unfold maxsz.
  destruct (Nat.ltb_spec acc (sumsz P v)); lia.
Qed.

Lemma enum_max_size_eq P variants : enum_max_size P variants = maxsz P variants + enum_tag_size variants.
Proof. unfold enum_max_size. rewrite enum_fold_left. lia. Qed.

Lemma maxsz_N P variants :
  N.to_nat (fold_right N.max 0%N (map (fun ts => Sem.sum_map (Sem.sizeof P) ts) variants)) = maxsz P variants.
Proof.
  induction variants as [|v vs IH]; [reflexivity|]. cbn [map fold_right maxsz].
  rewrite N2Nat.inj_max, IH, sum_map_sumsz. reflexivity.
Qed.

Lemma szn_enum P name : tyok P (TEnum name) ->
  exists variants, assocN name (p_enums P) = Some variants /\ Forall (Forall (tyok P)) variants /\
    szn P (TEnum name) = enum_tag_size variants + maxsz P variants.
Proof.
  intro H. destruct (tyok_enum P name H) as (variants & Ev & Hf & Esz). exists variants.
  split; [exact Ev|]. split; [exact Hf|]. unfold szn. rewrite Esz, N2Nat.inj_add, maxsz_N. reflexivity.
Qed.

(* ------------------------------------------------------------------ the program as a whole *)

(* every function body is accepted by the re-checker under its parameters and the global
   constants (as [wt_program] checks) and satisfies the side conditions *)
Definition prog_ok (P : program) : Prop :=
  forall fname fd, find_fn P fname = Some fd ->
    (exists fw tb, wt_block fw P ([] :: tbind_all ([] :: [gscope P]) (fn_params fd) true) (fn_body fd) = Some tb /\
                   ty_eqb tb (fn_ret fd) = true) /\
    forallb (ok_stmt P) (fn_body fd) = true.

Definition fns_ok (P : program) : bool := forallb (fun d => forallb (ok_stmt P) (fn_body d)) (p_fns P).

Lemma prog_ok_of_wt P : wt_program P = true -> fns_ok P = true -> prog_ok P.
Proof.
  unfold wt_program, fns_ok. intros Hwt Hok fname fd Hf. apply andb_prop in Hwt as [_ Hwt].
  unfold find_fn in Hf. apply find_some in Hf as [Hin _].
  rewrite forallb_forall in Hwt, Hok. specialize (Hwt fd Hin). specialize (Hok fd Hin). split; [|exact Hok].
  unfold wt_fn in Hwt. rewrite consts_tenv_gscope in Hwt.
  destruct (wt_block wt_fuel P ([] :: tbind_all ([] :: [gscope P]) (fn_params fd) true) (fn_body fd)) as [tb|] eqn:Eb;
    [|discriminate Hwt].
  exists wt_fuel, tb. split; [exact Eb|exact Hwt].
Qed.

Lemma bind_all_shape P : forall (bindings : list (N * list bool)) params s r E, env_shape P (s :: r) E ->
  Forall2 (fun b p => fst b = fst p /\ length (snd b) = szn P (snd p)) bindings params ->
  exists E', bind_all E bindings = Ok E' /\ env_shape P (tbind_all (s :: r) params true) E'.
Proof.
  unfold bind_all, tbind_all.
  induction bindings as [|b bs IH]; intros params s r E Hs H; inversion H as [|? p ? ps [Hn Hl] Hr]; subst; cbn [fold_left].
  - exists E. split; [reflexivity|exact Hs].
  - cbn [bind]. destruct (env_shape_let P s r E (fst b) (snd p) true (snd b) Hs Hl) as (E1 & -> & S1).
    rewrite <- Hn. cbn [tbind] in *. eapply IH; eassumption.
Qed.

Lemma rewrite_one_operand a y m t op e' : rewrite_one a y m t = Some (op, e') -> op = y.
Proof.
  unfold rewrite_one. destruct (lit_info a) as [[[n bits] neg]|]; [|discriminate].
  destruct (n =? 0)%N; [discriminate|]. destruct (n <? bits)%N; [|discriminate]. now intros [= <- _].
Qed.

Lemma mul_rewrite_operand x y m t op e' : mul_rewrite x y m t = Some (op, e') -> op = x \/ op = y.
Proof.
  unfold mul_rewrite. destruct (rewrite_one x y m t) as [[o1 e1]|] eqn:E1.
  - intros [= <- _]. right. eapply rewrite_one_operand; eassumption.
  - intro H. left. eapply rewrite_one_operand; eassumption.
Qed.

Section Step.
  Variable P : program.
  Variable eB : expr -> benv -> MB (list bool * benv).
  Variable pB : pattern -> list bool -> benv -> MB (bool * benv).
  Variable sB : stmt -> benv -> MB (list bool * benv).
  Variable bB : list stmt -> benv -> MB (list bool * benv).

  Definition HE_hyp : Prop := forall e g E fw, wt_expr fw P g e = true -> ok_expr P e = true ->
    genv P g -> env_shape P g E -> safe (eB e E) (epost P g (e_ty e)).
  Definition HB_hyp : Prop := forall b g E fw t, wt_block fw P ([] :: g) b = Some t ->
    forallb (ok_stmt P) b = true -> genv P g -> env_shape P g E -> safe (bB b E) (epost P g t).
  (* the rewriting of multiplications by small literals *)
  (* the sum runs in a scope of its own in which the reserved name is bound to the operand *)
  Definition HM_hyp : Prop := forall x y m t operand e' g E fw s b,
    wt_expr fw P g x = true -> wt_expr fw P g y = true -> ok_expr P x = true -> ok_expr P y = true ->
    t = TInt s b -> node_ok P t = true -> ty_eqb (e_ty x) t = true -> ty_eqb (e_ty y) t = true ->
    mul_rewrite x y m t = Some (operand, e') -> genv P g ->
    env_shape P (tbind ([] :: g) MUL_TMP (e_ty operand) false) E ->
    safe (eB e' E) (epost P (tbind ([] :: g) MUL_TMP (e_ty operand) false) t).

  Hypothesis HE : HE_hyp.
  Hypothesis HB : HB_hyp.
  Hypothesis HM : HM_hyp.

  Lemma HE_ty e g E fw t : wt_expr fw P g e = true -> ok_expr P e = true -> genv P g -> env_shape P g E ->
    ty_eqb (e_ty e) t = true -> safe (eB e E) (epost P g t).
  Proof.
    intros. eapply safe_conseq; [eapply HE; eassumption|]. intros [w E'] [L S]. split; [|exact S].
    cbn [fst] in *. rewrite L. now apply ty_eqb_szn.
  Qed.

  Lemma ok_expr_node e : ok_expr P e = true -> node_ok P (e_ty e) = true.
  Proof. destruct e as [ei m t]. cbn [ok_expr e_ty]. intro H. now apply andb_prop in H as [H _]. Qed.

  Lemma int_len (w : list bool) t s b : node_ok P (TInt s b) = true -> length w = szn P t ->
    szn P t = szn P (TInt s b) -> In (length w) [8; 16; 32; 64] /\ w <> [].
  Proof.
    intros Hn L E. rewrite szn_int in E. pose proof (node_ok_width _ _ _ Hn) as Hw. rewrite L, E.
    split; [exact Hw|]. apply nonempty_pos. rewrite L, E. now apply in_widths_pos.
  Qed.

  Lemma one_wire_safe (w : list bool) : length w = 1 -> safe (one_wire w) TT.
  Proof. destruct w as [|a [|b w]]; try discriminate. intros _ o. exact I. Qed.

  Lemma concat_length_const {A} (ls : list (list A)) k : Forall (fun l => length l = k) ls ->
    length (concat ls) = k * length ls.
  Proof.
    induction 1 as [|l ls Hl _ IH]; cbn [concat length]; [lia|]. rewrite app_length, Hl, IH. lia.
  Qed.

  Lemma expr_step_simple ei m t g E fw :
    wt_expr (S fw) P g (Ex ei m t) = true -> ok_expr P (Ex ei m t) = true -> genv P g -> env_shape P g E ->
    match ei with
    | ETrue | EFalse | ENumU _ _ | ENumS _ _ | EId _ | ENeg _ | ENot _ | ECast _ _ | EIf _ _ _
    | EBlock _ | ERange _ _ _ => True
    | _ => False
    end ->
    safe (lower_expr_body tops P eB pB bB (Ex ei m t) E) (epost P g t).
  Proof.
    intros Hwt Hok Hg Hs Hc. cbn [ok_expr] in Hok. apply andb_prop in Hok as [Hn Hok].
    pose proof (node_ok_tyok _ _ Hn) as Hty.
    destruct ei; try contradiction; cbn [wt_expr] in Hwt.
    - (* ETrue *) apply safe_ret. split; [|exact Hs]. rewrite (is_bool_inv _ Hwt). now rewrite szn_bool.
    - apply safe_ret. split; [|exact Hs]. rewrite (is_bool_inv _ Hwt). now rewrite szn_bool.
    - apply safe_ret. split; [|exact Hs]. apply as_wires_length_u.
    - apply safe_ret. split; [|exact Hs]. apply as_wires_length_s.
    - (* EId *) cbn [lower_expr_body]. destruct (tlookup g name) as [[tx mx]|] eqn:El; [|discriminate].
      destruct (env_shape_get P g E name tx mx Hs El) as (v & -> & L).
      apply safe_ret. split; [|exact Hs]. cbn [fst]. rewrite L. now apply ty_eqb_szn.
    - (* ENeg *) andb_split Hwt. rewrite lower_neg_case.
      eapply safe_bind; [eapply HE_ty; eassumption|]. intros [x E1] [L S]. cbn [fst snd] in L, S.
      destruct t as [|[] b| | | |]; try discriminate Hwt.
      destruct (int_len x _ _ _ Hn L eq_refl) as [_ Hne].
      intro o. rewrite neg_steps_correct by exact Hne. split; [|exact S]. cbn [fst]. now rewrite length_enc.
    - (* ENot *) andb_split Hwt. cbn [lower_expr_body].
      eapply safe_bind; [eapply HE_ty; eassumption|]. intros [x E1] [L S]. cbn [fst snd] in L, S.
      eapply safe_bind; [apply safe_mapM; intro; apply safe_not|]. intros r Hr.
      apply safe_ret. split; [|exact S]. cbn [fst]. congruence.
    - (* EBlock *) cbn [lower_expr_body].
      destruct (wt_block fw P ([] :: g) b) as [tb|] eqn:Eb; [|discriminate].
      eapply safe_conseq; [eapply HB; eassumption|]. intros [w E'] [L S]. split; [|exact S].
      cbn [fst] in *. rewrite L. now apply ty_eqb_szn.
    - (* EIf *) andb_split Hwt. andb_split Hok. cbn [lower_expr_body].
      eapply safe_bind; [eapply HE; eassumption|]. intros [cw E0] [L0 S0]. cbn [fst snd] in L0, S0.
      rewrite (is_bool_inv _ Hwt), szn_bool in L0.
      eapply safe_bind; [apply safe_peek|]. intros P0 _.
      eapply safe_bind; [now apply one_wire_safe|]. intros c0 _.
      eapply safe_bind; [eapply HE_ty; eassumption|]. intros [tw ET] [LT ST]. cbn [fst snd] in LT, ST.
      eapply safe_bind; [apply safe_replace|]. intros PT _.
      eapply safe_bind; [eapply HE_ty; eassumption|]. intros [fw' EF] [LF SF]. cbn [fst snd] in LF, SF.
      eapply safe_bind; [apply safe_replace|]. intros PF _.
      eapply safe_bind; [apply (mux_envs_safe P c0 g); assumption|]. intros E' SE'.
      eapply safe_bind; [apply safe_mux_panic|]. intros Pm _.
      eapply safe_bind; [apply safe_replace|]. intros _ _.
      eapply safe_bind; [apply safe_mux_bits; congruence|]. intros r Hr.
      apply safe_ret. split; [|exact SE']. cbn [fst]. congruence.
    - (* ECast *) andb_split Hwt. cbn [lower_expr_body].
      eapply safe_bind; [eapply HE; eassumption|]. intros [w E1] [L S]. cbn [fst snd] in L, S.
      unfold epost. rewrite <- (ty_eqb_szn P _ _ Hwt).
      destruct (Nat.eqb_spec (szn P to) (length w)) as [E0|NE].
      + apply safe_ret. split; [now symmetry|exact S].
      + destruct (Nat.ltb_spec (szn P to) (length w)) as [Hlt|Hge].
        * apply safe_ret. split; [|exact S]. cbn [fst]. apply tsem_truncate_correct. lia.
        * eapply safe_bind; [apply extend_safe; lia|]. intros w' Hw'. apply safe_ret. split; [exact Hw'|exact S].
    - (* ERange *) andb_split Hwt. cbn [lower_expr_body].
      apply N.leb_le in Hwt. destruct (N.ltb_spec hi lo) as [H|_]; [lia|].
      apply safe_ret. split; [|exact Hs]. cbn [fst].
      rewrite (ty_eqb_szn P _ _ Hwt0), szn_arr by (eapply ty_eqb_tyok; eassumption). rewrite szn_int.
      rewrite (concat_length_const _ (N.to_nat bits)).
      + now rewrite map_length, seq_length.
      + apply Forall_forall. intros l Hl. apply in_map_iff in Hl as (k & <- & _). apply as_wires_length_u.
  Qed.

  Lemma expr_step_op o x y m t g E fw :
    wt_expr (S fw) P g (Ex (EOp o x y) m t) = true -> ok_expr P (Ex (EOp o x y) m t) = true ->
    genv P g -> env_shape P g E ->
    safe (lower_expr_body tops P eB pB bB (Ex (EOp o x y) m t) E) (epost P g t).
  Proof.
    intros Hwt Hok Hg Hs. cbn [ok_expr] in Hok. apply andb_prop in Hok as [Hn Hok].
    apply andb_prop in Hok as [Hokx Hoky].
    cbn [wt_expr] in Hwt. apply andb_prop in Hwt as [Hwt Hm]. apply andb_prop in Hwt as [Hwx Hwy].
    assert (Hshort : forall (land : bool), is_bool t = true -> is_bool (e_ty x) = true -> is_bool (e_ty y) = true ->
      safe (mbind (eB x E) (fun '(xw, E1) => mbind (one_wire xw) (fun x0 => mbind (m_peek tops) (fun Pb =>
            mbind (eB y E1) (fun '(yw, E2) => mbind (one_wire yw) (fun y0 =>
            mbind (if land then mux_envs tops x0 E2 E1 else mux_envs tops x0 E1 E2) (fun E3 =>
            mbind (m_peek tops) (fun Pa =>
            mbind (if land then m_mux_panic tops x0 Pa Pb else m_mux_panic tops x0 Pb Pa) (fun Pm =>
            mbind (m_replace tops Pm) (fun _ =>
            mbind (if land then m_and tops x0 y0 else m_or tops x0 y0) (fun r => ret ([r], E3))))))))))))
           (epost P g t)).
    { intros land Ht Hx Hy.
      eapply safe_bind; [eapply HE; eassumption|]. intros [xw E1] [L1 S1]. cbn [fst snd] in L1, S1.
      rewrite (is_bool_inv _ Hx), szn_bool in L1.
      eapply safe_bind; [now apply one_wire_safe|]. intros x0 _.
      eapply safe_bind; [apply safe_peek|]. intros Pb _.
      eapply safe_bind; [eapply HE; eassumption|]. intros [yw E2] [L2 S2]. cbn [fst snd] in L2, S2.
      rewrite (is_bool_inv _ Hy), szn_bool in L2.
      eapply safe_bind; [now apply one_wire_safe|]. intros y0 _.
      eapply safe_bind; [destruct land; apply (mux_envs_safe P x0 g); assumption|]. intros E3 S3.
      eapply safe_bind; [apply safe_peek|]. intros Pa _.
      eapply safe_bind; [destruct land; apply safe_mux_panic|]. intros Pm _.
      eapply safe_bind; [apply safe_replace|]. intros _ _.
      eapply safe_bind; [destruct land; [apply safe_and|apply safe_or]|]. intros r _.
      apply safe_ret. split; [|exact S3]. cbn [fst length]. now rewrite (is_bool_inv _ Ht), szn_bool. }
    assert (Hshift : forall left, is_int t = true -> ty_eqb (e_ty x) t = true -> ty_eqb (e_ty y) (TInt false 8) = true ->
      safe (mbind (eB x E) (fun '(xw, E1) => mbind (eB y E1) (fun '(yw, E2) =>
            mbind (lower_shift tops left (is_signed (e_ty x)) xw yw m) (fun r => ret (r, E2)))))
           (epost P g t)).
    { intros left Ht Hx Hy.
      eapply safe_bind; [eapply HE_ty; eassumption|]. intros [xw E1] [L1 S1]. cbn [fst snd] in L1, S1.
      eapply safe_bind; [eapply HE_ty; eassumption|]. intros [yw E2] [L2 S2]. cbn [fst snd] in L2, S2.
      rewrite szn_int in L2. destruct (is_int_inv _ Ht) as (s & b & ->).
      destruct (int_len xw _ _ _ Hn L1 eq_refl) as [Hw _].
      eapply safe_bind; [apply shift_safe; [exact L2|exact Hw]|]. intros r Hr.
      apply safe_ret. split; [cbn [fst]; congruence|exact S2]. }
    assert (Harith : forall o', arith_op o' = true -> is_int t = true \/ is_bool t = true ->
      ty_eqb (e_ty x) t = true -> ty_eqb (e_ty y) t = true ->
      safe (mbind (eB x E) (fun '(xw, E1) => mbind (eB y E1) (fun '(yw, E2) =>
            mbind (lower_binop tops o' t (e_ty x) (e_ty y) xw yw m) (fun r => ret (r, E2)))))
           (epost P g t)).
    { intros o' Ho Ht Hx Hy.
      eapply safe_bind; [eapply HE_ty; eassumption|]. intros [xw E1] [L1 S1]. cbn [fst snd] in L1, S1.
      eapply safe_bind; [eapply HE_ty; eassumption|]. intros [yw E2] [L2 S2]. cbn [fst snd] in L2, S2.
      assert (xw <> []) as Hne.
      { destruct Ht as [Ht|Ht].
        - destruct (is_int_inv _ Ht) as (s & b & ->). now destruct (int_len xw _ _ _ Hn L1 eq_refl).
        - apply nonempty_pos. rewrite L1, (is_bool_inv _ Ht), szn_bool. lia. }
      eapply safe_bind; [apply arith_safe; [exact Hne|congruence|exact Ho]|]. intros r Hr.
      apply safe_ret. split; [cbn [fst]; congruence|exact S2]. }
    assert (Hcmp : forall o', match o' with OGt | OLt | OEq | ONe => True | _ => False end ->
      is_bool t = true -> ty_eqb (e_ty x) (e_ty y) = true ->
      safe (mbind (eB x E) (fun '(xw, E1) => mbind (eB y E1) (fun '(yw, E2) =>
            mbind (lower_binop tops o' t (e_ty x) (e_ty y) xw yw m) (fun r => ret (r, E2)))))
           (epost P g t)).
    { intros o' Ho Ht Hxy.
      eapply safe_bind; [eapply HE; eassumption|]. intros [xw E1] [L1 S1]. cbn [fst snd] in L1, S1.
      eapply safe_bind; [eapply HE; eassumption|]. intros [yw E2] [L2 S2]. cbn [fst snd] in L2, S2.
      eapply safe_bind; [apply cmp_safe; [rewrite L1, L2; now apply ty_eqb_szn|exact Ho]|]. intros r Hr.
      apply safe_ret. split; [|exact S2]. cbn [fst]. now rewrite Hr, (is_bool_inv _ Ht), szn_bool. }
    destruct o; cbn [lower_expr_body]; andb_split Hm;
      try (apply Harith; [reflexivity|auto using orb_prop|assumption|assumption]);
      try (apply Hcmp; [exact I|assumption|assumption]).
    - (* OMul *) destruct (mul_rewrite x y m t) as [[operand e']|] eqn:Er.
      + destruct (is_int_inv _ Hm) as (s & b & ->).
        assert (wt_expr fw P g operand = true /\ ok_expr P operand = true) as [Hwo Hoko].
        { destruct (mul_rewrite_operand _ _ _ _ _ _ Er) as [->| ->]; split; assumption. }
        eapply safe_bind; [eapply HE; eassumption|]. intros [w E1] [L1 S1]. cbn [fst snd] in L1, S1.
        destruct (env_shape_let P [] g (env_push E1) MUL_TMP (e_ty operand) false w (env_shape_push P g E1 S1) L1)
          as (E2 & HE2 & S2).
        eapply safe_lift_bind; [exact HE2|].
        eapply safe_bind; [eapply (HM x y m (TInt s b) operand e' g E2 fw s b); try eassumption; reflexivity|].
        intros [r0 E3] [L3 S3]. cbn [fst snd] in L3, S3. cbn [tbind] in S3.
        destruct (env_shape_pop P _ _ _ S3) as (E4 & HE4 & S4).
        eapply safe_lift_bind; [exact HE4|]. apply safe_ret. split; assumption.
      + apply Harith; [reflexivity|now left|assumption|assumption].
    - apply (Hshift true); assumption.
    - apply (Hshift false); assumption.
    - apply (Hshort true); assumption.
    - apply (Hshort false); assumption.
  Qed.

  (* ---------------------------------------------------------------- aggregates *)

  Lemma lower_list_safe g fw : forall es ts E,
    Forall2 (fun e t => ty_eqb (e_ty e) t && wt_expr fw P g e = true) es ts ->
    forallb (ok_expr P) es = true -> genv P g -> env_shape P g E ->
    safe (lower_list eB es E)
         (fun r => Forall2 (fun w t => length w = szn P t) (fst r) ts /\ env_shape P g (snd r)).
  Proof.
    induction es as [|e es IH]; intros ts E H Hok Hg Hs; inversion H as [|? t ? ts' Hh Ht]; subst; cbn [lower_list].
    - apply safe_ret. split; [constructor|exact Hs].
    - cbn [forallb] in Hok. apply andb_prop in Hok as [Hok1 Hok2]. apply andb_prop in Hh as [Hty Hwt].
      eapply safe_bind; [eapply HE_ty; eassumption|]. intros [w E1] [L1 S1]. cbn [fst snd] in L1, S1.
      eapply safe_bind; [eapply IH; eassumption|]. intros [ws E2] [L2 S2]. cbn [fst snd] in L2, S2.
      apply safe_ret. split; [constructor; assumption|exact S2].
  Qed.

  Lemma forallb_Forall2_repeat {A B} (f : A -> B -> bool) (b : B) xs : forallb (fun x => f x b) xs = true ->
    Forall2 (fun x y => f x y = true) xs (repeat b (length xs)).
  Proof.
    induction xs as [|x xs IH]; cbn [forallb length repeat]; intro H; [constructor|].
    apply andb_prop in H as [H1 H2]. constructor; [exact H1|now apply IH].
  Qed.

  Lemma expr_step_agg ei m t g E fw :
    wt_expr (S fw) P g (Ex ei m t) = true -> ok_expr P (Ex ei m t) = true -> genv P g -> env_shape P g E ->
    match ei with
    | EArrLit _ | EArrRep _ _ | ETupLit _ | ETupAcc _ _ | EFld _ _ => True
    | _ => False
    end ->
    safe (lower_expr_body tops P eB pB bB (Ex ei m t) E) (epost P g t).
  Proof.
    intros Hwt Hok Hg Hs Hc. cbn [ok_expr] in Hok. apply andb_prop in Hok as [Hn Hok].
    pose proof (node_ok_tyok _ _ Hn) as Hty.
    destruct ei; try contradiction; cbn [wt_expr] in Hwt; cbn [lower_expr_body].
    - (* EArrLit *) destruct t as [| |el n| | |]; try discriminate. apply andb_prop in Hwt as [Hlen Hall].
      apply N.eqb_eq in Hlen.
      eapply safe_bind; [eapply (lower_list_safe g fw es (repeat el (length es))); try eassumption|].
      + now apply (forallb_Forall2_repeat (fun e t => ty_eqb (e_ty e) t && wt_expr fw P g e)).
      + intros [ws E1] [L1 S1]. cbn [fst snd] in L1, S1. apply safe_ret. split; [|exact S1]. cbn [fst].
        rewrite (concat_sumsz P _ _ L1), sumsz_repeat, szn_arr by exact Hty. unfold lenN in Hlen. f_equal. lia.
    - (* EArrRep *) destruct t as [| |el n2| | |]; try discriminate. andb_split Hwt. apply N.eqb_eq in Hwt. subst n2.
      eapply safe_bind; [eapply HE; eassumption|]. intros [w E1] [L1 S1]. cbn [fst snd] in L1, S1.
      eapply safe_bind; [apply extend_safe; lia|]. intros w' Hw'.
      apply safe_ret. split; [|exact S1]. cbn [fst].
      rewrite (concat_length_const _ (szn P (e_ty e))).
      + rewrite repeat_length, szn_arr by exact Hty. now rewrite (ty_eqb_szn P _ _ Hwt1).
      + apply Forall_forall. intros l Hl. apply repeat_spec in Hl. now subst l.
    - (* ETupLit *) destruct t as [| | |ts| |]; try discriminate.
      eapply safe_bind; [eapply (lower_list_safe g fw es ts); try eassumption|].
      + now apply forallb2_Forall2 in Hwt.
      + intros [ws E1] [L1 S1]. cbn [fst snd] in L1, S1. apply safe_ret. split; [|exact S1]. cbn [fst].
        now rewrite (concat_sumsz P _ _ L1), szn_tup.
    - (* ETupAcc *) destruct (e_ty e) as [| | |ts| |] eqn:Ee; try discriminate.
      destruct (nthN ts i) as [ti|] eqn:Ei; [|discriminate]. apply andb_prop in Hwt as [Hti Hwe].
      cbn [tuple_offsets]. rewrite Ei. eapply safe_lift_bind; [reflexivity|].
      eapply safe_bind; [eapply HE; eassumption|]. intros [w E1] [L1 S1]. cbn [fst snd] in L1, S1.
      pose proof (ok_expr_node _ Hok) as Hne. rewrite Ee in Hne, L1. apply node_ok_tyok in Hne.
      rewrite szn_tup in L1 by exact Hne. rewrite nthN_spec in Ei.
      rewrite fold_left_sumsz. cbn [Nat.add].
      destruct (slice_ok w (sumsz P (firstn (N.to_nat i) ts)) (szn P ti)) as (r0 & Hr0 & Lr0).
      { rewrite L1. now apply sumsz_nth. }
      eapply safe_lift_bind; [exact Hr0|]. apply safe_ret. split; [|exact S1]. cbn [fst].
      rewrite Lr0. now apply ty_eqb_szn.
    - (* EFld *) destruct (e_ty e) as [| | | |name|] eqn:Ee; try discriminate.
      destruct (assocN name (p_structs P)) as [def|] eqn:Ed; [|discriminate].
      destruct (assocN fld def) as [ft|] eqn:Ef; [|discriminate]. apply andb_prop in Hwt as [Hft Hwe].
      eapply safe_bind; [eapply HE; eassumption|]. intros [w E1] [L1 S1]. cbn [fst snd] in L1, S1.
      pose proof (ok_expr_node _ Hok) as Hne. rewrite Ee in Hne, L1. apply node_ok_tyok in Hne.
      destruct (tyok_struct P name Hne) as (def' & Ed' & _ & Esz). rewrite Ed in Ed'. injection Ed' as <-.
      unfold szn in L1. rewrite Esz, sumsz_fields in L1.
      cbn [struct_offsets]. rewrite Ed.
      destruct (field_offsets_ok P def fld ft 0 Ef) as (wb & Hwb & Hle).
      eapply safe_lift_bind; [exact Hwb|].
      destruct (slice_ok w wb (szn P ft)) as (r0 & Hr0 & Lr0); [lia|].
      eapply safe_lift_bind; [exact Hr0|]. apply safe_ret. split; [|exact S1]. cbn [fst].
      rewrite Lr0. now apply ty_eqb_szn.
  Qed.

  Lemma node_ok_arr_len el n : node_ok P (TArr el n) = true -> N.to_nat n <= 2 ^ 32.
  Proof.
    unfold node_ok. intro H. apply andb_prop in H as [_ H]. apply N.leb_le in H.
    assert (N.to_nat n <= N.to_nat (2 ^ 32)%N) as H' by lia.
    rewrite N2Nat.inj_pow in H'. exact H'.
  Qed.

  Lemma idx_ok_len (w : list bool) t : idx_ok t = true -> length w = szn P t -> length w <= 32.
  Proof.
    destruct t; try discriminate. cbn [idx_ok]. intros H L. rewrite szn_int in L. apply N.leb_le in H. lia.
  Qed.

  Lemma expr_step_idx a i m t g E fw :
    wt_expr (S fw) P g (Ex (EIdx a i) m t) = true -> ok_expr P (Ex (EIdx a i) m t) = true ->
    genv P g -> env_shape P g E ->
    safe (lower_expr_body tops P eB pB bB (Ex (EIdx a i) m t) E) (epost P g t).
  Proof.
    intros Hwt Hok Hg Hs. cbn [ok_expr] in Hok. apply andb_prop in Hok as [Hn Hok].
    apply andb_prop in Hok as [Hok Hoki]. apply andb_prop in Hok as [Hidx Hoka].
    cbn [wt_expr] in Hwt. cbn [lower_expr_body].
    destruct (e_ty a) as [| |el n| | |] eqn:Ea; try discriminate.
    apply andb_prop in Hwt as [Hwt Hwi]. apply andb_prop in Hwt as [Hwt Hwa]. apply andb_prop in Hwt as [Hel Hun].
    cbn [array_size]. eapply safe_lift_bind; [reflexivity|].
    eapply safe_bind; [eapply HE; eassumption|]. intros [arr E1] [L1 S1]. cbn [fst snd] in L1, S1.
    eapply safe_bind; [eapply HE; eassumption|]. intros [idx E2] [L2 S2]. cbn [fst snd] in L2, S2.
    pose proof (ok_expr_node _ Hoka) as Hna. rewrite Ea in Hna, L1.
    rewrite szn_arr in L1 by (now apply node_ok_tyok). rewrite (ty_eqb_szn P _ _ Hel) in L1.
    eapply safe_bind; [apply (array_read_safe arr idx (szn P t) (N.to_nat n)); [|lia|]|].
    - eapply idx_ok_len; eassumption.
    - eapply node_ok_arr_len; eassumption.
    - intros [r0 ix] [Lr _]. cbn [fst] in Lr. apply safe_ret. split; [exact Lr|exact S2].
  Qed.

  Lemma filter_rev' {A} (f : A -> bool) l : filter f (rev l) = rev (filter f l).
  Proof.
    induction l as [|a l IH]; [reflexivity|]. cbn [rev filter]. rewrite filter_app, IH. cbn [filter].
    destruct (f a); [reflexivity|now rewrite app_nil_r].
  Qed.

  Lemma assoc_filter {A} k (l : list (N * A)) :
    assocN k l = match filter (fun p => (fst p =? k)%N) l with [] => None | p :: _ => Some (snd p) end.
  Proof.
    induction l as [|[k' v] l IH]; [reflexivity|]. cbn [assocN filter fst]. rewrite N.eqb_sym.
    destruct (k' =? k)%N; [reflexivity|exact IH].
  Qed.

  Lemma lower_struct_fields_safe g fw (fields : list (N * expr)) : genv P g ->
    forallb (fun fe => ok_expr P (snd fe)) fields = true -> forall (ds : list (N * ty)) E,
    forallb (fun d => match filter (fun fe => (fst fe =? fst d)%N) fields with
                      | [(_, fe)] => ty_eqb (e_ty fe) (snd d) && wt_expr fw P g fe
                      | _ => false
                      end) ds = true ->
    env_shape P g E ->
    safe (lower_struct_fields eB fields ds E)
         (fun r => Forall2 (fun w t => length w = szn P t) (fst r) (map snd ds) /\ env_shape P g (snd r)).
  Proof.
    intros Hg Hokf. induction ds as [|[fname fty] ds IH]; intros E Hwt Hs; cbn [lower_struct_fields map].
    - apply safe_ret. split; [constructor|exact Hs].
    - cbn [forallb fst snd] in Hwt. apply andb_prop in Hwt as [Hd Hwt].
      destruct (filter (fun fe => (fst fe =? fname)%N) fields) as [|[k fe] [|]] eqn:Ef; try discriminate Hd.
      apply andb_prop in Hd as [Hty Hwe].
      rewrite assoc_filter, filter_rev', Ef. cbn [rev app snd].
      assert (In (k, fe) fields) as Hin.
      { assert (In (k, fe) (filter (fun fe => (fst fe =? fname)%N) fields)) as H0 by (rewrite Ef; now left).
        now apply filter_In in H0. }
      rewrite forallb_forall in Hokf. pose proof (Hokf _ Hin) as Hokfe. cbn [snd] in Hokfe.
      eapply safe_bind; [eapply HE_ty; eassumption|]. intros [w E1] [L1 S1]. cbn [fst snd] in L1, S1.
      eapply safe_bind; [eapply IH; eassumption|]. intros [ws E2] [L2 S2]. cbn [fst snd] in L2, S2.
      apply safe_ret. split; [constructor; assumption|exact S2].
  Qed.

  Lemma expr_step_struct name fields m t g E fw :
    wt_expr (S fw) P g (Ex (EStructLit name fields) m t) = true -> ok_expr P (Ex (EStructLit name fields) m t) = true ->
    genv P g -> env_shape P g E ->
    safe (lower_expr_body tops P eB pB bB (Ex (EStructLit name fields) m t) E) (epost P g t).
  Proof.
    intros Hwt Hok Hg Hs. cbn [ok_expr] in Hok. apply andb_prop in Hok as [Hn Hok].
    pose proof (node_ok_tyok _ _ Hn) as Hty. cbn [wt_expr] in Hwt. cbn [lower_expr_body].
    destruct t as [| | | |n2|]; try discriminate Hwt.
    destruct (assocN name (p_structs P)) as [def|] eqn:Ed; [|discriminate Hwt].
    apply andb_prop in Hwt as [Hwt Hall]. apply andb_prop in Hwt as [Hname _]. apply N.eqb_eq in Hname. subst n2.
    destruct (tyok_struct P name Hty) as (def' & Ed' & _ & Esz). rewrite Ed in Ed'. injection Ed' as <-.
    eapply safe_bind; [eapply lower_struct_fields_safe; eassumption|].
    intros [ws E1] [L1 S1]. cbn [fst snd] in L1, S1. apply safe_ret. split; [|exact S1]. cbn [fst].
    rewrite (concat_sumsz P _ _ L1). unfold szn. now rewrite Esz, sumsz_fields.
  Qed.

  (* ---------------------------------------------------------------- patterns *)

  Definition ppost (g : tenv) (bs : list (N * ty)) : bool * benv -> Prop :=
    fun r => env_shape P (tbind_all g bs false) (snd r).

  Definition HP_hyp : Prop := forall p s r E mw bs, wt_pat P p = Some bs -> ok_pat P p = true ->
    tyok P (p_ty p) -> env_shape P (s :: r) E -> length mw = szn P (p_ty p) ->
    safe (pB p mw E) (ppost (s :: r) bs).

  Hypothesis HP : HP_hyp.

  Lemma eq_acc_safe acc xys : safe (eq_acc tops acc xys) TT.
  Proof. intro o. rewrite eq_acc_tops. exact I. Qed.

  Lemma comparator_safe bits (x : list bool) sx (y : list bool) sy : bits <= length x -> bits <= length y ->
    safe (o_comparator tops bits x sx y sy) TT.
  Proof.
    intros Hx Hy o. cbn [o_comparator tops].
    destruct (Nat.leb_spec bits (length x)); [|lia]. destruct (Nat.leb_spec bits (length y)); [|lia]. exact I.
  Qed.

  Lemma pat_step_simple pi m t s r E mw bs :
    wt_pat P (Pat pi m t) = Some bs -> ok_pat P (Pat pi m t) = true -> tyok P t ->
    env_shape P (s :: r) E -> length mw = szn P t ->
    match pi with
    | PId _ | PTrue | PFalse | PNumU _ | PNumS _ | PURange _ _ | PSRange _ _ => True
    | _ => False
    end ->
    safe (lower_pattern_body tops P pB (Pat pi m t) mw E) (ppost (s :: r) bs).
  Proof.
    intros Hwt Hok Hty Hs L Hc.
    assert (Hrange : forall lo hi : list bool, length lo = szn P t -> length hi = szn P t -> bs = [] ->
      safe (mbind (o_comparator tops (szn P t) mw (is_signed t) lo (is_signed t)) (fun '(lt_min, _) =>
            mbind (o_comparator tops (szn P t) mw (is_signed t) hi (is_signed t)) (fun '(_, gt_max) =>
            mbind (m_not tops lt_min) (fun a => mbind (m_not tops gt_max) (fun c =>
            mbind (m_and tops a c) (fun r0 => ret (r0, E))))))) (ppost (s :: r) bs)).
    { intros lo hi Hlo Hhi ->.
      eapply safe_bind; [apply comparator_safe; lia|]. intros [lt_min ?] _.
      eapply safe_bind; [apply comparator_safe; lia|]. intros [? gt_max] _.
      eapply safe_bind; [apply safe_not|]. intros a _. eapply safe_bind; [apply safe_not|]. intros c _.
      eapply safe_bind; [apply safe_and|]. intros r0 _. apply safe_ret. exact Hs. }
    assert (Heq : forall n : list bool, bs = [] ->
      safe (if length mw <? szn P t then crash else
            mbind (eq_acc tops (wT tops) (combine n (firstn (szn P t) mw))) (fun acc => ret (acc, E)))
           (ppost (s :: r) bs)).
    { intros n ->. destruct (Nat.ltb_spec (length mw) (szn P t)); [lia|].
      eapply safe_bind; [apply eq_acc_safe|]. intros acc _. apply safe_ret. exact Hs. }
    destruct pi; try contradiction; cbn [wt_pat] in Hwt; cbn [lower_pattern_body].
    - (* PId *) injection Hwt as <-.
      destruct (env_shape_let P s r E name t false mw Hs L) as (E' & HE' & S').
      eapply safe_lift_bind; [exact HE'|]. apply safe_ret. exact S'.
    - (* PTrue *) destruct (is_bool t) eqn:Hb; [|discriminate]. injection Hwt as <-.
      rewrite (is_bool_inv _ Hb), szn_bool in L.
      eapply safe_bind; [now apply one_wire_safe|]. intros w _. apply safe_ret. exact Hs.
    - destruct (is_bool t) eqn:Hb; [|discriminate]. injection Hwt as <-.
      rewrite (is_bool_inv _ Hb), szn_bool in L.
      eapply safe_bind; [now apply one_wire_safe|]. intros w _.
      eapply safe_bind; [apply safe_not|]. intros n _. apply safe_ret. exact Hs.
    - destruct (lit_fits t (Z.of_N n)); [|discriminate]. injection Hwt as <-. now apply Heq.
    - destruct (lit_fits t z); [|discriminate]. injection Hwt as <-. now apply Heq.
    - destruct (lit_fits t (Z.of_N lo) && lit_fits t (Z.of_N hi)); [|discriminate]. injection Hwt as <-.
      apply Hrange; [apply as_wires_length_u|apply as_wires_length_u|reflexivity].
    - destruct (lit_fits t lo && lit_fits t hi); [|discriminate]. injection Hwt as <-.
      apply Hrange; [apply as_wires_length_s|apply as_wires_length_s|reflexivity].
  Qed.

  Lemma tbind_all_app g a b m : tbind_all g (a ++ b) m = tbind_all (tbind_all g a m) b m.
  Proof. unfold tbind_all. apply fold_left_app. Qed.

  Lemma fields_safe (mw : list bool) : forall ps ts bs w im s r E, wt_pats P ps ts = Some bs ->
    forallb (ok_pat P) ps = true -> Forall (tyok P) ts -> w + sumsz P ts <= length mw -> env_shape P (s :: r) E ->
    safe (fields_match tops pB mw (zip_sizes P ps ts) w im E) (ppost (s :: r) bs).
  Proof.
    induction ps as [|p ps IH]; intros [|t ts] bs w im s r E Hwt Hok Hty Hle Hs; cbn [wt_pats] in Hwt;
      try discriminate Hwt; cbn [zip_sizes fields_match].
    - injection Hwt as <-. apply safe_ret. exact Hs.
    - destruct (ty_eqb (p_ty p) t) eqn:Et; [|discriminate Hwt]. cbn [negb] in Hwt.
      destruct (wt_pat P p) as [a|] eqn:Ea; [|discriminate Hwt].
      destruct (wt_pats P ps ts) as [b|] eqn:Eb; [|discriminate Hwt]. injection Hwt as <-.
      cbn [forallb] in Hok. apply andb_prop in Hok as [Hok1 Hok2]. inversion Hty as [|? ? Ht1 Ht2]; subst.
      cbn [sumsz] in Hle.
      destruct (slice_ok mw w (szn P t)) as (sub & Hsub & Lsub); [lia|].
      eapply safe_lift_bind; [exact Hsub|].
      eapply safe_bind; [eapply HP; try eassumption|].
      + eapply ty_eqb_tyok'; eassumption.
      + rewrite Lsub. symmetry. now apply ty_eqb_szn.
      + intros [fm E1] S1. unfold ppost in S1. cbn [snd] in S1. rewrite tbind_all_cons in S1.
        eapply safe_bind; [apply safe_and|]. intros im' _.
        eapply safe_conseq; [eapply (IH ts b); try eassumption; lia|].
        intros r0 Hr0. unfold ppost in *. now rewrite tbind_all_app, tbind_all_cons.
  Qed.

  Lemma pat_step_agg pi m t s r E mw bs :
    wt_pat P (Pat pi m t) = Some bs -> ok_pat P (Pat pi m t) = true -> tyok P t ->
    env_shape P (s :: r) E -> length mw = szn P t ->
    match pi with PTup _ | PEnumUnit _ _ | PEnumTup _ _ _ => True | _ => False end ->
    safe (lower_pattern_body tops P pB (Pat pi m t) mw E) (ppost (s :: r) bs).
  Proof.
    intros Hwt Hok Hty Hs L Hc. destruct pi; try contradiction; cbn [ok_pat] in Hok; cbn [lower_pattern_body].
    - (* PTup *) destruct t as [| | |ts| |]; try discriminate Hwt. rewrite wt_pat_tup in Hwt.
      rewrite (zip_sizes_map P _ _ _ Hwt). destruct (tyok_tup P ts Hty) as [Hts _].
      rewrite szn_tup in L by exact Hty. eapply fields_safe; try eassumption. lia.
    - (* PEnumUnit *) cbn [wt_pat] in Hwt. destruct t as [| | | | |n2]; try discriminate Hwt.
      destruct (assocN ename (p_enums P)) as [variants|] eqn:Ev; [|discriminate Hwt].
      destruct (N.eqb_spec ename n2) as [->|]; [|discriminate Hwt]. cbn [negb] in Hwt.
      destruct (nthN variants variant) as [[|]|]; try discriminate Hwt. injection Hwt as <-.
      destruct (szn_enum P n2 Hty) as (variants' & Ev' & _ & Esz). rewrite Ev in Ev'. injection Ev' as <-.
      destruct (slice_ok mw 0 (enum_tag_size variants)) as (tg & Htg & _); [lia|].
      eapply safe_lift_bind; [exact Htg|]. eapply safe_bind; [apply eq_acc_safe|]. intros im _.
      apply safe_ret. exact Hs.
    - (* PEnumTup *) destruct t as [| | | | |n2]; try discriminate Hwt. rewrite wt_pat_enumtup in Hwt.
      destruct (assocN ename (p_enums P)) as [variants|] eqn:Ev; [|discriminate Hwt].
      destruct (N.eqb_spec ename n2) as [->|]; [|discriminate Hwt]. cbn [negb] in Hwt.
      destruct (nthN variants variant) as [ts|] eqn:En; [|discriminate Hwt].
      destruct (szn_enum P n2 Hty) as (variants' & Ev' & Hvs & Esz). rewrite Ev in Ev'. injection Ev' as <-.
      destruct (slice_ok mw 0 (enum_tag_size variants)) as (tg & Htg & _); [lia|].
      eapply safe_lift_bind; [exact Htg|]. eapply safe_bind; [apply eq_acc_safe|]. intros im _.
      pose proof (nthN_In _ _ _ En) as Hin. pose proof (maxsz_In P _ _ Hin) as Hmx.
      rewrite Forall_forall in Hvs. eapply fields_safe; try eassumption; [now apply Hvs|lia].
  Qed.

  Lemma struct_match_safe (mw : list bool) fields : forall ds w im s r E,
    (forall d fp, In d ds -> assocN (fst d) (rev fields) = Some fp ->
       exists a, wt_pat P fp = Some a /\ ok_pat P fp = true /\ ty_eqb (p_ty fp) (snd d) = true) ->
    Forall (fun d => tyok P (snd d)) ds -> w + sumsz P (map snd ds) <= length mw -> env_shape P (s :: r) E ->
    safe (struct_match tops P pB mw fields ds w im E) (ppost (s :: r) (flat_map (fbind P) (found fields ds))).
  Proof.
    induction ds as [|[fname fty] ds IH]; intros w im s r E Hall Hty Hle Hs; cbn [struct_match].
    - apply safe_ret. exact Hs.
    - inversion Hty as [|? ? Ht1 Ht2]; subst. cbn [map snd sumsz] in Hle. cbn [snd] in Ht1.
      unfold found. cbn [flat_map fst]. fold (found fields ds).
      assert (Hall' : forall d fp, In d ds -> assocN (fst d) (rev fields) = Some fp ->
                exists a, wt_pat P fp = Some a /\ ok_pat P fp = true /\ ty_eqb (p_ty fp) (snd d) = true)
        by (intros d fp Hd; apply Hall; now right).
      destruct (assocN fname (rev fields)) as [fp|] eqn:Ef.
      + destruct (Hall (fname, fty) fp (or_introl eq_refl) Ef) as (a & Ea & Hokp & Hpt). cbn [snd] in Hpt.
        destruct (slice_ok mw w (szn P fty)) as (sub & Hsub & Lsub); [lia|].
        eapply safe_lift_bind; [exact Hsub|].
        eapply safe_bind; [eapply HP; try eassumption|].
        * eapply ty_eqb_tyok'; eassumption.
        * rewrite Lsub. symmetry. now apply ty_eqb_szn.
        * intros [fm E1] S1. unfold ppost in S1. cbn [snd] in S1. rewrite tbind_all_cons in S1.
          eapply safe_bind; [apply safe_and|]. intros im' _.
          eapply safe_conseq; [eapply IH; try eassumption; lia|].
          intros r0 Hr0. unfold ppost in *. cbn [app flat_map].
          change (fbind P (fname, fp)) with (match wt_pat P fp with Some a => a | None => [] end). rewrite Ea.
          now rewrite tbind_all_app, tbind_all_cons.
      + cbn [app]. eapply IH; try eassumption. lia.
  Qed.

  Lemma pat_step_struct name ir fields m t s r E mw bs :
    wt_pat P (Pat (PStruct name ir fields) m t) = Some bs -> ok_pat P (Pat (PStruct name ir fields) m t) = true ->
    tyok P t -> env_shape P (s :: r) E -> length mw = szn P t ->
    safe (lower_pattern_body tops P pB (Pat (PStruct name ir fields) m t) mw E) (ppost (s :: r) bs).
  Proof.
    intros Hwt Hok Hty Hs L. cbn [ok_pat] in Hok. rewrite Hwt in Hok.
    apply andb_prop in Hok as [Hok Hokf]. apply andb_prop in Hok as [Hok Hndb]. apply andb_prop in Hok as [Hndd Hndf].
    destruct t as [| | | |n2|]; try discriminate Hwt. rewrite wt_pat_struct in Hwt. cbn [lower_pattern_body].
    destruct (assocN name (p_structs P)) as [def|] eqn:Ed; [|discriminate Hwt].
    destruct (N.eqb_spec name n2) as [->|]; [|discriminate Hwt]. cbn [negb] in Hwt.
    apply nodupb_NoDup in Hndd, Hndf.
    destruct (wt_fields_spec P def fields bs Hwt) as [-> Hfs]. rewrite Forall_forall in Hfs.
    destruct (tyok_struct P n2 Hty) as (def' & Ed' & Hdty & Esz). rewrite Ed in Ed'. injection Ed' as <-.
    unfold szn in L. rewrite Esz, sumsz_fields in L.
    eapply safe_conseq; [eapply (struct_match_safe mw fields def 0 (wT tops) s r E); try eassumption; [|lia]|].
    - intros d fp Hd Ef. apply assocN_In' in Ef. apply in_rev in Ef.
      destruct (Hfs _ Ef) as (ft & a & Eft & Hpt & Ea). cbn [fst snd] in *.
      rewrite (nodup_in_assoc def Hndd (fst d) (snd d)) in Eft by (now destruct d).
      injection Eft as <-. exists a. split; [exact Ea|]. split; [|exact Hpt].
      rewrite forallb_forall in Hokf. exact (Hokf _ Ef).
    - intros [im0 E0] Hr0. unfold ppost in *. cbn [snd] in *. rewrite tbind_all_cons in *.
      inversion Hr0 as [|? sE ? rE Hsc Hr]; subst. constructor; [|exact Hr].
      apply orb_prop in Hndb as [Hndb|Hsub].
      + apply nodupb_NoDup in Hndb.
        eapply scope_shape_ext; [|exact Hsc]. intro x. symmetry. apply sbind_all_perm; [|exact Hndb].
        apply Permutation_flat_map'. apply found_perm; try assumption.
        intros f Hf. destruct (Hfs _ Hf) as (ft & _ & Eft & _). eauto.
      + rewrite (found_sorted def fields Hsub Hndf Hndd) in Hsc. exact Hsc.
  Qed.

  (* ---------------------------------------------------------------- match, enum literals *)

  Definition arms_post (g : tenv) (bits : nat) : list bool * pobs * benv * bool -> Prop :=
    fun r => length (fst (fst (fst r))) = bits /\ env_shape P g (snd (fst r)).

  Lemma lower_arms_safe g fw ts t sw E0 P0 : genv P g -> env_shape P g E0 -> length sw = szn P ts -> tyok P ts ->
    forall arms has_prev mret mpanic menv,
    forallb (fun arm =>
      ty_eqb (p_ty (fst arm)) ts && ty_eqb (e_ty (snd arm)) t &&
      match wt_pat P (fst arm) with
      | Some bs => wt_expr fw P (tbind_all ([] :: g) bs false) (snd arm)
      | None => false
      end) arms = true ->
    forallb (fun arm => ok_pat P (fst arm) && ok_expr P (snd arm)) arms = true ->
    length mret = szn P t -> env_shape P g menv ->
    safe (lower_arms tops eB pB (szn P t) sw E0 P0 arms has_prev mret mpanic menv) (arms_post g (szn P t)).
  Proof.
    intros Hg HS0 Lsw Hts. induction arms as [|[pat body] arms IH]; intros has_prev mret mpanic menv Hwt Hok Lm Sm;
      cbn [lower_arms].
    - apply safe_ret. split; assumption.
    - cbn [forallb fst snd] in Hwt, Hok. apply andb_prop in Hwt as [Hw1 Hw2]. apply andb_prop in Hok as [Ho1 Ho2].
      apply andb_prop in Hw1 as [Hw1 Hwb]. apply andb_prop in Hw1 as [Hpt Hbt]. apply andb_prop in Ho1 as [Hop Hob].
      destruct (wt_pat P pat) as [bs|] eqn:Ep; [|discriminate Hwb].
      eapply safe_bind; [apply safe_replace|]. intros _ _.
      eapply safe_bind; [eapply (HP pat [] g); try eassumption|].
      + eapply ty_eqb_tyok'; eassumption.
      + now apply env_shape_push.
      + rewrite Lsw. symmetry. now apply ty_eqb_szn.
      + intros [im E1] S1. unfold ppost in S1. cbn [snd] in S1.
        eapply safe_bind; [eapply HE_ty; try eassumption|].
        { rewrite tbind_all_cons. now apply genv_cons. }
        intros [rw E2] [L2 S2]. cbn [fst snd] in L2, S2. rewrite tbind_all_cons in S2.
        eapply safe_bind; [apply safe_not|]. intros np _. eapply safe_bind; [apply safe_and|]. intros sel _.
        destruct (env_shape_pop P _ _ _ S2) as (E3 & HE3 & S3).
        eapply safe_lift_bind; [exact HE3|].
        eapply safe_bind; [apply safe_peek|]. intros Pc _.
        eapply safe_bind; [apply safe_mux_panic|]. intros mp' _.
        eapply safe_bind; [apply (mux_envs_safe P sel g); assumption|]. intros menv' Sm'.
        destruct (Nat.ltb_spec (length rw) (szn P t)) as [Hlt|_]; [lia|].
        eapply safe_bind; [apply safe_map2; [intros; apply safe_mux|rewrite firstn_length; lia]|]. intros mret' Lm'.
        eapply safe_bind; [apply safe_or|]. intros hp' _.
        apply IH; try assumption. rewrite Lm', firstn_length. lia.
  Qed.

  Lemma expr_step_match sc arms m t g E fw :
    wt_expr (S fw) P g (Ex (EMatch sc arms) m t) = true -> ok_expr P (Ex (EMatch sc arms) m t) = true ->
    genv P g -> env_shape P g E ->
    safe (lower_expr_body tops P eB pB bB (Ex (EMatch sc arms) m t) E) (epost P g t).
  Proof.
    intros Hwt Hok Hg Hs. cbn [ok_expr] in Hok. apply andb_prop in Hok as [Hn Hok].
    apply andb_prop in Hok as [Hoks Hoka]. cbn [wt_expr] in Hwt. apply andb_prop in Hwt as [Hws Hwa].
    cbn [lower_expr_body].
    eapply safe_bind; [eapply HE; eassumption|]. intros [sw E0] [L0 S0]. cbn [fst snd] in L0, S0.
    eapply safe_bind; [apply safe_peek|]. intros P0 _.
    eapply safe_bind; [eapply (lower_arms_safe g fw (e_ty sc) t); try eassumption|].
    - apply node_ok_tyok. now apply ok_expr_node.
    - apply repeat_length.
    - intros [[[rw mp] me] hp] [Lr Sr]. cbn [fst snd] in Lr, Sr.
      eapply safe_bind; [apply safe_replace|]. intros _ _. apply safe_ret. split; assumption.
  Qed.

  Lemma expr_step_enum en v args m t g E fw :
    wt_expr (S fw) P g (Ex (EEnumLit en v args) m t) = true -> ok_expr P (Ex (EEnumLit en v args) m t) = true ->
    genv P g -> env_shape P g E ->
    safe (lower_expr_body tops P eB pB bB (Ex (EEnumLit en v args) m t) E) (epost P g t).
  Proof.
    intros Hwt Hok Hg Hs. cbn [ok_expr] in Hok. apply andb_prop in Hok as [Hn Hok].
    pose proof (node_ok_tyok _ _ Hn) as Hty. cbn [wt_expr] in Hwt. cbn [lower_expr_body].
    destruct t as [| | | | |n2]; try discriminate Hwt.
    destruct (assocN en (p_enums P)) as [variants|] eqn:Ev; [|discriminate Hwt].
    apply andb_prop in Hwt as [Hen Hwt]. apply N.eqb_eq in Hen. subst n2.
    destruct (nthN variants v) as [ts|] eqn:En; [|discriminate Hwt].
    destruct (szn_enum P en Hty) as (variants' & Ev' & _ & Esz). rewrite Ev in Ev'. injection Ev' as <-.
    eapply safe_bind; [eapply (lower_list_safe g fw args ts); try eassumption; now apply forallb2_Forall2 in Hwt|].
    intros [ws E1] [L1 S1]. cbn [fst snd] in L1, S1.
    pose proof (concat_sumsz P _ _ L1) as Lc. pose proof (maxsz_In P _ _ (nthN_In _ _ _ En)) as Hmx.
    rewrite enum_max_size_eq.
    destruct (Nat.leb_spec (enum_tag_size variants + length (concat ws)) (maxsz P variants + enum_tag_size variants)); [|lia].
    apply safe_ret. split; [|exact S1]. cbn [fst].
    rewrite !app_length, as_wires_length_u, repeat_length, Esz. lia.
  Qed.

  (* ---------------------------------------------------------------- calls *)

  Hypothesis Hprog : prog_ok P.

  Lemma lower_args_safe g fw : genv P g -> forall params args E,
    Forall2 (fun e (pt : N * ty) => ty_eqb (e_ty e) (snd pt) && wt_expr fw P g e = true) args params ->
    forallb (ok_expr P) args = true -> env_shape P g E ->
    safe (lower_args eB params args E)
         (fun r => Forall2 (fun b p => fst b = fst p /\ length (snd b) = szn P (snd p)) (fst r) params /\
                   env_shape P g (snd r)).
  Proof.
    intros Hg. induction params as [|[pn pt] params IH]; intros args E H Hok Hs; inversion H as [|a ? ar ? Hh Ht]; subst;
      cbn [lower_args].
    - apply safe_ret. split; [constructor|exact Hs].
    - cbn [forallb] in Hok. apply andb_prop in Hok as [Hok1 Hok2]. cbn [snd] in Hh. apply andb_prop in Hh as [Hty Hwt].
      assert (wt_expr fw P ([] :: g) a = true) as Hwt'.
      { rewrite <- Hwt. symmetry. apply (proj1 (wt_equiv P fw)). intro x. reflexivity. }
      eapply safe_bind; [eapply HE_ty; try eassumption; [now apply genv_cons|now apply env_shape_push]|].
      intros [w Ea] [L1 S1]. cbn [fst snd] in L1, S1.
      destruct (env_shape_pop P _ _ _ S1) as (Eb & HEb & Sb). eapply safe_lift_bind; [exact HEb|].
      eapply safe_bind; [eapply IH; eassumption|]. intros [bs Ec] [Lb Sc]. cbn [fst snd] in Lb, Sc.
      apply safe_ret. split; [constructor; [split; [reflexivity|exact L1]|exact Lb]|exact Sc].
  Qed.

  Lemma expr_step_call fn args m t g E fw :
    wt_expr (S fw) P g (Ex (ECall fn args) m t) = true -> ok_expr P (Ex (ECall fn args) m t) = true ->
    genv P g -> env_shape P g E ->
    safe (lower_expr_body tops P eB pB bB (Ex (ECall fn args) m t) E) (epost P g t).
  Proof.
    intros Hwt Hok Hg Hs. cbn [ok_expr] in Hok. apply andb_prop in Hok as [Hn Hok].
    cbn [wt_expr] in Hwt. cbn [lower_expr_body].
    destruct (find_fn P fn) as [fd|] eqn:Ef; [|discriminate Hwt]. apply andb_prop in Hwt as [Hret Hargs].
    destruct (Hprog fn fd Ef) as [(fwb & tb & Hbody & Htb) Hokb].
    eapply safe_bind; [eapply (lower_args_safe g fw Hg); try eassumption; now apply forallb2_Forall2 in Hargs|].
    intros [bindings E1] [Lb S1]. cbn [fst snd] in Lb, S1.
    destruct Hg as [g' ->]. unfold env_shape in S1. apply Forall2_app_inv_l in S1 as (E' & Eg & S' & Sg & ->).
    inversion Sg as [|? glob ? ? Hglob Hnil]; subst. inversion Hnil; subst.
    rewrite rev_app_distr. cbn [rev app].
    destruct (bind_all_shape P bindings (fn_params fd) [] [gscope P] (env_push [glob])) as (Ecal & HEcal & Scal).
    { constructor; [apply scope_shape_nil|]. constructor; [exact Hglob|constructor]. }
    { exact Lb. }
    eapply safe_lift_bind; [exact HEcal|].
    eapply safe_bind; [eapply HB; try eassumption|].
    { rewrite tbind_all_cons. exists [sbind_all [] (fn_params fd) true]. reflexivity. }
    intros [body E2] [L2 S2]. cbn [fst snd] in L2, S2. rewrite tbind_all_cons in S2.
    destruct (env_shape_pop P _ _ _ S2) as (E3 & HE3 & S3). eapply safe_lift_bind; [exact HE3|].
    apply safe_ret. split.
    - cbn [fst]. rewrite L2, (ty_eqb_szn P _ _ Htb). now apply ty_eqb_szn.
    - cbn [snd]. rewrite rev_involutive. apply Forall2_app; assumption.
  Qed.

  (* ---------------------------------------------------------------- assignment through accessors *)

  Lemma forallb2_nth : forall (ts' ts : list ty) i ti, forallb2 ty_eqb ts' ts = true -> nth_error ts i = Some ti ->
    exists ti', nth_error ts' i = Some ti' /\ ty_eqb ti' ti = true.
  Proof.
    induction ts' as [|t' ts' IH]; intros [|t ts] i ti H Hn; cbn [forallb2] in H; try discriminate H.
    - destruct i; discriminate Hn.
    - apply andb_prop in H as [H1 H2]. destruct i as [|i]; cbn [nth_error] in *.
      + injection Hn as <-. eauto.
      + eapply IH; eassumption.
  Qed.

  Lemma assign_indexes_safe m g fw : genv P g -> forall accs cur tf E acc_rev,
    wt_accs fw P g accs cur = Some tf -> forallb (ok_acc P) accs = true -> env_shape P g E ->
    Forall (fun iw : list bool => length iw = 32) acc_rev ->
    safe (assign_indexes tops P eB m accs E acc_rev)
         (fun r => length (fst r) = length acc_rev + nidx accs /\
                   Forall (fun iw : list bool => length iw = 32) (fst r) /\ env_shape P g (snd r)).
  Proof.
    intros Hg. induction accs as [|a accs IH]; intros cur tf E acc_rev Hwt Hok Hs Hacc; cbn [assign_indexes].
    - apply safe_ret. cbn [fst snd nidx filter length]. rewrite rev_length. split; [lia|]. split; [now apply Forall_rev|exact Hs].
    - cbn [forallb] in Hok. apply andb_prop in Hok as [Hoka Hok]. destruct a as [aty i|tty i|sty fld]; cbn [wt_accs] in Hwt.
      + destruct cur as [| |el n| | |]; try discriminate Hwt.
        destruct (ty_eqb aty (TArr el n) && is_unsigned (e_ty i) && wt_expr fw P g i) eqn:Hc; [|discriminate Hwt].
        apply andb_prop in Hc as [Hc Hwi]. apply andb_prop in Hc as [Hty Hun].
        destruct aty as [| |el' n'| | |]; try discriminate Hty. cbn [array_size].
        eapply safe_lift_bind; [reflexivity|].
        cbn [ok_acc] in Hoka. apply andb_prop in Hoka as [Hoka Hoki]. apply andb_prop in Hoka as [Hoka Hidx].
        eapply safe_bind; [eapply HE; eassumption|]. intros [iw E1] [L1 S1]. cbn [fst snd] in L1, S1.
        eapply safe_bind; [apply extend_safe; unfold USZ; eapply idx_ok_len; eassumption|]. intros iw' Hiw'. unfold USZ in Hiw'.
        eapply safe_bind; [now apply bounds_check_safe|]. intros _ _.
        eapply safe_conseq; [eapply IH; try eassumption; constructor; assumption|].
        intros r (Hl & Hf & Sr). cbn [length] in Hl. cbn [nidx filter is_aidx length]. fold (nidx accs).
        split; [lia|]. split; assumption.
      + destruct cur as [| | |ts| |]; try discriminate Hwt. destruct (ty_eqb tty (TTup ts)); [|discriminate Hwt].
        destruct (nthN ts i); [|discriminate Hwt]. eapply IH; eassumption.
      + destruct cur as [| | | |name|]; try discriminate Hwt. destruct (ty_eqb sty (TStruct name)); [|discriminate Hwt].
        destruct (assocN name (p_structs P)) as [def|]; [|discriminate Hwt].
        destruct (assocN fld def); [|discriminate Hwt]. eapply IH; eassumption.
  Qed.

  Lemma assign_forward_safe g fw : forall accs cur tf (coll : list bool) idxs acc L,
    wt_accs fw P g accs cur = Some tf -> forallb (ok_acc P) accs = true -> length coll = szn P cur ->
    length idxs = nidx accs -> Forall (fun iw : list bool => length iw = 32) idxs ->
    chain_ok acc (length coll) L ->
    safe (assign_forward tops P accs coll idxs acc) (fun acc' => chain_ok acc' (szn P tf) L).
  Proof.
    induction accs as [|a accs IH]; intros cur tf coll idxs acc L Hwt Hok Lc Li Hf Hch; cbn [assign_forward].
    - cbn [wt_accs] in Hwt. injection Hwt as <-. apply safe_ret. now rewrite <- Lc.
    - cbn [forallb] in Hok. apply andb_prop in Hok as [Hoka Hok]. destruct a as [aty i|tty i|sty fld]; cbn [wt_accs] in Hwt.
      + destruct cur as [| |el n| | |]; try discriminate Hwt.
        destruct (ty_eqb aty (TArr el n) && is_unsigned (e_ty i) && wt_expr fw P g i) eqn:Hc; [|discriminate Hwt].
        apply andb_prop in Hc as [Hc Hwi]. apply andb_prop in Hc as [Hty Hun].
        destruct aty as [| |el' n'| | |]; try discriminate Hty. cbn [array_size].
        eapply safe_lift_bind; [reflexivity|].
        cbn [ok_acc] in Hoka. apply andb_prop in Hoka as [Hoka Hoki]. apply andb_prop in Hoka as [Hoka Hidx].
        rename Hoka into Hnode.
        cbn [nidx filter is_aidx length] in Li. fold (nidx accs) in Li.
        destruct idxs as [|iw ir]; [discriminate Li|]. injection Li as Li. inversion Hf as [|? ? Hiw Hir]; subst.
        pose proof (node_ok_tyok _ _ Hnode) as Htyk. pose proof (node_ok_arr_len _ _ Hnode) as Hlen.
        rewrite <- (ty_eqb_szn P _ _ Hty), szn_arr in Lc by exact Htyk.
        cbn [ty_eqb] in Hty. apply andb_prop in Hty as [Hel _].
        assert (Hlay : safe (index_layers tops (rev iw) coll (szn P el'))
                         (fun arr' => length (match arr' with [] => repeat (wF tops) (szn P el') | _ => arr' end) = szn P el')).
        { destruct (Nat.eq_dec (szn P el') 0) as [E0|Hne].
          - rewrite E0 in *. assert (coll = []) as -> by (apply length_zero_iff_nil; lia).
            eapply safe_conseq; [apply index_layers_zero|]. intros r0 ->. reflexivity.
          - eapply safe_conseq.
            + apply (index_layers_safe (szn P el') ltac:(lia) (rev iw) (N.to_nat n') coll); [lia|].
              rewrite rev_length, Hiw. exact Hlen.
            + intros arr' La. cbn beta in La. destruct arr' as [|a0 r0]; [apply repeat_length|].
              destruct (N.to_nat n' =? 0); [cbn [length] in La; lia|]. rewrite La. lia. }
        eapply safe_bind; [exact Hlay|]. intros arr' La. cbn beta in La.
        eapply IH; try eassumption.
        * rewrite La. now apply ty_eqb_szn.
        * cbn [chain_ok]. split; [now symmetry|]. split; [exact Hiw|exact Hch].
      + destruct cur as [| | |ts| |]; try discriminate Hwt. destruct (ty_eqb tty (TTup ts)) eqn:Hty; [|discriminate Hwt].
        destruct (nthN ts i) as [ti|] eqn:Ei; [|discriminate Hwt].
        cbn [ok_acc] in Hoka. pose proof (node_ok_tyok _ _ Hoka) as Htyk.
        destruct tty as [| | |ts'| |]; try discriminate Hty.
        rewrite <- (ty_eqb_szn P _ _ Hty), szn_tup in Lc by exact Htyk.
        rewrite ty_eqb_tup in Hty. rewrite nthN_spec in Ei.
        destruct (forallb2_nth _ _ _ _ Hty Ei) as (ti' & Ei' & Hti).
        cbn [tuple_offsets]. rewrite nthN_spec, Ei'. eapply safe_lift_bind; [reflexivity|].
        rewrite fold_left_sumsz. cbn [Nat.add].
        pose proof (sumsz_nth P _ _ _ Ei') as Hle.
        destruct (slice_ok coll (sumsz P (firstn (N.to_nat i) ts')) (szn P ti')) as (c' & Hc' & Lc'); [lia|].
        eapply safe_lift_bind; [exact Hc'|].
        eapply IH; try eassumption.
        * rewrite Lc'. now apply ty_eqb_szn.
        * cbn [chain_ok]. split; [now rewrite Lc'|]. split; [lia|exact Hch].
      + destruct cur as [| | | |name|]; try discriminate Hwt. destruct (ty_eqb sty (TStruct name)) eqn:Hty; [|discriminate Hwt].
        destruct (assocN name (p_structs P)) as [def|] eqn:Ed; [|discriminate Hwt].
        destruct (assocN fld def) as [ft|] eqn:Ef; [|discriminate Hwt].
        cbn [ok_acc] in Hoka. pose proof (node_ok_tyok _ _ Hoka) as Htyk.
        destruct sty as [| | | |name'|]; try discriminate Hty. cbn [ty_eqb] in Hty. apply N.eqb_eq in Hty. subst name'.
        destruct (tyok_struct P name Htyk) as (def' & Ed' & _ & Esz). rewrite Ed in Ed'. injection Ed' as <-.
        unfold szn in Lc. rewrite Esz, sumsz_fields in Lc.
        cbn [struct_offsets]. rewrite Ed.
        destruct (field_offsets_ok P def fld ft 0 Ef) as (wb & Hwb & Hle).
        eapply safe_lift_bind; [exact Hwb|].
        destruct (slice_ok coll wb (szn P ft)) as (c' & Hc' & Lc'); [lia|].
        eapply safe_lift_bind; [exact Hc'|].
        eapply IH; try eassumption.
        cbn [chain_ok]. split; [now rewrite Lc'|]. split; [lia|exact Hch].
  Qed.

  (* ---------------------------------------------------------------- statements *)

  Definition HS_hyp : Prop := forall st s r E fw g' t, wt_stmt fw P (s :: r) st = Some (g', t) ->
    ok_stmt P st = true -> genv P r -> env_shape P (s :: r) E -> safe (sB st E) (epost P g' t).
  Hypothesis HS : HS_hyp.

  Lemma lower_stmts_safe f : forall ss s r last t E, wt_stmts f P ss (s :: r) last = Some t ->
    forallb (ok_stmt P) ss = true -> genv P r -> env_shape P (s :: r) E ->
    safe (lower_stmts sB ss E) (fun E' => exists s', env_shape P (s' :: r) E').
  Proof.
    induction ss as [|st ss IH]; intros s r last t E Hwt Hok Hg Hs; cbn [lower_stmts wt_stmts] in *.
    - apply safe_ret. eauto.
    - cbn [forallb] in Hok. apply andb_prop in Hok as [Hok1 Hok2].
      destruct (wt_stmt f P (s :: r) st) as [[g' t']|] eqn:Est; [|discriminate].
      destruct (wt_stmt_tail _ _ _ _ _ _ _ Est) as [s' ->].
      eapply safe_bind; [eapply HS; eassumption|]. intros [w E1] [_ S1]. cbn [snd] in S1.
      eapply IH; eassumption.
  Qed.

  Lemma block_stmts_safe f : forall ss s r last tl t E, wt_stmts f P ss (s :: r) tl = Some t ->
    forallb (ok_stmt P) ss = true -> genv P r -> env_shape P (s :: r) E -> length last = szn P tl ->
    safe (block_stmts sB ss last E) (fun r' => length (fst r') = szn P t /\ exists s', env_shape P (s' :: r) (snd r')).
  Proof.
    induction ss as [|st ss IH]; intros s r last tl t E Hwt Hok Hg Hs L; cbn [block_stmts wt_stmts] in *.
    - injection Hwt as <-. apply safe_ret. eauto.
    - cbn [forallb] in Hok. apply andb_prop in Hok as [Hok1 Hok2].
      destruct (wt_stmt f P (s :: r) st) as [[g' t']|] eqn:Est; [|discriminate].
      destruct (wt_stmt_tail _ _ _ _ _ _ _ Est) as [s' ->].
      eapply safe_bind; [eapply HS; eassumption|]. intros [w E1] [L1 S1]. cbn [fst snd] in L1, S1.
      eapply IH; eassumption.
  Qed.

  Lemma block_step b g E fw t : wt_block fw P ([] :: g) b = Some t ->
    forallb (ok_stmt P) b = true -> genv P g -> env_shape P g E ->
    safe (lower_block_body sB b E) (epost P g t).
  Proof.
    intros Hwt Hok Hg Hs. destruct fw as [|f]; [discriminate|]. rewrite wt_block_S in Hwt.
    unfold lower_block_body.
    eapply safe_bind; [eapply block_stmts_safe; try eassumption; [now apply env_shape_push|now rewrite szn_unit]|].
    intros [w E1] [L (s' & S1)]. cbn [fst snd] in L, S1.
    destruct (env_shape_pop P _ _ _ S1) as (E2 & HE2 & S2).
    eapply safe_lift_bind; [exact HE2|]. apply safe_ret. split; assumption.
  Qed.

  Lemma for_iterations_safe f pat body bs t' eb g : forall n aw E,
    wt_pat P pat = Some bs -> ok_pat P pat = true -> tyok P (p_ty pat) -> szn P (p_ty pat) = eb ->
    wt_stmts f P body (tbind_all ([] :: g) bs false) unit_ty = Some t' -> forallb (ok_stmt P) body = true ->
    genv P g -> env_shape P g E -> length aw = eb * n ->
    safe (for_iterations pB sB pat body eb n aw E) (env_shape P g).
  Proof.
    induction n as [|k IH]; intros aw E Hp Hokp Hty Heb Hb Hokb Hg Hs L; cbn [for_iterations].
    - apply safe_ret. exact Hs.
    - assert (slice aw 0 eb = Ok (firstn eb aw)) as Hsl.
      { unfold slice. destruct (Nat.leb_spec (0 + eb) (length aw)); [reflexivity|lia]. }
      eapply safe_lift_bind; [exact Hsl|].
      eapply safe_bind; [eapply (HP pat [] g (env_push E) (firstn eb aw) bs Hp Hokp Hty (env_shape_push P g E Hs)); rewrite firstn_length; lia|].
      intros [im Ea] Sa. unfold ppost in Sa. cbn [snd] in Sa. pose proof Hb as Hb'. rewrite tbind_all_cons in Sa, Hb'.
      eapply safe_bind; [eapply lower_stmts_safe; eassumption|]. intros Eb (s' & Sb).
      destruct (env_shape_pop P _ _ _ Sb) as (Ec & HEc & Sc).
      eapply safe_lift_bind; [exact HEc|].
      apply IH; try assumption. rewrite skipn_length. lia.
  Qed.

  Lemma stmt_step si m s r E fw g' t : wt_stmt (S fw) P (s :: r) (St si m) = Some (g', t) ->
    ok_stmt P (St si m) = true -> genv P r -> env_shape P (s :: r) E ->
    safe (lower_stmt_body tops P eB pB sB (St si m) E) (epost P g' t).
  Proof.
    intros Hwt Hok Hg Hs. pose proof (genv_cons P s r Hg) as Hg'.
    destruct si; cbn [wt_stmt] in Hwt; cbn [ok_stmt] in Hok; cbn [lower_stmt_body]; try discriminate Hok.
    - (* SLet *) apply andb_prop in Hok as [Hokp Hoke].
      destruct (wt_expr fw P (s :: r) e && ty_eqb (p_ty p) (e_ty e)) eqn:Hc; [|discriminate].
      apply andb_prop in Hc as [Hwe Hpe].
      destruct (wt_pat P p) as [bs|] eqn:Hp; [|discriminate]. injection Hwt as <- <-.
      eapply safe_bind; [eapply HE; eassumption|]. intros [w E1] [L1 S1]. cbn [fst snd] in L1, S1.
      eapply safe_bind; [eapply HP; try eassumption|].
      + eapply ty_eqb_tyok'; [exact Hpe|]. apply node_ok_tyok. now apply ok_expr_node.
      + rewrite L1. symmetry. now apply ty_eqb_szn.
      + intros [im E2] S2. apply safe_ret. split; [now rewrite szn_unit|exact S2].
    - (* SLetMut *) destruct (wt_expr fw P (s :: r) e) eqn:Hwe; [|discriminate]. injection Hwt as <- <-.
      eapply safe_bind; [eapply HE; eassumption|]. intros [w E1] [L1 S1]. cbn [fst snd] in L1, S1.
      destruct (env_shape_let P s r E1 name (e_ty e) true w S1 L1) as (E2 & HE2 & S2).
      eapply safe_lift_bind; [exact HE2|]. apply safe_ret. split; [now rewrite szn_unit|exact S2].
    - (* SAssign *) apply andb_prop in Hok as [Hoka Hoke].
      destruct (tlookup (s :: r) name) as [[tx [|]]|] eqn:El; try discriminate.
      match type of Hwt with context [match ?F accs tx with _ => _ end] =>
        assert (forall accs cur, F accs cur = wt_accs fw P (s :: r) accs cur) as Hgo end.
      { induction accs0 as [|a accs0 IHa]; intro cur; [reflexivity|].
        destruct a; destruct cur; try reflexivity; cbn [wt_accs];
          repeat match goal with |- context [match ?x with _ => _ end] => destruct x; try reflexivity end; apply IHa. }
      rewrite Hgo in Hwt. destruct (wt_accs fw P (s :: r) accs tx) as [tf|] eqn:Eacc; [|discriminate].
      destruct (ty_eqb tf (e_ty e) && wt_expr fw P (s :: r) e) eqn:Hc; [|discriminate].
      apply andb_prop in Hc as [Hte Hwe]. injection Hwt as <- <-.
      eapply safe_bind; [eapply HE; eassumption|]. intros [value E1] [L1 S1]. cbn [fst snd] in L1, S1.
      eapply safe_bind; [eapply (assign_indexes_safe m (s :: r) fw Hg'); try eassumption; constructor|].
      intros [idxs E2] (Li & Hf & S2). cbn [fst snd length Nat.add] in Li, Hf, S2.
      destruct (env_shape_get P _ _ _ _ _ S2 El) as (coll & -> & Lc).
      apply safe_ret_bind.
      eapply safe_bind; [eapply (assign_forward_safe (s :: r) fw accs tx tf coll idxs [] (length coll)); try eassumption; reflexivity|].
      intros accessed Hch.
      eapply safe_bind; [eapply assign_backward_safe; [exact Hch|]; rewrite L1; symmetry; now apply ty_eqb_szn|].
      intros value' Lv'.
      destruct (env_shape_assign P _ E2 name tx true value' S2 El) as (E3 & HE3 & S3); [congruence|].
      eapply safe_lift_bind; [exact HE3|]. apply safe_ret. split; [now rewrite szn_unit|exact S3].
    - (* SFor *) apply andb_prop in Hok as [Hok Hokb]. apply andb_prop in Hok as [Hokp Hoke].
      destruct (e_ty arr) as [| |el n| | |] eqn:Ea; try discriminate.
      destruct (wt_expr fw P (s :: r) arr && ty_eqb (p_ty p) el) eqn:Hc; [|discriminate].
      apply andb_prop in Hc as [Hwa Hpe].
      destruct (wt_pat P p) as [bs|] eqn:Hp; [|discriminate].
      destruct (wt_block fw P (tbind_all ([] :: s :: r) bs false) body) as [tb|] eqn:Hb; [|discriminate].
      injection Hwt as <- <-. cbn [array_size].
      eapply safe_lift_bind; [reflexivity|].
      eapply safe_bind; [eapply HE; eassumption|]. intros [aw E1] [L1 S1]. cbn [fst snd] in L1, S1.
      pose proof (ok_expr_node _ Hoke) as Hna. rewrite Ea in Hna, L1. apply node_ok_tyok in Hna.
      destruct (tyok_arr P el n Hna) as [Hel _]. rewrite szn_arr in L1 by exact Hna.
      destruct fw as [|f]; [discriminate Hb|]. rewrite wt_block_S in Hb.
      eapply safe_bind; [eapply (for_iterations_safe f p body bs tb (szn P el) (s :: r)); try eassumption|].
      + eapply ty_eqb_tyok'; eassumption.
      + now apply ty_eqb_szn.
      + intros E2 S2. apply safe_ret. split; [now rewrite szn_unit|exact S2].
    - (* SExpr *) destruct (wt_expr fw P (s :: r) e) eqn:Hwe; [|discriminate]. injection Hwt as <- <-.
      eapply HE; eassumption.
  Qed.

  Lemma expr_step e g E fw : wt_expr fw P g e = true -> ok_expr P e = true -> genv P g -> env_shape P g E ->
    safe (lower_expr_body tops P eB pB bB e E) (epost P g (e_ty e)).
  Proof.
    intros Hwt Hok Hg Hs. destruct e as [ei m t]. destruct fw as [|fw]; [discriminate|]. cbn [e_ty].
    destruct ei;
      try (eapply expr_step_simple; [eassumption|assumption|assumption|assumption|exact I]);
      try (eapply expr_step_op; eassumption);
      try (eapply expr_step_idx; eassumption);
      try (eapply expr_step_match; eassumption);
      try (eapply expr_step_struct; eassumption);
      try (eapply expr_step_call; eassumption);
      try (eapply expr_step_enum; eassumption);
      try (eapply expr_step_agg; [eassumption|assumption|assumption|assumption|exact I]);
      exfalso; cbn [ok_expr] in Hok; apply andb_prop in Hok as [_ Hok]; discriminate Hok.
  Qed.

  Lemma pat_step p s r E mw bs : wt_pat P p = Some bs -> ok_pat P p = true -> tyok P (p_ty p) ->
    env_shape P (s :: r) E -> length mw = szn P (p_ty p) ->
    safe (lower_pattern_body tops P pB p mw E) (ppost (s :: r) bs).
  Proof.
    intros Hwt Hok Hty Hs L. destruct p as [pi m t]. cbn [p_ty] in *.
    destruct pi;
      try (eapply pat_step_simple; [eassumption|assumption|assumption|assumption|assumption|exact I]);
      try (eapply pat_step_agg; [eassumption|assumption|assumption|assumption|assumption|exact I]).
    eapply pat_step_struct; eassumption.
  Qed.
End Step.

(* ------------------------------------------------------------------ tying the knot *)

Lemma lower_expr_S f P e E : lower_expr tops (S f) P e E =
  lower_expr_body tops P (lower_expr tops f P) (lower_pattern tops f P) (lower_block tops f P) e E.
Proof. reflexivity. Qed.
Lemma lower_block_S f P b E : lower_block tops (S f) P b E = lower_block_body (lower_stmt tops f P) b E.
Proof. reflexivity. Qed.
Lemma lower_stmt_S f P s E : lower_stmt tops (S f) P s E =
  lower_stmt_body tops P (lower_expr tops f P) (lower_pattern tops f P) (lower_stmt tops f P) s E.
Proof. reflexivity. Qed.
Lemma lower_pattern_S f P p mw E : lower_pattern tops (S f) P p mw E =
  lower_pattern_body tops P (lower_pattern tops f P) p mw E.
Proof. reflexivity. Qed.


Section MulRewrite.
  Variable P : program.
  Variable f0 : nat.
  Hypothesis HEs : forall f', f' <= f0 -> HE_hyp P (lower_expr tops f' P).

  Lemma iter_add_safe y m t s b g fw : wt_expr fw P g y = true -> ok_expr P y = true ->
    t = TInt s b -> node_ok P t = true -> ty_eqb (e_ty y) t = true -> genv P g ->
    forall k f' E, f' <= f0 -> env_shape P g E ->
    safe (lower_expr tops f' P (Nat.iter k (fun e => Ex (EOp OAdd e y) m t) y) E) (epost P g t).
  Proof.
    intros Hwy Hoky -> Hn Hty Hg. induction k as [|k IH]; intros f' E Hf Hs; cbn [Nat.iter nat_rect].
    - eapply (HE_ty P _ (HEs f' Hf)); eassumption.
    - destruct f' as [|f']; [apply safe_nofuel|]. rewrite lower_expr_S. cbn [lower_expr_body].
      eapply safe_bind; [apply IH; [lia|exact Hs]|]. intros [xw E1] [L1 S1]. cbn [fst snd] in L1, S1.
      eapply safe_bind; [eapply (HE_ty P _ (HEs f' ltac:(lia))); eassumption|].
      intros [yw E2] [L2 S2]. cbn [fst snd] in L2, S2.
      destruct (int_len P xw _ _ _ Hn L1 eq_refl) as [_ Hne].
      eapply safe_bind; [apply arith_safe; [exact Hne|congruence|reflexivity]|]. intros r0 Hr.
      apply safe_ret. split; [cbn [fst]; congruence|exact S2].
  Qed.

  Lemma rewrite_one_safe a y m t s b g fw op e' : wt_expr fw P g y = true -> ok_expr P y = true ->
    t = TInt s b -> node_ok P t = true -> ty_eqb (e_ty y) t = true -> genv P g ->
    rewrite_one a y m t = Some (op, e') ->
    forall f' E, f' <= f0 -> env_shape P (tbind ([] :: g) MUL_TMP (e_ty y) false) E ->
    safe (lower_expr tops f' P e' E) (epost P (tbind ([] :: g) MUL_TMP (e_ty y) false) t).
  Proof.
    intros Hwy Hoky Ht Hn Hty Hg Hr f' E Hf Hs. unfold rewrite_one in Hr.
    destruct (lit_info a) as [[[n bits] neg]|]; [|discriminate].
    destruct (n =? 0)%N; [discriminate|]. destruct (n <? bits)%N; [|discriminate].
    injection Hr as _ <-. rewrite N2Nat.inj_iter.
    set (yv := Ex (EId MUL_TMP) (e_meta y) (e_ty y)).
    set (g2 := tbind ([] :: g) MUL_TMP (e_ty y) false) in *.
    assert (wt_expr 1 P g2 yv = true) as Hwv.
    { subst t. destruct (ty_eqb_int_l _ _ _ Hty) as (s' & b' & Ey). unfold yv, g2. rewrite Ey.
      cbn [wt_expr tbind tlookup assocN]. rewrite N.eqb_refl. cbn [ty_eqb]. now rewrite Bool.eqb_reflx, N.eqb_refl. }
    assert (ok_expr P yv = true) as Hokv.
    { unfold yv. cbn [ok_expr]. now rewrite (ok_expr_node P y Hoky). }
    assert (genv P g2) as Hg2 by (unfold g2; cbn [tbind]; now apply genv_cons).
    assert (ty_eqb (e_ty yv) t = true) as Htv by exact Hty.
    destruct neg.
    - destruct f' as [|f1]; [apply safe_nofuel|]. rewrite lower_expr_S, lower_neg_case.
      eapply safe_bind; [eapply (iter_add_safe yv); try eassumption; lia|].
      intros [x E1] [L S]. cbn [fst snd] in L, S. subst t.
      destruct (int_len P x _ _ _ Hn L eq_refl) as [_ Hne].
      intro o. rewrite neg_steps_correct by exact Hne. split; [|exact S]. cbn [fst]. now rewrite length_enc.
    - eapply (iter_add_safe yv); eassumption.
  Qed.

  Lemma HM_of_HE : HM_hyp P (lower_expr tops f0 P).
  Proof.
    intros x y m t op e' g E fw s b Hwx Hwy Hokx Hoky Ht Hn Htx Hty Hr Hg Hs. unfold mul_rewrite in Hr.
    destruct (rewrite_one x y m t) as [[o1 e1]|] eqn:E1.
    - injection Hr as <- <-. pose proof (rewrite_one_operand _ _ _ _ _ _ E1) as ->.
      eapply rewrite_one_safe; try eassumption. lia.
    - pose proof (rewrite_one_operand _ _ _ _ _ _ Hr) as ->.
      eapply (rewrite_one_safe y x); try eassumption. lia.
  Qed.
End MulRewrite.

Definition all_hyps (P : program) (f : nat) : Prop :=
  HE_hyp P (lower_expr tops f P) /\ HP_hyp P (lower_pattern tops f P) /\
  HS_hyp P (lower_stmt tops f P) /\ HB_hyp P (lower_block tops f P).

Theorem lower_safe_all P : prog_ok P -> forall f, all_hyps P f.
Proof.
  intro Hprog. induction f as [f IH] using lt_wf_ind. destruct f as [|f].
  - repeat split; red; intros; apply safe_nofuel.
  - destruct (IH f (Nat.lt_succ_diag_r f)) as (HE & HP & HS & HB).
    assert (HM : HM_hyp P (lower_expr tops f P)).
    { apply HM_of_HE. intros f' Hf. apply (IH f'). lia. }
    repeat split; red; intros.
    + rewrite lower_expr_S. eapply expr_step; eassumption.
    + rewrite lower_pattern_S. eapply pat_step; eassumption.
    + rewrite lower_stmt_S. destruct st as [si m]. destruct fw as [|fw]; [discriminate|].
      eapply stmt_step; eassumption.
    + rewrite lower_block_S. eapply block_step; eassumption.
Qed.
Print Assumptions lower_safe_all.

(* ------------------------------------------------------------------ the theorems *)

Definition no_crash {A} (r : Util.res A) (Q : A -> Prop) : Prop :=
  match r with Crash => False | OutOfFuel => True | Ok a => Q a end.

Lemma safe_no_crash {A} (m : MB A) (Q : A -> Prop) o : safe m Q -> no_crash (m o) (fun r => Q (fst r)).
Proof. intro H. specialize (H o). unfold no_crash. destruct (m o) as [[a o']| |]; exact H. Qed.

(* expressions: no crash, the vector has the size of the static type, the environment keeps
   the shape of the typing environment *)
Theorem lower_expr_safe : forall fuel P, prog_ok P -> forall e g E o fw,
  wt_expr fw P g e = true -> ok_expr P e = true -> genv P g -> env_shape P g E ->
  match lower_expr tops fuel P e E o with
  | Crash => False
  | OutOfFuel => True
  | Ok ((w, E'), o') => length w = szn P (e_ty e) /\ env_shape P g E'
  end.
Proof.
  intros fuel P Hp e g E o fw Hwt Hok Hg Hs.
  destruct (lower_safe_all P Hp fuel) as (HE & _). specialize (HE e g E fw Hwt Hok Hg Hs o).
  destruct (lower_expr tops fuel P e E o) as [[[w E'] o']| |]; exact HE.
Qed.
Print Assumptions lower_expr_safe.

(* blocks: typed in a fresh scope over [g]; the scope is popped at the end *)
Theorem lower_block_safe : forall fuel P, prog_ok P -> forall b g E o fw t,
  wt_block fw P ([] :: g) b = Some t -> forallb (ok_stmt P) b = true -> genv P g -> env_shape P g E ->
  match lower_block tops fuel P b E o with
  | Crash => False
  | OutOfFuel => True
  | Ok ((w, E'), o') => length w = szn P t /\ env_shape P g E'
  end.
Proof.
  intros fuel P Hp b g E o fw t Hwt Hok Hg Hs.
  destruct (lower_safe_all P Hp fuel) as (_ & _ & _ & HB). specialize (HB b g E fw t Hwt Hok Hg Hs o).
  destruct (lower_block tops fuel P b E o) as [[[w E'] o']| |]; exact HB.
Qed.
Print Assumptions lower_block_safe.

(* statements: the environment is extended as [wt_stmt] says (in the innermost scope [s]) *)
Theorem lower_stmt_safe : forall fuel P, prog_ok P -> forall st s r E o fw g' t,
  wt_stmt fw P (s :: r) st = Some (g', t) -> ok_stmt P st = true -> genv P r -> env_shape P (s :: r) E ->
  match lower_stmt tops fuel P st E o with
  | Crash => False
  | OutOfFuel => True
  | Ok ((w, E'), o') => length w = szn P t /\ env_shape P g' E'
  end.
Proof.
  intros fuel P Hp st s r E o fw g' t Hwt Hok Hg Hs.
  destruct (lower_safe_all P Hp fuel) as (_ & _ & HS & _). specialize (HS st s r E fw g' t Hwt Hok Hg Hs o).
  destruct (lower_stmt tops fuel P st E o) as [[[w E'] o']| |]; exact HS.
Qed.
Print Assumptions lower_stmt_safe.

(* patterns: matched against a vector of the size of the pattern's type, the bindings of
   [wt_pat] are added to the innermost scope *)
Theorem lower_pattern_safe : forall fuel P, prog_ok P -> forall p s r E mw o bs,
  wt_pat P p = Some bs -> ok_pat P p = true -> tyok P (p_ty p) -> env_shape P (s :: r) E ->
  length mw = szn P (p_ty p) ->
  match lower_pattern tops fuel P p mw E o with
  | Crash => False
  | OutOfFuel => True
  | Ok ((_, E'), o') => env_shape P (tbind_all (s :: r) bs false) E'
  end.
Proof.
  intros fuel P Hp p s r E mw o bs Hwt Hok Hty Hs L.
  destruct (lower_safe_all P Hp fuel) as (_ & HP & _). specialize (HP p s r E mw bs Hwt Hok Hty Hs L o).
  destruct (lower_pattern tops fuel P p mw E o) as [[[w E'] o']| |]; exact HP.
Qed.
Print Assumptions lower_pattern_safe.

(* ------------------------------------------------------------------ whole programs *)

(* the literal that defines a constant has the width of the constant's type (the global
   scope is built from the literal's own suffix width) *)
Definition const_ok (e : expr) : bool :=
  match e with
  | Ex ETrue _ TBool | Ex EFalse _ TBool => true
  | Ex (ENumU _ lb) _ (TInt _ b) | Ex (ENumS _ lb) _ (TInt _ b) => (lb =? b)%N
  | _ => false
  end.
Definition consts_ok (P : program) : bool := forallb (fun c => const_ok (snd c)) (p_consts P).

Lemma const_wires_len P e : const_ok e = true -> exists w, const_wires tops e = Ok w /\ length w = szn P (e_ty e).
Proof.
  destruct e as [ei m t]. destruct ei; try discriminate; destruct t; try discriminate; cbn [const_ok const_wires e_ty]; intro H.
  - eexists. split; [reflexivity|]. now rewrite szn_bool.
  - eexists. split; [reflexivity|]. now rewrite szn_bool.
  - apply N.eqb_eq in H. subst. eexists. split; [reflexivity|]. now rewrite as_wires_length_u, szn_int.
  - apply N.eqb_eq in H. subst. eexists. split; [reflexivity|]. now rewrite as_wires_length_s, szn_int.
Qed.

Lemma global_scope_shape_gen P : forall (consts : list (N * expr)) s (sE : bscope), scope_shape P s sE ->
  forallb (fun c => const_ok (snd c)) consts = true ->
  exists glob,
    fold_left (fun Er '(x, e) => let* E := Er in let* w := const_wires tops e in env_let E x w) consts (Ok [sE]) = Ok [glob] /\
    scope_shape P (sbind_all s (map (fun c => (fst c, e_ty (snd c))) consts) false) glob.
Proof.
  induction consts as [|[x e] consts IH]; intros s sE Hs Hok; cbn [fold_left map].
  - exists sE. split; [reflexivity|exact Hs].
  - cbn [forallb snd] in Hok. apply andb_prop in Hok as [Hc Hok].
    destruct (const_wires_len P e Hc) as (w & Hw & L). cbn [bind]. rewrite Hw. cbn [bind env_let].
    unfold sbind_all. cbn [fold_left fst snd]. apply IH; [|exact Hok]. now apply scope_shape_insert.
Qed.

Lemma global_scope_shape P : consts_ok P = true ->
  exists glob, global_scope tops P = Ok [glob] /\ scope_shape P (gscope P) glob.
Proof. intro H. apply (global_scope_shape_gen P (p_consts P) [] []); [apply scope_shape_nil|exact H]. Qed.

Lemma combine_bindings P : forall (params : list (N * ty)) (args : list (list bool)),
  Forall2 (fun p a => length a = szn P (snd p)) params args ->
  Forall2 (fun b p => fst b = fst p /\ length (snd b) = szn P (snd p)) (combine (map fst params) args) params.
Proof.
  induction 1 as [|p a params args Hl _ IH]; cbn [map combine]; constructor; [split; [reflexivity|exact Hl]|exact IH].
Qed.

(* the bit-level semantics of an accepted program on arguments of the sizes of the parameter
   types: no crash, and the result has the size of the return type of main *)
Theorem tsem_program_safe fuel P args fd :
  wt_program P = true -> fns_ok P = true -> consts_ok P = true ->
  find_fn P (p_main P) = Some fd ->
  Forall2 (fun p a => length a = szn P (snd p)) (fn_params fd) args ->
  match tsem_program fuel P args with
  | Crash => False
  | OutOfFuel => True
  | Ok (_, outs) => length outs = szn P (fn_ret fd)
  end.
Proof.
  intros Hwt Hfns Hc Hmain Hargs. pose proof (prog_ok_of_wt P Hwt Hfns) as Hp.
  unfold tsem_program. rewrite Hmain. unfold same_len. rewrite (Forall2_length _ _ _ Hargs), Nat.eqb_refl. cbn [negb].
  unfold main_env. destruct (global_scope_shape P Hc) as (glob & -> & Hglob). cbn [bind].
  destruct (bind_all_shape P (combine (map fst (fn_params fd)) args) (fn_params fd) [] [gscope P] (env_push [glob]))
    as (E0 & HE0 & S0).
  { constructor; [apply scope_shape_nil|]. constructor; [exact Hglob|constructor]. }
  { now apply combine_bindings. }
  unfold bind_all in HE0. rewrite HE0. cbn [bind].
  destruct (Hp _ _ Hmain) as [(fw & tb & Hb & Htb) Hokb].
  pose proof (lower_block_safe fuel P Hp (fn_body fd) _ E0 None fw tb Hb Hokb) as H.
  rewrite tbind_all_cons in H. specialize (H (ex_intro _ [sbind_all [] (fn_params fd) true] eq_refl)).
  rewrite <- tbind_all_cons in H. specialize (H S0).
  destruct (lower_block tops fuel P (fn_body fd) E0 None) as [[[w E'] o']| |]; cbn [bind]; try exact H.
  destruct H as [L _]. rewrite L. now apply ty_eqb_szn.
Qed.
Print Assumptions tsem_program_safe.

(* everything [tsem_program_safe] needs besides the sizes of the arguments, as ONE Boolean *)
Definition has_main (P : program) : bool :=
  match find_fn P (p_main P) with Some _ => true | None => false end.

Definition safe_program_ok (P : program) : bool :=
  wt_program P && fns_ok P && consts_ok P && has_main P.

Corollary tsem_program_safe_ok fuel P args : safe_program_ok P = true ->
  exists fd, find_fn P (p_main P) = Some fd /\
    (Forall2 (fun p a => length a = szn P (snd p)) (fn_params fd) args ->
     match tsem_program fuel P args with
     | Crash => False
     | OutOfFuel => True
     | Ok (_, outs) => length outs = szn P (fn_ret fd)
     end).
Proof.
  unfold safe_program_ok, has_main. intro H. apply andb_prop in H as [H Hm]. apply andb_prop in H as [H Hc].
  apply andb_prop in H as [Hwt Hf]. destruct (find_fn P (p_main P)) as [fd|] eqn:Ef; [|discriminate Hm].
  exists fd. split; [reflexivity|]. intro Hargs. now apply tsem_program_safe.
Qed.
Print Assumptions tsem_program_safe_ok.

(* ------------------------------------------------------------------ findings: trees accepted by
   the re-checker on which the model crashes or produces a vector of the wrong size; each is
   excluded above by a side condition of [ok_expr] / [ok_pat] / [ok_acc] / [consts_ok] *)

Module Findings.
  Local Open Scope N_scope.
  Definition m0 := mkMeta 0 0 0 0.
  Definition u8 := TInt false 8.
  Definition u16 := TInt false 16.
  Definition u64 := TInt false 64.
  Definition crashes {A} (r : Util.res A) : bool := match r with Crash => true | _ => false end.

  (* struct S { a: u8, b: u16 };  { let S { b: x, a: x } = s; x }  --  the re-checker gives x the
     type of the field written last (u8), the lowering binds the fields in definition order
     (x ends up with the 16 wires of b): 16 wires for an expression of type u8 *)
  Definition PS : program := mkProgram [(0, [(1, u8); (2, u16)])] [] [] [] 0.
  Definition gS : tenv := [[(5, (TStruct 0, false))]; []].
  Definition ES : benv := [[(5, repeat false 24)]; []].
  Definition e1 : expr :=
    Ex (EBlock [St (SLet (Pat (PStruct 0 false [(2, Pat (PId 7) m0 u16); (1, Pat (PId 7) m0 u8)]) m0 (TStruct 0))
                         (Ex (EId 5) m0 (TStruct 0))) m0;
                St (SExpr (Ex (EId 7) m0 u8)) m0]) m0 u8.
  Example struct_pattern_order :
    wt_expr 10 PS gS e1 = true /\
    match lower_expr tops 10 PS e1 ES None with Ok ((w, _), _) => length w | _ => O end = 16%nat /\
    szn PS u8 = 8%nat.
  Proof. vm_compute. repeat split. Qed.

  (* { let S { a: x, a: y } = s; x }  --  a field named twice: only the last one is bound *)
  Definition e2 : expr :=
    Ex (EBlock [St (SLet (Pat (PStruct 0 false [(1, Pat (PId 7) m0 u8); (1, Pat (PId 8) m0 u8)]) m0 (TStruct 0))
                         (Ex (EId 5) m0 (TStruct 0))) m0;
                St (SExpr (Ex (EId 7) m0 u8)) m0]) m0 u8.
  Example struct_pattern_duplicate_field :
    wt_expr 10 PS gS e2 = true /\ crashes (lower_expr tops 10 PS e2 ES None) = true.
  Proof. vm_compute. split; reflexivity. Qed.

  (* a[i] with i : u64  --  the index is extended to 32 bits *)
  Definition P0 : program := mkProgram [] [] [] [] 0.
  Definition gA : tenv := [[(5, (TArr u8 2, true)); (6, (u64, false))]; []].
  Definition EA : benv := [[(5, repeat false 16); (6, repeat false 64)]; []].
  Definition e3 : expr := Ex (EIdx (Ex (EId 5) m0 (TArr u8 2)) (Ex (EId 6) m0 u64)) m0 u8.
  Example index_wider_than_usize :
    wt_expr 10 P0 gA e3 = true /\ crashes (lower_expr tops 10 P0 e3 EA None) = true.
  Proof. vm_compute. split; reflexivity. Qed.

  (* a[0] = () with a : [(); 2]  --  FIXED in the compiler and in the model ([array_write] takes the
     static number of elements instead of dividing by the element size): no longer a crash, and
     no side condition on the element size is needed any more *)
  Definition unit_t := TTup [].
  Definition gU : tenv := [[(5, (TArr unit_t 2, true))]; []].
  Definition EU : benv := [[(5, [])]; []].
  Definition s4 : stmt :=
    St (SAssign 5 [AIdx (TArr unit_t 2) (Ex (ENumU 0 32) m0 (TInt false 32))] (Ex (ETupLit []) m0 unit_t)) m0.
  Example assign_zero_sized_element_fixed :
    (match wt_stmt 10 P0 gU s4 with Some _ => true | None => false end) = true /\
    crashes (lower_stmt tops 10 P0 s4 EU None) = false.
  Proof. vm_compute. split; reflexivity. Qed.

  (* x << 1u8 with x of a 24-bit integer type *)
  Definition u24 := TInt false 24.
  Definition gW : tenv := [[(5, (u24, false))]; []].
  Definition EW : benv := [[(5, repeat false 24)]; []].
  Definition e5 : expr := Ex (EOp OShl (Ex (EId 5) m0 u24) (Ex (ENumU 1 8) m0 u8)) m0 u24.
  Example shift_other_width :
    wt_expr 10 P0 gW e5 = true /\ crashes (lower_expr tops 10 P0 e5 EW None) = true.
  Proof. vm_compute. split; reflexivity. Qed.

  (* -x with x of the zero-width signed type *)
  Definition i0 := TInt true 0.
  Definition gZ : tenv := [[(5, (i0, false))]; []].
  Definition EZ : benv := [[(5, [])]; []].
  Definition e6 : expr := Ex (ENeg (Ex (EId 5) m0 i0)) m0 i0.
  Example neg_zero_width :
    wt_expr 10 P0 gZ e6 = true /\ crashes (lower_expr tops 10 P0 e6 EZ None) = true.
  Proof. vm_compute. split; reflexivity. Qed.

  (* const C: u16 = 5u8 (as a tree): the global scope takes the width of the literal's suffix *)
  Definition PC : program :=
    mkProgram [] [] [mkFn 0 [] u16 [St (SExpr (Ex (EId 9) m0 u16)) m0]] [(9, Ex (ENumU 5 8) m0 u16)] 0.
  Example const_suffix_width :
    wt_program PC = true /\
    match tsem_program 10 PC [] with Ok (_, outs) => length outs | _ => O end = 8%nat /\ szn PC u16 = 16%nat.
  Proof. vm_compute. repeat split. Qed.
  (* join(true, true): the re-checker does not relate the operands of the join built-in to
     array types (the built-in and the join loop are outside the fragment) *)
  Definition e7 : expr := Ex (EJoin TBool false (Ex ETrue m0 TBool) (Ex ETrue m0 TBool)) m0 TBool.
  Example join_untyped :
    wt_expr 10 P0 [[]] e7 = true /\ crashes (lower_expr tops 10 P0 e7 [[]] None) = true.
  Proof. vm_compute. split; reflexivity. Qed.
End Findings.
