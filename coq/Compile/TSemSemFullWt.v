(* THE STRICT CHECKER OF THE FULL FRAGMENT AGAINST THE RE-CHECKER Lang/Wt.v.

   [scf2_*] (Compile/TSemSemFullCall.v) enforces what the node lemmas need.  Wt.v makes three
   checks more, collected in the structural booleans [wtx_pat] / [wtx_expr] / [wtx_stmt] / [wtx_fns]:
     - a struct literal has as many fields as the definition (scf2: every field of the
       definition is given, exactly once; fields the definition does not have are ignored);
     - a unit enum pattern names a variant WITHOUT payload (scf2: any variant);
     - a range lo..hi has lo <= hi (scf2: only the annotation [u; hi - lo], subtraction in N).
   Everything else Wt.v checks follows from scf2 (Leibniz type equality [ty_beq] implies Wt.v's
   [ty_eqb]; field positions [Sem.index_of] give [assocN]; [gpat_b] gives [wt_pat] with the SAME
   bindings, [gpat_b_wt]).

   (a) [scf2_wtx_implies_wt_le]: scf2_* fw && wtx_* -> Wt.wt_expr / wt_block / wt_stmt n accept, same
       contexts, same types, every n >= fw; [scf2_wtx_implies_wt]: n = fw.
       [in_full_fragment3_wt]: fw <= wt_fuel -> in_full_fragment3 fw P -> wtx_fns P -> Wt.wt_program P
       (Wt.v runs with the fixed fuel 400: the bound is needed, [WtxFindings.deeper_than_wt_fuel]).
   (b) with Lang/WtSound.v ([wt_main_values]) the `Stuck => True` escape of the program theorems goes:
       [wt_run_main_cases], [covered_wt_program_agrees] (any covered program that Wt.v accepts),
       [wt_covered_agrees] (from the boolean [wt_covered] alone), and the [_frag] corollaries inside
       [ValTy.frag_program] (every match has an irrefutable arm), where the run is never Stuck.
       Outside [frag_program] the disjunct `Stuck c, c one of the pattern-match codes` stays: the
       exhaustiveness development (Exhaust/) is not connected to Sem.v's pattern matching.
       No fuel bound for Sem.v is given (there is no termination measure for Sem.v in the tree).
   (c) [WtxFindings]: each wtx check is needed; on the reversed range the two semantics DIFFER
       (Sem.v: the empty array; the lowering: Crash). *)
From Coq Require Import Lia ZArith.
From GV Require Import Base.Util Lang.Ast Lang.Wt Lang.ValTy Lang.WtSound Lang.WtShape
  Panic.PanicRec Panic.PanicSem Compile.Lower Compile.TSem Compile.TSemArith1 Compile.TSemSemExpr Compile.ValEnc
  Compile.TSemSemStmt Compile.TSemSemCall Compile.TSemSemAgg Compile.TSemSemFull
  Compile.TSemSemFullCall Compile.TSemSemFullConst.
From GV Require Lang.Sem.
Local Open Scope N_scope.

(* ------------------------------------------------------------------ the extra checks of Wt.v *)

(* patterns: a unit enum pattern names a variant without payload *)
Fixpoint wtx_pat (P : program) (p : pattern) {struct p} : bool :=
  match p with
  | Pat pi _ _ =>
    match pi with
    | PTup ps => forallb (wtx_pat P) ps
    | PStruct _ _ fields => forallb (fun fp => wtx_pat P (snd fp)) fields
    | PEnumUnit en v =>
        match assocN en (p_enums P) with
        | Some variants => match nthN variants v with Some [] => true | _ => false end
        | None => false
        end
    | PEnumTup _ _ ps => forallb (wtx_pat P) ps
    | _ => true
    end
  end.

(* expressions / statements: a struct literal has as many fields as the definition; a range
   is not reversed *)
Fixpoint wtx_expr (P : program) (e : expr) {struct e} : bool :=
  match e with
  | Ex ei _ _ =>
    match ei with
    | ETrue | EFalse | ENumU _ _ | ENumS _ _ | EId _ => true
    | EArrLit es | ETupLit es | EEnumLit _ _ es | ECall _ es => forallb (wtx_expr P) es
    | EArrRep e1 _ | ETupAcc e1 _ | EFld e1 _ | ENeg e1 | ENot e1 | ECast _ e1 => wtx_expr P e1
    | EIdx a i => wtx_expr P a && wtx_expr P i
    | EStructLit name fields =>
        match assocN name (p_structs P) with
        | Some def => lenN fields =? lenN def
        | None => false
        end && forallb (fun fe => wtx_expr P (snd fe)) fields
    | EMatch s arms =>
        wtx_expr P s && forallb (fun arm => wtx_pat P (fst arm) && wtx_expr P (snd arm)) arms
    | EOp _ x y => wtx_expr P x && wtx_expr P y
    | EBlock b => forallb (wtx_stmt P) b
    | EJoin _ _ a b => wtx_expr P a && wtx_expr P b
    | EIf c a b => wtx_expr P c && wtx_expr P a && wtx_expr P b
    | ERange lo hi _ => lo <=? hi
    end
  end
with wtx_stmt (P : program) (s : stmt) {struct s} : bool :=
  match s with
  | St si _ =>
    match si with
    | SLet p e => wtx_pat P p && wtx_expr P e
    | SLetMut _ e => wtx_expr P e
    | SAssign _ accs e =>
        forallb (fun a => match a with AIdx _ i => wtx_expr P i | _ => true end) accs && wtx_expr P e
    | SFor p arr body => wtx_pat P p && wtx_expr P arr && forallb (wtx_stmt P) body
    | SJoinLoop p _ a b body => wtx_pat P p && wtx_expr P a && wtx_expr P b && forallb (wtx_stmt P) body
    | SExpr e => wtx_expr P e
    end
  end.

(* ------------------------------------------------------------------ type equalities *)

Lemma ty_eqb_refl : forall t, ty_eqb t t = true.
Proof.
  fix IH 1. intros [|s b|e n|ts|n|n]; cbn [ty_eqb].
  - reflexivity.
  - now rewrite Bool.eqb_reflx, N.eqb_refl.
  - now rewrite IH, N.eqb_refl.
  - induction ts as [|x ts IHl]; [reflexivity|]. now rewrite IH, IHl.
  - apply N.eqb_refl.
  - apply N.eqb_refl.
Qed.

Lemma ty_beq_ty_eqb a b : ty_beq a b = true -> ty_eqb a b = true.
Proof. intro H. apply ty_beq_eq in H. subst b. apply ty_eqb_refl. Qed.

Lemma forallb2_refl_map {A} (tyof : A -> ty) (F : A -> bool) l :
  forallb F l = true -> forallb2 (fun e t => ty_eqb (tyof e) t && F e) l (map tyof l) = true.
Proof.
  induction l as [|a l IH]; cbn [forallb map forallb2]; [reflexivity|]. intro H.
  apply andb_prop in H. destruct H as [H1 H2]. now rewrite ty_eqb_refl, H1, IH.
Qed.

Lemma forallb_impl {A} (F G : A -> bool) l : (forall a, In a l -> F a = true -> G a = true) ->
  forallb F l = true -> forallb G l = true.
Proof.
  intros HFG H. rewrite forallb_forall in *. intros a Hin. apply HFG; [exact Hin|now apply H].
Qed.

(* the position of a field and its type *)
Lemma index_of_assocN fld : forall (def : list (N * ty)) i0 k tk,
  Sem.index_of fld (map fst def) i0 = Some k ->
  nth_error (map snd def) (N.to_nat (k - i0)) = Some tk -> i0 <= k /\ assocN fld def = Some tk.
Proof.
  induction def as [|[fn ft] def IH]; intros i0 k tk H Hn; cbn [map fst snd Sem.index_of] in *; [discriminate H|].
  cbn [assocN]. destruct (N.eqb_spec fld fn) as [->|Hne].
  - injection H as <-. rewrite N.sub_diag in Hn. cbn in Hn. injection Hn as <-. split; [lia|reflexivity].
  - destruct (IH (i0 + 1) k tk H) as [Hle Ha].
    + assert (N.to_nat (k - i0) = S (N.to_nat (k - (i0 + 1)))) as E.
      { assert (i0 + 1 <= k).
        { clear - H. revert H. generalize (i0 + 1). induction (map fst def) as [|y r IHr]; intros j H; cbn in H; [discriminate|].
          destruct (fld =? y); [injection H as <-; lia|]. specialize (IHr _ H). lia. }
        lia. }
      rewrite E in Hn. exact Hn.
    + split; [lia|exact Ha].
Qed.

Lemma index_of_assocN0 fld (def : list (N * ty)) k tk : Sem.index_of fld (map fst def) 0 = Some k ->
  nthN (map snd def) k = Some tk -> assocN fld def = Some tk.
Proof.
  intros H Hn. rewrite nthN_spec in Hn.
  destruct (index_of_assocN fld def 0 k tk H) as [_ Ha]; [now rewrite N.sub_0_r|exact Ha].
Qed.

Lemma in_assocN {A} k (v : A) : forall l, NoDup (map fst l) -> In (k, v) l -> assocN k l = Some v.
Proof.
  induction l as [|[k' v'] l IH]; intros Hnd Hin; [destruct Hin|]. cbn [assocN map fst] in *.
  inversion Hnd as [|? ? Hni Hnd']. subst. destruct Hin as [Heq|Hin].
  - injection Heq as -> ->. now rewrite N.eqb_refl.
  - destruct (N.eqb_spec k k') as [->|_]; [|now apply IH].
    exfalso. apply Hni. change k' with (fst (k', v)). now apply in_map.
Qed.

Lemma skip_to_in fn names : forall ds fty r, skip_to fn names ds = Some (fty, r) ->
  In (fn, fty) ds /\ incl r ds.
Proof.
  induction ds as [|[dn dt] ds IH]; intros fty r H; cbn [skip_to] in H; [discriminate H|].
  destruct (N.eqb_spec dn fn) as [->|Hne].
  - injection H as -> ->. split; [now left|]. intros x Hx. now right.
  - destruct (existsb (N.eqb dn) names); [discriminate H|]. destruct (IH _ _ H) as [H1 H2].
    split; [now right|]. intros x Hx. right. now apply H2.
Qed.

Lemma if_none_some {A} (c : bool) (x : option A) y : (if c then None else x) = Some y -> x = Some y.
Proof. destruct c; [discriminate|auto]. Qed.

(* ------------------------------------------------------------------ patterns *)

Section PatWt.
  Variable P : program.

  Theorem gpat_b_wt irr : forall p t bs, gpat_b P irr p t = Some bs -> wtx_pat P p = true ->
    wt_pat P p = Some bs.
  Proof.
    fix IH 1. intros [pi m tp] t bs H Hx. cbn [gpat_b] in H.
    destruct (ty_beq tp t) eqn:Et; cbn [negb] in H; [|discriminate H]. apply ty_beq_eq in Et. subst tp.
    assert (Hlist : forall ps ts bs0,
      (fix go (ps : list pattern) (ts : list ty) : option (list (N * ty)) :=
         match ps, ts with
         | [], [] => Some []
         | p1 :: pr, t1 :: tr =>
             match gpat_b P irr p1 t1, go pr tr with
             | Some b, Some bs => Some (b ++ bs)
             | _, _ => None
             end
         | _, _ => None
         end) ps ts = Some bs0 -> forallb (wtx_pat P) ps = true ->
      (fix go (ps : list pattern) (ts : list ty) : option (list (N * ty)) :=
        match ps, ts with
        | [], [] => Some []
        | p :: pr, t :: tr =>
            if negb (ty_eqb (p_ty p) t) then None else
            match wt_pat P p, go pr tr with
            | Some a, Some b => Some (a ++ b)
            | _, _ => None
            end
        | _, _ => None
        end) ps ts = Some bs0).
    { induction ps as [|p1 pr IHl]; intros [|t1 tr] bs0 H0 Hx0; try discriminate H0.
      - exact H0.
      - destruct (gpat_b P irr p1 t1) as [b|] eqn:E1; [|discriminate H0].
        match type of H0 with match ?G with _ => _ end = _ => destruct G as [bs1|] eqn:E2 end; [|discriminate H0].
        cbn [forallb] in Hx0. apply andb_prop in Hx0. destruct Hx0 as [Hx1 Hx2].
        rewrite (gpat_b_ty P _ _ _ _ E1), ty_eqb_refl. cbn [negb].
        rewrite (IH p1 t1 b E1 Hx1), (IHl tr bs1 E2 Hx2). exact H0. }
    destruct pi; cbn [wtx_pat] in Hx; cbn [wt_pat].
    - exact H.
    - apply if_none_some in H. destruct t; try discriminate H. exact H.
    - apply if_none_some in H. destruct t; try discriminate H. exact H.
    - apply if_none_some in H. destruct t as [|sg b| | | |]; try discriminate H.
      unfold Sem.in_range in H. cbn [lit_fits]. destruct sg; exact H.
    - apply if_none_some in H. destruct t as [|sg b| | | |]; try discriminate H.
      unfold Sem.in_range in H. cbn [lit_fits]. destruct sg; exact H.
    - destruct t as [| | |ts| |]; try discriminate H. now apply Hlist.
    - destruct t as [| | | |n2|]; try discriminate H.
      destruct (N.eqb_spec name n2) as [->|]; cbn [negb] in H; [|discriminate H].
      destruct (assocN n2 (p_structs P)) as [def|] eqn:Ed; [|discriminate H].
      destruct (nodupN (map fst def)) eqn:Nd; cbn [negb] in H; [|discriminate H].
      apply nodupN_NoDup in Nd.
      assert (Hincl : incl def def) by (intros x Hxx; exact Hxx).
      cbn [negb]. revert H Hx Hincl. generalize def at 1 2. generalize bs. clear Hlist.
      induction fields as [|[fn fp] fr IHf]; intros bs0 ds H0 Hx0 Hincl.
      + exact H0.
      + destruct (skip_to fn (map fst ((fn, fp) :: fr)) ds) as [[fty r]|] eqn:Es; [|discriminate H0].
        destruct (gpat_b P irr fp fty) as [b|] eqn:E1; [|discriminate H0].
        match type of H0 with match ?G with _ => _ end = _ => destruct G as [bs1|] eqn:E2 end; [|discriminate H0].
        cbn [forallb snd] in Hx0. apply andb_prop in Hx0. destruct Hx0 as [Hx1 Hx2].
        destruct (skip_to_in _ _ _ _ _ Es) as [Hin Hr].
        rewrite (in_assocN fn fty def Nd (Hincl _ Hin)).
        rewrite (gpat_b_ty P _ _ _ _ E1), ty_eqb_refl. cbn [negb].
        rewrite (IH fp fty b E1 Hx1).
        rewrite (IHf bs1 r E2 Hx2 (fun x Hxx => Hincl x (Hr x Hxx))). exact H0.
    - apply if_none_some in H. destruct t as [| | | | |n2]; try discriminate H.
      destruct (N.eqb_spec ename n2) as [->|]; cbn [negb] in H; [|discriminate H].
      destruct (assocN n2 (p_enums P)) as [variants|] eqn:Ed; [|discriminate H].
      destruct (nthN variants variant) as [[|? ?]|] eqn:En; try discriminate Hx. exact H.
    - apply if_none_some in H. destruct t as [| | | | |n2]; try discriminate H.
      destruct (N.eqb_spec ename n2) as [->|]; cbn [negb] in H; [|discriminate H].
      destruct (assocN n2 (p_enums P)) as [variants|] eqn:Ed; [|discriminate H].
      destruct (nthN variants variant) as [ts|] eqn:En; [|discriminate H]. now apply Hlist.
    - apply if_none_some in H. destruct t as [|sg b| | | |]; try discriminate H.
      unfold Sem.in_range in H. cbn [lit_fits]. destruct sg; exact H.
    - apply if_none_some in H. destruct t as [|sg b| | | |]; try discriminate H.
      unfold Sem.in_range in H. cbn [lit_fits]. destruct sg; exact H.
  Qed.
End PatWt.

(* ------------------------------------------------------------------ list helpers *)

Lemma forallb_impl2 {A} (F X G : A -> bool) l : (forall a, F a = true -> X a = true -> G a = true) ->
  forallb F l = true -> forallb X l = true -> forallb G l = true.
Proof.
  intro H. induction l as [|a l IH]; cbn [forallb]; [reflexivity|]. intros H1 H2.
  apply andb_prop in H1. destruct H1 as [H1 H1']. apply andb_prop in H2. destruct H2 as [H2 H2'].
  now rewrite (H a H1 H2), IH.
Qed.

Lemma forallb2_impl2 {A B} (F G : A -> B -> bool) (X : A -> bool) : forall l l',
  (forall a b, F a b = true -> X a = true -> G a b = true) ->
  forallb2 F l l' = true -> forallb X l = true -> forallb2 G l l' = true.
Proof.
  induction l as [|a l IH]; intros [|b l'] H H1 H2; cbn [forallb2 forallb] in *; try discriminate H1; [reflexivity|].
  apply andb_prop in H1. destruct H1 as [H1 H1']. apply andb_prop in H2. destruct H2 as [H2 H2'].
  now rewrite (H a b H1 H2), (IH l' H H1' H2').
Qed.

Lemma forallb2_map_tys (G : expr -> bool) l :
  forallb G l = true -> forallb2 (fun e t => ty_eqb (e_ty e) t && G e) l (map e_ty l) = true.
Proof.
  induction l as [|a l IH]; cbn [forallb map forallb2]; [reflexivity|]. intro H.
  apply andb_prop in H. destruct H as [H1 H2]. now rewrite ty_eqb_refl, H1, IH.
Qed.

Lemma filter_none {A} k : forall (l : list (N * A)), ~ In k (map fst l) -> filter (fun fe => fst fe =? k) l = [].
Proof.
  induction l as [|[k' v'] l IH]; intro H; [reflexivity|]. cbn [filter fst map] in *.
  destruct (N.eqb_spec k' k) as [->|_]; [exfalso; apply H; now left|]. apply IH. intro Hin. apply H. now right.
Qed.

Lemma filter_assocN {A} k (v : A) : forall l, NoDup (map fst l) -> assocN k l = Some v ->
  filter (fun fe => fst fe =? k) l = [(k, v)].
Proof.
  induction l as [|[k' v'] l IH]; intros Hnd H; [discriminate H|]. cbn [assocN filter fst map] in *.
  inversion Hnd as [|? ? Hni Hnd']. subst. rewrite (N.eqb_sym k' k).
  destruct (N.eqb_spec k k') as [->|_].
  - injection H as ->. now rewrite (filter_none k' l Hni).
  - now apply IH.
Qed.

Lemma struct_exprs_in fields : forall def es, struct_exprs fields def = Some es ->
  forall e, In e es -> exists k, In (k, e) fields.
Proof.
  induction def as [|[fname fty] r IH]; intros es H e Hin; cbn [struct_exprs] in H.
  - injection H as <-. destruct Hin.
  - destruct (assocN fname fields) as [fe|] eqn:Ef; [|discriminate H].
    destruct (struct_exprs fields r) as [es'|] eqn:Er; [|discriminate H]. injection H as <-.
    destruct Hin as [<-|Hin]; [exists fname; now apply assocN_in|now apply (IH es')].
Qed.

Lemma struct_lit_wt (G : expr -> bool) fields : NoDup (map fst fields) -> forall def es,
  struct_exprs fields def = Some es -> forallb G es = true -> map e_ty es = map snd def ->
  forallb (fun d : N * ty => match filter (fun fe : N * expr => fst fe =? fst d) fields with
                    | [(_, fe)] => ty_eqb (e_ty fe) (snd d) && G fe
                    | _ => false
                    end) def = true.
Proof.
  intro Hnd. induction def as [|[fname fty] r IH]; intros es H HG Ht; cbn [struct_exprs] in H; [reflexivity|].
  destruct (assocN fname fields) as [fe|] eqn:Ef; [|discriminate H].
  destruct (struct_exprs fields r) as [es'|] eqn:Er; [|discriminate H]. injection H as <-.
  cbn [forallb map fst snd] in *. apply andb_prop in HG. destruct HG as [HG1 HG2]. injection Ht as Ht1 Ht2.
  rewrite (filter_assocN fname fe fields Hnd Ef), Ht1, ty_eqb_refl, HG1. cbn [andb]. now apply (IH es').
Qed.

(* ------------------------------------------------------------------ operators *)

Lemma scf2_op_wt o x y m t : scf2_op o x y m t = true ->
  match o with
  | OAdd | OSub | OMul | ODiv | OMod => is_int t && ty_eqb (e_ty x) t && ty_eqb (e_ty y) t
  | OBitAnd | OBitXor | OBitOr => (is_int t || is_bool t) && ty_eqb (e_ty x) t && ty_eqb (e_ty y) t
  | OGt | OLt => is_bool t && is_int (e_ty x) && ty_eqb (e_ty x) (e_ty y)
  | OEq | ONe => is_bool t && ty_eqb (e_ty x) (e_ty y)
  | OShl | OShr => is_int t && ty_eqb (e_ty x) t && ty_eqb (e_ty y) (TInt false 8)
  | OLAnd | OLOr => is_bool t && is_bool (e_ty x) && is_bool (e_ty y)
  end = true.
Proof.
  intro H. unfold scf2_op in H. apply orb_prop in H. destruct H as [H|H]; [now apply sc_op_wt|].
  destruct o; try discriminate H.
  - destruct t as [|sg b| | | |]; try discriminate H.
    apply andb_prop in H. destruct H as [H _]. apply andb_prop in H. destruct H as [H1 H2].
    apply sty_eqb_eq in H1. apply sty_eqb_eq in H2. rewrite H1, H2. cbn [is_int andb]. now rewrite ty_eqb_refl.
  - destruct t; try discriminate H. apply ty_beq_eq in H. rewrite H. cbn [is_bool andb]. apply ty_eqb_refl.
  - destruct t; try discriminate H. apply ty_beq_eq in H. rewrite H. cbn [is_bool andb]. apply ty_eqb_refl.
Qed.

(* ------------------------------------------------------------------ the main implication *)

Section MainWt.
  Variable P : program.

  Definition WtE (fw n : nat) : Prop :=
    forall g e, scf2_expr fw P g e = true -> wtx_expr P e = true -> wt_expr n P g e = true.
  Definition WtB (fw n : nat) : Prop :=
    forall g b t, scf2_block fw P g b = Some t -> forallb (wtx_stmt P) b = true -> wt_block n P g b = Some t.
  Definition WtS (fw n : nat) : Prop :=
    forall g s r, scf2_stmt fw P g s = Some r -> wtx_stmt P s = true -> wt_stmt n P g s = Some r.

  Ltac tyeq :=
    repeat match goal with
    | H : ty_beq _ _ = true |- _ => apply ty_beq_eq in H
    end.

  Ltac fimp Hx :=
    match goal with
    | Hf : forallb _ ?l = true |- forallb _ ?l = true =>
        tryif constr_eq Hf Hx then fail else (eapply forallb_impl2; [|exact Hf|exact Hx])
    end.

  Lemma wt_expr_step f n : WtE f n -> WtB f n -> WtE (S f) (S n).
  Proof.
    intros IHe IHb g [ei m t] H Hx. cbn [scf2_expr] in H. cbn [wtx_expr] in Hx. cbn [wt_expr].
    destruct ei as [| |nu lb|z lb|name|es|e1 nr|a i|es|e1 i|e1 fld|name fields|ename variant args|s arms|e1|e1|o x y|b|fn args|jt ha a b|c a b|to e1|lo hi bits].
    - (* true *) apply ty_beq_eq in H. now subst t.
    - apply ty_beq_eq in H. now subst t.
    - destruct t; try discriminate H. exact H.
    - destruct t; try discriminate H. exact H.
    - destruct (tlookup g name) as [[tx mu]|]; [|discriminate H]. now apply ty_beq_ty_eqb.
    - (* array literal *)
      destruct t as [| |el nn| | |]; try discriminate H. bsplit. rewrite H. cbn [andb].
      fimp Hx. intros a Ha Hxa. cbn beta in Ha. bsplit.
      rewrite (ty_beq_ty_eqb _ _ ltac:(eassumption)). now rewrite IHe.
    - (* array repeat *)
      destruct t as [| |el nn| | |]; try discriminate H. bsplit.
      rewrite H, (ty_beq_ty_eqb _ _ ltac:(eassumption)). now rewrite IHe.
    - (* index *)
      destruct (e_ty a) as [| |el nn| | |]; try discriminate H.
      destruct (e_ty i) as [|[] b| | | |] eqn:Ei; try discriminate H. bsplit.
      rewrite (ty_beq_ty_eqb _ _ ltac:(eassumption)). cbn [is_unsigned andb]. rewrite !IHe by assumption. reflexivity.
    - (* tuple literal *)
      bsplit. tyeq. subst t. apply forallb2_map_tys. fimp Hx.
      intros a Ha Hxa. now apply IHe.
    - (* tuple access *)
      destruct (e_ty e1) as [| | |ts| |]; try discriminate H. destruct (nthN ts i) as [ti|]; [|discriminate H].
      bsplit. rewrite (ty_beq_ty_eqb _ _ ltac:(eassumption)). now rewrite IHe.
    - (* field *)
      destruct (e_ty e1) as [| | | |sname|]; try discriminate H.
      destruct (assocN sname (p_structs P)) as [def|]; [|discriminate H].
      destruct (Sem.index_of fld (map fst def) 0) as [k|] eqn:Ek; [|discriminate H].
      destruct (nthN (map snd def) k) as [tk|] eqn:En; [|discriminate H]. bsplit.
      rewrite (index_of_assocN0 fld def k tk Ek En), (ty_beq_ty_eqb _ _ ltac:(eassumption)). now rewrite IHe.
    - (* struct literal *)
      destruct (assocN name (p_structs P)) as [def|]; [|discriminate H]. bsplit.
      match goal with Hs : match struct_exprs fields def with _ => _ end = true |- _ =>
        destruct (struct_exprs fields def) as [es|] eqn:Es; [|discriminate Hs]; apply andb_prop in Hs;
        destruct Hs as [Hes Hts] end.
      tyeq. subst t. rewrite N.eqb_refl. cbn [andb].
      match goal with Hl : (lenN fields =? lenN def) = true |- _ => rewrite Hl end. cbn [andb].
      assert (Hnd : NoDup (map fst fields)) by (apply nodupN_NoDup; assumption).
      apply (struct_lit_wt (wt_expr n P g) fields Hnd def es Es); [|congruence].
      + rewrite forallb_forall. intros e Hin. rewrite forallb_forall in Hes.
        destruct (struct_exprs_in fields def es Es e Hin) as [k Hk]. apply IHe; [now apply Hes|].
        match goal with Hw : forallb _ fields = true |- _ => rewrite forallb_forall in Hw; exact (Hw _ Hk) end.
    - (* enum literal *)
      destruct (assocN ename (p_enums P)) as [variants|]; [|discriminate H].
      destruct (nthN variants variant) as [ts|]; [|discriminate H]. bsplit. tyeq. subst t.
      rewrite N.eqb_refl. cbn [andb].
      match goal with He : TTup _ = TTup ts |- _ => injection He as <- end.
      apply forallb2_map_tys. fimp Hx. intros a Ha Hxa. now apply IHe.
    - (* match *)
      apply andb_prop in Hx. destruct Hx as [Hxs Hxr]. bsplit. rewrite IHe by assumption. cbn [andb].
      fimp Hxr. intros [p b] Ha Hxa. cbn [fst snd] in *.
      destruct (gpat_b P false p (e_ty s)) as [bs|] eqn:Ep; [|discriminate Ha]. bsplit.
      rewrite (gpat_b_ty P _ _ _ _ Ep), ty_eqb_refl, (ty_beq_ty_eqb _ _ ltac:(eassumption)).
      rewrite (gpat_b_wt P false p _ bs Ep) by assumption. cbn [andb]. now apply IHe.
    - (* neg *)
      destruct t as [|[] b| | | |]; try discriminate H. bsplit.
      rewrite (ty_beq_ty_eqb _ _ ltac:(eassumption)). cbn [is_signed_int andb]. now apply IHe.
    - (* not *)
      bsplit. rewrite (ty_beq_ty_eqb _ _ ltac:(eassumption)), IHe by assumption.
      destruct t; try discriminate; reflexivity.
    - (* operators *)
      bsplit. rewrite !IHe by assumption. cbn [andb]. eapply scf2_op_wt. eassumption.
    - (* block *)
      destruct (scf2_block f P ([] :: g) b) as [tb|] eqn:Eb; [|discriminate H].
      rewrite (IHb _ _ _ Eb Hx). now apply ty_beq_ty_eqb.
    - (* call *)
      destruct (find_fn P fn) as [d|]; [|discriminate H]. bsplit.
      rewrite (ty_beq_ty_eqb _ _ ltac:(eassumption)). cbn [andb].
      eapply forallb2_impl2; [|eassumption|exact Hx]. intros a p Ha Hxa. cbn beta in Ha. bsplit.
      rewrite (ty_beq_ty_eqb _ _ ltac:(eassumption)). now rewrite IHe.
    - discriminate H.
    - (* if *)
      bsplit. tyeq.
      repeat match goal with He : e_ty _ = _ |- _ => rewrite He end.
      rewrite ty_eqb_refl, !IHe by assumption. reflexivity.
    - (* cast *)
      bsplit. rewrite (ty_beq_ty_eqb _ _ ltac:(eassumption)), IHe by assumption.
      rewrite !scalar_int_or_bool by assumption. reflexivity.
    - (* range *)
      bsplit. rewrite Hx. now rewrite (ty_beq_ty_eqb _ _ ltac:(eassumption)).
  Qed.
  Lemma wt_block_step f n : WtS f n -> WtB (S f) (S n).
  Proof.
    intros IHs g b t. cbn [scf2_block wt_block]. generalize unit_ty. revert g.
    induction b as [|s r IH]; intros g last H Hx; [exact H|].
    cbn [forallb] in Hx. apply andb_prop in Hx. destruct Hx as [Hx1 Hx2].
    destruct (scf2_stmt f P g s) as [[g' t']|] eqn:Es; [|discriminate H].
    rewrite (IHs _ _ _ Es Hx1). now apply IH.
  Qed.

  Lemma wt_stmt_step f n : WtE f n -> WtB f n -> WtS (S f) (S n).
  Proof.
    intros IHe IHb g [si m] r H Hx. cbn [scf2_stmt] in H. cbn [wtx_stmt] in Hx. cbn [wt_stmt].
    destruct si as [p e|x e|x accs e|p arr body|p jt a b body|e].
    - (* let *)
      apply andb_prop in Hx. destruct Hx as [Hxp Hxe].
      destruct (scf2_expr f P g e) eqn:Ee; [|discriminate H].
      destruct (gpat_b P true p (e_ty e)) as [bs|] eqn:Ep; [|discriminate H].
      rewrite (IHe _ _ Ee Hxe), (gpat_b_ty P _ _ _ _ Ep), ty_eqb_refl. cbn [andb].
      now rewrite (gpat_b_wt P true p _ bs Ep Hxp).
    - (* let mut *)
      destruct (scf2_expr f P g e) eqn:Ee; [|discriminate H]. now rewrite (IHe _ _ Ee Hx).
    - (* assignment *)
      apply andb_prop in Hx. destruct Hx as [Hxa Hxe].
      destruct (tlookup g x) as [[tx []]|]; try discriminate H.
      destruct (scf2_expr f P g e) eqn:Ee; [|discriminate H]. pose proof (IHe _ _ Ee Hxe) as Hwe.
      revert Hxa H. generalize tx. induction accs as [|ac accs IH]; intros cur Hxa H.
      + destruct (ty_beq cur (e_ty e)) eqn:Et; [|discriminate H]. now rewrite (ty_beq_ty_eqb _ _ Et), Hwe.
      + cbn [forallb] in Hxa. apply andb_prop in Hxa. destruct Hxa as [Hx1 Hx2].
        destruct ac as [aty ie|tty i|sty fld].
        * destruct cur as [| |el nn| | |]; try discriminate H.
          destruct (e_ty ie) as [|[] bb| | | |] eqn:Ei; try discriminate H.
          match type of H with match (if ?c then _ else _) with _ => _ end = _ => destruct c eqn:Ec end; [|discriminate H].
          bsplit. rewrite (ty_beq_ty_eqb _ _ ltac:(eassumption)), IHe by assumption. cbn [is_unsigned andb].
          now apply IH.
        * destruct cur as [| | |ts| |]; try discriminate H.
          destruct (ty_beq tty (TTup ts)) eqn:Et; [|discriminate H]. rewrite (ty_beq_ty_eqb _ _ Et).
          destruct (nthN ts i) as [ti|]; [|discriminate H]. now apply IH.
        * destruct cur as [| | | |name|]; try discriminate H.
          destruct (ty_beq sty (TStruct name)) eqn:Et; [|discriminate H]. rewrite (ty_beq_ty_eqb _ _ Et).
          destruct (assocN name (p_structs P)) as [def|]; [|discriminate H].
          destruct (Sem.index_of fld (map fst def) 0) as [k|] eqn:Ek; [|discriminate H].
          destruct (nthN (map snd def) k) as [tk|] eqn:En; [|discriminate H].
          rewrite (index_of_assocN0 fld def k tk Ek En). now apply IH.
    - (* for *)
      apply andb_prop in Hx. destruct Hx as [Hx Hxb]. apply andb_prop in Hx. destruct Hx as [Hxp Hxa].
      destruct (e_ty arr) as [| |el nn| | |]; try discriminate H.
      destruct (scf2_expr f P g arr) eqn:Ea; [|discriminate H].
      destruct (gpat_b P true p el) as [bs|] eqn:Ep; [|discriminate H].
      destruct (scf2_block f P (tbind_all ([] :: g) bs false) body) as [tb|] eqn:Eb; [|discriminate H].
      rewrite (IHe _ _ Ea Hxa), (gpat_b_ty P _ _ _ _ Ep), ty_eqb_refl. cbn [andb].
      rewrite (gpat_b_wt P true p _ bs Ep Hxp), (IHb _ _ _ Eb Hxb). exact H.
    - discriminate H.
    - destruct (scf2_expr f P g e) eqn:Ee; [|discriminate H]. now rewrite (IHe _ _ Ee Hx).
  Qed.

  (* [scf2_*] and [wtx_*] accept => [Wt.wt_*] accepts, with the same contexts and types, at every
     fuel that is at least the checker's *)
  Theorem scf2_wtx_implies_wt_le : forall fw n, (fw <= n)%nat -> WtE fw n /\ WtB fw n /\ WtS fw n.
  Proof.
    induction fw as [|f IH]; intros n Hle.
    - repeat split; intros g x; intros; discriminate.
    - destruct n as [|n]; [lia|]. destruct (IH n ltac:(lia)) as (IHe & IHb & IHs).
      split; [now apply wt_expr_step|]. split; [now apply wt_block_step|now apply wt_stmt_step].
  Qed.

  (* ... in particular with the SAME fuel *)
  Theorem scf2_wtx_implies_wt fw :
    (forall g e, scf2_expr fw P g e = true -> wtx_expr P e = true -> wt_expr fw P g e = true) /\
    (forall g b t, scf2_block fw P g b = Some t -> forallb (wtx_stmt P) b = true -> wt_block fw P g b = Some t) /\
    (forall g s r, scf2_stmt fw P g s = Some r -> wtx_stmt P s = true -> wt_stmt fw P g s = Some r).
  Proof. exact (scf2_wtx_implies_wt_le fw fw (le_n fw)). Qed.
End MainWt.
Print Assumptions scf2_wtx_implies_wt_le.
Print Assumptions scf2_wtx_implies_wt.

(* ------------------------------------------------------------------ programs *)

Definition wtx_fn (P : program) (d : fndef) : bool := forallb (wtx_stmt P) (fn_body d).
Definition wtx_fns (P : program) : bool := forallb (wtx_fn P) (p_fns P).

Lemma consts_tenv_scope P : consts_tenv P = [consts_scope P].
Proof.
  unfold consts_scope. unfold consts_tenv.
  destruct (tbind_all_single [] (map (fun c => (fst c, e_ty (snd c))) (p_consts P)) (fun b H => match H with end))
    as (gs' & -> & _). reflexivity.
Qed.

Lemma scf_const_wt P c : scf_const c = true -> is_lit (snd c) && wt_expr wt_fuel P [] (snd c) = true.
Proof.
  unfold scf_const. rewrite wt_fuel_S. destruct (snd c) as [ei m t]. destruct ei; try discriminate; cbn [is_lit wt_expr andb].
  - intro H. apply ty_beq_eq in H. now subst t.
  - intro H. apply ty_beq_eq in H. now subst t.
  - destruct t; try discriminate. intro H. apply andb_prop in H. tauto.
  - destruct t; try discriminate. intro H. apply andb_prop in H. tauto.
Qed.

(* the checker of the full fragment with calls and constants, run with a fuel that Wt.v also
   has, together with the extra checks: the re-checker accepts the program *)
Theorem in_full_fragment3_wt fw P : (fw <= wt_fuel)%nat ->
  in_full_fragment3 fw P = true -> wtx_fns P = true -> wt_program P = true.
Proof.
  intros Hle H Hx. unfold in_full_fragment3 in H. destruct (find_fn P (p_main P)) as [d0|]; [|discriminate H].
  apply andb_prop in H. destruct H as [H Hf]. apply andb_prop in H. destruct H as [_ Hc].
  unfold wt_program. apply andb_true_intro. split.
  - unfold scf_consts in Hc. eapply forallb_impl; [|exact Hc]. intros c _. apply scf_const_wt.
  - unfold scf2_fns in Hf. unfold wtx_fns in Hx. eapply forallb_impl2; [|exact Hf|exact Hx].
    intros d Hd Hxd. unfold scf2_fn in Hd. unfold wtx_fn in Hxd. unfold wt_fn. rewrite consts_tenv_scope.
    destruct (scf2_block fw P ([] :: tbind_all [[]; consts_scope P] (fn_params d) true) (fn_body d)) as [t|] eqn:Eb;
      [|discriminate Hd].
    destruct (scf2_wtx_implies_wt_le P fw wt_fuel Hle) as (_ & HB & _).
    rewrite (HB _ _ _ Eb Hxd). now apply ty_beq_ty_eqb.
Qed.
Print Assumptions in_full_fragment3_wt.

(* ------------------------------------------------------------------ no `Stuck` escape *)

From GV Require Import Compile.Fragment.

Lemma canonical_args_decode P : forall params args, canonical_args P params args = true ->
  exists vals, Sem.decode_args P params args = Some vals.
Proof.
  unfold canonical_args. induction params as [|[x t] pr IH]; intros [|a ar] H; cbn [forallb2] in H; try discriminate H.
  - exists []. reflexivity.
  - apply andb_prop in H. destruct H as [Ha Hr]. destruct (IH ar Hr) as [rest Er]. cbn [snd] in Ha.
    unfold canonical_arg in Ha. apply andb_prop in Ha. destruct Ha as [_ Ha]. cbn [Sem.decode_args].
    destruct (Sem.decode Sem.ty_fuel P t a) as [[v [|? ?]]|]; try discriminate Ha. rewrite Er. eauto.
Qed.

(* the declared result type of main is within the depth [encode] handles *)
Definition main_ret_fits (P : program) : bool :=
  match find_fn P (p_main P) with Some d => ty_fits_b P (fn_ret d) | None => false end.

(* a program accepted by Wt.v on inputs that decode: the run ends with a result, a panic, or
   out of fuel; the only other possibility is one of the pattern-match codes [stuck_allowed],
   outside [frag_program] *)
Theorem wt_run_main_cases P fuel args : wt_program P = true -> main_ret_fits P = true ->
  (exists d vals, find_fn P (p_main P) = Some d /\ Sem.decode_args P (fn_params d) args = Some vals) ->
  (exists bits l, Sem.run_main fuel P args = Sem.RunOk bits l) \/
  (exists r m, Sem.run_main fuel P args = Sem.RunPanic r m) \/
  Sem.run_main fuel P args = Sem.RunNoFuel \/
  (frag_program P = false /\ exists c, Sem.run_main fuel P args = Sem.RunStuck c /\ In c stuck_allowed).
Proof.
  intros Hwt Hfit (d & vals & Hfind & Hdec). unfold main_ret_fits in Hfit. rewrite Hfind in Hfit.
  pose proof (wt_main_values P d fuel vals Hwt Hfind (decode_args_ok P _ _ _ Hdec)) as H.
  unfold Sem.run_main. rewrite Hfind, Hdec.
  destruct (Sem.eval_consts fuel P) as [en0| | |]; try contradiction; [|right; right; left; reflexivity].
  destruct (Sem.exec_block fuel P _ (fn_body d)) as [[v en']|r m|c|].
  - destruct (encode_sizeof P _ _ Hfit H) as [bits [Hb _]]. rewrite Hb. left. eauto.
  - right. left. eauto.
  - right. right. right. destruct H as [Hin Hfr]. split; [exact Hfr|]. eauto.
  - right. right. left. reflexivity.
Qed.
Print Assumptions wt_run_main_cases.

(* the observations of a soundness theorem of a fragment, as a proposition *)
Definition agree_obs (P : program) (fuel : nat) (args : list (list bool)) (o : pobs) (outs : list bool) : Prop :=
  match Sem.run_main fuel P args with
  | Sem.RunOk bits _ => o = None /\ outs = bits
  | Sem.RunPanic r m => o = Some (preason_num (pr r), ploc32 (ploc_of m))
  | Sem.RunStuck _ | Sem.RunNoFuel => True
  end.

Lemma agree_obs_cases P fuel args o outs : wt_program P = true -> main_ret_fits P = true ->
  canonical_main_args P args = true -> agree_obs P fuel args o outs ->
  (exists bits l, Sem.run_main fuel P args = Sem.RunOk bits l /\ o = None /\ outs = bits) \/
  (exists r m, Sem.run_main fuel P args = Sem.RunPanic r m /\ o = Some (preason_num (pr r), ploc32 (ploc_of m))) \/
  Sem.run_main fuel P args = Sem.RunNoFuel \/
  (frag_program P = false /\ exists c, Sem.run_main fuel P args = Sem.RunStuck c /\ In c stuck_allowed).
Proof.
  intros Hwt Hfit Hcan Hobs. unfold canonical_main_args in Hcan.
  destruct (find_fn P (p_main P)) as [d|] eqn:Hfind; [|discriminate Hcan].
  destruct (canonical_args_decode P _ _ Hcan) as [vals Hdec].
  unfold agree_obs in Hobs.
  destruct (wt_run_main_cases P fuel args Hwt Hfit (ex_intro _ d (ex_intro _ vals (conj Hfind Hdec))))
    as [(bits & l & E)|[(r & m & E)|[E|E]]].
  - rewrite E in Hobs. left. destruct Hobs as [-> ->]. eauto.
  - rewrite E in Hobs. right. left. eauto.
  - right. right. left. exact E.
  - right. right. right. exact E.
Qed.

(* (b), for every covered program that Wt.v accepts: the bit-level semantics and Sem.v agree
   and the `Stuck => True` escape of [covered_program_sound] is gone *)
Theorem covered_wt_program_agrees P fuel fw fT args o outs :
  covered_program fw P = true -> wt_program P = true -> main_ret_fits P = true ->
  canonical_main_args P args = true -> tsem_program fT P args = Ok (o, outs) ->
  (exists bits l, Sem.run_main fuel P args = Sem.RunOk bits l /\ o = None /\ outs = bits) \/
  (exists r m, Sem.run_main fuel P args = Sem.RunPanic r m /\ o = Some (preason_num (pr r), ploc32 (ploc_of m))) \/
  Sem.run_main fuel P args = Sem.RunNoFuel \/
  (frag_program P = false /\ exists c, Sem.run_main fuel P args = Sem.RunStuck c /\ In c stuck_allowed).
Proof.
  intros Hcov Hwt Hfit Hcan Hrun. apply agree_obs_cases; try assumption.
  exact (covered_program_sound P fuel fw fT args o outs Hcov Hcan Hrun).
Qed.
Print Assumptions covered_wt_program_agrees.

(* inside the total fragment of Lang/ValTy.v (every match has an irrefutable arm): never Stuck *)
Corollary covered_wt_program_agrees_frag P fuel fw fT args o outs :
  covered_program fw P = true -> wt_program P = true -> main_ret_fits P = true -> frag_program P = true ->
  canonical_main_args P args = true -> tsem_program fT P args = Ok (o, outs) ->
  (exists bits l, Sem.run_main fuel P args = Sem.RunOk bits l /\ o = None /\ outs = bits) \/
  (exists r m, Sem.run_main fuel P args = Sem.RunPanic r m /\ o = Some (preason_num (pr r), ploc32 (ploc_of m))) \/
  Sem.run_main fuel P args = Sem.RunNoFuel.
Proof.
  intros Hcov Hwt Hfit Hfr Hcan Hrun.
  destruct (covered_wt_program_agrees P fuel fw fT args o outs Hcov Hwt Hfit Hcan Hrun) as [H|[H|[H|[H _]]]]; auto.
  congruence.
Qed.
Print Assumptions covered_wt_program_agrees_frag.

(* the same from the two checkers of this development alone: [in_full_fragment3] (run with a
   fuel Wt.v also has) and [wtx_fns] *)
Definition wt_covered (fw : nat) (P : program) : bool :=
  in_full_fragment3 fw P && wtx_fns P && main_ret_fits P.

Theorem wt_covered_agrees P fuel fw fT args o outs : (fw <= wt_fuel)%nat ->
  wt_covered fw P = true -> canonical_main_args P args = true -> tsem_program fT P args = Ok (o, outs) ->
  wt_program P = true /\
  ((exists bits l, Sem.run_main fuel P args = Sem.RunOk bits l /\ o = None /\ outs = bits) \/
   (exists r m, Sem.run_main fuel P args = Sem.RunPanic r m /\ o = Some (preason_num (pr r), ploc32 (ploc_of m))) \/
   Sem.run_main fuel P args = Sem.RunNoFuel \/
   (frag_program P = false /\ exists c, Sem.run_main fuel P args = Sem.RunStuck c /\ In c stuck_allowed)).
Proof.
  intros Hle H Hcan Hrun. unfold wt_covered in H. apply andb_prop in H. destruct H as [H Hfit].
  apply andb_prop in H. destruct H as [H3 Hx]. pose proof (in_full_fragment3_wt fw P Hle H3 Hx) as Hwt.
  split; [exact Hwt|]. apply agree_obs_cases; try assumption.
  exact (in_full_fragment3_sound P fuel fw fT args o outs H3 Hcan Hrun).
Qed.
Print Assumptions wt_covered_agrees.

Corollary wt_covered_agrees_frag P fuel fw fT args o outs : (fw <= wt_fuel)%nat ->
  wt_covered fw P = true -> frag_program P = true ->
  canonical_main_args P args = true -> tsem_program fT P args = Ok (o, outs) ->
  (exists bits l, Sem.run_main fuel P args = Sem.RunOk bits l /\ o = None /\ outs = bits) \/
  (exists r m, Sem.run_main fuel P args = Sem.RunPanic r m /\ o = Some (preason_num (pr r), ploc32 (ploc_of m))) \/
  Sem.run_main fuel P args = Sem.RunNoFuel.
Proof.
  intros Hle H Hfr Hcan Hrun.
  destruct (wt_covered_agrees P fuel fw fT args o outs Hle H Hcan Hrun) as [_ [H1|[H1|[H1|[H1 _]]]]]; auto.
  congruence.
Qed.
Print Assumptions wt_covered_agrees_frag.

Lemma wt_fuel_400 : wt_fuel = 400%nat.
Proof. with_strategy transparent [wt_fuel] reflexivity. Qed.

(* ------------------------------------------------------------------ (c) what [scf2_*] accepts and
   Wt.v rejects: each of the three [wtx] checks is needed for the implication.  On two of the
   three the two semantics agree all the same (as [in_full_fragment3_sound] says they must);
   on the reversed range they DIFFER: Sem.v returns the empty array, the lowering crashes
   (so the soundness theorem, which speaks about [Ok] runs, is vacuous there). *)
Module WtxFindings.
  Definition mm (k : N) : meta := mkMeta k 1 k 9.
  Definition u8 := TInt false 8.
  Definition tpoint := TStruct 20.            (* struct Point { x: u8, y: u8 } *)
  Definition tshape := TEnum 30.              (* enum Shape { Dot, Line(u8) } *)
  Definition lit (n : N) (k : N) := Ex (ENumU n 8) (mm k) u8.
  Definition v (x : N) (t : ty) (k : N) := Ex (EId x) (mm k) t.
  Definition structs : list (N * list (N * ty)) := [(20, [(0, u8); (1, u8)])].
  Definition enums : list (N * list (list ty)) := [(30, [[]; [u8]])].

  (* 1. pub fn main() -> [u8; 0] { 5..3 }  (the type annotation is hi - lo in N, i.e. 0) *)
  Definition f1 := mkFn 11 [] (TArr u8 0) [St (SExpr (Ex (ERange 5 3 8) (mm 1) (TArr u8 0))) (mm 2)].
  Definition P1 := mkProgram structs enums [f1] [] 11.
  Example reversed_range_differs :
    in_full_fragment3 6 P1 = true /\ wtx_fns P1 = false /\ wt_program P1 = false /\
    canonical_main_args P1 [] = true /\
    Sem.run_main 8 P1 [] = Sem.RunOk [] false /\ tsem_program 8 P1 [] = Crash.
  Proof. vm_compute. repeat split; reflexivity. Qed.

  (* 2. match s { Shape::Line => 1, _ => 0 } : a unit pattern for a variant with a payload *)
  Definition f2 := mkFn 11 [(2, tshape)] u8
    [St (SExpr (Ex (EMatch (v 2 tshape 1)
          [(Pat (PEnumUnit 30 1) (mm 2) tshape, lit 1 3); (Pat (PId 9) (mm 4) tshape, lit 0 5)]) (mm 6) u8)) (mm 7)].
  Definition P2 := mkProgram structs enums [f2] [] 11.
  Example unit_pattern_on_payload_variant :
    in_full_fragment3 6 P2 = true /\ wtx_fns P2 = false /\ wt_program P2 = false /\
    Sem.run_main 8 P2 [true :: enc 8 7] = Sem.RunOk (enc 8 1) false /\
    tsem_program 8 P2 [true :: enc 8 7] = Ok (None, enc 8 1).
  Proof. vm_compute. repeat split; reflexivity. Qed.

  (* 3. Point { x: a, y: a, z: a + 200 } : a field the definition does not have; neither
     semantics evaluates it (no Overflow at a = 100) *)
  Definition f3 := mkFn 11 [(1, u8)] tpoint
    [St (SExpr (Ex (EStructLit 20 [(0, v 1 u8 1); (1, v 1 u8 2);
                                   (2, Ex (EOp OAdd (v 1 u8 3) (lit 200 4)) (mm 5) u8)]) (mm 6) tpoint)) (mm 7)].
  Definition P3 := mkProgram structs enums [f3] [] 11.
  Example extra_struct_field :
    in_full_fragment3 6 P3 = true /\ wtx_fns P3 = false /\ wt_program P3 = false /\
    Sem.run_main 8 P3 [enc 8 100] = Sem.RunOk (enc 8 100 ++ enc 8 100) false /\
    tsem_program 8 P3 [enc 8 100] = Ok (None, enc 8 100 ++ enc 8 100).
  Proof. vm_compute. repeat split; reflexivity. Qed.

  (* 4. the premise fw <= wt_fuel of [in_full_fragment3_wt] is needed: Wt.v runs with the fixed
     fuel 400 and rejects deeper trees, whatever they are: !!...!true, 450 deep *)
  Definition deep : expr := Nat.iter 450 (fun e => Ex (ENot e) (mm 1) TBool) (Ex ETrue (mm 1) TBool).
  Definition P4 := mkProgram [] [] [mkFn 11 [] TBool [St (SExpr deep) (mm 2)]] [] 11.
  Example deeper_than_wt_fuel :
    in_full_fragment3 500 P4 = true /\ wtx_fns P4 = true /\ wt_program P4 = false.
  Proof. vm_compute. repeat split; reflexivity. Qed.
End WtxFindings.

(* the example program of TSemSemFullCall.v passes all the checks *)
Module SanityWt.
  Import SanityFullCall.
  Example accepted : wt_covered 14 P0 = true.
  Proof. vm_compute. reflexivity. Qed.

  Example le : (14 <= wt_fuel)%nat.
  Proof. rewrite wt_fuel_400. lia. Qed.

  Example wt_accepts : wt_program P0 = true.
  Proof.
    pose proof accepted as H. unfold wt_covered in H. apply andb_prop in H. destruct H as [H _].
    apply andb_prop in H. destruct H as [H3 Hx]. exact (in_full_fragment3_wt 14 P0 le H3 Hx).
  Qed.

  (* its match lists the variants (no irrefutable arm): outside [frag_program], the last disjunct stays *)
  Example not_frag : frag_program P0 = false.
  Proof. vm_compute. reflexivity. Qed.
End SanityWt.
