(* THE GENERAL VALUE RELATION between the source-level values of Lang/Sem.v and the bit
   vectors of the bit-level semantics (Compile/TSem.v), for ALL types: [has_enc P t v w] =
   "v is a value of type t (integers in range) and w is its canonical encoding".

   1  [has_enc] / [has_encs] (mutual: a value / a list of components, concatenated), the
      views through [Forall3] / [Forall2] and [concat], the one-motive induction principle
      [has_enc_ind2]
   2  [has_enc_scalar]: on scalar types it is the relation of TSemSemExpr.v
   3  [has_enc_encode], [encode_has_enc], [has_enc_iff_encode]: it is the graph of
      [Sem.encode] on values whose integers are in range ([in_rng]), for types explored within
      the fuel ([ty_fits P t] = [ty_ok (pred ty_fuel) P t = true], Lang/ValTy.v)
   4  [has_enc_length]: [length w = szn P t]
   5  [has_enc_decode]: canonical encodings decode to the value (all types; enums need
      [enums_small]: see [decode_needs_small])
   6  projections / constructions in the vocabulary of Compile/Lower.v: [tuple_offsets],
      [struct_offsets], [slice], [splice], [concat], [unsigned_as_wires], [enum_tag_size],
      [enum_max_size], element lists with [all_len] / [list_set] (Compile/TSemArray.v)
   7  [ValEncExample]: a program with a struct, an enum and an array of tuples *)
From Coq Require Import Lia ZArith.
From GV Require Import Base.Util Base.Bits Lang.Ast Lang.Wt Lang.ValTy Lang.WtSound Lang.WtShape
  Compile.Lower Compile.TSem Compile.TSemArith1 Compile.TSemControl Compile.TSemArray
  Compile.TSemSemExpr.
From GV Require Lang.Sem.
Local Open Scope N_scope.

(* ------------------------------------------------------------------ 0. integers *)

Lemma testbit_low_mod z k i : (i < k)%nat ->
  N.testbit (Z.to_N (z mod 2 ^ Z.of_nat k)) (N.of_nat i) = Z.testbit z (Z.of_nat i).
Proof.
  intro Hi.
  assert (0 < 2 ^ Z.of_nat k)%Z as Hp by (apply Z.pow_pos_nonneg; lia).
  pose proof (Z.mod_pos_bound z _ Hp) as Hb.
  rewrite <- Z.testbit_of_N. rewrite Z2N.id by lia. rewrite nat_N_Z.
  apply Z.mod_pow2_bits_low. lia.
Qed.

Lemma N_to_bits_bits_of_Z z k : forall n, (n <= k)%nat ->
  N_to_bits n (Z.to_N (z mod 2 ^ Z.of_nat k)) = Sem.bits_of_Z n z.
Proof.
  induction n as [|n IH]; intro Hn; [reflexivity|].
  cbn [N_to_bits Sem.bits_of_Z]. rewrite testbit_low_mod by lia. f_equal. apply IH. lia.
Qed.

(* the encoding of TSemArith1 is the bit list of Sem.encode *)
Lemma enc_bits_of_Z n z : enc n z = Sem.bits_of_Z n z.
Proof. unfold enc. apply N_to_bits_bits_of_Z. lia. Qed.

(* ------------------------------------------------------------------ 1. the relation *)

(* [Forall3] (three lists related pointwise) is the one of Compile/TSemSemExpr.v *)

(* the bits of an enum value: tag (big-endian, tag_bits wide), payload, zero padding up to the
   size of the enum type *)
Definition enum_bits (P : program) (name : N) (variants : list (list ty)) (tag : N)
    (payload : list bool) : list bool :=
  let body := enc (enum_tag_size variants) (Z.of_N tag) ++ payload in
  body ++ repeat false (szn P (TEnum name) - length body).

Inductive has_enc (P : program) : ty -> Sem.value -> list bool -> Prop :=
| HE_bool b : has_enc P TBool (Sem.VBool b) [b]
| HE_int sg n z : Sem.in_range sg n z = true ->
    has_enc P (TInt sg n) (Sem.VInt z) (enc (N.to_nat n) z)
| HE_arr el n vs w : lenN vs = n -> has_encs P (repeat el (length vs)) vs w ->
    has_enc P (TArr el n) (Sem.VArr vs) w
| HE_tup ts vs w : has_encs P ts vs w -> has_enc P (TTup ts) (Sem.VTup vs) w
| HE_struct name def vs w : assocN name (p_structs P) = Some def ->
    has_encs P (map snd def) vs w -> has_enc P (TStruct name) (Sem.VTup vs) w
| HE_enum name variants tag ts vs pw : assocN name (p_enums P) = Some variants ->
    nthN variants tag = Some ts -> has_encs P ts vs pw ->
    has_enc P (TEnum name) (Sem.VEnum tag vs) (enum_bits P name variants tag pw)
(* components of the types [ts], encodings concatenated *)
with has_encs (P : program) : list ty -> list Sem.value -> list bool -> Prop :=
| HEs_nil : has_encs P [] [] []
| HEs_cons t v ts vs a b : has_enc P t v a -> has_encs P ts vs b ->
    has_encs P (t :: ts) (v :: vs) (a ++ b).

Scheme has_enc_mut := Minimality for has_enc Sort Prop
  with has_encs_mut := Minimality for has_encs Sort Prop.
Combined Scheme has_enc_mutind from has_enc_mut, has_encs_mut.

(* ---- the views through lists of chunks *)

Lemma has_encs_F3 P ts vs w :
  has_encs P ts vs w <-> exists ws, Forall3 (has_enc P) ts vs ws /\ w = concat ws.
Proof.
  split.
  - induction 1 as [|t v ts vs a b Ha _ (ws & Hws & ->)].
    + exists []. split; [constructor|reflexivity].
    + exists (a :: ws). split; [now constructor|reflexivity].
  - intros (ws & Hws & ->). induction Hws as [|t v c ts vs ws Hc _ IH]; cbn [concat]; now constructor.
Qed.

Lemma F3_repeat_l {A B C} (R : A -> B -> C -> Prop) a : forall lb lc,
  Forall3 R (repeat a (length lb)) lb lc <-> Forall2 (R a) lb lc.
Proof.
  induction lb as [|b lb IH]; intros lc; cbn [repeat length]; split; intro H; inversion H; subst;
    constructor; try assumption; now apply IH.
Qed.

Lemma F3_lengths {A B C} (R : A -> B -> C -> Prop) la lb lc :
  Forall3 R la lb lc -> length la = length lb /\ length la = length lc.
Proof. induction 1 as [|a b c la lb lc _ _ [I1 I2]]; cbn [length]; split; congruence. Qed.

Lemma F3_map_l {A A' B C} (f : A' -> A) (R : A -> B -> C -> Prop) la lb lc :
  Forall3 R (map f la) lb lc <-> Forall3 (fun a => R (f a)) la lb lc.
Proof.
  revert lb lc. induction la as [|a la IH]; intros lb lc; cbn [map]; split; intro H; inversion H; subst;
    constructor; try assumption; now apply IH.
Qed.

Lemma F3_nth {A B C} (R : A -> B -> C -> Prop) la lb lc : Forall3 R la lb lc ->
  forall k a b, nth_error la k = Some a -> nth_error lb k = Some b ->
  exists c, nth_error lc k = Some c /\ R a b c.
Proof.
  induction 1 as [|a0 b0 c0 la lb lc H0 _ IH]; intros [|k] a b Ha Hb; cbn [nth_error] in *; try discriminate.
  - injection Ha as <-. injection Hb as <-. eauto.
  - eauto.
Qed.

Lemma has_encs_length P ts vs w : has_encs P ts vs w -> length ts = length vs.
Proof. induction 1; cbn [length]; congruence. Qed.

(* arrays: the element encodings, concatenated (the form of Compile/TSemArray.v) *)
Lemma has_enc_arr_iff P el n vs w :
  has_enc P (TArr el n) (Sem.VArr vs) w <->
  lenN vs = n /\ exists elems, Forall2 (has_enc P el) vs elems /\ w = concat elems.
Proof.
  split.
  - intro H. inversion H as [| |el' n' vs' w' Hn Hs| | |]; subst. split; [reflexivity|].
    apply has_encs_F3 in Hs as (ws & Hws & ->). exists ws. split; [now apply F3_repeat_l|reflexivity].
  - intros (Hn & ws & Hws & ->). constructor; [exact Hn|].
    apply has_encs_F3. exists ws. split; [now apply F3_repeat_l|reflexivity].
Qed.

Lemma has_enc_tup_iff P ts vs w :
  has_enc P (TTup ts) (Sem.VTup vs) w <-> exists ws, Forall3 (has_enc P) ts vs ws /\ w = concat ws.
Proof.
  rewrite <- has_encs_F3. split; intro H; [now inversion H|now constructor].
Qed.

Lemma has_enc_struct_iff P name vs w :
  has_enc P (TStruct name) (Sem.VTup vs) w <->
  exists def ws, assocN name (p_structs P) = Some def /\
    Forall3 (fun (nt : N * ty) => has_enc P (snd nt)) def vs ws /\ w = concat ws.
Proof.
  split.
  - intro H. inversion H as [| | | |name' def vs' w' Hd Hs|]; subst.
    apply has_encs_F3 in Hs as (ws & Hws & ->). exists def, ws. split; [exact Hd|].
    split; [apply (F3_map_l snd (has_enc P)) in Hws; exact Hws|reflexivity].
  - intros (def & ws & Hd & Hws & ->). econstructor; [exact Hd|].
    apply has_encs_F3. exists ws. split; [apply (F3_map_l snd (has_enc P)); exact Hws|reflexivity].
Qed.

Lemma has_enc_enum_iff P name tag vs w :
  has_enc P (TEnum name) (Sem.VEnum tag vs) w <->
  exists variants ts pw, assocN name (p_enums P) = Some variants /\ nthN variants tag = Some ts /\
    has_encs P ts vs pw /\ w = enum_bits P name variants tag pw.
Proof.
  split.
  - intro H. inversion H; subst. eauto 8.
  - intros (variants & ts & pw & Hd & Ht & Hs & ->). econstructor; eassumption.
Qed.

(* inversion on the type alone *)
Lemma has_enc_inv P t v w : has_enc P t v w ->
  match t with
  | TBool => exists b, v = Sem.VBool b /\ w = [b]
  | TInt sg n => exists z, v = Sem.VInt z /\ Sem.in_range sg n z = true /\ w = enc (N.to_nat n) z
  | TArr el n => exists vs, v = Sem.VArr vs /\ lenN vs = n /\ has_encs P (repeat el (length vs)) vs w
  | TTup ts => exists vs, v = Sem.VTup vs /\ has_encs P ts vs w
  | TStruct name => exists def vs, v = Sem.VTup vs /\ assocN name (p_structs P) = Some def /\
      has_encs P (map snd def) vs w
  | TEnum name => exists variants tag ts vs pw, v = Sem.VEnum tag vs /\
      assocN name (p_enums P) = Some variants /\ nthN variants tag = Some ts /\
      has_encs P ts vs pw /\ w = enum_bits P name variants tag pw
  end.
Proof. destruct 1; eauto 12. Qed.

(* ---- the one-motive induction principle *)

Lemma has_enc_ind2 P (Q : ty -> Sem.value -> list bool -> Prop) :
  (forall b, Q TBool (Sem.VBool b) [b]) ->
  (forall sg n z, Sem.in_range sg n z = true -> Q (TInt sg n) (Sem.VInt z) (enc (N.to_nat n) z)) ->
  (forall el n vs elems, lenN vs = n -> Forall2 (has_enc P el) vs elems -> Forall2 (Q el) vs elems ->
     Q (TArr el n) (Sem.VArr vs) (concat elems)) ->
  (forall ts vs ws, Forall3 (has_enc P) ts vs ws -> Forall3 Q ts vs ws ->
     Q (TTup ts) (Sem.VTup vs) (concat ws)) ->
  (forall name def vs ws, assocN name (p_structs P) = Some def ->
     Forall3 (has_enc P) (map snd def) vs ws -> Forall3 Q (map snd def) vs ws ->
     Q (TStruct name) (Sem.VTup vs) (concat ws)) ->
  (forall name variants tag ts vs ws, assocN name (p_enums P) = Some variants ->
     nthN variants tag = Some ts -> Forall3 (has_enc P) ts vs ws -> Forall3 Q ts vs ws ->
     Q (TEnum name) (Sem.VEnum tag vs) (enum_bits P name variants tag (concat ws))) ->
  forall t v w, has_enc P t v w -> Q t v w.
Proof.
  intros Hb Hi Ha Ht Hs He.
  pose (Q0 := fun ts vs w => exists ws, Forall3 (has_enc P) ts vs ws /\ Forall3 Q ts vs ws /\ w = concat ws).
  enough (Hmut : (forall t v w, has_enc P t v w -> Q t v w) /\
                 (forall ts vs w, has_encs P ts vs w -> Q0 ts vs w)) by apply Hmut.
  apply has_enc_mutind.
  - exact Hb.
  - exact Hi.
  - intros el n vs w Hn Hs0 (ws & H1 & H2 & ->). apply Ha; [exact Hn| |]; now apply F3_repeat_l.
  - intros ts vs w _ (ws & H1 & H2 & ->). now apply Ht.
  - intros name def vs w Hd _ (ws & H1 & H2 & ->). now apply (Hs name def).
  - intros name variants tag ts vs pw Hd Hn _ (ws & H1 & H2 & ->). now apply (He name variants tag ts).
  - exists []. repeat split; constructor.
  - intros t v ts vs a b Ha0 HQ _ (ws & H1 & H2 & ->). exists (a :: ws).
    repeat split; try constructor; assumption.
Qed.

(* ------------------------------------------------------------------ 2. scalars *)

Theorem has_enc_scalar P t v w : scalar_ty t = true ->
  (has_enc P t v w <-> (val_ok t v /\ w = enc_val t v)).
Proof.
  intro Hs. destruct t as [|sg n| | | |]; try discriminate Hs; split.
  - intro H. apply has_enc_inv in H as (b & -> & ->). split; [exact I|reflexivity].
  - intros [Hv ->]. destruct v; try contradiction. constructor.
  - intro H. apply has_enc_inv in H as (z & -> & Hr & ->). split; [exact Hr|reflexivity].
  - intros [Hv ->]. destruct v; try contradiction. cbn [val_ok] in Hv. now constructor.
Qed.

(* ------------------------------------------------------------------ 3. types within the fuel,
   sizes

   [ty_fits P t]: the type tree of t (through the struct / enum definitions) is explored within
   the fuel of the top-level functions of Sem.v ([ty_ok] of Lang/ValTy.v: [size_of] /
   [encode] / [decode] never hit their fuel base case inside t).  It is inherited by the
   components, and under it [szn] satisfies the layout equations Lower.v relies on. *)

Definition ty_fits (P : program) (t : ty) : Prop := ty_ok (pred Sem.ty_fuel) P t = true.

Lemma ty_ok_mono P : forall f t, ty_ok f P t = true -> forall g, (f <= g)%nat -> ty_ok g P t = true.
Proof.
  induction f as [|f IH]; intros t H g Hg; [discriminate H|].
  destruct g as [|g]; [lia|]. assert (Hfg : (f <= g)%nat) by lia.
  destruct t as [| |el n|ts|name|name]; cbn [ty_ok] in H |- *.
  - reflexivity.
  - reflexivity.
  - exact (IH _ H _ Hfg).
  - rewrite forallb_forall in H |- *. intros a Ha. exact (IH _ (H a Ha) _ Hfg).
  - destruct (assocN name (p_structs P)) as [fields|]; [|discriminate H].
    rewrite forallb_forall in H |- *. intros a Ha. exact (IH _ (H a Ha) _ Hfg).
  - destruct (assocN name (p_enums P)) as [variants|]; [|discriminate H].
    rewrite forallb_forall in H |- *. intros ts Hts. specialize (H ts Hts).
    rewrite forallb_forall in H |- *. intros a Ha. exact (IH _ (H a Ha) _ Hfg).
Qed.

Lemma size_of_ge P f t : ty_ok f P t = true -> forall g, (f <= g)%nat ->
  Sem.size_of g P t = Sem.size_of f P t.
Proof.
  intros H g Hg. induction Hg as [|g Hg IH]; [reflexivity|].
  rewrite size_of_stable; [exact IH|]. exact (ty_ok_mono P f t H g Hg).
Qed.

(* the components of a type explored within f are explored within f *)
Lemma ty_ok_arr P f el n : ty_ok f P (TArr el n) = true -> ty_ok f P el = true.
Proof.
  destruct f as [|f]; [discriminate|]. intro H. cbn [ty_ok] in H. apply (ty_ok_mono P f el H). lia.
Qed.

Lemma ty_ok_tup P f ts : ty_ok f P (TTup ts) = true -> Forall (fun t => ty_ok f P t = true) ts.
Proof.
  destruct f as [|f]; [discriminate|]. intro H. cbn [ty_ok] in H. rewrite forallb_forall in H.
  apply Forall_forall. intros a Ha. apply (ty_ok_mono P f a (H a Ha)). lia.
Qed.

Lemma ty_ok_struct P f name : ty_ok f P (TStruct name) = true ->
  exists def, assocN name (p_structs P) = Some def /\ Forall (fun t => ty_ok f P t = true) (map snd def).
Proof.
  destruct f as [|f]; [discriminate|]. intro H. cbn [ty_ok] in H.
  destruct (assocN name (p_structs P)) as [def|]; [|discriminate H]. exists def. split; [reflexivity|].
  rewrite forallb_forall in H. apply Forall_forall. intros a Ha.
  apply in_map_iff in Ha as (nt & <- & Hnt). apply (ty_ok_mono P f _ (H nt Hnt)). lia.
Qed.

Lemma ty_ok_enum P f name : ty_ok f P (TEnum name) = true ->
  exists variants, assocN name (p_enums P) = Some variants /\
    Forall (Forall (fun t => ty_ok f P t = true)) variants.
Proof.
  destruct f as [|f]; [discriminate|]. intro H. cbn [ty_ok] in H.
  destruct (assocN name (p_enums P)) as [variants|]; [|discriminate H]. exists variants. split; [reflexivity|].
  rewrite forallb_forall in H. apply Forall_forall. intros ts Hts. specialize (H ts Hts).
  rewrite forallb_forall in H. apply Forall_forall. intros a Ha. apply (ty_ok_mono P f a (H a Ha)). lia.
Qed.

Lemma ty_fits_ty_fuel P t : ty_fits P t -> ty_ok Sem.ty_fuel P t = true.
Proof. intro H. apply (ty_ok_mono P _ t H). apply Nat.le_pred_l. Qed.

Lemma ty_fits_of_ty_ok P f t : ty_ok f P t = true -> (f <= pred Sem.ty_fuel)%nat -> ty_fits P t.
Proof. intros H Hf. exact (ty_ok_mono P f t H _ Hf). Qed.

Lemma ty_fits_bool P : ty_fits P TBool.
Proof. unfold ty_fits. rewrite ty_fuel_S. reflexivity. Qed.
Lemma ty_fits_int P sg n : ty_fits P (TInt sg n).
Proof. unfold ty_fits. rewrite ty_fuel_S. reflexivity. Qed.
Lemma ty_fits_scalar P t : scalar_ty t = true -> ty_fits P t.
Proof. destruct t; try discriminate; intros _; [apply ty_fits_bool|apply ty_fits_int]. Qed.

Lemma ty_fits_arr P el n : ty_fits P (TArr el n) -> ty_fits P el.
Proof. apply ty_ok_arr. Qed.
Lemma ty_fits_tup P ts : ty_fits P (TTup ts) -> Forall (ty_fits P) ts.
Proof. apply ty_ok_tup. Qed.
Lemma ty_fits_struct P name : ty_fits P (TStruct name) ->
  exists def, assocN name (p_structs P) = Some def /\ Forall (ty_fits P) (map snd def).
Proof. apply ty_ok_struct. Qed.
Lemma ty_fits_enum P name : ty_fits P (TEnum name) ->
  exists variants, assocN name (p_enums P) = Some variants /\ Forall (Forall (ty_fits P)) variants.
Proof. apply ty_ok_enum. Qed.

Lemma ty_fits_struct_def P name def : ty_fits P (TStruct name) -> assocN name (p_structs P) = Some def ->
  Forall (ty_fits P) (map snd def).
Proof. intros H Hd. destruct (ty_fits_struct P name H) as (def' & Hd' & Hall). congruence. Qed.

Lemma ty_fits_enum_variant P name variants tag ts : ty_fits P (TEnum name) ->
  assocN name (p_enums P) = Some variants -> nthN variants tag = Some ts -> Forall (ty_fits P) ts.
Proof.
  intros H Hd Ht. destruct (ty_fits_enum P name H) as (variants' & Hd' & Hall).
  assert (variants' = variants) as -> by congruence.
  rewrite Forall_forall in Hall. apply Hall. eapply nthN_In. exact Ht.
Qed.

Lemma Forall_nth_error {A} (Q : A -> Prop) l k a : Forall Q l -> nth_error l k = Some a -> Q a.
Proof. intros H Hk. rewrite Forall_forall in H. apply H. eapply nth_error_In. exact Hk. Qed.

Lemma Forall_repeat {A} (Q : A -> Prop) a k : Q a -> Forall Q (repeat a k).
Proof. intro H. induction k; cbn [repeat]; constructor; assumption. Qed.

(* ---- sums and maxima *)

Definition sum_szn (P : program) (ts : list ty) : nat := list_sum (map (szn P) ts).

Definition maxl (l : list nat) : nat := fold_right Nat.max O l.

Lemma fold_left_add {A} (g : A -> nat) l : forall a,
  fold_left (fun a t => (a + g t)%nat) l a = (a + list_sum (map g l))%nat.
Proof.
  induction l as [|x l IH]; intro a; cbn [fold_left map].
  - change (list_sum []) with O. lia.
  - rewrite IH. change (list_sum (g x :: map g l)) with (g x + list_sum (map g l))%nat. lia.
Qed.

(* the offset arithmetic of [tuple_offsets] and of the enum size *)
Lemma fold_szn P ts : fold_left (fun a t' => (a + szn P t')%nat) ts O = sum_szn P ts.
Proof. rewrite fold_left_add. reflexivity. Qed.

Lemma sum_szn_app P a b : sum_szn P (a ++ b) = (sum_szn P a + sum_szn P b)%nat.
Proof. unfold sum_szn. rewrite map_app, list_sum_app. reflexivity. Qed.

Lemma sum_szn_cons P t ts : sum_szn P (t :: ts) = (szn P t + sum_szn P ts)%nat.
Proof. reflexivity. Qed.

Lemma sum_szn_repeat P t k : sum_szn P (repeat t k) = (k * szn P t)%nat.
Proof. induction k as [|k IH]; [reflexivity|]. cbn [repeat]. rewrite sum_szn_cons, IH. lia. Qed.

Lemma to_nat_sum_map {A} (h : A -> N) l :
  N.to_nat (Sem.sum_map h l) = list_sum (map (fun a => N.to_nat (h a)) l).
Proof.
  induction l as [|a l IH]; [reflexivity|]. cbn [Sem.sum_map map].
  change (list_sum (N.to_nat (h a) :: map (fun a => N.to_nat (h a)) l))
    with (N.to_nat (h a) + list_sum (map (fun a => N.to_nat (h a)) l))%nat. rewrite <- IH. lia.
Qed.

Lemma to_nat_fold_max {A} (h : A -> N) l :
  N.to_nat (fold_right N.max 0 (map h l)) = maxl (map (fun a => N.to_nat (h a)) l).
Proof.
  induction l as [|a l IH]; [reflexivity|]. cbn [map fold_right maxl]. fold (maxl (map (fun a => N.to_nat (h a)) l)).
  rewrite <- IH. lia.
Qed.

Lemma fold_left_max P l : forall a,
  fold_left (fun mx ts => let s := fold_left (fun a t => (a + szn P t)%nat) ts O in
                          if (mx <? s)%nat then s else mx) l a
  = Nat.max a (maxl (map (sum_szn P) l)).
Proof.
  induction l as [|ts l IH]; intro a; cbn [fold_left map maxl fold_right].
  - lia.
  - rewrite IH. cbv zeta. rewrite fold_szn. fold (maxl (map (sum_szn P) l)).
    destruct (Nat.ltb_spec a (sum_szn P ts)); lia.
Qed.

Lemma enum_max_size_eq P variants :
  enum_max_size P variants = (maxl (map (sum_szn P) variants) + enum_tag_size variants)%nat.
Proof. unfold enum_max_size. rewrite fold_left_max. lia. Qed.

Lemma maxl_ge l x : In x l -> (x <= maxl l)%nat.
Proof.
  induction l as [|a l IH]; cbn [In maxl fold_right]; [contradiction|]. fold (maxl l).
  intros [->|H]; [lia|]. specialize (IH H). lia.
Qed.

Lemma enum_variant_fits P variants tag ts : nthN variants tag = Some ts ->
  (enum_tag_size variants + sum_szn P ts <= enum_max_size P variants)%nat.
Proof.
  intro H. rewrite enum_max_size_eq.
  assert (sum_szn P ts <= maxl (map (sum_szn P) variants))%nat; [|lia].
  apply maxl_ge. apply in_map. eapply nthN_In. exact H.
Qed.

(* ---- the layout equations *)

Lemma szn_eq P f t : ty_ok f P t = true -> (f <= Sem.ty_fuel)%nat -> szn P t = N.to_nat (Sem.size_of f P t).
Proof. intros H Hf. unfold szn, Sem.sizeof. now rewrite (size_of_ge P f t H). Qed.

Lemma list_sum_map_ext {A} (g h : A -> nat) l : (forall a, In a l -> g a = h a) ->
  list_sum (map g l) = list_sum (map h l).
Proof.
  induction l as [|a l IH]; intro H; [reflexivity|]. cbn [map].
  change (g a + list_sum (map g l) = h a + list_sum (map h l))%nat.
  rewrite (H a (or_introl eq_refl)), IH; [reflexivity|]. intros b Hb. apply H. now right.
Qed.

(* the sum of the component sizes, computed with one unit of fuel less *)
Lemma sum_size_of P f ts : Forall (fun t => ty_ok f P t = true) ts -> (f <= Sem.ty_fuel)%nat ->
  N.to_nat (Sem.sum_map (Sem.size_of f P) ts) = sum_szn P ts.
Proof.
  intros H Hf. rewrite to_nat_sum_map. unfold sum_szn. apply list_sum_map_ext.
  intros a Ha. rewrite Forall_forall in H. symmetry. now apply szn_eq; [apply H|].
Qed.

Lemma szn_arr P el n : ty_fits P (TArr el n) -> szn P (TArr el n) = (szn P el * N.to_nat n)%nat.
Proof.
  intro H. unfold ty_fits in H. destruct (pred Sem.ty_fuel) as [|f] eqn:Ef; [discriminate H|].
  rewrite (szn_eq P (S f) _ H) by lia. cbn [ty_ok] in H. cbn [Sem.size_of].
  rewrite (szn_eq P f el H) by lia. lia.
Qed.

Lemma szn_tup P ts : ty_fits P (TTup ts) -> szn P (TTup ts) = sum_szn P ts.
Proof.
  intro H. unfold ty_fits in H. destruct (pred Sem.ty_fuel) as [|f] eqn:Ef; [discriminate H|].
  rewrite (szn_eq P (S f) _ H) by lia. cbn [ty_ok] in H. cbn [Sem.size_of].
  apply sum_size_of; [|lia]. apply Forall_forall. now apply forallb_forall.
Qed.

Lemma szn_struct P name def : ty_fits P (TStruct name) -> assocN name (p_structs P) = Some def ->
  szn P (TStruct name) = sum_szn P (map snd def).
Proof.
  intros H Hd. unfold ty_fits in H. destruct (pred Sem.ty_fuel) as [|f] eqn:Ef; [discriminate H|].
  rewrite (szn_eq P (S f) _ H) by lia. cbn [ty_ok] in H. cbn [Sem.size_of]. rewrite Hd in H |- *.
  rewrite <- sum_map_map. apply sum_size_of; [|lia].
  apply Forall_forall. intros a Ha. apply in_map_iff in Ha as (nt & <- & Hnt).
  rewrite forallb_forall in H. now apply H.
Qed.

Lemma szn_enum P name variants : ty_fits P (TEnum name) -> assocN name (p_enums P) = Some variants ->
  szn P (TEnum name) = enum_max_size P variants.
Proof.
  intros H Hd. unfold ty_fits in H. destruct (pred Sem.ty_fuel) as [|f] eqn:Ef; [discriminate H|].
  rewrite (szn_eq P (S f) _ H) by lia. cbn [ty_ok] in H. cbn [Sem.size_of]. rewrite Hd in H |- *.
  rewrite enum_max_size_eq. rewrite N2Nat.inj_add, to_nat_fold_max. unfold enum_tag_size.
  assert (map (fun a => N.to_nat (Sem.sum_map (Sem.size_of f P) a)) variants = map (sum_szn P) variants) as ->; [|lia].
  apply map_ext_in. intros ts Hts. apply sum_size_of; [|lia].
  rewrite forallb_forall in H. specialize (H ts Hts). apply Forall_forall. now apply forallb_forall.
Qed.

(* ------------------------------------------------------------------ 4. length *)

Lemma length_enum_bits P name variants tag ts pw : ty_fits P (TEnum name) ->
  assocN name (p_enums P) = Some variants -> nthN variants tag = Some ts -> length pw = sum_szn P ts ->
  length (enum_bits P name variants tag pw) = szn P (TEnum name).
Proof.
  intros H Hd Ht Hl. unfold enum_bits. cbv zeta. rewrite !app_length, repeat_length, length_enc, Hl.
  rewrite (szn_enum P name variants H Hd). pose proof (enum_variant_fits P variants tag ts Ht). lia.
Qed.

Lemma has_enc_length_mut P :
  (forall t v w, has_enc P t v w -> ty_fits P t -> length w = szn P t) /\
  (forall ts vs w, has_encs P ts vs w -> Forall (ty_fits P) ts -> length w = sum_szn P ts).
Proof.
  apply has_enc_mutind.
  - reflexivity.
  - intros sg n z _ _. apply length_enc.
  - intros el n vs w Hn _ IH H. rewrite IH by (apply Forall_repeat; eapply ty_fits_arr; exact H).
    rewrite sum_szn_repeat, (szn_arr P el n H). subst n. unfold lenN. lia.
  - intros ts vs w _ IH H. rewrite (szn_tup P ts H). apply IH. now apply ty_fits_tup.
  - intros name def vs w Hd _ IH H. rewrite (szn_struct P name def H Hd). apply IH.
    now apply (ty_fits_struct_def P name).
  - intros name variants tag ts vs pw Hd Ht _ IH H.
    apply (length_enum_bits P name variants tag ts); try assumption.
    apply IH. now apply (ty_fits_enum_variant P name variants tag).
  - reflexivity.
  - intros t v ts vs a b _ IH1 _ IH2 H. inversion H as [|t' ts' H1 H2]; subst.
    rewrite app_length, IH1, IH2 by assumption. reflexivity.
Qed.

Theorem has_enc_length P t v w : has_enc P t v w -> ty_fits P t -> length w = szn P t.
Proof. apply has_enc_length_mut. Qed.

Lemma has_encs_length_sum P ts vs w : has_encs P ts vs w -> Forall (ty_fits P) ts -> length w = sum_szn P ts.
Proof. apply has_enc_length_mut. Qed.

(* the chunks of an array all have the size of the element type *)
Lemma F2_has_enc_all_len P el vs elems : ty_fits P el -> Forall2 (has_enc P el) vs elems ->
  all_len (szn P el) elems.
Proof.
  intros H. induction 1 as [|v e vs elems Hv _ IH]; constructor; [|exact IH].
  now apply (has_enc_length P el v).
Qed.

(* ------------------------------------------------------------------ 6a. components of a
   concatenation: projection ([slice]) and replacement ([splice]) *)

Lemma slice_mid {A} (a wi b : list A) : slice (a ++ wi ++ b) (length a) (length wi) = Ok wi.
Proof.
  unfold slice. rewrite !app_length.
  destruct (Nat.leb_spec (length a + length wi) (length a + (length wi + length b))) as [_|H]; [|lia].
  rewrite (skipn_app_exact a) by reflexivity. now rewrite (firstn_app_exact wi) by reflexivity.
Qed.

Lemma splice_mid {A} (a wi b wi' : list A) : length wi' = length wi ->
  splice (a ++ wi ++ b) (length a) (length wi) wi' = Ok (a ++ wi' ++ b).
Proof.
  intro Hl. unfold splice. rewrite !app_length, Hl, Nat.eqb_refl.
  destruct (Nat.leb_spec (length a + length wi) (length a + (length wi + length b))) as [_|H]; [|lia].
  cbn [andb]. rewrite (firstn_app_exact a) by reflexivity.
  rewrite (app_assoc a wi b). rewrite (skipn_app_exact (a ++ wi)) by (now rewrite app_length). reflexivity.
Qed.

Lemma has_encs_app P ts1 vs1 a : has_encs P ts1 vs1 a -> forall ts2 vs2 b, has_encs P ts2 vs2 b ->
  has_encs P (ts1 ++ ts2) (vs1 ++ vs2) (a ++ b).
Proof.
  induction 1 as [|t v ts vs a1 a2 Ha _ IH]; intros ts2 vs2 b Hb; cbn [app]; [exact Hb|].
  rewrite <- app_assoc. constructor; [exact Ha|]. now apply IH.
Qed.

Lemma has_encs_split P : forall k ts vs w ti vi, has_encs P ts vs w ->
  nth_error ts k = Some ti -> nth_error vs k = Some vi ->
  exists a wi b, w = a ++ wi ++ b /\ has_encs P (firstn k ts) (firstn k vs) a /\ has_enc P ti vi wi /\
    has_encs P (skipn (S k) ts) (skipn (S k) vs) b.
Proof.
  induction k as [|k IH]; intros ts vs w ti vi H Ht Hv; destruct H as [|t v ts vs a b Ha Hb];
    cbn [nth_error] in Ht, Hv; try discriminate.
  - injection Ht as <-. injection Hv as <-. exists [], a, b. cbn [app firstn skipn].
    repeat split; try constructor; assumption.
  - destruct (IH _ _ _ _ _ Hb Ht Hv) as (a' & wi & b' & -> & H1 & H2 & H3).
    exists (a ++ a'), wi, b'. rewrite <- app_assoc. cbn [firstn skipn].
    repeat split; try assumption. now constructor.
Qed.

Lemma Forall_firstn {A} (Q : A -> Prop) k l : Forall Q l -> Forall Q (firstn k l).
Proof.
  intro H. apply Forall_forall. intros a Ha. rewrite Forall_forall in H. apply H.
  rewrite <- (firstn_skipn k l). apply in_or_app. now left.
Qed.

Lemma set_nth_val_spec : forall l k v l', Sem.set_nth_val l k v = Some l' ->
  exists x, nth_error l k = Some x /\ l' = firstn k l ++ v :: skipn (S k) l.
Proof.
  induction l as [|x l IH]; intros [|k] v l' H; cbn [Sem.set_nth_val] in H; try discriminate.
  - injection H as <-. exists x. split; reflexivity.
  - destruct (Sem.set_nth_val l k v) as [r|] eqn:E; [|discriminate]. injection H as <-.
    destruct (IH k v r E) as (y & Hy & ->). exists y. split; [exact Hy|reflexivity].
Qed.

Lemma set_nth_val_some : forall l k v x, nth_error l k = Some x ->
  Sem.set_nth_val l k v = Some (firstn k l ++ v :: skipn (S k) l).
Proof.
  induction l as [|y l IH]; intros [|k] v x H; cbn [nth_error] in H; try discriminate; cbn [Sem.set_nth_val].
  - reflexivity.
  - rewrite (IH k v x H). reflexivity.
Qed.

Lemma set_nth_val_length l k v l' : Sem.set_nth_val l k v = Some l' -> length l' = length l.
Proof.
  intro H. destruct (set_nth_val_spec l k v l' H) as (x & Hx & ->).
  assert (k < length l)%nat by (apply nth_error_Some; congruence).
  rewrite app_length. cbn [length]. rewrite firstn_length, skipn_length. lia.
Qed.

Lemma nth_error_decomp {A} (l : list A) k x : nth_error l k = Some x ->
  l = firstn k l ++ x :: skipn (S k) l.
Proof.
  revert k. induction l as [|y l IH]; intros [|k] H; cbn [nth_error] in H; try discriminate.
  - now injection H as <-.
  - cbn [firstn skipn app]. f_equal. now apply IH.
Qed.

(* component k of a concatenation is the slice at the sum of the sizes before it *)
Lemma has_encs_proj P k ts vs w ti vi : has_encs P ts vs w -> Forall (ty_fits P) ts ->
  nth_error ts k = Some ti -> nth_error vs k = Some vi ->
  exists wi, slice w (sum_szn P (firstn k ts)) (szn P ti) = Ok wi /\ has_enc P ti vi wi.
Proof.
  intros H Hok Ht Hv. destruct (has_encs_split P k ts vs w ti vi H Ht Hv) as (a & wi & b & -> & H1 & H2 & _).
  exists wi. split; [|exact H2].
  rewrite <- (has_encs_length_sum P _ _ a H1) by now apply Forall_firstn.
  rewrite <- (has_enc_length P ti vi wi H2) by exact (Forall_nth_error _ _ _ _ Hok Ht).
  apply slice_mid.
Qed.

(* ... and replacing that slice by the encoding of another value of the component type
   encodes the updated list *)
Lemma has_encs_update P k ts vs w ti vi' wi' vs' : has_encs P ts vs w -> Forall (ty_fits P) ts ->
  nth_error ts k = Some ti -> has_enc P ti vi' wi' -> Sem.set_nth_val vs k vi' = Some vs' ->
  exists w', splice w (sum_szn P (firstn k ts)) (szn P ti) wi' = Ok w' /\ has_encs P ts vs' w'.
Proof.
  intros H Hok Ht Hn Hs. destruct (set_nth_val_spec vs k vi' vs' Hs) as (vi & Hv & ->).
  destruct (has_encs_split P k ts vs w ti vi H Ht Hv) as (a & wi & b & -> & H1 & H2 & H3).
  pose proof (Forall_nth_error _ _ _ _ Hok Ht) as Hti.
  exists (a ++ wi' ++ b). split.
  - rewrite <- (has_encs_length_sum P _ _ a H1) by now apply Forall_firstn.
    rewrite <- (has_enc_length P ti vi wi H2) by exact Hti.
    apply splice_mid. now rewrite (has_enc_length P ti vi wi H2), (has_enc_length P ti vi' wi' Hn).
  - rewrite (nth_error_decomp ts k ti Ht). apply has_encs_app; [exact H1|]. now constructor.
Qed.

(* the consecutive slices that [fields_match] / [struct_match] hand to the sub-patterns:
   component j sits at offset off + (sizes of the components before it) *)
Fixpoint enc_at (P : program) (ts : list ty) (vs : list Sem.value) (mw : list bool) (off : nat) : Prop :=
  match ts, vs with
  | [], [] => True
  | t :: tr, v :: vr =>
      (exists wi, slice mw off (szn P t) = Ok wi /\ has_enc P t v wi) /\
      enc_at P tr vr mw (off + szn P t)%nat
  | _, _ => False
  end.

Lemma has_encs_enc_at P ts vs pw : has_encs P ts vs pw -> Forall (ty_fits P) ts ->
  forall pre post, enc_at P ts vs (pre ++ pw ++ post) (length pre).
Proof.
  induction 1 as [|t v ts vs a b Ha Hb IH]; intros Hok pre post; cbn [enc_at]; [exact I|].
  inversion Hok as [|t' ts' Ht Hts]; subst. split.
  - exists a. split; [|exact Ha]. rewrite <- (has_enc_length P t v a Ha Ht), <- app_assoc. apply slice_mid.
  - rewrite <- (has_enc_length P t v a Ha Ht), <- app_length.
    replace (pre ++ (a ++ b) ++ post) with ((pre ++ a) ++ b ++ post) by (now rewrite <- !app_assoc).
    now apply IH.
Qed.

(* ------------------------------------------------------------------ 6b. tuples *)

Theorem has_enc_tuple_lit P ts vs ws : Forall3 (has_enc P) ts vs ws ->
  has_enc P (TTup ts) (Sem.VTup vs) (concat ws).
Proof. intro H. apply has_enc_tup_iff. eauto. Qed.

Theorem has_enc_tuple_proj P ts vs w i off len ti vi :
  has_enc P (TTup ts) (Sem.VTup vs) w -> ty_fits P (TTup ts) ->
  tuple_offsets P (TTup ts) i = Ok (off, len) -> nthN ts i = Some ti -> nthN vs i = Some vi ->
  exists wi, slice w off len = Ok wi /\ has_enc P ti vi wi.
Proof.
  intros H Hok Ho Ht Hv. unfold tuple_offsets in Ho. rewrite Ht in Ho. injection Ho as <- <-.
  rewrite fold_szn. rewrite nthN_spec in Ht. rewrite nthN_spec in Hv. apply has_enc_inv in H as (vs' & [= <-] & Hs).
  exact (has_encs_proj P _ ts vs w ti vi Hs (ty_fits_tup P ts Hok) Ht Hv).
Qed.

(* assignment to a tuple position: [splice] of the new encoding *)
Theorem has_enc_tuple_update P ts vs w i off len ti vi' wi' vs' :
  has_enc P (TTup ts) (Sem.VTup vs) w -> ty_fits P (TTup ts) ->
  tuple_offsets P (TTup ts) i = Ok (off, len) -> nthN ts i = Some ti ->
  has_enc P ti vi' wi' -> Sem.set_nth_val vs (N.to_nat i) vi' = Some vs' ->
  exists w', splice w off len wi' = Ok w' /\ has_enc P (TTup ts) (Sem.VTup vs') w'.
Proof.
  intros H Hok Ho Ht Hn Hs. unfold tuple_offsets in Ho. rewrite Ht in Ho. injection Ho as <- <-.
  rewrite fold_szn. rewrite nthN_spec in Ht. apply has_enc_inv in H as (vs0 & [= <-] & Hs0).
  destruct (has_encs_update P _ ts vs w ti vi' wi' vs' Hs0 (ty_fits_tup P ts Hok) Ht Hn Hs) as (w' & Hw & He).
  exists w'. split; [exact Hw|now constructor].
Qed.

(* a tuple pattern: the sub-patterns see the consecutive slices from offset 0 *)
Theorem has_enc_tuple_fields P ts vs w : has_enc P (TTup ts) (Sem.VTup vs) w -> ty_fits P (TTup ts) ->
  enc_at P ts vs w O.
Proof.
  intros H Hok. apply has_enc_inv in H as (vs0 & [= <-] & Hs).
  pose proof (has_encs_enc_at P ts vs w Hs (ty_fits_tup P ts Hok) [] []) as Hat.
  cbn [app length] in Hat. now rewrite app_nil_r in Hat.
Qed.

(* ------------------------------------------------------------------ 6c. arrays *)

Theorem has_enc_array_lit P el vs elems : Forall2 (has_enc P el) vs elems ->
  has_enc P (TArr el (lenN vs)) (Sem.VArr vs) (concat elems).
Proof. intro H. apply has_enc_arr_iff. eauto. Qed.

Lemma concat_repeat_F2 {A B} (R : A -> B -> Prop) a b k : R a b -> Forall2 R (repeat a k) (repeat b k).
Proof. intro H. induction k; cbn [repeat]; constructor; assumption. Qed.

Theorem has_enc_array_rep P el n v w : has_enc P el v w ->
  has_enc P (TArr el n) (Sem.VArr (repeat v (N.to_nat n))) (concat (repeat w (N.to_nat n))).
Proof.
  intro H. apply has_enc_arr_iff. split.
  - unfold lenN. rewrite repeat_length. lia.
  - exists (repeat w (N.to_nat n)). split; [now apply concat_repeat_F2|reflexivity].
Qed.

(* the extension to the size of the element type in EArrRep (and in the index gadgets) is
   the identity on an encoding *)
Lemma has_enc_extend_id P t v w sg : has_enc P t v w -> ty_fits P t -> extend_g tops w sg (szn P t) = Ok w.
Proof.
  intros H Hok. pose proof (has_enc_length P t v w H Hok) as Hl. unfold extend_g.
  destruct w as [|b w]; [now rewrite <- Hl|]. now rewrite Hl, Nat.eqb_refl.
Qed.

Lemma nth_error_repeat {A} (a : A) m k : (k < m)%nat -> nth_error (repeat a m) k = Some a.
Proof.
  revert k. induction m as [|m IH]; intros [|k] H; cbn [repeat nth_error]; try lia; [reflexivity|].
  apply IH. lia.
Qed.

Lemma firstn_repeat {A} (a : A) m k : (k <= m)%nat -> firstn k (repeat a m) = repeat a k.
Proof.
  revert k. induction m as [|m IH]; intros [|k] H; cbn [repeat firstn]; try lia; try reflexivity.
  f_equal. apply IH. lia.
Qed.

(* element k is the k-th chunk of the size of the element type *)
Theorem has_enc_array_proj P el n vs w k vk :
  has_enc P (TArr el n) (Sem.VArr vs) w -> ty_fits P (TArr el n) -> nth_error vs k = Some vk ->
  exists wk, slice w (k * szn P el) (szn P el) = Ok wk /\ has_enc P el vk wk.
Proof.
  intros H Hok Hv. apply has_enc_inv in H as (vs0 & [= <-] & _ & Hs).
  assert (Hk : (k < length vs)%nat) by (apply nth_error_Some; congruence).
  destruct (has_encs_proj P k _ vs w el vk Hs) as (wk & Hw & He); try assumption.
  - apply Forall_repeat. eapply ty_fits_arr. exact Hok.
  - now apply nth_error_repeat.
  - exists wk. split; [|exact He]. rewrite firstn_repeat, sum_szn_repeat in Hw by lia. exact Hw.
Qed.

(* ... and replacing that chunk by the encoding of v' encodes the updated array *)
Theorem has_enc_array_update P el n vs w k v' wv vs' :
  has_enc P (TArr el n) (Sem.VArr vs) w -> ty_fits P (TArr el n) ->
  has_enc P el v' wv -> Sem.set_nth_val vs k v' = Some vs' ->
  exists w', splice w (k * szn P el) (szn P el) wv = Ok w' /\ has_enc P (TArr el n) (Sem.VArr vs') w'.
Proof.
  intros H Hok Hn Hs. apply has_enc_inv in H as (vs0 & [= <-] & Hlen & Hs0).
  destruct (set_nth_val_spec vs k v' vs' Hs) as (x & Hx & _).
  assert (Hk : (k < length vs)%nat) by (apply nth_error_Some; congruence).
  pose proof (set_nth_val_length vs k v' vs' Hs) as Hl.
  destruct (has_encs_update P k _ vs w el v' wv vs' Hs0) as (w' & Hw & He); try assumption.
  - apply Forall_repeat. eapply ty_fits_arr. exact Hok.
  - now apply nth_error_repeat.
  - exists w'. split.
    + rewrite firstn_repeat, sum_szn_repeat in Hw by lia. exact Hw.
    + constructor; [unfold lenN in *; congruence|]. now rewrite Hl.
Qed.

(* the same on the list of chunks, in the form of the theorems of Compile/TSemArray.v *)
Lemma F2_has_enc_nth P el vs elems k vk d : Forall2 (has_enc P el) vs elems ->
  nth_error vs k = Some vk -> has_enc P el vk (nth k elems d).
Proof.
  intro H. revert k. induction H as [|v e vs elems Hv _ IH]; intros [|k] Hk; cbn [nth_error] in Hk;
    try discriminate; cbn [nth].
  - now injection Hk as <-.
  - now apply IH.
Qed.

Lemma F2_has_enc_list_set P el vs elems k v' wv vs' : Forall2 (has_enc P el) vs elems ->
  has_enc P el v' wv -> Sem.set_nth_val vs k v' = Some vs' ->
  Forall2 (has_enc P el) vs' (list_set elems k wv).
Proof.
  intros H Hn. revert k vs'. induction H as [|v e vs elems Hv Hr IH]; intros [|k] vs' Hs;
    cbn [Sem.set_nth_val] in Hs; try discriminate; cbn [list_set].
  - injection Hs as <-. now constructor.
  - destruct (Sem.set_nth_val vs k v') as [r|] eqn:E; [|discriminate]. injection Hs as <-.
    constructor; [exact Hv|]. now apply IH.
Qed.

(* the packaging the theorems of Compile/TSemArray.v ask for: n chunks of the element size *)
Theorem has_enc_array_elems P el n vs w : has_enc P (TArr el n) (Sem.VArr vs) w -> ty_fits P (TArr el n) ->
  exists elems, w = concat elems /\ Forall2 (has_enc P el) vs elems /\
    all_len (szn P el) elems /\ length elems = N.to_nat n /\ lenN vs = n /\
    array_size P (TArr el n) = Ok (szn P el, N.to_nat n).
Proof.
  intros H Hok. apply has_enc_arr_iff in H as (Hn & elems & Hf & ->). exists elems.
  split; [reflexivity|]. split; [exact Hf|]. split; [exact (F2_has_enc_all_len P el vs elems (ty_fits_arr P el n Hok) Hf)|].
  split; [|split; [exact Hn|reflexivity]].
  rewrite <- (Forall2_length_eq _ _ _ Hf). subst n. unfold lenN. lia.
Qed.

Lemma slice_Ok {A} (w : list A) off len wi : slice w off len = Ok wi -> wi = firstn len (skipn off w).
Proof. unfold slice. destruct (_ <=? _)%nat; [|discriminate]. now intros [= <-]. Qed.

(* out-of-bounds: Sem.v panics, and [list_set] is the identity *)
Lemma set_nth_val_none l k v : (length l <= k)%nat -> Sem.set_nth_val l k v = None.
Proof.
  revert k. induction l as [|x l IH]; intros [|k] H; cbn [length] in H; cbn [Sem.set_nth_val]; try reflexivity; try lia.
  rewrite IH by lia. reflexivity.
Qed.

(* ------------------------------------------------------------------ 3'. the executable encoder

   [has_enc] is the graph of [Sem.encode] on the values whose integers are in the range of their
   types ([in_rng], Lang/ValTy.v; [Sem.encode] itself does not look at ranges), for types within
   the fuel. *)

Lemma forallb2_repeat {A B} (h : A -> B -> bool) vs el :
  forallb2 h vs (repeat el (length vs)) = forallb (fun v => h v el) vs.
Proof. induction vs as [|v vs IH]; cbn [length repeat forallb2 forallb]; [reflexivity|]. now rewrite IH. Qed.

Lemma has_enc_encode_mut P :
  (forall t v w, has_enc P t v w -> forall f, ty_ok f P t = true -> (f <= Sem.ty_fuel)%nat ->
     Sem.encode (S f) P t v = Some w) /\
  (forall ts vs w, has_encs P ts vs w -> forall f, Forall (fun t => ty_ok f P t = true) ts ->
     (f <= Sem.ty_fuel)%nat -> enc_list (Sem.encode (S f) P) ts vs = Some w).
Proof.
  apply has_enc_mutind.
  - intros b f _ _. reflexivity.
  - intros sg n z _ f _ _. rewrite encode_eq. now rewrite enc_bits_of_Z.
  - intros el n vs w Hn _ IH f Hok Hf. rewrite encode_eq. destruct f as [|f]; [discriminate Hok|].
    cbn [ty_ok] in Hok. subst n. rewrite N.eqb_refl. cbn [negb]. rewrite enc_arr_list.
    apply IH; [now apply Forall_repeat|lia].
  - intros ts vs w _ IH f Hok Hf. rewrite encode_eq. destruct f as [|f]; [discriminate Hok|].
    cbn [ty_ok] in Hok. apply IH; [|lia]. apply Forall_forall. now apply forallb_forall.
  - intros name def vs w Hd _ IH f Hok Hf. rewrite encode_eq, Hd. destruct f as [|f]; [discriminate Hok|].
    cbn [ty_ok] in Hok. rewrite Hd in Hok. apply IH; [|lia]. apply Forall_forall. intros a Ha.
    apply in_map_iff in Ha as (nt & <- & Hnt). rewrite forallb_forall in Hok. now apply Hok.
  - intros name variants tag ts vs pw Hd Ht _ IH f Hok Hf. rewrite encode_eq, Hd, Ht.
    destruct f as [|f]; [discriminate Hok|]. pose proof Hok as Hok'. cbn [ty_ok] in Hok'. rewrite Hd in Hok'.
    rewrite (IH f); [| |lia].
    + cbv zeta. unfold enum_bits. cbv zeta. rewrite (szn_eq P (S f) (TEnum name) Hok Hf).
      rewrite enc_bits_of_Z. reflexivity.
    + rewrite forallb_forall in Hok'. pose proof (Hok' ts (nthN_In _ _ _ Ht)) as Hts.
      apply Forall_forall. now apply forallb_forall.
  - intros f _ _. reflexivity.
  - intros t v ts vs a b _ IH1 _ IH2 f Hall Hf. inversion Hall as [|t' ts' H1 H2]; subst.
    cbn [enc_list]. now rewrite (IH1 f H1 Hf), (IH2 f H2 Hf).
Qed.

Theorem has_enc_encode P t v w : has_enc P t v w -> ty_fits P t -> Sem.encode Sem.ty_fuel P t v = Some w.
Proof.
  intros H Hok. rewrite ty_fuel_S. apply has_enc_encode_mut; [exact H|exact Hok|apply Nat.le_pred_l].
Qed.

Lemma enc_list_has_encs P (g : ty -> Sem.value -> option (list bool)) ts :
  (forall t v w, In t ts -> g t v = Some w -> in_rng P v t = true -> has_enc P t v w) ->
  forall vs w, enc_list g ts vs = Some w -> forallb2 (in_rng P) vs ts = true -> has_encs P ts vs w.
Proof.
  induction ts as [|t ts IH]; intros Hg [|v vs] w He Hr; cbn [enc_list forallb2] in He, Hr; try discriminate.
  - injection He as <-. constructor.
  - destruct (g t v) as [a|] eqn:Ea; [|discriminate He].
    destruct (enc_list g ts vs) as [b|] eqn:Eb; [|discriminate He]. injection He as <-.
    apply andb_prop in Hr as [Hr1 Hr2]. constructor.
    + apply Hg; [now left|exact Ea|exact Hr1].
    + apply IH; [|exact Eb|exact Hr2]. intros t0 v0 w0 Hin. apply Hg. now right.
Qed.

Lemma encode_has_enc_gen P : forall f t v w, ty_ok f P t = true -> (f <= Sem.ty_fuel)%nat ->
  Sem.encode (S f) P t v = Some w -> in_rng P v t = true -> has_enc P t v w.
Proof.
  induction f as [|f IH]; intros t v w Hok Hf He Hr; [discriminate Hok|].
  rewrite encode_eq in He. assert (Hf' : (f <= Sem.ty_fuel)%nat) by lia.
  pose proof Hok as Hok'. cbn [ty_ok] in Hok'.
  destruct t as [|sg n|el n|ts|name|name], v as [b|z|vs|vs|tag vs]; try discriminate He.
  - injection He as <-. constructor.
  - injection He as <-. rewrite <- enc_bits_of_Z. constructor. exact Hr.
  - destruct (lenN vs =? n) eqn:En; cbn [negb] in He; [|discriminate He]. apply N.eqb_eq in En.
    rewrite enc_arr_list in He. rewrite in_rng_arr in Hr. constructor; [exact En|].
    apply (enc_list_has_encs P (Sem.encode (S f) P)); [|exact He|now rewrite forallb2_repeat].
    intros t v w0 Hin. apply repeat_spec in Hin. subst t. now apply IH.
  - rewrite in_rng_tup in Hr. constructor.
    apply (enc_list_has_encs P (Sem.encode (S f) P)); [|exact He|exact Hr].
    intros t v w0 Hin. apply IH; [|exact Hf']. rewrite forallb_forall in Hok'. now apply Hok'.
  - destruct (assocN name (p_structs P)) as [def|] eqn:Hd; [|discriminate He].
    rewrite in_rng_struct, Hd in Hr. apply (HE_struct P name def); [exact Hd|].
    apply (enc_list_has_encs P (Sem.encode (S f) P)); [|exact He|exact Hr].
    intros t v w0 Hin. apply in_map_iff in Hin as (nt & <- & Hnt). apply IH; [|exact Hf'].
    rewrite forallb_forall in Hok'. now apply Hok'.
  - destruct (assocN name (p_enums P)) as [variants|] eqn:Hd; [|discriminate He].
    destruct (nthN variants tag) as [ts|] eqn:Ht; [|discriminate He].
    destruct (enc_list (Sem.encode (S f) P) ts vs) as [payload|] eqn:Ep; [|discriminate He].
    rewrite in_rng_enum, Hd, Ht in Hr.
    assert (Hw : w = enum_bits P name variants tag payload).
    { cbv zeta in He. injection He as <-. unfold enum_bits. cbv zeta.
      rewrite (szn_eq P (S f) (TEnum name) Hok Hf), enc_bits_of_Z. reflexivity. }
    subst w.
    apply (HE_enum P name variants tag ts vs payload Hd Ht).
    apply (enc_list_has_encs P (Sem.encode (S f) P)); [|exact Ep|exact Hr].
    intros t v w0 Hin. apply IH; [|exact Hf']. rewrite forallb_forall in Hok'.
    pose proof (Hok' ts (nthN_In _ _ _ Ht)) as Hts. rewrite forallb_forall in Hts. now apply Hts.
Qed.

Theorem encode_has_enc P t v w : ty_fits P t -> Sem.encode Sem.ty_fuel P t v = Some w ->
  in_rng P v t = true -> has_enc P t v w.
Proof.
  intros Hok He Hr. rewrite ty_fuel_S in He.
  exact (encode_has_enc_gen P _ t v w Hok (Nat.le_pred_l _) He Hr).
Qed.

(* a value related to some bits has the type (shape) and all its integers are in range *)
Lemma has_enc_typed_mut P :
  (forall t v w, has_enc P t v w -> has_ty P v t = true /\ in_rng P v t = true) /\
  (forall ts vs w, has_encs P ts vs w ->
     forallb2 (has_ty P) vs ts = true /\ forallb2 (in_rng P) vs ts = true).
Proof.
  apply has_enc_mutind.
  - intro b. split; reflexivity.
  - intros sg n z Hr. split; [reflexivity|exact Hr].
  - intros el n vs w Hn _ [IH1 IH2]. rewrite has_ty_arr, in_rng_arr. rewrite forallb2_repeat in IH1, IH2.
    subst n. now rewrite N.eqb_refl, IH1, IH2.
  - intros ts vs w _ [IH1 IH2]. now rewrite has_ty_tup, in_rng_tup.
  - intros name def vs w Hd _ [IH1 IH2]. now rewrite has_ty_struct, in_rng_struct, Hd.
  - intros name variants tag ts vs pw Hd Ht _ [IH1 IH2]. now rewrite has_ty_enum, in_rng_enum, Hd, Ht.
  - split; reflexivity.
  - intros t v ts vs a b _ [I1 I2] _ [I3 I4]. cbn [forallb2]. now rewrite I1, I2, I3, I4.
Qed.

Lemma has_enc_has_ty P t v w : has_enc P t v w -> has_ty P v t = true.
Proof. intro H. now apply has_enc_typed_mut in H. Qed.

Lemma has_enc_in_rng P t v w : has_enc P t v w -> in_rng P v t = true.
Proof. intro H. now apply has_enc_typed_mut in H. Qed.

Theorem has_enc_iff_encode P t v w : ty_fits P t ->
  (has_enc P t v w <-> (Sem.encode Sem.ty_fuel P t v = Some w /\ in_rng P v t = true)).
Proof.
  intro Hok. split.
  - intro H. split; [now apply has_enc_encode|now apply (has_enc_in_rng P t v w)].
  - intros [He Hr]. now apply encode_has_enc.
Qed.

(* the relation is functional in both directions *)
Lemma has_enc_det P t v w w' : ty_fits P t -> has_enc P t v w -> has_enc P t v w' -> w = w'.
Proof. intros Hok H H'. apply (has_enc_encode P t v _) in H, H'; try assumption. congruence. Qed.

(* every typed, in-range value of a type within the fuel has an encoding *)
Theorem has_enc_total P t v : ty_fits P t -> has_ty P v t = true -> in_rng P v t = true ->
  exists w, has_enc P t v w.
Proof.
  intros Hok Hty Hr. destruct (encode_sizeof P t v Hok Hty) as (w & He & _).
  exists w. now apply encode_has_enc.
Qed.

(* ------------------------------------------------------------------ 5. decoding *)

Theorem has_enc_decode P t v w rest : enums_small P = true -> has_enc P t v w -> ty_fits P t ->
  Sem.decode Sem.ty_fuel P t (w ++ rest) = Some (v, rest).
Proof.
  intros Hsm H Hok. rewrite ty_fuel_S.
  apply (decode_encode P Hsm _ t v Hok (has_enc_has_ty P t v w H) (has_enc_in_rng P t v w H)).
  apply has_enc_encode_mut; [exact H|exact Hok|apply Nat.le_pred_l].
Qed.

Corollary has_enc_decode_all P t v w : enums_small P = true -> has_enc P t v w -> ty_fits P t ->
  Sem.decode Sem.ty_fuel P t w = Some (v, []).
Proof. intros Hsm H Hok. rewrite <- (app_nil_r w). now apply has_enc_decode. Qed.

(* ... so decoding is injective on encodings: the value is determined by the bits *)
Lemma has_enc_inj P t v v' w : enums_small P = true -> ty_fits P t ->
  has_enc P t v w -> has_enc P t v' w -> v = v'.
Proof.
  intros Hsm Hok H H'. apply (has_enc_decode_all P t _ w Hsm) in H, H'; try assumption. congruence.
Qed.

(* ------------------------------------------------------------------ 6d. structs *)

Theorem has_enc_struct_lit P name def vs ws : assocN name (p_structs P) = Some def ->
  Forall3 (has_enc P) (map snd def) vs ws -> has_enc P (TStruct name) (Sem.VTup vs) (concat ws).
Proof. intros Hd H. apply (HE_struct P name def); [exact Hd|]. apply has_encs_F3. eauto. Qed.

(* the loop of [field_offsets] finds the field at the position [Sem.index_of] gives it, at the
   sum of the sizes of the fields before it *)
Lemma field_offsets_spec P fld : forall fields before i0 off len,
  field_offsets P fields fld before = Ok (off, len) ->
  exists k ti, Sem.index_of fld (map fst fields) i0 = Some (i0 + N.of_nat k) /\
    nth_error (map snd fields) k = Some ti /\
    off = (before + sum_szn P (firstn k (map snd fields)))%nat /\ len = szn P ti.
Proof.
  induction fields as [|[fname fty] r IH]; intros before i0 off len H; cbn [field_offsets] in H; [discriminate H|].
  cbn [map fst snd Sem.index_of]. rewrite (N.eqb_sym fld fname).
  destruct (fname =? fld) eqn:E.
  - injection H as <- <-. exists O, fty. cbn [nth_error firstn]. repeat split.
    + f_equal. lia.
    + unfold sum_szn. cbn [map list_sum fold_right]. lia.
  - destruct (IH _ (i0 + 1) _ _ H) as (k & ti & H1 & H2 & -> & ->). exists (S k), ti.
    cbn [nth_error firstn]. rewrite H1. repeat split.
    + f_equal. lia.
    + exact H2.
    + rewrite sum_szn_cons. lia.
Qed.

Lemma field_offsets_total P fld : forall fields before i0 j,
  Sem.index_of fld (map fst fields) i0 = Some j -> exists off len, field_offsets P fields fld before = Ok (off, len).
Proof.
  induction fields as [|[fname fty] r IH]; intros before i0 j H; cbn [map fst Sem.index_of] in H; [discriminate H|].
  cbn [field_offsets]. rewrite (N.eqb_sym fname fld). destruct (fld =? fname); [eauto|].
  exact (IH _ _ _ H).
Qed.

Lemma struct_offsets_spec P name def fld off len k : assocN name (p_structs P) = Some def ->
  struct_offsets P (TStruct name) fld = Ok (off, len) -> Sem.index_of fld (map fst def) 0 = Some k ->
  exists ti, nth_error (map snd def) (N.to_nat k) = Some ti /\
    off = sum_szn P (firstn (N.to_nat k) (map snd def)) /\ len = szn P ti.
Proof.
  intros Hd Ho Hi. unfold struct_offsets in Ho. rewrite Hd in Ho.
  destruct (field_offsets_spec P fld def O 0 off len Ho) as (k' & ti & H1 & H2 & H3 & H4).
  rewrite H1 in Hi. injection Hi as <-. replace (N.to_nat (0 + N.of_nat k')) with k' by lia.
  exists ti. repeat split; [exact H2|lia|exact H4].
Qed.

Theorem has_enc_struct_proj P name def vs w fld off len k vi :
  has_enc P (TStruct name) (Sem.VTup vs) w -> ty_fits P (TStruct name) ->
  assocN name (p_structs P) = Some def ->
  struct_offsets P (TStruct name) fld = Ok (off, len) ->
  Sem.index_of fld (map fst def) 0 = Some k -> nthN vs k = Some vi ->
  exists ti wi, nthN (map snd def) k = Some ti /\ slice w off len = Ok wi /\ has_enc P ti vi wi.
Proof.
  intros H Hok Hd Ho Hi Hv.
  destruct (struct_offsets_spec P name def fld off len k Hd Ho Hi) as (ti & Ht & -> & ->).
  apply has_enc_inv in H as (def' & vs0 & [= <-] & Hd' & Hs).
  assert (def' = def) as -> by congruence. rewrite nthN_spec in Hv.
  destruct (has_encs_proj P _ _ vs w ti vi Hs (ty_fits_struct_def P name def Hok Hd) Ht Hv) as (wi & Hw & He).
  exists ti, wi. rewrite nthN_spec. auto.
Qed.

(* assignment to a field *)
Theorem has_enc_struct_update P name def vs w fld off len k vi' wi' vs' ti :
  has_enc P (TStruct name) (Sem.VTup vs) w -> ty_fits P (TStruct name) ->
  assocN name (p_structs P) = Some def ->
  struct_offsets P (TStruct name) fld = Ok (off, len) ->
  Sem.index_of fld (map fst def) 0 = Some k -> nthN (map snd def) k = Some ti ->
  has_enc P ti vi' wi' -> Sem.set_nth_val vs (N.to_nat k) vi' = Some vs' ->
  exists w', splice w off len wi' = Ok w' /\ has_enc P (TStruct name) (Sem.VTup vs') w'.
Proof.
  intros H Hok Hd Ho Hi Hti Hn Hs.
  destruct (struct_offsets_spec P name def fld off len k Hd Ho Hi) as (ti' & Ht & -> & ->).
  rewrite nthN_spec in Hti. assert (ti' = ti) as -> by congruence.
  apply has_enc_inv in H as (def' & vs0 & [= <-] & Hd' & Hs0).
  assert (def' = def) as -> by congruence.
  destruct (has_encs_update P _ _ vs w ti vi' wi' vs' Hs0 (ty_fits_struct_def P name def Hok Hd) Ht Hn Hs)
    as (w' & Hw & He).
  exists w'. split; [exact Hw|]. now apply (HE_struct P name def).
Qed.

(* a struct pattern: [struct_match] walks the definition from offset 0 *)
Theorem has_enc_struct_fields P name def vs w : has_enc P (TStruct name) (Sem.VTup vs) w ->
  ty_fits P (TStruct name) -> assocN name (p_structs P) = Some def -> enc_at P (map snd def) vs w O.
Proof.
  intros H Hok Hd. apply has_enc_inv in H as (def' & vs0 & [= <-] & Hd' & Hs).
  assert (def' = def) as -> by congruence.
  pose proof (has_encs_enc_at P _ vs w Hs (ty_fits_struct_def P name def Hok Hd) [] []) as Hat.
  cbn [app length] in Hat. now rewrite app_nil_r in Hat.
Qed.

(* component k of a list of consecutive slices *)
Lemma enc_at_nth P : forall ts vs mw off k tk vk, enc_at P ts vs mw off ->
  nth_error ts k = Some tk -> nth_error vs k = Some vk ->
  exists wk, slice mw (off + sum_szn P (firstn k ts)) (szn P tk) = Ok wk /\ has_enc P tk vk wk.
Proof.
  induction ts as [|t ts IH]; intros [|v vs] mw off [|k] tk vk H Ht Hv; cbn [nth_error] in Ht, Hv;
    try discriminate; cbn [enc_at] in H; destruct H as [(wi & Hw & He) Hr].
  - injection Ht as <-. injection Hv as <-. exists wi. cbn [firstn]. unfold sum_szn. cbn [map list_sum fold_right].
    now rewrite Nat.add_0_r.
  - destruct (IH vs mw _ k tk vk Hr Ht Hv) as (wk & Hwk & Hek). exists wk. split; [|exact Hek].
    cbn [firstn]. rewrite sum_szn_cons, Nat.add_assoc. exact Hwk.
Qed.

Lemma enc_at_length P : forall ts vs mw off, enc_at P ts vs mw off -> length ts = length vs.
Proof.
  induction ts as [|t ts IH]; intros [|v vs] mw off H; cbn [enc_at] in H; try contradiction; [reflexivity|].
  cbn [length]. f_equal. exact (IH vs mw _ (proj2 H)).
Qed.

(* ------------------------------------------------------------------ 6e. enums *)

Lemma length_tag_enc variants tag : length (enc (enum_tag_size variants) (Z.of_N tag)) = enum_tag_size variants.
Proof. apply length_enc. Qed.

(* the tag wires of EEnumLit / of the enum patterns, on Booleans *)
Lemma tsem_tag_wires variants tag :
  unsigned_as_wires tops tag (enum_tag_size variants) = enc (enum_tag_size variants) (Z.of_N tag).
Proof. apply TSemControl.tsem_unsigned_as_wires. Qed.

(* the bit list that the EEnumLit case of [lower_expr_body] builds (in [tops]) from the
   encodings of the arguments: its size test succeeds and the result encodes the enum value *)
Theorem has_enc_enum_lit P name variants tag ts vs ws :
  ty_fits P (TEnum name) -> assocN name (p_enums P) = Some variants -> nthN variants tag = Some ts ->
  Forall3 (has_enc P) ts vs ws ->
  let payload := concat ws in
  let tag_size := enum_tag_size variants in
  let max_size := enum_max_size P variants in
  (tag_size + length payload <=? max_size)%nat = true /\
  has_enc P (TEnum name) (Sem.VEnum tag vs)
    (unsigned_as_wires tops tag tag_size ++ payload
       ++ repeat (wF tops) (max_size - tag_size - length payload)).
Proof.
  intros Hok Hd Ht Hws payload tag_size max_size.
  assert (Hs : has_encs P ts vs payload) by (apply has_encs_F3; eauto).
  pose proof (has_encs_length_sum P ts vs payload Hs (ty_fits_enum_variant P name variants tag ts Hok Hd Ht)) as Hl.
  pose proof (enum_variant_fits P variants tag ts Ht) as Hfit. fold tag_size max_size in Hfit.
  split; [apply Nat.leb_le; lia|].
  assert (unsigned_as_wires tops tag tag_size ++ payload ++ repeat (wF tops) (max_size - tag_size - length payload)
          = enum_bits P name variants tag payload) as ->.
  { unfold enum_bits. cbv zeta. rewrite (szn_enum P name variants Hok Hd). fold tag_size max_size.
    unfold tag_size at 1. rewrite tsem_tag_wires. fold tag_size.
    rewrite app_length, length_enc, <- app_assoc, Nat.sub_add_distr. reflexivity. }
  now apply (HE_enum P name variants tag ts).
Qed.

(* from the encoding of an enum value: its variant, the tag wires (what PEnumUnit / PEnumTup
   compare with [unsigned_as_wires variant tag_size]), the payload fields at the offsets
   [fields_match mw (zip_sizes ps field_types) tag_size] walks through, the total size *)
Theorem has_enc_enum_inv P name variants tag vs w :
  has_enc P (TEnum name) (Sem.VEnum tag vs) w -> ty_fits P (TEnum name) ->
  assocN name (p_enums P) = Some variants ->
  exists ts, nthN variants tag = Some ts /\
    slice w 0 (enum_tag_size variants) = Ok (unsigned_as_wires tops tag (enum_tag_size variants)) /\
    enc_at P ts vs w (enum_tag_size variants) /\
    length w = enum_max_size P variants.
Proof.
  intros H Hok Hd. pose proof (has_enc_length P _ _ _ H Hok) as Hlen. rewrite (szn_enum P name variants Hok Hd) in Hlen.
  apply has_enc_inv in H as (variants' & tag' & ts & vs' & pw & [= <- <-] & Hd' & Ht & Hs & ->).
  assert (variants' = variants) as -> by congruence.
  exists ts. split; [exact Ht|]. rewrite tsem_tag_wires. unfold enum_bits. cbv zeta.
  set (tg := enc (enum_tag_size variants) (Z.of_N tag)).
  set (pad := repeat false (szn P (TEnum name) - length (tg ++ pw))).
  assert (Ltg : length tg = enum_tag_size variants) by apply length_enc.
  split; [|split; [|exact Hlen]].
  - rewrite <- Ltg, <- app_assoc. exact (slice_mid [] tg (pw ++ pad)).
  - rewrite <- Ltg, <- app_assoc.
    exact (has_encs_enc_at P ts vs pw Hs (ty_fits_enum_variant P name variants tag ts Hok Hd Ht) tg pad).
Qed.

Theorem has_enc_enum_field P name variants tag ts vs w k tk vk :
  has_enc P (TEnum name) (Sem.VEnum tag vs) w -> ty_fits P (TEnum name) ->
  assocN name (p_enums P) = Some variants -> nthN variants tag = Some ts ->
  nth_error ts k = Some tk -> nth_error vs k = Some vk ->
  exists wk, slice w (enum_tag_size variants + sum_szn P (firstn k ts)) (szn P tk) = Ok wk /\
    has_enc P tk vk wk.
Proof.
  intros H Hok Hd Ht Htk Hvk.
  destruct (has_enc_enum_inv P name variants tag vs w H Hok Hd) as (ts' & Ht' & _ & Hat & _).
  assert (ts' = ts) as -> by congruence.
  exact (enc_at_nth P ts vs w _ k tk vk Hat Htk Hvk).
Qed.

(* the field sizes [zip_sizes] pairs the sub-patterns with *)
Lemma zip_sizes_snd P : forall ps ts, length ps = length ts ->
  map snd (zip_sizes P ps ts) = map (szn P) ts.
Proof.
  induction ps as [|p ps IH]; intros [|t ts] H; cbn [length] in H; try discriminate; [reflexivity|].
  cbn [zip_sizes map snd]. f_equal. apply IH. lia.
Qed.

(* tags of different variants have different wires (enums with at most 2^64 variants) *)
Lemma enum_tag_small variants tag ts : lenN variants <= 2 ^ 64 -> nthN variants tag = Some ts ->
  (0 <= Z.of_N tag < 2 ^ Z.of_nat (enum_tag_size variants))%Z.
Proof.
  intros Hsm Ht. pose proof (nthN_lt _ _ _ Ht) as Hlt. pose proof (tag_bits_spec _ Hsm) as Hb.
  unfold enum_tag_size. rewrite N_nat_Z, <- pow2_N_Z. lia.
Qed.

Lemma enum_tag_enc_inj variants tag tag' ts ts' : lenN variants <= 2 ^ 64 ->
  nthN variants tag = Some ts -> nthN variants tag' = Some ts' ->
  enc (enum_tag_size variants) (Z.of_N tag) = enc (enum_tag_size variants) (Z.of_N tag') -> tag = tag'.
Proof.
  intros Hsm Ht Ht' He. apply (f_equal uval) in He. rewrite !uval_enc in He.
  rewrite !Z.mod_small in He by (eapply enum_tag_small; eassumption). lia.
Qed.

Lemma enums_small_variants P name variants : enums_small P = true ->
  assocN name (p_enums P) = Some variants -> lenN variants <= 2 ^ 64.
Proof.
  intros Hsm Hd. destruct (assocN_In _ _ _ Hd) as (k' & Hk). unfold enums_small in Hsm.
  rewrite forallb_forall in Hsm. specialize (Hsm _ Hk). cbn [snd] in Hsm. now apply N.leb_le in Hsm.
Qed.

(* two values of the same enum type with the same tag wires are of the same variant *)
Lemma has_enc_enum_tag_eq P name tag vs w tag' vs' w' variants : enums_small P = true ->
  ty_fits P (TEnum name) -> assocN name (p_enums P) = Some variants ->
  has_enc P (TEnum name) (Sem.VEnum tag vs) w -> has_enc P (TEnum name) (Sem.VEnum tag' vs') w' ->
  slice w 0 (enum_tag_size variants) = slice w' 0 (enum_tag_size variants) -> tag = tag'.
Proof.
  intros Hsm Hok Hd H H' Hs.
  destruct (has_enc_enum_inv P name variants tag vs w H Hok Hd) as (ts & Ht & Hw & _).
  destruct (has_enc_enum_inv P name variants tag' vs' w' H' Hok Hd) as (ts' & Ht' & Hw' & _).
  rewrite Hw, Hw', !tsem_tag_wires in Hs. injection Hs as Hs.
  exact (enum_tag_enc_inj variants tag tag' ts ts' (enums_small_variants P name variants Hsm Hd) Ht Ht' Hs).
Qed.

(* ------------------------------------------------------------------ 5'. [enums_small] is
   needed in [has_enc_decode]: with more than 2^64 variants the tag width [Sem.tag_bits]
   stops at 64 bits, the tag 2^64 is encoded as 64 zeros and decodes as variant 0.  (Such an
   enum is a mathematical object only -- the list of variants is never computed below.) *)

Lemma forallb_repeat {A} (h : A -> bool) a k : h a = true -> forallb h (repeat a k) = true.
Proof. intro H. induction k as [|k IH]; cbn [repeat forallb]; [reflexivity|]. now rewrite H, IH. Qed.

Lemma pred_ty_fuel_S : pred Sem.ty_fuel = S (pred (pred Sem.ty_fuel)).
Proof. vm_compute. reflexivity. Qed.

Section Big.
  Let big : nat := N.to_nat (2 ^ 64 + 1).
  Let variants : list (list ty) := repeat [] big.
  Let BP : program := mkProgram [] [(0, variants)] [] [] 0.

  Let len_variants : lenN variants = 2 ^ 64 + 1.
  Proof. unfold lenN, variants, big. rewrite repeat_length. apply N2Nat.id. Qed.

  Let tag_size_64 : enum_tag_size variants = 64%nat.
  Proof. unfold enum_tag_size. rewrite len_variants. vm_compute. reflexivity. Qed.

  Let Hd : assocN 0 (p_enums BP) = Some variants.
  Proof. cbn [p_enums BP assocN]. change (0 =? 0) with true. reflexivity. Qed.

  Let Hnth : nthN variants (2 ^ 64) = Some [].
  Proof. rewrite nthN_spec. unfold variants, big. apply nth_error_repeat. lia. Qed.

  Let Htok : ty_fits BP (TEnum 0).
  Proof.
    unfold ty_fits. rewrite pred_ty_fuel_S. cbn [ty_ok]. rewrite Hd. unfold variants. now apply forallb_repeat.
  Qed.

  Let Henc : has_enc BP (TEnum 0) (Sem.VEnum (2 ^ 64) []) (enum_bits BP 0 variants (2 ^ 64) []).
  Proof. apply (HE_enum BP 0 variants (2 ^ 64) [] [] [] Hd Hnth). constructor. Qed.

  Theorem decode_needs_small : exists P t v w,
    ty_fits P t /\ has_enc P t v w /\ Sem.decode Sem.ty_fuel P t (w ++ []) <> Some (v, []).
  Proof.
    exists BP, (TEnum 0), (Sem.VEnum (2 ^ 64) []), (enum_bits BP 0 variants (2 ^ 64) []).
    split; [exact Htok|]. split; [exact Henc|].
    rewrite ty_fuel_S, decode_eq, Hd. cbv zeta.
    destruct (_ <? _)%nat; [discriminate|].
    match goal with |- context [nthN variants ?tg] => set (tg0 := tg) end.
    assert (Htg : tg0 = 0).
    { unfold tg0, enum_bits, enum_tag_size. cbv zeta. rewrite len_variants.
      assert (H64 : N.to_nat (Sem.tag_bits (2 ^ 64 + 1)) = 64%nat) by (vm_compute; reflexivity).
      rewrite H64. rewrite <- !app_assoc.
      rewrite firstn_app_exact by apply length_enc. rewrite enc_bits_of_Z, unsigned_of_bits_of_Z.
      vm_compute. reflexivity. }
    destruct (nthN variants tg0) as [ts|]; [|discriminate].
    match goal with |- context [dec_list ?d ts ?b] => destruct (dec_list d ts b) as [[vs r]|] end; [|discriminate].
    intro H. clearbody tg0.
    apply (f_equal (fun o => match o with Some (Sem.VEnum tg _, _) => tg | _ => 0 end)) in H.
    cbv beta iota in H. rewrite Htg in H. discriminate H.
  Qed.
End Big.

(* ------------------------------------------------------------------ 7. an example *)

Module ValEncExample.
  (* struct S { a: u8, b: bool }      enum E { A, B(u8), C(S, bool) }  *)
  Definition S_ : N := 1.
  Definition E_ : N := 2.
  Definition prog : program :=
    mkProgram [(S_, [(10, TInt false 8); (11, TBool)])]
              [(E_, [[]; [TInt false 8]; [TStruct S_; TBool]])]
              [] [] 0.

  (* (S, E, [(bool, i8); 2], E) *)
  Definition t : ty := TTup [TStruct S_; TEnum E_; TArr (TTup [TBool; TInt true 8]) 2; TEnum E_].

  Definition v : Sem.value :=
    Sem.VTup [Sem.VTup [Sem.VInt 200; Sem.VBool true];
              Sem.VEnum 1 [Sem.VInt 7];
              Sem.VArr [Sem.VTup [Sem.VBool true; Sem.VInt (-3)]; Sem.VTup [Sem.VBool false; Sem.VInt 5]];
              Sem.VEnum 2 [Sem.VTup [Sem.VInt 1; Sem.VBool false]; Sem.VBool true]].

  Definition bits : list bool :=
    Eval vm_compute in match Sem.encode Sem.ty_fuel prog t v with Some w => w | None => [] end.

  Lemma t_fits : ty_fits prog t.
  Proof. vm_compute. reflexivity. Qed.

  Example encode_bits : Sem.encode Sem.ty_fuel prog t v = Some bits.
  Proof. vm_compute. reflexivity. Qed.

  (* 9 bits of S, 2 + 10 of E (the variant B(7) is padded with two zeros), 2 * 9 of the array, 12 of E *)
  Example bits_length : length bits = 51%nat /\ szn prog t = 51%nat /\ szn prog (TEnum E_) = 12%nat.
  Proof. vm_compute. auto. Qed.

  Example v_has_enc : has_enc prog t v bits.
  Proof. apply encode_has_enc; [exact t_fits|exact encode_bits|vm_compute; reflexivity]. Qed.

  Example v_decodes : Sem.decode Sem.ty_fuel prog t bits = Some (v, []).
  Proof. apply has_enc_decode_all; [vm_compute; reflexivity|exact v_has_enc|exact t_fits]. Qed.

  (* an out-of-range integer is not a value of the type, although Sem.encode accepts it *)
  Example out_of_range : Sem.encode Sem.ty_fuel prog (TInt false 8) (Sem.VInt 256) = Some (repeat false 8) /\
    forall w, ~ has_enc prog (TInt false 8) (Sem.VInt 256) w.
  Proof.
    split; [vm_compute; reflexivity|]. intros w H. apply has_enc_inv in H as (z & [= <-] & Hr & _).
    vm_compute in Hr. discriminate Hr.
  Qed.

  (* the same relation built bottom-up with the constructions of section 6, for the second
     component: the bit list of EEnumLit for E::B(7) *)
  Example enum_lit_B :
    has_enc prog (TEnum E_) (Sem.VEnum 1 [Sem.VInt 7])
      (unsigned_as_wires tops 1 2 ++ enc 8 7 ++ repeat false 2) /\
    unsigned_as_wires tops 1 2 ++ enc 8 7 ++ repeat false 2 = firstn 12 (skipn 9 bits).
  Proof.
    split; [|vm_compute; reflexivity].
    assert (Hok : ty_fits prog (TEnum E_)) by (vm_compute; reflexivity).
    destruct (has_enc_enum_lit prog E_ [[]; [TInt false 8]; [TStruct S_; TBool]] 1 [TInt false 8]
                [Sem.VInt 7] [enc 8 7] Hok eq_refl eq_refl) as [_ H].
    - constructor; [|constructor]. apply (HE_int prog false 8 7). reflexivity.
    - exact H.
  Qed.

  (* projections: the field b of the struct inside the variant C of the last component *)
  Example proj_C_S_b : exists w1 w2 w3,
    slice bits 39 12 = Ok w1 /\ has_enc prog (TEnum E_) (Sem.VEnum 2 [Sem.VTup [Sem.VInt 1; Sem.VBool false]; Sem.VBool true]) w1 /\
    slice w1 2 9 = Ok w2 /\ has_enc prog (TStruct S_) (Sem.VTup [Sem.VInt 1; Sem.VBool false]) w2 /\
    slice w2 8 1 = Ok w3 /\ has_enc prog TBool (Sem.VBool false) w3.
  Proof.
    assert (Hok : ty_fits prog t) by exact t_fits.
    destruct (has_enc_tuple_proj prog _ _ bits 3 39%nat 12%nat (TEnum E_) _ v_has_enc Hok eq_refl eq_refl eq_refl)
      as (w1 & Hs1 & H1).
    assert (Hok1 : ty_fits prog (TEnum E_)) by (vm_compute; reflexivity).
    destruct (has_enc_enum_field prog E_ _ 2 [TStruct S_; TBool] _ w1 0 (TStruct S_) _ H1 Hok1 eq_refl eq_refl eq_refl eq_refl)
      as (w2 & Hs2 & H2).
    assert (Hok2 : ty_fits prog (TStruct S_)) by (vm_compute; reflexivity).
    destruct (has_enc_struct_proj prog S_ _ _ w2 11 8%nat 1%nat 1 _ H2 Hok2 eq_refl eq_refl eq_refl eq_refl)
      as (ti & w3 & Hti & Hs3 & H3).
    injection Hti as <-.
    exists w1, w2, w3. repeat split; assumption.
  Qed.
End ValEncExample.

Print Assumptions has_enc_ind2.
Print Assumptions has_enc_scalar.
Print Assumptions has_enc_length.
Print Assumptions has_enc_iff_encode.
Print Assumptions has_enc_total.
Print Assumptions has_enc_decode.
Print Assumptions has_enc_inj.
Print Assumptions decode_needs_small.
Print Assumptions has_enc_tuple_proj.
Print Assumptions has_enc_tuple_update.
Print Assumptions has_enc_struct_proj.
Print Assumptions has_enc_struct_update.
Print Assumptions has_enc_array_proj.
Print Assumptions has_enc_array_update.
Print Assumptions F2_has_enc_list_set.
Print Assumptions has_enc_array_rep.
Print Assumptions has_enc_enum_lit.
Print Assumptions has_enc_enum_inv.
Print Assumptions has_enc_enum_field.
Print Assumptions has_enc_enum_tag_eq.
Print Assumptions ValEncExample.v_has_enc.
Print Assumptions ValEncExample.proj_C_S_b.
