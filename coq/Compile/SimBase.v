(* The simulation framework between the two instances of the generic lowering:
     A = Lower.bops  (wires are builder wire numbers, state = gate store + panic record)
     B = TSem.tops   (wires are Booleans, state = the observable content of the panic record)
   for one fixed input assignment [inp].  [sim s o mA mB Q]: whenever the Boolean run mB
   succeeds from o, the builder run mA succeeds from s, extends the gate store, keeps the
   state relation and relates the two results by Q.  All value relations are monotone in the
   gate store (old wires keep their meaning), which is what lets the pieces compose. *)
From GV Require Import Base.Util Base.NMap Lang.Ast Builder.Builder Builder.BuilderSem Builder.BuilderSpec
  Gadgets.Gadgets Gadgets.GadgetSpec Gadgets.GadgetHoare Sort.Sort Sort.SortHoare
  Panic.PanicRec Panic.PanicSem Panic.PanicProofs Compile.Lower Compile.TSem.

(* ------------------------------------------------------------------ Forall2 utilities *)

Section F2U.
  Context {A B : Type} (R : A -> B -> Prop).

  Lemma F2_length l1 l2 : Forall2 R l1 l2 -> length l1 = length l2.
  Proof. induction 1; cbn; congruence. Qed.

  Lemma F2_firstn n : forall l1 l2, Forall2 R l1 l2 -> Forall2 R (firstn n l1) (firstn n l2).
  Proof. induction n; intros l1 l2 H; cbn; [constructor|]. destruct H; constructor; auto. Qed.

  Lemma F2_skipn n : forall l1 l2, Forall2 R l1 l2 -> Forall2 R (skipn n l1) (skipn n l2).
  Proof. induction n; intros l1 l2 H; cbn; [exact H|]. destruct H; [constructor|auto]. Qed.

  Lemma F2_app l1 l2 r1 r2 : Forall2 R l1 l2 -> Forall2 R r1 r2 -> Forall2 R (l1 ++ r1) (l2 ++ r2).
  Proof. induction 1; cbn; auto. Qed.

  Lemma F2_rev l1 l2 : Forall2 R l1 l2 -> Forall2 R (rev l1) (rev l2).
  Proof. induction 1; cbn; [constructor|]. apply F2_app; auto. Qed.

  Lemma F2_repeat a b n : R a b -> Forall2 R (repeat a n) (repeat b n).
  Proof. intro H. induction n; cbn; constructor; auto. Qed.

  Lemma F2_nth l1 l2 d1 d2 i : Forall2 R l1 l2 -> R d1 d2 -> R (nth i l1 d1) (nth i l2 d2).
  Proof. intros H Hd. revert i. induction H; intros [|i]; cbn; auto. Qed.

  Lemma F2_hd l1 l2 d1 d2 : Forall2 R l1 l2 -> R d1 d2 -> R (hd d1 l1) (hd d2 l2).
  Proof. destruct 1; cbn; auto. Qed.

  Lemma F2_tl l1 l2 : Forall2 R l1 l2 -> Forall2 R (tl l1) (tl l2).
  Proof. destruct 1; cbn; auto. Qed.

  Lemma F2_last l1 l2 d1 d2 : Forall2 R l1 l2 -> R d1 d2 -> R (last l1 d1) (last l2 d2).
  Proof. intros H Hd. induction H; cbn; auto. destruct H0; auto. Qed.

  Lemma F2_removelast l1 l2 : Forall2 R l1 l2 -> Forall2 R (removelast l1) (removelast l2).
  Proof. induction 1; cbn; [constructor|]. destruct H0; [constructor|]. constructor; auto. Qed.

  Lemma F2_nth_error l1 l2 i : Forall2 R l1 l2 ->
    match nth_error l1 i, nth_error l2 i with
    | Some a, Some b => R a b
    | None, None => True
    | _, _ => False
    end.
  Proof. intro H. revert i. induction H; intros [|i]; cbn; auto. apply IHForall2. Qed.
End F2U.

Lemma F2_concat {A B} (R : A -> B -> Prop) l1 l2 :
  Forall2 (Forall2 R) l1 l2 -> Forall2 R (concat l1) (concat l2).
Proof. induction 1; cbn; [constructor|]. apply F2_app; auto. Qed.

Lemma F2_combine {A B C D} (R : A -> B -> Prop) (S : C -> D -> Prop) l1 l2 r1 r2 :
  Forall2 R l1 l2 -> Forall2 S r1 r2 ->
  Forall2 (fun p q => R (fst p) (fst q) /\ S (snd p) (snd q)) (combine l1 r1) (combine l2 r2).
Proof.
  intro H. revert r1 r2. induction H; intros r1 r2 Hr; cbn; [constructor|].
  destruct Hr; constructor; auto.
Qed.

Lemma F2_map {A B C D} (R : C -> D -> Prop) (f : A -> C) (g : B -> D) (P : A -> B -> Prop) l1 l2 :
  (forall a b, P a b -> R (f a) (g b)) -> Forall2 P l1 l2 -> Forall2 R (map f l1) (map g l2).
Proof. intros Hf. induction 1; cbn; constructor; auto. Qed.

Lemma F2_map_same {A C D} (R : C -> D -> Prop) (f : A -> C) (g : A -> D) l :
  (forall a, R (f a) (g a)) -> Forall2 R (map f l) (map g l).
Proof. intro H. induction l; cbn; constructor; auto. Qed.

Lemma F2_impl' {A B} (R R' : A -> B -> Prop) l1 l2 :
  (forall a b, R a b -> R' a b) -> Forall2 R l1 l2 -> Forall2 R' l1 l2.
Proof. intros H. induction 1; constructor; auto. Qed.

(* ------------------------------------------------------------------ the relations *)

Section Sim.
Variable inv : builder -> Prop.
Hypothesis ops : builder_ops_sound inv.
Variable inp : list bool.

Definition extS (s s' : cst) : Prop := ext (cb s) (cb s').

Definition Rw (s : cst) (w : N) (v : bool) : Prop := valid (cb s) w /\ den inp (cb s) w = v.
Definition Rws (s : cst) : list N -> list bool -> Prop := Forall2 (Rw s).
Definition Rwss (s : cst) : list (list N) -> list (list bool) -> Prop := Forall2 (Rws s).

Definition RP (s : cst) (PA : pstate) (o : pobs) : Prop :=
  pstate_ok (cb s) PA /\ obs inp (cb s) (ps_rec PA) = o.

Definition RS (s : cst) (o : pobs) : Prop :=
  inv (cb s) /\ ins_ok (cb s) inp /\ RP s (cp s) o.

Definition Rbind (s : cst) (a : N * list N) (b : N * list bool) : Prop :=
  fst a = fst b /\ Rws s (snd a) (snd b).
Definition Rscope (s : cst) : @scope N -> @scope bool -> Prop := Forall2 (Rbind s).
Definition RE (s : cst) : @cenv N -> @cenv bool -> Prop := Forall2 (Rscope s).

Lemma extS_refl s : extS s s.
Proof. apply ext_refl. Qed.
Lemma extS_trans s1 s2 s3 : extS s1 s2 -> extS s2 s3 -> extS s1 s3.
Proof. apply ext_trans. Qed.

Lemma RS_ins s o : RS s o -> ins_ok (cb s) inp.
Proof. intros (_ & H & _). exact H. Qed.
Lemma RS_inv s o : RS s o -> inv (cb s).
Proof. intros (H & _). exact H. Qed.

Lemma Rw_mono s s' w v : extS s s' -> ins_ok (cb s) inp -> Rw s w v -> Rw s' w v.
Proof.
  intros E Hi [Hv Hd]. split; [eapply ext_valid; eauto|].
  rewrite (ext_den _ _ _ _ E Hi Hv). exact Hd.
Qed.

Lemma Rws_mono s s' ws vs : extS s s' -> ins_ok (cb s) inp -> Rws s ws vs -> Rws s' ws vs.
Proof. intros E Hi. apply F2_impl'. intros. eapply Rw_mono; eauto. Qed.

Lemma Rwss_mono s s' ws vs : extS s s' -> ins_ok (cb s) inp -> Rwss s ws vs -> Rwss s' ws vs.
Proof. intros E Hi. apply F2_impl'. intros. eapply Rws_mono; eauto. Qed.

Lemma RE_mono s s' EA EB : extS s s' -> ins_ok (cb s) inp -> RE s EA EB -> RE s' EA EB.
Proof.
  intros E Hi. apply F2_impl'. intros a b. apply F2_impl'. intros [k ws] [k' vs] [H1 H2].
  split; [exact H1|]. eapply Rws_mono; eauto.
Qed.

Lemma Rscope_mono s s' a b : extS s s' -> ins_ok (cb s) inp -> Rscope s a b -> Rscope s' a b.
Proof.
  intros E Hi. apply F2_impl'. intros [k ws] [k' vs] [H1 H2].
  split; [exact H1|]. eapply Rws_mono; eauto.
Qed.

Lemma RP_mono s s' PA o : extS s s' -> ins_ok (cb s) inp -> RP s PA o -> RP s' PA o.
Proof.
  intros E Hi [Hok Ho]. split; [eapply pstate_ok_ext; eauto|].
  destruct Hok as (_ & Hv & _). rewrite (obs_ext _ _ _ _ E Hi Hv). exact Ho.
Qed.

Lemma Rw_valid s w v : Rw s w v -> valid (cb s) w.
Proof. intros [H _]. exact H. Qed.
Lemma Rws_valids s ws vs : Rws s ws vs -> valids (cb s) ws.
Proof. induction 1; constructor; auto. eapply Rw_valid; eauto. Qed.
Lemma Rws_dens s ws vs : Rws s ws vs -> dens inp (cb s) ws = vs.
Proof. induction 1 as [|w v ws vs [_ Hd] _ IH]; cbn; [reflexivity|]. rewrite Hd. f_equal. exact IH. Qed.
Lemma Rws_of s ws : valids (cb s) ws -> Rws s ws (dens inp (cb s) ws).
Proof. induction 1; cbn; constructor; auto. split; auto. Qed.
Lemma Rws_length s ws vs : Rws s ws vs -> length ws = length vs.
Proof. apply F2_length. Qed.

Lemma Rw_const0 s o : RS s o -> Rw s 0 false.
Proof.
  intros (Hi & Hin & _). split; [apply (bs_consts_valid inv ops _ Hi)|].
  apply (bs_const0 inv ops); auto.
Qed.
Lemma Rw_const1 s o : RS s o -> Rw s 1 true.
Proof.
  intros (Hi & Hin & _). split; [apply (bs_consts_valid inv ops _ Hi)|].
  apply (bs_const1 inv ops); auto.
Qed.

(* ------------------------------------------------------------------ the simulation triple *)

Definition MA (X : Type) := cst -> res (X * cst).
Definition MB (Y : Type) := pobs -> res (Y * pobs).

Definition sim {X Y} (s : cst) (o : pobs) (mA : MA X) (mB : MB Y) (Q : cst -> X -> Y -> Prop) : Prop :=
  forall y o', mB o = Ok (y, o') ->
  exists x s', mA s = Ok (x, s') /\ extS s s' /\ RS s' o' /\ Q s' x y.

Lemma sim_ret {X Y} s o (x : X) (y : Y) (Q : cst -> X -> Y -> Prop) :
  RS s o -> Q s x y -> sim s o (ret x) (ret y) Q.
Proof.
  intros HS HQ y' o' H. unfold ret in H. injection H as <- <-.
  exists x, s. split; [reflexivity|]. split; [apply extS_refl|]. split; assumption.
Qed.

Lemma sim_bind {X Y X2 Y2} s o (mA : MA X) (mB : MB Y) (kA : X -> MA X2) (kB : Y -> MB Y2)
    (R : cst -> X -> Y -> Prop) (Q : cst -> X2 -> Y2 -> Prop) :
  sim s o mA mB R ->
  (forall s1 o1 x y, extS s s1 -> RS s1 o1 -> R s1 x y -> sim s1 o1 (kA x) (kB y) Q) ->
  sim s o (mbind mA kA) (mbind mB kB) Q.
Proof.
  intros Hm Hk y2 o2 H. unfold mbind in H.
  destruct (mB o) as [[y o1]| |] eqn:EB; try discriminate.
  destruct (Hm y o1 EB) as (x & s1 & EA & E1 & HS1 & HR).
  destruct (Hk s1 o1 x y E1 HS1 HR y2 o2 H) as (x2 & s2 & EA2 & E2 & HS2 & HQ).
  exists x2, s2. unfold mbind. rewrite EA. split; [exact EA2|].
  split; [eapply extS_trans; eauto|]. split; assumption.
Qed.

Lemma sim_crash {X Y} s o (mA : MA X) (Q : cst -> X -> Y -> Prop) : sim s o mA (crash (Cs:=pobs) (A:=Y)) Q.
Proof. intros y o' H. discriminate. Qed.

Lemma sim_nofuel {X Y} s o (mA : MA X) (Q : cst -> X -> Y -> Prop) : sim s o mA (nofuel (Cs:=pobs) (A:=Y)) Q.
Proof. intros y o' H. discriminate. Qed.

Lemma sim_lift {X Y} s o (rA : res X) (rB : res Y) (Q : cst -> X -> Y -> Prop) :
  RS s o -> (forall y, rB = Ok y -> exists x, rA = Ok x /\ Q s x y) ->
  sim s o (lift_res rA) (lift_res rB) Q.
Proof.
  intros HS H y o' E. unfold lift_res in E. destruct rB as [y0| |]; try discriminate.
  injection E as <- <-. destruct (H y0 eq_refl) as (x & -> & HQ).
  exists x, s. split; [reflexivity|]. split; [apply extS_refl|]. split; assumption.
Qed.

Lemma sim_conseq {X Y} s o (mA : MA X) (mB : MB Y) (Q Q' : cst -> X -> Y -> Prop) :
  sim s o mA mB Q -> (forall s' x y, extS s s' -> ins_ok (cb s') inp -> Q s' x y -> Q' s' x y) ->
  sim s o mA mB Q'.
Proof.
  intros H HQ y o' E. destruct (H y o' E) as (x & s' & EA & E1 & HS & Hq).
  exists x, s'. split; [exact EA|]. split; [exact E1|]. split; [exact HS|].
  apply HQ; auto. eapply RS_ins; eauto.
Qed.

(* a request to the gate store: the panic record is untouched *)
Lemma RS_liftb s o b' : RS s o -> inv b' -> ext (cb s) b' -> RS (mkCst b' (cp s)) o.
Proof.
  intros (Hi & Hin & HP) Hi' E. split; [exact Hi'|]. split; [eapply ext_ins_ok; eauto|].
  cbn [cp]. eapply (RP_mono s); eauto.
Qed.

Lemma sim_liftb {X Y} s o (f : builder -> res (X * builder)) (y : Y) (Q : cst -> X -> Y -> Prop) :
  RS s o ->
  (exists r b', f (cb s) = Ok (r, b') /\ inv b' /\ ext (cb s) b' /\ Q (mkCst b' (cp s)) r y) ->
  sim s o (liftb f) (tret y) Q.
Proof.
  intros HS (r & b' & E & Hi' & Ex & HQ) y' o' H. unfold tret in H. injection H as <- <-.
  exists r, (mkCst b' (cp s)). unfold liftb. rewrite E. cbn [bind].
  split; [reflexivity|]. split; [exact Ex|]. split; [apply RS_liftb; auto|exact HQ].
Qed.

End Sim.
