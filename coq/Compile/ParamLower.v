(* Parametricity of the generic lowering, part 3: each open-recursion piece of the
   statements / expressions / patterns preserves the abstract simulation assumed for the
   recursive calls; the induction on fuel ties the knot (lower_param); the generic initial
   environments.  The scripts are those of SimLower.v / LowerSound.v. *)
From GV Require Import Base.Util Base.NMap Lang.Ast Gadgets.Gadgets Gadgets.Extend Panic.PanicRec Compile.Lower
  Compile.ParamBase Compile.ParamHelpers.

Section Rec.
Context {WA WB SA SB PA PB : Type} {OA : ops WA SA PA} {OB : ops WB SB PB}.
Variable PR : param_rel OA OB.

Notation extS := (extS PR).
Notation okS := (okS PR).
Notation Rw := (Rw PR).
Notation Rws := (Rws PR).
Notation Rwss := (Rwss PR).
Notation RP := (RP PR).
Notation RS := (RS PR).
Notation RE := (RE PR).
Notation Rscope := (Rscope PR).
Notation Rbind := (Rbind PR).
Notation sim := (sim PR).
Notation MA := (@MA SA).
Notation MB := (@MB SB).

Definition Rres (s : SA) (x : list WA * @cenv WA) (y : list WB * @cenv WB) : Prop :=
  Rws s (fst x) (fst y) /\ RE s (snd x) (snd y).
Definition RresP (s : SA) (x : WA * @cenv WA) (y : WB * @cenv WB) : Prop :=
  Rw s (fst x) (fst y) /\ RE s (snd x) (snd y).

Variable P : program.
Variable eA : expr -> @cenv WA -> MA (list WA * @cenv WA).
Variable eB : expr -> @cenv WB -> MB (list WB * @cenv WB).
Variable pA : pattern -> list WA -> @cenv WA -> MA (WA * @cenv WA).
Variable pB : pattern -> list WB -> @cenv WB -> MB (WB * @cenv WB).
Variable sA : stmt -> @cenv WA -> MA (list WA * @cenv WA).
Variable sB : stmt -> @cenv WB -> MB (list WB * @cenv WB).
Variable bA : list stmt -> @cenv WA -> MA (list WA * @cenv WA).
Variable bB : list stmt -> @cenv WB -> MB (list WB * @cenv WB).

Hypothesis He : forall e s o E EB, RS s o -> RE s E EB -> sim s o (eA e E) (eB e EB) Rres.
Hypothesis Hp : forall p s o mw vmw E EB, RS s o -> Rws s mw vmw -> RE s E EB ->
  sim s o (pA p mw E) (pB p vmw EB) RresP.
Hypothesis Hs : forall st s o E EB, RS s o -> RE s E EB -> sim s o (sA st E) (sB st EB) Rres.
Hypothesis Hb : forall ss s o E EB, RS s o -> RE s E EB -> sim s o (bA ss E) (bB ss EB) Rres.

(* a recursive call whose result is a pair (wires, env) *)
Tactic Notation "scall" constr(H) "as" ident(w) ident(E1) ident(vw) ident(EB1) ident(Hw) ident(HE1) :=
  eapply sim_bind; [eapply H; eauto|];
  let p := fresh "pairA" in let q := fresh "pairB" in let HH := fresh "HpairAB" in
  snext as p q HH; destruct p as [w E1], q as [vw EB1]; unfold Rres, RresP in HH; cbn [fst snd] in HH;
  destruct HH as [Hw HE1].

Tactic Notation "slift" uconstr(lem) := apply sim_lift; [assumption|]; intros ? ?; eapply lem; eauto.

Lemma sim_lower_list es : forall s o E EB, RS s o -> RE s E EB ->
  sim s o (lower_list eA es E) (lower_list eB es EB) (fun s' r v => Rwss s' (fst r) (fst v) /\ RE s' (snd r) (snd v)).
Proof.
  induction es as [|e es IH]; intros s o E EB HS HE; cbn [lower_list].
  - apply sim_ret; [assumption|]. split; [constructor|assumption].
  - scall He as w E1 vw EB1 Hw HE1.
    eapply sim_bind; [eapply IH; eauto|]. snext as p q HR. destruct p as [ws E2], q as [vws EB2].
    cbn [fst snd] in HR. destruct HR as [Hws HE2].
    apply sim_ret; [assumption|]. cbn [fst snd]. split; [constructor; assumption|assumption].
Qed.

Lemma sim_lower_struct_fields fields ds : forall s o E EB, RS s o -> RE s E EB ->
  sim s o (lower_struct_fields eA fields ds E) (lower_struct_fields eB fields ds EB)
    (fun s' r v => Rwss s' (fst r) (fst v) /\ RE s' (snd r) (snd v)).
Proof.
  induction ds as [|[fname fty] ds IH]; intros s o E EB HS HE; cbn [lower_struct_fields].
  - apply sim_ret; [assumption|]. split; [constructor|assumption].
  - destruct (assocN fname (rev fields)) as [fe|]; [|apply sim_crash].
    scall He as w E1 vw EB1 Hw HE1.
    eapply sim_bind; [eapply IH; eauto|]. snext as p q HR. destruct p as [ws E2], q as [vws EB2].
    cbn [fst snd] in HR. destruct HR as [Hws HE2].
    apply sim_ret; [assumption|]. cbn [fst snd]. split; [constructor; assumption|assumption].
Qed.

Lemma sim_env_pop s o E EB : RS s o -> RE s E EB ->
  sim s o (lift_res (env_pop E)) (lift_res (env_pop EB)) (fun s' r v => RE s' r v).
Proof. intros. slift rel_env_pop. Qed.

Lemma sim_lower_arms bits arms : forall s o sw vsw E0 EB0 P0 o0 hp vhp mret vmret mp vmp menv vmenv,
  RS s o -> Rws s sw vsw -> RE s E0 EB0 -> RP s P0 o0 -> Rw s hp vhp -> Rws s mret vmret -> RP s mp vmp ->
  RE s menv vmenv ->
  sim s o (lower_arms OA eA pA bits sw E0 P0 arms hp mret mp menv)
          (lower_arms OB eB pB bits vsw EB0 o0 arms vhp vmret vmp vmenv)
    (fun s' r v => Rws s' (fst (fst (fst r))) (fst (fst (fst v))) /\ RP s' (snd (fst (fst r))) (snd (fst (fst v)))
                   /\ RE s' (snd (fst r)) (snd (fst v))).
Proof.
  induction arms as [|[pat body] arms IH]; intros s o sw vsw E0 EB0 P0 o0 hp vhp mret vmret mp vmp menv vmenv
    HS Hsw HE0 HP0 Hhp Hmret Hmp Hmenv; cbn [lower_arms].
  - apply sim_ret; [assumption|]. cbn [fst snd]. auto.
  - unf. sbindn sim_replace as Pold oold Hold.
    eapply sim_bind; [eapply Hp; eauto; apply rel_env_push; assumption|].
    snext as p q HR. destruct p as [im E1], q as [vim EB1]. unfold RresP in HR. cbn [fst snd] in HR. destruct HR as [Him HE1].
    scall He as rw E2 vrw EB2 Hrw HE2.
    sbindn sim_not as np vnp Hnp. sbindn sim_and as sl vsl Hsl.
    sbindn sim_env_pop as E3 EB3 HE3. sbindn sim_peek as Pcur ocur Hcur.
    sbindn sim_mux_panic as mp' vmp' Hmp'. sbindn sim_mux_envs as menv' vmenv' Hmenv'.
    eapply sim_bind with (R := fun s' r v => Rws s' r v).
    { rewrite (Rws_length _ _ _ _ Hrw). destruct (_ <? _)%nat; [apply sim_crash|].
      eapply sim_map2_M; eauto; [apply F2_firstn; assumption|]. close_f. unf. eapply sim_mux; eauto. }
    snext as mret' vmret' Hmret'. sbindn sim_or as hp' vhp' Hhp'.
    eapply IH; eauto.
Qed.

Lemma sim_lower_args ps : forall args s o E EB, RS s o -> RE s E EB ->
  sim s o (lower_args eA ps args E) (lower_args eB ps args EB)
    (fun s' r v => Forall2 (Rbind s') (fst r) (fst v) /\ RE s' (snd r) (snd v)).
Proof.
  induction ps as [|[pn pt] ps IH]; intros args s o E EB HS HE; cbn [lower_args].
  - apply sim_ret; [assumption|]. split; [constructor|assumption].
  - destruct args as [|a args]; [apply sim_ret; [assumption|]; split; [constructor|assumption]|].
    eapply sim_bind; [eapply He; eauto; apply rel_env_push; assumption|].
    snext as p q HR. destruct p as [w Ea], q as [vw EBa]. unfold Rres in HR. cbn [fst snd] in HR. destruct HR as [Hw HEa].
    sbindn sim_env_pop as Eb EBb HEb.
    eapply sim_bind; [eapply IH; eauto|]. snext as p q HR. destruct p as [bs Ec], q as [vbs EBc].
    cbn [fst snd] in HR. destruct HR as [Hbs HEc].
    apply sim_ret; [assumption|]. cbn [fst snd]. split; [|assumption]. constructor; [split; auto|assumption].
Qed.

Lemma rel_bind_all s bs : forall vbs E EB y, Forall2 (Rbind s) bs vbs -> RE s E EB -> bind_all EB vbs = Ok y ->
  exists x, bind_all E bs = Ok x /\ RE s x y.
Proof.
  unfold bind_all.
  assert (G : forall vbs (rA : res (@cenv WA)) (rB : res (@cenv WB)) y,
             Forall2 (Rbind s) bs vbs ->
             (forall yb, rB = Ok yb -> exists xa, rA = Ok xa /\ RE s xa yb) ->
             fold_left (fun Er b => let* E' := Er in env_let E' (fst b) (snd b)) vbs rB = Ok y ->
             exists x, fold_left (fun Er b => let* E' := Er in env_let E' (fst b) (snd b)) bs rA = Ok x /\ RE s x y).
  { induction bs as [|[k v] bs IH]; intros vbs rA rB y HF Hr E; inversion HF; subst; cbn [fold_left] in *.
    - apply Hr. exact E.
    - destruct y0 as [k' vv]. destruct H1 as [Hk Hv]. cbn [fst snd] in *. subst k'.
      eapply IH; [eassumption| |exact E].
      intros yb Eb. destruct rB as [eb| |]; cbn [bind] in Eb; try discriminate.
      destruct (Hr eb eq_refl) as (ea & -> & Hea). cbn [bind]. eapply rel_env_let; eauto. }
  intros vbs E EB y HF HE Ey. eapply G; eauto. intros yb [= <-]. eauto.
Qed.

Lemma sim_join_func_windows eba ebb jts ha ws : forall s o vws, RS s o -> Rwss s ws vws ->
  sim s o (join_func_windows OA eba ebb jts ha ws) (join_func_windows OB eba ebb jts ha vws) (fun s' r v => Rwss s' r v).
Proof.
  induction ws as [|w0_ ws IH]; intros s o vws HS Hw; inversion Hw; subst; cbn [join_func_windows].
  - apply sim_ret; [assumption|constructor].
  - match goal with H : Forall2 _ ws _ |- _ => destruct H as [|w1_ vw1 ws' vws' Hw1 Hws'] end;
      [apply sim_ret; [assumption|constructor]|].
    assert (Hrest : Rwss s (w1_ :: ws') (vw1 :: vws')) by (constructor; assumption).
    sbind2 sim_window_binding as je binding vje vbinding Hje Hbinding.
    eapply sim_bind with (R := fun s' r v => Rws s' r v).
    { destruct Hbinding as [|h vh tlb vtlb Hh Htl]; [apply sim_ret; [assumption|constructor]|].
      eapply sim_bind; [eapply sim_mapM_M; eauto|snext as tl' vtl' Htl'].
      { close_f. unf. eapply sim_mux; eauto. eapply Rw_wF; eauto. }
      apply sim_ret; [assumption|]. constructor; assumption. }
    snext as bd vbd Hbd. eapply sim_bind; [eapply IH; eauto|snext as rest vrest Hrst].
    apply sim_ret; [assumption|]. constructor; assumption.
Qed.

Lemma sim_lower_stmts ss : forall s o E EB, RS s o -> RE s E EB ->
  sim s o (lower_stmts sA ss E) (lower_stmts sB ss EB) (fun s' r v => RE s' r v).
Proof.
  induction ss as [|st ss IH]; intros s o E EB HS HE; cbn [lower_stmts].
  - apply sim_ret; assumption.
  - scall Hs as w E1 vw EB1 Hw HE1. eapply IH; eauto.
Qed.

Lemma sim_join_loop_windows pat body eba ebb jts ws : forall s o vws E EB, RS s o -> Rwss s ws vws -> RE s E EB ->
  sim s o (join_loop_windows OA pA sA pat body eba ebb jts ws E) (join_loop_windows OB pB sB pat body eba ebb jts vws EB)
    (fun s' r v => RE s' r v).
Proof.
  induction ws as [|w0_ ws IH]; intros s o vws E EB HS Hw HE; inversion Hw; subst; cbn [join_loop_windows].
  - apply sim_ret; assumption.
  - match goal with H : Forall2 _ ws _ |- _ => destruct H as [|w1_ vw1 ws' vws' Hw1 Hws'] end;
      [apply sim_ret; assumption|].
    assert (Hrest : Rwss s (w1_ :: ws') (vw1 :: vws')) by (constructor; assumption).
    sbind2 sim_window_binding as je binding vje vbinding Hje Hbinding.
    unf. sbindn sim_peek as Pb ob HPb.
    eapply sim_bind; [eapply Hp; eauto; apply rel_env_push; assumption|].
    snext as p q HR. destruct p as [im Ej], q as [vim EBj]. unfold RresP in HR. cbn [fst snd] in HR. destruct HR as [Him HEj].
    sbindn sim_lower_stmts as Ej2 EBj2 HEj2. sbindn sim_env_pop as Ej3 EBj3 HEj3.
    sbindn sim_replace as Pj oj HPj. sbindn sim_mux_envs as E' EB' HE'. sbindn sim_mux_panic as Pm om HPm.
    sbindn sim_replace as Pu ou HPu. eapply IH; eauto.
Qed.

Lemma sim_slice s o v vv a n : RS s o -> Rws s v vv ->
  sim s o (lift_res (slice v a n)) (lift_res (slice vv a n)) (fun s' r w => Rws s' r w).
Proof. intros. slift (@rel_slice WA WB). Qed.

Lemma sim_for_iterations pat body eb n : forall s o aw vaw E EB, RS s o -> Rws s aw vaw -> RE s E EB ->
  sim s o (for_iterations pA sA pat body eb n aw E) (for_iterations pB sB pat body eb n vaw EB) (fun s' r v => RE s' r v).
Proof.
  induction n as [|n IH]; intros s o aw vaw E EB HS Ha HE; cbn [for_iterations]; [apply sim_ret; assumption|].
  sbindn sim_slice as binding vbinding Hbinding.
  eapply sim_bind; [eapply Hp; eauto; apply rel_env_push; assumption|].
  snext as p q HR. destruct p as [im Ea], q as [vim EBa]. unfold RresP in HR. cbn [fst snd] in HR. destruct HR as [Him HEa].
  sbindn sim_lower_stmts as Eb EBb HEb. sbindn sim_env_pop as Ec EBc HEc.
  eapply IH; eauto. apply F2_skipn. assumption.
Qed.

(* ---- assignment through accessors *)

Definition Racc (s : SA) (a : @acc_item WA) (b : @acc_item WB) : Prop :=
  match a, b with
  | (ba, xa, na, ia), (bb, xb, nb, ib) =>
      Rws s ba bb /\ xa = xb /\ na = nb /\
      match ia, ib with
      | Some wa, Some wb => Rws s wa wb
      | None, None => True
      | _, _ => False
      end
  end.

Lemma Racc_mono s s' a b : extS s s' -> okS s -> Racc s a b -> Racc s' a b.
Proof.
  intros E Hi. destruct a as [[[ba xa] na] ia], b as [[[bb xb] nb] ib]. cbn. intros (H1 & H2 & H3 & H4).
  split; [eapply Rws_mono; eauto|]. split; [assumption|]. split; [assumption|].
  destruct ia, ib; auto. eapply Rws_mono; eauto.
Qed.

Lemma Raccs_mono s s' l l' : extS s s' -> okS s -> Forall2 (Racc s) l l' -> Forall2 (Racc s') l l'.
Proof. intros E Hi. apply F2_impl'. intros. eapply Racc_mono; eauto. Qed.

Lemma sim_pure_eq {X} s o (r : res X) : RS s o ->
  sim s o (lift_res r) (lift_res r) (fun _ a b => a = b).
Proof. intro HS. apply sim_lift; [assumption|]. intros y E. eauto. Qed.

Lemma sim_assign_indexes m accs : forall s o E EB acc vacc, RS s o -> RE s E EB -> Rwss s acc vacc ->
  sim s o (assign_indexes OA P eA m accs E acc) (assign_indexes OB P eB m accs EB vacc)
    (fun s' r v => Rwss s' (fst r) (fst v) /\ RE s' (snd r) (snd v)).
Proof.
  induction accs as [|a accs IH]; intros s o E EB acc vacc HS HE Hacc; cbn [assign_indexes].
  - apply sim_ret; [assumption|]. split; [apply F2_rev; assumption|assumption].
  - destruct a as [arr_ty idx|tup_ty i|st_ty fld]; try (eapply IH; eauto).
    eapply sim_bind; [apply sim_pure_eq; assumption|]. snext as pa pb Hpq. subst pb. destruct pa as [eb0 num].
    scall He as iw E1 viw EB1 Hiw HE1. sbindn sim_m_extend as iw' viw' Hiw'.
    sbindn sim_bounds_check as u vu Hu. eapply IH; eauto. constructor; assumption.
Qed.

Lemma sim_assign_forward accs : forall s o coll vcoll idxs vidxs acc vacc, RS s o -> Rws s coll vcoll ->
  Rwss s idxs vidxs -> Forall2 (Racc s) acc vacc ->
  sim s o (assign_forward OA P accs coll idxs acc) (assign_forward OB P accs vcoll vidxs vacc)
    (fun s' r v => Forall2 (Racc s') r v).
Proof.
  induction accs as [|a accs IH]; intros s o coll vcoll idxs vidxs acc vacc HS Hc Hidx Hacc; cbn [assign_forward].
  - apply sim_ret; assumption.
  - pose proof (RS_ok _ _ _ HS) as Hi0. destruct a as [arr_ty idx|tup_ty i|st_ty fld].
    + eapply sim_bind; [apply sim_pure_eq; assumption|]. intros s1 o1 p q He1 HS1 Hpq. cbn beta in Hpq. subst q. destruct p as [eb num].
      pose proof (Raccs_mono _ _ _ _ He1 Hi0 Hacc) as Hacc1. lift_to He1. clear HS Hacc Hi0.
      pose proof (RS_ok _ _ _ HS1) as Hi1.
      destruct Hidx as [|iw viw ir vir Hiw Hir]; [apply sim_crash|].
      eapply sim_bind; [eapply sim_index_layers; eauto; apply F2_rev; assumption|].
      intros s2 o2 arr' varr' He2 HS2 Harr'. cbn beta in Harr'.
      pose proof (Raccs_mono _ _ _ _ He2 Hi1 Hacc1) as Hacc2. lift_to He2. clear HS1 Hacc1 Hi1.
      eapply IH; eauto.
      * destruct Harr'; [apply Rws_repeat; eapply Rw_wF; eauto|constructor; assumption].
      * constructor; [|assumption]. cbn. auto.
    + eapply sim_bind; [apply sim_pure_eq; assumption|]. intros s1 o1 p q He1 HS1 Hpq. cbn beta in Hpq. subst q. destruct p as [wb wi].
      pose proof (Raccs_mono _ _ _ _ He1 Hi0 Hacc) as Hacc1. lift_to He1. clear HS Hacc Hi0.
      pose proof (RS_ok _ _ _ HS1) as Hi1.
      eapply sim_bind; [eapply sim_slice; eauto|]. intros s2 o2 coll' vcoll' He2 HS2 Hcoll'. cbn beta in Hcoll'.
      pose proof (Raccs_mono _ _ _ _ He2 Hi1 Hacc1) as Hacc2. lift_to He2. clear HS1 Hacc1 Hi1.
      eapply IH; eauto. constructor; [|assumption]. cbn. auto.
    + eapply sim_bind; [apply sim_pure_eq; assumption|]. intros s1 o1 p q He1 HS1 Hpq. cbn beta in Hpq. subst q. destruct p as [wb wi].
      pose proof (Raccs_mono _ _ _ _ He1 Hi0 Hacc) as Hacc1. lift_to He1. clear HS Hacc Hi0.
      pose proof (RS_ok _ _ _ HS1) as Hi1.
      eapply sim_bind; [eapply sim_slice; eauto|]. intros s2 o2 coll' vcoll' He2 HS2 Hcoll'. cbn beta in Hcoll'.
      pose proof (Raccs_mono _ _ _ _ He2 Hi1 Hacc1) as Hacc2. lift_to He2. clear HS1 Hacc1 Hi1.
      eapply IH; eauto. constructor; [|assumption]. cbn. auto.
Qed.

Lemma sim_assign_backward m acc : forall s o vacc value vvalue, RS s o -> Forall2 (Racc s) acc vacc -> Rws s value vvalue ->
  sim s o (assign_backward OA m acc value) (assign_backward OB m vacc vvalue) (fun s' r v => Rws s' r v).
Proof.
  induction acc as [|a acc IH]; intros s o vacc value vvalue HS Hacc Hv; inversion Hacc; subst; cbn [assign_backward].
  - apply sim_ret; assumption.
  - pose proof (RS_ok _ _ _ HS) as Hi0.
    destruct a as [[[ba xa] na] ia], y as [[[bb xb] nb] ib].
    match goal with H : Racc _ _ _ |- _ => cbn in H; destruct H as (Hb1 & <- & <- & Hix) end.
    match goal with H : Forall2 (Racc s) acc _ |- _ => rename H into Hrest end.
    destruct ia as [iw|], ib as [viw|]; try contradiction.
    + eapply sim_bind; [eapply sim_array_write; eauto|]. intros s1 o1 v' vv' He1 HS1 Hv'. cbn beta in Hv'.
      pose proof (Raccs_mono _ _ _ _ He1 Hi0 Hrest) as Hrest1. eapply IH; eauto.
    + eapply sim_bind with (R := fun s' r v => Rws s' r v).
      { apply sim_lift; [assumption|]. intros y E. eapply rel_splice; eauto. }
      intros s1 o1 v' vv' He1 HS1 Hv'. cbn beta in Hv'.
      pose proof (Raccs_mono _ _ _ _ He1 Hi0 Hrest) as Hrest1. eapply IH; eauto.
Qed.

(* ---- patterns *)

Lemma sim_fields_match ps : forall s o mw vmw w im vim E EB, RS s o -> Rws s mw vmw -> Rw s im vim -> RE s E EB ->
  sim s o (fields_match OA pA mw ps w im E) (fields_match OB pB vmw ps w vim EB) RresP.
Proof.
  induction ps as [|[fp fbits] ps IH]; intros s o mw vmw w im vim E EB HS Hmw Him HE; cbn [fields_match].
  - apply sim_ret; [assumption|]. split; assumption.
  - sbindn sim_slice as sub vsub Hsub.
    eapply sim_bind; [eapply Hp; eauto|].
    snext as p q HR. destruct p as [fm E1], q as [vfm EB1]. unfold RresP in HR. cbn [fst snd] in HR. destruct HR as [Hfm HE1].
    unf. sbindn sim_and as im' vim' Him'. eapply IH; eauto.
Qed.

Lemma sim_struct_match fields ds : forall s o mw vmw w im vim E EB, RS s o -> Rws s mw vmw -> Rw s im vim -> RE s E EB ->
  sim s o (struct_match OA P pA mw fields ds w im E) (struct_match OB P pB vmw fields ds w vim EB) RresP.
Proof.
  induction ds as [|[fname fty] ds IH]; intros s o mw vmw w im vim E EB HS Hmw Him HE; cbn [struct_match].
  - apply sim_ret; [assumption|]. split; assumption.
  - destruct (assocN fname (rev fields)) as [fp|]; [|eapply IH; eauto].
    sbindn sim_slice as sub vsub Hsub.
    eapply sim_bind; [eapply Hp; eauto|].
    snext as p q HR. destruct p as [fm E1], q as [vfm EB1]. unfold RresP in HR. cbn [fst snd] in HR. destruct HR as [Hfm HE1].
    unf. sbindn sim_and as im' vim' Him'. eapply IH; eauto.
Qed.

Lemma sim_block_stmts ss : forall s o last vlast E EB, RS s o -> Rws s last vlast -> RE s E EB ->
  sim s o (block_stmts sA ss last E) (block_stmts sB ss vlast EB) Rres.
Proof.
  induction ss as [|st ss IH]; intros s o last vlast E EB HS Hl HE; cbn [block_stmts].
  - apply sim_ret; [assumption|]. split; assumption.
  - scall Hs as w E1 vw EB1 Hw HE1. eapply IH; eauto.
Qed.


(* ------------------------------------------------------------------ the four bodies *)

Lemma sim_env_let s o E EB x v vv : RS s o -> RE s E EB -> Rws s v vv ->
  sim s o (lift_res (env_let E x v)) (lift_res (env_let EB x vv)) (fun s' r w => RE s' r w).
Proof. intros. slift rel_env_let. Qed.

Lemma sim_lower_block_body ss s o E EB : RS s o -> RE s E EB ->
  sim s o (lower_block_body sA ss E) (lower_block_body sB ss EB) Rres.
Proof.
  intros HS HE. unfold lower_block_body.
  eapply sim_bind; [eapply sim_block_stmts; eauto; [constructor|apply rel_env_push; assumption]|].
  snext as p q HR. destruct p as [w E1], q as [vw EB1]. unfold Rres in HR. cbn [fst snd] in HR. destruct HR as [Hw HE1].
  sbindn sim_env_pop as E2 EB2 HE2. apply sim_ret; [assumption|]. split; assumption.
Qed.

Lemma sim_lower_pattern_body p s o mw vmw E EB : RS s o -> Rws s mw vmw -> RE s E EB ->
  sim s o (lower_pattern_body OA P pA p mw E) (lower_pattern_body OB P pB p vmw EB) RresP.
Proof.
  intros HS Hmw HE. destruct p as [pi pm t]. cbn [lower_pattern_body].
  assert (Hrange : forall lo vlo hi vhi, Rws s lo vlo -> Rws s hi vhi ->
    sim s o
      (mbind (o_comparator OA (szn P t) mw (is_signed t) lo (is_signed t)) (fun '(lt_min, _) =>
       mbind (o_comparator OA (szn P t) mw (is_signed t) hi (is_signed t)) (fun '(_, gt_max) =>
       mbind (m_not OA lt_min) (fun a => mbind (m_not OA gt_max) (fun c =>
       mbind (m_and OA a c) (fun r => ret (r, E)))))))
      (mbind (o_comparator OB (szn P t) vmw (is_signed t) vlo (is_signed t)) (fun '(lt_min, _) =>
       mbind (o_comparator OB (szn P t) vmw (is_signed t) vhi (is_signed t)) (fun '(_, gt_max) =>
       mbind (m_not OB lt_min) (fun a => mbind (m_not OB gt_max) (fun c =>
       mbind (m_and OB a c) (fun r => ret (r, EB))))))) RresP).
  { intros lo vlo hi vhi Hlo Hhi.
    sbind2 sim_comparator as lt1 gt1 vlt1 vgt1 Hlt1 Hgt1. sbind2 sim_comparator as lt2 gt2 vlt2 vgt2 Hlt2 Hgt2.
    unf. sbindn sim_not as a va Ha. sbindn sim_not as c vc Hc. sbindn sim_and as r vr Hr.
    apply sim_ret; [assumption|]. split; assumption. }
  assert (Heq : forall n vn, Rws s n vn ->
    sim s o
      (if (length mw <? szn P t)%nat then crash else mbind (eq_acc OA (wT OA) (combine n (firstn (szn P t) mw))) (fun acc => ret (acc, E)))
      (if (length vmw <? szn P t)%nat then crash else mbind (eq_acc OB (wT OB) (combine vn (firstn (szn P t) vmw))) (fun acc => ret (acc, EB)))
      RresP).
  { intros n vn Hn. rewrite (Rws_length _ _ _ _ Hmw). destruct (_ <? _)%nat; [apply sim_crash|].
    eapply sim_bind; [eapply sim_eq_acc; eauto; [eapply Rw_wT; eauto|apply Rpairs_combine; [assumption|apply F2_firstn; assumption]]|].
    snext as acc vacc Hacc. apply sim_ret; [assumption|]. split; assumption. }
  destruct pi as [x| | |n|z|ps|name ir fields|ename variant|ename variant ps|lo hi|lo hi].
  - sbindn sim_env_let as E1 EB1 HE1. apply sim_ret; [assumption|]. split; [eapply Rw_wT; eauto|assumption].
  - sbindn sim_one_wire as w vw Hw. apply sim_ret; [assumption|]. split; assumption.
  - sbindn sim_one_wire as w vw Hw. unf. sbindn sim_not as n vn Hn. apply sim_ret; [assumption|]. split; assumption.
  - apply Heq. eapply Rws_unsigned; eauto.
  - apply Heq. eapply Rws_signed; eauto.
  - eapply sim_fields_match; eauto. eapply Rw_wT; eauto.
  - destruct (assocN name (p_structs P)) as [def|]; [|apply sim_crash].
    eapply sim_struct_match; eauto. eapply Rw_wT; eauto.
  - destruct (assocN ename (p_enums P)) as [variants|]; [|apply sim_crash].
    sbindn sim_slice as ta vta Hta.
    eapply sim_bind; [eapply sim_eq_acc; eauto; [eapply Rw_wT; eauto|apply Rpairs_combine; [eapply Rws_unsigned; eauto|assumption]]|].
    snext as im vim Him. apply sim_ret; [assumption|]. split; assumption.
  - destruct (assocN ename (p_enums P)) as [variants|]; [|apply sim_crash].
    sbindn sim_slice as ta vta Hta.
    eapply sim_bind; [eapply sim_eq_acc; eauto; [eapply Rw_wT; eauto|apply Rpairs_combine; [eapply Rws_unsigned; eauto|assumption]]|].
    snext as im vim Him. destruct (nthN variants variant) as [fts|]; [|apply sim_crash].
    eapply sim_fields_match; eauto.
  - apply Hrange; eapply Rws_unsigned; eauto.
  - apply Hrange; eapply Rws_signed; eauto.
Qed.

Lemma sim_env_get s o E EB x : RS s o -> RE s E EB ->
  sim s o (match env_get E x with Some v => ret v | None => crash end)
          (match env_get EB x with Some v => ret v | None => crash end) (fun s' r v => Rws s' r v).
Proof.
  intros HS HE. destruct (env_get EB x) as [vv|] eqn:Eg; [|apply sim_crash].
  destruct (rel_env_get _ _ _ _ _ _ HE Eg) as (v & -> & Hv). apply sim_ret; assumption.
Qed.

Lemma sim_lower_stmt_body st s o E EB : RS s o -> RE s E EB ->
  sim s o (lower_stmt_body OA P eA pA sA st E) (lower_stmt_body OB P eB pB sB st EB) Rres.
Proof.
  intros HS HE. destruct st as [si m]. cbn [lower_stmt_body].
  destruct si as [pat e|name e|name accs e|pat arr body|pat join_ty a b body|e].
  - (* let *)
    scall He as w E1 vw EB1 Hw HE1.
    eapply sim_bind; [eapply Hp; eauto|].
    snext as pa pb HR. destruct pa as [im E2], pb as [vim EB2]. unfold RresP in HR. cbn [fst snd] in HR. destruct HR as [Him HE2].
    apply sim_ret; [assumption|]. split; [constructor|assumption].
  - (* let mut *)
    scall He as w E1 vw EB1 Hw HE1. sbindn sim_env_let as E2 EB2 HE2.
    apply sim_ret; [assumption|]. split; [constructor|assumption].
  - (* assignment *)
    scall He as value E1 vvalue EB1 Hvalue HE1.
    eapply sim_bind; [eapply sim_assign_indexes; eauto; constructor|].
    snext as pa pb HR. destruct pa as [idxs E2], pb as [vidxs EB2]. cbn [fst snd] in HR. destruct HR as [Hidxs HE2].
    sbindn sim_env_get as coll vcoll Hcoll.
    eapply sim_bind; [eapply sim_assign_forward; eauto; constructor|].
    snext as accd vaccd Haccd.
    sbindn sim_assign_backward as value' vvalue' Hvalue'.
    eapply sim_bind with (R := fun s' r v => RE s' r v).
    { apply sim_lift; [assumption|]. intros y Ey. eapply rel_env_assign; eauto. }
    snext as E3 EB3 HE3. apply sim_ret; [assumption|]. split; [constructor|assumption].
  - (* for *)
    eapply sim_bind; [apply sim_pure_eq; assumption|]. snext as pa pb Hpq. subst pb. destruct pa as [eb num].
    scall He as aw E1 vaw EB1 Haw HE1.
    sbindn sim_for_iterations as E2 EB2 HE2. apply sim_ret; [assumption|]. split; [constructor|assumption].
  - (* join loop *)
    eapply sim_bind; [apply sim_pure_eq; assumption|]. snext as pa pb Hpq. subst pb. destruct pa as [eba na].
    eapply sim_bind; [apply sim_pure_eq; assumption|]. snext as pa pb Hpq. subst pb. destruct pa as [ebb nb].
    scall He as aw E1 vaw EB1 Haw HE1. scall He as bw E2 vbw EB2 Hbw HE2.
    eapply sim_bind with (R := fun s' r v => Rwss s' (fst r) (fst v) /\ snd r = snd v).
    { apply sim_lift; [assumption|]. intros y Ey. eapply rel_bitonic_input; eauto. }
    snext as pa pb HR. destruct pa as [bitonic ne], pb as [vbitonic vne]. cbn [fst snd] in HR. destruct HR as [Hbit <-].
    sbindn sim_merger as sorted vsorted Hsorted.
    eapply sim_bind; [eapply sim_join_loop_windows; eauto; apply F2_skipn; assumption|].
    snext as E3 EB3 HE3. apply sim_ret; [assumption|]. split; [constructor|assumption].
  - (* expression statement *)
    eapply He; eauto.
Qed.

Lemma Rws_concat s l vl : Rwss s l vl -> Rws s (concat l) (concat vl).
Proof. apply F2_concat. Qed.

Lemma sim_lower_expr_body e s o E EB : RS s o -> RE s E EB ->
  sim s o (lower_expr_body OA P eA pA bA e E) (lower_expr_body OB P eB pB bB e EB) Rres.
Proof.
  intros HS HE. destruct e as [ei m t]. cbn [lower_expr_body].
  destruct ei as [ | |n lb|z lb|name|es|e1 n|a i|es|e1 i|e1 fld|name fields|ename variant args|scrut arms|e1|e1|bop x y|stmts|f args|join_ty has_assoc a b|c tb fb|to e1|lo hi bits].
  - apply sim_ret; [assumption|]. split; [constructor; [eapply Rw_wT; eauto|constructor]|assumption].
  - apply sim_ret; [assumption|]. split; [constructor; [eapply Rw_wF; eauto|constructor]|assumption].
  - apply sim_ret; [assumption|]. split; [eapply Rws_unsigned; eauto|assumption].
  - apply sim_ret; [assumption|]. split; [eapply Rws_signed; eauto|assumption].
  - (* identifier *)
    destruct (env_get EB name) as [vv|] eqn:Eg; [|apply sim_crash].
    destruct (rel_env_get _ _ _ _ _ _ HE Eg) as (v & -> & Hv). apply sim_ret; [assumption|]. split; assumption.
  - (* array literal *)
    eapply sim_bind; [eapply sim_lower_list; eauto|]. snext as pa pb HR. destruct pa as [ws E1], pb as [vws EB1].
    cbn [fst snd] in HR. destruct HR as [Hws HE1]. apply sim_ret; [assumption|]. split; [apply Rws_concat; assumption|assumption].
  - (* array repeat *)
    scall He as w E1 vw EB1 Hw HE1. sbindn sim_m_extend as w' vw' Hw'.
    apply sim_ret; [assumption|]. split; [|assumption]. apply Rws_concat. apply F2_repeat. assumption.
  - (* index *)
    eapply sim_bind; [apply sim_pure_eq; assumption|]. snext as pa pb Hpq. subst pb. destruct pa as [eb0 num].
    scall He as arr E1 varr EB1 Harr HE1. scall He as idx E2 vidx EB2 Hidx HE2.
    sbind2 sim_array_read as r iw vr viw Hr Hiw. apply sim_ret; [assumption|]. split; assumption.
  - (* tuple literal *)
    eapply sim_bind; [eapply sim_lower_list; eauto|]. snext as pa pb HR. destruct pa as [ws E1], pb as [vws EB1].
    cbn [fst snd] in HR. destruct HR as [Hws HE1]. apply sim_ret; [assumption|]. split; [apply Rws_concat; assumption|assumption].
  - (* tuple access *)
    eapply sim_bind; [apply sim_pure_eq; assumption|]. snext as pa pb Hpq. subst pb. destruct pa as [wb wi].
    scall He as w E1 vw EB1 Hw HE1. sbindn sim_slice as r vr Hr. apply sim_ret; [assumption|]. split; assumption.
  - (* field access *)
    destruct (e_ty e1) as [| | | |name|]; try apply sim_crash.
    scall He as w E1 vw EB1 Hw HE1.
    eapply sim_bind; [apply sim_pure_eq; assumption|]. snext as pa pb Hpq. subst pb. destruct pa as [wb wi].
    sbindn sim_slice as r vr Hr. apply sim_ret; [assumption|]. split; assumption.
  - (* struct literal *)
    destruct (assocN name (p_structs P)) as [def|]; [|apply sim_crash].
    eapply sim_bind; [eapply sim_lower_struct_fields; eauto|]. snext as pa pb HR. destruct pa as [ws E1], pb as [vws EB1].
    cbn [fst snd] in HR. destruct HR as [Hws HE1]. apply sim_ret; [assumption|]. split; [apply Rws_concat; assumption|assumption].
  - (* enum literal *)
    destruct (assocN ename (p_enums P)) as [variants|]; [|apply sim_crash].
    eapply sim_bind; [eapply sim_lower_list; eauto|]. snext as pa pb HR. destruct pa as [ws E1], pb as [vws EB1].
    cbn [fst snd] in HR. destruct HR as [Hws HE1].
    pose proof (Rws_concat _ _ _ Hws) as Hpl. rewrite (Rws_length _ _ _ _ Hpl).
    destruct (_ <=? _)%nat; [|apply sim_crash]. apply sim_ret; [assumption|]. split; [|assumption].
    apply F2_app; [eapply Rws_unsigned; eauto|]. apply F2_app; [assumption|]. apply Rws_repeat. eapply Rw_wF; eauto.
  - (* match *)
    scall He as sw E0 vsw EB0 Hsw HE0. unf. sbindn sim_peek as P0 obs0 HP0.
    eapply sim_bind; [eapply sim_lower_arms; eauto; [eapply Rw_wF; eauto|apply Rws_repeat; eapply Rw_wF; eauto]|].
    snext as pa pb HR. destruct pa as [[[rw mp] menv] hp], pb as [[[vrw vmp] vmenv] vhp]. cbn [fst snd] in HR.
    destruct HR as (Hrw & Hmp & Hmenv).
    sbindn sim_replace as Pu ou HPu. apply sim_ret; [assumption|]. split; assumption.
  - (* neg *)
    scall He as x E1 vx EB1 Hx HE1. sbindn sim_negation as neg vneg Hneg.
    sbindn sim_hd_res as x0 vx0 Hx0. sbindn sim_hd_res as n0 vn0 Hn0. unf. sbindn sim_and as ov vov Hov.
    sbindn sim_panic_if as u vu Hu. apply sim_ret; [assumption|]. split; assumption.
  - (* not *)
    scall He as x E1 vx EB1 Hx HE1.
    eapply sim_bind; [eapply sim_mapM_M; eauto; intros; unf; eapply sim_not; eauto|].
    snext as r vr Hr. apply sim_ret; [assumption|]. split; assumption.
  - (* binary operators *)
    assert (Hgen : forall o0,
      sim s o
        (match (match o0 with OMul => mul_rewrite x y m t | _ => None end) with
         | Some (operand, e') =>
             mbind (eA operand E) (fun '(w, E1) => mbind (lift_res (env_let (env_push E1) MUL_TMP w)) (fun E2 =>
             mbind (eA e' E2) (fun '(r, E3) => mbind (lift_res (env_pop E3)) (fun E4 => ret (r, E4)))))
         | None => mbind (eA x E) (fun '(xw, E1) => mbind (eA y E1) (fun '(yw, E2) =>
                   mbind (lower_binop OA o0 t (e_ty x) (e_ty y) xw yw m) (fun r => ret (r, E2))))
         end)
        (match (match o0 with OMul => mul_rewrite x y m t | _ => None end) with
         | Some (operand, e') =>
             mbind (eB operand EB) (fun '(w, E1) => mbind (lift_res (env_let (env_push E1) MUL_TMP w)) (fun E2 =>
             mbind (eB e' E2) (fun '(r, E3) => mbind (lift_res (env_pop E3)) (fun E4 => ret (r, E4)))))
         | None => mbind (eB x EB) (fun '(xw, E1) => mbind (eB y E1) (fun '(yw, E2) =>
                   mbind (lower_binop OB o0 t (e_ty x) (e_ty y) xw yw m) (fun r => ret (r, E2))))
         end) Rres).
    { intro o0. destruct (match o0 with OMul => mul_rewrite x y m t | _ => None end) as [[operand e']|].
      { scall He as w E1 vw EB1 Hw HE1.
        eapply sim_bind with (R := fun s' r v => RE s' r v).
        { apply sim_lift; [assumption|]. intros yb Eb. eapply rel_env_let; eauto. apply rel_env_push. assumption. }
        snext as E2 EB2 HE2. scall He as r E3 vr EB3 Hr HE3. sbindn sim_env_pop as E4 EB4 HE4.
        apply sim_ret; [assumption|]. split; assumption. }
      scall He as xw E1 vxw EB1 Hxw HE1. scall He as yw E2 vyw EB2 Hyw HE2.
      sbindn sim_lower_binop as r vr Hr. apply sim_ret; [assumption|]. split; assumption. }
    assert (Hsh : forall left,
      sim s o
        (mbind (eA x E) (fun '(xw, E1) => mbind (eA y E1) (fun '(yw, E2) =>
         mbind (lower_shift OA left (is_signed (e_ty x)) xw yw m) (fun r => ret (r, E2)))))
        (mbind (eB x EB) (fun '(xw, E1) => mbind (eB y E1) (fun '(yw, E2) =>
         mbind (lower_shift OB left (is_signed (e_ty x)) xw yw m) (fun r => ret (r, E2))))) Rres).
    { intro left. scall He as xw E1 vxw EB1 Hxw HE1. scall He as yw E2 vyw EB2 Hyw HE2.
      sbindn sim_lower_shift as r vr Hr. apply sim_ret; [assumption|]. split; assumption. }
    destruct bop;
      try (match goal with |- context [lower_binop OA ?oo] => exact (Hgen oo) end);
      try (match goal with |- context [lower_shift OA ?l] => exact (Hsh l) end).
    + (* && *)
      scall He as xw E1 vxw EB1 Hxw HE1. sbindn sim_one_wire as x0 vx0 Hx0. unf. sbindn sim_peek as Pb ob HPb.
      scall He as yw E2 vyw EB2 Hyw HE2. sbindn sim_one_wire as y0 vy0 Hy0.
      sbindn sim_mux_envs as E3 EB3 HE3. sbindn sim_peek as Pa oa HPa.
      sbindn sim_mux_panic as Pm om HPm. sbindn sim_replace as Pu ou HPu. sbindn sim_and as r vr Hr.
      apply sim_ret; [assumption|]. split; [constructor; [assumption|constructor]|assumption].
    + (* || *)
      scall He as xw E1 vxw EB1 Hxw HE1. sbindn sim_one_wire as x0 vx0 Hx0. unf. sbindn sim_peek as Pb ob HPb.
      scall He as yw E2 vyw EB2 Hyw HE2. sbindn sim_one_wire as y0 vy0 Hy0.
      sbindn sim_mux_envs as E3 EB3 HE3. sbindn sim_peek as Pa oa HPa.
      sbindn sim_mux_panic as Pm om HPm. sbindn sim_replace as Pu ou HPu. sbindn sim_or as r vr Hr.
      apply sim_ret; [assumption|]. split; [constructor; [assumption|constructor]|assumption].
  - (* block *)
    eapply Hb; eauto.
  - (* call *)
    destruct (find_fn P f) as [fd|]; [|apply sim_crash].
    eapply sim_bind; [eapply sim_lower_args; eauto|]. snext as pa pb HR. destruct pa as [bindings E1], pb as [vbindings EB1].
    cbn [fst snd] in HR. destruct HR as [Hbind HE1].
    pose proof (F2_rev _ _ _ HE1) as Hrev.
    destruct Hrev as [|glob vglob crev vcrev Hglob Hcrev]; [apply sim_crash|].
    eapply sim_bind with (R := fun s' r v => RE s' r v).
    { apply sim_lift; [assumption|]. intros yb Eb. eapply rel_bind_all; eauto.
      apply rel_env_push. constructor; [assumption|constructor]. }
    match goal with |- forall s1 o1 x y, extS ?sc s1 -> _ => match goal with HSc : ParamBase.RS _ sc _ |- _ => rename HSc into HScur end end.
    pose proof (RS_ok _ _ _ HScur) as Hic.
    intros sX oX Ecallee vEcallee HeX HSX HEc. cbn beta in HEc.
    assert (HcrevX : Forall2 (Rscope sX) crev vcrev).
    { eapply F2_impl'; [|exact Hcrev]. intros a b Hab. eapply Rscope_mono; eauto. }
    clear Hcrev. lift_to HeX. clear HScur Hic.
    pose proof (RS_ok _ _ _ HSX) as HiX.
    eapply sim_bind; [eapply Hb; eauto|]. intros sY oY [body E2] [vbody EB2] HeY HSY [Hbody HE2]. cbn [fst snd] in Hbody, HE2.
    assert (HcrevY : Forall2 (Rscope sY) crev vcrev).
    { eapply F2_impl'; [|exact HcrevX]. intros a b Hab. eapply Rscope_mono; eauto. }
    clear HcrevX. lift_to HeY. clear HSX HiX.
    pose proof (RS_ok _ _ _ HSY) as HiY.
    eapply sim_bind; [eapply sim_env_pop; eauto|]. intros sZ oZ E3 EB3 HeZ HSZ HE3. cbn beta in HE3.
    assert (HcrevZ : Forall2 (Rscope sZ) crev vcrev).
    { eapply F2_impl'; [|exact HcrevY]. intros a b Hab. eapply Rscope_mono; eauto. }
    lift_to HeZ.
    apply sim_ret; [assumption|]. split; [assumption|]. cbn [snd]. apply F2_app; [apply F2_rev; assumption|assumption].
  - (* join *)
    eapply sim_bind; [apply sim_pure_eq; assumption|]. snext as pa pb Hpq. subst pb. destruct pa as [eba na].
    eapply sim_bind; [apply sim_pure_eq; assumption|]. snext as pa pb Hpq. subst pb. destruct pa as [ebb nb].
    scall He as aw E1 vaw EB1 Haw HE1. scall He as bw E2 vbw EB2 Hbw HE2.
    eapply sim_bind with (R := fun s' r v => Rwss s' (fst r) (fst v) /\ snd r = snd v).
    { apply sim_lift; [assumption|]. intros yb Ey. eapply rel_bitonic_input; eauto. }
    snext as pa pb HR. destruct pa as [bitonic ne], pb as [vbitonic vne]. cbn [fst snd] in HR. destruct HR as [Hbit <-].
    sbindn sim_merger as sorted vsorted Hsorted.
    eapply sim_bind; [eapply sim_join_func_windows; eauto; apply F2_skipn; assumption|].
    snext as joined vjoined Hjoined. sbindn sim_sorter as joined2 vjoined2 Hjoined2.
    apply sim_ret; [assumption|]. split; [apply Rws_concat; assumption|assumption].
  - (* if *)
    scall He as cw E0 vcw EB0 Hcw HE0. unf. sbindn sim_peek as P0 obs0 HP0. sbindn sim_one_wire as c0 vc0 Hc0.
    scall He as tw ET vtw EBT Htw HET. sbindn sim_replace as PT oT HPT.
    scall He as fw EF vfw EBF Hfw HEF. sbindn sim_replace as PF oF HPF.
    sbindn sim_mux_envs as E' EB' HE'. sbindn sim_mux_panic as Pm om HPm. sbindn sim_replace as Pu ou HPu.
    sbindn sim_mux_bits as r vr Hr. apply sim_ret; [assumption|]. split; assumption.
  - (* cast *)
    scall He as w E1 vw EB1 Hw HE1. rewrite (Rws_length _ _ _ _ Hw).
    destruct (_ =? _)%nat; [apply sim_ret; [assumption|split; assumption]|].
    destruct (_ <? _)%nat.
    + apply sim_ret; [assumption|]. split; [|assumption]. unfold Extend.cast_truncate.
      rewrite (Rws_length _ _ _ _ Hw). apply F2_skipn. assumption.
    + sbindn sim_m_extend as w' vw' Hw'. apply sim_ret; [assumption|]. split; assumption.
  - (* range *)
    destruct (hi <? lo); [apply sim_crash|]. apply sim_ret; [assumption|]. split; [|assumption].
    apply Rws_concat. apply F2_map_same. intro k. eapply Rws_unsigned; eauto.
Qed.

End Rec.

(* ------------------------------------------------------------------ the induction on fuel *)

Section Fuel.
Context {WA WB SA SB PA PB : Type} {OA : ops WA SA PA} {OB : ops WB SB PB}.
Variable PR : param_rel OA OB.

Notation Rw := (Rw PR).
Notation Rws := (Rws PR).
Notation RS := (RS PR).
Notation RE := (RE PR).
Notation Rbind := (Rbind PR).
Notation sim := (sim PR).
Notation Rres := (Rres PR).
Notation RresP := (RresP PR).

(* PARAMETRICITY OF THE LOWERING: related operation sets give related runs, for every
   program, every fuel and all four fixpoints. *)
Theorem lower_param P fuel :
  (forall e s o E EB, RS s o -> RE s E EB ->
     sim s o (lower_expr OA fuel P e E) (lower_expr OB fuel P e EB) Rres) /\
  (forall p s o mw vmw E EB, RS s o -> Rws s mw vmw -> RE s E EB ->
     sim s o (lower_pattern OA fuel P p mw E) (lower_pattern OB fuel P p vmw EB) RresP) /\
  (forall st s o E EB, RS s o -> RE s E EB ->
     sim s o (lower_stmt OA fuel P st E) (lower_stmt OB fuel P st EB) Rres) /\
  (forall ss s o E EB, RS s o -> RE s E EB ->
     sim s o (lower_block OA fuel P ss E) (lower_block OB fuel P ss EB) Rres).
Proof.
  induction fuel as [|f (IHe & IHp & IHs & IHb)].
  - repeat split; intros; cbn [lower_expr lower_pattern lower_stmt lower_block]; apply sim_nofuel.
  - split; [|split; [|split]]; intros; cbn [lower_expr lower_pattern lower_stmt lower_block].
    + eapply sim_lower_expr_body; eauto.
    + eapply sim_lower_pattern_body; eauto.
    + eapply sim_lower_stmt_body; eauto.
    + eapply sim_lower_block_body; eauto.
Qed.

(* ---- the initial environments *)

Lemma rel_const_wires s o e y : RS s o -> const_wires OB e = Ok y ->
  exists x, const_wires OA e = Ok x /\ Rws s x y.
Proof.
  intros HS E. destruct e as [ei m t]. destruct ei; cbn [const_wires] in *; try discriminate; injection E as <-;
    eexists; (split; [reflexivity|]).
  - constructor; [eapply Rw_wT; eauto|constructor].
  - constructor; [eapply Rw_wF; eauto|constructor].
  - eapply Rws_unsigned; eauto.
  - eapply Rws_signed; eauto.
Qed.

Lemma rel_global_scope s o P y : RS s o -> global_scope OB P = Ok y ->
  exists x, global_scope OA P = Ok x /\ RE s x y.
Proof.
  intro HS. unfold global_scope.
  assert (G : forall cs (rA : res (@cenv WA)) (rB : res (@cenv WB)) y,
             (forall yb, rB = Ok yb -> exists xa, rA = Ok xa /\ RE s xa yb) ->
             fold_left (fun Er '(x, e) => let* E := Er in let* w := const_wires OB e in env_let E x w) cs rB = Ok y ->
             exists x, fold_left (fun Er '(x, e) => let* E := Er in let* w := const_wires OA e in env_let E x w) cs rA = Ok x
                       /\ RE s x y).
  { induction cs as [|[x e] cs IH]; intros rA rB y0 Hr E; cbn [fold_left] in *; [apply Hr; exact E|].
    eapply IH; [|exact E]. intros yb Eb. destruct rB as [eb| |]; cbn [bind] in Eb; try discriminate.
    destruct (Hr eb eq_refl) as (ea & -> & Hea). cbn [bind].
    destruct (const_wires OB e) as [w| |] eqn:Ew; cbn [bind] in Eb; try discriminate.
    destruct (rel_const_wires _ _ _ _ HS Ew) as (wa & -> & Hwa). cbn [bind]. eapply rel_env_let; eauto. }
  intro E. eapply G; [|exact E]. intros yb [= <-]. eexists. split; [reflexivity|]. constructor; [constructor|constructor].
Qed.

Lemma rel_main_env s o P bs vbs y : RS s o -> Forall2 (Rbind s) bs vbs -> main_env OB P vbs = Ok y ->
  exists x, main_env OA P bs = Ok x /\ RE s x y.
Proof.
  intros HS Hb E. unfold main_env in *.
  destruct (global_scope OB P) as [g| |] eqn:Eg; cbn [bind] in E; try discriminate.
  destruct (rel_global_scope _ _ _ _ HS Eg) as (ga & -> & Hg). cbn [bind].
  eapply (rel_bind_all PR); eauto. apply rel_env_push. assumption.
Qed.

End Fuel.

Print Assumptions lower_param.
Print Assumptions rel_main_env.
