(* The circuit emitted by the model of compile.rs computes, for ALL inputs, the bit-level
   semantics TSem.tsem_program of the source program, with gate de-duplication on or off:
   the induction on fuel over the simulation lemmas of SimLower.v, the initial relation of
   parameters and constants, and build_sound. *)
From GV Require Import Base.Util Base.NMap Lang.Ast Circuit.Ssa Circuit.SsaProofs Builder.Builder Builder.Build Builder.BuilderSem
  Builder.BuilderSpec Builder.BuilderProofs Builder.BuildProofs
  Gadgets.Gadgets Gadgets.GadgetSpec Gadgets.GadgetHoare Sort.Sort Sort.SortHoare
  Panic.PanicRec Panic.PanicSem Panic.PanicProofs Compile.Lower Compile.TSem Compile.SimBase Compile.SimOps
  Compile.SimHelpers Compile.SimLower.

Section Fuel.
Variable inv : builder -> Prop.
Hypothesis ops : builder_ops_sound inv.
Variable inp : list bool.

Notation Rw := (Rw inp).
Notation Rws := (Rws inp).
Notation RS := (RS inv inp).
Notation RE := (RE inp).
Notation sim := (sim inv inp).
Notation Rres := (Rres inp).
Notation RresP := (RresP inp).

Theorem lower_sim P fuel :
  (forall e s o E EB, RS s o -> RE s E EB ->
     sim s o (lower_expr bops fuel P e E) (lower_expr tops fuel P e EB) Rres) /\
  (forall p s o mw vmw E EB, RS s o -> Rws s mw vmw -> RE s E EB ->
     sim s o (lower_pattern bops fuel P p mw E) (lower_pattern tops fuel P p vmw EB) RresP) /\
  (forall st s o E EB, RS s o -> RE s E EB ->
     sim s o (lower_stmt bops fuel P st E) (lower_stmt tops fuel P st EB) Rres) /\
  (forall ss s o E EB, RS s o -> RE s E EB ->
     sim s o (lower_block bops fuel P ss E) (lower_block tops fuel P ss EB) Rres).
Proof.
  induction fuel as [|f (IHe & IHp & IHs & IHb)].
  - repeat split; intros; cbn [lower_expr lower_pattern lower_stmt lower_block]; apply sim_nofuel.
  - split; [|split; [|split]]; intros; cbn [lower_expr lower_pattern lower_stmt lower_block].
    + eapply sim_lower_expr_body; eauto.
    + eapply sim_lower_pattern_body; eauto.
    + eapply sim_lower_stmt_body; eauto.
    + eapply sim_lower_block_body; eauto.
Qed.

(* ---- the initial environments *)

Lemma rel_const_wires s o e y : RS s o -> const_wires tops e = Ok y ->
  exists x, const_wires bops e = Ok x /\ Rws s x y.
Proof.
  intros HS E. destruct e as [ei m t]. destruct ei; cbn [const_wires] in *; try discriminate; injection E as <-;
    eexists; (split; [reflexivity|]).
  - constructor; [eapply Rw_wT; eauto|constructor].
  - constructor; [eapply Rw_wF; eauto|constructor].
  - eapply Rws_unsigned; eauto.
  - eapply Rws_signed; eauto.
Qed.

Lemma rel_global_scope s o P y : RS s o -> global_scope tops P = Ok y ->
  exists x, global_scope bops P = Ok x /\ RE s x y.
Proof.
  intro HS. unfold global_scope.
  assert (G : forall cs (rA : res (@cenv N)) (rB : res (@cenv bool)) y,
             (forall yb, rB = Ok yb -> exists xa, rA = Ok xa /\ RE s xa yb) ->
             fold_left (fun Er '(x, e) => let* E := Er in let* w := const_wires tops e in env_let E x w) cs rB = Ok y ->
             exists x, fold_left (fun Er '(x, e) => let* E := Er in let* w := const_wires bops e in env_let E x w) cs rA = Ok x
                       /\ RE s x y).
  { induction cs as [|[x e] cs IH]; intros rA rB y0 Hr E; cbn [fold_left] in *; [apply Hr; exact E|].
    eapply IH; [|exact E]. intros yb Eb. destruct rB as [eb| |]; cbn [bind] in Eb; try discriminate.
    destruct (Hr eb eq_refl) as (ea & -> & Hea). cbn [bind].
    destruct (const_wires tops e) as [w| |] eqn:Ew; cbn [bind] in Eb; try discriminate.
    destruct (rel_const_wires _ _ _ _ HS Ew) as (wa & -> & Hwa). cbn [bind]. eapply rel_env_let; eauto. }
  intro E. eapply G; [|exact E]. intros yb [= <-]. eexists. split; [reflexivity|]. constructor; [constructor|constructor].
Qed.

Lemma rel_main_env s o P bs vbs y : RS s o -> Forall2 (Rbind inp s) bs vbs -> main_env tops P vbs = Ok y ->
  exists x, main_env bops P bs = Ok x /\ RE s x y.
Proof.
  intros HS Hb E. unfold main_env in *.
  destruct (global_scope tops P) as [g| |] eqn:Eg; cbn [bind] in E; try discriminate.
  destruct (rel_global_scope _ _ _ _ HS Eg) as (ga & -> & Hg). cbn [bind].
  eapply (rel_bind_all inp); eauto. apply rel_env_push. assumption.
Qed.

End Fuel.

(* ------------------------------------------------------------------ whole programs *)

(* the bits of every parameter: the values of its input wires (wires 2, 3, ... carry the flat
   input [inp] in order) *)
Definition param_args (bindings : list (N * list N)) (inp : list bool) : list (list bool) :=
  map (fun b => map (fun w => nthd (false :: true :: inp) w) (snd b)) bindings.

Lemma den_new dedup inputs inp w : den inp (new_builder dedup inputs) w = nthd (false :: true :: inp) w.
Proof. reflexivity. Qed.

Lemma wire_range_bound from n w : In w (wire_range from n) -> from <= w < from + N.of_nat n.
Proof.
  unfold wire_range. rewrite in_map_iff. intros (k & <- & Hk). apply in_seq in Hk. lia.
Qed.

(* every parameter wire is an input wire *)
Definition bindings_in_range (bindings : list (N * list N)) (shift : N) : Prop :=
  Forall (fun b => Forall (fun w => w < shift) (snd b)) bindings.

Lemma fold_wiring_range P params : forall igs bs wire,
  bindings_in_range bs wire -> wire = 2 + sumN igs ->
  let '(igs', bs', wire') :=
    fold_left (fun '(igs, bs, wire) '(x, t) =>
                 let s := szn P t in
                 (igs ++ [N.of_nat s], bs ++ [(x, wire_range wire s)], wire + N.of_nat s))
              params (igs, bs, wire) in
  bindings_in_range bs' wire' /\ wire' = 2 + sumN igs' /\ map fst bs' = map fst bs ++ map fst params.
Proof.
  induction params as [|[x t] params IH]; intros igs bs wire Hb Hw; cbn [fold_left].
  - split; [assumption|]. split; [assumption|]. now rewrite app_nil_r.
  - specialize (IH (igs ++ [N.of_nat (szn P t)]) (bs ++ [(x, wire_range wire (szn P t))]) (wire + N.of_nat (szn P t))).
    destruct (fold_left _ params _) as [[igs' bs'] wire'].
    destruct IH as (H1 & H2 & H3).
    + apply Forall_app. split.
      * eapply Forall_impl; [|exact Hb]. intros b Hbb. eapply Forall_impl; [|exact Hbb]. intros w Hw'. cbn beta in *. lia.
      * constructor; [|constructor]. cbn [snd]. apply Forall_forall. intros w Hin. apply wire_range_bound in Hin. lia.
    + subst wire. clear. induction igs as [|a igs IHi]; cbn [app sumN]; lia.
    + split; [assumption|]. split; [assumption|]. rewrite H3, map_app. cbn [map fst]. now rewrite <- app_assoc.
Qed.

Lemma sumN_repeat a n : sumN (repeat a n) = a * N.of_nat n.
Proof. induction n as [|n IH]; cbn [repeat sumN]; [lia|]. rewrite IH. lia. Qed.

Lemma param_wiring_range P params igs bs : param_wiring P params = (igs, bs) ->
  bindings_in_range bs (2 + sumN igs) /\ map fst bs = map fst params.
Proof.
  unfold param_wiring.
  assert (Gen : forall igs bs,
    (let '(igs0, bs0, _) :=
       fold_left (fun '(igs, bs, wire) '(x, t) =>
                    let s := szn P t in
                    (igs ++ [N.of_nat s], bs ++ [(x, wire_range wire s)], wire + N.of_nat s))
                 params ([], [], 2) in (igs0, bs0)) = (igs, bs) ->
    bindings_in_range bs (2 + sumN igs) /\ map fst bs = map fst params).
  { intros igs0 bs0. pose proof (fold_wiring_range P params [] [] 2 (Forall_nil _) eq_refl) as H.
    destruct (fold_left _ params _) as [[i b] w]. intros [= <- <-]. destruct H as (H1 & H2 & H3). subst w.
    split; assumption. }
  destruct params as [|[x t] [|p2 ps]]; [apply Gen| |destruct t; apply Gen].
  destruct t; try apply Gen.
  intros [= <- <-]. split; [|reflexivity]. constructor; [|constructor]. cbn [snd].
  apply Forall_forall. intros w Hin. apply wire_range_bound in Hin. rewrite sumN_repeat.
  rewrite Nat2N.inj_mul in Hin. lia.
Qed.

Lemma prec_wires_valids b R : prec_valid b R -> valids b (prec_wires R).
Proof.
  intros (H0 & H1 & H2 & H3 & H4 & H5). unfold prec_wires. constructor; [assumption|].
  unfold valids in *. repeat (apply Forall_app; split; try assumption).
Qed.

Lemma prec_wires_length R : prec_wf R -> length (prec_wires R) = 161%nat.
Proof.
  intros (H1 & H2 & H3 & H4 & H5). unfold prec_wires. cbn [length]. rewrite !app_length, H1, H2, H3, H4, H5.
  reflexivity.
Qed.

Section Program.
Variable fuel : nat.
Variable dedup : bool.
Variable P : program.

(* Whenever the bit-level semantics is defined on an input, the model of the compiler has
   produced a valid circuit of the right shape whose output on that input decodes
   (EvalPanic::parse = [parse_panic]) to exactly the panic observed by the semantics, or to
   exactly its value bits. *)
Theorem lower_program_sound s1 outs :
  lower_main_with fuel dedup P = Ok (PreOk s1 outs) ->
  counter (cb s1) + (b_shift (cb s1) - 2) <= MAX_GATES ->
  exists fd igs bindings,
    find_fn P (p_main P) = Some fd /\ param_wiring P (fn_params fd) = (igs, bindings) /\
    forall ins inp o vouts,
      load_inputs igs ins = Some inp ->
      tsem_program fuel P (param_args bindings inp) = Ok (o, vouts) ->
      exists c out,
        lower_program_with fuel dedup P = Ok (LCircuit c) /\
        ssa_validate c = None /\ input_gates c = igs /\
        length (output_gates c) = (161 + length vouts)%nat /\
        ssa_eval c ins = Some out /\
        parse_panic out = parse_spec o vouts /\
        (o = None -> skipn 161 out = vouts).
Proof.
  intros Hmain Hmax. pose proof Hmain as Hmain0. unfold lower_main_with in Hmain.
  destruct (find_fn P (p_main P)) as [fd|] eqn:Efd; [|discriminate].
  destruct (param_wiring P (fn_params fd)) as [igs bindings] eqn:Epw.
  exists fd, igs, bindings. split; [reflexivity|]. split; [exact Epw|].
  destruct (sumN igs =? 0) eqn:Ez; [discriminate|]. apply N.eqb_neq in Ez.
  destruct (main_env bops P bindings) as [E0| |] eqn:EE0; cbn [bind] in Hmain; try discriminate.
  destruct (lower_block bops fuel P (fn_body fd) E0 (initial_cst dedup igs)) as [[[outs' Eend] s1']| |] eqn:Eblk;
    cbn [bind] in Hmain; try discriminate.
  injection Hmain as <- <-.
  set (s0 := initial_cst dedup igs) in *.
  destruct (param_wiring_range _ _ _ _ Epw) as [Hrange Hnames].
  pose proof (inv_new dedup igs) as I0.
  assert (Hshift : b_shift (cb s0) = 2 + sumN igs) by reflexivity.
  intros ins inp o vouts Hload Ht.
  pose proof (load_inputs_len _ _ _ Hload) as Hlen.
  (* the simulation on this input *)
  assert (Hrun : SimBase.RS BuilderProofs.inv inp s1' o /\ extS s0 s1' /\ SimBase.Rws inp s1' outs' vouts).
  { unfold tsem_program in Ht. rewrite Efd in Ht.
    destruct (negb _); [discriminate|].
    destruct (main_env tops P _) as [EB0| |] eqn:EEB; cbn [bind] in Ht; try discriminate.
    destruct (lower_block tops fuel P (fn_body fd) EB0 None) as [[[vouts' EBend] o']| |] eqn:EblkB;
      cbn [bind] in Ht; try discriminate.
    injection Ht as <- <-.
    assert (HS0 : SimBase.RS BuilderProofs.inv inp s0 None).
    { split; [exact I0|]. split; [unfold ins_ok; rewrite Hshift; lia|].
      split; [apply (pstate_new_ok BuilderProofs.inv builder_sound); exact I0|]. reflexivity. }
    assert (HB : Forall2 (Rbind inp s0) bindings (combine (map fst (fn_params fd)) (param_args bindings inp))).
    { rewrite <- Hnames. unfold param_args. clear - Hrange Hshift I0.
      induction bindings as [|[x ws] bs IH]; cbn [map combine]; constructor.
      - split; [reflexivity|]. cbn [fst snd]. inversion Hrange as [|? ? Hw _]; subst. cbn [snd] in Hw.
        clear - Hw Hshift. induction ws as [|w ws IHw]; cbn [map]; constructor.
        + inversion Hw; subst. split; [unfold valid, counter; cbn; lia|]. apply den_new.
        + apply IHw. now inversion Hw.
      - apply IH. now inversion Hrange. }
    destruct (rel_main_env BuilderProofs.inv builder_sound inp _ _ _ _ _ _ HS0 HB EEB) as (E0' & EE0' & HE0).
    rewrite EE0 in EE0'. injection EE0' as <-.
    destruct (lower_sim BuilderProofs.inv builder_sound inp P fuel) as (_ & _ & _ & Hblk).
    destruct (Hblk (fn_body fd) s0 None E0 EB0 HS0 HE0 _ _ EblkB) as ([outsA EA] & sA & EA' & Hext & HSA & HresA & _).
    rewrite Eblk in EA'. injection EA' as <- <- <-. cbn [fst] in HresA. auto. }
  destruct Hrun as ((I1 & Hin1 & HPok & HPo) & Hext & Houts).
  destruct Hext as (Esh & Einp & _).
  assert (Hsh1 : b_shift (cb s1') = 2 + sumN igs) by (rewrite Esh; exact Hshift).
  assert (Hig1 : b_inputs (cb s1') = igs) by (rewrite Einp; reflexivity).
  pose proof HPok as (Hwf & Hpv & _).
  destruct (build_sound (cb s1') (prec_wires (ps_rec (cp s1'))) outs' I1 (prec_wires_valids _ _ Hpv)
              (Rws_valids _ _ _ _ Houts)) as (c & Eb & Hval & Higc & Hlenc & Hev).
  { intro Hn. apply (f_equal (@length N)) in Hn. rewrite app_length, (prec_wires_length _ Hwf) in Hn. cbn in Hn. lia. }
  { lia. }
  { exact Hmax. }
  rewrite Hig1 in Hev, Higc. specialize (Hev ins inp Hload).
  exists c, (map (den inp (cb s1')) (prec_wires (ps_rec (cp s1')) ++ outs')).
  split. { unfold lower_program_with. rewrite Hmain0. cbn [bind]. rewrite Eb. reflexivity. }
  split; [exact Hval|]. split; [exact Higc|].
  split. { rewrite Hlenc, app_length, (prec_wires_length _ Hwf), (Rws_length _ _ _ _ Houts). reflexivity. }
  split; [exact Hev|].
  rewrite map_app. fold (dens inp (cb s1') outs'). rewrite (Rws_dens _ _ _ _ Houts).
  change (map (den inp (cb s1')) (prec_wires (ps_rec (cp s1')))) with (rec_bits inp (cb s1') (ps_rec (cp s1'))).
  destruct (parse_record (cb s1') (cp s1') inp vouts HPok Hin1) as [Hp _].
  split; [rewrite Hp, HPo; reflexivity|].
  intros _. apply skipn_app_exact. unfold rec_bits, dens. rewrite map_length. apply prec_wires_length. exact Hwf.
Qed.

(* gate de-duplication is irrelevant for what a compiled program computes *)
End Program.

Theorem lower_dedup_irrelevant fuel P s1 outs1 s2 outs2 :
  lower_main_with fuel true P = Ok (PreOk s1 outs1) -> lower_main_with fuel false P = Ok (PreOk s2 outs2) ->
  counter (cb s1) + (b_shift (cb s1) - 2) <= MAX_GATES ->
  counter (cb s2) + (b_shift (cb s2) - 2) <= MAX_GATES ->
  exists fd igs bindings,
    find_fn P (p_main P) = Some fd /\ param_wiring P (fn_params fd) = (igs, bindings) /\
    forall ins inp o vouts,
      load_inputs igs ins = Some inp ->
      tsem_program fuel P (param_args bindings inp) = Ok (o, vouts) ->
      exists c1 c2 out1 out2,
        lower_program_with fuel true P = Ok (LCircuit c1) /\ lower_program_with fuel false P = Ok (LCircuit c2) /\
        ssa_eval c1 ins = Some out1 /\ ssa_eval c2 ins = Some out2 /\
        parse_panic out1 = parse_panic out2 /\ (o = None -> skipn 161 out1 = skipn 161 out2).
Proof.
  intros H1 H2 M1 M2.
  destruct (lower_program_sound fuel true P s1 outs1 H1 M1) as (fd & igs & bindings & Efd & Epw & S1).
  destruct (lower_program_sound fuel false P s2 outs2 H2 M2) as (fd' & igs' & bindings' & Efd' & Epw' & S2).
  rewrite Efd in Efd'. injection Efd' as <-. rewrite Epw in Epw'. injection Epw' as <- <-.
  exists fd, igs, bindings. split; [assumption|]. split; [assumption|].
  intros ins inp o vouts Hl Ht.
  destruct (S1 ins inp o vouts Hl Ht) as (c1 & out1 & L1 & _ & _ & _ & E1 & P1 & V1).
  destruct (S2 ins inp o vouts Hl Ht) as (c2 & out2 & L2 & _ & _ & _ & E2 & P2 & V2).
  exists c1, c2, out1, out2. repeat split; auto; try congruence.
  intro Ho. rewrite (V1 Ho), (V2 Ho). reflexivity.
Qed.
