(* C13 at the program level, pure part: what the bitonic merger does with the vector that the
   for-join loop feeds it.
   1. A prefix of globally minimal elements is left in place by the merger (the zero padding
      elements stay in front, even when a real element is as small as they are).
   2. A vector sorted by an injective key is determined by its elements: a sorted
      permutation of a list with pairwise distinct keys is unique.
   3. Adjacent elements of a strictly sorted vector: nothing lies between them. *)
From Coq Require Import Permutation Sorting.Sorted.
From GV Require Import Base.Util Gadgets.Gadgets Sort.Sort Sort.SortProofs Sort.ZeroOne Sort.SortUnbounded.

(* ================================================================ 1. minimal prefix *)

Lemma In_firstn_subset {A} n : forall (l : list A) x, In x (firstn n l) -> In x l.
Proof. induction n as [|n IH]; intros [|a l] x H; cbn [firstn In] in *; try tauto. destruct H; auto. Qed.

Section Prefix.
  Context {A : Type}.
  Variable gtb : A -> A -> bool.

  Lemma merge_pairs_In asc l : forall u x,
    In x (fst (merge_pairs gtb asc l u)) \/ In x (snd (merge_pairs gtb asc l u)) -> In x l \/ In x u.
  Proof.
    induction l as [|a l IH]; intros [|c u] x; cbn [merge_pairs fst snd]; try tauto.
    pose proof (cx_cases gtb asc a c) as Hc. destruct (cx gtb asc a c) as [lo hi].
    specialize (IH u x). destruct (merge_pairs gtb asc l u) as [lr ur]. cbn [fst snd In] in *.
    destruct Hc as [E|E]; injection E as -> ->; tauto.
  Qed.

  (* compare-exchange does not move an element that is not greater than its partner *)
  Lemma merge_pairs_prefix q : forall l u,
    (forall x y, In x (firstn q l) -> In y u -> gtb x y = false) ->
    firstn q (fst (merge_pairs gtb true l u)) = firstn q l /\
    firstn q (snd (merge_pairs gtb true l u)) = firstn q u.
  Proof.
    induction q as [|q IH]; intros l u H; [split; reflexivity|].
    destruct l as [|a l]; destruct u as [|c u]; cbn [merge_pairs fst snd]; try (split; reflexivity).
    assert (Hac : gtb a c = false) by (apply H; now left).
    unfold cx, sorter. rewrite Hac.
    destruct (IH l u) as [I1 I2].
    { intros x y Hx Hy. apply H; [right; exact Hx|right; exact Hy]. }
    destruct (merge_pairs gtb true l u) as [lr ur]. cbn [fst snd firstn] in *. rewrite I1, I2. split; reflexivity.
  Qed.

  Lemma merger_fuel_In fuel : forall asc v x, In x (merger_fuel gtb fuel asc v) -> In x v.
  Proof.
    intros asc v x H. eapply Permutation_in; [apply merger_fuel_perm|exact H].
  Qed.

  Theorem merger_prefix_fixed fuel : forall v p,
    (forall x y, In x (firstn p v) -> In y v -> gtb x y = false) ->
    firstn p (merger_fuel gtb fuel true v) = firstn p v.
  Proof.
    induction fuel as [|f IH]; intros v p H; [reflexivity|].
    destruct (Nat.le_gt_cases (length v) 1) as [H1|H1]; [now rewrite merger_short|].
    rewrite merger_fuel_S by lia. cbv zeta.
    destruct (pow2_below_top (length v) ltac:(lia)) as (_ & Hm1 & Hm2).
    set (m := pow2_below (length v) 1 (length v)) in *.
    set (L := firstn m v). set (U := skipn m v).
    assert (Hv : v = L ++ U) by (unfold L, U; now rewrite firstn_skipn).
    assert (HL : length L = m) by (unfold L; rewrite firstn_length; lia).
    pose proof (merge_pairs_length gtb true L U) as [Llo Lup].
    pose proof (merge_pairs_In true L U) as Hin.
    destruct (Nat.le_gt_cases p m) as [Hp|Hp].
    - (* the prefix lies in the lower part *)
      destruct (merge_pairs_prefix p L U) as [P1 _].
      { intros x y Hx Hy. apply H; [|rewrite Hv; apply in_or_app; now right].
        rewrite Hv, firstn_app. apply in_or_app. now left. }
      destruct (merge_pairs gtb true L U) as [lo up]. cbn [fst snd] in *.
      rewrite firstn_app, merger_fuel_length, Llo, HL. replace (p - m)%nat with 0%nat by lia.
      cbn [firstn]. rewrite app_nil_r, IH.
      + rewrite P1. unfold L. rewrite firstn_firstn. now replace (Nat.min p m) with p by lia.
      + intros x y Hx Hy. apply H.
        * rewrite P1 in Hx. unfold L in Hx. rewrite firstn_firstn in Hx. now replace (Nat.min p m) with p in Hx by lia.
        * rewrite Hv. apply in_or_app. apply Hin. now left.
    - (* the lower part is all prefix *)
      assert (HLmin : forall x y, In x L -> In y v -> gtb x y = false).
      { intros x y Hx Hy. apply H; [|exact Hy]. rewrite Hv, firstn_app. apply in_or_app. left.
        rewrite firstn_all2 by lia. exact Hx. }
      destruct (merge_pairs_prefix m L U) as [P1 _].
      { intros x y Hx Hy. apply HLmin; [exact (In_firstn_subset m _ _ Hx)|rewrite Hv; apply in_or_app; now right]. }
      destruct (merge_pairs_prefix (p - m) L U) as [_ P2].
      { intros x y Hx Hy. apply HLmin; [exact (In_firstn_subset (p - m) _ _ Hx)|rewrite Hv; apply in_or_app; now right]. }
      destruct (merge_pairs gtb true L U) as [lo up]. cbn [fst snd] in *.
      rewrite (firstn_all2 lo) in P1 by lia. rewrite (firstn_all2 L) in P1 by lia. subst lo.
      rewrite firstn_app, merger_fuel_length, HL.
      assert (E1 : merger_fuel gtb f true L = L).
      { rewrite <- (firstn_all (merger_fuel gtb f true L)), merger_fuel_length, HL. rewrite IH; [apply firstn_all2; lia|].
        intros x y Hx Hy. apply HLmin; [exact (In_firstn_subset m _ _ Hx)|rewrite Hv; apply in_or_app; now left]. }
      rewrite E1, (firstn_all2 L) by lia. rewrite IH.
      + rewrite P2. replace (firstn p v) with (firstn p (L ++ U)) by (rewrite <- Hv; reflexivity).
        rewrite firstn_app, HL, (firstn_all2 L) by lia. reflexivity.
      + intros x y Hx Hy. apply H.
        * rewrite P2 in Hx. rewrite Hv, firstn_app, HL. apply in_or_app. now right.
        * rewrite Hv. apply in_or_app. apply Hin. now right.
  Qed.
End Prefix.

(* ================================================================ 2. sorted by an injective key *)

Lemma sortedN_strong l : sortedN l = true -> StronglySorted N.le l.
Proof.
  induction l as [|a [|b r] IH]; intro H; [constructor|constructor; constructor|].
  rewrite sortedN_cons in H. apply andb_prop in H. destruct H as [H1 H2]. apply N.leb_le in H1.
  specialize (IH H2). constructor; [exact IH|]. inversion IH as [|b' r' _ Hall]; subst.
  constructor; [exact H1|]. rewrite Forall_forall in *. intros c Hc. specialize (Hall c Hc). lia.
Qed.

Section Keyed.
  Context {A : Type}.
  Variable K : A -> N.

  Definition SSK : list A -> Prop := StronglySorted (fun a b => K a < K b).

  Lemma strong_map_le l : StronglySorted N.le (map K l) -> StronglySorted (fun a b => K a <= K b) l.
  Proof.
    induction l as [|a l IH]; intro H; [constructor|]. cbn [map] in H. inversion H as [|a' l' Hs Hall]; subst.
    constructor; [auto|]. rewrite Forall_map in Hall. exact Hall.
  Qed.

  Lemma SSK_of_nodup l : StronglySorted N.le (map K l) -> NoDup (map K l) -> SSK l.
  Proof.
    intros Hs. apply strong_map_le in Hs. induction Hs as [|a l Hs IH Hall]; intro Hn; [constructor|].
    cbn [map] in Hn. inversion Hn as [|k ks Hnot Hn']; subst. constructor; [exact (IH Hn')|].
    apply Forall_forall. intros b Hb. rewrite Forall_forall in Hall. specialize (Hall b Hb).
    assert (K a <> K b) by (intro E; apply Hnot; rewrite E; now apply in_map). lia.
  Qed.

  Lemma SSK_unique l1 : forall l2, SSK l1 -> SSK l2 -> Permutation l1 l2 -> l1 = l2.
  Proof.
    induction l1 as [|a l1 IH]; intros l2 H1 H2 Hp.
    - apply Permutation_nil in Hp. now subst.
    - destruct l2 as [|b l2]; [apply Permutation_sym, Permutation_nil in Hp; discriminate|].
      inversion H1 as [|a' l1' Hs1 Ha1]; subst. inversion H2 as [|b' l2' Hs2 Ha2]; subst.
      rewrite Forall_forall in Ha1, Ha2.
      assert (a = b).
      { assert (Hina : In a (b :: l2)) by (eapply Permutation_in; [exact Hp|now left]).
        assert (Hinb : In b (a :: l1)) by (eapply Permutation_in; [apply Permutation_sym; exact Hp|now left]).
        destruct Hina as [->|Hina]; [reflexivity|]. destruct Hinb as [->|Hinb]; [reflexivity|].
        specialize (Ha1 b Hinb). specialize (Ha2 a Hina). lia. }
      subst b. f_equal. apply IH; auto. eapply Permutation_cons_inv; exact Hp.
  Qed.

  Lemma SSK_filter f l : SSK l -> SSK (filter f l).
  Proof.
    induction 1 as [|a l Hs IH Hall]; cbn [filter]; [constructor|].
    destruct (f a); [|exact IH]. constructor; [exact IH|].
    rewrite Forall_forall in *. intros b Hb. apply filter_In in Hb. apply Hall, Hb.
  Qed.

  Lemma SSK_app_inv pre suf : SSK (pre ++ suf) ->
    SSK suf /\ forall x y, In x pre -> In y suf -> K x < K y.
  Proof.
    induction pre as [|p pre IH]; cbn [app]; intro H.
    - split; [exact H|]. intros x y [].
    - inversion H as [|p' l Hs Hall]; subst. destruct (IH Hs) as [Hp Hlt]. split; [exact Hp|].
      intros x y [->|Hx] Hy; [|auto]. rewrite Forall_forall in Hall. apply Hall. apply in_or_app. now right.
  Qed.

  Lemma SSK_inj l x y : SSK l -> In x l -> In y l -> K x = K y -> x = y.
  Proof.
    induction 1 as [|a l Hs IH Hall]; [intros []|]. rewrite Forall_forall in Hall.
    intros [->|Hx] [->|Hy] E; auto.
    - specialize (Hall y Hy). lia.
    - specialize (Hall x Hx). lia.
  Qed.

  (* tagged keys: K a = 2 * kv a + tag a *)
  Variable tag : A -> bool.
  Variable kv : A -> N.
  Hypothesis K_def : forall a, K a = 2 * kv a + (if tag a then 1 else 0).

  (* adjacent elements with the same key value: the first carries tag 0, the second tag 1 *)
  Lemma adjacent_same_key h w1 suf : SSK (h :: w1 :: suf) -> kv h = kv w1 -> tag h = false /\ tag w1 = true.
  Proof.
    intros H E. inversion H as [|h' l _ Hall]; subst. inversion Hall as [|w l Hlt _]; subst.
    rewrite !K_def, E in Hlt. destruct (tag h), (tag w1); try lia; auto.
  Qed.

  (* an element with tag 0 whose key value also occurs with tag 1: that occurrence is next *)
  Lemma partner_is_next pre h suf y : SSK (pre ++ h :: suf) -> tag h = false ->
    In y (pre ++ h :: suf) -> tag y = true -> kv y = kv h ->
    exists suf', suf = y :: suf'.
  Proof.
    intros H Th Hy Ty Ey. destruct (SSK_app_inv _ _ H) as [Hs Hlt].
    assert (Ky : K y = K h + 1) by (rewrite !K_def, Th, Ty, Ey; lia).
    apply in_app_or in Hy. destruct Hy as [Hy|[->|Hy]].
    - specialize (Hlt y h Hy (or_introl eq_refl)). lia.
    - congruence.
    - inversion Hs as [|h' l Hs' Hall]; subst. rewrite Forall_forall in Hall.
      destruct suf as [|w1 suf']; [destruct Hy|]. exists suf'. f_equal.
      destruct Hy as [->|Hy]; [reflexivity|].
      inversion Hs' as [|w l _ Hall']; subst. rewrite Forall_forall in Hall'.
      specialize (Hall' y Hy). specialize (Hall w1 (or_introl eq_refl)).
      rewrite !K_def in *. destruct (tag w1), (tag h), (tag y); lia.
  Qed.
End Keyed.
