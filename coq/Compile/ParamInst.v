(* Instance A of the abstract parametricity theorem (sanity): the builder instance bops
   against the Boolean instance tops with the relations of SimBase.v, every hypothesis of
   the record discharged by the lemmas of SimBase.v / SimOps.v.  The statement of
   LowerSound.lower_sim is re-derived from ParamLower.lower_param: the abstraction lost
   nothing. *)
From GV Require Import Base.Util Base.NMap Lang.Ast Builder.Builder Builder.BuilderSem Builder.BuilderSpec
  Gadgets.Gadgets Gadgets.GadgetSpec Gadgets.GadgetHoare Sort.Sort Sort.SortHoare
  Panic.PanicRec Panic.PanicSem Panic.PanicProofs Compile.Lower Compile.TSem Compile.SimBase Compile.SimOps
  Compile.SimHelpers Compile.SimLower.
From GV Require Compile.ParamBase Compile.ParamHelpers Compile.ParamLower.

Section Inst.
Variable inv : builder -> Prop.
Hypothesis ops : builder_ops_sound inv.
Variable inp : list bool.

Definition concrete_rel : ParamBase.param_rel bops tops :=
  ParamBase.mkParamRel _ _ _ _ _ _ bops tops
    extS (fun s => ins_ok (cb s) inp) (Rw inp) (RP inp) (RS inv inp)
    extS_refl extS_trans (RS_ins inv inp) (Rw_mono inp) (RP_mono inp)
    (Rw_const0 inv ops inp) (Rw_const1 inv ops inp)
    (sim_xor inv ops inp) (sim_and inv ops inp) (sim_or inv ops inp) (sim_eq inv ops inp)
    (sim_not inv ops inp) (sim_mux inv ops inp) (sim_negation inv ops inp) (sim_addition inv ops inp)
    (sim_subtraction inv ops inp) (sim_multiplier inv ops inp) (sim_udiv inv ops inp) (sim_sdiv inv ops inp)
    (sim_comparator inv ops inp) (sim_eq_circuit inv ops inp) (sim_merger inv ops inp) (sim_sorter inv ops inp)
    (sim_panic_if inv ops inp) (sim_peek inv inp) (sim_replace inv inp) (sim_mux_panic inv ops inp).

Notation Rw := (Rw inp).
Notation Rws := (Rws inp).
Notation RS := (RS inv inp).
Notation RE := (RE inp).
Notation sim := (sim inv inp).
Notation Rres := (Rres inp).
Notation RresP := (RresP inp).

(* exactly the statement of LowerSound.lower_sim *)
Theorem lower_sim_from_param P fuel :
  (forall e s o E EB, RS s o -> RE s E EB ->
     sim s o (lower_expr bops fuel P e E) (lower_expr tops fuel P e EB) Rres) /\
  (forall p s o mw vmw E EB, RS s o -> Rws s mw vmw -> RE s E EB ->
     sim s o (lower_pattern bops fuel P p mw E) (lower_pattern tops fuel P p vmw EB) RresP) /\
  (forall st s o E EB, RS s o -> RE s E EB ->
     sim s o (lower_stmt bops fuel P st E) (lower_stmt tops fuel P st EB) Rres) /\
  (forall ss s o E EB, RS s o -> RE s E EB ->
     sim s o (lower_block bops fuel P ss E) (lower_block tops fuel P ss EB) Rres).
Proof. exact (ParamLower.lower_param concrete_rel P fuel). Qed.

End Inst.

Print Assumptions lower_sim_from_param.
