(* Facts about the bit-level semantics (the Boolean instance of the lowering) and about the
   environments of the lowering (the model of src/env.rs):
   - merging two environments / panic observations / results under a condition bit selects
     the taken side as a whole (what if / else does to values, variables and panics);
   - frame properties of assignment and scoping. *)
From GV Require Import Base.Util Lang.Ast Panic.PanicRec Panic.PanicSem Compile.Lower Compile.TSem.

(* ------------------------------------------------------------------ merges select *)

Lemma tsem_map2_mux c : forall xs ys, length xs = length ys -> forall o,
  map2_M (m_mux tops c) xs ys o = Ok (if c then xs else ys, o).
Proof.
  induction xs as [|x xs IH]; intros [|y ys] L o; cbn [map2_M] in *; try discriminate.
  - unfold ret. destruct c; reflexivity.
  - injection L as L. unfold mbind.
    change (m_mux tops c x y o) with (Ok ((if c then x else y), o)). cbn iota beta.
    rewrite (IH ys L o). unfold ret. destruct c; reflexivity.
Qed.

Lemma tsem_mux_bits c xs ys o : length xs = length ys ->
  mux_bits tops c xs ys o = Ok (if c then xs else ys, o).
Proof.
  intro L. unfold mux_bits. rewrite L, Nat.eqb_refl. cbn [negb]. now apply tsem_map2_mux.
Qed.

(* two scopes / environments bind the same names to vectors of the same lengths *)
Definition same_scope_shape (a b : @scope bool) : Prop :=
  Forall2 (fun p q => fst p = fst q /\ length (snd p) = length (snd q)) a b.
Definition same_env_shape (a b : @cenv bool) : Prop := Forall2 same_scope_shape a b.

Definition keys_distinct (a : @scope bool) : Prop := NoDup (map fst a).

Lemma assoc_here_or_later k v (a : @scope bool) x :
  assocN x ((k, v) :: a) = if x =? k then Some v else assocN x a.
Proof. reflexivity. Qed.

Lemma tsem_mux_scope_gen c : forall a b0 b, same_scope_shape a b ->
  (forall k v, In (k, v) b -> assocN k b0 = Some v) -> forall o,
  mux_scope tops c a b0 o = Ok (if c then a else b, o).
Proof.
  induction a as [|[k va] a IH]; intros b0 b Hs Hb o; inversion Hs as [|p q a' b' [Hk Hl] Hr]; subst; cbn [mux_scope].
  - unfold ret. destruct c; reflexivity.
  - destruct q as [k' vb]. cbn [fst snd] in Hk, Hl. subst k'.
    rewrite (Hb k vb (or_introl eq_refl)). unfold mbind.
    rewrite (tsem_mux_bits c va vb o Hl).
    rewrite (IH b0 b' Hr (fun k0 v0 Hin => Hb k0 v0 (or_intror Hin)) o). unfold ret. destruct c; reflexivity.
Qed.

Lemma assoc_in_distinct (b : @scope bool) : keys_distinct b -> forall k v, In (k, v) b -> assocN k b = Some v.
Proof.
  unfold keys_distinct. induction b as [|[k0 v0] b IH]; intros Hd k v Hin; [contradiction|].
  cbn [map fst] in Hd. inversion Hd as [|? ? Hnin Hd']; subst. cbn [assocN]. destruct Hin as [[= <- <-]|Hin].
  - now rewrite N.eqb_refl.
  - destruct (N.eqb_spec k k0) as [->|_]; [|now apply IH].
    exfalso. apply Hnin. apply in_map_iff. exists (k0, v). split; [reflexivity|assumption].
Qed.

Lemma tsem_mux_scope c a b o : same_scope_shape a b -> keys_distinct b ->
  mux_scope tops c a b o = Ok (if c then a else b, o).
Proof. intros Hs Hd. apply tsem_mux_scope_gen; [assumption|]. now apply assoc_in_distinct. Qed.

Lemma tsem_mux_scopes c : forall sa sb o, same_env_shape sa sb -> Forall keys_distinct sb ->
  mux_scopes tops c sa sb o = Ok (if c then sa else sb, o).
Proof.
  induction sa as [|a sa IH]; intros sb o Hs Hd; inversion Hs; subst; cbn [mux_scopes].
  - unfold ret. destruct c; reflexivity.
  - inversion Hd; subst. unfold mbind. rewrite tsem_mux_scope by assumption. rewrite IH by assumption.
    unfold ret. destruct c; reflexivity.
Qed.

Lemma same_env_shape_rev a b : same_env_shape a b -> same_env_shape (rev a) (rev b).
Proof.
  induction 1; cbn [rev]; [constructor|]. apply Forall2_app; [assumption|]. constructor; [assumption|constructor].
Qed.

(* mux_envs on Booleans: the whole environment of the taken side *)
Theorem tsem_mux_envs c a b o : same_env_shape a b -> Forall keys_distinct b ->
  mux_envs tops c a b o = Ok (if c then a else b, o).
Proof.
  intros Hs Hd. unfold mux_envs.
  assert (L : length a = length b) by (clear - Hs; induction Hs; cbn; congruence).
  rewrite L, Nat.eqb_refl. cbn [negb]. unfold mbind.
  rewrite tsem_mux_scopes; [|now apply same_env_shape_rev|now apply Forall_rev].
  unfold ret. destruct c; now rewrite rev_involutive.
Qed.

(* ------------------------------------------------------------------ if / else *)

Section If.
  Variable P : program.
  Variable eB : expr -> @cenv bool -> pobs -> res ((list bool * @cenv bool) * pobs).
  Variable pB : pattern -> list bool -> @cenv bool -> pobs -> res ((bool * @cenv bool) * pobs).
  Variable bB : list stmt -> @cenv bool -> pobs -> res ((list bool * @cenv bool) * pobs).

  (* Both branches are evaluated from the state after the condition; value, variables and the
     panic observation of the whole expression are those of the branch selected by the
     condition bit -- nothing of the other branch survives, in particular no panic. *)
  Theorem tsem_if_selects c t f m ty E o b E0 o0 tw ET oT fw EF oF :
    eB c E o = Ok (([b], E0), o0) ->
    eB t E0 o0 = Ok ((tw, ET), oT) ->
    eB f E0 o0 = Ok ((fw, EF), oF) ->
    length tw = length fw -> same_env_shape ET EF -> Forall keys_distinct EF ->
    lower_expr_body tops P eB pB bB (Ex (EIf c t f) m ty) E o =
      Ok ((if b then tw else fw, if b then ET else EF), if b then oT else oF).
  Proof.
    intros Hc Ht Hf L Hs Hd. cbn [lower_expr_body]. unfold mbind at 1. rewrite Hc.
    unfold mbind at 1. cbn [m_peek o_peek tops]. unfold mbind at 1. cbn [one_wire]. unfold ret at 1.
    unfold mbind at 1. rewrite Ht. unfold mbind at 1. cbn [m_replace o_replace tops].
    unfold mbind at 1. rewrite Hf. unfold mbind at 1. cbn [m_replace o_replace tops].
    unfold mbind at 1. rewrite tsem_mux_envs by assumption.
    unfold mbind at 1. cbn [m_mux_panic o_mux_panic tops]. unfold mbind at 1. cbn [m_replace o_replace tops].
    unfold mbind at 1. rewrite tsem_mux_bits by assumption. unfold ret. reflexivity.
  Qed.
End If.

(* ------------------------------------------------------------------ environments (env.rs) *)

Section Env.
  Context {Wt : Type}.

  Lemma scope_insert_get (s : @scope Wt) x v : assocN x (scope_insert s x v) = Some v.
  Proof.
    induction s as [|[k w] s IH]; cbn [scope_insert assocN]; [now rewrite N.eqb_refl|].
    destruct (N.ltb_spec x k) as [H|H].
    - cbn [assocN]. now rewrite N.eqb_refl.
    - destruct (N.eqb_spec x k) as [->|Hne]; cbn [assocN].
      + now rewrite N.eqb_refl.
      + destruct (N.eqb_spec x k); [contradiction|exact IH].
  Qed.

  Lemma scope_insert_other (s : @scope Wt) x v y : y <> x -> assocN y (scope_insert s x v) = assocN y s.
  Proof.
    intro Hy. induction s as [|[k w] s IH]; cbn [scope_insert assocN].
    - destruct (N.eqb_spec y x); [contradiction|reflexivity].
    - destruct (N.ltb_spec x k) as [H|H].
      + cbn [assocN]. destruct (N.eqb_spec y x); [contradiction|reflexivity].
      + destruct (N.eqb_spec x k) as [->|Hne]; cbn [assocN].
        * destruct (N.eqb_spec y k); [contradiction|reflexivity].
        * destruct (N.eqb_spec y k); [reflexivity|exact IH].
  Qed.

  (* let_in_current_scope: the new binding is visible, every other name is untouched *)
  Theorem env_let_get (E E' : @cenv Wt) x v : env_let E x v = Ok E' -> env_get E' x = Some v.
  Proof.
    destruct E as [|s r]; cbn [env_let]; [discriminate|]. intros [= <-]. cbn [env_get]. now rewrite scope_insert_get.
  Qed.

  Theorem env_let_frame (E E' : @cenv Wt) x v y : env_let E x v = Ok E' -> y <> x -> env_get E' y = env_get E y.
  Proof.
    destruct E as [|s r]; cbn [env_let]; [discriminate|]. intros [= <-] Hy. cbn [env_get].
    now rewrite scope_insert_other.
  Qed.

  Lemma scope_replace_get (s s' : @scope Wt) x v : scope_replace s x v = Some s' -> assocN x s' = Some v.
  Proof.
    revert s'. induction s as [|[k w] s IH]; intros s'; cbn [scope_replace]; [discriminate|].
    destruct (N.eqb_spec x k) as [->|Hne].
    - intros [= <-]. cbn [assocN]. now rewrite N.eqb_refl.
    - destruct (scope_replace s x v) as [r|]; [|discriminate]. intros [= <-]. cbn [assocN].
      destruct (N.eqb_spec x k); [contradiction|]. now apply IH.
  Qed.

  Lemma scope_replace_other (s s' : @scope Wt) x v y : scope_replace s x v = Some s' -> y <> x -> assocN y s' = assocN y s.
  Proof.
    revert s'. induction s as [|[k w] s IH]; intros s'; cbn [scope_replace]; [discriminate|].
    destruct (N.eqb_spec x k) as [->|Hne].
    - intros [= <-] Hy. cbn [assocN]. destruct (N.eqb_spec y k); [contradiction|reflexivity].
    - destruct (scope_replace s x v) as [r|]; [|discriminate]. intros [= <-] Hy. cbn [assocN].
      destruct (N.eqb_spec y k); [reflexivity|]. now apply IH.
  Qed.

  Lemma scope_replace_none (s : @scope Wt) x v : scope_replace s x v = None -> assocN x s = None.
  Proof.
    induction s as [|[k w] s IH]; cbn [scope_replace assocN]; [reflexivity|].
    destruct (N.eqb_spec x k); [discriminate|]. destruct (scope_replace s x v); [discriminate|]. intros _. now apply IH.
  Qed.

  (* assign_mut: the assigned name reads back the new value; no other name changes; the
     number of scopes does not change *)
  Theorem env_assign_get (E : @cenv Wt) : forall E' x v, env_assign E x v = Ok E' -> env_get E' x = Some v.
  Proof.
    induction E as [|s r IH]; intros E' x v; cbn [env_assign]; [discriminate|].
    destruct (scope_replace s x v) as [s'|] eqn:Es.
    - intros [= <-]. cbn [env_get]. now rewrite (scope_replace_get _ _ _ _ Es).
    - destruct (env_assign r x v) as [r'| |] eqn:Er; cbn [bind]; try discriminate. intros [= <-].
      cbn [env_get]. rewrite (scope_replace_none _ _ _ Es). eapply IH; eauto.
  Qed.

  Theorem env_assign_frame (E : @cenv Wt) : forall E' x v y, env_assign E x v = Ok E' -> y <> x ->
    env_get E' y = env_get E y.
  Proof.
    induction E as [|s r IH]; intros E' x v y; cbn [env_assign]; [discriminate|].
    destruct (scope_replace s x v) as [s'|] eqn:Es.
    - intros [= <-] Hy. cbn [env_get]. now rewrite (scope_replace_other _ _ _ _ _ Es Hy).
    - destruct (env_assign r x v) as [r'| |] eqn:Er; cbn [bind]; try discriminate. intros [= <-] Hy.
      cbn [env_get]. destruct (assocN y s); [reflexivity|]. eapply IH; eauto.
  Qed.

  Theorem env_assign_depth (E : @cenv Wt) : forall E' x v, env_assign E x v = Ok E' -> length E' = length E.
  Proof.
    induction E as [|s r IH]; intros E' x v; cbn [env_assign]; [discriminate|].
    destruct (scope_replace s x v) as [s'|].
    - intros [= <-]. reflexivity.
    - destruct (env_assign r x v) as [r'| |] eqn:Er; cbn [bind]; try discriminate. intros [= <-].
      cbn [length]. f_equal. eapply IH; eauto.
  Qed.

  (* a scope that is pushed and popped leaves the environment as it was: shadowing ends with
     the scope *)
  Theorem env_push_pop (E : @cenv Wt) : env_pop (env_push E) = Ok E.
  Proof. reflexivity. Qed.

  Theorem env_shadow_ends (E E1 E2 : @cenv Wt) x v y :
    env_let (env_push E) x v = Ok E1 -> env_pop E1 = Ok E2 -> env_get E2 y = env_get E y.
  Proof. cbn [env_push env_let]. intros [= <-]. cbn [env_pop]. intros [= <-]. reflexivity. Qed.
End Env.
