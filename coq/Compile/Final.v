(* THE FINAL FORM of the end-to-end statement: with the exhaustiveness check of the REAL algorithm
   (Exhaust/ExhSem.exh_fns, sound by Exhaust/ExhSound.v) among the Boolean premises, the "Sem.v is
   stuck on `no arm matches`" disjunct of Compile/EndToEnd.v disappears: the evaluated circuit
   returns exactly the value or exactly the panic of the source semantics. *)
From Coq Require Import Lia ZArith.
From GV Require Import Base.Util Lang.Ast Lang.Wt Lang.ValTy Circuit.Ssa Circuit.Reg Circuit.RegAlloc
  Circuit.RegAllocProofs Builder.Builder Panic.PanicRec Panic.PanicSem Compile.Lower Compile.TSem
  Compile.LowerSound Compile.TSemSafe Compile.TSemTotal Compile.TSemSemExpr Compile.TSemSemFull
  Compile.TSemSemFullCall Compile.TSemSemFullConst Compile.Fragment Compile.TSemSemFullWt Compile.SemFuel
  Compile.EndToEnd Exhaust.ExhSem Exhaust.ExhSound.
From GV Require Lang.Sem.
Local Open Scope N_scope.

Definition certified_exh (fuel : nat) (P : program) : bool := certified fuel P && exh_fns P.

(* the output is exactly the value, or exactly the panic, of the source semantics *)
Definition output_exact (fuel : nat) (P : program) (args : list (list bool)) (out : list bool) : Prop :=
  (exists bits l, Sem.run_main fuel P args = Sem.RunOk bits l /\
                  parse_panic out = Ok (inl bits) /\ skipn 161 out = bits) \/
  (exists r m, Sem.run_main fuel P args = Sem.RunPanic r m /\
               parse_panic out = Ok (inr (pr r, ploc32 (ploc_of m)))).

Lemma certified_parts fuel P : certified fuel P = true -> wt_covered 400 P = true.
Proof.
  unfold certified. intro H. do 4 (apply andb_prop in H as [H _]). exact H.
Qed.

Lemma output_spec_exact fuel P args out :
  wt_covered 400 P = true -> exh_fns P = true -> canonical_main_args P args = true ->
  output_spec fuel P args out -> output_exact fuel P args out.
Proof.
  intros Hcov Hexh Hcan [H|[H|(_ & c & Hc & _)]]; [left; exact H|right; exact H|].
  exfalso.
  assert (Hle : (400 <= wt_fuel)%nat) by (rewrite wt_fuel_400; apply le_n).
  destruct (covered_exh_run_main P fuel 400 args Hle Hcov Hexh Hcan) as [(b & l & E)|[(r & m & E)|E]]; congruence.
Qed.

Theorem end_to_end_exact fuel dedup P c :
  certified_exh fuel P = true -> within_gate_bound fuel dedup P = true ->
  lower_program_with fuel dedup P = Ok (LCircuit c) ->
  ssa_validate c = None /\ input_gates c = fst (main_wiring P) /\
  forall ins inp,
    load_inputs (input_gates c) ins = Some inp ->
    canonical_main_args P (main_args P inp) = true ->
    exists out, ssa_eval c ins = Some out /\ output_exact fuel P (main_args P inp) out.
Proof.
  unfold certified_exh. intros H Hb Hc. apply andb_prop in H as [Hcert Hexh].
  destruct (end_to_end fuel dedup P c Hcert Hb Hc) as (Hv & Hi & Hall).
  split; [exact Hv|]. split; [exact Hi|]. intros ins inp Hl Hcan.
  destruct (Hall ins inp Hl Hcan) as (out & He & Hs). exists out. split; [exact He|].
  exact (output_spec_exact fuel P _ out (certified_parts fuel P Hcert) Hexh Hcan Hs).
Qed.

Theorem end_to_end_register_exact fuel dedup P c :
  certified_exh fuel P = true -> within_gate_bound fuel dedup P = true ->
  lower_program_with fuel dedup P = Ok (LCircuit c) ->
  exists rc, convert c = Ok rc /\ reg_validate rc = Ok None /\ input_regs rc = fst (main_wiring P) /\
  forall ins inp,
    load_inputs (input_regs rc) ins = Some inp ->
    canonical_main_args P (main_args P inp) = true ->
    exists out, reg_eval rc ins = Some out /\ output_exact fuel P (main_args P inp) out.
Proof.
  unfold certified_exh. intros H Hb Hc. apply andb_prop in H as [Hcert Hexh].
  destruct (end_to_end_register fuel dedup P c Hcert Hb Hc) as (rc & Hcv & Hv & Hi & Hall).
  exists rc. split; [exact Hcv|]. split; [exact Hv|]. split; [exact Hi|]. intros ins inp Hl Hcan.
  destruct (Hall ins inp Hl Hcan) as (out & He & Hs). exists out. split; [exact He|].
  exact (output_spec_exact fuel P _ out (certified_parts fuel P Hcert) Hexh Hcan Hs).
Qed.

Print Assumptions end_to_end_exact.
Print Assumptions end_to_end_register_exact.
