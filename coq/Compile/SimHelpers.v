(* Simulation lemmas for the pure and monadic helpers of the generic lowering (everything of
   Lower.v before the statements / expressions / patterns). *)
From GV Require Import Base.Util Base.NMap Lang.Ast Builder.Builder Builder.BuilderSem Builder.BuilderSpec
  Gadgets.Gadgets Gadgets.GadgetSpec Gadgets.GadgetHoare Sort.Sort Sort.SortHoare
  Panic.PanicRec Panic.PanicSem Panic.PanicProofs Compile.Lower Compile.TSem Compile.SimBase Compile.SimOps.

(* moves every value relation of the context from the state [s] of [He : extS s s1] to [s1] *)
Ltac lift_to He :=
  match type of He with
  | extS ?s ?s1 =>
      match goal with
      | HS0 : SimBase.RS _ _ s _ |- _ =>
          let Hi := fresh "Hi" in
          pose proof (RS_ins _ _ _ _ HS0) as Hi;
          repeat match goal with
            | H : SimBase.Rw _ s _ _ |- _ => apply (Rw_mono _ s s1 _ _ He Hi) in H
            | H : SimBase.Rws _ s _ _ |- _ => apply (Rws_mono _ s s1 _ _ He Hi) in H
            | H : SimBase.Rwss _ s _ _ |- _ => apply (Rwss_mono _ s s1 _ _ He Hi) in H
            | H : SimBase.RE _ s _ _ |- _ => apply (RE_mono _ s s1 _ _ He Hi) in H
            | H : SimBase.RP _ s _ _ |- _ => apply (RP_mono _ s s1 _ _ He Hi) in H
            | H : Forall2 (SimBase.Rw _ s) _ _ |- _ => apply (Rws_mono _ s s1 _ _ He Hi) in H
            | H : SimBase.Rscope _ s _ _ |- _ => apply (Rscope_mono _ s s1 _ _ He Hi) in H
            | H : Forall2 (SimBase.Rbind _ s) _ _ |- _ => apply (Rscope_mono _ s s1 _ _ He Hi) in H
            | H : Forall2 (SimBase.Rscope _ s) _ _ |- _ => apply (RE_mono _ s s1 _ _ He Hi) in H
            | H : Forall2 (SimBase.Rws _ s) _ _ |- _ => apply (Rwss_mono _ s s1 _ _ He Hi) in H
            end;
          clear Hi
      end
  end.

(* after [eapply sim_bind]: introduce the new state and results, move the context there *)
Ltac snext :=
  let s1 := fresh "s" in let o1 := fresh "o" in let He := fresh "He" in let HS1 := fresh "HS" in
  let HR := fresh "HR" in
  intros s1 o1 ? ? He HS1 HR; cbn beta in HR; lift_to He;
  match type of He with extS ?s _ =>
    match goal with HS0 : SimBase.RS _ _ s _ |- _ => clear HS0 end end.

Ltac sbind lem := eapply sim_bind; [eapply lem; eauto|snext].

Ltac unf := unfold m_xor, m_and, m_or, m_eq, m_not, m_mux, m_panic_if, m_peek, m_replace, m_mux_panic in *.

Section Helpers.
Variable inv : builder -> Prop.
Hypothesis ops : builder_ops_sound inv.
Variable inp : list bool.

Notation Rw := (Rw inp).
Notation Rws := (Rws inp).
Notation Rwss := (Rwss inp).
Notation RP := (RP inp).
Notation RS := (RS inv inp).
Notation RE := (RE inp).
Notation Rscope := (Rscope inp).
Notation Rbind := (Rbind inp).
Notation sim := (sim inv inp).

Local Hint Resolve extS_refl : core.

(* ------------------------------------------------------------------ constants and pure helpers *)

Lemma Rw_wF s o : RS s o -> Rw s (wF bops) (wF tops).
Proof. apply (Rw_const0 inv ops). Qed.
Lemma Rw_wT s o : RS s o -> Rw s (wT bops) (wT tops).
Proof. apply (Rw_const1 inv ops). Qed.

Lemma Rws_unsigned s o n k : RS s o -> Rws s (unsigned_as_wires bops n k) (unsigned_as_wires tops n k).
Proof.
  intro HS. unfold unsigned_as_wires. apply F2_map_same. intro i.
  destruct (N.testbit _ _); [eapply Rw_wT|eapply Rw_wF]; eauto.
Qed.

Lemma Rws_signed s o z k : RS s o -> Rws s (signed_as_wires bops z k) (signed_as_wires tops z k).
Proof.
  intro HS. unfold signed_as_wires. apply F2_map_same. intro i.
  destruct (Z.testbit _ _); [eapply Rw_wT|eapply Rw_wF]; eauto.
Qed.

Lemma Rws_repeat s w v n : Rw s w v -> Rws s (repeat w n) (repeat v n).
Proof. apply F2_repeat. Qed.

Lemma rel_slice {A B} (R : A -> B -> Prop) v vv a n y :
  Forall2 R v vv -> slice vv a n = Ok y -> exists x, slice v a n = Ok x /\ Forall2 R x y.
Proof.
  intros H E. unfold slice in *. rewrite (F2_length R _ _ H).
  destruct (a + n <=? length vv)%nat; [|discriminate]. injection E as <-.
  eexists. split; [reflexivity|]. apply F2_firstn, F2_skipn, H.
Qed.

Lemma rel_splice {A B} (R : A -> B -> Prop) v vv a n w ww y :
  Forall2 R v vv -> Forall2 R w ww -> splice vv a n ww = Ok y ->
  exists x, splice v a n w = Ok x /\ Forall2 R x y.
Proof.
  intros H Hw E. unfold splice in *. rewrite (F2_length R _ _ H), (F2_length R _ _ Hw).
  destruct ((a + n <=? length vv) && (length ww =? n))%nat; [|discriminate]. injection E as <-.
  eexists. split; [reflexivity|]. apply F2_app; [apply F2_firstn, H|]. apply F2_app; [exact Hw|]. apply F2_skipn, H.
Qed.

Lemma rel_hd_res {A B} (R : A -> B -> Prop) v vv y :
  Forall2 R v vv -> hd_res vv = Ok y -> exists x, hd_res v = Ok x /\ R x y.
Proof. intros H E. destruct H; cbn in *; [discriminate|]. injection E as <-. eauto. Qed.

Lemma rel_extend s o v vv sg bits y : RS s o -> Rws s v vv -> extend_g tops vv sg bits = Ok y ->
  exists x, extend_g bops v sg bits = Ok x /\ Rws s x y.
Proof.
  intros HS H E. unfold extend_g, W in *. destruct H as [|w b v vv Hw Hv].
  - injection E as <-. eexists. split; [reflexivity|]. apply Rws_repeat. eapply Rw_wF; eauto.
  - assert (L : length (w :: v) = length (b :: vv)) by (cbn; f_equal; eapply F2_length; eauto).
    rewrite L. destruct (length (b :: vv) =? bits)%nat.
    + injection E as <-. eexists. split; [reflexivity|]. constructor; auto.
    + destruct (bits <? length (b :: vv))%nat; [discriminate|]. injection E as <-.
      eexists. split; [reflexivity|]. apply F2_app; [|constructor; auto].
      apply Rws_repeat. destruct sg; [exact Hw|eapply Rw_wF; eauto].
Qed.

(* ---- environments *)

Lemma rel_assoc s (a : @scope N) (b : @scope bool) x vv : Rscope s a b -> assocN x b = Some vv ->
  exists v, assocN x a = Some v /\ Rws s v vv.
Proof.
  induction 1 as [|[k v] [k' v'] a b [Hk Hv] _ IH]; cbn [assocN]; [discriminate|].
  cbn [fst snd] in Hk, Hv. subst k'. destruct (x =? k); [|exact IH].
  intros [= <-]. eauto.
Qed.

Lemma rel_assoc_none s (a : @scope N) (b : @scope bool) x : Rscope s a b -> assocN x b = None -> assocN x a = None.
Proof.
  induction 1 as [|[k v] [k' v'] a b [Hk Hv] _ IH]; cbn [assocN]; [reflexivity|].
  cbn [fst snd] in Hk. subst k'. destruct (x =? k); [discriminate|exact IH].
Qed.

Lemma rel_env_get s E EB x vv : RE s E EB -> env_get EB x = Some vv ->
  exists v, env_get E x = Some v /\ Rws s v vv.
Proof.
  induction 1 as [|a b E EB Hab _ IH]; cbn [env_get]; [discriminate|].
  destruct (assocN x b) as [w|] eqn:Eb.
  - intros [= <-]. destruct (rel_assoc _ _ _ _ _ Hab Eb) as (v & -> & Hv). eauto.
  - rewrite (rel_assoc_none _ _ _ _ Hab Eb). exact IH.
Qed.

Lemma rel_scope_insert s a b x v vv : Rscope s a b -> Rws s v vv ->
  Rscope s (scope_insert a x v) (scope_insert b x vv).
Proof.
  intros H Hv. induction H as [|[k w] [k' w'] a b [Hk Hw] Hr IH]; cbn [scope_insert].
  - constructor; [split; auto|constructor].
  - cbn [fst snd] in Hk, Hw. subst k'. destruct (x <? k).
    + constructor; [split; auto|]. constructor; [split; auto|exact Hr].
    + destruct (x =? k); constructor; try (split; auto); auto.
Qed.

Lemma rel_env_let s E EB x v vv EB' : RE s E EB -> Rws s v vv -> env_let EB x vv = Ok EB' ->
  exists E', env_let E x v = Ok E' /\ RE s E' EB'.
Proof.
  intros H Hv. destruct H as [|a b E EB Hab Hr]; cbn [env_let]; [discriminate|].
  intros [= <-]. eexists. split; [reflexivity|]. constructor; [|exact Hr]. now apply rel_scope_insert.
Qed.

Lemma rel_scope_replace s a b x v vv b' : Rscope s a b -> Rws s v vv -> scope_replace b x vv = Some b' ->
  exists a', scope_replace a x v = Some a' /\ Rscope s a' b'.
Proof.
  intros H Hv. revert b'. induction H as [|[k w] [k' w'] a b [Hk Hw] Hr IH]; cbn [scope_replace]; [discriminate|].
  cbn [fst snd] in Hk, Hw. subst k'. intro b'. destruct (x =? k).
  - intros [= <-]. eexists. split; [reflexivity|]. constructor; [split; auto|exact Hr].
  - destruct (scope_replace b x vv) as [rb|] eqn:Eb; [|discriminate]. intros [= <-].
    destruct (IH rb eq_refl) as (ra & -> & Hra). eexists. split; [reflexivity|]. constructor; [split; auto|exact Hra].
Qed.

Lemma rel_scope_replace_none s a b x v vv : Rscope s a b -> scope_replace b x vv = None -> scope_replace a x v = None.
Proof.
  induction 1 as [|[k w] [k' w'] a b [Hk Hw] Hr IH]; cbn [scope_replace]; [reflexivity|].
  cbn [fst snd] in Hk. subst k'. destruct (x =? k); [discriminate|].
  destruct (scope_replace b x vv); [discriminate|]. intros _. now rewrite IH.
Qed.

Lemma rel_env_assign s E EB x v vv EB' : RE s E EB -> Rws s v vv -> env_assign EB x vv = Ok EB' ->
  exists E', env_assign E x v = Ok E' /\ RE s E' EB'.
Proof.
  intros H Hv. revert EB'. induction H as [|a b E EB Hab Hr IH]; cbn [env_assign]; [discriminate|]. intro EB'.
  destruct (scope_replace b x vv) as [b'|] eqn:Eb.
  - intros [= <-]. destruct (rel_scope_replace _ _ _ _ _ _ _ Hab Hv Eb) as (a' & -> & Ha').
    eexists. split; [reflexivity|]. constructor; assumption.
  - rewrite (rel_scope_replace_none _ _ _ _ v _ Hab Eb).
    destruct (env_assign EB x vv) as [r| |] eqn:Er; cbn [bind]; try discriminate. intros [= <-].
    destruct (IH r eq_refl) as (ra & -> & Hra). cbn [bind]. eexists. split; [reflexivity|]. constructor; assumption.
Qed.

Lemma rel_env_pop s E EB EB' : RE s E EB -> env_pop EB = Ok EB' -> exists E', env_pop E = Ok E' /\ RE s E' EB'.
Proof. intros H. destruct H; cbn [env_pop]; [discriminate|]. intros [= <-]. eauto. Qed.

Lemma rel_env_push s E EB : RE s E EB -> RE s (env_push E) (env_push EB).
Proof. intro H. constructor; [constructor|exact H]. Qed.

(* ------------------------------------------------------------------ list helpers *)

Lemma sim_mapM_M s o (fA : N -> MA N) (fB : bool -> MB bool) xs : forall vxs, RS s o -> Rws s xs vxs ->
  (forall s1 o1 x vx, extS s s1 -> RS s1 o1 -> Rw s1 x vx -> sim s1 o1 (fA x) (fB vx) (fun s' r v => Rw s' r v)) ->
  sim s o (mapM_M fA xs) (mapM_M fB vxs) (fun s' r v => Rws s' r v).
Proof.
  revert s o. induction xs as [|x xs IH]; intros s o vxs HS Hx Hf; inversion Hx; subst; cbn [mapM_M].
  - apply sim_ret; [exact HS|constructor].
  - eapply sim_bind; [apply Hf; auto|]. intros s1 o1 r v He HS1 HR.
    assert (Hxs : Rws s1 xs l') by (eapply Rws_mono; eauto; eapply RS_ins; eauto).
    eapply sim_bind; [apply IH; [exact HS1|exact Hxs|]|].
    + intros. apply Hf; auto. eapply extS_trans; eauto.
    + intros s2 o2 rs vs He2 HS2 HR2. apply sim_ret; [exact HS2|]. constructor; [|exact HR2].
      eapply Rw_mono; eauto. eapply RS_ins; eauto.
Qed.

Lemma sim_map2_M s o (fA : N -> N -> MA N) (fB : bool -> bool -> MB bool) xs : forall ys vxs vys,
  RS s o -> Rws s xs vxs -> Rws s ys vys ->
  (forall s1 o1 x y vx vy, extS s s1 -> RS s1 o1 -> Rw s1 x vx -> Rw s1 y vy ->
      sim s1 o1 (fA x y) (fB vx vy) (fun s' r v => Rw s' r v)) ->
  sim s o (map2_M fA xs ys) (map2_M fB vxs vys) (fun s' r v => Rws s' r v).
Proof.
  revert s o. induction xs as [|x xs IH]; intros s o ys vxs vys HS Hx Hy Hf; inversion Hx; subst;
    inversion Hy; subst; cbn [map2_M]; try apply sim_crash.
  - apply sim_ret; [exact HS|constructor].
  - eapply sim_bind; [apply Hf; auto|]. intros s1 o1 r v He HS1 HR.
    pose proof (RS_ins _ _ _ _ HS) as Hi.
    eapply sim_bind; [apply IH; [exact HS1|eapply Rws_mono; eauto|eapply Rws_mono; eauto|]|].
    + intros. apply Hf; auto. eapply extS_trans; eauto.
    + intros s2 o2 rs vs He2 HS2 HR2. apply sim_ret; [exact HS2|]. constructor; [|exact HR2].
      eapply Rw_mono; eauto. eapply RS_ins; eauto.
Qed.

(* the closures passed to mapM_M / map2_M mention wires of the enclosing state *)
Ltac close_f :=
  let He := fresh "He" in let HS1 := fresh "HS" in
  intros ? ? ? ? He HS1; intros; lift_to He.

Lemma sim_mux_bits s o c vc xs ys vxs vys : RS s o -> Rw s c vc -> Rws s xs vxs -> Rws s ys vys ->
  sim s o (mux_bits bops c xs ys) (mux_bits tops vc vxs vys) (fun s' r v => Rws s' r v).
Proof.
  intros HS Hc Hx Hy. unfold mux_bits. rewrite (Rws_length _ _ _ _ Hx), (Rws_length _ _ _ _ Hy).
  destruct (negb _); [apply sim_crash|].
  apply sim_map2_M; auto. intros s1 o1 x y vx vy He HS1 Hx1 Hy1. unf. lift_to He. apply sim_mux; auto.
Qed.

Lemma sim_mux_scope s o c vc a : forall b a' b', RS s o -> Rw s c vc -> Rscope s a a' -> Rscope s b b' ->
  sim s o (mux_scope bops c a b) (mux_scope tops vc a' b') (fun s' r v => Rscope s' r v).
Proof.
  revert s o. induction a as [|[k va] a IH]; intros s o b a' b' HS Hc Ha Hb; inversion Ha; subst; cbn [mux_scope].
  - apply sim_ret; [exact HS|constructor].
  - destruct y as [k' va']. destruct H1 as [Hk Hva]. cbn [fst snd] in Hk, Hva. subst k'.
    destruct (assocN k b') as [vb'|] eqn:Eb; [|apply sim_crash].
    destruct (rel_assoc _ _ _ _ _ Hb Eb) as (vb & -> & Hvb).
    sbind sim_mux_bits. eapply sim_bind; [eapply IH; eauto|snext].
    apply sim_ret; [assumption|]. constructor; [split; auto|assumption].
Qed.

Lemma sim_mux_scopes s o c vc sa : forall sb sa' sb', RS s o -> Rw s c vc ->
  Forall2 (Rscope s) sa sa' -> Forall2 (Rscope s) sb sb' ->
  sim s o (mux_scopes bops c sa sb) (mux_scopes tops vc sa' sb') (fun s' r v => RE s' r v).
Proof.
  revert s o. induction sa as [|a sa IH]; intros s o sb sa' sb' HS Hc Ha Hb; inversion Ha; subst;
    inversion Hb; subst; cbn [mux_scopes]; try apply sim_crash.
  - apply sim_ret; [exact HS|constructor].
  - sbind sim_mux_scope. eapply sim_bind; [eapply IH; eauto|snext].
    apply sim_ret; [assumption|]. constructor; assumption.
Qed.

Lemma sim_mux_envs s o c vc a b a' b' : RS s o -> Rw s c vc -> RE s a a' -> RE s b b' ->
  sim s o (mux_envs bops c a b) (mux_envs tops vc a' b') (fun s' r v => RE s' r v).
Proof.
  intros HS Hc Ha Hb. unfold mux_envs.
  rewrite (F2_length _ _ _ Ha), (F2_length _ _ _ Hb). destruct (negb _); [apply sim_crash|].
  eapply sim_bind; [eapply sim_mux_scopes; eauto; apply F2_rev; assumption|snext].
  apply sim_ret; [assumption|]. apply F2_rev. assumption.
Qed.

End Helpers.
