(* Programs that the widened tests accept, as typed ASTs exported by the real checker
   (tools: gv-run lower + /tmp/diag/tocoq.py). *)
From Coq Require Import ZArith List. Import ListNotations.
From GV Require Import Base.Util Lang.Ast Lang.Wt Compile.TSemSafe Compile.TSemTotal Compile.EndToEnd Compile.Final Exhaust.ExhSem.
Local Open Scope N_scope.

(* struct S { a: u8, b: bool, c: u16 }
   pub fn main(s: S) -> u16 { match s { S { a: 0u8, b: true, c } => c, S { c: 7u16, .. } => 1u16,
     S { b: false, a, .. } => a as u16, S { a: 1u8..5u8, b: _, c: _ } => 2u16, _ => 3u16 } }
   - the checker exports `..` patterns with the flag 0 and the named fields in definition order;
     `_` is the name 1: the fourth arm binds it twice (TSemSafe.ok_pat: fields in definition order);
   - the second and third arm name only some fields (ExhSem.tr_pat: always `..`). *)
Definition match_struct_patterns : program := (mkProgram [(0, [(2, (TInt false 8)); (3, TBool); (4, (TInt false 16))])] [] [(mkFn 5 [(6, (TStruct 0))] (TInt false 16) [(St (SExpr (Ex (EMatch (Ex (EId 6) (mkMeta 0 68 0 69) (TStruct 0)) [((Pat (PStruct 0 false [(2, (Pat (PNumU 0) (mkMeta 0 79 0 82) (TInt false 8))); (3, (Pat PTrue (mkMeta 0 87 0 91) TBool)); (4, (Pat (PId 4) (mkMeta 0 93 0 94) (TInt false 16)))]) (mkMeta 0 72 0 73) (TStruct 0)), (Ex (EBlock [(St (SExpr (Ex (EId 4) (mkMeta 0 100 0 101) (TInt false 16))) (mkMeta 0 100 0 101))]) (mkMeta 0 100 0 101) (TInt false 16))); ((Pat (PStruct 0 false [(4, (Pat (PNumU 7) (mkMeta 0 110 0 114) (TInt false 16)))]) (mkMeta 0 103 0 104) (TStruct 0)), (Ex (EBlock [(St (SExpr (Ex (ENumU 1 16) (mkMeta 0 124 0 128) (TInt false 16))) (mkMeta 0 124 0 128))]) (mkMeta 0 124 0 128) (TInt false 16))); ((Pat (PStruct 0 false [(2, (Pat (PId 2) (mkMeta 0 144 0 145) (TInt false 8))); (3, (Pat PFalse (mkMeta 0 137 0 142) TBool))]) (mkMeta 0 130 0 131) (TStruct 0)), (Ex (EBlock [(St (SExpr (Ex (ECast (TInt false 16) (Ex (EId 2) (mkMeta 0 155 0 156) (TInt false 8))) (mkMeta 0 155 0 163) (TInt false 16))) (mkMeta 0 155 0 163))]) (mkMeta 0 155 0 163) (TInt false 16))); ((Pat (PStruct 0 false [(2, (Pat (PURange 1 4) (mkMeta 0 172 0 180) (TInt false 8))); (3, (Pat (PId 1) (mkMeta 0 185 0 186) TBool)); (4, (Pat (PId 1) (mkMeta 0 191 0 192) (TInt false 16)))]) (mkMeta 0 165 0 166) (TStruct 0)), (Ex (EBlock [(St (SExpr (Ex (ENumU 2 16) (mkMeta 0 198 0 202) (TInt false 16))) (mkMeta 0 198 0 202))]) (mkMeta 0 198 0 202) (TInt false 16))); ((Pat (PId 1) (mkMeta 0 204 0 205) (TStruct 0)), (Ex (EBlock [(St (SExpr (Ex (ENumU 3 16) (mkMeta 0 209 0 213) (TInt false 16))) (mkMeta 0 209 0 213))]) (mkMeta 0 209 0 213) (TInt false 16)))]) (mkMeta 0 62 0 215) (TInt false 16))) (mkMeta 0 62 0 215))])] [] 5).

Example match_struct_patterns_certified :
  safe_program_ok match_struct_patterns = true /\ exh_fns match_struct_patterns = true /\
  certified_exh 2000 match_struct_patterns = true /\
  within_gate_bound 2000 true match_struct_patterns = true /\ within_gate_bound 2000 false match_struct_patterns = true.
Proof. vm_compute. repeat split; reflexivity. Qed.
