(* C13, second half: the `join` BUILT-IN at the bit level.  Sem.v does not specify EJoin, so
   the theorem is about Lower.v over TSem.tops directly: the pipeline of the EJoin case of
   lower_expr_body (bitonic_input, the merger, join_func_windows, the sorter on the flag bit)
   on two vectors of elements whose keys are ASCENDING (repeats allowed) returns
   na + nb - 1 entries of one width, [flag] ++ a-element ++ (b-element if has_assoc):
     (1) the flags are sorted, unflagged entries FIRST;
     (2) unflagged entries are all zero;
     (3) the flagged entries are exactly one per common key (strictly ascending keys before
         the final sort), also when an input repeats a key;
     (4) each is built from one element of a and one element of b with that key;
     (5) the panic observation is untouched.
   Which of several elements with a repeated key is reported is not determined
   ([repeated_key_choice]). *)
From Coq Require Import Lia ZArith Permutation Sorting.Sorted.
From GV Require Import Base.Util Base.Bits Base.BitsProofs Lang.Ast
  Gadgets.Gadgets Gadgets.GadgetSpec Sort.Sort Sort.SortProofs Sort.ZeroOne Sort.SortUnbounded
  Panic.PanicRec Panic.PanicSem Compile.Lower Compile.TSem Compile.TSemFacts Compile.TSemArray Compile.TSemSemExpr Compile.ValEnc
  Compile.TSemSticky Compile.TSemSemStmt Compile.JoinMerge Compile.TSemSemJoin.
From GV Require Lang.Sem.
Local Open Scope N_scope.

(* ================================================================ one window of the join function *)

Lemma tsem_mapM_mux (je : bool) : forall (l : list bool) (o : pobs),
  mapM_M (fun g => m_mux tops je g (wF tops)) l o = Ok (map (fun g => if je then g else false) l, o).
Proof.
  induction l as [|g l IH]; intro o; [reflexivity|]. cbn [mapM_M map]. unfold mbind at 1.
  change (m_mux tops je g (wF tops) o) with (Ok ((if je then g else false), o)). cbn iota beta.
  unfold mbind at 1. rewrite IH. reflexivity.
Qed.

Section Fn.
  Variables eba ebb jts : nat.
  Variable ha : bool.
  Hypothesis Ja : (jts <= eba)%nat.
  Hypothesis Jb : (jts <= ebb)%nat.

  Notation mkB := (mkb eba ebb jts).
  Notation iLen := (ilen eba ebb jts).
  Notation jB := (jbit jts).

  (* the data of an entry before masking: the a-part of the first element, the b-part of the second *)
  Definition parts (h w : item) : list bool :=
    firstn eba (rsz eba ebb (ienc h)) ++ (if ha then firstn ebb (rsz eba ebb (ienc w)) else []).
  Definition entry (h w : item) : list bool :=
    jB h w :: map (fun g => if jB h w then g else false) (parts h w).
  Definition width : nat := S (eba + (if ha then ebb else 0)).

  Lemma parts_length h w : iLen h -> iLen w -> length (parts h w) = (eba + (if ha then ebb else 0))%nat.
  Proof.
    intros Hh Hw. unfold parts. rewrite app_length, firstn_length, (rsz_length eba ebb _ (ilen_le eba ebb jts h Hh)).
    destruct ha; [rewrite firstn_length, (rsz_length eba ebb _ (ilen_le eba ebb jts w Hw))|cbn [length]]; lia.
  Qed.

  Lemma entry_length h w : iLen h -> iLen w -> length (entry h w) = width.
  Proof. intros Hh Hw. unfold entry, width. cbn [length]. rewrite map_length, (parts_length h w Hh Hw). reflexivity. Qed.

  Lemma window_binding_fn h w (o : pobs) : iLen h -> iLen w ->
    window_binding tops (mkB h) (mkB w) eba ebb jts true ha o = Ok ((jB h w, jB h w :: parts h w), o).
  Proof.
    intros Hh Hw. unfold window_binding.
    unfold mbind at 1. rewrite (remove_at_mkb eba ebb jts h Hh). cbn [lift_res].
    unfold mbind at 1. rewrite (remove_at_mkb eba ebb jts w Hw). cbn [lift_res].
    assert (La : length (firstn eba (rsz eba ebb (ienc h))) = eba).
    { rewrite firstn_length, (rsz_length eba ebb _ (ilen_le eba ebb jts h Hh)). lia. }
    assert (Lb : length (firstn ebb (rsz eba ebb (ienc w))) = ebb).
    { rewrite firstn_length, (rsz_length eba ebb _ (ilen_le eba ebb jts w Hw)). lia. }
    unfold slice. rewrite La, Lb. cbn [Nat.add skipn].
    rewrite (proj2 (Nat.leb_le jts eba) Ja), (proj2 (Nat.leb_le jts ebb) Jb).
    unfold mbind at 1. cbn [lift_res]. unfold mbind at 1. cbn [lift_res].
    rewrite !firstn_firstn. replace (Nat.min jts eba) with jts by lia. replace (Nat.min jts ebb) with jts by lia.
    rewrite (firstn_rsz eba ebb jts h Hh), (firstn_rsz eba ebb jts w Hw).
    unfold mbind at 1. cbn [o_eq_circuit tops tret]. unfold mbind at 1. cbn [m_xor o_xor tops tret].
    unfold mbind at 1. cbn [m_and o_and tops tret]. unfold ret. cbn [app tl]. reflexivity.
  Qed.

  (* the entries of the adjacent windows *)
  Fixpoint wentries (M : list item) : list (list bool) :=
    match M with
    | h :: ((w :: _) as r) => entry h w :: wentries r
    | _ => []
    end.

  Lemma wentries_length M : length (wentries M) = (length M - 1)%nat.
  Proof.
    induction M as [|h [|w r] IH]; try reflexivity. cbn [wentries length] in *. lia.
  Qed.

  Lemma join_func_windows_items M : Forall iLen M -> forall o : pobs,
    join_func_windows tops eba ebb jts ha (map mkB M) o = Ok (wentries M, o).
  Proof.
    induction M as [|h [|w r] IH]; intros HM o; try reflexivity.
    inversion HM as [|h0 r0 Hh Hr]; subst h0 r0. inversion Hr as [|w0 r0 Hw Hr']; subst w0 r0.
    cbn [map join_func_windows wentries]. unfold mbind at 1. rewrite (window_binding_fn h w o Hh Hw). cbn iota beta.
    unfold mbind at 1. unfold mbind at 1. rewrite tsem_mapM_mux. cbn iota beta. unfold ret at 1. cbn iota beta.
    change (mkB w :: map mkB r) with (map mkB (w :: r)). unfold mbind at 1. rewrite (IH Hr). reflexivity.
  Qed.
End Fn.

(* ================================================================ what the merger produces (keys may repeat) *)

Definition bitem (tg : bool) (e : list bool) : item := (tg, Sem.unit_val, e).
Definition bitems (tg : bool) (es : list (list bool)) : list item := map (bitem tg) es.

Section MergedBits.
  Variables eba ebb jts : nat.
  Hypothesis Ja : (jts <= eba)%nat.
  Hypothesis Jb : (jts <= ebb)%nat.

  Notation mkB := (mkb eba ebb jts).
  Notation KK := (K' jts).
  Notation iLen := (ilen eba ebb jts).

  (* the unsigned value of the key of an element *)
  Definition ekey (e : list bool) : N := Sort.bits_val (firstn jts e).
  Definition asc_le (es : list (list bool)) : Prop := StronglySorted N.le (map ekey es).
  Definition SLE : list item -> Prop := StronglySorted (fun a b => KK a <= KK b).

  Lemma bitems_ilen (tg : bool) (es : list (list bool)) : all_len (if tg then ebb else eba) es -> Forall iLen (bitems tg es).
  Proof.
    unfold bitems, all_len. intro H. apply Forall_map. eapply Forall_impl; [|exact H]. intros e He. cbn beta in He.
    unfold ilen, bitem. cbn [itag ienc fst snd]. rewrite He. split; [reflexivity|destruct tg; lia].
  Qed.

  Lemma KK_bitem (tg : bool) e : KK (bitem tg e) = 2 * ekey e + (if tg then 1 else 0).
  Proof. reflexivity. Qed.

  Lemma bitems_sorted (tg : bool) es : asc_le es -> StronglySorted N.le (map KK (bitems tg es)).
  Proof.
    unfold asc_le, bitems. rewrite map_map. intro H.
    replace (map (fun e => KK (bitem tg e)) es) with (map (fun k => 2 * k + (if tg then 1 else 0)) (map ekey es))
      by (rewrite map_map; reflexivity).
    induction H as [|a l _ IH Hall]; cbn [map]; constructor; [exact IH|].
    rewrite Forall_map. rewrite Forall_forall in *. intros b Hb. specialize (Hall b Hb). lia.
  Qed.

  Lemma SLE_of_map l : StronglySorted N.le (map KK l) -> SLE l.
  Proof. apply (strong_map_le KK). Qed.

  Theorem merged_bits ea eb (o : pobs) bitonic num_empty sorted o' :
    all_len eba ea -> all_len ebb eb -> asc_le ea -> asc_le eb ->
    bitonic_input tops (concat ea) (concat eb) eba (length ea) ebb (length eb) jts = Ok (bitonic, num_empty) ->
    o_merger tops (S jts) true bitonic o = Ok (sorted, o') ->
    o' = o /\ exists M, skipn num_empty sorted = map mkB M /\
      Permutation (bitems false ea ++ bitems true eb) M /\ SLE M.
  Proof.
    intros La Lb Sa Sb Hbi Hm.
    set (A0 := bitems false ea). set (B0 := bitems true eb).
    pose proof (bitems_ilen false ea La) as OkA. pose proof (bitems_ilen true eb Lb) as OkB. fold A0 B0 in OkA, OkB.
    set (mx := Nat.max eba ebb).
    set (np := (next_power_of_two (length ea + length eb) - length ea - length eb)%nat).
    set (pads := repeat (repeat false (S mx)) np).
    assert (Ebi : bitonic = pads ++ map mkB A0 ++ map mkB (rev B0) /\ num_empty = np).
    { unfold bitonic_input in Hbi.
      rewrite (chunks_concat_tops eba ea La), (chunks_concat_tops ebb eb Lb) in Hbi. cbn [bind] in Hbi.
      rewrite (mapM_res_map _ (fun e => mkB (bitem false e))) in Hbi.
      2:{ intros e He. apply (insert_at_mkb eba ebb jts (bitem false e)).
          exact (proj1 (Forall_forall _ _) OkA _ (in_map (bitem false) _ _ He)). }
      cbn [bind] in Hbi.
      rewrite (mapM_res_map _ (fun e => mkB (bitem true e))) in Hbi.
      2:{ intros e He. apply in_rev in He. apply (insert_at_mkb eba ebb jts (bitem true e)).
          exact (proj1 (Forall_forall _ _) OkB _ (in_map (bitem true) _ _ He)). }
      cbn [bind] in Hbi. injection Hbi as <- <-. split; [|reflexivity].
      unfold pads, np, A0, B0, bitems. rewrite map_map, <- map_rev, map_map. reflexivity. }
    destruct Ebi as [-> ->].
    cbn [o_merger tops] in Hm. destruct (elems_shape (S jts) (pads ++ map mkB A0 ++ map mkB (rev B0))); [|discriminate].
    injection Hm as <- <-. split; [reflexivity|].
    set (v := pads ++ map mkB A0 ++ map mkB (rev B0)).
    assert (Kpad : forall x, In x pads -> key (S jts) x = 0).
    { intros x Hx. apply repeat_spec in Hx. subst x. unfold key. rewrite firstn_repeat by (unfold mx; lia). apply sbits_val_repeat_false. }
    assert (Kitem : forall l, Forall iLen l -> map (key (S jts)) (map mkB l) = map KK l).
    { intros l Hl. rewrite map_map. apply map_ext_in. intros it Hit. apply key_mkb.
      exact (proj1 (Forall_forall _ _) Hl it Hit). }
    assert (OkBr : Forall iLen (rev B0)) by (apply Forall_rev; exact OkB).
    pose proof (bitems_sorted false ea Sa) as SA. pose proof (bitems_sorted true eb Sb) as SB. fold A0 B0 in SA, SB.
    destruct (next_power_of_two_spec (length ea + length eb)) as [Hge [k Hk]].
    assert (Lv : length v = (2 ^ k)%nat).
    { unfold v, pads, np. rewrite !app_length, repeat_length, !map_length, rev_length. unfold A0, B0, bitems.
      rewrite !map_length. rewrite <- Hk. lia. }
    assert (Hud : up_then_down (map (key (S jts)) v)).
    { exists (map (key (S jts)) (pads ++ map mkB A0)), (map (key (S jts)) (map mkB (rev B0))).
      split; [unfold v; now rewrite app_assoc, map_app|]. split.
      - unfold ascN. apply SS_le_sortedN. rewrite map_app. unfold elem in *. rewrite (Kitem A0 OkA).
        apply SS_le_zero_prefix; [|exact SA].
        apply Forall_forall. intros n Hn. apply in_map_iff in Hn. destruct Hn as (x & <- & Hx). apply Kpad. exact Hx.
      - unfold descN. rewrite (Kitem _ OkBr), map_rev, rev_involutive. apply SS_le_sortedN, SB. }
    destruct (merger_elems_up_down (S jts) v k Lv Hud) as [Hsorted Hperm].
    assert (Lp : length pads = np) by (unfold pads; apply repeat_length).
    assert (Hpre : firstn np (bitonic_merger (gt_key (S jts)) true v) = pads).
    { unfold bitonic_merger. rewrite merger_prefix_fixed.
      - unfold v. rewrite firstn_app, (firstn_all2 pads), Lp, Nat.sub_diag by lia. cbn [firstn]. apply app_nil_r.
      - intros x y Hx Hy. unfold gt_key, gtN. apply N.ltb_ge.
        assert (Hxp : In x pads).
        { unfold v in Hx. rewrite firstn_app, (firstn_all2 pads), Lp, Nat.sub_diag in Hx by lia. cbn [firstn] in Hx.
          rewrite app_nil_r in Hx. exact Hx. }
        rewrite (Kpad x Hxp). lia. }
    set (sorted := bitonic_merger (gt_key (S jts)) true v) in *.
    assert (Es : sorted = pads ++ skipn np sorted) by (rewrite <- Hpre; symmetry; apply firstn_skipn).
    set (rest := skipn np sorted) in *.
    assert (Prest : Permutation rest (map mkB (A0 ++ rev B0))).
    { rewrite Es in Hperm. unfold v in Hperm. rewrite map_app. eapply Permutation_app_inv_l. exact Hperm. }
    destruct (Permutation_map_inv _ _ Prest) as (M & EM & PM).
    exists M. split; [exact EM|].
    assert (PM' : Permutation (A0 ++ B0) M).
    { eapply Permutation_trans; [|exact PM]. apply Permutation_app_head. apply Permutation_rev. }
    split; [exact PM'|].
    assert (OkM : Forall iLen M).
    { apply Forall_forall. intros it Hit. apply (Permutation_in _ (Permutation_sym PM')) in Hit.
      apply in_app_or in Hit. destruct Hit as [Hit|Hit]; [exact (proj1 (Forall_forall _ _) OkA it Hit)|exact (proj1 (Forall_forall _ _) OkB it Hit)]. }
    apply SLE_of_map.
    assert (EKM : map KK M = map (key (S jts)) rest) by (rewrite EM; symmetry; apply Kitem; exact OkM).
    rewrite EKM. apply sortedN_strong in Hsorted. rewrite Es, map_app in Hsorted.
    exact (SS_app_tail _ _ _ Hsorted).
  Qed.
End MergedBits.

(* ================================================================ the joined windows of a sorted vector *)

Section Windows.
  Variables eba ebb jts : nat.
  Variable ha : bool.
  Hypothesis Ja : (jts <= eba)%nat.
  Hypothesis Jb : (jts <= ebb)%nat.

  Notation KK := (K' jts).
  Notation kvI := (kvi jts).
  Notation iLen := (ilen eba ebb jts).
  Notation jB := (jbit jts).
  Notation SLe := (SLE jts).

  Fixpoint jpairs (M : list item) : list (item * item) :=
    match M with
    | h :: ((w :: _) as r) => (if jB h w then [(h, w)] else []) ++ jpairs r
    | _ => []
    end.

  Lemma klen it : iLen it -> length (kbits jts it) = jts.
  Proof. intros [_ H]. unfold kbits. rewrite firstn_length. lia. Qed.

  (* a joined window of a sorted vector: an element of a followed by an element of b, same key *)
  Lemma jbit_sorted h w : iLen h -> iLen w -> KK h <= KK w -> jB h w = true ->
    itag h = false /\ itag w = true /\ kbits jts h = kbits jts w.
  Proof.
    intros Hh Hw Hle Hj. unfold jbit in Hj. apply andb_prop in Hj. destruct Hj as [E1 E2].
    apply eq_s_true_iff in E1; [|rewrite (klen h Hh), (klen w Hw); reflexivity].
    unfold K', kvi in Hle. rewrite E1 in Hle. destruct (itag h), (itag w); try discriminate E2; try lia. auto.
  Qed.

  Lemma jpairs_facts M : Forall iLen M -> SLe M -> forall h w, In (h, w) (jpairs M) ->
    In h M /\ In w M /\ itag h = false /\ itag w = true /\ kbits jts h = kbits jts w.
  Proof.
    induction M as [|h0 [|w0 r] IH]; intros HM HS h w Hin; try (destruct Hin).
    inversion HM as [|x l Hh0 Hr]; subst x l. inversion Hr as [|x l Hw0 _]; subst x l.
    inversion HS as [|x l HS' Hall]; subst x l. inversion Hall as [|x l Hle _]; subst x l.
    cbn [jpairs] in Hin. apply in_app_or in Hin. destruct Hin as [Hin|Hin].
    - destruct (jB h0 w0) eqn:Ej; [|destruct Hin]. destruct Hin as [[= <- <-]|[]].
      destruct (jbit_sorted h0 w0 Hh0 Hw0 Hle Ej) as (T1 & T2 & Ek).
      split; [now left|]. split; [right; now left|]. auto.
    - destruct (IH Hr HS' h w Hin) as (I1 & I2 & Rest). split; [now right|]. split; [now right|exact Rest].
  Qed.

  (* the keys of the joined windows increase strictly: every common key is reported once *)
  Lemma jpairs_lower M : Forall iLen M -> SLe M -> forall h0 p, hd_error M = Some h0 -> In p (jpairs M) ->
    KK h0 <= 2 * kvI (fst p).
  Proof.
    induction M as [|m [|w r] IH]; intros HM HS h0 p Hh Hin; try (destruct Hin).
    cbn [hd_error] in Hh. injection Hh as <-.
    inversion HM as [|x l Hm Hr]; subst x l. inversion Hr as [|x l Hw _]; subst x l.
    inversion HS as [|x l HS' Hall]; subst x l. inversion Hall as [|x l Hle _]; subst x l.
    cbn [jpairs] in Hin. apply in_app_or in Hin. destruct Hin as [Hin|Hin].
    - destruct (jB m w) eqn:Ej; [|destruct Hin]. destruct Hin as [<-|[]]. cbn [fst].
      destruct (jbit_sorted m w Hm Hw Hle Ej) as (T1 & _ & _). unfold K'. rewrite T1. lia.
    - specialize (IH Hr HS' w p eq_refl Hin). lia.
  Qed.

  Lemma jpairs_strict M : Forall iLen M -> SLe M -> StronglySorted N.lt (map (fun p => kvI (fst p)) (jpairs M)).
  Proof.
    induction M as [|m [|w r] IH]; intros HM HS; try constructor.
    inversion HM as [|x l Hm Hr]; subst x l. inversion Hr as [|x l Hw _]; subst x l.
    inversion HS as [|x l HS' Hall]; subst x l. inversion Hall as [|x l Hle _]; subst x l.
    cbn [jpairs]. destruct (jB m w) eqn:Ej; cbn [app map]; [|exact (IH Hr HS')].
    constructor; [exact (IH Hr HS')|]. cbn [fst]. rewrite Forall_map. apply Forall_forall. intros p Hp.
    pose proof (jpairs_lower (w :: r) Hr HS' w p eq_refl Hp) as Hlow.
    destruct (jbit_sorted m w Hm Hw Hle Ej) as (_ & T2 & Ek). unfold K', kvi in Hlow. rewrite T2, <- Ek in Hlow.
    unfold kvi. lia.
  Qed.

  (* every key that occurs with both tags is reported *)
  Lemma jpairs_complete M : Forall iLen M -> SLe M -> forall x y, In x M -> In y M ->
    itag x = false -> itag y = true -> kvI x = kvI y -> exists p, In p (jpairs M) /\ kvI (fst p) = kvI x.
  Proof.
    intros HM HS x y Hx Hy Tx Ty Ek.
    assert (G : forall M, Forall iLen M -> SLe M -> forall c, (exists x, In x M /\ KK x = 2 * c) ->
              (exists y, In y M /\ KK y = 2 * c + 1) -> exists p, In p (jpairs M) /\ kvI (fst p) = c).
    { clear x y Hx Hy Tx Ty Ek HM HS. clear M. intro M. induction M as [|m r IH]; intros HM HS c (x & Hx & Kx) (y & Hy & Ky); [destruct Hx|].
      inversion HM as [|x0 l Hm Hr]; subst x0 l. inversion HS as [|x0 l HS' Hall]; subst x0 l. rewrite Forall_forall in Hall.
      assert (Hyr : In y r).
      { destruct Hy as [->|Hy]; [|exact Hy]. exfalso. destruct Hx as [->|Hx]; [lia|]. specialize (Hall x Hx). lia. }
      destruct r as [|w r']; [destruct Hyr|].
      assert (Step : (exists x', In x' (w :: r') /\ KK x' = 2 * c) -> exists p, In p (jpairs (m :: w :: r')) /\ kvI (fst p) = c).
      { intro Hx'. destruct (IH Hr HS' c Hx' (ex_intro _ y (conj Hyr Ky))) as (p & Hp & Ep).
        exists p. split; [|exact Ep]. cbn [jpairs]. apply in_or_app. now right. }
      destruct Hx as [->|Hx]; [|apply Step; eauto].
      inversion Hr as [|x0 l Hw _]; subst x0 l.
      pose proof (Hall w (or_introl eq_refl)) as Hmw.
      assert (Hwy : KK w <= KK y).
      { destruct Hyr as [->|Hyr]; [lia|]. inversion HS' as [|x0 l _ Hall']; subst x0 l. rewrite Forall_forall in Hall'. auto. }
      destruct (N.eq_dec (KK w) (2 * c)) as [Ew|Ew]; [apply Step; exists w; split; [now left|exact Ew]|].
      assert (Kw : KK w = 2 * c + 1) by lia.
      exists (x, w). split.
      - cbn [jpairs]. apply in_or_app. left.
        assert (Ej : jB x w = true).
        { unfold jbit. unfold K', kvi in Kx, Kw.
          assert (Tx : itag x = false) by (destruct (itag x); [lia|reflexivity]).
          assert (Tw : itag w = true) by (destruct (itag w); [reflexivity|lia]).
          rewrite Tx, Tw in *. cbn [xorb]. rewrite andb_true_r. apply eq_s_true_iff; [rewrite (klen x Hm), (klen w Hw); reflexivity|].
          apply sbits_val_inj; [rewrite (klen x Hm), (klen w Hw); reflexivity|lia]. }
        rewrite Ej. now left.
      - cbn [fst]. unfold K' in Kx. destruct (itag x); lia. }
    apply (G M HM HS (kvI x)).
    - exists x. split; [exact Hx|]. unfold K'. rewrite Tx. lia.
    - exists y. split; [exact Hy|]. unfold K'. rewrite Ty, Ek. lia.
  Qed.

  (* the entries: flagged ones carry the two elements, the others are zero *)
  Lemma entry_joined h w : iLen h -> iLen w -> itag h = false -> itag w = true -> jB h w = true ->
    entry eba ebb jts ha h w = true :: ienc h ++ (if ha then ienc w else []).
  Proof.
    intros [Lh _] [Lw _] Th Tw Ej. rewrite Th in Lh. rewrite Tw in Lw. unfold entry, parts. rewrite Ej.
    rewrite (firstn_rsz_full eba ebb (ienc h) eba Lh), (firstn_rsz_full eba ebb (ienc w) ebb Lw) by lia.
    f_equal. rewrite map_id. reflexivity.
  Qed.

  Lemma entry_unjoined h w : iLen h -> iLen w -> jB h w = false ->
    entry eba ebb jts ha h w = repeat false (width eba ebb ha).
  Proof.
    intros Hh Hw Ej. unfold entry, width. rewrite Ej. cbn [repeat]. f_equal.
    rewrite <- (parts_length eba ebb jts ha Ja Jb h w Hh Hw). generalize (parts eba ebb ha h w) as l.
    induction l as [|g l IH]; [reflexivity|]. cbn [map length repeat]. f_equal. exact IH.
  Qed.

  Lemma wentries_flagged M : Forall iLen M -> SLe M ->
    filter (hd false) (wentries eba ebb jts ha M) =
    map (fun p => true :: ienc (fst p) ++ (if ha then ienc (snd p) else [])) (jpairs M).
  Proof.
    induction M as [|m [|w r] IH]; intros HM HS; try reflexivity.
    inversion HM as [|x l Hm Hr]; subst x l. inversion Hr as [|x l Hw _]; subst x l.
    inversion HS as [|x l HS' Hall]; subst x l. inversion Hall as [|x l Hle _]; subst x l.
    cbn [wentries jpairs filter]. destruct (jB m w) eqn:Ej.
    - destruct (jbit_sorted m w Hm Hw Hle Ej) as (T1 & T2 & _).
      rewrite (entry_joined m w Hm Hw T1 T2 Ej). cbn [hd app map fst snd]. f_equal. exact (IH Hr HS').
    - rewrite (entry_unjoined m w Hm Hw Ej). cbn [width repeat hd app]. exact (IH Hr HS').
  Qed.

  Lemma wentries_unflagged M : Forall iLen M -> forall e, In e (wentries eba ebb jts ha M) -> hd false e = false ->
    e = repeat false (width eba ebb ha).
  Proof.
    induction M as [|m [|w r] IH]; intros HM e Hin He; try (destruct Hin; fail).
    inversion HM as [|x l Hm Hr]; subst x l. inversion Hr as [|x l Hw _]; subst x l.
    cbn [wentries] in Hin. destruct Hin as [<-|Hin]; [|exact (IH Hr e Hin He)].
    apply entry_unjoined; try assumption.
  Qed.

  Lemma wentries_width M : Forall iLen M -> all_len (width eba ebb ha) (wentries eba ebb jts ha M).
  Proof.
    induction M as [|m [|w r] IH]; intros HM; try constructor.
    - inversion HM as [|x l Hm Hr]; subst x l. inversion Hr as [|x l Hw _]; subst x l. apply entry_length; assumption.
    - inversion HM; subst. apply IH. assumption.
  Qed.
End Windows.

(* ================================================================ the final sort on the flag bit *)

Definition b2n (b : bool) : N := if b then 1 else 0.

Lemma key1_hd e : e <> [] -> key 1 e = b2n (hd false e).
Proof. destruct e as [|b r]; [congruence|]. intros _. unfold key. cbn [firstn hd Sort.bits_val]. unfold lenN. cbn. destruct b; reflexivity. Qed.

Lemma sortedN_b2n l : sortedN (map b2n l) = true -> sortedB l = true.
Proof.
  induction l as [|a [|b r] IH]; intro H; try reflexivity.
  cbn [map] in H. rewrite sortedN_cons in H. apply andb_prop in H. destruct H as [H1 H2].
  rewrite sortedB_cons, (IH H2), andb_true_r. apply N.leb_le in H1. destruct a, b; try reflexivity. cbn in H1. lia.
Qed.

Lemma count_true_shape a b : length (filter (fun x : bool => x) (repeat false a ++ repeat true b)) = b.
Proof.
  rewrite filter_app, app_length.
  assert (E1 : filter (fun x : bool => x) (repeat false a) = []) by (induction a as [|a IH]; [reflexivity|exact IH]).
  assert (E2 : filter (fun x : bool => x) (repeat true b) = repeat true b) by (induction b as [|b IH]; [reflexivity|cbn [repeat filter]; now rewrite IH]).
  rewrite E1, E2, repeat_length. reflexivity.
Qed.

Lemma filter_map_hd (l : list (list bool)) :
  length (filter (fun x : bool => x) (map (hd false) l)) = length (filter (hd false) l).
Proof. induction l as [|e l IH]; [reflexivity|]. cbn [map filter]. destruct (hd false e); cbn [length]; lia. Qed.

(* ================================================================ the pipeline and its specification *)

(* the EJoin case of lower_expr_body after the two operands *)
Definition join_pipeline (aw bw : list bool) (eba na ebb nb jts : nat) (ha : bool) : MB (list (list bool)) :=
  mbind (lift_res (bitonic_input tops aw bw eba na ebb nb jts)) (fun '(bitonic, num_empty) =>
  mbind (o_merger tops (S jts) true bitonic) (fun sorted =>
  mbind (join_func_windows tops eba ebb jts ha (skipn num_empty sorted)) (fun joined =>
  o_sorter tops 1 joined))).

Section Spec.
  Variables eba ebb jts : nat.
  Variable ha : bool.
  Hypothesis Ja : (jts <= eba)%nat.
  Hypothesis Jb : (jts <= ebb)%nat.

  Notation W := (width eba ebb ha).

  Theorem join_fn_spec ea eb (o : pobs) out o' :
    all_len eba ea -> all_len ebb eb -> asc_le jts ea -> asc_le jts eb ->
    join_pipeline (concat ea) (concat eb) eba (length ea) ebb (length eb) jts ha o = Ok (out, o') ->
    o' = o /\ length out = (length ea + length eb - 1)%nat /\ all_len W out /\
    exists pairs : list (list bool * list bool),
      (* (1) flags sorted, unflagged entries first *)
      map (hd false) out = repeat false (length out - length pairs) ++ repeat true (length pairs) /\
      (* (2) unflagged entries are zero *)
      (forall e, In e out -> hd false e = false -> e = repeat false W) /\
      (* (3)(4) the flagged entries: one pair (element of a, element of b) per common key *)
      Permutation (filter (hd false) out) (map (fun p => true :: fst p ++ (if ha then snd p else [])) pairs) /\
      Forall (fun p => In (fst p) ea /\ In (snd p) eb /\ firstn jts (fst p) = firstn jts (snd p)) pairs /\
      StronglySorted N.lt (map (fun p => ekey jts (fst p)) pairs) /\
      (forall x y, In x ea -> In y eb -> firstn jts x = firstn jts y ->
                   exists p, In p pairs /\ firstn jts (fst p) = firstn jts x).
  Proof.
    intros La Lb Sa Sb Hrun. unfold join_pipeline in Hrun.
    minva Hrun as [bitonic ne] o1 H1. apply lift_res_inv in H1. destruct H1 as [H1 ->].
    minva Hrun as sorted o2 H2. minva Hrun as pre o3 H3.
    destruct (merged_bits eba ebb jts Ja Jb ea eb o bitonic ne sorted o2 La Lb Sa Sb H1 H2) as (-> & M & EM & PM & SM).
    assert (OkM : Forall (ilen eba ebb jts) M).
    { apply Forall_forall. intros it Hit. apply (Permutation_in _ (Permutation_sym PM)) in Hit. apply in_app_or in Hit.
      destruct Hit as [Hit|Hit].
      - exact (proj1 (Forall_forall _ _) (bitems_ilen eba ebb jts Ja Jb false ea La) it Hit).
      - exact (proj1 (Forall_forall _ _) (bitems_ilen eba ebb jts Ja Jb true eb Lb) it Hit). }
    rewrite EM, (join_func_windows_items eba ebb jts ha Ja Jb M OkM) in H3. injection H3 as <- <-.
    set (pre := wentries eba ebb jts ha M) in *.
    cbn [o_sorter tops] in Hrun. destruct (elems_shape 1 pre); [|discriminate]. injection Hrun as <- <-.
    destruct (sorter_elems 1 pre) as [Hsorted Hperm]. unfold elem in *. set (out := bitonic_sorter (gt_key 1) pre) in *.
    split; [reflexivity|].
    assert (Lpre : length pre = (length ea + length eb - 1)%nat).
    { unfold pre. rewrite (wentries_length eba ebb jts ha Ja Jb), <- (Permutation_length PM), app_length. unfold bitems. rewrite !map_length. reflexivity. }
    split; [transitivity (length pre); [exact (Permutation_length Hperm)|exact Lpre]|].
    assert (Wpre : all_len W pre) by (apply (wentries_width eba ebb jts ha Ja Jb M OkM)).
    assert (Wout : all_len W out) by (unfold all_len; eapply Permutation_Forall; [apply Permutation_sym; exact Hperm|exact Wpre]).
    split; [exact Wout|].
    set (jp := jpairs jts M).
    exists (map (fun p => (ienc (fst p), ienc (snd p))) jp).
    assert (Pfl : Permutation (filter (hd false) out) (filter (hd false) pre)) by (apply Permutation_filter; exact Hperm).
    assert (Efl : filter (hd false) pre = map (fun p => true :: ienc (fst p) ++ (if ha then ienc (snd p) else [])) jp).
    { apply (wentries_flagged eba ebb jts ha Ja Jb M OkM SM). }
    assert (Lfl : length (filter (hd false) out) = length jp).
    { rewrite (Permutation_length Pfl), Efl. apply map_length. }
    rewrite map_length. split; [|split; [|split; [|split; [|split]]]].
    - (* flags *)
      assert (Hs : sortedB (map (hd false) out) = true).
      { apply sortedN_b2n. rewrite map_map. rewrite <- Hsorted. f_equal. apply map_ext_in. intros e He.
        symmetry. apply key1_hd. intros ->. pose proof (proj1 (Forall_forall _ _) Wout [] He) as Hl. discriminate Hl. }
      destruct (sortedB_shape _ Hs) as (a & b & E).
      assert (Eb : b = length jp).
      { rewrite <- Lfl, <- filter_map_hd, E. symmetry. apply count_true_shape. }
      assert (Ea : a = (length out - length jp)%nat).
      { apply (f_equal (@length bool)) in E. rewrite map_length, app_length, !repeat_length in E. unfold elem. lia. }
      etransitivity; [exact E|]. f_equal; f_equal; [exact Ea|exact Eb].
    - (* unflagged *)
      intros e He Hf. apply (wentries_unflagged eba ebb jts ha Ja Jb M OkM e); [|exact Hf].
      exact (Permutation_in _ Hperm He).
    - (* flagged *)
      rewrite map_map. cbn [fst snd]. rewrite <- Efl. exact Pfl.
    - (* provenance *)
      apply Forall_map. apply Forall_forall. intros [h w] Hp. cbn [fst snd].
      destruct (jpairs_facts eba ebb jts Ja Jb M OkM SM h w Hp) as (Ih & Iw & Th & Tw & Ek).
      assert (InA : forall it, In it M -> itag it = false -> In (ienc it) ea).
      { intros it Hit Tit. apply (Permutation_in _ (Permutation_sym PM)) in Hit. apply in_app_or in Hit.
        destruct Hit as [Hit|Hit]; unfold bitems in Hit; apply in_map_iff in Hit; destruct Hit as (e & <- & He); [exact He|discriminate Tit]. }
      assert (InB : forall it, In it M -> itag it = true -> In (ienc it) eb).
      { intros it Hit Tit. apply (Permutation_in _ (Permutation_sym PM)) in Hit. apply in_app_or in Hit.
        destruct Hit as [Hit|Hit]; unfold bitems in Hit; apply in_map_iff in Hit; destruct Hit as (e & <- & He); [discriminate Tit|exact He]. }
      split; [apply InA; assumption|]. split; [apply InB; assumption|exact Ek].
    - (* each key once *)
      rewrite map_map. cbn [fst]. exact (jpairs_strict eba ebb jts Ja Jb M OkM SM).
    - (* every common key *)
      intros x y Hx Hy Exy.
      assert (Ix : In (bitem false x) M) by (apply (Permutation_in _ PM); apply in_or_app; left; unfold bitems; now apply in_map).
      assert (Iy : In (bitem true y) M) by (apply (Permutation_in _ PM); apply in_or_app; right; unfold bitems; now apply in_map).
      destruct (jpairs_complete eba ebb jts Ja Jb M OkM SM (bitem false x) (bitem true y) Ix Iy eq_refl eq_refl) as (p & Hp & Ep).
      { unfold kvi, kbits, bitem. cbn [ienc snd]. now rewrite Exy. }
      exists (ienc (fst p), ienc (snd p)). split; [apply in_map_iff; exists p; auto|]. cbn [fst].
      destruct p as [h w]. cbn [fst] in *. destruct (jpairs_facts eba ebb jts Ja Jb M OkM SM h w Hp) as (Ih & _).
      pose proof (proj1 (Forall_forall _ _) OkM h Ih) as Lh. pose proof (proj1 (Forall_forall _ _) OkM _ Ix) as Lx.
      apply sbits_val_inj; [|exact Ep].
      change (firstn jts (ienc h)) with (kbits jts h). change (firstn jts x) with (kbits jts (bitem false x)).
      rewrite (klen eba ebb jts Ja Jb h Lh), (klen eba ebb jts Ja Jb _ Lx). reflexivity.
  Qed.
End Spec.

Print Assumptions join_fn_spec.

(* ================================================================ the EJoin node of lower_expr *)

Lemma lower_join_inv P fT join_ty ha a b m t E (o : pobs) w E' o' :
  lower_expr tops (S fT) P (Ex (EJoin join_ty ha a b) m t) E o = Ok ((w, E'), o') ->
  exists eba na ebb nb aw E1 o1 bw o2 out,
    array_size P (e_ty a) = Ok (eba, na) /\ array_size P (e_ty b) = Ok (ebb, nb) /\
    lower_expr tops fT P a E o = Ok ((aw, E1), o1) /\ lower_expr tops fT P b E1 o1 = Ok ((bw, E'), o2) /\
    join_pipeline aw bw eba na ebb nb (szn P join_ty) ha o2 = Ok (out, o') /\ w = concat out.
Proof.
  intro H. rewrite lower_expr_S in H. cbn [lower_expr_body] in H.
  minva H as [eba na] o0 H0. apply lift_res_inv in H0. destruct H0 as [H0 ->].
  minva H as [ebb nb] o0 H0'. apply lift_res_inv in H0'. destruct H0' as [H0' ->].
  minva H as [aw E1] o1 H1. minva H as [bw E2] o2 H2.
  minva H as [bitonic ne] o3 H3. minva H as sorted o4 H4. minva H as joined o5 H5. minva H as joined2 o6 H6.
  apply ret_inv in H. destruct H as [Heq ->]. injection Heq as -> ->.
  exists eba, na, ebb, nb, aw, E1, o1, bw, o2, joined2. repeat (split; [assumption|]). split; [|reflexivity].
  unfold join_pipeline. unfold mbind at 1. rewrite H3. unfold mbind at 1. rewrite H4. unfold mbind at 1. rewrite H5. exact H6.
Qed.

(* keys of values ascending (repeats allowed) *)
Definition asc_keys_le (P : program) (join_ty t : ty) (vs : list Sem.value) : Prop :=
  StronglySorted N.le (map (kval P join_ty t) vs).

Lemma asc_keys_le_enc P join_ty t vs es : ty_fits P t -> Forall2 (has_enc P t) vs es ->
  asc_keys_le P join_ty t vs -> asc_le (szn P join_ty) es.
Proof.
  intros Ft Hf H. unfold asc_le, asc_keys_le in *.
  replace (map (ekey (szn P join_ty)) es) with (map (kval P join_ty t) vs); [exact H|].
  clear H. induction Hf as [|v e vs es Hv _ IH]; [reflexivity|]. cbn [map]. f_equal; [|exact IH].
  unfold kval, ekey. rewrite (join_key_enc P join_ty t v e Ft Hv). reflexivity.
Qed.

Lemma length_concat_all {A} n (l : list (list A)) : all_len n l -> length (concat l) = (length l * n)%nat.
Proof. induction 1 as [|e l He _ IH]; [reflexivity|]. cbn [concat length]. rewrite app_length, IH, He. lia. Qed.

(* for operands that encode array values with ascending keys: the entries satisfy join_fn_spec,
   the observation is the one after the operands, and the result has the length of the declared
   type [(flag, a-element, b-element if has_assoc); na + nb - 1] *)
Theorem join_expr_spec P fT join_ty ha a b m t E (o : pobs) w E' o' ta na tb nb :
  e_ty a = TArr ta na -> e_ty b = TArr tb nb ->
  (szn P join_ty <= szn P ta)%nat -> (szn P join_ty <= szn P tb)%nat ->
  lower_expr tops (S fT) P (Ex (EJoin join_ty ha a b) m t) E o = Ok ((w, E'), o') ->
  exists aw E1 o1 bw o2,
    lower_expr tops fT P a E o = Ok ((aw, E1), o1) /\ lower_expr tops fT P b E1 o1 = Ok ((bw, E'), o2) /\
    forall xs ys,
      has_enc P (TArr ta na) (Sem.VArr xs) aw -> ty_fits P (TArr ta na) ->
      has_enc P (TArr tb nb) (Sem.VArr ys) bw -> ty_fits P (TArr tb nb) ->
      asc_keys_le P join_ty ta xs -> asc_keys_le P join_ty tb ys ->
      exists ea eb out,
        Forall2 (has_enc P ta) xs ea /\ Forall2 (has_enc P tb) ys eb /\ aw = concat ea /\ bw = concat eb /\
        join_pipeline (concat ea) (concat eb) (szn P ta) (length ea) (szn P tb) (length eb) (szn P join_ty) ha o2 = Ok (out, o') /\
        w = concat out /\ o' = o2 /\
        length w = ((N.to_nat na + N.to_nat nb - 1) * width (szn P ta) (szn P tb) ha)%nat.
Proof.
  intros Eta Etb Ja Jb H.
  destruct (lower_join_inv _ _ _ _ _ _ _ _ _ _ _ _ _ H) as (eba & na' & ebb & nb' & aw & E1 & o1 & bw & o2 & out & A1 & A2 & R1 & R2 & Rp & ->).
  rewrite Eta in A1. rewrite Etb in A2. cbn [array_size] in A1, A2. injection A1 as <- <-. injection A2 as <- <-.
  exists aw, E1, o1, bw, o2. split; [exact R1|]. split; [exact R2|].
  intros xs ys HVa Hfa HVb Hfb Sx Sy.
  destruct (has_enc_array_elems P ta na xs aw HVa Hfa) as (ea & -> & Hxa & La & Hla & _).
  destruct (has_enc_array_elems P tb nb ys bw HVb Hfb) as (eb & -> & Hyb & Lb & Hlb & _).
  rewrite <- Hla, <- Hlb in Rp |- *.
  pose proof (asc_keys_le_enc P join_ty ta xs ea (ty_fits_arr P ta na Hfa) Hxa Sx) as Sa.
  pose proof (asc_keys_le_enc P join_ty tb ys eb (ty_fits_arr P tb nb Hfb) Hyb Sy) as Sb.
  destruct (join_fn_spec (szn P ta) (szn P tb) (szn P join_ty) ha Ja Jb ea eb o2 out o' La Lb Sa Sb Rp) as (-> & Lout & Wout & _).
  exists ea, eb, out. repeat (split; [assumption || reflexivity|]).
  rewrite (length_concat_all _ _ Wout), Lout. reflexivity.
Qed.

(* ================================================================ non-vacuity, and what repeated keys do *)

Module JoinFnExamples.
  (* elements (key : 2 bits, payload : 2 bits); entries [flag; a-element; b-element] *)
  Definition el (k p : N) : list bool := tbits k 2 ++ tbits p 2.
  Definition run (ea eb : list (list bool)) : option (list (list bool)) :=
    match join_pipeline (concat ea) (concat eb) 4 (length ea) 4 (length eb) 2 true None with
    | Ok (out, None) => Some out | _ => None end.
  Definition ent (flag : bool) (x y : list bool) : list bool := flag :: (if flag then x ++ y else repeat false 8).
  Definition zero : list bool := repeat false 9.

  (* a = [(0,3); (2,1)], b = [(0,2); (1,1); (2,3)] (5 elements, padded to 8; key 0 next to the
     padding): 4 entries, two unflagged zero entries first, then the matches of keys 0 and 2 *)
  Example join_fn_basic :
    run [el 0 3; el 2 1] [el 0 2; el 1 1; el 2 3]
    = Some [zero; zero; true :: el 0 3 ++ el 0 2; true :: el 2 1 ++ el 2 3].
  Proof. vm_compute. reflexivity. Qed.

  (* a key repeated in a: reported ONCE, with one of the two elements of a (here the second) *)
  Example repeated_key_in_a :
    run [el 1 1; el 1 2] [el 1 3] = Some [zero; true :: el 1 2 ++ el 1 3].
  Proof. vm_compute. reflexivity. Qed.

  (* a key repeated in BOTH arrays: still one flagged entry (2 x 2 combinations, one reported):
     an element of a with an element of b, never two of the same array *)
  Example repeated_key_in_both :
    run [el 1 1; el 1 2] [el 1 3; el 1 0] = Some [zero; zero; true :: el 1 2 ++ el 1 0].
  Proof. vm_compute. reflexivity. Qed.

  (* WHICH of the repeated elements is reported depends on where the merger leaves them; the
     specification can only say "some element of a / of b with that key":
     - of a: the last of two copies, but the FIRST of the two copies with key 1 in the longer
       input below;
     - of b: the first copy in one input, the last copy in another *)
  Definition flagged (o : option (list (list bool))) : list (list bool) :=
    match o with Some l => filter (hd false) l | None => [] end.
  Example repeated_key_choice :
    flagged (run [el 1 1; el 1 2] [el 1 0]) = [true :: el 1 2 ++ el 1 0] /\
    flagged (run [el 0 1; el 0 2; el 0 3; el 1 0; el 1 1; el 2 1] [el 0 0; el 0 1; el 0 2; el 1 3; el 1 2; el 3 3])
      = [true :: el 0 3 ++ el 0 0; true :: el 1 0 ++ el 1 3] /\
    flagged (run [el 1 1; el 1 2; el 1 3] [el 0 0; el 1 0; el 1 1; el 2 0]) = [true :: el 1 3 ++ el 1 0] /\
    flagged (run [el 0 0; el 1 1; el 1 2; el 1 3] [el 1 0; el 1 1; el 1 2]) = [true :: el 1 3 ++ el 1 2].
  Proof. vm_compute. repeat split. Qed.

  (* lengths 1 and 1: one entry *)
  Example join_fn_single :
    run [el 3 1] [el 3 2] = Some [true :: el 3 1 ++ el 3 2] /\ run [el 2 1] [el 3 2] = Some [zero].
  Proof. vm_compute. split; reflexivity. Qed.
End JoinFnExamples.

Print Assumptions join_expr_spec.
