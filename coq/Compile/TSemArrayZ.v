(* ZERO-SIZED ARRAY ELEMENTS ([(); 3], arrays of empty tuples / structs).

   The three array theorems of Compile/TSemArray.v used by the aggregate nodes assume elements
   of at least one bit.  For elements without bits the array has no wires at all: a read
   returns no wires, a write changes nothing, and the bounds check is the same.  Here: the same
   three statements for EVERY element size. *)
From Coq Require Import Lia ZArith.
From GV Require Import Base.Util Base.Bits Lang.Ast Gadgets.Gadgets Gadgets.GadgetSpec Gadgets.Extend
  Gadgets.ExtendProofs Panic.PanicRec Panic.PanicSem Compile.Lower Compile.TSem Compile.TSemArray.
Local Open Scope N_scope.

Lemma concat_all_len0 {A} (elems : list (list A)) : all_len 0 elems -> concat elems = [].
Proof.
  induction 1 as [|e r He _ IH]; [reflexivity|]. cbn [concat]. rewrite IH.
  destruct e; [reflexivity|discriminate He].
Qed.

Lemma nth_all_len0 {A} (elems : list (list A)) k : all_len 0 elems -> nth k elems [] = [].
Proof.
  intro H. pose proof (nth_all_len 0 elems k [] H eq_refl) as Hl. destruct (nth k elems []); [reflexivity|discriminate Hl].
Qed.

Theorem tsem_array_read_any elems (idx : list bool) eb n m (o : pobs) :
  all_len eb elems -> length elems = n -> (1 <= n)%nat -> N.of_nat n < 2 ^ 32 ->
  (length idx <= USZ)%nat ->
  array_read tops (concat elems) idx eb n m o
  = Ok ((nth (N.to_nat (bits_to_N idx)) elems (repeat true eb), extend_s idx false USZ),
        push_spec o (N.of_nat n <=? bits_to_N idx) OutOfBounds (ploc_of m)).
Proof.
  intros Hall Hlen Hn1 Hn2 Hl. destruct eb as [|eb]; [|apply tsem_array_read; try assumption; lia].
  rewrite (concat_all_len0 elems Hall). cbn [repeat]. rewrite (nth_all_len0 elems _ Hall).
  unfold array_read. unfold mbind at 1. rewrite tsem_m_extend_index by exact Hl.
  unfold mbind at 1. rewrite tsem_index_layers_nil. unfold mbind.
  rewrite tsem_bounds_check; [|now apply extend_s_length|exact Hn2].
  rewrite (zext_correct idx USZ). reflexivity.
Qed.

Corollary tsem_index_layers_in_bounds_any (idx : list bool) elems eb (o : pobs) d :
  all_len eb elems -> lenN elems <= 2 ^ lenN idx -> bits_to_N idx < lenN elems ->
  index_layers tops (rev idx) (concat elems) eb o = Ok (nth (N.to_nat (bits_to_N idx)) elems d, o).
Proof.
  intros Hall Hn HI. destruct eb as [|eb]; [|apply tsem_index_layers_in_bounds; try assumption; lia].
  rewrite (concat_all_len0 elems Hall), tsem_index_layers_nil. f_equal. f_equal.
  rewrite (nth_indep elems d []) by (unfold lenN in HI; lia). symmetry. now apply nth_all_len0.
Qed.

Theorem tsem_array_write_any elems (idx value : list bool) eb m (o : pobs) :
  all_len eb elems -> lenN elems < 2 ^ 32 -> (length idx <= USZ)%nat -> length value = eb ->
  array_write tops (concat elems) eb (length elems) idx value m o
  = Ok (concat (list_set elems (N.to_nat (bits_to_N idx)) value),
        push_spec o (lenN elems <=? bits_to_N idx) OutOfBounds (ploc_of m)).
Proof.
  intros Hall Hn Hl Hv. destruct eb as [|eb]; [|apply tsem_array_write; try assumption; lia].
  rewrite (concat_all_len0 elems Hall).
  rewrite (concat_all_len0 (list_set elems _ value)) by (apply list_set_all_len; assumption).
  unfold array_write. unfold mbind at 1. rewrite tsem_m_extend_index by exact Hl.
  unfold mbind at 1. rewrite tsem_mapM_not. unfold mbind at 1.
  rewrite Nat.mul_0_r. cbn [firstn skipn length write_elems Nat.ltb Nat.leb]. unfold ret at 1.
  unfold mbind. unfold lenN in Hn. rewrite tsem_bounds_check; [|now apply extend_s_length|exact Hn].
  rewrite (zext_correct idx USZ). reflexivity.
Qed.
Print Assumptions tsem_array_write_any.
