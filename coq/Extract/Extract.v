(* Extraction of the executable model to OCaml (run from /verif/ocaml/gen). *)
From Coq Require Import Extraction ExtrOcamlBasic.
From GV Require Import Base.Util Base.NMap Circuit.Ssa Circuit.Reg Circuit.RegAlloc Circuit.Bristol
  Builder.Builder Builder.Build Gadgets.Gadgets
  Lang.Types Lang.Literal Exhaust.Pat Exhaust.Covers Exhaust.Useful Lang.Ast Lang.Sem Lang.Wt.
From GV Require Import Gadgets.Extend Sort.SortJob.
From GV Require Import Front.Scan Front.Prettify Front.ParseExpr Compile.Consts Panic.PanicRec Compile.Lower Compile.TSem Compile.Fragment Compile.FreeLower Compile.TSemSafe Compile.TSemTotal Compile.TSemSemFull Compile.TSemSemFullWt Compile.SemFuel Compile.JoinProgram Compile.EndToEnd Exhaust.ExhSem Compile.Final Check.UAst Check.Infer Check.InferSound Check.InferSafe Check.InferFuel4 Check.InferFuel5 Check.LitParse.
Extraction Language OCaml.
Set Extraction AccessOpaque.
Separate Extraction
  BinNat.N BinInt.Z
  Util.nthN Util.lenN
  Ssa.ssa_validate Ssa.ssa_eval Ssa.and_gates
  Reg.reg_validate Reg.reg_eval Reg.reg_eval_strict
  RegAlloc.convert
  Builder.new_builder Builder.push_xor_top Builder.push_and_top Builder.push_not Builder.push_or
  Builder.push_eq Builder.push_mux Build.build Build.panic_ok_wires
  Gadgets.push_eq_circuit Gadgets.push_adder Gadgets.push_multiplier Gadgets.push_addition_circuit
  Gadgets.push_negation_circuit Gadgets.push_subtraction_circuit Gadgets.push_unsigned_division_circuit
  Gadgets.push_signed_division_circuit Gadgets.push_gt_circuit Gadgets.push_comparator_circuit
  Gadgets.push_condswap Gadgets.push_sorter Gadgets.push_bitonic_merger Gadgets.push_bitonic_sorter
  Types.resolve_defs Types.resolve_ty Types.empty_env Types.size Types.wf
  Literal.is_of_type Literal.as_bits Literal.from_bits Literal.denote Literal.has_type
  Pat.has_type Pat.pat_matches Pat.pat_wt Pat.select_arm
  Covers.covers Covers.uncovered Covers.witness_ok Covers.region_reps
  Sem.run_main Sem.sizeof Ast.find_fn Wt.wt_program
  Bristol.export Bristol.import Bristol.USIZE_MAX
  Scan.scan_text Prettify.prettify_meta
  Consts.repaired Consts.original Consts.check_defs Consts.compile_consts Consts.const_spec Consts.bits_unsigned Consts.bits_signed Consts.wt_defs Consts.sup_ok
  PanicRec.pstate_new PanicRec.push_panic_if PanicRec.mux_panic PanicRec.prec_wires PanicRec.nset_keys PanicRec.parse_panic PanicRec.preason_num PanicRec.preason_from_num
  Extend.extend_to_bits SortJob.run_sops
  Lower.lower_program TSem.tsem_program Fragment.in_proved_fragment Fragment.covered_program TSemSemFullWt.wt_covered SemFuel.sem_fuel_enough JoinProgram.join_covered EndToEnd.certified EndToEnd.within_gate_bound ExhSem.exh_fns Final.certified_exh TSemSemFull.canonical_main_args TSemSafe.safe_program_ok TSemTotal.fuel_enough TSemTotal.params_ok FreeLower.klower_main Useful.check_exhaustive Useful.fuel_bound ParseExpr.parse_expr ParseExpr.parse_expr_st ParseExpr.parse_block_text ParseExpr.parse_program_text ParseExpr.parse_literal_text UAst.uprogram_of_parsed Infer.check_program InferSound.in_sound_fragment InferSafe.structs_sorted InferSafe.sp_program InferSafe.main_declared InferSafe.tys_program InferFuel4.no_oracle InferFuel5.ty_depth_bound LitParse.literal_parse_program ParseExpr.fuel_for_tokens.
