(* Extraction of the executable model to OCaml (run from /verif/ocaml/gen). *)
From Coq Require Import Extraction ExtrOcamlBasic.
From GV Require Import Base.Util Base.NMap Circuit.Ssa Circuit.Reg Circuit.RegAlloc.
Extraction Language OCaml.
Set Extraction AccessOpaque.
Separate Extraction
  BinNat.N BinInt.Z
  Util.nthN Util.lenN
  Ssa.ssa_validate Ssa.ssa_eval Ssa.and_gates
  Reg.reg_validate Reg.reg_eval Reg.reg_eval_strict
  RegAlloc.convert.
