(* Proofs about Lang/Literal.v (C09). *)
From GV Require Import Base.Util Lang.Types Lang.Literal.

Scheme lit_mind := Induction for lit Sort Prop
  with lits_mind := Induction for lits Sort Prop
  with lfields_mind := Induction for lfields Sort Prop.
Combined Scheme lit_mutind from lit_mind, lits_mind, lfields_mind.

Scheme rty_mind := Induction for rty Sort Prop
  with rtys_mind := Induction for rtys Sort Prop
  with rfields_mind := Induction for rfields Sort Prop
  with rvariants_mind := Induction for rvariants Sort Prop.
Combined Scheme rty_mutind from rty_mind, rtys_mind, rfields_mind, rvariants_mind.

(* ------------------------------------------------------------------ small facts *)

Lemma uty_eqb_eq a b : uty_eqb a b = true -> a = b.
Proof. destruct a, b; cbn; congruence. Qed.
Lemma sty_eqb_eq a b : sty_eqb a b = true -> a = b.
Proof. destruct a, b; cbn; congruence. Qed.
Lemma uty_eqb_refl a : uty_eqb a a = true.
Proof. now destruct a. Qed.
Lemma sty_eqb_refl a : sty_eqb a a = true.
Proof. now destruct a. Qed.

Lemma rty_eqb_sound :
  (forall a b, rty_eqb a b = true -> a = b) /\
  (forall a b, rtys_eqb a b = true -> a = b) /\
  (forall a b, rfields_eqb a b = true -> a = b) /\
  (forall a b, rvariants_eqb a b = true -> a = b).
Proof.
  apply rty_mutind.
  - intros [] H; cbn in H; congruence.
  - intros u [] H; cbn in H; try discriminate. apply uty_eqb_eq in H. congruence.
  - intros s [] H; cbn in H; try discriminate. apply sty_eqb_eq in H. congruence.
  - intros t IH n [] H; cbn in H; try discriminate.
    apply andb_prop in H as [H1 H2]. apply IH in H1. apply N.eqb_eq in H2. congruence.
  - intros ts IH [] H; cbn in H; try discriminate. apply IH in H. congruence.
  - intros n fs IH [] H; cbn in H; try discriminate.
    apply andb_prop in H as [H1 H2]. apply IH in H2. apply N.eqb_eq in H1. congruence.
  - intros n vs IH [] H; cbn in H; try discriminate.
    apply andb_prop in H as [H1 H2]. apply IH in H2. apply N.eqb_eq in H1. congruence.
  - intros [] H; cbn in H; congruence.
  - intros t IHt r IHr [] H; cbn in H; try discriminate.
    apply andb_prop in H as [H1 H2]. apply IHt in H1. apply IHr in H2. congruence.
  - intros [] H; cbn in H; congruence.
  - intros n t IHt r IHr [] H; cbn in H; try discriminate.
    apply andb_prop in H as [H12 H3]. apply andb_prop in H12 as [H1 H2].
    apply IHt in H2. apply IHr in H3. apply N.eqb_eq in H1. congruence.
  - intros [] H; cbn in H; congruence.
  - intros n r IHr [] H; cbn in H; try discriminate.
    apply andb_prop in H as [H1 H2]. apply IHr in H2. apply N.eqb_eq in H1. congruence.
  - intros n ts IHt r IHr [] H; cbn in H; try discriminate.
    apply andb_prop in H as [H12 H3]. apply andb_prop in H12 as [H1 H2].
    apply IHt in H2. apply IHr in H3. apply N.eqb_eq in H1. congruence.
Qed.

Lemma wf_enum_closed E n vs :
  wf E (REnum n vs) = true -> assoc n E = Some vs /\ wf_variants E vs = true.
Proof.
  cbn [wf]. intro H. apply andb_prop in H as [H1 H2]. split; [|exact H2].
  destruct (assoc n E) as [vs'|]; [|discriminate].
  apply (proj2 (proj2 (proj2 rty_eqb_sound))) in H1. congruence.
Qed.

(* ------------------------------------------------------------------ bits *)

Lemma ubits_of_length k n : length (ubits_of k n) = k.
Proof. induction k as [|k IH]; cbn [ubits_of length]; congruence. Qed.
Lemma sbits_of_length k z : length (sbits_of k z) = k.
Proof. induction k as [|k IH]; cbn [sbits_of length]; congruence. Qed.

Lemma lenN_ubits_of k n : lenN (ubits_of (N.to_nat k) n) = k.
Proof. unfold lenN. rewrite ubits_of_length. lia. Qed.
Lemma lenN_sbits_of k z : lenN (sbits_of (N.to_nat k) z) = k.
Proof. unfold lenN. rewrite sbits_of_length. lia. Qed.

(* big-endian: position i of the k-bit encoding holds bit k-1-i of the number *)
Lemma ubits_of_nth k n i :
  (i < k)%nat -> nth_error (ubits_of k n) i = Some (N.testbit n (N.of_nat (k - 1 - i))).
Proof.
  revert i. induction k as [|k IH]; intros i Hi; [lia|].
  cbn [ubits_of]. destruct i as [|i]; cbn [nth_error].
  - do 2 f_equal. lia.
  - rewrite IH by lia. do 3 f_equal. lia.
Qed.
Lemma sbits_of_nth k z i :
  (i < k)%nat -> nth_error (sbits_of k z) i = Some (Z.testbit z (Z.of_nat (k - 1 - i))).
Proof.
  revert i. induction k as [|k IH]; intros i Hi; [lia|].
  cbn [sbits_of]. destruct i as [|i]; cbn [nth_error].
  - do 2 f_equal. lia.
  - rewrite IH by lia. do 3 f_equal. lia.
Qed.

Lemma mod_pow2_succ n k :
  n mod 2 ^ (N.succ k) = N.b2n (N.testbit n k) * 2 ^ k + n mod 2 ^ k.
Proof.
  rewrite N.pow_succ_r', (N.mul_comm 2).
  rewrite N.mod_mul_r by (try apply N.pow_nonzero; lia).
  rewrite N.testbit_spec'. lia.
Qed.

Lemma N_of_bits_acc_ubits k n acc :
  N_of_bits_acc acc (ubits_of k n) = acc * 2 ^ N.of_nat k + n mod 2 ^ N.of_nat k.
Proof.
  revert acc. induction k as [|k IH]; intro acc; cbn [ubits_of N_of_bits_acc].
  - change (N.of_nat 0) with 0. rewrite N.pow_0_r, N.mod_1_r. lia.
  - rewrite IH. rewrite Nat2N.inj_succ, mod_pow2_succ, N.pow_succ_r'. lia.
Qed.

Lemma N_of_bits_ubits k n : N_of_bits (ubits_of k n) = n mod 2 ^ N.of_nat k.
Proof. unfold N_of_bits. rewrite N_of_bits_acc_ubits. lia. Qed.

Lemma sbits_as_ubits k z :
  sbits_of k z = ubits_of k (Z.to_N (z mod 2 ^ Z.of_nat k)).
Proof.
  assert (G : forall j, (j <= k)%nat ->
            sbits_of j z = ubits_of j (Z.to_N (z mod 2 ^ Z.of_nat k))).
  { induction j as [|j IH]; intro Hj; [reflexivity|].
    cbn [sbits_of ubits_of]. rewrite IH by lia. f_equal.
    assert (Hpos : (0 <= z mod 2 ^ Z.of_nat k)%Z).
    { apply Z.mod_pos_bound. apply Z.pow_pos_nonneg; lia. }
    rewrite <- (Z.mod_pow2_bits_low z (Z.of_nat k) (Z.of_nat j)) by lia.
    rewrite <- (Z2N.id (z mod 2 ^ Z.of_nat k)) at 1 by exact Hpos.
    rewrite Z2N.inj_testbit by lia.
    f_equal. lia. }
  apply G. lia.
Qed.

Lemma signed_roundtrip k z :
  (0 < k)%nat -> (- 2 ^ (Z.of_nat k - 1) <= z < 2 ^ (Z.of_nat k - 1))%Z ->
  signed_of_bits (N.of_nat k) (sbits_of k z) = z.
Proof.
  intros Hk Hz. unfold signed_of_bits.
  rewrite sbits_as_ubits, N_of_bits_ubits.
  assert (H2k : (2 ^ Z.of_nat k = 2 * 2 ^ (Z.of_nat k - 1))%Z).
  { rewrite <- Z.pow_succ_r by lia. f_equal. lia. }
  assert (Hp : (0 < 2 ^ (Z.of_nat k - 1))%Z) by (apply Z.pow_pos_nonneg; lia).
  set (m := (z mod 2 ^ Z.of_nat k)%Z).
  assert (Hm : (0 <= m < 2 ^ Z.of_nat k)%Z) by (apply Z.mod_pos_bound; lia).
  assert (HN : Z.of_N (Z.to_N m mod 2 ^ N.of_nat k) = m).
  { rewrite N.mod_small.
    - apply Z2N.id. lia.
    - apply N2Z.inj_lt. rewrite Z2N.id by lia. rewrite N2Z.inj_pow, nat_N_Z. cbn. lia. }
  assert (Hpow : Z.of_N (2 ^ (N.of_nat k - 1)) = (2 ^ (Z.of_nat k - 1))%Z).
  { rewrite N2Z.inj_pow, N2Z.inj_sub by lia. rewrite nat_N_Z. reflexivity. }
  destruct (N.leb_spec (2 ^ (N.of_nat k - 1)) (Z.to_N m mod 2 ^ N.of_nat k)) as [Hle|Hlt].
  - apply N2Z.inj_le in Hle. rewrite HN, Hpow in Hle.
    rewrite HN, nat_N_Z.
    destruct (Z.neg_nonneg_cases z) as [Hneg|Hnn].
    + assert (m = z + 2 ^ Z.of_nat k)%Z; [|lia].
      unfold m. symmetry. apply Z.mod_unique with (q := (-1)%Z); lia.
    + exfalso. assert (m = z); [|lia].
      unfold m. apply Z.mod_small. lia.
  - apply N2Z.inj_lt in Hlt. rewrite HN, Hpow in Hlt. rewrite HN.
    destruct (Z.neg_nonneg_cases z) as [Hneg|Hnn].
    + exfalso. assert (m = z + 2 ^ Z.of_nat k)%Z; [|lia].
      unfold m. symmetry. apply Z.mod_unique with (q := (-1)%Z); lia.
    + unfold m. apply Z.mod_small. lia.
Qed.

(* ------------------------------------------------------------------ lists of bits *)

Lemma firstn_exact {A} (a b : list A) sz :
  lenN a = sz -> firstn (N.to_nat sz) (a ++ b) = a.
Proof.
  unfold lenN. intros <-. rewrite Nat2N.id.
  induction a as [|x a IH]; cbn [length firstn app]; [now destruct b|]. now rewrite IH.
Qed.

Lemma skipn_exact {A} (a b : list A) sz :
  lenN a = sz -> skipn (N.to_nat sz) (a ++ b) = b.
Proof.
  unfold lenN. intros <-. rewrite Nat2N.id.
  induction a as [|x a IH]; cbn [length skipn app]; [reflexivity|]. exact IH.
Qed.

Lemma lenN_repeat {A} (x : A) k : lenN (repeat x k) = N.of_nat k.
Proof. unfold lenN. now rewrite repeat_length. Qed.

Lemma to_nat_1_add x : N.to_nat (1 + x) = S (N.to_nat x).
Proof. lia. Qed.

(* ------------------------------------------------------------------ integer ranges *)

Lemma u_in_range_lt n u : u_in_range n u = true -> n < 2 ^ ubits u.
Proof.
  unfold u_in_range. destruct u; cbn [umax ubits]; try discriminate; intro H;
    apply N.leb_le in H;
    match goal with |- _ < ?p => let v := eval vm_compute in p in change p with v end; lia.
Qed.

Lemma unsigned_roundtrip n u :
  u_in_range n u = true -> N_of_bits (ubits_of (N.to_nat (ubits u)) n) = n.
Proof.
  intro H. rewrite N_of_bits_ubits, N2Nat.id. apply N.mod_small. now apply u_in_range_lt.
Qed.

Lemma signed_roundtrip_sty z s :
  s_in_range z s = true ->
  signed_of_bits (sbits s) (sbits_of (N.to_nat (sbits s)) z) = z.
Proof.
  unfold s_in_range. destruct s; cbn [smin smax]; try discriminate; intro H;
    apply andb_prop in H as [H1 H2]; apply Z.leb_le in H1, H2.
  - apply (signed_roundtrip 8 z); [lia|]. change (2 ^ (Z.of_nat 8 - 1))%Z with 128%Z. lia.
  - apply (signed_roundtrip 16 z); [lia|]. change (2 ^ (Z.of_nat 16 - 1))%Z with 32768%Z. lia.
  - apply (signed_roundtrip 32 z); [lia|].
    change (2 ^ (Z.of_nat 32 - 1))%Z with 2147483648%Z. lia.
  - apply (signed_roundtrip 64 z); [lia|].
    change (2 ^ (Z.of_nat 64 - 1))%Z with 9223372036854775808%Z. lia.
Qed.

(* ------------------------------------------------------------------ variants *)

Lemma find_variant_payload vs v i idx ts :
  find_variant vs v i = Some (idx, VITuple ts) -> size_tys ts <= max_payload vs.
Proof.
  revert i. induction vs as [|n r IH|n ts' r IH]; intros i H; cbn [find_variant max_payload] in *.
  - discriminate.
  - destruct (n =? v); [discriminate|]. eauto.
  - destruct (n =? v).
    + inversion H; subst. lia.
    + apply IH in H. lia.
Qed.

Lemma find_variant_wf E vs v i idx ts :
  wf_variants E vs = true -> find_variant vs v i = Some (idx, VITuple ts) -> wf_tys E ts = true.
Proof.
  revert i. induction vs as [|n r IH|n ts' r IH]; intros i W H; cbn [find_variant wf_variants] in *.
  - discriminate.
  - destruct (n =? v); [discriminate|]. eauto.
  - apply andb_prop in W as [W1 W2]. destruct (n =? v).
    + inversion H; subst. exact W1.
    + eauto.
Qed.

Lemma find_variant_idx vs v i idx info :
  find_variant vs v i = Some (idx, info) -> i <= idx < i + nvariants vs.
Proof.
  revert i. induction vs as [|n r IH|n ts' r IH]; intros i H; cbn [find_variant nvariants] in *.
  - discriminate.
  - destruct (n =? v); [inversion H; subst; lia|]. apply IH in H. lia.
  - destruct (n =? v); [inversion H; subst; lia|]. apply IH in H. lia.
Qed.

Definition decode_variant (name v tsz : N) (bits : list bool) (info : vinfo) : dres lit :=
  match info with
  | VIUnit => Ok (Some (LEnumUnit name v))
  | VITuple ts =>
      if (match ts with RsNil => true | RsCons _ _ => tsz <=? lenN bits end) then
        let+ es := from_bits_tys ts (skipn (N.to_nat tsz) bits) in
        Ok (Some (LEnumTuple name v es))
      else Crash
  end.

Lemma find_variant_decode vs v i idx info name tsz bits :
  find_variant vs v i = Some (idx, info) ->
  from_bits_variant vs (idx - i) name tsz bits = decode_variant name v tsz bits info.
Proof.
  revert i. induction vs as [|n r IH|n ts' r IH]; intros i H; cbn [find_variant] in H.
  - discriminate.
  - cbn [from_bits_variant]. destruct (N.eqb_spec n v) as [->|Hne].
    + inversion H; subst. rewrite N.sub_diag. reflexivity.
    + pose proof (find_variant_idx _ _ _ _ _ H) as Hi.
      destruct (N.eqb_spec (idx - i) 0) as [Hz|_]; [lia|].
      replace (idx - i - 1) with (idx - (i + 1)) by lia. now apply IH.
  - cbn [from_bits_variant]. destruct (N.eqb_spec n v) as [->|Hne].
    + inversion H; subst. rewrite N.sub_diag. reflexivity.
    + pose proof (find_variant_idx _ _ _ _ _ H) as Hi.
      destruct (N.eqb_spec (idx - i) 0) as [Hz|_]; [lia|].
      replace (idx - i - 1) with (idx - (i + 1)) by lia. now apply IH.
Qed.

Lemma tag_size_bound n : n <= 2 ^ tag_size n.
Proof.
  unfold tag_size. destruct (N.le_gt_cases n 1) as [H|H].
  - rewrite N.log2_up_eqn0 by exact H. cbn. exact H.
  - apply N.log2_up_spec in H. lia.
Qed.

(* ------------------------------------------------------------------ typed values:
   the encoder succeeds, yields size(T) bits, and the decoder inverts it *)
Section Encode.
Variable E : list (N * rvariants).

Definition enc_ok (v : lit) (T : rty) : Prop :=
  exists bits, as_bits E v = Ok bits /\ lenN bits = size T /\ from_bits T bits = Ok (Some v).

Definition enc_all_ok (vs : lits) (t : rty) : Prop :=
  exists bits, as_bits_list E vs = Ok bits /\ lenN bits = size t * lits_len vs /\
    forall extra, from_bits_rep (from_bits t) (size t) (N.to_nat (lits_len vs)) (bits ++ extra)
                  = Ok (Some vs).

Definition enc_zip_ok (vs : lits) (ts : rtys) : Prop :=
  exists bits, as_bits_list E vs = Ok bits /\ lenN bits = size_tys ts /\
    forall extra, from_bits_tys ts (bits ++ extra) = Ok (Some vs).

Definition enc_fields_ok (fs : lfields) (dfs : rfields) : Prop :=
  exists bits, as_bits_fields E fs = Ok bits /\ lenN bits = size_fields dfs /\
    forall extra, from_bits_fields dfs (bits ++ extra) = Ok (Some fs).

Lemma enum_encode name v vs idx info p :
  assoc name E = Some vs -> find_variant vs v 0 = Some (idx, info) ->
  lenN p <= max_payload vs ->
  exists bits,
    enum_bits E name v (Ok p) = Ok bits /\ lenN bits = enum_size vs /\
    bits = ubits_of (N.to_nat (tag_size (nvariants vs))) idx ++ p ++
           repeat false (N.to_nat (enum_size vs - tag_size (nvariants vs) - lenN p)) /\
    forall tsz, tsz = tag_size (nvariants vs) ->
      from_bits (REnum name vs) bits = decode_variant name v tsz bits info.
Proof.
  intros HA HF Hp. unfold enum_bits. rewrite HA, HF. cbn [bind].
  unfold enum_size in *.
  destruct (N.leb_spec (tag_size (nvariants vs) + lenN p)
                       (max_payload vs + tag_size (nvariants vs))) as [_|Hc]; [|lia].
  eexists. split; [reflexivity|]. split; [|split; [reflexivity|]].
  - rewrite !lenN_app, lenN_ubits_of, lenN_repeat. lia.
  - intros tsz ->. cbn [from_bits].
    set (tsz := tag_size (nvariants vs)).
    set (tagbits := ubits_of (N.to_nat tsz) idx).
    assert (Hlen : lenN tagbits = tsz) by apply lenN_ubits_of.
    assert (Htag : tag_of_bits tsz (tagbits ++ p ++ repeat false
                     (N.to_nat (max_payload vs + tsz - tsz - lenN p))) = idx).
    { unfold tag_of_bits. rewrite (firstn_exact _ _ _ Hlen), Hlen, N.sub_diag.
      unfold tagbits. rewrite N_of_bits_ubits, N2Nat.id.
      pose proof (find_variant_idx _ _ _ _ _ HF) as Hi.
      pose proof (tag_size_bound (nvariants vs)) as Hb. fold tsz in Hb.
      rewrite N.mod_small by lia. cbn. lia. }
    rewrite Htag. rewrite <- (N.sub_0_r idx) at 1.
    now apply find_variant_decode.
Qed.

Lemma has_type_encode :
  (forall v T, wf E T = true -> has_type v T = true -> enc_ok v T) /\
  (forall vs, (forall t, wf E t = true -> all_has_type vs t = true -> enc_all_ok vs t) /\
              (forall ts, wf_tys E ts = true -> zip_has_type vs ts = true -> enc_zip_ok vs ts)) /\
  (forall fs dfs, wf_fields E dfs = true -> fields_has_type fs dfs = true ->
                  enc_fields_ok fs dfs).
Proof.
  apply lit_mutind.
  - (* LTrue *) intros T W H. destruct T; try discriminate. exists [true]. now cbn.
  - (* LFalse *) intros T W H. destruct T; try discriminate. exists [false]. now cbn.
  - (* LUnsigned *) intros n u T W H. destruct T as [|u'| | | | |]; try discriminate.
    cbn [has_type] in H. apply andb_prop in H as [H1 H2]. apply uty_eqb_eq in H1. subst u'.
    eexists. split; [reflexivity|]. split; [apply lenN_ubits_of|].
    cbn [from_bits]. rewrite lenN_ubits_of, N.eqb_refl. now rewrite unsigned_roundtrip.
  - (* LSigned *) intros z s T W H. destruct T as [| |s'| | | |]; try discriminate.
    cbn [has_type] in H. apply andb_prop in H as [H1 H2]. apply sty_eqb_eq in H1. subst s'.
    eexists. split; [reflexivity|]. split; [apply lenN_sbits_of|].
    cbn [from_bits]. rewrite lenN_sbits_of, N.eqb_refl. now rewrite signed_roundtrip_sty.
  - (* LRepeat: not a value *) intros e _ n T W H. destruct T; discriminate.
  - (* LArray *) intros vs [IH _] T W H. destruct T as [| | |et n| | |]; try discriminate.
    cbn [has_type] in H. apply andb_prop in H as [H1 H2]. apply N.eqb_eq in H1. subst n.
    cbn [wf] in W. destruct (IH et W H2) as (bits & Hb & Hl & Hd).
    exists bits. split; [exact Hb|]. split; [cbn [size]; lia|].
    cbn [from_bits]. specialize (Hd []). rewrite app_nil_r in Hd. now rewrite Hd.
  - (* LTuple *) intros vs [_ IH] T W H. destruct T as [| | | |ts| |]; try discriminate.
    cbn [has_type] in H. cbn [wf] in W. destruct (IH ts W H) as (bits & Hb & Hl & Hd).
    exists bits. split; [exact Hb|]. split; [exact Hl|].
    cbn [from_bits]. specialize (Hd []). rewrite app_nil_r in Hd. now rewrite Hd.
  - (* LStruct *) intros name fs IH T W H. destruct T as [| | | | |name' dfs|]; try discriminate.
    cbn [has_type] in H. apply andb_prop in H as [H1 H2]. apply N.eqb_eq in H1. subst name'.
    cbn [wf] in W. apply andb_prop in W as [_ W].
    destruct (IH dfs W H2) as (bits & Hb & Hl & Hd).
    exists bits. split; [exact Hb|]. split; [exact Hl|].
    cbn [from_bits]. specialize (Hd []). rewrite app_nil_r in Hd. now rewrite Hd.
  - (* LEnumUnit *) intros name v T W H. destruct T as [| | | | | |name' vs]; try discriminate.
    cbn [has_type] in H. apply andb_prop in H as [H1 H2]. apply N.eqb_eq in H1. subst name'.
    apply wf_enum_closed in W as [HA WV].
    destruct (find_variant vs v 0) as [[idx [|ts]]|] eqn:HF; try discriminate.
    destruct (enum_encode name v vs idx VIUnit [] HA HF) as (bits & Hb & Hl & _ & Hd).
    { unfold lenN. cbn. lia. }
    exists bits. cbn [as_bits]. split; [exact Hb|]. split; [exact Hl|].
    now rewrite (Hd _ eq_refl).
  - (* LEnumTuple *) intros name v es [_ IH] T W H.
    destruct T as [| | | | | |name' vs]; try discriminate.
    cbn [has_type] in H. apply andb_prop in H as [H1 H2]. apply N.eqb_eq in H1. subst name'.
    apply wf_enum_closed in W as [HA WV].
    destruct (find_variant vs v 0) as [[idx [|ts]]|] eqn:HF; try discriminate.
    pose proof (find_variant_wf _ _ _ _ _ _ WV HF) as Wts.
    destruct (IH ts Wts H2) as (p & Hp & Hpl & Hpd).
    pose proof (find_variant_payload _ _ _ _ _ HF) as Hle.
    destruct (enum_encode name v vs idx (VITuple ts) p HA HF) as (bits & Hb & Hl & Hshape & Hd);
      [lia|].
    exists bits. cbn [as_bits]. rewrite Hp. split; [exact Hb|]. split; [exact Hl|].
    rewrite (Hd _ eq_refl). unfold decode_variant.
    assert (Hts : (match ts with RsNil => true | RsCons _ _ =>
                     tag_size (nvariants vs) <=? lenN bits end) = true).
    { destruct ts; [reflexivity|]. apply N.leb_le. rewrite Hl. unfold enum_size. lia. }
    rewrite Hts. rewrite Hshape at 1.
    rewrite (skipn_exact _ _ _ (lenN_ubits_of _ _)), Hpd. reflexivity.
  - (* LRange: not a value *) intros mn mx u T W H. destruct T; discriminate.
  - (* LsNil *) split.
    + intros t W H. exists []. cbn. split; [reflexivity|]. split; [unfold lenN; cbn; lia|].
      reflexivity.
    + intros ts W H. destruct ts; [|discriminate]. exists []. now cbn.
  - (* LsCons *) intros v IHv r [IHr1 IHr2]. split.
    + intros t W H. cbn [all_has_type] in H. apply andb_prop in H as [H1 H2].
      destruct (IHv t W H1) as (b & Hb & Hbl & Hbd).
      destruct (IHr1 t W H2) as (br & Hbr & Hbrl & Hbrd).
      exists (b ++ br). cbn [as_bits_list]. rewrite Hb, Hbr. cbn [bind].
      split; [reflexivity|]. split; [rewrite lenN_app; cbn [lits_len]; lia|].
      intro extra. cbn [lits_len]. rewrite to_nat_1_add. cbn [from_bits_rep].
      rewrite <- app_assoc.
      destruct (N.leb_spec (size t) (lenN (b ++ br ++ extra))) as [_|Hc];
        [|rewrite lenN_app in Hc; lia].
      rewrite (firstn_exact _ _ _ Hbl), Hbd. cbn [bindd].
      rewrite (skipn_exact _ _ _ Hbl), Hbrd. reflexivity.
    + intros ts W H. destruct ts as [|t tr]; [discriminate|].
      cbn [zip_has_type] in H. apply andb_prop in H as [H1 H2].
      cbn [wf_tys] in W. apply andb_prop in W as [W1 W2].
      destruct (IHv t W1 H1) as (b & Hb & Hbl & Hbd).
      destruct (IHr2 tr W2 H2) as (br & Hbr & Hbrl & Hbrd).
      exists (b ++ br). cbn [as_bits_list]. rewrite Hb, Hbr. cbn [bind].
      split; [reflexivity|]. split; [rewrite lenN_app; cbn [size_tys]; lia|].
      intro extra. cbn [from_bits_tys]. rewrite <- app_assoc.
      destruct (N.leb_spec (size t) (lenN (b ++ br ++ extra))) as [_|Hc];
        [|rewrite lenN_app in Hc; lia].
      rewrite (firstn_exact _ _ _ Hbl), Hbd. cbn [bindd].
      rewrite (skipn_exact _ _ _ Hbl), Hbrd. reflexivity.
  - (* LFNil *) intros dfs W H. destruct dfs; [|discriminate]. exists []. now cbn.
  - (* LFCons *) intros n v IHv r IHr dfs W H. destruct dfs as [|dn t dr]; [discriminate|].
    cbn [fields_has_type] in H. apply andb_prop in H as [H12 H3].
    apply andb_prop in H12 as [H1 H2]. apply N.eqb_eq in H1. subst dn.
    cbn [wf_fields] in W. apply andb_prop in W as [W1 W2].
    destruct (IHv t W1 H2) as (b & Hb & Hbl & Hbd).
    destruct (IHr dr W2 H3) as (br & Hbr & Hbrl & Hbrd).
    exists (b ++ br). cbn [as_bits_fields]. rewrite Hb, Hbr. cbn [bind].
    split; [reflexivity|]. split; [rewrite lenN_app; cbn [size_fields]; lia|].
    intro extra. cbn [from_bits_fields]. rewrite <- app_assoc.
    destruct (N.leb_spec (size t) (lenN (b ++ br ++ extra))) as [_|Hc];
      [|rewrite lenN_app in Hc; lia].
    rewrite (firstn_exact _ _ _ Hbl), Hbd. cbn [bindd].
    rewrite (skipn_exact _ _ _ Hbl), Hbrd. reflexivity.
Qed.

End Encode.

(* ------------------------------------------------------------------ spellings *)

Lemma replicate_len k v : lits_len (replicate k v) = N.of_nat k.
Proof. induction k as [|k IH]; cbn [replicate lits_len]; lia. Qed.

Lemma replicate_typed k v t : has_type v t = true -> all_has_type (replicate k v) t = true.
Proof. intro H. induction k as [|k IH]; cbn [replicate all_has_type]; [reflexivity|]. now rewrite H. Qed.

Lemma replicate_bits E k v b :
  as_bits E v = Ok b -> as_bits_list E (replicate k v) = Ok (repeat_bits k b).
Proof.
  intro H. induction k as [|k IH]; cbn [replicate as_bits_list repeat_bits]; [reflexivity|].
  now rewrite H, IH.
Qed.

Lemma range_lits_len c s u : lits_len (range_lits c s u) = N.of_nat c.
Proof. revert s. induction c as [|c IH]; intro s; cbn [range_lits lits_len]; [reflexivity|]. rewrite IH. lia. Qed.

Lemma u_in_range_mono i j u : i <= j -> u_in_range j u = true -> u_in_range i u = true.
Proof.
  unfold u_in_range. destruct (umax u); [|discriminate]. intros Hij H.
  apply N.leb_le in H. apply N.leb_le. lia.
Qed.

Lemma range_lits_typed u c s :
  (c = 0%nat \/ u_in_range (s + N.of_nat c - 1) u = true) ->
  all_has_type (range_lits c s u) (RUnsigned u) = true.
Proof.
  revert s. induction c as [|c IH]; intros s H; cbn [range_lits all_has_type]; [reflexivity|].
  destruct H as [H|H]; [discriminate|].
  cbn [has_type]. rewrite uty_eqb_refl. cbn [andb].
  assert (Hs : u_in_range s u = true).
  { apply (u_in_range_mono s (s + N.of_nat (S c) - 1) u); [lia|exact H]. }
  rewrite Hs. cbn [andb].
  apply IH. destruct c as [|c']; [now left|right].
  replace (s + 1 + N.of_nat (S c') - 1) with (s + N.of_nat (S (S c')) - 1) by lia. exact H.
Qed.

Lemma range_lits_bits E u c s :
  as_bits_list E (range_lits c s u) = Ok (range_bits c s (N.to_nat (ubits u))).
Proof.
  revert s. induction c as [|c IH]; intro s; cbn [range_lits as_bits_list range_bits]; [reflexivity|].
  cbn [as_bits bind]. now rewrite IH.
Qed.

Lemma sorted_fields_sort vfs : forall dfs lo,
  fields_has_type vfs dfs = true -> fields_sorted lo dfs = true -> sort_fields vfs = Some vfs.
Proof.
  induction vfs as [|n v r IH]; intros dfs lo H S; [reflexivity|].
  destruct dfs as [|dn t dr]; [discriminate|].
  cbn [fields_has_type] in H. apply andb_prop in H as [H12 H3].
  apply andb_prop in H12 as [H1 _]. apply N.eqb_eq in H1. subst dn.
  cbn [fields_sorted] in S. apply andb_prop in S as [_ S].
  cbn [sort_fields]. rewrite (IH dr (Some n) H3 S).
  destruct r as [|n2 v2 r']; [reflexivity|].
  destruct dr as [|dn2 t2 dr2]; [discriminate|].
  cbn [fields_has_type] in H3. apply andb_prop in H3 as [H12 _].
  apply andb_prop in H12 as [H1 _]. apply N.eqb_eq in H1. subst dn2.
  cbn [fields_sorted] in S. apply andb_prop in S as [S _].
  cbn [insert_field]. now rewrite S.
Qed.

Section Accept.
Variable E : list (N * rvariants).

Definition acc_ok (l : lit) (T : rty) : Prop :=
  exists v, denote l = Some v /\ has_type v T = true /\ as_bits E l = as_bits E v.

Lemma accept_denotes :
  (forall l T, wf E T = true -> is_of_type l T = true -> acc_ok l T) /\
  (forall ls,
     (forall t, wf E t = true -> all_of_type ls t = true ->
        exists vs, denote_list ls = Some vs /\ all_has_type vs t = true /\
                   lits_len vs = lits_len ls /\ as_bits_list E ls = as_bits_list E vs) /\
     (forall ts, wf_tys E ts = true -> zip_of_type ls ts = true ->
        exists vs, denote_list ls = Some vs /\ zip_has_type vs ts = true /\
                   as_bits_list E ls = as_bits_list E vs)) /\
  (forall fs dfs, wf_fields E dfs = true -> fields_of_type fs dfs = true ->
     exists vfs, denote_fields fs = Some vfs /\ fields_has_type vfs dfs = true /\
                 as_bits_fields E fs = as_bits_fields E vfs).
Proof.
  apply lit_mutind.
  - intros T W H. destruct T; try discriminate. exists LTrue. now cbn.
  - intros T W H. destruct T; try discriminate. exists LFalse. now cbn.
  - (* LUnsigned *) intros n u T W H. destruct T as [|u'| | | | |]; try discriminate.
    cbn [is_of_type] in H. pose proof H as H0. apply andb_prop in H as [H1 H2].
    apply uty_eqb_eq in H1. subst u'.
    exists (LUnsigned n u). cbn [denote]. rewrite H2.
    split; [reflexivity|]. split; [exact H0|reflexivity].
  - (* LSigned *) intros z s T W H. destruct T as [| |s'| | | |]; try discriminate.
    cbn [is_of_type] in H. pose proof H as H0. apply andb_prop in H as [H1 H2].
    apply sty_eqb_eq in H1. subst s'.
    exists (LSigned z s). cbn [denote]. rewrite H2.
    split; [reflexivity|]. split; [exact H0|reflexivity].
  - (* LRepeat *) intros e IHe n T W H. destruct T as [| | |et n'| | |]; try discriminate.
    cbn [is_of_type] in H. apply andb_prop in H as [H1 H2]. apply N.eqb_eq in H1. subst n'.
    cbn [wf] in W. destruct (IHe et W H2) as (v & Hd & Ht & Hb).
    destruct (proj1 (has_type_encode E) v et W Ht) as (b & Hvb & _ & _).
    exists (LArray (replicate (N.to_nat n) v)). cbn [denote]. rewrite Hd.
    split; [reflexivity|]. split.
    + cbn [has_type]. rewrite replicate_len, N2Nat.id, N.eqb_refl. cbn [andb].
      now apply replicate_typed.
    + cbn [as_bits]. rewrite Hb, Hvb. cbn [bind]. symmetry. now apply replicate_bits.
  - (* LArray *) intros es [IH _] T W H. destruct T as [| | |et n| | |]; try discriminate.
    cbn [is_of_type] in H. apply andb_prop in H as [H1 H2].
    cbn [wf] in W. destruct (IH et W H2) as (vs & Hd & Ht & Hl & Hb).
    exists (LArray vs). cbn [denote]. rewrite Hd. split; [reflexivity|]. split.
    + cbn [has_type]. rewrite Hl, H1. exact Ht.
    + cbn [as_bits]. exact Hb.
  - (* LTuple *) intros es [_ IH] T W H. destruct T as [| | | |ts| |]; try discriminate.
    cbn [is_of_type] in H. cbn [wf] in W. destruct (IH ts W H) as (vs & Hd & Ht & Hb).
    exists (LTuple vs). cbn [denote]. rewrite Hd. now cbn.
  - (* LStruct *) intros name fs IH T W H. destruct T as [| | | | |name' dfs|]; try discriminate.
    cbn [is_of_type] in H. apply andb_prop in H as [H1 H2].
    cbn [wf] in W. apply andb_prop in W as [S W].
    destruct (IH dfs W H2) as (vfs & Hd & Ht & Hb).
    exists (LStruct name vfs). cbn [denote]. rewrite Hd, (sorted_fields_sort _ _ _ Ht S).
    split; [reflexivity|]. split; [cbn [has_type]; now rewrite H1|]. exact Hb.
  - (* LEnumUnit *) intros name v T W H. destruct T as [| | | | | |name' vs]; try discriminate.
    exists (LEnumUnit name v). now cbn.
  - (* LEnumTuple *) intros name v es [_ IH] T W H.
    destruct T as [| | | | | |name' vs]; try discriminate.
    cbn [is_of_type] in H. apply andb_prop in H as [H1 H2].
    apply wf_enum_closed in W as [HA WV].
    destruct (find_variant vs v 0) as [[idx [|ts]]|] eqn:HF; try discriminate.
    pose proof (find_variant_wf _ _ _ _ _ _ WV HF) as Wts.
    destruct (IH ts Wts H2) as (vs' & Hd & Ht & Hb).
    exists (LEnumTuple name v vs'). cbn [denote]. rewrite Hd. split; [reflexivity|]. split.
    + cbn [has_type]. now rewrite H1, HF.
    + cbn [as_bits]. now rewrite Hb.
  - (* LRange *) intros mn mx u T W H. destruct T as [| | |et n| | |]; try discriminate.
    cbn [is_of_type] in H. apply andb_prop in H as [H12 H3]. apply andb_prop in H12 as [H1 H2].
    destruct et as [|u'| | | | |]; try discriminate. apply uty_eqb_eq in H1. subst u'.
    apply N.eqb_eq in H3.
    exists (LArray (range_lits (N.to_nat (mx - mn)) mn u)). cbn [denote]. rewrite H2.
    split; [reflexivity|]. split.
    + cbn [has_type]. rewrite range_lits_len, N2Nat.id, H3, N.eqb_refl. cbn [andb].
      apply range_lits_typed. unfold range_ok in H2. apply andb_prop in H2 as [Ha Hb].
      apply N.leb_le in Ha. apply orb_prop in Hb as [Hb|Hb].
      * apply N.eqb_eq in Hb. left. lia.
      * right. match goal with |- u_in_range ?x u = true => replace x with (mx - 1) by lia end.
        exact Hb.
    + cbn [as_bits]. symmetry. apply range_lits_bits.
  - (* LsNil *) split.
    + intros t W H. exists LsNil. now cbn.
    + intros ts W H. destruct ts; [|discriminate]. exists LsNil. now cbn.
  - (* LsCons *) intros l IHl r [IHr1 IHr2]. split.
    + intros t W H. cbn [all_of_type] in H. apply andb_prop in H as [H1 H2].
      destruct (IHl t W H1) as (v & Hd & Ht & Hb).
      destruct (IHr1 t W H2) as (vs & Hds & Hts & Hls & Hbs).
      exists (LsCons v vs). cbn [denote_list]. rewrite Hd, Hds. split; [reflexivity|].
      cbn [all_has_type lits_len as_bits_list]. rewrite Ht, Hts, Hls, Hb, Hbs. auto.
    + intros ts W H. destruct ts as [|t tr]; [discriminate|].
      cbn [zip_of_type] in H. apply andb_prop in H as [H1 H2].
      cbn [wf_tys] in W. apply andb_prop in W as [W1 W2].
      destruct (IHl t W1 H1) as (v & Hd & Ht & Hb).
      destruct (IHr2 tr W2 H2) as (vs & Hds & Hts & Hbs).
      exists (LsCons v vs). cbn [denote_list]. rewrite Hd, Hds. split; [reflexivity|].
      cbn [zip_has_type as_bits_list]. rewrite Ht, Hts, Hb, Hbs. auto.
  - (* LFNil *) intros dfs W H. destruct dfs; [|discriminate]. exists LFNil. now cbn.
  - (* LFCons *) intros n l IHl r IHr dfs W H. destruct dfs as [|dn t dr]; [discriminate|].
    cbn [fields_of_type] in H. apply andb_prop in H as [H12 H3].
    apply andb_prop in H12 as [H1 H2].
    cbn [wf_fields] in W. apply andb_prop in W as [W1 W2].
    destruct (IHl t W1 H2) as (v & Hd & Ht & Hb).
    destruct (IHr dr W2 H3) as (vs & Hds & Hts & Hbs).
    exists (LFCons n v vs). cbn [denote_fields]. rewrite Hd, Hds. split; [reflexivity|].
    cbn [fields_has_type as_bits_fields]. rewrite H1, Ht, Hts, Hb, Hbs. auto.
Qed.

End Accept.

(* ------------------------------------------------------------------ the statements
   used by Props/C09.v *)

Lemma encode_size E v T :
  wf E T = true -> has_type v T = true ->
  exists bits, as_bits E v = Ok bits /\ N.of_nat (length bits) = size T.
Proof.
  intros W H. destruct (proj1 (has_type_encode E) v T W H) as (bits & Hb & Hl & _). eauto.
Qed.

Lemma decode_encode E v T :
  wf E T = true -> has_type v T = true ->
  exists bits, as_bits E v = Ok bits /\ from_bits T bits = Ok (Some v).
Proof.
  intros W H. destruct (proj1 (has_type_encode E) v T W H) as (bits & Hb & _ & Hd). eauto.
Qed.

Lemma accept_sound E l T :
  wf E T = true -> is_of_type l T = true ->
  exists v bits,
    denote l = Some v /\ has_type v T = true /\
    as_bits E l = Ok bits /\ as_bits E v = Ok bits /\ N.of_nat (length bits) = size T.
Proof.
  intros W H. destruct (proj1 (accept_denotes E) l T W H) as (v & Hd & Ht & Hb).
  destruct (proj1 (has_type_encode E) v T W Ht) as (bits & Hvb & Hl & _).
  exists v, bits. rewrite Hb. auto.
Qed.

(* ------------------------------------------------------------------ typed values are
   accepted by the type test and denote themselves (the type test is not vacuous) *)
Lemma values_accepted E :
  (forall v T, wf E T = true -> has_type v T = true ->
     is_of_type v T = true /\ denote v = Some v) /\
  (forall vs,
     (forall t, wf E t = true -> all_has_type vs t = true ->
        all_of_type vs t = true /\ denote_list vs = Some vs) /\
     (forall ts, wf_tys E ts = true -> zip_has_type vs ts = true ->
        zip_of_type vs ts = true /\ denote_list vs = Some vs)) /\
  (forall fs dfs, wf_fields E dfs = true -> fields_has_type fs dfs = true ->
     fields_of_type fs dfs = true /\ denote_fields fs = Some fs).
Proof.
  apply lit_mutind.
  - intros T W H. destruct T; try discriminate. now cbn.
  - intros T W H. destruct T; try discriminate. now cbn.
  - intros n u T W H. destruct T as [|u'| | | | |]; try discriminate.
    cbn [has_type] in H. cbn [is_of_type denote]. split.
    + apply andb_prop in H as [H1 H2]. apply uty_eqb_eq in H1. subst u'.
      now rewrite uty_eqb_refl, H2.
    + apply andb_prop in H as [_ H2]. now rewrite H2.
  - intros z s T W H. destruct T as [| |s'| | | |]; try discriminate.
    cbn [has_type] in H. cbn [is_of_type denote]. split.
    + apply andb_prop in H as [H1 H2]. apply sty_eqb_eq in H1. subst s'.
      now rewrite sty_eqb_refl, H2.
    + apply andb_prop in H as [_ H2]. now rewrite H2.
  - intros e _ n T W H. destruct T; discriminate.
  - intros vs [IH _] T W H. destruct T as [| | |et n| | |]; try discriminate.
    cbn [has_type] in H. apply andb_prop in H as [H1 H2]. cbn [wf] in W.
    destruct (IH et W H2) as [Ha Hd]. cbn [is_of_type denote]. now rewrite H1, Ha, Hd.
  - intros vs [_ IH] T W H. destruct T as [| | | |ts| |]; try discriminate.
    cbn [has_type] in H. cbn [wf] in W.
    destruct (IH ts W H) as [Ha Hd]. cbn [is_of_type denote]. now rewrite Ha, Hd.
  - intros name fs IH T W H. destruct T as [| | | | |name' dfs|]; try discriminate.
    cbn [has_type] in H. apply andb_prop in H as [H1 H2].
    cbn [wf] in W. apply andb_prop in W as [S W].
    destruct (IH dfs W H2) as [Ha Hd]. cbn [is_of_type denote].
    now rewrite H1, Ha, Hd, (sorted_fields_sort _ _ _ H2 S).
  - intros name v T W H. destruct T as [| | | | | |name' vs]; try discriminate.
    cbn [has_type] in H. cbn [is_of_type denote]. now rewrite H.
  - intros name v es [_ IH] T W H. destruct T as [| | | | | |name' vs]; try discriminate.
    cbn [has_type] in H. apply andb_prop in H as [H1 H2].
    apply wf_enum_closed in W as [HA WV].
    destruct (find_variant vs v 0) as [[idx [|ts]]|] eqn:HF; try discriminate.
    pose proof (find_variant_wf _ _ _ _ _ _ WV HF) as Wts.
    destruct (IH ts Wts H2) as [Ha Hd]. cbn [is_of_type denote]. now rewrite H1, HF, Ha, Hd.
  - intros mn mx u T W H. destruct T; discriminate.
  - split; intros t W H; [now cbn|]. destruct t; [now cbn|discriminate].
  - intros v IHv r [IHr1 IHr2]. split.
    + intros t W H. cbn [all_has_type] in H. apply andb_prop in H as [H1 H2].
      destruct (IHv t W H1) as [Ha Hd]. destruct (IHr1 t W H2) as [Has Hds].
      cbn [all_of_type denote_list]. now rewrite Ha, Has, Hd, Hds.
    + intros ts W H. destruct ts as [|t tr]; [discriminate|].
      cbn [zip_has_type] in H. apply andb_prop in H as [H1 H2].
      cbn [wf_tys] in W. apply andb_prop in W as [W1 W2].
      destruct (IHv t W1 H1) as [Ha Hd]. destruct (IHr2 tr W2 H2) as [Has Hds].
      cbn [zip_of_type denote_list]. now rewrite Ha, Has, Hd, Hds.
  - intros dfs W H. destruct dfs; [now cbn|discriminate].
  - intros n v IHv r IHr dfs W H. destruct dfs as [|dn t dr]; [discriminate|].
    cbn [fields_has_type] in H. apply andb_prop in H as [H12 H3].
    apply andb_prop in H12 as [H1 H2].
    cbn [wf_fields] in W. apply andb_prop in W as [W1 W2].
    destruct (IHv t W1 H2) as [Ha Hd]. destruct (IHr dr W2 H3) as [Has Hds].
    cbn [fields_of_type denote_fields]. now rewrite H1, Ha, Has, Hd, Hds.
Qed.

Lemma values_accepted_top E v T :
  wf E T = true -> has_type v T = true -> is_of_type v T = true /\ denote v = Some v.
Proof. apply (proj1 (values_accepted E)). Qed.

(* ------------------------------------------------------------------ layout *)

Lemma signed_bits_value k z :
  Z.of_N (N_of_bits (sbits_of k z)) = (z mod 2 ^ Z.of_nat k)%Z.
Proof.
  rewrite sbits_as_ubits, N_of_bits_ubits.
  assert (Hp : (0 < 2 ^ Z.of_nat k)%Z) by (apply Z.pow_pos_nonneg; lia).
  assert (Hm : (0 <= z mod 2 ^ Z.of_nat k < 2 ^ Z.of_nat k)%Z) by (apply Z.mod_pos_bound; lia).
  rewrite N.mod_small.
  - apply Z2N.id. lia.
  - apply N2Z.inj_lt. rewrite Z2N.id by lia. rewrite N2Z.inj_pow, nat_N_Z. cbn. lia.
Qed.

Definition layout_statement : Prop :=
  (* bool: one bit *)
  (forall E, as_bits E LTrue = Ok [true] /\ as_bits E LFalse = Ok [false]) /\
  (* unsigned: size bits, most significant first; the bits read as a number give n mod 2^size *)
  (forall E n u, exists bits,
      as_bits E (LUnsigned n u) = Ok bits /\ length bits = N.to_nat (ubits u) /\
      (forall i, (i < length bits)%nat ->
         nth_error bits i = Some (N.testbit n (N.of_nat (length bits - 1 - i)))) /\
      N_of_bits bits = n mod 2 ^ ubits u) /\
  (* signed: the same bits as the two's-complement residue z mod 2^size *)
  (forall E z s, exists bits,
      as_bits E (LSigned z s) = Ok bits /\ length bits = N.to_nat (sbits s) /\
      (forall i, (i < length bits)%nat ->
         nth_error bits i = Some (Z.testbit z (Z.of_nat (length bits - 1 - i)))) /\
      Z.of_N (N_of_bits bits) = (z mod 2 ^ Z.of_N (sbits s))%Z) /\
  (* arrays, tuples, structs: the elements / fields concatenated in order *)
  (forall E, as_bits E (LArray LsNil) = Ok [] /\ as_bits E (LTuple LsNil) = Ok [] /\
             forall n, as_bits E (LStruct n LFNil) = Ok []) /\
  (forall E v r, as_bits E (LArray (LsCons v r)) =
                 (let* b := as_bits E v in let* br := as_bits E (LArray r) in Ok (b ++ br))) /\
  (forall E v r, as_bits E (LTuple (LsCons v r)) =
                 (let* b := as_bits E v in let* br := as_bits E (LTuple r) in Ok (b ++ br))) /\
  (forall E n f v r, as_bits E (LStruct n (LFCons f v r)) =
                 (let* b := as_bits E v in let* br := as_bits E (LStruct n r) in Ok (b ++ br))) /\
  (* enums: the variant's index in tag_size bits, the payload fields concatenated, zeros up
     to the size of the largest variant *)
  (forall E name v es vs idx info p,
      assoc name E = Some vs -> find_variant vs v 0 = Some (idx, info) ->
      as_bits_list E es = Ok p -> lenN p <= max_payload vs ->
      as_bits E (LEnumTuple name v es) =
        Ok (ubits_of (N.to_nat (tag_size (nvariants vs))) idx ++ p ++
            repeat false (N.to_nat (max_payload vs - lenN p)))) /\
  (forall E name v vs idx info,
      assoc name E = Some vs -> find_variant vs v 0 = Some (idx, info) ->
      as_bits E (LEnumUnit name v) =
        Ok (ubits_of (N.to_nat (tag_size (nvariants vs))) idx ++
            repeat false (N.to_nat (max_payload vs)))).

Lemma layout : layout_statement.
Proof.
  unfold layout_statement. repeat split; try reflexivity.
  - intros E n u. eexists. split; [reflexivity|]. rewrite ubits_of_length.
    split; [reflexivity|]. split.
    + intros i Hi. now apply ubits_of_nth.
    + now rewrite N_of_bits_ubits, N2Nat.id.
  - intros E z s. eexists. split; [reflexivity|]. rewrite sbits_of_length.
    split; [reflexivity|]. split.
    + intros i Hi. now apply sbits_of_nth.
    + rewrite signed_bits_value. do 2 f_equal. lia.
  - intros E name v es vs idx info p HA HF Hp Hle. cbn [as_bits]. rewrite Hp.
    destruct (enum_encode E name v vs idx info p HA HF Hle) as (bits & Hb & _ & Hs & _).
    rewrite Hb, Hs. unfold enum_size. do 4 f_equal. lia.
  - intros E name v vs idx info HA HF. cbn [as_bits].
    destruct (enum_encode E name v vs idx info [] HA HF) as (bits & Hb & _ & Hs & _).
    { unfold lenN. cbn. lia. }
    rewrite Hb, Hs. unfold enum_size, lenN. cbn [app length]. do 4 f_equal. lia.
Qed.

(* ------------------------------------------------------------------ non-vacuity: the
   hypotheses of the C09 theorems hold for a type with a struct, an enum with a payload, a
   tuple and an array; one canonical value; one non-canonical accepted spelling; and the
   spellings of DESIGN.md §6-16..19 are refused *)
Module Demo.
  Definition vsE : rvariants :=
    RVUnit 5 (RVTuple 6 (RsCons (RUnsigned U8) (RsCons (RUnsigned U16) RsNil)) RVNil).
  Definition E : list (N * rvariants) := [(10, vsE)].
  Definition S11 : rfields := RFCons 1 (RUnsigned U8) (RFCons 2 (REnum 10 vsE) RFNil).
  Definition T : rty :=
    RTuple (RsCons (RStruct 11 S11) (RsCons (RArray (RSigned I8) 2) RsNil)).
  Definition payload : lits := LsCons (LUnsigned 7 U8) (LsCons (LUnsigned 300 U16) LsNil).
  Definition v : lit :=
    LTuple (LsCons (LStruct 11 (LFCons 1 (LUnsigned 255 U8)
                                 (LFCons 2 (LEnumTuple 10 6 payload) LFNil)))
           (LsCons (LArray (LsCons (LSigned (-128) I8) (LsCons (LSigned (-128) I8) LsNil)))
            LsNil)).
  Definition l : lit :=
    LTuple (LsCons (LStruct 11 (LFCons 1 (LUnsigned 255 U8)
                                 (LFCons 2 (LEnumTuple 10 6 payload) LFNil)))
           (LsCons (LRepeat (LSigned (-128) I8) 2) LsNil)).
  Definition permuted : lit :=
    LStruct 11 (LFCons 2 (LEnumUnit 10 5) (LFCons 1 (LUnsigned 1 U8) LFNil)).
  Definition duplicated : lit :=
    LStruct 11 (LFCons 1 (LUnsigned 1 U8) (LFCons 1 (LUnsigned 1 U8) LFNil)).
  Definition short_payload : lit := LEnumTuple 10 6 (LsCons (LUnsigned 7 U8) LsNil).
  Definition long_payload : lit :=
    LEnumTuple 10 6 (LsCons (LUnsigned 7 U8) (LsCons (LUnsigned 3 U16) (LsCons LTrue LsNil))).
End Demo.

Example demo_hypotheses :
  wf Demo.E Demo.T = true /\ has_type Demo.v Demo.T = true /\
  is_of_type Demo.l Demo.T = true /\ has_type Demo.l Demo.T = false /\
  denote Demo.l = Some Demo.v /\ size Demo.T = 8 + 25 + 16.
Proof. vm_compute. repeat split; reflexivity. Qed.

Example demo_refused :
  is_of_type Demo.permuted (RStruct 11 Demo.S11) = false /\
  is_of_type Demo.duplicated (RStruct 11 Demo.S11) = false /\
  is_of_type Demo.short_payload (REnum 10 Demo.vsE) = false /\
  is_of_type Demo.long_payload (REnum 10 Demo.vsE) = false /\
  is_of_type (LUnsigned 300 U8) (RUnsigned U8) = false /\
  is_of_type (LSigned 200 I8) (RSigned I8) = false /\
  is_of_type (LRange 5 2 U8) (RArray (RUnsigned U8) 3) = false /\
  is_of_type (LRange 254 257 U8) (RArray (RUnsigned U8) 3) = false /\
  is_of_type (LRange 253 256 U8) (RArray (RUnsigned U8) 3) = true.
Proof. vm_compute. repeat split; reflexivity. Qed.
