(* THE DECODER ONLY PRODUCES CANONICAL VALUES OF THE TYPE (C09).

   [from_bits_has_type] : dwf t = true -> from_bits t bits = Ok (Some l) -> has_type l t = true
   where [dwf] is what the decoder needs of the type: no `Unspecified` number type (the range test
   of [has_type] is false there; program types never have one) and pairwise distinct variant names
   in every enum (the decoder picks the variant by POSITION, [has_type] looks it up by NAME: first
   match).  Struct fields need no condition; neither does the enum environment of [Types.wf]. *)
From Coq Require Import ZArith List Lia.
Import ListNotations.
From GV Require Import Base.Util Lang.Types Lang.Literal Lang.LiteralProofs.
Local Open Scope N_scope.

(* ------------------------------------------------------------------ the condition on the type *)

Fixpoint vnames (vs : rvariants) : list N :=
  match vs with
  | RVNil => []
  | RVUnit n r | RVTuple n _ r => n :: vnames r
  end.

Fixpoint distinct (l : list N) : bool :=
  match l with
  | [] => true
  | x :: r => negb (existsb (N.eqb x) r) && distinct r
  end.

Fixpoint dwf (t : rty) : bool :=
  match t with
  | RBool => true
  | RUnsigned u => negb (uty_eqb u UUnspec)
  | RSigned s => negb (sty_eqb s SUnspec)
  | RArray t _ => dwf t
  | RTuple ts => dwf_tys ts
  | RStruct _ fs => dwf_fields fs
  | REnum _ vs => distinct (vnames vs) && dwf_variants vs
  end
with dwf_tys (ts : rtys) : bool :=
  match ts with RsNil => true | RsCons t r => dwf t && dwf_tys r end
with dwf_fields (fs : rfields) : bool :=
  match fs with RFNil => true | RFCons _ t r => dwf t && dwf_fields r end
with dwf_variants (vs : rvariants) : bool :=
  match vs with
  | RVNil => true
  | RVUnit _ r => dwf_variants r
  | RVTuple _ ts r => dwf_tys ts && dwf_variants r
  end.

(* ------------------------------------------------------------------ numbers *)

Lemma N_of_bits_acc_bound : forall l acc, N_of_bits_acc acc l < (acc + 1) * 2 ^ lenN l.
Proof.
  induction l as [|b r IH]; intro acc; cbn [N_of_bits_acc].
  - unfold lenN. cbn. lia.
  - specialize (IH (2 * acc + N.b2n b)).
    assert (Hl : lenN (b :: r) = lenN r + 1) by (unfold lenN; cbn [length]; lia).
    rewrite Hl, N.pow_add_r. change (2 ^ 1) with 2.
    assert (Hb : N.b2n b <= 1) by (destruct b; cbn; lia).
    assert (H2 : (2 * acc + N.b2n b + 1) * 2 ^ lenN r <= (acc + 1) * (2 ^ lenN r * 2)) by nia.
    lia.
Qed.

Lemma N_of_bits_bound l : N_of_bits l < 2 ^ lenN l.
Proof. unfold N_of_bits. pose proof (N_of_bits_acc_bound l 0). lia. Qed.

Lemma unsigned_decoded u bits : uty_eqb u UUnspec = false -> lenN bits = ubits u ->
  u_in_range (N_of_bits bits) u = true.
Proof.
  intros Hu Hl. pose proof (N_of_bits_bound bits) as Hb. rewrite Hl in Hb. unfold u_in_range.
  destruct u; try discriminate Hu; cbn [umax ubits] in *;
    match type of Hb with _ < ?p => let v := eval vm_compute in p in change p with v in Hb end; apply N.leb_le; lia.
Qed.

Lemma signed_decoded s bits : sty_eqb s SUnspec = false -> lenN bits = sbits s ->
  s_in_range (signed_of_bits (sbits s) bits) s = true.
Proof.
  intros Hs Hl. pose proof (N_of_bits_bound bits) as Hb. rewrite Hl in Hb. unfold s_in_range, signed_of_bits.
  destruct s; try discriminate Hs; cbn [smin smax sbits] in *;
    match type of Hb with _ < ?p => let v := eval vm_compute in p in change p with v in Hb end;
    match goal with |- context [?a <=? N_of_bits bits] =>
      let v := eval vm_compute in a in change a with v; destruct (N.leb_spec v (N_of_bits bits)) end;
    match goal with |- context [(Z.of_N (N_of_bits bits) - ?q)%Z] =>
      let v := eval vm_compute in q in change q with v | _ => idtac end;
    apply andb_true_intro; split; apply Z.leb_le; lia.
Qed.

(* ------------------------------------------------------------------ variants by position and by name *)

Fixpoint nth_variant (vs : rvariants) (k : N) : option (N * vinfo) :=
  match vs with
  | RVNil => None
  | RVUnit n r => if k =? 0 then Some (n, VIUnit) else nth_variant r (k - 1)
  | RVTuple n ts r => if k =? 0 then Some (n, VITuple ts) else nth_variant r (k - 1)
  end.

Lemma nth_variant_in : forall vs k n info, nth_variant vs k = Some (n, info) -> In n (vnames vs).
Proof.
  induction vs as [|n0 r IH|n0 ts r IH]; intros k n info H; cbn [nth_variant vnames] in *; [discriminate| |].
  - destruct (k =? 0); [injection H as <- _; now left|right; eapply IH; eassumption].
  - destruct (k =? 0); [injection H as <- _; now left|right; eapply IH; eassumption].
Qed.

Lemma existsb_eqb_false x l : existsb (N.eqb x) l = false -> ~ In x l.
Proof.
  intros H Hin. assert (existsb (N.eqb x) l = true) by (apply existsb_exists; exists x; split; [exact Hin|apply N.eqb_refl]).
  congruence.
Qed.

(* with distinct names the variant at a position is the one its name finds *)
Lemma nth_find : forall vs k n info i, distinct (vnames vs) = true -> nth_variant vs k = Some (n, info) ->
  exists j, find_variant vs n i = Some (j, info).
Proof.
  induction vs as [|n0 r IH|n0 ts r IH]; intros k n info i Hd H; cbn [nth_variant vnames distinct find_variant] in *;
    [discriminate| |].
  - apply andb_prop in Hd as [Hx Hr]. destruct (k =? 0).
    + injection H as <- <-. rewrite N.eqb_refl. eauto.
    + destruct (N.eqb_spec n0 n) as [->|_]; [|now apply (IH (k - 1))].
      exfalso. apply (existsb_eqb_false n (vnames r)); [now destruct (existsb (N.eqb n) (vnames r))|].
      eapply nth_variant_in; eassumption.
  - apply andb_prop in Hd as [Hx Hr]. destruct (k =? 0).
    + injection H as <- <-. rewrite N.eqb_refl. eauto.
    + destruct (N.eqb_spec n0 n) as [->|_]; [|now apply (IH (k - 1))].
      exfalso. apply (existsb_eqb_false n (vnames r)); [now destruct (existsb (N.eqb n) (vnames r))|].
      eapply nth_variant_in; eassumption.
Qed.

(* ------------------------------------------------------------------ the induction over the type *)

Lemma bindd_some {A B} (r : dres A) (k : A -> dres B) b :
  bindd r k = Ok (Some b) -> exists a, r = Ok (Some a) /\ k a = Ok (Some b).
Proof. destruct r as [[a|]| |]; cbn [bindd]; try discriminate. eauto. Qed.

Lemma lits_len_cons v vs : lits_len (LsCons v vs) = 1 + lits_len vs.
Proof. reflexivity. Qed.

Lemma from_bits_rep_typed (f : list bool -> dres lit) t sz :
  (forall bits l, f bits = Ok (Some l) -> has_type l t = true) ->
  forall count bits ls, from_bits_rep f sz count bits = Ok (Some ls) ->
    all_has_type ls t = true /\ lits_len ls = N.of_nat count.
Proof.
  intro Hf. induction count as [|c IH]; intros bits ls H; cbn [from_bits_rep] in H.
  - injection H as <-. split; reflexivity.
  - destruct (sz <=? lenN bits); [|discriminate H].
    apply bindd_some in H as (v & Hv & H). apply bindd_some in H as (vs & Hvs & H). injection H as <-.
    destruct (IH _ _ Hvs) as [Ha Hl]. split.
    + cbn [all_has_type]. now rewrite (Hf _ _ Hv), Ha.
    + rewrite lits_len_cons, Hl. lia.
Qed.

Definition Dt (t : rty) : Prop := dwf t = true -> forall bits l, from_bits t bits = Ok (Some l) -> has_type l t = true.
Definition Dts (ts : rtys) : Prop := dwf_tys ts = true -> forall bits ls,
  from_bits_tys ts bits = Ok (Some ls) -> zip_has_type ls ts = true.
Definition Dfs (fs : rfields) : Prop := dwf_fields fs = true -> forall bits lf,
  from_bits_fields fs bits = Ok (Some lf) -> fields_has_type lf fs = true.
Definition Dvs (vs : rvariants) : Prop := dwf_variants vs = true -> forall k name tsz bits l,
  from_bits_variant vs k name tsz bits = Ok (Some l) ->
  exists vn info, nth_variant vs k = Some (vn, info) /\
    match info with
    | VIUnit => l = LEnumUnit name vn
    | VITuple ts => exists es, l = LEnumTuple name vn es /\ zip_has_type es ts = true
    end.

Lemma from_bits_typed_mut : (forall t, Dt t) /\ (forall ts, Dts ts) /\ (forall fs, Dfs fs) /\ (forall vs, Dvs vs).
Proof.
  apply rty_mutind.
  - (* bool *) intros _ bits l H. cbn [from_bits] in H. destruct bits as [|b [|? ?]]; try discriminate H.
    injection H as <-. destruct b; reflexivity.
  - (* unsigned *) intros u Hw bits l H. cbn [from_bits dwf] in *. destruct (N.eqb_spec (lenN bits) (ubits u)) as [Hl|]; [|discriminate H].
    injection H as <-. cbn [has_type]. rewrite uty_eqb_refl. cbn [andb].
    apply unsigned_decoded; [now destruct (uty_eqb u UUnspec)|exact Hl].
  - (* signed *) intros s Hw bits l H. cbn [from_bits dwf] in *. destruct (N.eqb_spec (lenN bits) (sbits s)) as [Hl|]; [|discriminate H].
    injection H as <-. cbn [has_type]. rewrite sty_eqb_refl. cbn [andb].
    apply signed_decoded; [now destruct (sty_eqb s SUnspec)|exact Hl].
  - (* array *) intros et IH n Hw bits l H. cbn [from_bits dwf] in *. apply bindd_some in H as (vs & Hvs & H). injection H as <-.
    destruct (from_bits_rep_typed (from_bits et) et (size et) (IH Hw) _ _ _ Hvs) as [Ha Hl].
    cbn [has_type]. rewrite Ha, Hl, N2Nat.id, N.eqb_refl. reflexivity.
  - (* tuple *) intros ts IH Hw bits l H. cbn [from_bits dwf] in *. apply bindd_some in H as (vs & Hvs & H). injection H as <-.
    exact (IH Hw _ _ Hvs).
  - (* struct *) intros name fs IH Hw bits l H. cbn [from_bits dwf] in *. apply bindd_some in H as (vfs & Hvfs & H). injection H as <-.
    cbn [has_type]. rewrite N.eqb_refl. exact (IH Hw _ _ Hvfs).
  - (* enum *) intros name vs IH Hw bits l H. cbn [from_bits dwf] in *. apply andb_prop in Hw as [Hd Hw].
    destruct (IH Hw _ _ _ _ _ H) as (vn & info & Hn & Hl).
    destruct (nth_find vs _ vn info 0 Hd Hn) as [j Hj]. destruct info as [|ts].
    + subst l. cbn [has_type]. rewrite N.eqb_refl, Hj. reflexivity.
    + destruct Hl as (es & -> & Hes). cbn [has_type]. rewrite N.eqb_refl, Hj. exact Hes.
  - (* no types *) intros _ bits ls H. cbn [from_bits_tys] in H. injection H as <-. reflexivity.
  - intros t IHt r IHr Hw bits ls H. cbn [from_bits_tys dwf_tys] in *. apply andb_prop in Hw as [Hwt Hwr].
    destruct (size t <=? lenN bits); [|discriminate H].
    apply bindd_some in H as (v & Hv & H). apply bindd_some in H as (vs & Hvs & H). injection H as <-.
    cbn [zip_has_type]. now rewrite (IHt Hwt _ _ Hv), (IHr Hwr _ _ Hvs).
  - (* no fields *) intros _ bits lf H. cbn [from_bits_fields] in H. injection H as <-. reflexivity.
  - intros n t IHt r IHr Hw bits lf H. cbn [from_bits_fields dwf_fields] in *. apply andb_prop in Hw as [Hwt Hwr].
    destruct (size t <=? lenN bits); [|discriminate H].
    apply bindd_some in H as (v & Hv & H). apply bindd_some in H as (vs & Hvs & H). injection H as <-.
    cbn [fields_has_type]. now rewrite N.eqb_refl, (IHt Hwt _ _ Hv), (IHr Hwr _ _ Hvs).
  - (* no variants *) intros _ k name tsz bits l H. discriminate H.
  - (* unit variant *) intros vn r IHr Hw k name tsz bits l H. cbn [from_bits_variant dwf_variants nth_variant] in *.
    destruct (k =? 0).
    + injection H as <-. exists vn, VIUnit. split; reflexivity.
    + exact (IHr Hw _ _ _ _ _ H).
  - (* tuple variant *) intros vn ts IHts r IHr Hw k name tsz bits l H. cbn [from_bits_variant dwf_variants nth_variant] in *.
    apply andb_prop in Hw as [Hwt Hwr]. destruct (k =? 0).
    + destruct (match ts with RsNil => true | RsCons _ _ => tsz <=? lenN bits end); [|discriminate H].
      apply bindd_some in H as (es & Hes & H). injection H as <-.
      exists vn, (VITuple ts). split; [reflexivity|]. exists es. split; [reflexivity|exact (IHts Hwt _ _ Hes)].
    + exact (IHr Hwr _ _ _ _ _ H).
Qed.

(* (1) the decoder only produces canonical values of the type *)
Theorem from_bits_has_type t bits l : dwf t = true -> from_bits t bits = Ok (Some l) -> has_type l t = true.
Proof. intros Hw H. exact (proj1 from_bits_typed_mut t Hw bits l H). Qed.
Print Assumptions from_bits_has_type.

(* ... which the type test accepts, and which denote themselves *)
Corollary from_bits_is_of_type E t bits l : wf E t = true -> dwf t = true -> from_bits t bits = Ok (Some l) ->
  is_of_type l t = true /\ denote l = Some l.
Proof. intros W Hw H. apply (values_accepted_top E l t W). now apply (from_bits_has_type t bits). Qed.

(* [dwf] is needed: at an `Unspecified` number type the decoded number is not a value of the type *)
Example dwf_needed_unspecified :
  from_bits (RUnsigned UUnspec) (repeat false 32) = Ok (Some (LUnsigned 0 UUnspec)) /\
  has_type (LUnsigned 0 UUnspec) (RUnsigned UUnspec) = false.
Proof. split; vm_compute; reflexivity. Qed.
(* ... and with two variants of the same name the decoder's second variant is not what the name finds *)
Example dwf_needed_distinct :
  let t := REnum 1 (RVUnit 7 (RVTuple 7 (RsCons RBool RsNil) RVNil)) in
  from_bits t [true; true] = Ok (Some (LEnumTuple 1 7 (LsCons LTrue LsNil))) /\
  has_type (LEnumTuple 1 7 (LsCons LTrue LsNil)) t = false.
Proof. split; vm_compute; reflexivity. Qed.
