(* Agreement of the value typing [has_ty] with the layout functions of Lang/Sem.v
   ([encode], [decode], [sizeof]) and the shape theorem for [run_main] (C05). *)
From GV Require Import Base.Util Lang.Ast Lang.Sem Lang.Wt Lang.ValTy Lang.WtSound.
Open Scope N_scope.

Local Notation HT P := (fun x t => has_ty P x t = true).

Lemma ty_fuel_S : ty_fuel = S (pred ty_fuel).
Proof. reflexivity. Qed.
Global Opaque ty_fuel.

(* ------------------------------------------------------------ fuel of the type functions *)

Lemma sum_map_ext {A} (f h : A -> N) l : (forall a, In a l -> f a = h a) -> sum_map f l = sum_map h l.
Proof.
  induction l as [|a r IH]; intro H; cbn [sum_map]; [reflexivity|].
  rewrite (H a (or_introl eq_refl)), IH; [reflexivity|]. intros b Hb. apply H. now right.
Qed.

Lemma sum_map_map {A B} (h : A -> B) (f : B -> N) l : sum_map f (map h l) = sum_map (fun a => f (h a)) l.
Proof. induction l as [|a r IH]; cbn [sum_map map]; [reflexivity|]. now rewrite IH. Qed.

Lemma size_of_stable P : forall f t, ty_ok f P t = true -> size_of (S f) P t = size_of f P t.
Proof.
  induction f as [|f IH]; intros t H; [discriminate H|].
  destruct t as [| |el n|ts|name|name]; cbn [ty_ok] in H.
  - reflexivity.
  - reflexivity.
  - change (size_of (S f) P el * n = size_of f P el * n). now rewrite IH.
  - change (sum_map (size_of (S f) P) ts = sum_map (size_of f P) ts).
    apply sum_map_ext. intros a Ha. apply IH. rewrite forallb_forall in H. now apply H.
  - change (match assocN name (p_structs P) with
            | Some fields => sum_map (fun nt => size_of (S f) P (snd nt)) fields | None => 0 end =
            match assocN name (p_structs P) with
            | Some fields => sum_map (fun nt => size_of f P (snd nt)) fields | None => 0 end).
    destruct (assocN name (p_structs P)) as [fields|]; [|reflexivity].
    apply sum_map_ext. intros a Ha. apply IH. rewrite forallb_forall in H. now apply H.
  - change (match assocN name (p_enums P) with
            | Some variants => tag_bits (lenN variants) +
                fold_right N.max 0 (map (fun ts => sum_map (size_of (S f) P) ts) variants)
            | None => 0 end =
            match assocN name (p_enums P) with
            | Some variants => tag_bits (lenN variants) +
                fold_right N.max 0 (map (fun ts => sum_map (size_of f P) ts) variants)
            | None => 0 end).
    destruct (assocN name (p_enums P)) as [variants|]; [|reflexivity]. f_equal. f_equal.
    apply map_ext_in. intros ts Hts. apply sum_map_ext. intros a Ha. apply IH.
    rewrite forallb_forall in H. specialize (H ts Hts). rewrite forallb_forall in H. now apply H.
Qed.

(* ------------------------------------------------------------ encode, unfolded *)

Section EncAux.
  Variable enc : ty -> value -> option (list bool).
  Fixpoint enc_list (ts : list ty) (vs : list value) : option (list bool) :=
    match ts, vs with
    | [], [] => Some []
    | t :: tr, v :: vr =>
        match enc t v, enc_list tr vr with
        | Some a, Some b => Some (a ++ b)
        | _, _ => None
        end
    | _, _ => None
    end.
  Section Arr.
    Variable el : ty.
    Fixpoint enc_arr (vs : list value) : option (list bool) :=
      match vs with
      | [] => Some []
      | v :: r => match enc el v, enc_arr r with
                  | Some a, Some b => Some (a ++ b) | _, _ => None end
      end.
  End Arr.
End EncAux.

Lemma encode_eq f P t v :
  encode (S f) P t v =
  match t, v with
  | TBool, VBool b => Some [b]
  | TInt _ bits, VInt z => Some (bits_of_Z (N.to_nat bits) z)
  | TArr el n, VArr vs => if negb (lenN vs =? n)%N then None else enc_arr (encode f P) el vs
  | TTup ts, VTup vs => enc_list (encode f P) ts vs
  | TStruct name, VTup vs =>
      match assocN name (p_structs P) with
      | Some fields => enc_list (encode f P) (map snd fields) vs
      | None => None
      end
  | TEnum name, VEnum tag vs =>
      match assocN name (p_enums P) with
      | Some variants =>
          match nthN variants tag with
          | Some ts =>
              match enc_list (encode f P) ts vs with
              | Some payload =>
                  let total := N.to_nat (size_of f P t) in
                  let body := bits_of_Z (N.to_nat (tag_bits (lenN variants))) (Z.of_N tag) ++ payload in
                  Some (body ++ repeat false (total - length body))
              | None => None
              end
          | None => None
          end
      | None => None
      end
  | _, _ => None
  end.
Proof. destruct t, v; reflexivity. Qed.

Lemma bits_of_Z_length n z : length (bits_of_Z n z) = n.
Proof. induction n as [|n IH]; cbn [bits_of_Z length]; [reflexivity|]. now rewrite IH. Qed.

Lemma fold_max_ge {A} (f : A -> N) l x : In x l -> f x <= fold_right N.max 0 (map f l).
Proof.
  induction l as [|a r IH]; cbn [In map fold_right]; [contradiction|].
  intros [->|H]; [lia|]. specialize (IH H). lia.
Qed.

Lemma nthN_In {A} (l : list A) i a : nthN l i = Some a -> In a l.
Proof. rewrite nthN_spec. apply nth_error_In. Qed.

Section Enc.
  Variable P : program.

  Lemma enc_list_ok f ts : forall vs,
    (forall t v, In t ts -> has_ty P v t = true ->
       exists bits, encode (S f) P t v = Some bits /\ length bits = N.to_nat (size_of f P t)) ->
    Forall2 (HT P) vs ts ->
    exists bits, enc_list (encode (S f) P) ts vs = Some bits /\
                 length bits = N.to_nat (sum_map (size_of f P) ts).
  Proof.
    induction ts as [|t tr IH]; intros vs Henc Hvs; inversion Hvs as [|v t' vr tr' Hv Hr]; subst; cbn [enc_list sum_map].
    - eexists. split; reflexivity.
    - destruct (Henc t v (or_introl eq_refl) Hv) as [a [Ha La]]. rewrite Ha.
      destruct (IH vr) as [b [Hb Lb]]; [intros; apply Henc; [now right|assumption]|assumption|].
      rewrite Hb. eexists. split; [reflexivity|]. rewrite app_length, La, Lb. lia.
  Qed.

  Lemma enc_arr_ok f el vs :
    (forall v, has_ty P v el = true ->
       exists bits, encode (S f) P el v = Some bits /\ length bits = N.to_nat (size_of f P el)) ->
    Forall (fun v => has_ty P v el = true) vs ->
    exists bits, enc_arr (encode (S f) P) el vs = Some bits /\
                 length bits = (length vs * N.to_nat (size_of f P el))%nat.
  Proof.
    intros Henc. induction 1 as [|v r Hv _ IH]; cbn [enc_arr length].
    - eexists. split; reflexivity.
    - destruct (Henc v Hv) as [a [Ha La]]. rewrite Ha. destruct IH as [b [Hb Lb]]. rewrite Hb.
      eexists. split; [reflexivity|]. rewrite app_length, La, Lb. lia.
  Qed.

  (* Theorem 1, length half *)
  Lemma encode_ok : forall f t v, ty_ok f P t = true -> has_ty P v t = true ->
    exists bits, encode (S f) P t v = Some bits /\ length bits = N.to_nat (size_of f P t).
  Proof.
    induction f as [|f IH]; intros t v Hok Hv; [discriminate Hok|].
    rewrite encode_eq. destruct t as [| |el n|ts|name|name]; cbn [ty_ok] in Hok.
    - destruct (has_ty_bool_inv _ _ Hv) as [b ->]. eexists. split; reflexivity.
    - destruct (has_ty_int_inv _ _ _ _ Hv) as [z ->]. eexists. split; [reflexivity|].
      now rewrite bits_of_Z_length.
    - destruct (has_ty_arr_inv _ _ _ _ Hv) as [vs [-> [Hlen Hall]]].
      rewrite <- Hlen, N.eqb_refl. cbn [negb].
      destruct (enc_arr_ok f el vs (fun v Hv => IH el v Hok Hv) Hall) as [bits [Hb Lb]].
      rewrite Hb. eexists. split; [reflexivity|]. rewrite Lb.
      change (size_of (S f) P (TArr el (lenN vs))) with (size_of f P el * lenN vs). unfold lenN. lia.
    - destruct (has_ty_tup_inv _ _ _ Hv) as [vs [-> Hvs]].
      rewrite forallb_forall in Hok.
      destruct (enc_list_ok f ts vs (fun t v Hin Hv => IH t v (Hok t Hin) Hv) Hvs) as [bits [Hb Lb]].
      rewrite Hb. eexists. split; [reflexivity|]. exact Lb.
    - destruct (has_ty_struct_inv _ _ _ Hv) as [vs [def [-> [Hd Hvs]]]]. rewrite Hd in Hok |- *.
      rewrite forallb_forall in Hok.
      destruct (enc_list_ok f (map snd def) vs) as [bits [Hb Lb]]; [|assumption|].
      { intros t v Hin Hvt. apply in_map_iff in Hin as [[x t'] [<- Hin]]. apply IH; [|assumption].
        exact (Hok _ Hin). }
      rewrite Hb. eexists. split; [reflexivity|]. rewrite Lb, sum_map_map.
      change (size_of (S f) P (TStruct name)) with
        (match assocN name (p_structs P) with
         | Some fields => sum_map (fun nt => size_of f P (snd nt)) fields | None => 0 end).
      now rewrite Hd.
    - destruct (has_ty_enum_inv _ _ _ Hv) as [tag [vs [variants [ts [-> [He [Htag Hvs]]]]]]].
      rewrite He in Hok |- *. rewrite Htag. rewrite forallb_forall in Hok.
      pose proof (nthN_In _ _ _ Htag) as Hin. pose proof (Hok ts Hin) as Hts. rewrite forallb_forall in Hts.
      destruct (enc_list_ok f ts vs (fun t v Hin Hv => IH t v (Hts t Hin) Hv) Hvs) as [payload [Hb Lb]].
      rewrite Hb. cbn zeta. eexists. split; [reflexivity|].
      rewrite !app_length, repeat_length, bits_of_Z_length, Lb.
      assert (Hsz : size_of (S f) P (TEnum name) =
                    tag_bits (lenN variants) + fold_right N.max 0 (map (fun ts => sum_map (size_of f P) ts) variants)).
      { change (size_of (S f) P (TEnum name)) with
          (match assocN name (p_enums P) with
           | Some variants => tag_bits (lenN variants) +
               fold_right N.max 0 (map (fun ts => sum_map (size_of f P) ts) variants)
           | None => 0 end). now rewrite He. }
      rewrite Hsz. pose proof (fold_max_ge (fun ts => sum_map (size_of f P) ts) variants ts Hin). lia.
  Qed.

  Theorem encode_sizeof t v : ty_ok (pred ty_fuel) P t = true -> has_ty P v t = true ->
    exists bits, encode ty_fuel P t v = Some bits /\ length bits = N.to_nat (sizeof P t).
  Proof.
    intros Hok Hv. unfold sizeof. rewrite ty_fuel_S. rewrite (size_of_stable P _ _ Hok).
    now apply encode_ok.
  Qed.
End Enc.

(* ------------------------------------------------------------ decode yields typed values *)

Section DecAux.
  Variable dec : ty -> list bool -> option (value * list bool).
  Fixpoint dec_list (ts : list ty) (bs : list bool) : option (list value * list bool) :=
    match ts with
    | [] => Some ([], bs)
    | t :: tr =>
        match dec t bs with
        | Some (v, bs1) =>
            match dec_list tr bs1 with
            | Some (vs, bs2) => Some (v :: vs, bs2)
            | None => None
            end
        | None => None
        end
    end.
End DecAux.

Lemma decode_eq f P t bs :
  decode (S f) P t bs =
  match t with
  | TBool => match bs with b :: r => Some (VBool b, r) | [] => None end
  | TInt sg bits =>
      let n := N.to_nat bits in
      if (length bs <? n)%nat then None else
      Some (VInt (to_signed sg bits (unsigned_of_bits (firstn n bs))), skipn n bs)
  | TArr el n =>
      match dec_list (decode f P) (repeat el (N.to_nat n)) bs with
      | Some (vs, r) => Some (VArr vs, r)
      | None => None
      end
  | TTup ts =>
      match dec_list (decode f P) ts bs with Some (vs, r) => Some (VTup vs, r) | None => None end
  | TStruct name =>
      match assocN name (p_structs P) with
      | Some fields =>
          match dec_list (decode f P) (map snd fields) bs with
          | Some (vs, r) => Some (VTup vs, r) | None => None end
      | None => None
      end
  | TEnum name =>
      match assocN name (p_enums P) with
      | Some variants =>
          let total := N.to_nat (size_of f P t) in
          let tb := N.to_nat (tag_bits (lenN variants)) in
          if (length bs <? total)%nat then None else
          let tag := Z.to_N (unsigned_of_bits (firstn tb bs)) in
          match nthN variants tag with
          | Some ts =>
              match dec_list (decode f P) ts (skipn tb (firstn total bs)) with
              | Some (vs, _) => Some (VEnum tag vs, skipn total bs)
              | None => None
              end
          | None => None
          end
      | None => None
      end
  end.
Proof. destruct t; reflexivity. Qed.

Section Dec.
  Variable P : program.

  Lemma dec_list_has_ty (dec : ty -> list bool -> option (value * list bool)) :
    (forall t bs v r, dec t bs = Some (v, r) -> has_ty P v t = true) ->
    forall ts bs vs r, dec_list dec ts bs = Some (vs, r) -> Forall2 (HT P) vs ts.
  Proof.
    intros Hd ts. induction ts as [|t tr IH]; intros bs vs r H; cbn [dec_list] in H.
    - injection H as <- <-. constructor.
    - destruct (dec t bs) as [[v bs1]|] eqn:E1; [|discriminate H].
      destruct (dec_list dec tr bs1) as [[vs' bs2]|] eqn:E2; [|discriminate H].
      injection H as <- <-. constructor; [eapply Hd; eassumption|eapply IH; eassumption].
  Qed.

  Lemma Forall2_repeat_r {A B} (R : A -> B -> Prop) xs y k :
    Forall2 R xs (repeat y k) -> length xs = k /\ Forall (fun x => R x y) xs.
  Proof.
    revert xs. induction k as [|k IH]; intros xs H; cbn [repeat] in H; inversion H; subst.
    - split; [reflexivity|constructor].
    - destruct (IH _ H4) as [I1 I2]. split; [cbn [length]; now rewrite I1|constructor; assumption].
  Qed.

  Lemma decode_has_ty : forall f t bs v r, decode f P t bs = Some (v, r) -> has_ty P v t = true.
  Proof.
    induction f as [|f IH]; intros t bs v r H; [discriminate H|].
    rewrite decode_eq in H. destruct t as [|sg bits|el n|ts|name|name].
    - destruct bs; [discriminate H|]. injection H as <- <-. reflexivity.
    - cbn zeta in H. destruct (_ <? _)%nat; [discriminate H|]. injection H as <- <-. reflexivity.
    - destruct (dec_list (decode f P) (repeat el (N.to_nat n)) bs) as [[vs r']|] eqn:E; [|discriminate H].
      injection H as <- <-. apply (dec_list_has_ty _ IH) in E. apply Forall2_repeat_r in E as [E1 E2].
      rewrite has_ty_arr. apply andb_true_intro. split.
      + apply N.eqb_eq. unfold lenN. lia.
      + now apply forallb_Forall.
    - destruct (dec_list (decode f P) ts bs) as [[vs r']|] eqn:E; [|discriminate H].
      injection H as <- <-. apply (dec_list_has_ty _ IH) in E. rewrite has_ty_tup. now apply forallb2_Forall2.
    - destruct (assocN name (p_structs P)) as [fields|] eqn:Ed; [|discriminate H].
      destruct (dec_list (decode f P) (map snd fields) bs) as [[vs r']|] eqn:E; [|discriminate H].
      injection H as <- <-. apply (dec_list_has_ty _ IH) in E. rewrite has_ty_struct, Ed.
      now apply forallb2_Forall2.
    - destruct (assocN name (p_enums P)) as [variants|] eqn:Ed; [|discriminate H]. cbn zeta in H.
      destruct (_ <? _)%nat; [discriminate H|].
      match type of H with context [nthN variants ?tg] => destruct (nthN variants tg) as [ts|] eqn:Et; [|discriminate H] end.
      match type of H with context [dec_list ?d ts ?b] => destruct (dec_list d ts b) as [[vs r']|] eqn:E; [|discriminate H] end.
      injection H as <- <-. apply (dec_list_has_ty _ IH) in E. rewrite has_ty_enum, Ed, Et.
      now apply forallb2_Forall2.
  Qed.

  Lemma decode_args_ok : forall ps inputs args,
    decode_args P ps inputs = Some args -> binds_ok P args ps.
  Proof.
    induction ps as [|[x t] pr IH]; intros [|bs ir] args H; cbn [decode_args] in H; try discriminate H.
    - injection H as <-. constructor.
    - destruct (decode ty_fuel P t bs) as [[v [|]]|] eqn:E; try discriminate H.
      destruct (decode_args P pr ir) as [rest|] eqn:Er; [|discriminate H]. injection H as <-.
      constructor; [|now apply IH with (inputs := ir)].
      split; [reflexivity|]. cbn [snd]. eapply decode_has_ty; eassumption.
  Qed.

  (* Theorem 3 (C05): a program accepted by the re-checker, run on any inputs:
     - a result has exactly [sizeof (return type)] bits (the "right shape");
     - it is never stuck on a typing inconsistency: the only [RunStuck] codes are
       90 (no main), 91 (the inputs do not decode at the parameter types), 92 (the return
       type is deeper than [ty_fuel]) and the pattern-match / join codes [stuck_allowed],
       the latter only outside the fragment [frag_program]. *)
  Theorem wt_main_shape fuel inputs : wt_program P = true ->
    match run_main fuel P inputs with
    | RunOk bits _ =>
        exists d, find_fn P (p_main P) = Some d /\
          (ty_ok (pred ty_fuel) P (fn_ret d) = true -> length bits = N.to_nat (sizeof P (fn_ret d)))
    | RunStuck c =>
        (In c stuck_allowed /\ frag_program P = false) \/
        (c = 90 /\ find_fn P (p_main P) = None) \/ c = 91 \/
        (c = 92 /\ exists d, find_fn P (p_main P) = Some d /\ ty_ok (pred ty_fuel) P (fn_ret d) = false)
    | RunPanic _ _ | RunNoFuel => True
    end.
  Proof.
    intro Hwt. unfold run_main.
    destruct (find_fn P (p_main P)) as [d|] eqn:Efn; [|right; left; split; reflexivity].
    destruct (decode_args P (fn_params d) inputs) as [args|] eqn:Ea; [|right; right; left; reflexivity].
    pose proof (wt_main_values P d fuel args Hwt Efn (decode_args_ok _ _ _ Ea)) as H.
    destruct (eval_consts fuel P) as [en0| | |]; try contradiction; [|exact I].
    destruct (exec_block fuel P _ (fn_body d)) as [[v en']| | |]; try exact I; [|left; exact H].
    destruct (encode ty_fuel P (fn_ret d) v) as [bits|] eqn:Ee.
    - exists d. split; [reflexivity|]. intro Hok.
      destruct (encode_sizeof P _ _ Hok H) as [bits' [Hb Lb]]. rewrite Ee in Hb. now injection Hb as ->.
    - right. right. right. split; [reflexivity|]. exists d. split; [reflexivity|].
      destruct (ty_ok (pred ty_fuel) P (fn_ret d)) eqn:Hok; [|reflexivity].
      destruct (encode_sizeof P _ _ Hok H) as [bits' [Hb _]]. congruence.
  Qed.

  (* the same inside the fragment: evaluation is never stuck *)
  Corollary wt_main_shape_fragment fuel inputs d :
    wt_program P = true -> frag_program P = true ->
    find_fn P (p_main P) = Some d -> ty_ok (pred ty_fuel) P (fn_ret d) = true ->
    match run_main fuel P inputs with
    | RunOk bits _ => length bits = N.to_nat (sizeof P (fn_ret d))
    | RunStuck c => c = 91
    | RunPanic _ _ | RunNoFuel => True
    end.
  Proof.
    intros Hwt Hfr Hfn Hok. pose proof (wt_main_shape fuel inputs Hwt) as H.
    destruct (run_main fuel P inputs) as [bits l| | c |]; try exact I.
    - destruct H as [d' [Hd' Hl]]. rewrite Hfn in Hd'. injection Hd' as <-. now apply Hl.
    - destruct H as [[_ Hf]|[[_ Hn]|[->|[_ [d' [Hd' Hn]]]]]]; try congruence.
  Qed.
End Dec.

(* ------------------------------------------------------------ decode (encode v) = v *)

Lemma Z_of_bits_acc_bits n z : forall acc,
  Z_of_bits_acc acc (bits_of_Z n z) = (acc * 2 ^ Z.of_nat n + z mod 2 ^ Z.of_nat n)%Z.
Proof.
  induction n as [|k IH]; intros acc; cbn [bits_of_Z Z_of_bits_acc].
  - change (Z.of_nat 0) with 0%Z. rewrite Z.pow_0_r, Z.mod_1_r. lia.
  - rewrite IH. rewrite Nat2Z.inj_succ, Z.pow_succ_r by lia.
    rewrite (Z.mul_comm 2 (2 ^ Z.of_nat k)).
    rewrite (Z.rem_mul_r z (2 ^ Z.of_nat k) 2) by lia.
    rewrite <- (Z.testbit_spec' z (Z.of_nat k)) by lia.
    destruct (Z.testbit z (Z.of_nat k)); cbn [Z.b2z]; nia.
Qed.

Lemma unsigned_of_bits_of_Z n z : unsigned_of_bits (bits_of_Z n z) = (z mod 2 ^ Z.of_nat n)%Z.
Proof. unfold unsigned_of_bits. rewrite Z_of_bits_acc_bits. lia. Qed.

Lemma to_signed_roundtrip sg bits z : in_range sg bits z = true ->
  to_signed sg bits (z mod 2 ^ Z.of_N bits) = z.
Proof.
  unfold in_range, to_signed. destruct sg; intro H; apply andb_prop in H as [H1 H2].
  - apply Z.leb_le in H1. apply Z.ltb_lt in H2. cbn [andb].
    assert (Hb : (0 < Z.of_N bits)%Z).
    { destruct (Z.of_N bits) eqn:E; try lia; cbn in H1, H2; lia. }
    assert (Hp : (2 ^ Z.of_N bits = 2 * 2 ^ (Z.of_N bits - 1))%Z).
    { rewrite <- Z.pow_succ_r by lia. f_equal. lia. }
    assert (Hpos : (0 < 2 ^ (Z.of_N bits - 1))%Z) by (apply Z.pow_pos_nonneg; lia).
    destruct (Z.leb_spec 0 z) as [Hz|Hz].
    + rewrite Z.mod_small by lia. destruct (Z.leb_spec (2 ^ (Z.of_N bits - 1)) z); lia.
    + replace (z mod 2 ^ Z.of_N bits)%Z with (z + 2 ^ Z.of_N bits)%Z.
      * destruct (Z.leb_spec (2 ^ (Z.of_N bits - 1)) (z + 2 ^ Z.of_N bits)); lia.
      * symmetry. rewrite <- (Z.mod_add z 1) by lia. rewrite Z.mul_1_l. apply Z.mod_small. lia.
  - apply Z.leb_le in H1. apply Z.ltb_lt in H2. cbn [andb]. apply Z.mod_small. lia.
Qed.

Lemma firstn_app_exact {A} (l r : list A) n : length l = n -> firstn n (l ++ r) = l.
Proof. intros <-. rewrite firstn_app, Nat.sub_diag, firstn_all. cbn [firstn]. apply app_nil_r. Qed.
Lemma skipn_app_exact {A} (l r : list A) n : length l = n -> skipn n (l ++ r) = r.
Proof. intros <-. rewrite skipn_app, Nat.sub_diag, skipn_all. reflexivity. Qed.

Lemma in_rng_tup P vs ts : in_rng P (VTup vs) (TTup ts) = forallb2 (in_rng P) vs ts.
Proof.
  cbn [in_rng]. revert ts. induction vs as [|v vr IH]; intros [|t tr]; cbn [forallb2]; try reflexivity.
  now rewrite IH.
Qed.
Lemma in_rng_struct P vs name :
  in_rng P (VTup vs) (TStruct name) =
  match assocN name (p_structs P) with
  | Some def => forallb2 (in_rng P) vs (map snd def)
  | None => false
  end.
Proof.
  cbn [in_rng]. destruct (assocN name (p_structs P)) as [def|]; [|reflexivity].
  generalize (map snd def) as ts. induction vs as [|v vr IH]; intros [|t tr]; cbn [forallb2]; try reflexivity.
  now rewrite IH.
Qed.
Lemma in_rng_enum P tag vs name :
  in_rng P (VEnum tag vs) (TEnum name) =
  match assocN name (p_enums P) with
  | Some variants => match nthN variants tag with Some ts => forallb2 (in_rng P) vs ts | None => false end
  | None => false
  end.
Proof.
  cbn [in_rng]. destruct (assocN name (p_enums P)) as [variants|]; [|reflexivity].
  destruct (nthN variants tag) as [ts|]; [|reflexivity].
  revert ts. induction vs as [|v vr IH]; intros [|t tr]; cbn [forallb2]; try reflexivity.
  now rewrite IH.
Qed.
Lemma in_rng_arr P vs el n : in_rng P (VArr vs) (TArr el n) = forallb (fun v => in_rng P v el) vs.
Proof. reflexivity. Qed.

Lemma enc_arr_list enc el vs : enc_arr enc el vs = enc_list enc (repeat el (length vs)) vs.
Proof. induction vs as [|v r IH]; cbn [enc_arr enc_list repeat length]; [reflexivity|]. now rewrite IH. Qed.

(* tag width *)
Lemma tag_bits_aux_spec fuel : forall bits n,
  n <= 2 ^ (bits + N.of_nat fuel) -> n <= 2 ^ tag_bits_aux fuel bits n.
Proof.
  induction fuel as [|f IH]; intros bits n H; cbn [tag_bits_aux].
  - now rewrite N.add_0_r in H.
  - destruct (N.ltb_spec (2 ^ bits) n) as [Hl|Hl]; [|assumption].
    apply IH. replace (bits + 1 + N.of_nat f) with (bits + N.of_nat (S f)) by lia. assumption.
Qed.
Lemma tag_bits_spec n : n <= 2 ^ 64 -> n <= 2 ^ tag_bits n.
Proof. intro H. unfold tag_bits. apply tag_bits_aux_spec. exact H. Qed.

Lemma assocN_In {A} k (l : list (N * A)) a : assocN k l = Some a -> exists k', In (k', a) l.
Proof.
  induction l as [|[k0 a0] r IH]; cbn [assocN]; [discriminate|].
  destruct (k =? k0).
  - intros [= <-]. exists k0. now left.
  - intro H. destruct (IH H) as [k' Hk]. exists k'. now right.
Qed.

Section RT.
  Variable P : program.
  Hypothesis Hsmall : enums_small P = true.

  Definition rt_at (f : nat) (t : ty) (v : value) : Prop :=
    forall bits rest, encode (S f) P t v = Some bits -> decode (S f) P t (bits ++ rest) = Some (v, rest).

  Lemma list_rt f ts : forall vs,
    (forall t v, In t ts -> has_ty P v t = true -> in_rng P v t = true -> rt_at f t v) ->
    Forall2 (HT P) vs ts -> forallb2 (in_rng P) vs ts = true ->
    forall bits rest, enc_list (encode (S f) P) ts vs = Some bits ->
      dec_list (decode (S f) P) ts (bits ++ rest) = Some (vs, rest).
  Proof.
    induction ts as [|t tr IH]; intros vs Hrt Hvs Hr bits rest He;
      inversion Hvs as [|v t' vr tr' Hv Hvr]; subst; cbn [enc_list dec_list forallb2] in *.
    - injection He as <-. reflexivity.
    - apply andb_prop in Hr as [Hr1 Hr2].
      destruct (encode (S f) P t v) as [a|] eqn:Ea; [|discriminate He].
      destruct (enc_list (encode (S f) P) tr vr) as [b|] eqn:Eb; [|discriminate He].
      injection He as <-. rewrite <- app_assoc.
      rewrite (Hrt t v (or_introl eq_refl) Hv Hr1 a (b ++ rest) Ea).
      rewrite (IH vr (fun t0 v0 Hin => Hrt t0 v0 (or_intror Hin)) Hvr Hr2 b rest Eb). reflexivity.
  Qed.

  Lemma decode_encode : forall f t v, ty_ok f P t = true -> has_ty P v t = true -> in_rng P v t = true ->
    rt_at f t v.
  Proof.
    induction f as [|f IH]; intros t v Hok Hv Hr bits rest He; [discriminate Hok|].
    rewrite encode_eq in He. rewrite decode_eq.
    destruct t as [|sg nb|el n|ts|name|name]; cbn [ty_ok] in Hok.
    - destruct (has_ty_bool_inv _ _ Hv) as [b ->]. injection He as <-. reflexivity.
    - destruct (has_ty_int_inv _ _ _ _ Hv) as [z ->]. injection He as <-. cbn zeta. cbn [in_rng] in Hr.
      rewrite app_length, bits_of_Z_length.
      destruct (Nat.ltb_spec (N.to_nat nb + length rest) (N.to_nat nb)) as [Hlt|_]; [lia|].
      rewrite firstn_app_exact, skipn_app_exact by apply bits_of_Z_length.
      rewrite unsigned_of_bits_of_Z, N_nat_Z. now rewrite (to_signed_roundtrip sg nb z Hr).
    - destruct (has_ty_arr_inv _ _ _ _ Hv) as [vs [-> [Hlen Hall]]].
      rewrite <- Hlen, N.eqb_refl in He. cbn [negb] in He. rewrite enc_arr_list in He.
      rewrite <- Hlen. unfold lenN. rewrite Nat2N.id. rewrite in_rng_arr in Hr.
      rewrite (list_rt f (repeat el (length vs)) vs) with (bits := bits) (rest := rest); try assumption; [reflexivity| | |].
      + intros t v Hin Hvt Hrt. apply repeat_spec in Hin. subst t. now apply IH.
      + clear -Hall. induction Hall; cbn [repeat length]; constructor; assumption.
      + clear -Hr. induction vs as [|v r IHr]; cbn [repeat length forallb2 forallb] in *; [reflexivity|].
        apply andb_prop in Hr as [H1 H2]. now rewrite H1, IHr.
    - destruct (has_ty_tup_inv _ _ _ Hv) as [vs [-> Hvs]]. rewrite in_rng_tup in Hr.
      rewrite forallb_forall in Hok.
      rewrite (list_rt f ts vs) with (bits := bits) (rest := rest); try assumption; [reflexivity|].
      intros t v Hin Hvt Hrt. apply IH; auto.
    - destruct (has_ty_struct_inv _ _ _ Hv) as [vs [def [-> [Hd Hvs]]]].
      rewrite in_rng_struct in Hr. rewrite Hd in *. rewrite forallb_forall in Hok.
      rewrite (list_rt f (map snd def) vs) with (bits := bits) (rest := rest); try assumption; [reflexivity|].
      intros t v Hin Hvt Hrt. apply in_map_iff in Hin as [[x t'] [<- Hin]]. apply IH; auto; exact (Hok _ Hin).
    - destruct (has_ty_enum_inv _ _ _ Hv) as [tag [vs [variants [ts [-> [Hen [Htag Hvs]]]]]]].
      rewrite in_rng_enum in Hr. rewrite Hen in *. rewrite Htag in *. rewrite forallb_forall in Hok.
      pose proof (nthN_In _ _ _ Htag) as Hin. pose proof (Hok ts Hin) as Hts. rewrite forallb_forall in Hts.
      destruct (enc_list (encode (S f) P) ts vs) as [payload|] eqn:Ep; [|discriminate He].
      cbn zeta in He. injection He as <-. cbn zeta.
      assert (Hfold : match assocN name (p_enums P) with
                      | Some variants0 => tag_bits (lenN variants0) +
                          fold_right N.max 0 (map (fun ts0 => sum_map (size_of f P) ts0) variants0)
                      | None => 0 end = size_of (S f) P (TEnum name)) by reflexivity.
      rewrite ?Hfold.
      set (tb := N.to_nat (tag_bits (lenN variants))).
      set (total := N.to_nat (size_of (S f) P (TEnum name))).
      set (tagbits := bits_of_Z tb (Z.of_N tag)).
      assert (Ltag : length tagbits = tb) by apply bits_of_Z_length.
      (* the payload fits *)
      destruct (enc_list_ok P f ts vs (fun t v Hin Hv => encode_ok P f t v (Hts t Hin) Hv) Hvs) as [payload' [Hp' Lp]].
      rewrite Ep in Hp'. injection Hp' as <-.
      assert (Hsz : size_of (S f) P (TEnum name) =
                    tag_bits (lenN variants) + fold_right N.max 0 (map (fun ts => sum_map (size_of f P) ts) variants)).
      { change (size_of (S f) P (TEnum name)) with
          (match assocN name (p_enums P) with
           | Some variants => tag_bits (lenN variants) +
               fold_right N.max 0 (map (fun ts => sum_map (size_of f P) ts) variants)
           | None => 0 end). now rewrite Hen. }
      pose proof (fold_max_ge (fun ts => sum_map (size_of f P) ts) variants ts Hin) as Hmax.
      assert (Hfit : (length (tagbits ++ payload) <= total)%nat).
      { rewrite app_length, Ltag, Lp. unfold total, tb. rewrite Hsz. lia. }
      set (pad := repeat false (total - length (tagbits ++ payload))).
      assert (Lbody : length ((tagbits ++ payload) ++ pad) = total).
      { unfold pad. rewrite app_length, repeat_length. lia. }
      destruct (Nat.ltb_spec (length (((tagbits ++ payload) ++ pad) ++ rest)) total) as [Hlt|_];
        [rewrite app_length in Hlt; lia|].
      (* the tag *)
      assert (Etag : firstn tb ((((tagbits ++ payload) ++ pad) ++ rest)) = tagbits).
      { rewrite <- !app_assoc. now apply firstn_app_exact. }
      rewrite Etag.
      assert (Hlt : tag < 2 ^ tag_bits (lenN variants)).
      { pose proof (nthN_lt _ _ _ Htag) as H1.
        destruct (assocN_In _ _ _ Hen) as [k' Hk']. unfold enums_small in Hsmall.
        rewrite forallb_forall in Hsmall. specialize (Hsmall _ Hk'). cbn [snd] in Hsmall.
        apply N.leb_le in Hsmall. pose proof (tag_bits_spec _ Hsmall). lia. }
      assert (Emod : Z.to_N (unsigned_of_bits tagbits) = tag).
      { unfold tagbits. rewrite unsigned_of_bits_of_Z. unfold tb. rewrite N_nat_Z. rewrite Z.mod_small; [apply N2Z.id|].
        split; [lia|]. change 2%Z with (Z.of_N 2). rewrite <- N2Z.inj_pow. lia. }
      rewrite !Emod, Htag.
      rewrite (firstn_app_exact _ rest total Lbody), (skipn_app_exact _ rest total Lbody).
      rewrite <- app_assoc. rewrite (skipn_app_exact tagbits _ tb Ltag).
      rewrite (list_rt f ts vs) with (bits := payload) (rest := pad); try assumption; [reflexivity|].
      intros t v Hin' Hvt Hrt. apply IH; auto.
  Qed.

  (* Theorem 1, second half *)
  Theorem decode_encode_top t v :
    ty_ok (pred ty_fuel) P t = true -> has_ty P v t = true -> in_rng P v t = true ->
    forall bits, encode ty_fuel P t v = Some bits -> decode ty_fuel P t bits = Some (v, []).
  Proof.
    intros Hok Hv Hr bits He. rewrite ty_fuel_S in *.
    rewrite <- (app_nil_r bits). now apply (decode_encode _ t v Hok Hv Hr).
  Qed.
End RT.
