(* Typed AST of Garble programs as the type checker returns it (src/ast.rs), with types
   resolved to sizes (Unspecified integer types are 32 bits, usize is 32 bits, const array
   sizes are substituted) and identifiers interned as N by the exporter. *)
From GV Require Import Base.Util.

Inductive ty :=
| TBool
| TInt (signed : bool) (bits : N)
| TArr (elem : ty) (len : N)
| TTup (fields : list ty)
| TStruct (name : N)
| TEnum (name : N).

Record meta := mkMeta { m_sl : N; m_sc : N; m_el : N; m_ec : N }.

Inductive binop :=
| OAdd | OSub | OMul | ODiv | OMod
| OBitAnd | OBitXor | OBitOr
| OGt | OLt | OEq | ONe
| OShl | OShr
| OLAnd | OLOr.

Inductive pattern :=
| Pat (p : pat_inner) (m : meta) (t : ty)
with pat_inner :=
| PId (name : N)
| PTrue
| PFalse
| PNumU (n : N)
| PNumS (z : Z)
| PTup (ps : list pattern)
| PStruct (name : N) (ignore_rest : bool) (fields : list (N * pattern))
| PEnumUnit (ename : N) (variant : N)            (* variant index *)
| PEnumTup (ename : N) (variant : N) (ps : list pattern)
| PURange (lo hi : N)
| PSRange (lo hi : Z).

Inductive expr :=
| Ex (e : expr_inner) (m : meta) (t : ty)
with expr_inner :=
| ETrue
| EFalse
| ENumU (n : N) (lb : N)        (* lb: bits of the literal's own suffix type (32 if none) *)
| ENumS (z : Z) (lb : N)
| EId (name : N)
| EArrLit (es : list expr)
| EArrRep (e : expr) (n : N)
| EIdx (a i : expr)
| ETupLit (es : list expr)
| ETupAcc (e : expr) (i : N)
| EFld (e : expr) (fld : N)
| EStructLit (name : N) (fields : list (N * expr))
| EEnumLit (ename : N) (variant : N) (args : list expr)
| EMatch (e : expr) (arms : list (pattern * expr))
| ENeg (e : expr)
| ENot (e : expr)
| EOp (o : binop) (x y : expr)
| EBlock (b : list stmt)
| ECall (f : N) (args : list expr)
| EJoin (join_ty : ty) (has_assoc : bool) (a b : expr)
| EIf (c t e : expr)
| ECast (to : ty) (e : expr)
| ERange (lo hi : N) (bits : N)
with stmt :=
| St (s : stmt_inner) (m : meta)
with stmt_inner :=
| SLet (p : pattern) (e : expr)
| SLetMut (name : N) (e : expr)
| SAssign (name : N) (accs : list accessor) (e : expr)
| SFor (p : pattern) (arr : expr) (body : list stmt)
| SJoinLoop (p : pattern) (join_ty : ty) (a b : expr) (body : list stmt)
| SExpr (e : expr)
with accessor :=
| AIdx (arr_ty : ty) (i : expr)
| ATup (tup_ty : ty) (i : N)
| AFld (struct_ty : ty) (fld : N).

Record fndef := mkFn {
  fn_name : N;
  fn_params : list (N * ty);
  fn_ret : ty;
  fn_body : list stmt
}.

Record program := mkProgram {
  p_structs : list (N * list (N * ty));      (* name -> fields in definition order *)
  p_enums : list (N * list (list ty));       (* name -> payload types per variant, in order *)
  p_fns : list fndef;
  p_consts : list (N * expr);                (* global constants: name -> literal expression *)
  p_main : N
}.

Definition e_ty (e : expr) : ty := match e with Ex _ _ t => t end.
Definition e_meta (e : expr) : meta := match e with Ex _ m _ => m end.
Definition p_ty (p : pattern) : ty := match p with Pat _ _ t => t end.

Fixpoint assocN {A} (k : N) (l : list (N * A)) : option A :=
  match l with
  | [] => None
  | (k', v) :: r => if k =? k' then Some v else assocN k r
  end.

Definition find_fn (p : program) (f : N) : option fndef :=
  find (fun d => fn_name d =? f) (p_fns p).
