(* Source-level semantics of Garble: a strict, by-value big-step interpreter over the typed
   AST with checked fixed-width integer arithmetic.  This file is the SPECIFICATION against
   which compiled circuits are judged (C01, C02, C14 ...): it never mentions wires, gates
   or panic records.  Evaluation order = the order in which the compiler visits the AST
   (struct literal fields in definition order, call arguments left to right). *)
From GV Require Import Base.Util Lang.Ast.
Open Scope Z_scope.

Inductive value :=
| VBool (b : bool)
| VInt (z : Z)
| VArr (vs : list value)
| VTup (vs : list value)            (* tuples and structs (fields in definition order) *)
| VEnum (tag : N) (vs : list value).

Inductive reason := ROverflow | RDivByZero | ROutOfBounds.

Inductive outcome (A : Type) :=
| Done (a : A)
| Panicked (r : reason) (m : meta)
| Stuck (code : N)        (* the program is outside the model (ill-typed tree, unsupported form) *)
| NoFuel.
Arguments Done {A} a.
Arguments Panicked {A} r m.
Arguments Stuck {A} code.
Arguments NoFuel {A}.

Definition obind {A B} (o : outcome A) (f : A -> outcome B) : outcome B :=
  match o with
  | Done a => f a
  | Panicked r m => Panicked r m
  | Stuck c => Stuck c
  | NoFuel => NoFuel
  end.
Notation "'do' x '<-' o ';' k" := (obind o (fun x => k))
  (at level 200, x pattern, o at level 100, k at level 200).

(* environments: innermost scope first; [lenient] is set when an operation whose outcome the
   property leaves open (MIN % -1) has been executed *)
Record env := mkEnv { scopes : list (list (N * value)); lenient : bool }.

Definition push_scope (e : env) : env := mkEnv ([] :: scopes e) (lenient e).
Definition pop_scope (e : env) : env := mkEnv (tl (scopes e)) (lenient e).
Definition bind_var (e : env) (x : N) (v : value) : env :=
  match scopes e with
  | s :: r => mkEnv (((x, v) :: s) :: r) (lenient e)
  | [] => mkEnv [[(x, v)]] (lenient e)
  end.
Definition bind_all (e : env) (bs : list (N * value)) : env :=
  fold_left (fun e b => bind_var e (fst b) (snd b)) bs e.

Fixpoint lookup_scopes (ss : list (list (N * value))) (x : N) : option value :=
  match ss with
  | [] => None
  | s :: r => match assocN x s with Some v => Some v | None => lookup_scopes r x end
  end.
Definition lookup_var (e : env) (x : N) : option value := lookup_scopes (scopes e) x.

Fixpoint update_assoc (s : list (N * value)) (x : N) (v : value) : option (list (N * value)) :=
  match s with
  | [] => None
  | (k, w) :: r =>
      if (x =? k)%N then Some ((k, v) :: r)
      else match update_assoc r x v with Some r' => Some ((k, w) :: r') | None => None end
  end.
(* assign_mut: the innermost scope that declares the name *)
Fixpoint assign_scopes (ss : list (list (N * value))) (x : N) (v : value)
  : option (list (list (N * value))) :=
  match ss with
  | [] => None
  | s :: r =>
      match update_assoc s x v with
      | Some s' => Some (s' :: r)
      | None => match assign_scopes r x v with Some r' => Some (s :: r') | None => None end
      end
  end.
Definition assign_var (e : env) (x : N) (v : value) : option env :=
  match assign_scopes (scopes e) x v with
  | Some ss => Some (mkEnv ss (lenient e))
  | None => None
  end.

(* ---------------------------------------------------------------- integers *)

Definition in_range (sg : bool) (bits : N) (z : Z) : bool :=
  if sg then (- 2 ^ (Z.of_N bits - 1) <=? z) && (z <? 2 ^ (Z.of_N bits - 1))
  else (0 <=? z) && (z <? 2 ^ Z.of_N bits).

Definition wrap (sg : bool) (bits : N) (z : Z) : Z :=
  let m := z mod 2 ^ Z.of_N bits in
  if sg && (2 ^ (Z.of_N bits - 1) <=? m) then m - 2 ^ Z.of_N bits else m.

Definition checked (sg : bool) (bits : N) (m : meta) (z : Z) : outcome value :=
  if in_range sg bits z then Done (VInt z) else Panicked ROverflow m.

(* ---------------------------------------------------------------- types, encoding *)

Fixpoint sum_map {A} (f : A -> N) (l : list A) : N :=
  match l with [] => 0%N | a :: r => (f a + sum_map f r)%N end.

Fixpoint tag_bits_aux (fuel : nat) (bits : N) (n : N) : N :=
  match fuel with
  | O => bits
  | S f => if (2 ^ bits <? n)%N then tag_bits_aux f (bits + 1) n else bits
  end.
Definition tag_bits (nvariants : N) : N := tag_bits_aux 64 0 nvariants.

Fixpoint size_of (fuel : nat) (P : program) (t : ty) : N :=
  match fuel with
  | O => 0%N
  | S f =>
      match t with
      | TBool => 1%N
      | TInt _ bits => bits
      | TArr el n => (size_of f P el * n)%N
      | TTup ts => sum_map (size_of f P) ts
      | TStruct name =>
          match assocN name (p_structs P) with
          | Some fields => sum_map (fun nt => size_of f P (snd nt)) fields
          | None => 0%N
          end
      | TEnum name =>
          match assocN name (p_enums P) with
          | Some variants =>
              (tag_bits (lenN variants) +
               fold_right N.max 0%N (map (fun ts => sum_map (size_of f P) ts) variants))%N
          | None => 0%N
          end
      end
  end.

Definition ty_fuel : nat := 40.
Definition sizeof (P : program) (t : ty) : N := size_of ty_fuel P t.

(* big-endian two's complement *)
Fixpoint bits_of_Z (n : nat) (z : Z) : list bool :=
  match n with
  | O => []
  | S k => Z.testbit z (Z.of_nat k) :: bits_of_Z k z
  end.

Fixpoint Z_of_bits_acc (acc : Z) (l : list bool) : Z :=
  match l with
  | [] => acc
  | b :: r => Z_of_bits_acc (2 * acc + (if b then 1 else 0)) r
  end.
Definition unsigned_of_bits (l : list bool) : Z := Z_of_bits_acc 0 l.

Fixpoint encode (fuel : nat) (P : program) (t : ty) (v : value) : option (list bool) :=
  match fuel with
  | O => None
  | S f =>
      let enc_list := fix go (ts : list ty) (vs : list value) : option (list bool) :=
        match ts, vs with
        | [], [] => Some []
        | t :: tr, v :: vr =>
            match encode f P t v, go tr vr with
            | Some a, Some b => Some (a ++ b)
            | _, _ => None
            end
        | _, _ => None
        end in
      match t, v with
      | TBool, VBool b => Some [b]
      | TInt _ bits, VInt z => Some (bits_of_Z (N.to_nat bits) z)
      | TArr el n, VArr vs =>
          if negb (lenN vs =? n)%N then None else
          (fix go (vs : list value) : option (list bool) :=
             match vs with
             | [] => Some []
             | v :: r => match encode f P el v, go r with
                         | Some a, Some b => Some (a ++ b) | _, _ => None end
             end) vs
      | TTup ts, VTup vs => enc_list ts vs
      | TStruct name, VTup vs =>
          match assocN name (p_structs P) with
          | Some fields => enc_list (map snd fields) vs
          | None => None
          end
      | TEnum name, VEnum tag vs =>
          match assocN name (p_enums P) with
          | Some variants =>
              match nthN variants tag with
              | Some ts =>
                  match enc_list ts vs with
                  | Some payload =>
                      let total := N.to_nat (size_of f P t) in
                      let body := bits_of_Z (N.to_nat (tag_bits (lenN variants))) (Z.of_N tag) ++ payload in
                      Some (body ++ repeat false (total - length body))
                  | None => None
                  end
              | None => None
              end
          | None => None
          end
      | _, _ => None
      end
  end.

Definition to_signed (sg : bool) (bits : N) (u : Z) : Z :=
  if sg && (2 ^ (Z.of_N bits - 1) <=? u) then u - 2 ^ Z.of_N bits else u.

(* decode a value of type t from the front of a bit list *)
Fixpoint decode (fuel : nat) (P : program) (t : ty) (bs : list bool) : option (value * list bool) :=
  match fuel with
  | O => None
  | S f =>
      let dec_list := fix go (ts : list ty) (bs : list bool) : option (list value * list bool) :=
        match ts with
        | [] => Some ([], bs)
        | t :: tr =>
            match decode f P t bs with
            | Some (v, bs1) =>
                match go tr bs1 with
                | Some (vs, bs2) => Some (v :: vs, bs2)
                | None => None
                end
            | None => None
            end
        end in
      match t with
      | TBool => match bs with b :: r => Some (VBool b, r) | [] => None end
      | TInt sg bits =>
          let n := N.to_nat bits in
          if (length bs <? n)%nat then None else
          Some (VInt (to_signed sg bits (unsigned_of_bits (firstn n bs))), skipn n bs)
      | TArr el n =>
          match dec_list (repeat el (N.to_nat n)) bs with
          | Some (vs, r) => Some (VArr vs, r)
          | None => None
          end
      | TTup ts =>
          match dec_list ts bs with Some (vs, r) => Some (VTup vs, r) | None => None end
      | TStruct name =>
          match assocN name (p_structs P) with
          | Some fields =>
              match dec_list (map snd fields) bs with
              | Some (vs, r) => Some (VTup vs, r) | None => None end
          | None => None
          end
      | TEnum name =>
          match assocN name (p_enums P) with
          | Some variants =>
              let total := N.to_nat (size_of f P t) in
              let tb := N.to_nat (tag_bits (lenN variants)) in
              if (length bs <? total)%nat then None else
              let tag := Z.to_N (unsigned_of_bits (firstn tb bs)) in
              match nthN variants tag with
              | Some ts =>
                  match dec_list ts (skipn tb (firstn total bs)) with
                  | Some (vs, _) => Some (VEnum tag vs, skipn total bs)
                  | None => None
                  end
              | None => None
              end
          | None => None
          end
      end
  end.

(* ---------------------------------------------------------------- patterns *)

Fixpoint index_of (x : N) (l : list N) (i : N) : option N :=
  match l with
  | [] => None
  | y :: r => if (x =? y)%N then Some i else index_of x r (i + 1)%N
  end.

Fixpoint pmatch (P : program) (p : pattern) (v : value) {struct p} : option (list (N * value)) :=
  match p with
  | Pat pi _ _ =>
      let match_list := fix go (ps : list pattern) (vs : list value) : option (list (N * value)) :=
        match ps, vs with
        | [], [] => Some []
        | p :: pr, v :: vr =>
            match pmatch P p v, go pr vr with
            | Some a, Some b => Some (a ++ b)
            | _, _ => None
            end
        | _, _ => None
        end in
      match pi, v with
      | PId x, _ => Some [(x, v)]
      | PTrue, VBool b => if b then Some [] else None
      | PFalse, VBool b => if b then None else Some []
      | PNumU n, VInt z => if z =? Z.of_N n then Some [] else None
      | PNumS n, VInt z => if z =? n then Some [] else None
      | PURange lo hi, VInt z => if (Z.of_N lo <=? z) && (z <=? Z.of_N hi) then Some [] else None
      | PSRange lo hi, VInt z => if (lo <=? z) && (z <=? hi) then Some [] else None
      | PTup ps, VTup vs => match_list ps vs
      | PStruct name _ fields, VTup vs =>
          match assocN name (p_structs P) with
          | Some def =>
              (fix go (fs : list (N * pattern)) : option (list (N * value)) :=
                 match fs with
                 | [] => Some []
                 | (fname, fp) :: r =>
                     match index_of fname (map fst def) 0%N with
                     | Some k =>
                         match nthN vs k with
                         | Some fv =>
                             match pmatch P fp fv, go r with
                             | Some a, Some b => Some (a ++ b)
                             | _, _ => None
                             end
                         | None => None
                         end
                     | None => None
                     end
                 end) fields
          | None => None
          end
      | PEnumUnit _ variant, VEnum tag _ => if (tag =? variant)%N then Some [] else None
      | PEnumTup _ variant ps, VEnum tag vs =>
          if (tag =? variant)%N then match_list ps vs else None
      | _, _ => None
      end
  end.

(* ---------------------------------------------------------------- operators *)

Definition int_ty (t : ty) : option (bool * N) :=
  match t with TInt sg bits => Some (sg, bits) | _ => None end.

Fixpoint value_eqb (a b : value) {struct a} : bool :=
  let list_eqb := fix go (xs ys : list value) : bool :=
    match xs, ys with
    | [], [] => true
    | x :: xr, y :: yr => value_eqb x y && go xr yr
    | _, _ => false
    end in
  match a, b with
  | VBool x, VBool y => Bool.eqb x y
  | VInt x, VInt y => x =? y
  | VArr xs, VArr ys => list_eqb xs ys
  | VTup xs, VTup ys => list_eqb xs ys
  | VEnum t1 xs, VEnum t2 ys => (t1 =? t2)%N && list_eqb xs ys
  | _, _ => false
  end.

Definition min_of (bits : N) : Z := - 2 ^ (Z.of_N bits - 1).

(* arithmetic / bit / comparison operators on two evaluated operands; [rt] = result type *)
Definition eval_binop (o : binop) (m : meta) (rt tx : ty) (x y : value) (lenient_in : bool)
  : outcome (value * bool) :=
  match o, x, y with
  | OEq, _, _ => Done (VBool (value_eqb x y), lenient_in)
  | ONe, _, _ => Done (VBool (negb (value_eqb x y)), lenient_in)
  | OGt, VInt a, VInt b => Done (VBool (b <? a), lenient_in)
  | OLt, VInt a, VInt b => Done (VBool (a <? b), lenient_in)
  | OBitAnd, VBool a, VBool b => Done (VBool (andb a b), lenient_in)
  | OBitOr, VBool a, VBool b => Done (VBool (orb a b), lenient_in)
  | OBitXor, VBool a, VBool b => Done (VBool (xorb a b), lenient_in)
  | _, VInt a, VInt b =>
      match int_ty rt with
      | None => Stuck 10
      | Some (sg, bits) =>
          match o with
          | OAdd => do v <- checked sg bits m (a + b); Done (v, lenient_in)
          | OSub => do v <- checked sg bits m (a - b); Done (v, lenient_in)
          | OMul => do v <- checked sg bits m (a * b); Done (v, lenient_in)
          | ODiv =>
              if b =? 0 then Panicked RDivByZero m
              else do v <- checked sg bits m (Z.quot a b); Done (v, lenient_in)
          | OMod =>
              if b =? 0 then Panicked RDivByZero m
              else Done (VInt (Z.rem a b),
                         lenient_in || (sg && (a =? min_of bits) && (b =? -1)))
          | OBitAnd => Done (VInt (Z.land a b), lenient_in)
          | OBitOr => Done (VInt (Z.lor a b), lenient_in)
          | OBitXor => Done (VInt (Z.lxor a b), lenient_in)
          | OShl =>
              if Z.of_N bits <=? b then Panicked ROverflow m
              else Done (VInt (wrap sg bits (Z.shiftl a b)), lenient_in)
          | OShr =>
              if Z.of_N bits <=? b then Panicked ROverflow m
              else Done (VInt (Z.shiftr a b), lenient_in)
          | _ => Stuck 11
          end
      end
  | _, _, _ => Stuck 12
  end.

Definition eval_cast (to from : ty) (v : value) : outcome value :=
  match to, v with
  | TBool, VBool b => Done (VBool b)
  | TInt sg bits, VBool b => Done (VInt (if b then 1 else 0))
  | TInt sg bits, VInt z => Done (VInt (wrap sg bits z))
  | TBool, VInt z => Done (VBool (Z.odd z))
  | _, _ => Stuck 20
  end.

Fixpoint set_nth_val (l : list value) (i : nat) (v : value) : option (list value) :=
  match l, i with
  | [], _ => None
  | _ :: r, O => Some (v :: r)
  | x :: r, S k => match set_nth_val r k v with Some r' => Some (x :: r') | None => None end
  end.

(* one resolved accessor step *)
Inductive rstep := RIdx (i : N) | RPos (i : N).

(* write [nv] at the path [path] inside [v] *)
Fixpoint write_path (v : value) (path : list rstep) (nv : value) : option value :=
  match path with
  | [] => Some nv
  | RIdx i :: r =>
      match v with
      | VArr vs =>
          match nthN vs i with
          | Some sub =>
              match write_path sub r nv with
              | Some sub' => match set_nth_val vs (N.to_nat i) sub' with
                             | Some vs' => Some (VArr vs') | None => None end
              | None => None
              end
          | None => None
          end
      | _ => None
      end
  | RPos i :: r =>
      match v with
      | VTup vs =>
          match nthN vs i with
          | Some sub =>
              match write_path sub r nv with
              | Some sub' => match set_nth_val vs (N.to_nat i) sub' with
                             | Some vs' => Some (VTup vs') | None => None end
              | None => None
              end
          | None => None
          end
      | _ => None
      end
  end.

(* the key of a join element: the element itself if it has the join type, else its first field *)
Definition join_key (P : program) (join_ty elem_ty : ty) (v : value) : option (list bool) :=
  match encode ty_fuel P elem_ty v with
  | Some bits => Some (firstn (N.to_nat (sizeof P join_ty)) bits)
  | None => None
  end.

Fixpoint bits_eqb (a b : list bool) : bool :=
  match a, b with
  | [], [] => true
  | x :: xr, y :: yr => Bool.eqb x y && bits_eqb xr yr
  | _, _ => false
  end.

Definition elem_ty_of (t : ty) : option ty := match t with TArr el _ => Some el | _ => None end.

(* ---------------------------------------------------------------- the interpreter *)

Definition unit_val : value := VTup [].
Definition andthen {A B} (a : A) (f : A -> B) : B := f a.
Notation "a '|>' f" := (andthen a f) (at level 50, left associativity, only parsing).

Fixpoint eval (fuel : nat) (P : program) (env0 : env) (e : expr) {struct fuel}
  : outcome (value * env) :=
  match fuel with
  | O => NoFuel
  | S f =>
    let eval_list := fix go (es : list expr) (en : env) : outcome (list value * env) :=
      match es with
      | [] => Done ([], en)
      | e :: r =>
          do (v, en1) <- eval f P en e;
          do (vs, en2) <- go r en1;
          Done (v :: vs, en2)
      end in
    match e with
    | Ex ei m t =>
      match ei with
      | ETrue => Done (VBool true, env0)
      | EFalse => Done (VBool false, env0)
      | ENumU n _ => Done (VInt (Z.of_N n), env0)
      | ENumS z _ => Done (VInt z, env0)
      | EId x => match lookup_var env0 x with Some v => Done (v, env0) | None => Stuck 30 end
      | EArrLit es => do (vs, en) <- eval_list es env0; Done (VArr vs, en)
      | EArrRep e1 n =>
          do (v, en) <- eval f P env0 e1; Done (VArr (repeat v (N.to_nat n)), en)
      | EIdx a i =>
          do (va, en1) <- eval f P env0 a;
          do (vi, en2) <- eval f P en1 i;
          match va, vi with
          | VArr vs, VInt z =>
              if (0 <=? z) && (z <? Z.of_nat (length vs)) then
                match nth_error vs (Z.to_nat z) with
                | Some v => Done (v, en2)
                | None => Stuck 31
                end
              else Panicked ROutOfBounds m
          | _, _ => Stuck 32
          end
      | ETupLit es => do (vs, en) <- eval_list es env0; Done (VTup vs, en)
      | ETupAcc e1 i =>
          do (v, en) <- eval f P env0 e1;
          match v with
          | VTup vs => match nthN vs i with Some x => Done (x, en) | None => Stuck 33 end
          | _ => Stuck 34
          end
      | EFld e1 fld =>
          do (v, en) <- eval f P env0 e1;
          match e_ty e1, v with
          | TStruct name, VTup vs =>
              match assocN name (p_structs P) with
              | Some def =>
                  match index_of fld (map fst def) 0%N with
                  | Some k => match nthN vs k with Some x => Done (x, en) | None => Stuck 35 end
                  | None => Stuck 36
                  end
              | None => Stuck 37
              end
          | _, _ => Stuck 38
          end
      | EStructLit name fields =>
          match assocN name (p_structs P) with
          | Some def =>
              (* fields are evaluated in definition order *)
              (fix go (ds : list (N * ty)) (en : env) : outcome (list value * env) :=
                 match ds with
                 | [] => Done ([], en)
                 | (fname, _) :: r =>
                     match assocN fname fields with
                     | Some fe =>
                         do (v, en1) <- eval f P en fe;
                         do (vs, en2) <- go r en1;
                         Done (v :: vs, en2)
                     | None => Stuck 39
                     end
                 end) def env0
              |> (fun o => do (vs, en) <- o; Done (VTup vs, en))
          | None => Stuck 40
          end
      | EEnumLit _ variant args =>
          do (vs, en) <- eval_list args env0; Done (VEnum variant vs, en)
      | EMatch scrut arms =>
          do (v, en) <- eval f P env0 scrut;
          (fix go (arms : list (pattern * expr)) : outcome (value * env) :=
             match arms with
             | [] => Stuck 41
             | (p, body) :: r =>
                 match pmatch P p v with
                 | Some bs =>
                     do (res, en1) <- eval f P (bind_all (push_scope en) bs) body;
                     Done (res, pop_scope en1)
                 | None => go r
                 end
             end) arms
      | ENeg e1 =>
          do (v, en) <- eval f P env0 e1;
          match v, int_ty t with
          | VInt z, Some (sg, bits) => do r <- checked sg bits m (- z); Done (r, en)
          | _, _ => Stuck 42
          end
      | ENot e1 =>
          do (v, en) <- eval f P env0 e1;
          match v, t with
          | VBool b, _ => Done (VBool (negb b), en)
          | VInt z, TInt sg bits => Done (VInt (wrap sg bits (Z.lnot z)), en)
          | _, _ => Stuck 43
          end
      | EOp OLAnd x y =>
          do (vx, en1) <- eval f P env0 x;
          match vx with
          | VBool false => Done (VBool false, en1)
          | VBool true => eval f P en1 y
          | _ => Stuck 44
          end
      | EOp OLOr x y =>
          do (vx, en1) <- eval f P env0 x;
          match vx with
          | VBool true => Done (VBool true, en1)
          | VBool false => eval f P en1 y
          | _ => Stuck 45
          end
      | EOp o x y =>
          do (vx, en1) <- eval f P env0 x;
          do (vy, en2) <- eval f P en1 y;
          (* shifts take their width from the left operand, everything else from the result
             or (comparisons) operand type *)
          let rt := match o with OShl | OShr => e_ty x | _ => t end in
          do (v, len) <- eval_binop o m rt (e_ty x) vx vy (lenient en2);
          Done (v, mkEnv (scopes en2) len)
      | EBlock b =>
          do (v, en) <- exec_block f P (push_scope env0) b;
          Done (v, pop_scope en)
      | ECall fn args =>
          match find_fn P fn with
          | Some d =>
              do (vs, en) <- eval_list args env0;
              if negb (length vs =? length (fn_params d))%nat then Stuck 46 else
              (* lexical scoping: the callee sees its parameters and the global scope (the
                 outermost one, holding the constants), never the caller's locals; constants
                 are immutable, so the caller's scopes are unchanged by the call *)
              let en1 := bind_all (mkEnv [[]; last (scopes en) []] (lenient en))
                                  (combine (map fst (fn_params d)) vs) in
              do (v, en2) <- exec_block f P (push_scope en1) (fn_body d);
              Done (v, mkEnv (scopes en) (lenient en2))
          | None => Stuck 47
          end
      | EJoin _ _ _ _ => Stuck 48       (* the join built-in is specified in Sort/ (C13) *)
      | EIf c a b =>
          do (vc, en) <- eval f P env0 c;
          match vc with
          | VBool true => eval f P en a
          | VBool false => eval f P en b
          | _ => Stuck 49
          end
      | ECast to e1 =>
          do (v, en) <- eval f P env0 e1;
          do r <- eval_cast to (e_ty e1) v; Done (r, en)
      | ERange lo hi _ =>
          Done (VArr (map (fun k => VInt (Z.of_N lo + Z.of_nat k)) (seq 0 (N.to_nat (hi - lo)))), env0)
      end
    end
  end

with exec_block (fuel : nat) (P : program) (env0 : env) (b : list stmt) {struct fuel}
  : outcome (value * env) :=
  match fuel with
  | O => NoFuel
  | S f =>
      (fix go (ss : list stmt) (last : value) (en : env) : outcome (value * env) :=
         match ss with
         | [] => Done (last, en)
         | s :: r => do (v, en1) <- exec f P en s; go r v en1
         end) b unit_val env0
  end

with exec (fuel : nat) (P : program) (env0 : env) (s : stmt) {struct fuel}
  : outcome (value * env) :=
  match fuel with
  | O => NoFuel
  | S f =>
    match s with
    | St si m =>
      match si with
      | SLet p e =>
          do (v, en) <- eval f P env0 e;
          match pmatch P p v with
          | Some bs => Done (unit_val, bind_all en bs)
          | None => Stuck 60        (* refutable pattern that does not match *)
          end
      | SLetMut x e =>
          do (v, en) <- eval f P env0 e; Done (unit_val, bind_var en x v)
      | SAssign x accs e =>
          (* the assigned value is evaluated first (as in Rust), then the target is read *)
          do (nv, en0) <- eval f P env0 e;
          match lookup_var en0 x with
          | None => Stuck 61
          | Some cur =>
              (* read phase: indices are evaluated in order, each checked against the bounds *)
              (fix go (accs : list accessor) (cur : value) (en : env) (path_rev : list rstep)
                 : outcome (list rstep * env) :=
                 match accs with
                 | [] => Done (rev path_rev, en)
                 | AIdx _ ie :: r =>
                     do (vi, en1) <- eval f P en ie;
                     match cur, vi with
                     | VArr vs, VInt z =>
                         if (0 <=? z) && (z <? Z.of_nat (length vs)) then
                           match nth_error vs (Z.to_nat z) with
                           | Some sub => go r sub en1 (RIdx (Z.to_N z) :: path_rev)
                           | None => Stuck 62
                           end
                         else Panicked ROutOfBounds m
                     | _, _ => Stuck 63
                     end
                 | ATup _ i :: r =>
                     match cur with
                     | VTup vs => match nthN vs i with
                                  | Some sub => go r sub en (RPos i :: path_rev)
                                  | None => Stuck 64 end
                     | _ => Stuck 65
                     end
                 | AFld sty fld :: r =>
                     match sty, cur with
                     | TStruct name, VTup vs =>
                         match assocN name (p_structs P) with
                         | Some def =>
                             match index_of fld (map fst def) 0%N with
                             | Some k => match nthN vs k with
                                         | Some sub => go r sub en (RPos k :: path_rev)
                                         | None => Stuck 66 end
                             | None => Stuck 67
                             end
                         | None => Stuck 68
                         end
                     | _, _ => Stuck 69
                     end
                 end) accs cur en0 []
              |> (fun o =>
                    do (path, en2) <- o;
                    (* the variable may have been changed by the index expressions only
                       through blocks with their own scopes; re-read it *)
                    match lookup_var en2 x with
                    | Some cur2 =>
                        match write_path cur2 path nv with
                        | Some whole =>
                            match assign_var en2 x whole with
                            | Some en3 => Done (unit_val, en3)
                            | None => Stuck 70
                            end
                        | None => Stuck 71
                        end
                    | None => Stuck 72
                    end)
          end
      | SFor p arr body =>
          do (va, en) <- eval f P env0 arr;
          match va with
          | VArr vs =>
              (fix go (vs : list value) (en : env) : outcome env :=
                 match vs with
                 | [] => Done en
                 | v :: r =>
                     match pmatch P p v with
                     | Some bs =>
                         (* every iteration has its own scope *)
                         do (_, en1) <- exec_block f P (bind_all (push_scope en) bs) body;
                         go r (pop_scope en1)
                     | None => Stuck 73
                     end
                 end) vs en
              |> (fun o => do en2 <- o; Done (unit_val, en2))
          | _ => Stuck 74
          end
      | SJoinLoop p join_ty a b body =>
          do (va, en1) <- eval f P env0 a;
          do (vb, en2) <- eval f P en1 b;
          match va, vb, elem_ty_of (e_ty a), elem_ty_of (e_ty b) with
          | VArr xs, VArr ys, Some ta, Some tb =>
              (* for every element of a (ascending), the element of b with the same key *)
              (fix go (xs : list value) (en : env) : outcome env :=
                 match xs with
                 | [] => Done en
                 | x :: r =>
                     match join_key P join_ty ta x with
                     | None => Stuck 75
                     | Some kx =>
                         let partner := find (fun y =>
                           match join_key P join_ty tb y with
                           | Some ky => bits_eqb kx ky | None => false end) ys in
                         match partner with
                         | None => go r en
                         | Some y =>
                             match pmatch P p (VTup [x; y]) with
                             | Some bs =>
                                 do (_, en1) <- exec_block f P (bind_all (push_scope en) bs) body;
                                 go r (pop_scope en1)
                             | None => Stuck 76
                             end
                         end
                     end
                 end) xs en2
              |> (fun o => do en3 <- o; Done (unit_val, en3))
          | _, _, _, _ => Stuck 77
          end
      | SExpr e => eval f P env0 e
      end
    end
  end.

(* ---------------------------------------------------------------- running main *)

Inductive run_result :=
| RunOk (bits : list bool) (lenient : bool)
| RunPanic (r : reason) (m : meta)
| RunStuck (code : N)
| RunNoFuel.

Fixpoint decode_args (P : program) (ps : list (N * ty)) (inputs : list (list bool))
  : option (list (N * value)) :=
  match ps, inputs with
  | [], [] => Some []
  | (x, t) :: pr, bs :: ir =>
      match decode ty_fuel P t bs, decode_args P pr ir with
      | Some (v, []), Some rest => Some ((x, v) :: rest)
      | _, _ => None
      end
  | _, _ => None
  end.

Definition eval_consts (fuel : nat) (P : program) : outcome env :=
  (fix go (cs : list (N * expr)) (en : env) : outcome env :=
     match cs with
     | [] => Done en
     | (x, e) :: r => do (v, en1) <- eval fuel P en e; go r (bind_var en1 x v)
     end) (p_consts P) (mkEnv [[]] false).

(* [inputs]: one bit string per parameter of main (a single array parameter that the
   compiler splits into one party per element is re-joined by the caller) *)
Definition run_main (fuel : nat) (P : program) (inputs : list (list bool)) : run_result :=
  match find_fn P (p_main P) with
  | None => RunStuck 90
  | Some d =>
      match decode_args P (fn_params d) inputs with
      | None => RunStuck 91
      | Some args =>
          match eval_consts fuel P with
          | Done en0 =>
              match exec_block fuel P (push_scope (bind_all (push_scope en0) args)) (fn_body d) with
              | Done (v, en) =>
                  match encode ty_fuel P (fn_ret d) v with
                  | Some bits => RunOk bits (lenient en)
                  | None => RunStuck 92
                  end
              | Panicked r m => RunPanic r m
              | Stuck c => RunStuck c
              | NoFuel => RunNoFuel
              end
          | Panicked r m => RunPanic r m
          | Stuck c => RunStuck c
          | NoFuel => RunNoFuel
          end
      end
  end.
