(* A re-checker for typed ASTs: every node's annotated type agrees with its children under
   the documented rules, and the width of every value is determined by its static type.
   The real type checker (check.rs, not modelled) is validated per program against this
   function: a tree it returns that fails [wt_program] is either an ill-typed program that
   was accepted (C17) or a tree whose types disagree with the wires the compiler will emit
   for it (C05). *)
From GV Require Import Base.Util Lang.Ast.

Fixpoint ty_eqb (a b : ty) {struct a} : bool :=
  let list_eqb := fix go (xs ys : list ty) : bool :=
    match xs, ys with
    | [], [] => true
    | x :: xr, y :: yr => ty_eqb x y && go xr yr
    | _, _ => false
    end in
  match a, b with
  | TBool, TBool => true
  (* the checker may leave an unsuffixed literal as 'unspecified' (32 bits, exported as u32/i32)
     where the context is another 32-bit integer type: same width, accepted *)
  | TInt s1 b1, TInt s2 b2 => (Bool.eqb s1 s2 && (b1 =? b2)) || ((b1 =? 32) && (b2 =? 32))
  | TArr e1 n1, TArr e2 n2 => ty_eqb e1 e2 && (n1 =? n2)
  | TTup xs, TTup ys => list_eqb xs ys
  | TStruct n1, TStruct n2 => n1 =? n2
  | TEnum n1, TEnum n2 => n1 =? n2
  | _, _ => false
  end.

Definition is_int (t : ty) : bool := match t with TInt _ _ => true | _ => false end.
Definition is_bool (t : ty) : bool := match t with TBool => true | _ => false end.
Definition is_unsigned (t : ty) : bool := match t with TInt false _ => true | _ => false end.
Definition is_signed_int (t : ty) : bool := match t with TInt true _ => true | _ => false end.

Definition lit_fits (t : ty) (z : Z) : bool :=
  match t with
  | TInt false bits => (0 <=? z)%Z && (z <? 2 ^ Z.of_N bits)%Z
  | TInt true bits => (- 2 ^ (Z.of_N bits - 1) <=? z)%Z && (z <? 2 ^ (Z.of_N bits - 1))%Z
  | _ => false
  end.

(* typing environment: innermost scope first; (type, mutable) *)
Definition tenv := list (list (N * (ty * bool))).

Fixpoint tlookup (g : tenv) (x : N) : option (ty * bool) :=
  match g with
  | [] => None
  | s :: r => match assocN x s with Some v => Some v | None => tlookup r x end
  end.

Definition tbind (g : tenv) (x : N) (t : ty) (m : bool) : tenv :=
  match g with
  | s :: r => ((x, (t, m)) :: s) :: r
  | [] => [[(x, (t, m))]]
  end.

Fixpoint forallb2 {A B} (f : A -> B -> bool) (xs : list A) (ys : list B) : bool :=
  match xs, ys with
  | [], [] => true
  | x :: xr, y :: yr => f x y && forallb2 f xr yr
  | _, _ => false
  end.

(* patterns: returns the bindings (name, type) if the pattern is consistent with type t *)
Fixpoint wt_pat (P : program) (p : pattern) {struct p} : option (list (N * ty)) :=
  match p with
  | Pat pi _ t =>
      let wt_list := fix go (ps : list pattern) (ts : list ty) : option (list (N * ty)) :=
        match ps, ts with
        | [], [] => Some []
        | p :: pr, t :: tr =>
            if negb (ty_eqb (p_ty p) t) then None else
            match wt_pat P p, go pr tr with
            | Some a, Some b => Some (a ++ b)
            | _, _ => None
            end
        | _, _ => None
        end in
      match pi with
      | PId x => Some [(x, t)]
      | PTrue | PFalse => if is_bool t then Some [] else None
      | PNumU n => if lit_fits t (Z.of_N n) then Some [] else None
      | PNumS z => if lit_fits t z then Some [] else None
      | PURange lo hi => if lit_fits t (Z.of_N lo) && lit_fits t (Z.of_N hi) then Some [] else None
      | PSRange lo hi => if lit_fits t lo && lit_fits t hi then Some [] else None
      | PTup ps => match t with TTup ts => wt_list ps ts | _ => None end
      | PStruct name _ fields =>
          match t, assocN name (p_structs P) with
          | TStruct n2, Some def =>
              if negb (name =? n2) then None else
              (fix go (fs : list (N * pattern)) : option (list (N * ty)) :=
                 match fs with
                 | [] => Some []
                 | (f, fp) :: r =>
                     match assocN f def with
                     | Some ft =>
                         if negb (ty_eqb (p_ty fp) ft) then None else
                         match wt_pat P fp, go r with
                         | Some a, Some b => Some (a ++ b)
                         | _, _ => None
                         end
                     | None => None
                     end
                 end) fields
          | _, _ => None
          end
      | PEnumUnit en v =>
          match t, assocN en (p_enums P) with
          | TEnum n2, Some variants =>
              if negb (en =? n2) then None else
              match nthN variants v with Some [] => Some [] | _ => None end
          | _, _ => None
          end
      | PEnumTup en v ps =>
          match t, assocN en (p_enums P) with
          | TEnum n2, Some variants =>
              if negb (en =? n2) then None else
              match nthN variants v with Some ts => wt_list ps ts | None => None end
          | _, _ => None
          end
      end
  end.

Definition tbind_all (g : tenv) (bs : list (N * ty)) (m : bool) : tenv :=
  fold_left (fun g b => tbind g (fst b) (snd b) m) bs g.

Definition unit_ty : ty := TTup [].

Fixpoint wt_expr (fuel : nat) (P : program) (g : tenv) (e : expr) {struct fuel} : bool :=
  match fuel with
  | O => false
  | S f =>
    match e with
    | Ex ei _ t =>
      match ei with
      | ETrue | EFalse => is_bool t
      | ENumU n _ => lit_fits t (Z.of_N n)
      | ENumS z _ => lit_fits t z
      | EId x => match tlookup g x with Some (tx, _) => ty_eqb tx t | None => false end
      | EArrLit es =>
          match t with
          | TArr el n => (lenN es =? n) && forallb (fun e => ty_eqb (e_ty e) el && wt_expr f P g e) es
          | _ => false
          end
      | EArrRep e1 n =>
          match t with
          | TArr el n2 => (n =? n2) && ty_eqb (e_ty e1) el && wt_expr f P g e1
          | _ => false
          end
      | EIdx a i =>
          match e_ty a with
          | TArr el _ => ty_eqb el t && is_unsigned (e_ty i) && wt_expr f P g a && wt_expr f P g i
          | _ => false
          end
      | ETupLit es =>
          match t with
          | TTup ts => forallb2 (fun e t => ty_eqb (e_ty e) t && wt_expr f P g e) es ts
          | _ => false
          end
      | ETupAcc e1 i =>
          match e_ty e1 with
          | TTup ts => match nthN ts i with Some ti => ty_eqb ti t && wt_expr f P g e1 | None => false end
          | _ => false
          end
      | EFld e1 fld =>
          match e_ty e1 with
          | TStruct name =>
              match assocN name (p_structs P) with
              | Some def => match assocN fld def with
                            | Some ft => ty_eqb ft t && wt_expr f P g e1 | None => false end
              | None => false
              end
          | _ => false
          end
      | EStructLit name fields =>
          match t, assocN name (p_structs P) with
          | TStruct n2, Some def =>
              (name =? n2) && (lenN fields =? lenN def) &&
              forallb (fun d => match filter (fun fe => fst fe =? fst d) fields with
                                | [(_, fe)] => ty_eqb (e_ty fe) (snd d) && wt_expr f P g fe
                                | _ => false          (* each field exactly once *)
                                end) def
          | _, _ => false
          end
      | EEnumLit en v args =>
          match t, assocN en (p_enums P) with
          | TEnum n2, Some variants =>
              (en =? n2) &&
              match nthN variants v with
              | Some ts => forallb2 (fun e t => ty_eqb (e_ty e) t && wt_expr f P g e) args ts
              | None => false
              end
          | _, _ => false
          end
      | EMatch s arms =>
          wt_expr f P g s &&
          forallb (fun arm =>
            ty_eqb (p_ty (fst arm)) (e_ty s) && ty_eqb (e_ty (snd arm)) t &&
            match wt_pat P (fst arm) with
            | Some bs => wt_expr f P (tbind_all ([] :: g) bs false) (snd arm)
            | None => false
            end) arms
      | ENeg e1 => is_signed_int t && ty_eqb (e_ty e1) t && wt_expr f P g e1
      | ENot e1 => (is_bool t || is_int t) && ty_eqb (e_ty e1) t && wt_expr f P g e1
      | EOp o x y =>
          wt_expr f P g x && wt_expr f P g y &&
          match o with
          | OAdd | OSub | OMul | ODiv | OMod => is_int t && ty_eqb (e_ty x) t && ty_eqb (e_ty y) t
          | OBitAnd | OBitXor | OBitOr => (is_int t || is_bool t) && ty_eqb (e_ty x) t && ty_eqb (e_ty y) t
          | OGt | OLt => is_bool t && is_int (e_ty x) && ty_eqb (e_ty x) (e_ty y)
          | OEq | ONe => is_bool t && ty_eqb (e_ty x) (e_ty y)
          | OShl | OShr => is_int t && ty_eqb (e_ty x) t && ty_eqb (e_ty y) (TInt false 8)
          | OLAnd | OLOr => is_bool t && is_bool (e_ty x) && is_bool (e_ty y)
          end
      | EBlock b =>
          match wt_block f P ([] :: g) b with
          | Some tb => ty_eqb tb t
          | None => false
          end
      | ECall fn args =>
          match find_fn P fn with
          | Some d =>
              ty_eqb (fn_ret d) t &&
              forallb2 (fun e pt => ty_eqb (e_ty e) (snd pt) && wt_expr f P g e) args (fn_params d)
          | None => false
          end
      | EJoin _ _ a b => wt_expr f P g a && wt_expr f P g b
      | EIf c a b =>
          is_bool (e_ty c) && ty_eqb (e_ty a) t && ty_eqb (e_ty b) t &&
          wt_expr f P g c && wt_expr f P g a && wt_expr f P g b
      | ECast to e1 => ty_eqb to t && (is_int t || is_bool t) && (is_int (e_ty e1) || is_bool (e_ty e1)) && wt_expr f P g e1
      | ERange lo hi bits =>
          (lo <=? hi) && ty_eqb t (TArr (TInt false bits) (hi - lo))
      end
    end
  end

(* returns the type of the block (type of a final expression statement, else unit) *)
with wt_block (fuel : nat) (P : program) (g : tenv) (b : list stmt) {struct fuel} : option ty :=
  match fuel with
  | O => None
  | S f =>
      (fix go (ss : list stmt) (g : tenv) (last : ty) : option ty :=
         match ss with
         | [] => Some last
         | s :: r =>
             match wt_stmt f P g s with
             | Some (g', t) => go r g' t
             | None => None
             end
         end) b g unit_ty
  end

with wt_stmt (fuel : nat) (P : program) (g : tenv) (s : stmt) {struct fuel} : option (tenv * ty) :=
  match fuel with
  | O => None
  | S f =>
    match s with
    | St si _ =>
      match si with
      | SLet p e =>
          if wt_expr f P g e && ty_eqb (p_ty p) (e_ty e) then
            match wt_pat P p with
            | Some bs => Some (tbind_all g bs false, unit_ty)
            | None => None
            end
          else None
      | SLetMut x e =>
          if wt_expr f P g e then Some (tbind g x (e_ty e) true, unit_ty) else None
      | SAssign x accs e =>
          match tlookup g x with
          | Some (tx, true) =>
              let final := (fix go (accs : list accessor) (cur : ty) : option ty :=
                 match accs with
                 | [] => Some cur
                 | AIdx aty i :: r =>
                     match cur with
                     | TArr el _ =>
                         if ty_eqb aty cur && is_unsigned (e_ty i) && wt_expr f P g i then go r el else None
                     | _ => None
                     end
                 | ATup tty i :: r =>
                     match cur with
                     | TTup ts =>
                         if ty_eqb tty cur then
                           match nthN ts i with Some ti => go r ti | None => None end
                         else None
                     | _ => None
                     end
                 | AFld sty fld :: r =>
                     match cur with
                     | TStruct name =>
                         if ty_eqb sty cur then
                           match assocN name (p_structs P) with
                           | Some def => match assocN fld def with Some ft => go r ft | None => None end
                           | None => None
                           end
                         else None
                     | _ => None
                     end
                 end) accs tx in
              match final with
              | Some tf => if ty_eqb tf (e_ty e) && wt_expr f P g e then Some (g, unit_ty) else None
              | None => None
              end
          | _ => None           (* unknown or immutable *)
          end
      | SFor p arr body =>
          match e_ty arr with
          | TArr el _ =>
              if wt_expr f P g arr && ty_eqb (p_ty p) el then
                match wt_pat P p with
                | Some bs =>
                    match wt_block f P (tbind_all ([] :: g) bs false) body with
                    | Some _ => Some (g, unit_ty)
                    | None => None
                    end
                | None => None
                end
              else None
          | _ => None
          end
      | SJoinLoop p _ a b body =>
          (* both operands are arrays and the pattern has the type of a pair of their
             elements (check.rs: elem_ty = Tuple [elem_a, elem_b]) *)
          match e_ty a, e_ty b with
          | TArr ta _, TArr tb _ =>
              if wt_expr f P g a && wt_expr f P g b && ty_eqb (p_ty p) (TTup [ta; tb]) then
                match wt_pat P p with
                | Some bs =>
                    match wt_block f P (tbind_all ([] :: g) bs false) body with
                    | Some _ => Some (g, unit_ty)
                    | None => None
                    end
                | None => None
                end
              else None
          | _, _ => None
          end
      | SExpr e => if wt_expr f P g e then Some (g, e_ty e) else None
      end
    end
  end.

Definition wt_fuel : nat := 400.

(* the scopes are built exactly as Sem.v builds them at run time ([tbind_all] mirrors
   [Sem.bind_all]: a later binding of the same name shadows an earlier one) *)
Definition wt_fn (P : program) (gc : tenv) (d : fndef) : bool :=
  let g := tbind_all ([] :: gc) (fn_params d) true in
  match wt_block wt_fuel P ([] :: g) (fn_body d) with
  | Some t => ty_eqb t (fn_ret d)
  | None => false
  end.

(* global constants are literals (the exporter substitutes computed constants, C12) *)
Definition is_lit (e : expr) : bool :=
  match e with
  | Ex ETrue _ _ | Ex EFalse _ _ | Ex (ENumU _ _) _ _ | Ex (ENumS _ _) _ _ => true
  | _ => false
  end.

Definition consts_tenv (P : program) : tenv :=
  tbind_all [[]] (map (fun c => (fst c, e_ty (snd c))) (p_consts P)) false.

Definition wt_program (P : program) : bool :=
  forallb (fun c => is_lit (snd c) && wt_expr wt_fuel P [] (snd c)) (p_consts P) &&
  forallb (wt_fn P (consts_tenv P)) (p_fns P).
