(* Frame properties of the specification's environments (C14): values are copied, an
   assignment changes exactly the innermost binding that declares the name, a scope's
   bindings end with the scope. *)
From GV Require Import Base.Util Lang.Ast Lang.Sem.

Lemma assocN_update_same s x v s' :
  update_assoc s x v = Some s' -> assocN x s' = Some v.
Proof.
  revert s'. induction s as [|[k w] r IH]; intros s'; cbn [update_assoc]; [discriminate|].
  destruct (N.eqb_spec x k) as [->|Hne].
  - intros [= <-]. cbn [assocN]. now rewrite N.eqb_refl.
  - destruct (update_assoc r x v) as [r'|] eqn:E; [|discriminate]. intros [= <-].
    cbn [assocN]. destruct (N.eqb_spec x k); [contradiction|]. now apply IH.
Qed.

Lemma assocN_update_other s x v s' y :
  update_assoc s x v = Some s' -> y <> x -> assocN y s' = assocN y s.
Proof.
  revert s'. induction s as [|[k w] r IH]; intros s'; cbn [update_assoc]; [discriminate|].
  destruct (N.eqb_spec x k) as [->|Hne].
  - intros [= <-] Hy. cbn [assocN]. destruct (N.eqb_spec y k); [contradiction|reflexivity].
  - destruct (update_assoc r x v) as [r'|] eqn:E; [|discriminate]. intros [= <-] Hy.
    cbn [assocN]. destruct (y =? k)%N; [reflexivity|]. now apply IH.
Qed.

Lemma update_assoc_none s x v : update_assoc s x v = None -> assocN x s = None.
Proof.
  induction s as [|[k w] r IH]; cbn [update_assoc assocN]; [reflexivity|].
  destruct (N.eqb_spec x k); [discriminate|].
  destruct (update_assoc r x v); [discriminate|]. auto.
Qed.

Lemma update_assoc_names s x v s' : update_assoc s x v = Some s' -> map fst s' = map fst s.
Proof.
  revert s'. induction s as [|[k w] r IH]; intros s'; cbn [update_assoc]; [discriminate|].
  destruct (x =? k)%N.
  - intros [= <-]. reflexivity.
  - destruct (update_assoc r x v) as [r'|] eqn:E; [|discriminate]. intros [= <-].
    cbn [map fst]. f_equal. now apply IH.
Qed.

(* after an assignment the assigned name reads the new value ... *)
Theorem assign_var_same e x v e' :
  assign_var e x v = Some e' -> lookup_var e' x = Some v.
Proof.
  unfold assign_var, lookup_var. destruct (assign_scopes (scopes e) x v) as [ss|] eqn:E; [|discriminate].
  intros [= <-]. cbn [scopes]. revert ss E.
  induction (scopes e) as [|s r IH]; intros ss; cbn [assign_scopes]; [discriminate|].
  destruct (update_assoc s x v) as [s'|] eqn:U.
  - intros [= <-]. cbn [lookup_scopes]. now rewrite (assocN_update_same _ _ _ _ U).
  - destruct (assign_scopes r x v) as [r'|] eqn:A; [|discriminate]. intros [= <-].
    cbn [lookup_scopes]. rewrite (update_assoc_none _ _ _ U). now apply IH.
Qed.

(* ... and every other variable keeps its value: no sharing *)
Theorem assign_var_other e x v e' y :
  assign_var e x v = Some e' -> y <> x -> lookup_var e' y = lookup_var e y.
Proof.
  unfold assign_var, lookup_var. destruct (assign_scopes (scopes e) x v) as [ss|] eqn:E; [|discriminate].
  intros [= <-] Hy. cbn [scopes]. revert ss E.
  induction (scopes e) as [|s r IH]; intros ss; cbn [assign_scopes]; [discriminate|].
  destruct (update_assoc s x v) as [s'|] eqn:U.
  - intros [= <-]. cbn [lookup_scopes]. now rewrite (assocN_update_other _ _ _ _ _ U Hy).
  - destruct (assign_scopes r x v) as [r'|] eqn:A; [|discriminate]. intros [= <-].
    cbn [lookup_scopes]. destruct (assocN y s); [reflexivity|]. now apply IH.
Qed.

(* assignment never creates, removes or moves a binding *)
Theorem assign_var_shape e x v e' :
  assign_var e x v = Some e' ->
  map (map fst) (scopes e') = map (map fst) (scopes e) /\ lenient e' = lenient e.
Proof.
  unfold assign_var. destruct (assign_scopes (scopes e) x v) as [ss|] eqn:E; [|discriminate].
  intros [= <-]. cbn [scopes lenient]. split; [|reflexivity]. revert ss E.
  induction (scopes e) as [|s r IH]; intros ss; cbn [assign_scopes]; [discriminate|].
  destruct (update_assoc s x v) as [s'|] eqn:U.
  - intros [= <-]. cbn [map]. now rewrite (update_assoc_names _ _ _ _ U).
  - destruct (assign_scopes r x v) as [r'|] eqn:A; [|discriminate]. intros [= <-].
    cbn [map]. f_equal. now apply IH.
Qed.

(* the innermost declaring scope is the one that changes: outer bindings of the same name
   (shadowed) are untouched *)
Theorem assign_var_innermost e x v e' s r :
  scopes e = s :: r -> assocN x s <> None -> assign_var e x v = Some e' ->
  tl (scopes e') = r.
Proof.
  intros Hs Hin. unfold assign_var. rewrite Hs. cbn [assign_scopes].
  destruct (update_assoc s x v) as [s'|] eqn:U.
  - intros [= <-]. reflexivity.
  - exfalso. apply Hin. now apply update_assoc_none in U.
Qed.

(* bindings made in a scope end with that scope *)
Lemma bind_var_scopes e x v :
  tl (scopes (bind_var e x v)) = tl (scopes e) \/ scopes e = [].
Proof. unfold bind_var. destruct (scopes e); [now right|now left]. Qed.

Lemma bind_all_push_tl bs : forall e s r,
  scopes e = s :: r -> tl (scopes (bind_all e bs)) = r.
Proof.
  induction bs as [|[x v] bs IH]; intros e s r Hs; cbn [bind_all fold_left].
  - now rewrite Hs.
  - change (fold_left _ bs (bind_var e x v)) with (bind_all (bind_var e x v) bs).
    eapply IH. unfold bind_var. rewrite Hs. reflexivity.
Qed.

Theorem scope_ends e bs :
  scopes (pop_scope (bind_all (push_scope e) bs)) = scopes e.
Proof.
  unfold pop_scope. cbn [scopes]. eapply bind_all_push_tl. reflexivity.
Qed.

(* a shadowing binding hides the outer one only while its scope lives *)
Theorem shadow_then_pop e x v :
  lookup_var (bind_var (push_scope e) x v) x = Some v /\
  lookup_var (pop_scope (bind_var (push_scope e) x v)) x = lookup_var e x.
Proof.
  split.
  - unfold lookup_var, bind_var, push_scope. cbn [scopes lookup_scopes assocN]. now rewrite N.eqb_refl.
  - unfold lookup_var, pop_scope, bind_var, push_scope. reflexivity.
Qed.
