(* Value typing for the specification interpreter Lang/Sem.v, the typing of run-time
   environments by the re-checker's contexts (Lang/Wt.v), and the syntactic fragment on
   which evaluation cannot fail to match a pattern.  Definitions only; the soundness proofs
   are in Lang/WtSound.v. *)
From GV Require Import Base.Util Lang.Ast Lang.Sem Lang.Wt.
Open Scope N_scope.

(* [has_ty P v t]: the value [v] has the shape of type [t] (structural recursion on the
   value).  Integers carry no range condition here: Wt.v deliberately identifies the two
   32-bit integer types (known finding c05-literal-width-divergence), so a range invariant
   is not preserved by well-typed programs; the range condition needed for
   [decode (encode v) = v] is the separate predicate [in_rng] below. *)
Fixpoint has_ty (P : program) (v : value) (t : ty) {struct v} : bool :=
  let list_ok := fix go (vs : list value) (ts : list ty) : bool :=
    match vs, ts with
    | [], [] => true
    | v :: vr, t :: tr => has_ty P v t && go vr tr
    | _, _ => false
    end in
  match v, t with
  | VBool _, TBool => true
  | VInt _, TInt _ _ => true
  | VArr vs, TArr el n =>
      (lenN vs =? n) &&
      (fix go (vs : list value) : bool :=
         match vs with [] => true | v :: r => has_ty P v el && go r end) vs
  | VTup vs, TTup ts => list_ok vs ts
  | VTup vs, TStruct name =>
      match assocN name (p_structs P) with
      | Some def => list_ok vs (map snd def)
      | None => false
      end
  | VEnum tag vs, TEnum name =>
      match assocN name (p_enums P) with
      | Some variants =>
          match nthN variants tag with Some ts => list_ok vs ts | None => false end
      | None => false
      end
  | _, _ => false
  end.

(* every integer inside [v] lies in the range of its type *)
Fixpoint in_rng (P : program) (v : value) (t : ty) {struct v} : bool :=
  let list_ok := fix go (vs : list value) (ts : list ty) : bool :=
    match vs, ts with
    | [], [] => true
    | v :: vr, t :: tr => in_rng P v t && go vr tr
    | _, _ => false
    end in
  match v, t with
  | VBool _, TBool => true
  | VInt z, TInt sg bits => in_range sg bits z
  | VArr vs, TArr el n =>
      (fix go (vs : list value) : bool :=
         match vs with [] => true | v :: r => in_rng P v el && go r end) vs
  | VTup vs, TTup ts => list_ok vs ts
  | VTup vs, TStruct name =>
      match assocN name (p_structs P) with
      | Some def => list_ok vs (map snd def)
      | None => false
      end
  | VEnum tag vs, TEnum name =>
      match assocN name (p_enums P) with
      | Some variants =>
          match nthN variants tag with Some ts => list_ok vs ts | None => false end
      | None => false
      end
  | _, _ => false
  end.

(* [ty_ok fuel P t]: the type tree of [t] (through struct and enum definitions) is
   explored completely within [fuel] steps, i.e. [size_of]/[encode]/[decode] with that fuel
   never hit their fuel base case on [t]; false on recursive or unknown definitions *)
Fixpoint ty_ok (fuel : nat) (P : program) (t : ty) : bool :=
  match fuel with
  | O => false
  | S f =>
      match t with
      | TBool | TInt _ _ => true
      | TArr el _ => ty_ok f P el
      | TTup ts => forallb (ty_ok f P) ts
      | TStruct name =>
          match assocN name (p_structs P) with
          | Some fields => forallb (fun nt => ty_ok f P (snd nt)) fields
          | None => false
          end
      | TEnum name =>
          match assocN name (p_enums P) with
          | Some variants => forallb (forallb (ty_ok f P)) variants
          | None => false
          end
      end
  end.

(* every enum has at most 2^64 variants (the tag width function [Sem.tag_bits] is exact up to there) *)
Definition enums_small (P : program) : bool :=
  forallb (fun e : N * list (list ty) => lenN (snd e) <=? 2 ^ 64) (p_enums P).

(* ------------------------------------------------------------ environments *)

(* a run-time scope against a checker scope: same names in the same order, typed values *)
Definition bind_ok (P : program) (b : N * value) (tb : N * (ty * bool)) : Prop :=
  fst b = fst tb /\ has_ty P (snd b) (fst (snd tb)) = true.
Definition scope_ok (P : program) (s : list (N * value)) (gs : list (N * (ty * bool))) : Prop :=
  Forall2 (bind_ok P) s gs.
Definition env_ok (P : program) (ss : list (list (N * value))) (g : tenv) : Prop :=
  Forall2 (scope_ok P) ss g.

(* ------------------------------------------------------------ the total fragment *)

(* patterns that match every value of their type, syntactically *)
Fixpoint irrefutable (p : pattern) {struct p} : bool :=
  match p with
  | Pat pi _ _ =>
      match pi with
      | PId _ => true
      | PTup ps =>
          (fix go (ps : list pattern) : bool :=
             match ps with [] => true | p :: r => irrefutable p && go r end) ps
      | PStruct _ _ fields =>
          (fix go (fs : list (N * pattern)) : bool :=
             match fs with [] => true | (_, p) :: r => irrefutable p && go r end) fields
      | _ => false
      end
  end.

(* [frag_expr]: no [join] built-in, every [match] has an arm with an irrefutable pattern,
   every [let]/[for] pattern is irrefutable.  The fuel is consumed exactly as in
   [Wt.wt_expr], so the two are used with the same fuel. *)
Fixpoint frag_expr (fuel : nat) (e : expr) {struct fuel} : bool :=
  match fuel with
  | O => false
  | S f =>
    match e with
    | Ex ei _ _ =>
      match ei with
      | ETrue | EFalse | ENumU _ _ | ENumS _ _ | EId _ | ERange _ _ _ => true
      | EArrLit es | ETupLit es | EEnumLit _ _ es | ECall _ es => forallb (frag_expr f) es
      | EArrRep e1 _ | ETupAcc e1 _ | EFld e1 _ | ENeg e1 | ENot e1 | ECast _ e1 => frag_expr f e1
      | EIdx a i => frag_expr f a && frag_expr f i
      | EOp _ x y => frag_expr f x && frag_expr f y
      | EStructLit _ fields => forallb (fun fe => frag_expr f (snd fe)) fields
      | EMatch s arms =>
          frag_expr f s && forallb (fun arm => frag_expr f (snd arm)) arms &&
          existsb (fun arm => irrefutable (fst arm)) arms
      | EBlock b => frag_block f b
      | EJoin _ _ _ _ => false
      | EIf c a b => frag_expr f c && frag_expr f a && frag_expr f b
      end
    end
  end
with frag_block (fuel : nat) (b : list stmt) {struct fuel} : bool :=
  match fuel with
  | O => false
  | S f => forallb (frag_stmt f) b
  end
with frag_stmt (fuel : nat) (s : stmt) {struct fuel} : bool :=
  match fuel with
  | O => false
  | S f =>
    match s with
    | St si _ =>
      match si with
      | SLet p e => irrefutable p && frag_expr f e
      | SLetMut _ e => frag_expr f e
      | SAssign _ accs e =>
          forallb (fun a => match a with AIdx _ i => frag_expr f i | _ => true end) accs &&
          frag_expr f e
      | SFor p arr body => irrefutable p && frag_expr f arr && frag_block f body
      | SJoinLoop _ _ _ _ _ => false
      | SExpr e => frag_expr f e
      end
    end
  end.

Definition frag_program (P : program) : bool :=
  forallb (fun d => frag_block wt_fuel (fn_body d)) (p_fns P).

(* The only [Stuck] codes a program accepted by [wt_program] can produce: no arm of a
   [match] matches (41; excluded by the exhaustiveness check, C08), the [join] built-in,
   which Sem.v does not specify (48; C13), a [let]/[for]/join-loop pattern that does not
   match (60, 73, 76; excluded by the irrefutability check), a join key of a type deeper
   than [ty_fuel] (75). *)
Definition stuck_allowed : list N := [41; 48; 60; 73; 75; 76].
