(* Literals (literal.rs): the type test `Literal::is_of_type`, the encoder
   `Literal::as_bits`, the decoder `Literal::from_unwrapped_bits`, plus the specification
   side: canonical values ([has_type]) and the meaning of a spelling ([denote]).
   Definitions only; proofs are in LiteralProofs.v.

   The model follows the REPAIRED literal.rs (fixes 1-4 of the C09 report: struct fields must
   come in definition order, enum payload arity must match, integers must fit their type,
   ranges must be ascending and inside the element type). *)
From GV Require Import Base.Util Lang.Types.

Inductive lit :=
| LTrue | LFalse
| LUnsigned (n : N) (u : uty)
| LSigned (z : Z) (s : sty)
| LRepeat (e : lit) (n : N)                 (* Literal::ArrayRepeat *)
| LArray (es : lits)
| LTuple (es : lits)
| LStruct (name : N) (fs : lfields)
| LEnumUnit (name vname : N)                (* Literal::Enum(_, _, VariantLiteral::Unit) *)
| LEnumTuple (name vname : N) (es : lits)   (* Literal::Enum(_, _, VariantLiteral::Tuple(_)) *)
| LRange (mn mx : N) (u : uty)
with lits := LsNil | LsCons (l : lit) (ls : lits)
with lfields := LFNil | LFCons (name : N) (l : lit) (fs : lfields).

Fixpoint lits_len (ls : lits) : N :=
  match ls with LsNil => 0 | LsCons _ r => 1 + lits_len r end.

(* ---- bits: `unsigned_to_bits` / `signed_to_bits` (compile.rs:1543-1553), most
   significant bit first; `n >> k` on i64 is the arithmetic shift, i.e. Z.testbit *)
Fixpoint ubits_of (k : nat) (n : N) : list bool :=
  match k with
  | O => []
  | S k' => N.testbit n (N.of_nat k') :: ubits_of k' n
  end.

Fixpoint sbits_of (k : nat) (z : Z) : list bool :=
  match k with
  | O => []
  | S k' => Z.testbit z (Z.of_nat k') :: sbits_of k' z
  end.

(* `n |= (bit as u64) << (size - 1 - i)` over all bits *)
Fixpoint N_of_bits_acc (acc : N) (l : list bool) : N :=
  match l with
  | [] => acc
  | b :: r => N_of_bits_acc (2 * acc + N.b2n b) r
  end.
Definition N_of_bits (l : list bool) : N := N_of_bits_acc 0 l.

(* literal.rs:289-302: the bits are or-ed into an i64 and then cast through i8/i16/i32 *)
Definition signed_of_bits (size : N) (l : list bool) : Z :=
  let u := N_of_bits l in
  if 2 ^ (size - 1) <=? u then (Z.of_N u - 2 ^ Z.of_N size)%Z else Z.of_N u.

Definition u_in_range (n : N) (u : uty) : bool :=
  match umax u with Some m => n <=? m | None => false end.
Definition s_in_range (z : Z) (s : sty) : bool :=
  match smin s, smax s with
  | Some lo, Some hi => (lo <=? z)%Z && (z <=? hi)%Z
  | _, _ => false
  end.

(* a range `mn..mx` of type u: ascending, and its last element mx-1 fits u (fix 4) *)
Definition range_ok (mn mx : N) (u : uty) : bool :=
  (mn <=? mx) && ((mn =? mx) || u_in_range (mx - 1) u).

(* ---- Literal::is_of_type (literal.rs:161-228, repaired) *)
Fixpoint is_of_type (l : lit) (t : rty) : bool :=
  match l, t with
  | LTrue, RBool => true
  | LFalse, RBool => true
  | LUnsigned n u1, RUnsigned u2 => uty_eqb u1 u2 && u_in_range n u1
  | LSigned z s1, RSigned s2 => sty_eqb s1 s2 && s_in_range z s1
  | LRepeat e n1, RArray et n2 => (n1 =? n2) && is_of_type e et
  | LArray es, RArray et n => (lits_len es =? n) && all_of_type es et
  | LStruct n1 fs, RStruct n2 dfs => (n1 =? n2) && fields_of_type fs dfs
  | LTuple es, RTuple ts => zip_of_type es ts
  | LEnumUnit n1 v, REnum n2 vs =>
      (n1 =? n2) &&
      match find_variant vs v 0 with
      | Some (_, VIUnit) => true
      | _ => false
      end
  | LEnumTuple n1 v es, REnum n2 vs =>
      (n1 =? n2) &&
      match find_variant vs v 0 with
      | Some (_, VITuple ts) => zip_of_type es ts
      | _ => false
      end
  | LRange mn mx u, RArray et n =>
      (match et with RUnsigned u' => uty_eqb u' u | _ => false end)
      && range_ok mn mx u && (mx - mn =? n)
  | _, _ => false
  end
with all_of_type (ls : lits) (t : rty) : bool :=
  match ls with
  | LsNil => true
  | LsCons l r => is_of_type l t && all_of_type r t
  end
(* same length and pointwise (tuples; enum payloads after fix 2) *)
with zip_of_type (ls : lits) (ts : rtys) : bool :=
  match ls, ts with
  | LsNil, RsNil => true
  | LsCons l r, RsCons t tr => is_of_type l t && zip_of_type r tr
  | _, _ => false
  end
(* same length, same names in the same (definition) order, pointwise (fix 1) *)
with fields_of_type (fs : lfields) (dfs : rfields) : bool :=
  match fs, dfs with
  | LFNil, RFNil => true
  | LFCons n l r, RFCons dn t dr => (n =? dn) && is_of_type l t && fields_of_type r dr
  | _, _ => false
  end.

(* ---- Literal::as_bits (literal.rs:437-519); type-free: enum layouts are looked up in the
   program's enum definitions [E] by the literal's own enum name *)
Fixpoint repeat_bits (k : nat) (b : list bool) : list bool :=
  match k with O => [] | S k' => b ++ repeat_bits k' b end.

Fixpoint range_bits (count : nat) (start : N) (width : nat) : list bool :=
  match count with
  | O => []
  | S c => ubits_of width start ++ range_bits c (start + 1) width
  end.

(* `wires = vec![false; max_size]`, tag written first, then the payload fields copied in;
   `wires[w..w + f.len()]` panics when the payload does not fit (literal.rs:502) *)
Definition enum_bits (E : list (N * rvariants)) (name v : N) (payload : res (list bool))
  : res (list bool) :=
  match assoc name E with
  | None => Crash
  | Some vs =>
      match find_variant vs v 0 with
      | None => Crash
      | Some (idx, _) =>
          let* p := payload in
          let ts := tag_size (nvariants vs) in
          let mx := enum_size vs in
          if ts + lenN p <=? mx
          then Ok (ubits_of (N.to_nat ts) idx ++ p ++ repeat false (N.to_nat (mx - ts - lenN p)))
          else Crash
      end
  end.

Fixpoint as_bits (E : list (N * rvariants)) (l : lit) : res (list bool) :=
  match l with
  | LTrue => Ok [true]
  | LFalse => Ok [false]
  | LUnsigned n u => Ok (ubits_of (N.to_nat (ubits u)) n)
  | LSigned z s => Ok (sbits_of (N.to_nat (sbits s)) z)
  | LRepeat e n => let* b := as_bits E e in Ok (repeat_bits (N.to_nat n) b)
  | LArray es => as_bits_list E es
  | LTuple es => as_bits_list E es
  | LStruct _ fs => as_bits_fields E fs
  | LEnumUnit name v => enum_bits E name v (Ok [])
  | LEnumTuple name v es => enum_bits E name v (as_bits_list E es)
  | LRange mn mx u => Ok (range_bits (N.to_nat (mx - mn)) mn (N.to_nat (ubits u)))
  end
with as_bits_list (E : list (N * rvariants)) (ls : lits) : res (list bool) :=
  match ls with
  | LsNil => Ok []
  | LsCons l r => let* b := as_bits E l in let* br := as_bits_list E r in Ok (b ++ br)
  end
with as_bits_fields (E : list (N * rvariants)) (fs : lfields) : res (list bool) :=
  match fs with
  | LFNil => Ok []
  | LFCons _ l r => let* b := as_bits E l in let* br := as_bits_fields E r in Ok (b ++ br)
  end.

(* ---- Literal::from_unwrapped_bits (literal.rs:253-434).
   [Ok (Some l)] = Ok(l); [Ok None] = Err(OutputTypeMismatch); [Crash] = slice or index out of
   range.  Rust slices `bits[i..i + size]` with a running index; the model consumes the
   front of the list, which is the same test (`i + size <= len`) on the remaining bits.
   Aggregates do not check that all bits were used (neither does Rust). *)
Definition dres (A : Type) := res (option A).
Definition bindd {A B} (r : dres A) (f : A -> dres B) : dres B :=
  match r with
  | Ok (Some a) => f a
  | Ok None => Ok None
  | Crash => Crash
  | OutOfFuel => OutOfFuel
  end.
Notation "'let+' x ':=' r 'in' k" := (bindd r (fun x => k))
  (at level 200, x pattern, r at level 100, k at level 200).

(* `for _ in 0..count { decode bits[i..i+sz]; i += sz }` *)
Fixpoint from_bits_rep (f : list bool -> dres lit) (sz : N) (count : nat) (bits : list bool)
  : dres lits :=
  match count with
  | O => Ok (Some LsNil)
  | S c =>
      if sz <=? lenN bits then
        let+ v := f (firstn (N.to_nat sz) bits) in
        let+ vs := from_bits_rep f sz c (skipn (N.to_nat sz) bits) in
        Ok (Some (LsCons v vs))
      else Crash
  end.

(* `bits.iter().take(tag_size)` with weights `1 << (tag_size - 1 - i)`: bits that are
   missing at the end count as 0 *)
Definition tag_of_bits (ts : N) (bits : list bool) : N :=
  let hd := firstn (N.to_nat ts) bits in
  N_of_bits hd * 2 ^ (ts - lenN hd).

Fixpoint from_bits (t : rty) (bits : list bool) {struct t} : dres lit :=
  match t with
  | RBool =>
      match bits with
      | [b] => Ok (Some (if b then LTrue else LFalse))
      | _ => Ok None
      end
  | RUnsigned u =>
      if lenN bits =? ubits u then Ok (Some (LUnsigned (N_of_bits bits) u)) else Ok None
  | RSigned s =>
      if lenN bits =? sbits s then Ok (Some (LSigned (signed_of_bits (sbits s) bits) s))
      else Ok None
  | RArray et n =>
      let+ vs := from_bits_rep (from_bits et) (size et) (N.to_nat n) bits in
      Ok (Some (LArray vs))
  | RTuple ts => let+ vs := from_bits_tys ts bits in Ok (Some (LTuple vs))
  | RStruct name fs => let+ vfs := from_bits_fields fs bits in Ok (Some (LStruct name vfs))
  | REnum name vs =>
      let tsz := tag_size (nvariants vs) in
      from_bits_variant vs (tag_of_bits tsz bits) name tsz bits
  end
(* `enum_def.variants[tag_number]` (panics when out of range), then the variant's fields *)
with from_bits_variant (vs : rvariants) (k : N) (name tsz : N) (bits : list bool) {struct vs}
  : dres lit :=
  match vs with
  | RVNil => Crash
  | RVUnit vn r =>
      if k =? 0 then Ok (Some (LEnumUnit name vn))
      else from_bits_variant r (k - 1) name tsz bits
  | RVTuple vn ts r =>
      if k =? 0 then
        (* the fields are sliced at absolute offsets starting at tag_size: the first
           slice `bits[tag_size..]` panics when fewer than tag_size bits are present *)
        if (match ts with RsNil => true | RsCons _ _ => tsz <=? lenN bits end) then
          let+ es := from_bits_tys ts (skipn (N.to_nat tsz) bits) in
          Ok (Some (LEnumTuple name vn es))
        else Crash
      else from_bits_variant r (k - 1) name tsz bits
  end
with from_bits_tys (ts : rtys) (bits : list bool) {struct ts} : dres lits :=
  match ts with
  | RsNil => Ok (Some LsNil)
  | RsCons t r =>
      if size t <=? lenN bits then
        let+ v := from_bits t (firstn (N.to_nat (size t)) bits) in
        let+ vs := from_bits_tys r (skipn (N.to_nat (size t)) bits) in
        Ok (Some (LsCons v vs))
      else Crash
  end
with from_bits_fields (fs : rfields) (bits : list bool) {struct fs} : dres lfields :=
  match fs with
  | RFNil => Ok (Some LFNil)
  | RFCons n t r =>
      if size t <=? lenN bits then
        let+ v := from_bits t (firstn (N.to_nat (size t)) bits) in
        let+ vs := from_bits_fields r (skipn (N.to_nat (size t)) bits) in
        Ok (Some (LFCons n v vs))
      else Crash
  end.

(* ======================= specification side ======================= *)

(* Canonical values of a type: what the decoder produces and what a spelling denotes.
   No ArrayRepeat, no Range; integers inside their type; arrays of the exact length; struct
   fields exactly the definition's, in definition order; enum payloads of the variant's
   arity. *)
Fixpoint has_type (v : lit) (t : rty) : bool :=
  match v, t with
  | LTrue, RBool | LFalse, RBool => true
  | LUnsigned n u, RUnsigned u' => uty_eqb u u' && u_in_range n u
  | LSigned z s, RSigned s' => sty_eqb s s' && s_in_range z s
  | LArray vs, RArray et n => (lits_len vs =? n) && all_has_type vs et
  | LTuple vs, RTuple ts => zip_has_type vs ts
  | LStruct n fs, RStruct n' dfs => (n =? n') && fields_has_type fs dfs
  | LEnumUnit n v, REnum n' vs =>
      (n =? n') && match find_variant vs v 0 with Some (_, VIUnit) => true | _ => false end
  | LEnumTuple n v es, REnum n' vs =>
      (n =? n') &&
      match find_variant vs v 0 with Some (_, VITuple ts) => zip_has_type es ts | _ => false end
  | _, _ => false
  end
with all_has_type (vs : lits) (t : rty) : bool :=
  match vs with
  | LsNil => true
  | LsCons v r => has_type v t && all_has_type r t
  end
with zip_has_type (vs : lits) (ts : rtys) : bool :=
  match vs, ts with
  | LsNil, RsNil => true
  | LsCons v r, RsCons t tr => has_type v t && zip_has_type r tr
  | _, _ => false
  end
with fields_has_type (fs : lfields) (dfs : rfields) : bool :=
  match fs, dfs with
  | LFNil, RFNil => true
  | LFCons n v r, RFCons dn t dr => (n =? dn) && has_type v t && fields_has_type r dr
  | _, _ => false
  end.

(* What a spelling means, independent of any type (DESIGN.md §7 C09): `[e; n]` is n copies
   of e; a typed range is the array of its elements; struct fields may come in any order
   (the value lists them by name) but not twice; integers must fit their declared type.
   [None] = the spelling denotes nothing. *)
Fixpoint replicate (k : nat) (v : lit) : lits :=
  match k with O => LsNil | S k' => LsCons v (replicate k' v) end.

Fixpoint range_lits (count : nat) (start : N) (u : uty) : lits :=
  match count with
  | O => LsNil
  | S c => LsCons (LUnsigned start u) (range_lits c (start + 1) u)
  end.

Fixpoint insert_field (name : N) (v : lit) (fs : lfields) : option lfields :=
  match fs with
  | LFNil => Some (LFCons name v LFNil)
  | LFCons n2 v2 r =>
      if name <? n2 then Some (LFCons name v fs)
      else if name =? n2 then None
      else match insert_field name v r with
           | Some r' => Some (LFCons n2 v2 r')
           | None => None
           end
  end.

Fixpoint sort_fields (fs : lfields) : option lfields :=
  match fs with
  | LFNil => Some LFNil
  | LFCons n v r =>
      match sort_fields r with
      | Some s => insert_field n v s
      | None => None
      end
  end.

Fixpoint denote (l : lit) : option lit :=
  match l with
  | LTrue => Some LTrue
  | LFalse => Some LFalse
  | LUnsigned n u => if u_in_range n u then Some l else None
  | LSigned z s => if s_in_range z s then Some l else None
  | LRepeat e n =>
      match denote e with
      | Some v => Some (LArray (replicate (N.to_nat n) v))
      | None => None
      end
  | LArray es => match denote_list es with Some vs => Some (LArray vs) | None => None end
  | LTuple es => match denote_list es with Some vs => Some (LTuple vs) | None => None end
  | LStruct name fs =>
      match denote_fields fs with
      | Some vfs => match sort_fields vfs with Some s => Some (LStruct name s) | None => None end
      | None => None
      end
  | LEnumUnit n v => Some l
  | LEnumTuple n v es =>
      match denote_list es with Some vs => Some (LEnumTuple n v vs) | None => None end
  | LRange mn mx u =>
      if range_ok mn mx u then Some (LArray (range_lits (N.to_nat (mx - mn)) mn u)) else None
  end
with denote_list (ls : lits) : option lits :=
  match ls with
  | LsNil => Some LsNil
  | LsCons l r =>
      match denote l, denote_list r with
      | Some v, Some vs => Some (LsCons v vs)
      | _, _ => None
      end
  end
with denote_fields (fs : lfields) : option lfields :=
  match fs with
  | LFNil => Some LFNil
  | LFCons n l r =>
      match denote l, denote_fields r with
      | Some v, Some vs => Some (LFCons n v vs)
      | _, _ => None
      end
  end.
