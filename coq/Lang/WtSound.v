(* Type soundness of the re-checker Lang/Wt.v with respect to the specification
   interpreter Lang/Sem.v (definitions in Lang/ValTy.v). *)
From GV Require Import Base.Util Lang.Ast Lang.Sem Lang.Wt Lang.ValTy.
Open Scope N_scope.

Ltac andb_all :=
  repeat match goal with
         | H : _ && _ = true |- _ => apply andb_prop in H; destruct H
         end.

(* ------------------------------------------------------------ lists *)

Lemma forallb2_Forall2 {A B} (f : A -> B -> bool) xs ys :
  forallb2 f xs ys = true <-> Forall2 (fun x y => f x y = true) xs ys.
Proof.
  revert ys. induction xs as [|x xr IH]; intros [|y yr]; cbn [forallb2]; split; intro H;
    try discriminate; try constructor; try solve [inversion H].
  - apply andb_prop in H as [H1 H2]. assumption.
  - apply andb_prop in H as [H1 H2]. now apply IH.
  - inversion H; subst. apply andb_true_intro. split; [assumption|now apply IH].
Qed.

Lemma forallb_Forall {A} (f : A -> bool) xs :
  forallb f xs = true <-> Forall (fun x => f x = true) xs.
Proof.
  rewrite forallb_forall, Forall_forall. reflexivity.
Qed.

Lemma Forall2_length_eq {A B} (R : A -> B -> Prop) xs ys : Forall2 R xs ys -> length xs = length ys.
Proof. induction 1; cbn [length]; congruence. Qed.

Lemma Forall2_nthN {A B} (R : A -> B -> Prop) xs ys i y :
  Forall2 R xs ys -> nthN ys i = Some y -> exists x, nthN xs i = Some x /\ R x y.
Proof.
  rewrite !nthN_spec. intro H. revert i. induction H as [|x0 y0 xr yr H0 H IH]; intros i.
  - destruct (N.to_nat i); discriminate.
  - destruct (N.to_nat i) as [|k] eqn:E; cbn [nth_error].
    + intros [= <-]. eauto.
    + intro Hy. specialize (IH (N.of_nat k)). rewrite Nat2N.id in IH. now apply IH.
Qed.

(* ------------------------------------------------------------ induction on values *)

Section ValueInd.
  Variable Q : value -> Prop.
  Hypothesis HB : forall b, Q (VBool b).
  Hypothesis HI : forall z, Q (VInt z).
  Hypothesis HA : forall vs, Forall Q vs -> Q (VArr vs).
  Hypothesis HT : forall vs, Forall Q vs -> Q (VTup vs).
  Hypothesis HE : forall tag vs, Forall Q vs -> Q (VEnum tag vs).
  Fixpoint value_ind2 (v : value) : Q v :=
    let go := fix go (l : list value) : Forall Q l :=
      match l with
      | [] => Forall_nil Q
      | x :: r => Forall_cons x (value_ind2 x) (go r)
      end in
    match v with
    | VBool b => HB b
    | VInt z => HI z
    | VArr vs => HA vs (go vs)
    | VTup vs => HT vs (go vs)
    | VEnum tag vs => HE tag vs (go vs)
    end.
End ValueInd.

(* ------------------------------------------------------------ has_ty: equations *)

Lemma has_ty_tup P vs ts : has_ty P (VTup vs) (TTup ts) = forallb2 (has_ty P) vs ts.
Proof.
  cbn [has_ty]. revert ts. induction vs as [|v vr IH]; intros [|t tr]; cbn [forallb2]; try reflexivity.
  now rewrite IH.
Qed.

Lemma has_ty_struct P vs name :
  has_ty P (VTup vs) (TStruct name) =
  match assocN name (p_structs P) with
  | Some def => forallb2 (has_ty P) vs (map snd def)
  | None => false
  end.
Proof.
  cbn [has_ty]. destruct (assocN name (p_structs P)) as [def|]; [|reflexivity].
  generalize (map snd def) as ts. induction vs as [|v vr IH]; intros [|t tr]; cbn [forallb2]; try reflexivity.
  now rewrite IH.
Qed.

Lemma has_ty_enum P tag vs name :
  has_ty P (VEnum tag vs) (TEnum name) =
  match assocN name (p_enums P) with
  | Some variants => match nthN variants tag with Some ts => forallb2 (has_ty P) vs ts | None => false end
  | None => false
  end.
Proof.
  cbn [has_ty]. destruct (assocN name (p_enums P)) as [variants|]; [|reflexivity].
  destruct (nthN variants tag) as [ts|]; [|reflexivity].
  revert ts. induction vs as [|v vr IH]; intros [|t tr]; cbn [forallb2]; try reflexivity.
  now rewrite IH.
Qed.

Lemma has_ty_arr P vs el n :
  has_ty P (VArr vs) (TArr el n) = (lenN vs =? n) && forallb (fun v => has_ty P v el) vs.
Proof.
  reflexivity.
Qed.

Lemma ty_eqb_tup xs ys : ty_eqb (TTup xs) (TTup ys) = forallb2 ty_eqb xs ys.
Proof.
  cbn [ty_eqb]. revert ys. induction xs as [|x xr IH]; intros [|y yr]; cbn [forallb2]; try reflexivity.
  now rewrite IH.
Qed.

(* the compatibility relation of Wt.v does not distinguish values *)
Lemma has_ty_compat P v : forall a b, ty_eqb a b = true -> has_ty P v a = has_ty P v b.
Proof.
  induction v as [bb|z|vs IH|vs IH|tag vs IH] using value_ind2; intros a b Hab.
  - destruct a, b; try discriminate Hab; reflexivity.
  - destruct a, b; try discriminate Hab; reflexivity.
  - destruct a as [| | e1 n1 | | |], b as [| | e2 n2 | | |]; try discriminate Hab; try reflexivity.
    cbn [ty_eqb] in Hab. apply andb_prop in Hab as [He Hn]. apply N.eqb_eq in Hn. subst n2.
    rewrite !has_ty_arr. f_equal.
    induction IH as [|v vr Hv _ IHr]; cbn [forallb]; [reflexivity|]. now rewrite (Hv _ _ He), IHr.
  - destruct a as [| | | xs | n1 |], b as [| | | ys | n2 |]; try discriminate Hab; try reflexivity.
    + rewrite ty_eqb_tup in Hab. rewrite !has_ty_tup. revert xs ys Hab.
      induction IH as [|v vr Hv _ IHr]; intros [|x xr] [|y yr] Hab; cbn [forallb2] in *; try discriminate; try reflexivity.
      apply andb_prop in Hab as [H1 H2]. now rewrite (Hv _ _ H1), (IHr _ _ H2).
    + cbn [ty_eqb] in Hab. apply N.eqb_eq in Hab. now subst.
  - destruct a as [| | | | | n1], b as [| | | | | n2]; try discriminate Hab; try reflexivity.
    cbn [ty_eqb] in Hab. apply N.eqb_eq in Hab. now subst.
Qed.

Lemma has_ty_compat_l P v a b : ty_eqb a b = true -> has_ty P v a = true -> has_ty P v b = true.
Proof. intros H. now rewrite (has_ty_compat P v a b H). Qed.
Lemma has_ty_compat_r P v a b : ty_eqb a b = true -> has_ty P v b = true -> has_ty P v a = true.
Proof. intros H. now rewrite (has_ty_compat P v a b H). Qed.

(* ------------------------------------------------------------ has_ty: inversion *)

Lemma has_ty_bool_inv P v : has_ty P v TBool = true -> exists b, v = VBool b.
Proof. destruct v; try discriminate. eauto. Qed.

Lemma has_ty_int_inv P v s b : has_ty P v (TInt s b) = true -> exists z, v = VInt z.
Proof. destruct v; try discriminate. eauto. Qed.

Lemma has_ty_arr_inv P v el n : has_ty P v (TArr el n) = true ->
  exists vs, v = VArr vs /\ lenN vs = n /\ Forall (fun x => has_ty P x el = true) vs.
Proof.
  destruct v as [| |vs| |]; try discriminate. rewrite has_ty_arr. intro H.
  apply andb_prop in H as [H1 H2]. apply N.eqb_eq in H1. apply forallb_Forall in H2. eauto.
Qed.

Lemma has_ty_tup_inv P v ts : has_ty P v (TTup ts) = true ->
  exists vs, v = VTup vs /\ Forall2 (fun x t => has_ty P x t = true) vs ts.
Proof.
  destruct v as [| | |vs|]; try discriminate. rewrite has_ty_tup. intro H.
  apply forallb2_Forall2 in H. eauto.
Qed.

Lemma has_ty_struct_inv P v name : has_ty P v (TStruct name) = true ->
  exists vs def, v = VTup vs /\ assocN name (p_structs P) = Some def /\
                 Forall2 (fun x t => has_ty P x t = true) vs (map snd def).
Proof.
  destruct v as [| | |vs|]; try discriminate. rewrite has_ty_struct.
  destruct (assocN name (p_structs P)) as [def|]; [|discriminate]. intro H.
  apply forallb2_Forall2 in H. eauto.
Qed.

Lemma has_ty_enum_inv P v name : has_ty P v (TEnum name) = true ->
  exists tag vs variants ts, v = VEnum tag vs /\ assocN name (p_enums P) = Some variants /\
     nthN variants tag = Some ts /\ Forall2 (fun x t => has_ty P x t = true) vs ts.
Proof.
  destruct v as [| | | |tag vs]; try discriminate. rewrite has_ty_enum.
  destruct (assocN name (p_enums P)) as [variants|]; [|discriminate].
  destruct (nthN variants tag) as [ts|] eqn:E; [|discriminate]. intro H.
  apply forallb2_Forall2 in H. exists tag, vs, variants, ts. auto.
Qed.

(* ------------------------------------------------------------ environments *)

Lemma assoc_scope_ok P s gs x t m :
  scope_ok P s gs -> assocN x gs = Some (t, m) -> exists v, assocN x s = Some v /\ has_ty P v t = true.
Proof.
  induction 1 as [|[k v] [k' [t' m']] s gs [Hk Hv] _ IH]; cbn [assocN]; [discriminate|].
  cbn [fst snd] in Hk, Hv. subst k'. destruct (x =? k).
  - intros [= <- <-]. eauto.
  - exact IH.
Qed.

Lemma assoc_scope_none P s gs x : scope_ok P s gs -> assocN x gs = None -> assocN x s = None.
Proof.
  induction 1 as [|[k v] [k' [t' m']] s gs [Hk Hv] _ IH]; cbn [assocN]; [reflexivity|].
  cbn [fst snd] in Hk. subst k'. destruct (x =? k); [discriminate|exact IH].
Qed.

Lemma lookup_ok P ss g x t m :
  env_ok P ss g -> tlookup g x = Some (t, m) ->
  exists v, lookup_scopes ss x = Some v /\ has_ty P v t = true.
Proof.
  induction 1 as [|s gs ss g Hs _ IH]; cbn [tlookup lookup_scopes]; [discriminate|].
  destruct (assocN x gs) as [[t' m']|] eqn:E.
  - intros [= <- <-]. destruct (assoc_scope_ok _ _ _ _ _ _ Hs E) as [v [Hv Ht]]. rewrite Hv. eauto.
  - rewrite (assoc_scope_none _ _ _ _ Hs E). exact IH.
Qed.

Lemma bind_var_ok P en g x v t m :
  env_ok P (scopes en) g -> has_ty P v t = true ->
  env_ok P (scopes (bind_var en x v)) (tbind g x t m).
Proof.
  unfold bind_var, tbind. intros H Hv. remember (scopes en) as ss0 eqn:E0.
  destruct H as [|s gs ss g' Hs Hr]; cbn [scopes].
  - constructor; [|constructor]. constructor; [|constructor]. split; [reflexivity|assumption].
  - constructor; [|assumption]. constructor; [|assumption]. split; [reflexivity|assumption].
Qed.

Lemma bind_var_lenient en x v : lenient (bind_var en x v) = lenient en.
Proof. unfold bind_var. destruct (scopes en); reflexivity. Qed.

Definition binds_ok (P : program) (bs : list (N * value)) (tbs : list (N * ty)) : Prop :=
  Forall2 (fun b tb => fst b = fst tb /\ has_ty P (snd b) (snd tb) = true) bs tbs.

Lemma bind_all_ok P bs tbs m :
  binds_ok P bs tbs -> forall en g,
  env_ok P (scopes en) g -> env_ok P (scopes (bind_all en bs)) (tbind_all g tbs m).
Proof.
  unfold bind_all, tbind_all.
  induction 1 as [|[x v] [y t] bs tbs [Hx Hv] _ IH]; intros en g He; cbn [fold_left]; [assumption|].
  cbn [fst snd] in *. subst y. apply IH. now apply bind_var_ok.
Qed.

Lemma bind_all_lenient bs : forall en, lenient (bind_all en bs) = lenient en.
Proof.
  unfold bind_all. induction bs as [|[x v] bs IH]; intros en; cbn [fold_left]; [reflexivity|].
  rewrite IH. apply bind_var_lenient.
Qed.

Lemma binds_ok_app P a b ta tb : binds_ok P a ta -> binds_ok P b tb -> binds_ok P (a ++ b) (ta ++ tb).
Proof. apply Forall2_app. Qed.

Lemma push_ok P en g : env_ok P (scopes en) g -> env_ok P (scopes (push_scope en)) ([] :: g).
Proof. intro H. cbn [push_scope scopes]. constructor; [constructor|assumption]. Qed.

Lemma pop_ok P ss g : env_ok P ss g -> env_ok P (tl ss) (tl g).
Proof. destruct 1; cbn [tl]; [constructor|assumption]. Qed.

Lemma update_assoc_ok P s gs x v t m :
  scope_ok P s gs -> assocN x gs = Some (t, m) -> has_ty P v t = true ->
  exists s', update_assoc s x v = Some s' /\ scope_ok P s' gs.
Proof.
  induction 1 as [|[k w] [k' [t' m']] s gs [Hk Hw] Hr IH]; cbn [assocN update_assoc]; [discriminate|].
  cbn [fst snd] in Hk, Hw. subst k'. destruct (x =? k) eqn:E.
  - intros [= <- <-] Hv. eexists. split; [reflexivity|]. constructor; [|assumption]. split; [reflexivity|assumption].
  - intros Ha Hv. destruct (IH Ha Hv) as [s' [Hs' Hok]]. rewrite Hs'. eexists. split; [reflexivity|].
    constructor; [|assumption]. split; [reflexivity|assumption].
Qed.

Lemma update_assoc_none_ok P s gs x v : scope_ok P s gs -> assocN x gs = None -> update_assoc s x v = None.
Proof.
  induction 1 as [|[k w] [k' [t' m']] s gs [Hk Hw] Hr IH]; cbn [assocN update_assoc]; [reflexivity|].
  cbn [fst snd] in Hk. subst k'. destruct (x =? k); [discriminate|]. intro Ha. now rewrite (IH Ha).
Qed.

Lemma assign_scopes_ok P ss g x v t m :
  env_ok P ss g -> tlookup g x = Some (t, m) -> has_ty P v t = true ->
  exists ss', assign_scopes ss x v = Some ss' /\ env_ok P ss' g.
Proof.
  induction 1 as [|s gs ss g Hs Hr IH]; cbn [tlookup assign_scopes]; [discriminate|].
  destruct (assocN x gs) as [[t' m']|] eqn:E.
  - intros [= <- <-] Hv. destruct (update_assoc_ok _ _ _ _ _ _ _ Hs E Hv) as [s' [Hu Hok]].
    rewrite Hu. eexists. split; [reflexivity|]. constructor; assumption.
  - intros Hl Hv. rewrite (update_assoc_none_ok _ _ _ _ v Hs E).
    destruct (IH Hl Hv) as [ss' [Ha Hok]]. rewrite Ha. eexists. split; [reflexivity|]. constructor; assumption.
Qed.

Lemma assign_ok P en g x v t m :
  env_ok P (scopes en) g -> tlookup g x = Some (t, m) -> has_ty P v t = true ->
  exists en', assign_var en x v = Some en' /\ env_ok P (scopes en') g.
Proof.
  intros He Hl Hv. unfold assign_var.
  destruct (assign_scopes_ok _ _ _ _ _ _ _ He Hl Hv) as [ss' [Ha Hok]]. rewrite Ha.
  eexists. split; [reflexivity|]. exact Hok.
Qed.

(* shape of the checker's contexts *)
Lemma tbind_all_cons s r bs m :
  tbind_all (s :: r) bs m = (rev (map (fun b => (fst b, (snd b, m))) bs) ++ s) :: r.
Proof.
  unfold tbind_all. revert s. induction bs as [|[x t] bs IH]; intros s; cbn [fold_left map rev fst snd]; [reflexivity|].
  unfold tbind at 2. rewrite IH. now rewrite <- app_assoc.
Qed.

Definition gscope (P : program) : list (N * (ty * bool)) :=
  rev (map (fun b : N * ty => (fst b, (snd b, false))) (map (fun c => (fst c, e_ty (snd c))) (p_consts P))).

Lemma consts_tenv_one P : consts_tenv P = [gscope P].
Proof. unfold consts_tenv, gscope. rewrite tbind_all_cons. now rewrite app_nil_r. Qed.

(* contexts in which function bodies are checked: at least two scopes, the outermost one
   is the scope of the global constants *)
Definition genv (P : program) (g : tenv) : Prop := exists s gl, g = s :: gl ++ [gscope P].

Lemma genv_push P g : genv P g -> genv P ([] :: g).
Proof. intros [s [gl ->]]. exists [], (s :: gl). reflexivity. Qed.

Lemma genv_tbind P g x t m : genv P g -> genv P (tbind g x t m) /\ tl (tbind g x t m) = tl g.
Proof. intros [s [gl ->]]. unfold tbind. split; [|reflexivity]. eexists _, gl. reflexivity. Qed.

Lemma genv_tbind_all P bs m : forall g, genv P g -> genv P (tbind_all g bs m) /\ tl (tbind_all g bs m) = tl g.
Proof.
  intros g [s [gl ->]]. rewrite tbind_all_cons. split; [|reflexivity]. eexists _, gl. reflexivity.
Qed.

Lemma env_ok_last P ss g : env_ok P ss g -> scope_ok P (last ss []) (last g []).
Proof.
  induction 1 as [|s gs ss g Hs Hr IH]; [constructor|].
  destruct Hr as [|s2 gs2 ss2 g2 H2 Hr2]; [exact Hs|exact IH].
Qed.

Lemma genv_last P g : genv P g -> last g [] = gscope P.
Proof.
  intros [s [gl ->]]. change (s :: gl ++ [gscope P]) with ((s :: gl) ++ [gscope P]). apply last_last.
Qed.

(* ------------------------------------------------------------ patterns *)

Definition pat_sub (Q : pattern -> Prop) (pi : pat_inner) : Prop :=
  match pi with
  | PTup ps => Forall Q ps
  | PStruct _ _ fs => Forall (fun fp => Q (snd fp)) fs
  | PEnumTup _ _ ps => Forall Q ps
  | _ => True
  end.

Section PatInd.
  Variable Q : pattern -> Prop.
  Hypothesis HP : forall pi m t, pat_sub Q pi -> Q (Pat pi m t).
  Fixpoint pattern_ind2 (p : pattern) : Q p :=
    match p with
    | Pat pi m t =>
        HP pi m t
          (match pi return pat_sub Q pi with
           | PTup ps =>
               (fix go (l : list pattern) : Forall Q l :=
                  match l with [] => Forall_nil Q | x :: r => Forall_cons x (pattern_ind2 x) (go r) end) ps
           | PStruct _ _ fs =>
               (fix go (l : list (N * pattern)) : Forall (fun fp => Q (snd fp)) l :=
                  match l with
                  | [] => Forall_nil _
                  | (f, x) :: r => Forall_cons (f, x) (pattern_ind2 x) (go r)
                  end) fs
           | PEnumTup _ _ ps =>
               (fix go (l : list pattern) : Forall Q l :=
                  match l with [] => Forall_nil Q | x :: r => Forall_cons x (pattern_ind2 x) (go r) end) ps
           | _ => I
           end)
    end.
End PatInd.

Section PatAux.
Variable P : program.
Fixpoint wt_pats (ps : list pattern) (ts : list ty) : option (list (N * ty)) :=
  match ps, ts with
  | [], [] => Some []
  | p :: pr, t :: tr =>
      if negb (ty_eqb (p_ty p) t) then None else
      match wt_pat P p, wt_pats pr tr with
      | Some a, Some b => Some (a ++ b)
      | _, _ => None
      end
  | _, _ => None
  end.

Section Def.
Variable def : list (N * ty).
Fixpoint wt_fpats (fs : list (N * pattern)) : option (list (N * ty)) :=
  match fs with
  | [] => Some []
  | (f, fp) :: r =>
      match assocN f def with
      | Some ft =>
          if negb (ty_eqb (p_ty fp) ft) then None else
          match wt_pat P fp, wt_fpats r with
          | Some a, Some b => Some (a ++ b)
          | _, _ => None
          end
      | None => None
      end
  end.

End Def.
End PatAux.

Lemma wt_pat_eq P pi m t :
  wt_pat P (Pat pi m t) =
  match pi with
  | PId x => Some [(x, t)]
  | PTrue | PFalse => if is_bool t then Some [] else None
  | PNumU n => if lit_fits t (Z.of_N n) then Some [] else None
  | PNumS z => if lit_fits t z then Some [] else None
  | PURange lo hi => if lit_fits t (Z.of_N lo) && lit_fits t (Z.of_N hi) then Some [] else None
  | PSRange lo hi => if lit_fits t lo && lit_fits t hi then Some [] else None
  | PTup ps => match t with TTup ts => wt_pats P ps ts | _ => None end
  | PStruct name _ fields =>
      match t, assocN name (p_structs P) with
      | TStruct n2, Some def => if negb (name =? n2) then None else wt_fpats P def fields
      | _, _ => None
      end
  | PEnumUnit en v =>
      match t, assocN en (p_enums P) with
      | TEnum n2, Some variants =>
          if negb (en =? n2) then None else
          match nthN variants v with Some [] => Some [] | _ => None end
      | _, _ => None
      end
  | PEnumTup en v ps =>
      match t, assocN en (p_enums P) with
      | TEnum n2, Some variants =>
          if negb (en =? n2) then None else
          match nthN variants v with Some ts => wt_pats P ps ts | None => None end
      | _, _ => None
      end
  end.
Proof. destruct pi; reflexivity. Qed.

Section PmAux.
Variable P : program.
Fixpoint pmatch_list (ps : list pattern) (vs : list value) : option (list (N * value)) :=
  match ps, vs with
  | [], [] => Some []
  | p :: pr, v :: vr =>
      match pmatch P p v, pmatch_list pr vr with
      | Some a, Some b => Some (a ++ b)
      | _, _ => None
      end
  | _, _ => None
  end.

Section Def.
Variable def : list (N * ty).
Variable vs : list value.
Fixpoint pmatch_fields (fs : list (N * pattern))
  : option (list (N * value)) :=
  match fs with
  | [] => Some []
  | (fname, fp) :: r =>
      match index_of fname (map fst def) 0%N with
      | Some k =>
          match nthN vs k with
          | Some fv =>
              match pmatch P fp fv, pmatch_fields r with
              | Some a, Some b => Some (a ++ b)
              | _, _ => None
              end
          | None => None
          end
      | None => None
      end
  end.

End Def.
End PmAux.

Lemma pmatch_eq P pi m t v :
  pmatch P (Pat pi m t) v =
  match pi, v with
  | PId x, _ => Some [(x, v)]
  | PTrue, VBool b => if b then Some [] else None
  | PFalse, VBool b => if b then None else Some []
  | PNumU n, VInt z => if (z =? Z.of_N n)%Z then Some [] else None
  | PNumS n, VInt z => if (z =? n)%Z then Some [] else None
  | PURange lo hi, VInt z => if ((Z.of_N lo <=? z) && (z <=? Z.of_N hi))%Z then Some [] else None
  | PSRange lo hi, VInt z => if ((lo <=? z) && (z <=? hi))%Z then Some [] else None
  | PTup ps, VTup vs => pmatch_list P ps vs
  | PStruct name _ fields, VTup vs =>
      match assocN name (p_structs P) with
      | Some def => pmatch_fields P def vs fields
      | None => None
      end
  | PEnumUnit _ variant, VEnum tag _ => if (tag =? variant)%N then Some [] else None
  | PEnumTup _ variant ps, VEnum tag vs => if (tag =? variant)%N then pmatch_list P ps vs else None
  | _, _ => None
  end.
Proof. destruct pi, v; reflexivity. Qed.

Lemma assoc_index {A} (def : list (N * A)) f ft : forall i,
  assocN f def = Some ft ->
  exists k, index_of f (map fst def) i = Some (i + k) /\ nthN (map snd def) k = Some ft.
Proof.
  induction def as [|[k0 a] def IH]; intros i; cbn [assocN map index_of fst snd]; [discriminate|].
  destruct (f =? k0).
  - intros [= <-]. exists 0. rewrite N.add_0_r. split; reflexivity.
  - intro H. destruct (IH (i + 1) H) as [k [H1 H2]]. exists (k + 1). split.
    + rewrite H1. f_equal. lia.
    + rewrite nthN_spec in *. replace (N.to_nat (k + 1)) with (S (N.to_nat k)) by lia. exact H2.
Qed.

Local Notation HT P := (fun x t => has_ty P x t = true).

Definition pat_sound (P : program) (p : pattern) : Prop :=
  forall v tbs, wt_pat P p = Some tbs -> has_ty P v (p_ty p) = true ->
    (forall bs, pmatch P p v = Some bs -> binds_ok P bs tbs) /\
    (irrefutable p = true -> exists bs, pmatch P p v = Some bs).

Lemma pats_sound P ps : Forall (pat_sound P) ps ->
  forall ts vs tbs, wt_pats P ps ts = Some tbs -> Forall2 (HT P) vs ts ->
    (forall bs, pmatch_list P ps vs = Some bs -> binds_ok P bs tbs) /\
    (forallb irrefutable ps = true -> exists bs, pmatch_list P ps vs = Some bs).
Proof.
  induction 1 as [|p pr Hp _ IH]; intros ts vs tbs Hw Hv.
  - destruct ts; [|discriminate]. inversion Hv; subst. cbn in Hw. injection Hw as <-. split.
    + intros bs [= <-]. constructor.
    + intros _. eexists. reflexivity.
  - destruct ts as [|t tr]; [discriminate|]. inversion Hv as [|v t' vr tr' Hv1 Hvr]; subst.
    cbn [wt_pats] in Hw. destruct (ty_eqb (p_ty p) t) eqn:Et; [|discriminate]. cbn [negb] in Hw.
    destruct (wt_pat P p) as [a|] eqn:Ea; [|discriminate].
    destruct (wt_pats P pr tr) as [b|] eqn:Eb; [|discriminate]. injection Hw as <-.
    assert (Hvp : has_ty P v (p_ty p) = true) by (eapply has_ty_compat_r; eassumption).
    destruct (Hp v a Ea Hvp) as [Hp1 Hp2]. destruct (IH tr vr b Eb Hvr) as [I1 I2].
    cbn [pmatch_list forallb]. split.
    + intros bs. destruct (pmatch P p v) as [a'|]; [|discriminate].
      destruct (pmatch_list P pr vr) as [b'|]; [|discriminate]. intros [= <-].
      apply binds_ok_app; auto.
    + intro Hi. apply andb_prop in Hi as [Hi1 Hi2].
      destruct (Hp2 Hi1) as [a' ->]. destruct (I2 Hi2) as [b' ->]. eauto.
Qed.

Lemma irrefutable_eq pi m t :
  irrefutable (Pat pi m t) =
  match pi with
  | PId _ => true
  | PTup ps => forallb irrefutable ps
  | PStruct _ _ fields => forallb (fun fp => irrefutable (snd fp)) fields
  | _ => false
  end.
Proof.
  destruct pi as [x| | |n|z|ps|name ir fields|en var|en var ps|lo hi|lo hi]; try reflexivity.
  cbn [irrefutable]. induction fields as [|[f p] r IH]; cbn [forallb snd]; [reflexivity|]. now rewrite <- IH.
Qed.

Lemma fpats_sound P def vs fs : Forall (fun fp => pat_sound P (snd fp)) fs ->
  Forall2 (HT P) vs (map snd def) ->
  forall tbs, wt_fpats P def fs = Some tbs ->
    (forall bs, pmatch_fields P def vs fs = Some bs -> binds_ok P bs tbs) /\
    (forallb (fun fp => irrefutable (snd fp)) fs = true -> exists bs, pmatch_fields P def vs fs = Some bs).
Proof.
  intros HF Hv. induction HF as [|[f p] r Hp _ IH]; intros tbs Hw.
  - cbn in Hw. injection Hw as <-. split.
    + intros bs [= <-]. constructor.
    + intros _. eexists. reflexivity.
  - cbn [wt_fpats] in Hw. destruct (assocN f def) as [ft|] eqn:Ef; [|discriminate].
    cbn [snd] in Hp.
    destruct (ty_eqb (p_ty p) ft) eqn:Et; [|discriminate]. cbn [negb] in Hw.
    destruct (wt_pat P p) as [a|] eqn:Ea; [|discriminate].
    destruct (wt_fpats P def r) as [b|] eqn:Eb; [|discriminate]. injection Hw as <-.
    destruct (assoc_index def f ft 0 Ef) as [k [Hk1 Hk2]]. rewrite N.add_0_l in Hk1.
    destruct (Forall2_nthN _ _ _ _ _ Hv Hk2) as [fv [Hfv Hft]].
    assert (Hvp : has_ty P fv (p_ty p) = true) by (eapply has_ty_compat_r; eassumption).
    destruct (Hp fv a Ea Hvp) as [Hp1 Hp2]. destruct (IH b eq_refl) as [I1 I2].
    cbn [pmatch_fields forallb snd]. rewrite Hk1, Hfv. split.
    + intros bs. destruct (pmatch P p fv) as [a'|]; [|discriminate].
      destruct (pmatch_fields P def vs r) as [b'|]; [|discriminate]. intros [= <-].
      apply binds_ok_app; auto.
    + intro Hi. apply andb_prop in Hi as [Hi1 Hi2].
      destruct (Hp2 Hi1) as [a' ->]. destruct (I2 Hi2) as [b' ->]. eauto.
Qed.

Lemma pmatch_sound P p : pat_sound P p.
Proof.
  induction p as [pi m t IH] using pattern_ind2. intros v tbs Hw Hv. cbn [p_ty] in Hv.
  rewrite wt_pat_eq in Hw. rewrite pmatch_eq, irrefutable_eq.
  destruct pi as [x| | |n|z|ps|name ir fields|en var|en var ps|lo hi|lo hi]; cbn [pat_sub] in IH.
  - injection Hw as <-. split.
    + intros bs [= <-]. constructor; [|constructor]. split; [reflexivity|exact Hv].
    + eauto.
  - split; [|discriminate]. destruct (is_bool t); [|discriminate]. injection Hw as <-.
    intros bs Hb. destruct v as [[|]| | | |]; try discriminate. injection Hb as <-. constructor.
  - split; [|discriminate]. destruct (is_bool t); [|discriminate]. injection Hw as <-.
    intros bs Hb. destruct v as [[|]| | | |]; try discriminate. injection Hb as <-. constructor.
  - split; [|discriminate]. destruct (lit_fits t (Z.of_N n)); [|discriminate]. injection Hw as <-.
    intros bs Hb. destruct v; try discriminate. destruct (_ =? _)%Z; [|discriminate]. injection Hb as <-. constructor.
  - split; [|discriminate]. destruct (lit_fits t z); [|discriminate]. injection Hw as <-.
    intros bs Hb. destruct v; try discriminate. destruct (_ =? _)%Z; [|discriminate]. injection Hb as <-. constructor.
  - destruct t as [| | |ts| |]; try discriminate.
    destruct (has_ty_tup_inv _ _ _ Hv) as [vs [-> Hvs]].
    exact (pats_sound P ps IH ts vs tbs Hw Hvs).
  - destruct t as [| | | |n2|]; try discriminate.
    destruct (assocN name (p_structs P)) as [def|] eqn:Ed; [|discriminate].
    destruct (name =? n2) eqn:En; [|discriminate]. cbn [negb] in Hw. apply N.eqb_eq in En. subst n2.
    destruct (has_ty_struct_inv _ _ _ Hv) as [vs [def' [-> [Ed' Hvs]]]].
    rewrite Ed in Ed'. injection Ed' as <-.
    exact (fpats_sound P def vs fields IH Hvs tbs Hw).
  - split; [|discriminate]. destruct t as [| | | | |n2]; try discriminate.
    destruct (assocN en (p_enums P)) as [variants|]; [|discriminate].
    destruct (negb (en =? n2)); [discriminate|].
    destruct (nthN variants var) as [[|]|]; try discriminate. injection Hw as <-.
    intros bs Hb. destruct v; try discriminate. destruct (_ =? _); [|discriminate]. injection Hb as <-. constructor.
  - split; [|discriminate]. destruct t as [| | | | |n2]; try discriminate.
    destruct (assocN en (p_enums P)) as [variants|] eqn:Ee; [|discriminate].
    destruct (en =? n2) eqn:En; [|discriminate]. cbn [negb] in Hw. apply N.eqb_eq in En. subst n2.
    destruct (nthN variants var) as [ts|] eqn:Ev; [|discriminate].
    destruct (has_ty_enum_inv _ _ _ Hv) as [tag [vs [variants' [ts' [-> [Ee' [Etag Hvs]]]]]]].
    rewrite Ee in Ee'. injection Ee' as <-.
    intros bs Hb. destruct (tag =? var) eqn:Et; [|discriminate]. apply N.eqb_eq in Et. subst tag.
    rewrite Ev in Etag. injection Etag as <-.
    exact (proj1 (pats_sound P ps IH ts vs tbs Hw Hvs) bs Hb).
  - split; [|discriminate]. destruct (_ && _); [|discriminate]. injection Hw as <-.
    intros bs Hb. destruct v; try discriminate. destruct (_ && _)%Z; [|discriminate]. injection Hb as <-. constructor.
  - split; [|discriminate]. destruct (_ && _); [|discriminate]. injection Hw as <-.
    intros bs Hb. destruct v; try discriminate. destruct (_ && _)%Z; [|discriminate]. injection Hb as <-. constructor.
Qed.

(* ------------------------------------------------------------ the interpreter, unfolded *)

Section EvAux.
  Variable P : program.
  Variable ev : env -> expr -> outcome (value * env).
  Variable xb : env -> list stmt -> outcome (value * env).
  Variable ex : env -> stmt -> outcome (value * env).

  Fixpoint ev_list (es : list expr) (en : env) : outcome (list value * env) :=
    match es with
    | [] => Done ([], en)
    | e :: r =>
        do (v, en1) <- ev en e;
        do (vs, en2) <- ev_list r en1;
        Done (v :: vs, en2)
    end.

  Section Fields.
    Variable fields : list (N * expr).
    Fixpoint ev_fields (ds : list (N * ty)) (en : env) : outcome (list value * env) :=
      match ds with
      | [] => Done ([], en)
      | (fname, _) :: r =>
          match assocN fname fields with
          | Some fe =>
              do (v, en1) <- ev en fe;
              do (vs, en2) <- ev_fields r en1;
              Done (v :: vs, en2)
          | None => Stuck 39
          end
      end.
  End Fields.

  Section Arms.
    Variable v : value.
    Variable en : env.
    Fixpoint ev_arms (arms : list (pattern * expr)) : outcome (value * env) :=
      match arms with
      | [] => Stuck 41
      | (p, body) :: r =>
          match pmatch P p v with
          | Some bs =>
              do (res, en1) <- ev (bind_all (push_scope en) bs) body;
              Done (res, pop_scope en1)
          | None => ev_arms r
          end
      end.
  End Arms.

  Fixpoint xb_go (ss : list stmt) (last : value) (en : env) : outcome (value * env) :=
    match ss with
    | [] => Done (last, en)
    | s :: r => do (v, en1) <- ex en s; xb_go r v en1
    end.

  Section Accs.
    Variable m : meta.
    Fixpoint x_accs (accs : list accessor) (cur : value) (en : env) (path_rev : list rstep)
      : outcome (list rstep * env) :=
      match accs with
      | [] => Done (rev path_rev, en)
      | AIdx _ ie :: r =>
          do (vi, en1) <- ev en ie;
          match cur, vi with
          | VArr vs, VInt z =>
              if ((0 <=? z) && (z <? Z.of_nat (length vs)))%Z then
                match nth_error vs (Z.to_nat z) with
                | Some sub => x_accs r sub en1 (RIdx (Z.to_N z) :: path_rev)
                | None => Stuck 62
                end
              else Panicked ROutOfBounds m
          | _, _ => Stuck 63
          end
      | ATup _ i :: r =>
          match cur with
          | VTup vs => match nthN vs i with
                       | Some sub => x_accs r sub en (RPos i :: path_rev)
                       | None => Stuck 64 end
          | _ => Stuck 65
          end
      | AFld sty fld :: r =>
          match sty, cur with
          | TStruct name, VTup vs =>
              match assocN name (p_structs P) with
              | Some def =>
                  match index_of fld (map fst def) 0%N with
                  | Some k => match nthN vs k with
                              | Some sub => x_accs r sub en (RPos k :: path_rev)
                              | None => Stuck 66 end
                  | None => Stuck 67
                  end
              | None => Stuck 68
              end
          | _, _ => Stuck 69
          end
      end.
  End Accs.

  Section For.
    Variable p : pattern.
    Variable body : list stmt.
    Fixpoint x_for (vs : list value) (en : env) : outcome env :=
      match vs with
      | [] => Done en
      | v :: r =>
          match pmatch P p v with
          | Some bs =>
              do (_, en1) <- xb (bind_all (push_scope en) bs) body;
              x_for r (pop_scope en1)
          | None => Stuck 73
          end
      end.

    Variable join_ty ta tb : ty.
    Variable ys : list value.
    Fixpoint x_join (xs : list value) (en : env) : outcome env :=
      match xs with
      | [] => Done en
      | x :: r =>
          match join_key P join_ty ta x with
          | None => Stuck 75
          | Some kx =>
              let partner := find (fun y =>
                match join_key P join_ty tb y with
                | Some ky => bits_eqb kx ky | None => false end) ys in
              match partner with
              | None => x_join r en
              | Some y =>
                  match pmatch P p (VTup [x; y]) with
                  | Some bs =>
                      do (_, en1) <- xb (bind_all (push_scope en) bs) body;
                      x_join r (pop_scope en1)
                  | None => Stuck 76
                  end
              end
          end
      end.
  End For.
End EvAux.

Lemma eval_eq n P env0 ei m t :
  eval (S n) P env0 (Ex ei m t) =
  let ev := eval n P in
  match ei with
  | ETrue => Done (VBool true, env0)
  | EFalse => Done (VBool false, env0)
  | ENumU k _ => Done (VInt (Z.of_N k), env0)
  | ENumS z _ => Done (VInt z, env0)
  | EId x => match lookup_var env0 x with Some v => Done (v, env0) | None => Stuck 30 end
  | EArrLit es => do (vs, en) <- ev_list ev es env0; Done (VArr vs, en)
  | EArrRep e1 k => do (v, en) <- ev env0 e1; Done (VArr (repeat v (N.to_nat k)), en)
  | EIdx a i =>
      do (va, en1) <- ev env0 a;
      do (vi, en2) <- ev en1 i;
      match va, vi with
      | VArr vs, VInt z =>
          if ((0 <=? z) && (z <? Z.of_nat (length vs)))%Z then
            match nth_error vs (Z.to_nat z) with
            | Some v => Done (v, en2)
            | None => Stuck 31
            end
          else Panicked ROutOfBounds m
      | _, _ => Stuck 32
      end
  | ETupLit es => do (vs, en) <- ev_list ev es env0; Done (VTup vs, en)
  | ETupAcc e1 i =>
      do (v, en) <- ev env0 e1;
      match v with
      | VTup vs => match nthN vs i with Some x => Done (x, en) | None => Stuck 33 end
      | _ => Stuck 34
      end
  | EFld e1 fld =>
      do (v, en) <- ev env0 e1;
      match e_ty e1, v with
      | TStruct name, VTup vs =>
          match assocN name (p_structs P) with
          | Some def =>
              match index_of fld (map fst def) 0%N with
              | Some k => match nthN vs k with Some x => Done (x, en) | None => Stuck 35 end
              | None => Stuck 36
              end
          | None => Stuck 37
          end
      | _, _ => Stuck 38
      end
  | EStructLit name fields =>
      match assocN name (p_structs P) with
      | Some def => do (vs, en) <- ev_fields ev fields def env0; Done (VTup vs, en)
      | None => Stuck 40
      end
  | EEnumLit _ variant args => do (vs, en) <- ev_list ev args env0; Done (VEnum variant vs, en)
  | EMatch scrut arms => do (v, en) <- ev env0 scrut; ev_arms P ev v en arms
  | ENeg e1 =>
      do (v, en) <- ev env0 e1;
      match v, int_ty t with
      | VInt z, Some (sg, bits) => do r <- checked sg bits m (- z); Done (r, en)
      | _, _ => Stuck 42
      end
  | ENot e1 =>
      do (v, en) <- ev env0 e1;
      match v, t with
      | VBool b, _ => Done (VBool (negb b), en)
      | VInt z, TInt sg bits => Done (VInt (wrap sg bits (Z.lnot z)), en)
      | _, _ => Stuck 43
      end
  | EOp OLAnd x y =>
      do (vx, en1) <- ev env0 x;
      match vx with
      | VBool false => Done (VBool false, en1)
      | VBool true => ev en1 y
      | _ => Stuck 44
      end
  | EOp OLOr x y =>
      do (vx, en1) <- ev env0 x;
      match vx with
      | VBool true => Done (VBool true, en1)
      | VBool false => ev en1 y
      | _ => Stuck 45
      end
  | EOp o x y =>
      do (vx, en1) <- ev env0 x;
      do (vy, en2) <- ev en1 y;
      let rt := match o with OShl | OShr => e_ty x | _ => t end in
      do (v, len) <- eval_binop o m rt (e_ty x) vx vy (lenient en2);
      Done (v, mkEnv (scopes en2) len)
  | EBlock b => do (v, en) <- exec_block n P (push_scope env0) b; Done (v, pop_scope en)
  | ECall fn args =>
      match find_fn P fn with
      | Some d =>
          do (vs, en) <- ev_list ev args env0;
          if negb (length vs =? length (fn_params d))%nat then Stuck 46 else
          let en1 := bind_all (mkEnv [[]; last (scopes en) []] (lenient en))
                              (combine (map fst (fn_params d)) vs) in
          do (v, en2) <- exec_block n P (push_scope en1) (fn_body d);
          Done (v, mkEnv (scopes en) (lenient en2))
      | None => Stuck 47
      end
  | EJoin _ _ _ _ => Stuck 48
  | EIf c a b =>
      do (vc, en) <- ev env0 c;
      match vc with
      | VBool true => ev en a
      | VBool false => ev en b
      | _ => Stuck 49
      end
  | ECast to e1 => do (v, en) <- ev env0 e1; do r <- eval_cast to (e_ty e1) v; Done (r, en)
  | ERange lo hi _ =>
      Done (VArr (map (fun k => VInt (Z.of_N lo + Z.of_nat k)) (seq 0 (N.to_nat (hi - lo)))), env0)
  end.
Proof. destruct ei; reflexivity. Qed.

Lemma exec_block_eq n P env0 b :
  exec_block (S n) P env0 b = xb_go (exec n P) b unit_val env0.
Proof. reflexivity. Qed.

Lemma exec_eq n P env0 si m :
  exec (S n) P env0 (St si m) =
  let ev := eval n P in
  let xb := exec_block n P in
  match si with
  | SLet p e =>
      do (v, en) <- ev env0 e;
      match pmatch P p v with
      | Some bs => Done (unit_val, bind_all en bs)
      | None => Stuck 60
      end
  | SLetMut x e => do (v, en) <- ev env0 e; Done (unit_val, bind_var en x v)
  | SAssign x accs e =>
      do (nv, en0) <- ev env0 e;
      match lookup_var en0 x with
      | None => Stuck 61
      | Some cur =>
          do (path, en2) <- x_accs P ev m accs cur en0 [];
          match lookup_var en2 x with
          | Some cur2 =>
              match write_path cur2 path nv with
              | Some whole =>
                  match assign_var en2 x whole with
                  | Some en3 => Done (unit_val, en3)
                  | None => Stuck 70
                  end
              | None => Stuck 71
              end
          | None => Stuck 72
          end
      end
  | SFor p arr body =>
      do (va, en) <- ev env0 arr;
      match va with
      | VArr vs => do en2 <- x_for P xb p body vs en; Done (unit_val, en2)
      | _ => Stuck 74
      end
  | SJoinLoop p join_ty a b body =>
      do (va, en1) <- ev env0 a;
      do (vb, en2) <- ev en1 b;
      match va, vb, elem_ty_of (e_ty a), elem_ty_of (e_ty b) with
      | VArr xs, VArr ys, Some ta, Some tb =>
          do en3 <- x_join P xb p body join_ty ta tb ys xs en2; Done (unit_val, en3)
      | _, _, _, _ => Stuck 77
      end
  | SExpr e => ev env0 e
  end.
Proof. destruct si; reflexivity. Qed.

(* ------------------------------------------------------------ the checker, unfolded *)

Section WtAux.
  Variable P : program.
  Variable ws : tenv -> stmt -> option (tenv * ty).
  Variable we : tenv -> expr -> bool.
  Fixpoint wt_go (ss : list stmt) (g : tenv) (last : ty) : option ty :=
    match ss with
    | [] => Some last
    | s :: r =>
        match ws g s with
        | Some (g', t) => wt_go r g' t
        | None => None
        end
    end.
  Section Accs.
    Variable g : tenv.
    Fixpoint wt_accs (accs : list accessor) (cur : ty) : option ty :=
      match accs with
      | [] => Some cur
      | AIdx aty i :: r =>
          match cur with
          | TArr el _ =>
              if ty_eqb aty cur && is_unsigned (e_ty i) && we g i then wt_accs r el else None
          | _ => None
          end
      | ATup tty i :: r =>
          match cur with
          | TTup ts =>
              if ty_eqb tty cur then
                match nthN ts i with Some ti => wt_accs r ti | None => None end
              else None
          | _ => None
          end
      | AFld sty fld :: r =>
          match cur with
          | TStruct name =>
              if ty_eqb sty cur then
                match assocN name (p_structs P) with
                | Some def => match assocN fld def with Some ft => wt_accs r ft | None => None end
                | None => None
                end
              else None
          | _ => None
          end
      end.
  End Accs.
End WtAux.

Lemma wt_block_eq f P g b : wt_block (S f) P g b = wt_go (wt_stmt f P) b g unit_ty.
Proof. reflexivity. Qed.

Lemma wt_stmt_eq f P g si m :
  wt_stmt (S f) P g (St si m) =
  match si with
  | SLet p e =>
      if wt_expr f P g e && ty_eqb (p_ty p) (e_ty e) then
        match wt_pat P p with
        | Some bs => Some (tbind_all g bs false, unit_ty)
        | None => None
        end
      else None
  | SLetMut x e => if wt_expr f P g e then Some (tbind g x (e_ty e) true, unit_ty) else None
  | SAssign x accs e =>
      match tlookup g x with
      | Some (tx, true) =>
          match wt_accs P (wt_expr f P) g accs tx with
          | Some tf => if ty_eqb tf (e_ty e) && wt_expr f P g e then Some (g, unit_ty) else None
          | None => None
          end
      | _ => None
      end
  | SFor p arr body =>
      match e_ty arr with
      | TArr el _ =>
          if wt_expr f P g arr && ty_eqb (p_ty p) el then
            match wt_pat P p with
            | Some bs =>
                match wt_block f P (tbind_all ([] :: g) bs false) body with
                | Some _ => Some (g, unit_ty)
                | None => None
                end
            | None => None
            end
          else None
      | _ => None
      end
  | SJoinLoop p _ a b body =>
      match e_ty a, e_ty b with
      | TArr ta _, TArr tb _ =>
          if wt_expr f P g a && wt_expr f P g b && ty_eqb (p_ty p) (TTup [ta; tb]) then
            match wt_pat P p with
            | Some bs =>
                match wt_block f P (tbind_all ([] :: g) bs false) body with
                | Some _ => Some (g, unit_ty)
                | None => None
                end
            | None => None
            end
          else None
      | _, _ => None
      end
  | SExpr e => if wt_expr f P g e then Some (g, e_ty e) else None
  end.
Proof. destruct si; reflexivity. Qed.

(* a statement only extends the innermost scope of the context *)
Lemma wt_stmt_genv P fw g s g' t :
  wt_stmt fw P g s = Some (g', t) -> genv P g -> genv P g' /\ tl g' = tl g.
Proof.
  destruct fw as [|f]; [discriminate|]. destruct s as [si m]. rewrite wt_stmt_eq. intros H Hg.
  destruct si as [p e|x e|x accs e|p arr body|p jt a b body|e].
  - destruct (_ && _); [|discriminate]. destruct (wt_pat P p); [|discriminate].
    injection H as <- <-. now apply genv_tbind_all.
  - destruct (wt_expr f P g e); [|discriminate]. injection H as <- <-. now apply genv_tbind.
  - destruct (tlookup g x) as [[tx [|]]|]; try discriminate.
    destruct (wt_accs _ _ _ _ _); [|discriminate]. destruct (_ && _); [|discriminate].
    injection H as <- <-. auto.
  - destruct (e_ty arr); try discriminate. destruct (_ && _); [|discriminate].
    destruct (wt_pat P p); [|discriminate]. destruct (wt_block _ _ _ _); [|discriminate].
    injection H as <- <-. auto.
  - destruct (e_ty a); try discriminate. destruct (e_ty b); try discriminate.
    destruct (_ && _); [|discriminate].
    destruct (wt_pat P p); [|discriminate]. destruct (wt_block _ _ _ _); [|discriminate].
    injection H as <- <-. auto.
  - destruct (wt_expr f P g e); [|discriminate]. injection H as <- <-. auto.
Qed.

Lemma binop_eq_dec_land (o : binop) : {o = OLAnd} + {o = OLOr} + {o <> OLAnd /\ o <> OLOr}.
Proof. destruct o; try (right; split; discriminate); [left; left|left; right]; reflexivity. Qed.

Lemma wt_fn_inv P gc d : wt_fn P gc d = true ->
  exists tb, wt_block wt_fuel P ([] :: tbind_all ([] :: gc) (fn_params d) true) (fn_body d) = Some tb /\
             ty_eqb tb (fn_ret d) = true.
Proof.
  unfold wt_fn. generalize wt_fuel. intros k H.
  destruct (wt_block k P _ (fn_body d)) as [tb|]; [|discriminate H]. eauto.
Qed.

Lemma wt_fuel_S : wt_fuel = S (pred wt_fuel).
Proof. reflexivity. Qed.

Global Opaque wt_fuel.

(* ------------------------------------------------------------ soundness *)

Section Sound.
  Variable P : program.
  Variable strict : bool.
  Hypothesis Hfns : forall d, In d (p_fns P) -> wt_fn P (consts_tenv P) d = true.
  Hypothesis Hfrag : strict = true -> forall d, In d (p_fns P) -> frag_block wt_fuel (fn_body d) = true.

  Definition SA (c : N) : Prop := In c stuck_allowed /\ strict = false.
  Definition res {A} (Q : A -> Prop) (o : outcome A) : Prop :=
    match o with Done a => Q a | Stuck c => SA c | _ => True end.

  Lemma res_bind {A B} (o : outcome A) (k : A -> outcome B) (Q : A -> Prop) (R : B -> Prop) :
    res Q o -> (forall a, Q a -> res R (k a)) -> res R (obind o k).
  Proof. destruct o; cbn [res obind]; auto. Qed.

  Lemma res_weaken {A} (Q Q' : A -> Prop) (o : outcome A) :
    res Q o -> (forall a, Q a -> Q' a) -> res Q' o.
  Proof. destruct o; cbn [res]; auto. Qed.

  Local Notation HT := (fun x t => has_ty P x t = true).

  Definition QE (g : tenv) (t : ty) (r : value * env) : Prop :=
    has_ty P (fst r) t = true /\ env_ok P (scopes (snd r)) g.

  Definition WTe (fw : nat) (g : tenv) (e : expr) : Prop :=
    wt_expr fw P g e = true /\ (strict = true -> frag_expr fw e = true).
  Definition WTb (fw : nat) (g : tenv) (b : list stmt) (t : ty) : Prop :=
    wt_block fw P g b = Some t /\ (strict = true -> frag_block fw b = true).
  Definition WTs (fw : nat) (g : tenv) (s : stmt) (g' : tenv) (t : ty) : Prop :=
    wt_stmt fw P g s = Some (g', t) /\ (strict = true -> frag_stmt fw s = true).

  Definition Pe (n : nat) : Prop := forall fw g e en,
    WTe fw g e -> genv P g -> env_ok P (scopes en) g -> res (QE g (e_ty e)) (eval n P en e).
  Definition Pb (n : nat) : Prop := forall fw g b en t,
    WTb fw g b t -> genv P g -> env_ok P (scopes en) g ->
    res (fun r => has_ty P (fst r) t = true /\ env_ok P (tl (scopes (snd r))) (tl g))
        (exec_block n P en b).
  Definition Ps (n : nat) : Prop := forall fw g s en g' t,
    WTs fw g s g' t -> genv P g -> env_ok P (scopes en) g -> res (QE g' t) (exec n P en s).

  (* compatibility helpers *)
  Lemma compat_int v tx s b : ty_eqb tx (TInt s b) = true -> has_ty P v tx = true -> exists z, v = VInt z.
  Proof. intros H Hv. rewrite (has_ty_compat P v _ _ H) in Hv. eapply has_ty_int_inv; eassumption. Qed.
  Lemma compat_int' v tx s b : ty_eqb (TInt s b) tx = true -> has_ty P v tx = true -> exists z, v = VInt z.
  Proof. intros H Hv. rewrite <- (has_ty_compat P v _ _ H) in Hv. eapply has_ty_int_inv; eassumption. Qed.
  Lemma compat_bool v tx : ty_eqb tx TBool = true -> has_ty P v tx = true -> exists b, v = VBool b.
  Proof. intros H Hv. rewrite (has_ty_compat P v _ _ H) in Hv. eapply has_ty_bool_inv; eassumption. Qed.
  Lemma is_bool_inv t : is_bool t = true -> t = TBool.
  Proof. destruct t; try discriminate; reflexivity. Qed.
  Lemma is_int_inv t : is_int t = true -> exists s b, t = TInt s b.
  Proof. destruct t; try discriminate; eauto. Qed.

  (* operators *)
  Definition wtop (o : binop) (t tx ty : ty) : bool :=
    match o with
    | OAdd | OSub | OMul | ODiv | OMod => is_int t && ty_eqb tx t && ty_eqb ty t
    | OBitAnd | OBitXor | OBitOr => (is_int t || is_bool t) && ty_eqb tx t && ty_eqb ty t
    | OGt | OLt => is_bool t && is_int tx && ty_eqb tx ty
    | OEq | ONe => is_bool t && ty_eqb tx ty
    | OShl | OShr => is_int t && ty_eqb tx t && ty_eqb ty (TInt false 8)
    | OLAnd | OLOr => is_bool t && is_bool tx && is_bool ty
    end.

  Lemma binop_sound o m t tx ty vx vy len :
    wtop o t tx ty = true -> o <> OLAnd -> o <> OLOr ->
    has_ty P vx tx = true -> has_ty P vy ty = true ->
    res (fun r => has_ty P (fst r) t = true)
        (eval_binop o m (match o with OShl | OShr => tx | _ => t end) tx vx vy len).
  Proof.
    intros Hw Hn1 Hn2 Hx Hy.
    destruct o; try congruence; cbn [wtop] in Hw; andb_all;
      try match goal with H : is_bool t = true |- _ => apply is_bool_inv in H; subst t end;
      try (cbn [eval_binop res fst]; reflexivity).
    all: repeat match goal with
           | H : is_int ?a = true |- _ => destruct (is_int_inv _ H) as [? [? ->]]; clear H
           | H : is_int ?a || is_bool ?a = true |- _ =>
               apply orb_prop in H; destruct H as [H|H];
               [destruct (is_int_inv _ H) as [? [? ->]]; clear H | apply is_bool_inv in H; subst a]
           end.
    all: repeat match goal with
           | H : ty_eqb ?a (TInt _ _) = true, Hv : has_ty P ?v ?a = true |- _ =>
               destruct (compat_int _ _ _ _ H Hv) as [? ->]; clear Hv
           | H : ty_eqb (TInt _ _) ?a = true, Hv : has_ty P ?v ?a = true |- _ =>
               destruct (compat_int' _ _ _ _ H Hv) as [? ->]; clear Hv
           | H : ty_eqb ?a TBool = true, Hv : has_ty P ?v ?a = true |- _ =>
               destruct (compat_bool _ _ H Hv) as [? ->]; clear Hv
           | Hv : has_ty P ?v (TInt _ _) = true |- _ =>
               destruct (has_ty_int_inv _ _ _ _ Hv) as [? ->]; clear Hv
           end.
    all: try (cbn [eval_binop res fst int_ty obind]; unfold checked;
              repeat match goal with |- context [if ?c then _ else _] => destruct c end;
              cbn [res obind fst]; try reflexivity; exact I).
    (* shifts: the width comes from the left operand, which is an integer type *)
    all: match goal with H : ty_eqb ?a (TInt _ _) = true |- context [eval_binop _ _ ?a] => destruct a; try discriminate H end;
         cbn [eval_binop res fst int_ty obind];
         repeat match goal with |- context [if ?c then _ else _] => destruct c end;
         cbn [res obind fst]; try reflexivity; exact I.
  Qed.

  Lemma QE_compat g a b r : ty_eqb a b = true -> QE g a r -> QE g b r.
  Proof. intros H [H1 H2]. split; [|assumption]. eapply has_ty_compat_l; eassumption. Qed.
  Lemma QE_compat' g a b r : ty_eqb b a = true -> QE g a r -> QE g b r.
  Proof. intros H [H1 H2]. split; [|assumption]. eapply has_ty_compat_r; eassumption. Qed.

  Ltac sub_wte :=
    split; [ assumption
           | let Hs := fresh "Hs" in
             intro Hs;
             match goal with Hf : strict = true -> _ |- _ => specialize (Hf Hs); andb_all; assumption end ].

  Ltac wt_start Hw Hf :=
    match goal with fw : nat |- _ =>
      destruct fw as [|f]; [destruct Hw as [Hw _]; discriminate Hw|] end;
    destruct Hw as [Hw Hf]; cbn [wt_expr] in Hw; cbn [frag_expr] in Hf.

  Ltac use_IH IHe W Hg He v en1 Hv He1 :=
    eapply res_bind; [ eapply (IHe _ _ _ _ W Hg He) | ];
    intros [v en1] [Hv He1]; cbn [fst snd] in Hv, He1.

  Section Cases.
    Variable n : nat.
    Hypothesis IHe : Pe n.
    Hypothesis IHb : Pb n.

    (* lists of expressions evaluated left to right *)
    Lemma ev_list_sound fw g : genv P g -> forall es en,
      Forall (WTe fw g) es -> env_ok P (scopes en) g ->
      res (fun r => Forall2 (fun v e => has_ty P v (e_ty e) = true) (fst r) es /\
                    env_ok P (scopes (snd r)) g)
          (ev_list (eval n P) es en).
    Proof.
      intros Hg es. induction es as [|e r IH]; intros en HW He; cbn [ev_list].
      - cbn [res fst snd]. split; [constructor|assumption].
      - inversion HW as [|e' r' We Wr]; subst.
        use_IH IHe We Hg He v en1 Hv He1.
        eapply res_bind; [apply (IH en1 Wr He1)|]. intros [vs en2] [Hvs He2]. cbn [fst snd] in *.
        cbn [res fst snd]. split; [constructor; assumption|assumption].
    Qed.

    Lemma wte_list f g (es : list expr) (c : expr -> bool) :
      forallb (fun e => c e && wt_expr f P g e) es = true ->
      (strict = true -> forallb (frag_expr f) es = true) ->
      Forall (WTe f g) es /\ Forall (fun e => c e = true) es.
    Proof.
      induction es as [|e r IH]; cbn [forallb]; intros H Hf; [split; constructor|].
      andb_all. destruct IH as [I1 I2]; [assumption| |].
      - intro Hs. specialize (Hf Hs). andb_all. assumption.
      - split; constructor; try assumption. split; [assumption|].
        intro Hs. specialize (Hf Hs). andb_all. assumption.
    Qed.

    Lemma wte_list2 f g (es : list expr) (ts : list ty) :
      forallb2 (fun e t => ty_eqb (e_ty e) t && wt_expr f P g e) es ts = true ->
      (strict = true -> forallb (frag_expr f) es = true) ->
      Forall (WTe f g) es /\ Forall2 (fun e t => ty_eqb (e_ty e) t = true) es ts.
    Proof.
      revert ts. induction es as [|e r IH]; intros [|t tr]; cbn [forallb2 forallb]; intros H Hf;
        try discriminate; [split; constructor|].
      andb_all. destruct (IH tr) as [I1 I2]; [assumption| |].
      - intro Hs. specialize (Hf Hs). andb_all. assumption.
      - split; constructor; try assumption. split; [assumption|].
        intro Hs. specialize (Hf Hs). andb_all. assumption.
    Qed.

    Lemma vals_compat (vs : list value) (es : list expr) (ts : list ty) :
      Forall2 (fun v e => has_ty P v (e_ty e) = true) vs es ->
      Forall2 (fun e t => ty_eqb (e_ty e) t = true) es ts ->
      Forall2 HT vs ts.
    Proof.
      intros H. revert ts. induction H as [|v e vs es Hv _ IH]; intros ts Ht; inversion Ht; subst; constructor.
      - eapply has_ty_compat_l; eassumption.
      - now apply IH.
    Qed.

    Lemma vals_compat1 (vs : list value) (es : list expr) (el : ty) :
      Forall2 (fun v e => has_ty P v (e_ty e) = true) vs es ->
      Forall (fun e => ty_eqb (e_ty e) el = true) es ->
      Forall (fun v => has_ty P v el = true) vs.
    Proof.
      induction 1 as [|v e vs es Hv _ IH]; intros Ht; inversion Ht; subst; constructor.
      - eapply has_ty_compat_l; eassumption.
      - now apply IH.
    Qed.

    Lemma case_lit fw g ei m t en :
      match ei with ETrue | EFalse | ENumU _ _ | ENumS _ _ | ERange _ _ _ => True | _ => False end ->
      WTe fw g (Ex ei m t) -> genv P g -> env_ok P (scopes en) g ->
      res (QE g t) (eval (S n) P en (Ex ei m t)).
    Proof.
      intros Hc Hw Hg He. rewrite eval_eq. cbn zeta. wt_start Hw Hf.
      destruct ei; try contradiction; cbn [res]; (split; [|exact He]); cbn [fst].
      - apply is_bool_inv in Hw. now subst.
      - apply is_bool_inv in Hw. now subst.
      - destruct t; try discriminate Hw. reflexivity.
      - destruct t; try discriminate Hw. reflexivity.
      - andb_all. eapply has_ty_compat_r; [eassumption|]. rewrite has_ty_arr.
        apply andb_true_intro. split.
        + apply N.eqb_eq. unfold lenN. rewrite map_length, seq_length. lia.
        + apply forallb_forall. intros v Hv. apply in_map_iff in Hv as [k [<- _]]. reflexivity.
    Qed.

    Lemma case_id fw g x m t en :
      WTe fw g (Ex (EId x) m t) -> genv P g -> env_ok P (scopes en) g ->
      res (QE g t) (eval (S n) P en (Ex (EId x) m t)).
    Proof.
      intros Hw Hg He. rewrite eval_eq. cbn zeta. wt_start Hw Hf.
      destruct (tlookup g x) as [[tx mx]|] eqn:El; [|discriminate].
      destruct (lookup_ok _ _ _ _ _ _ He El) as [v [Hv Ht]]. unfold lookup_var. rewrite Hv.
      cbn [res]. split; [|exact He]. cbn [fst]. eapply has_ty_compat_l; eassumption.
    Qed.

    Lemma case_arrlit fw g es m t en :
      WTe fw g (Ex (EArrLit es) m t) -> genv P g -> env_ok P (scopes en) g ->
      res (QE g t) (eval (S n) P en (Ex (EArrLit es) m t)).
    Proof.
      intros Hw Hg He. rewrite eval_eq. cbn zeta. wt_start Hw Hf.
      destruct t as [| |el k| | |]; try discriminate Hw. andb_all.
      destruct (wte_list f g es (fun e => ty_eqb (e_ty e) el)) as [W1 W2]; [assumption|assumption|].
      eapply res_bind; [apply (ev_list_sound f g Hg es en W1 He)|].
      intros [vs en1] [Hvs He1]. cbn [fst snd] in *. cbn [res]. split; [|exact He1]. cbn [fst].
      rewrite has_ty_arr. apply andb_true_intro. split.
      - match goal with H : (lenN es =? k) = true |- _ => apply N.eqb_eq in H; rewrite <- H end.
        apply N.eqb_eq. unfold lenN. now rewrite (Forall2_length_eq _ _ _ Hvs).
      - apply forallb_Forall. eapply vals_compat1; eassumption.
    Qed.

    Lemma case_arrrep fw g e1 k m t en :
      WTe fw g (Ex (EArrRep e1 k) m t) -> genv P g -> env_ok P (scopes en) g ->
      res (QE g t) (eval (S n) P en (Ex (EArrRep e1 k) m t)).
    Proof.
      intros Hw Hg He. rewrite eval_eq. cbn zeta. wt_start Hw Hf.
      destruct t as [| |el k2| | |]; try discriminate Hw. andb_all.
      assert (W1 : WTe f g e1) by sub_wte.
      use_IH IHe W1 Hg He v en1 Hv He1. cbn [res]. split; [|exact He1]. cbn [fst].
      rewrite has_ty_arr. apply andb_true_intro. split.
      - match goal with H : (k =? k2) = true |- _ => apply N.eqb_eq in H; subst k2 end.
        apply N.eqb_eq. unfold lenN. rewrite repeat_length. lia.
      - apply forallb_forall. intros x Hx. apply repeat_spec in Hx. subst x.
        eapply has_ty_compat_l; eassumption.
    Qed.

    Lemma is_unsigned_inv t : is_unsigned t = true -> exists b, t = TInt false b.
    Proof. destruct t as [|[|] b| | | |]; try discriminate. eauto. Qed.

    Lemma case_idx fw g a i m t en :
      WTe fw g (Ex (EIdx a i) m t) -> genv P g -> env_ok P (scopes en) g ->
      res (QE g t) (eval (S n) P en (Ex (EIdx a i) m t)).
    Proof.
      intros Hw Hg He. rewrite eval_eq. cbn zeta. wt_start Hw Hf.
      destruct (e_ty a) as [| |el k| | |] eqn:Ea; try discriminate Hw. andb_all.
      assert (Wa : WTe f g a) by sub_wte. assert (Wi : WTe f g i) by sub_wte.
      use_IH IHe Wa Hg He va en1 Hva He1. use_IH IHe Wi Hg He1 vi en2 Hvi He2.
      rewrite Ea in Hva. destruct (has_ty_arr_inv _ _ _ _ Hva) as [vs [-> [Hlen Hall]]].
      match goal with H : is_unsigned (e_ty i) = true |- _ => destruct (is_unsigned_inv _ H) as [b Ei] end.
      rewrite Ei in Hvi. destruct (has_ty_int_inv _ _ _ _ Hvi) as [z ->].
      destruct ((0 <=? z)%Z && (z <? Z.of_nat (length vs))%Z) eqn:Eb; [|exact I].
      destruct (nth_error vs (Z.to_nat z)) as [v|] eqn:En.
      - cbn [res]. split; [|exact He2]. cbn [fst]. apply nth_error_In in En.
        rewrite Forall_forall in Hall. eapply has_ty_compat_l; [eassumption|]. now apply Hall.
      - exfalso. apply nth_error_None in En. apply andb_prop in Eb as [E1 E2].
        apply Z.leb_le in E1. apply Z.ltb_lt in E2. lia.
    Qed.

    Lemma case_tuplit fw g es m t en :
      WTe fw g (Ex (ETupLit es) m t) -> genv P g -> env_ok P (scopes en) g ->
      res (QE g t) (eval (S n) P en (Ex (ETupLit es) m t)).
    Proof.
      intros Hw Hg He. rewrite eval_eq. cbn zeta. wt_start Hw Hf.
      destruct t as [| | |ts| |]; try discriminate Hw.
      destruct (wte_list2 f g es ts Hw Hf) as [W1 W2].
      eapply res_bind; [apply (ev_list_sound f g Hg es en W1 He)|].
      intros [vs en1] [Hvs He1]. cbn [fst snd] in *. cbn [res]. split; [|exact He1]. cbn [fst].
      rewrite has_ty_tup. apply forallb2_Forall2. eapply vals_compat; eassumption.
    Qed.

    Lemma case_tupacc fw g e1 i m t en :
      WTe fw g (Ex (ETupAcc e1 i) m t) -> genv P g -> env_ok P (scopes en) g ->
      res (QE g t) (eval (S n) P en (Ex (ETupAcc e1 i) m t)).
    Proof.
      intros Hw Hg He. rewrite eval_eq. cbn zeta. wt_start Hw Hf.
      destruct (e_ty e1) as [| | |ts| |] eqn:E1; try discriminate Hw.
      destruct (nthN ts i) as [ti|] eqn:Ei; [|discriminate Hw]. andb_all.
      assert (W1 : WTe f g e1) by (split; assumption).
      use_IH IHe W1 Hg He v en1 Hv He1. rewrite E1 in Hv.
      destruct (has_ty_tup_inv _ _ _ Hv) as [vs [-> Hvs]].
      destruct (Forall2_nthN _ _ _ _ _ Hvs Ei) as [x [Hx Hxt]]. rewrite Hx.
      cbn [res]. split; [|exact He1]. cbn [fst]. eapply has_ty_compat_l; eassumption.
    Qed.

    Lemma case_fld fw g e1 fld m t en :
      WTe fw g (Ex (EFld e1 fld) m t) -> genv P g -> env_ok P (scopes en) g ->
      res (QE g t) (eval (S n) P en (Ex (EFld e1 fld) m t)).
    Proof.
      intros Hw Hg He. rewrite eval_eq. cbn zeta. wt_start Hw Hf.
      destruct (e_ty e1) as [| | | |name|] eqn:E1; try discriminate Hw.
      destruct (assocN name (p_structs P)) as [def|] eqn:Ed; [|discriminate Hw].
      destruct (assocN fld def) as [ft|] eqn:Ef; [|discriminate Hw]. andb_all.
      assert (W1 : WTe f g e1) by (split; assumption).
      use_IH IHe W1 Hg He v en1 Hv He1. rewrite E1 in Hv.
      destruct (has_ty_struct_inv _ _ _ Hv) as [vs [def' [-> [Ed' Hvs]]]].
      rewrite Ed in Ed'. injection Ed' as <-.
      destruct (assoc_index def fld ft 0 Ef) as [k [Hk1 Hk2]]. rewrite N.add_0_l in Hk1. rewrite Hk1.
      destruct (Forall2_nthN _ _ _ _ _ Hvs Hk2) as [x [Hx Hxt]]. rewrite Hx.
      cbn [res]. split; [|exact He1]. cbn [fst]. eapply has_ty_compat_l; eassumption.
    Qed.

    Lemma case_if fw g c a b m t en :
      WTe fw g (Ex (EIf c a b) m t) -> genv P g -> env_ok P (scopes en) g ->
      res (QE g t) (eval (S n) P en (Ex (EIf c a b) m t)).
    Proof.
      intros Hw Hg He. rewrite eval_eq. cbn zeta. wt_start Hw Hf. andb_all.
      assert (Wc : WTe f g c) by sub_wte. assert (Wa : WTe f g a) by sub_wte.
      assert (Wb : WTe f g b) by sub_wte.
      use_IH IHe Wc Hg He vc en1 Hvc He1.
      match goal with H : is_bool (e_ty c) = true |- _ => apply is_bool_inv in H; rewrite H in Hvc end.
      destruct (has_ty_bool_inv _ _ Hvc) as [[|] ->].
      - eapply res_weaken; [apply (IHe _ _ _ _ Wa Hg He1)|]. intros r. now apply QE_compat.
      - eapply res_weaken; [apply (IHe _ _ _ _ Wb Hg He1)|]. intros r. now apply QE_compat.
    Qed.

    Lemma case_neg fw g e1 m t en :
      WTe fw g (Ex (ENeg e1) m t) -> genv P g -> env_ok P (scopes en) g ->
      res (QE g t) (eval (S n) P en (Ex (ENeg e1) m t)).
    Proof.
      intros Hw Hg He. rewrite eval_eq. cbn zeta. wt_start Hw Hf. andb_all.
      assert (W1 : WTe f g e1) by (split; assumption).
      use_IH IHe W1 Hg He v en1 Hv He1.
      destruct t as [|[|] b| | | |]; try discriminate.
      match goal with H : ty_eqb (e_ty e1) _ = true |- _ => destruct (compat_int _ _ _ _ H Hv) as [z ->] end.
      cbn [int_ty]. unfold checked. destruct (in_range true b (- z)); cbn [obind res]; [|exact I].
      split; [reflexivity|exact He1].
    Qed.

    Lemma case_not fw g e1 m t en :
      WTe fw g (Ex (ENot e1) m t) -> genv P g -> env_ok P (scopes en) g ->
      res (QE g t) (eval (S n) P en (Ex (ENot e1) m t)).
    Proof.
      intros Hw Hg He. rewrite eval_eq. cbn zeta. wt_start Hw Hf. andb_all.
      assert (W1 : WTe f g e1) by (split; assumption).
      use_IH IHe W1 Hg He v en1 Hv He1.
      match goal with H : ty_eqb (e_ty e1) t = true |- _ => rewrite (has_ty_compat P v _ _ H) in Hv end.
      match goal with H : is_bool t || is_int t = true |- _ => apply orb_prop in H; destruct H as [H|H] end.
      - match goal with H : is_bool t = true |- _ => apply is_bool_inv in H; subst t end.
        destruct (has_ty_bool_inv _ _ Hv) as [b ->]. cbn [res]. split; [reflexivity|exact He1].
      - match goal with H : is_int t = true |- _ => destruct (is_int_inv _ H) as [s [b ->]] end.
        destruct (has_ty_int_inv _ _ _ _ Hv) as [z ->]. cbn [res]. split; [reflexivity|exact He1].
    Qed.

    Lemma case_cast fw g to e1 m t en :
      WTe fw g (Ex (ECast to e1) m t) -> genv P g -> env_ok P (scopes en) g ->
      res (QE g t) (eval (S n) P en (Ex (ECast to e1) m t)).
    Proof.
      intros Hw Hg He. rewrite eval_eq. cbn zeta. wt_start Hw Hf. andb_all.
      assert (W1 : WTe f g e1) by (split; assumption).
      use_IH IHe W1 Hg He v en1 Hv He1.
      assert (Hv' : exists x, v = VBool x \/ exists z, v = VInt z).
      { match goal with H : is_int (e_ty e1) || is_bool (e_ty e1) = true |- _ =>
          apply orb_prop in H; destruct H as [H|H] end.
        - match goal with H : is_int _ = true |- _ => destruct (is_int_inv _ H) as [s [b Eb]] end.
          rewrite Eb in Hv. destruct (has_ty_int_inv _ _ _ _ Hv) as [z ->]. exists true. right. eauto.
        - match goal with H : is_bool _ = true |- _ => apply is_bool_inv in H; rewrite H in Hv end.
          destruct (has_ty_bool_inv _ _ Hv) as [b ->]. exists b. now left. }
      assert (Hto : to = TBool \/ exists s b, to = TInt s b).
      { match goal with H : ty_eqb to t = true |- _ => destruct to, t; try discriminate H; eauto end.
        all: match goal with H : is_int _ || is_bool _ = true |- _ => discriminate H end. }
      destruct Hv' as [x [-> | [z ->]]]; destruct Hto as [-> | [s [b ->]]]; cbn [eval_cast obind res];
        (split; [|exact He1]); cbn [fst]; (eapply has_ty_compat_l; [eassumption|reflexivity]).
    Qed.

    Lemma case_op fw g o x y m t en :
      WTe fw g (Ex (EOp o x y) m t) -> genv P g -> env_ok P (scopes en) g ->
      res (QE g t) (eval (S n) P en (Ex (EOp o x y) m t)).
    Proof.
      intros Hw Hg He. rewrite eval_eq. cbn zeta. wt_start Hw Hf.
      apply andb_prop in Hw as [Hw Ho]. apply andb_prop in Hw as [Hwx Hwy].
      assert (Wx : WTe f g x) by sub_wte. assert (Wy : WTe f g y) by sub_wte.
      change (wtop o t (e_ty x) (e_ty y) = true) in Ho.
      destruct (binop_eq_dec_land o) as [[-> | ->] | [N1 N2]].
      - cbn [wtop] in Ho. andb_all.
        repeat match goal with H : is_bool _ = true |- _ => apply is_bool_inv in H end. subst t.
        use_IH IHe Wx Hg He vx en1 Hvx He1.
        match goal with H : e_ty x = TBool |- _ => rewrite H in Hvx end.
        destruct (has_ty_bool_inv _ _ Hvx) as [[|] ->].
        + eapply res_weaken; [apply (IHe _ _ _ _ Wy Hg He1)|]. intros r [Hr1 Hr2]. split; [|assumption].
          match goal with H : e_ty y = TBool |- _ => now rewrite H in Hr1 end.
        + cbn [res]. split; [reflexivity|exact He1].
      - cbn [wtop] in Ho. andb_all.
        repeat match goal with H : is_bool _ = true |- _ => apply is_bool_inv in H end. subst t.
        use_IH IHe Wx Hg He vx en1 Hvx He1.
        match goal with H : e_ty x = TBool |- _ => rewrite H in Hvx end.
        destruct (has_ty_bool_inv _ _ Hvx) as [[|] ->].
        + cbn [res]. split; [reflexivity|exact He1].
        + eapply res_weaken; [apply (IHe _ _ _ _ Wy Hg He1)|]. intros r [Hr1 Hr2]. split; [|assumption].
          match goal with H : e_ty y = TBool |- _ => now rewrite H in Hr1 end.
      - assert (Hgen : res (QE g t)
          (do (vx, en1) <- eval n P en x;
           do (vy, en2) <- eval n P en1 y;
           do (v, len) <- eval_binop o m (match o with OShl | OShr => e_ty x | _ => t end)
                                     (e_ty x) vx vy (lenient en2);
           Done (v, mkEnv (scopes en2) len))).
        { use_IH IHe Wx Hg He vx en1 Hvx He1. use_IH IHe Wy Hg He1 vy en2 Hvy He2.
          eapply res_bind; [apply (binop_sound o m t _ _ vx vy (lenient en2) Ho N1 N2 Hvx Hvy)|].
          intros [v len] Hv. cbn [fst] in Hv. cbn [res]. split; [exact Hv|exact He2]. }
        destruct o; try congruence; exact Hgen.
    Qed.

    Lemma forallb2_map_r {A B C} (f : A -> C -> bool) (h : B -> C) xs ys :
      forallb2 (fun x y => f x (h y)) xs ys = forallb2 f xs (map h ys).
    Proof.
      revert ys. induction xs as [|x xr IH]; intros [|y yr]; cbn [forallb2 map]; try reflexivity.
      now rewrite IH.
    Qed.

    Lemma case_enumlit fw g en0 var args m t en :
      WTe fw g (Ex (EEnumLit en0 var args) m t) -> genv P g -> env_ok P (scopes en) g ->
      res (QE g t) (eval (S n) P en (Ex (EEnumLit en0 var args) m t)).
    Proof.
      intros Hw Hg He. rewrite eval_eq. cbn zeta. wt_start Hw Hf.
      destruct t as [| | | | |n2]; try discriminate Hw.
      destruct (assocN en0 (p_enums P)) as [variants|] eqn:Ee; [|discriminate Hw].
      apply andb_prop in Hw as [Hn Hw]. apply N.eqb_eq in Hn. subst n2.
      destruct (nthN variants var) as [ts|] eqn:Ev; [|discriminate Hw].
      destruct (wte_list2 f g args ts Hw Hf) as [W1 W2].
      eapply res_bind; [apply (ev_list_sound f g Hg args en W1 He)|].
      intros [vs en1] [Hvs He1]. cbn [fst snd] in *. cbn [res]. split; [|exact He1]. cbn [fst].
      rewrite has_ty_enum, Ee, Ev. apply forallb2_Forall2. eapply vals_compat; eassumption.
    Qed.

    Lemma filter_single_assoc {A} (fields : list (N * A)) k k' fe :
      filter (fun x => fst x =? k) fields = [(k', fe)] -> assocN k fields = Some fe /\ In (k', fe) fields.
    Proof.
      induction fields as [|[k0 e0] r IH]; cbn [filter assocN fst]; [discriminate|].
      rewrite (N.eqb_sym k k0). destruct (k0 =? k) eqn:E.
      - intros [= <- <- Hr]. split; [reflexivity|now left].
      - intro H. destruct (IH H) as [H1 H2]. split; [assumption|now right].
    Qed.

    Lemma ev_fields_sound f g fields : genv P g -> forall ds en,
      Forall (fun d : N * ty => exists fe, assocN (fst d) fields = Some fe /\
                                 ty_eqb (e_ty fe) (snd d) = true /\ WTe f g fe) ds ->
      env_ok P (scopes en) g ->
      res (fun r => Forall2 HT (fst r) (map snd ds) /\ env_ok P (scopes (snd r)) g)
          (ev_fields (eval n P) fields ds en).
    Proof.
      intros Hg ds. induction ds as [|[fname ft] r IH]; intros en HW He; cbn [ev_fields map].
      - cbn [res fst snd]. split; [constructor|assumption].
      - inversion HW as [|d' r' [fe [Ha [Ht We]]] Wr]; subst. cbn [fst snd] in *. rewrite Ha.
        use_IH IHe We Hg He v en1 Hv He1.
        eapply res_bind; [apply (IH en1 Wr He1)|]. intros [vs en2] [Hvs He2]. cbn [fst snd] in *.
        cbn [res fst snd]. split; [|assumption]. constructor; [|assumption].
        eapply has_ty_compat_l; eassumption.
    Qed.

    Lemma case_structlit fw g name fields m t en :
      WTe fw g (Ex (EStructLit name fields) m t) -> genv P g -> env_ok P (scopes en) g ->
      res (QE g t) (eval (S n) P en (Ex (EStructLit name fields) m t)).
    Proof.
      intros Hw Hg He. rewrite eval_eq. cbn zeta. wt_start Hw Hf.
      destruct t as [| | | |n2|]; try discriminate Hw.
      destruct (assocN name (p_structs P)) as [def|] eqn:Ed; [|discriminate Hw].
      apply andb_prop in Hw as [Hw Hall]. apply andb_prop in Hw as [Hn Hlen].
      apply N.eqb_eq in Hn. subst n2.
      assert (HW : Forall (fun d : N * ty => exists fe, assocN (fst d) fields = Some fe /\
                                 ty_eqb (e_ty fe) (snd d) = true /\ WTe f g fe) def).
      { apply Forall_forall. intros d Hd. rewrite forallb_forall in Hall. specialize (Hall d Hd).
        destruct (filter (fun fe => fst fe =? fst d) fields) as [|[k' fe] [|]] eqn:Efl; try discriminate Hall.
        destruct (filter_single_assoc _ _ _ _ Efl) as [Ha Hin]. andb_all.
        exists fe. split; [assumption|]. split; [assumption|]. split; [assumption|].
        intro Hs. specialize (Hf Hs). rewrite forallb_forall in Hf. exact (Hf _ Hin). }
      eapply res_bind; [apply (ev_fields_sound f g fields Hg def en HW He)|].
      intros [vs en1] [Hvs He1]. cbn [fst snd] in *. cbn [res]. split; [|exact He1]. cbn [fst].
      rewrite has_ty_struct, Ed. now apply forallb2_Forall2.
    Qed.

    Lemma unit_has_ty : has_ty P unit_val unit_ty = true.
    Proof. reflexivity. Qed.

    (* one pattern-guarded body: match arm, loop iteration *)
    Lemma SA_of_nofrag c : In c stuck_allowed -> (strict = true -> False) -> SA c.
    Proof. intros H Hs. split; [assumption|]. destruct strict; [exfalso; now apply Hs|reflexivity]. Qed.

    Lemma ev_arms_sound f g v (ts t : ty) en arms :
      genv P g -> env_ok P (scopes en) g -> has_ty P v ts = true ->
      Forall (fun arm : pattern * expr =>
                ty_eqb (p_ty (fst arm)) ts = true /\ ty_eqb (e_ty (snd arm)) t = true /\
                exists bs, wt_pat P (fst arm) = Some bs /\
                           WTe f (tbind_all ([] :: g) bs false) (snd arm)) arms ->
      (strict = true -> existsb (fun arm => irrefutable (fst arm)) arms = true) ->
      res (QE g t) (ev_arms P (eval n P) v en arms).
    Proof.
      intros Hg He Hv HW. induction HW as [|[p body] r [Hp [Hb [tbs [Hwp Wb]]]] _ IH]; intros Hex; cbn [ev_arms].
      - apply SA_of_nofrag; [cbn; tauto|]. intro Hs. specialize (Hex Hs). discriminate Hex.
      - cbn [fst snd] in *.
        assert (Hvp : has_ty P v (p_ty p) = true) by (eapply has_ty_compat_r; eassumption).
        destruct (pmatch_sound P p v tbs Hwp Hvp) as [Hm1 Hm2].
        destruct (pmatch P p v) as [bs|] eqn:Em.
        + specialize (Hm1 bs eq_refl).
          destruct (genv_tbind_all P tbs false ([] :: g) (genv_push _ _ Hg)) as [Hg' Htl].
          assert (He' : env_ok P (scopes (bind_all (push_scope en) bs)) (tbind_all ([] :: g) tbs false))
            by (apply bind_all_ok; [assumption|now apply push_ok]).
          use_IH IHe Wb Hg' He' rv en1 Hrv He1.
          cbn [res]. split; cbn [fst snd].
          * eapply has_ty_compat_l; eassumption.
          * cbn [pop_scope scopes]. apply pop_ok in He1. now rewrite Htl in He1.
        + apply IH. intro Hs. specialize (Hex Hs). cbn [existsb fst] in Hex.
          apply orb_prop in Hex as [Hi|Hr]; [|assumption].
          destruct (Hm2 Hi) as [bs Hbs]. discriminate Hbs.
    Qed.

    Lemma case_match fw g s arms m t en :
      WTe fw g (Ex (EMatch s arms) m t) -> genv P g -> env_ok P (scopes en) g ->
      res (QE g t) (eval (S n) P en (Ex (EMatch s arms) m t)).
    Proof.
      intros Hw Hg He. rewrite eval_eq. cbn zeta. wt_start Hw Hf.
      apply andb_prop in Hw as [Hws Harms].
      assert (Ws : WTe f g s) by sub_wte.
      use_IH IHe Ws Hg He v en1 Hv He1.
      eapply ev_arms_sound with (f := f) (ts := e_ty s); try eassumption.
      - apply Forall_forall. intros arm Hin. rewrite forallb_forall in Harms. specialize (Harms arm Hin).
        andb_all. destruct (wt_pat P (fst arm)) as [bs|]; [|discriminate].
        split; [assumption|]. split; [assumption|]. exists bs. split; [reflexivity|]. split; [assumption|].
        intro Hs. specialize (Hf Hs). andb_all.
        match goal with H : forallb _ arms = true |- _ => rewrite forallb_forall in H; exact (H _ Hin) end.
      - intro Hs. specialize (Hf Hs). andb_all. assumption.
    Qed.

    Lemma case_block fw g b m t en :
      WTe fw g (Ex (EBlock b) m t) -> genv P g -> env_ok P (scopes en) g ->
      res (QE g t) (eval (S n) P en (Ex (EBlock b) m t)).
    Proof.
      intros Hw Hg He. rewrite eval_eq. cbn zeta. wt_start Hw Hf.
      destruct (wt_block f P ([] :: g) b) as [tb|] eqn:Eb; [|discriminate Hw].
      assert (Wb : WTb f ([] :: g) b tb) by (split; assumption).
      eapply res_bind; [apply (IHb _ _ _ _ _ Wb (genv_push _ _ Hg) (push_ok _ _ _ He))|].
      intros [v en1] [Hv He1]. cbn [fst snd tl] in *. cbn [res]. split; cbn [fst snd].
      - eapply has_ty_compat_l; eassumption.
      - exact He1.
    Qed.

    Lemma combine_binds_ok (params : list (N * ty)) vs :
      Forall2 HT vs (map snd params) -> binds_ok P (combine (map fst params) vs) params.
    Proof.
      revert vs. induction params as [|[x t] r IH]; intros vs H; inversion H; subst; cbn [map combine fst snd].
      - constructor.
      - constructor; [split; [reflexivity|assumption]|]. now apply IH.
    Qed.

    Lemma find_fn_in fn d : find_fn P fn = Some d -> In d (p_fns P).
    Proof. unfold find_fn. intro H. apply find_some in H. tauto. Qed.

    Lemma case_call fw g fn args m t en :
      WTe fw g (Ex (ECall fn args) m t) -> genv P g -> env_ok P (scopes en) g ->
      res (QE g t) (eval (S n) P en (Ex (ECall fn args) m t)).
    Proof.
      intros Hw Hg He. rewrite eval_eq. cbn zeta. wt_start Hw Hf.
      destruct (find_fn P fn) as [d|] eqn:Efn; [|discriminate Hw].
      apply andb_prop in Hw as [Hret Hargs].
      rewrite (forallb2_map_r (fun e t => ty_eqb (e_ty e) t && wt_expr f P g e) snd) in Hargs.
      destruct (wte_list2 f g args _ Hargs Hf) as [W1 W2].
      eapply res_bind; [apply (ev_list_sound f g Hg args en W1 He)|].
      intros [vs en1] [Hvs He1]. cbn [fst snd] in *.
      assert (Hvt : Forall2 HT vs (map snd (fn_params d))) by (eapply vals_compat; eassumption).
      assert (Hl : length vs = length (fn_params d))
        by (rewrite (Forall2_length_eq _ _ _ Hvt); apply map_length).
      rewrite Hl, Nat.eqb_refl. cbn [negb].
      pose proof (find_fn_in _ _ Efn) as Hin.
      destruct (wt_fn_inv _ _ _ (Hfns d Hin)) as [tb [Eb Hwf]].
      assert (Hg0 : genv P ([] :: consts_tenv P)).
      { rewrite consts_tenv_one. exists [], []. reflexivity. }
      destruct (genv_tbind_all P (fn_params d) true _ Hg0) as [Hg1 _].
      assert (He0 : env_ok P (scopes (mkEnv [[]; last (scopes en1) []] (lenient en1))) ([] :: consts_tenv P)).
      { cbn [scopes]. rewrite consts_tenv_one. constructor; [constructor|]. constructor; [|constructor].
        rewrite <- (genv_last P g Hg). now apply env_ok_last. }
      pose proof (bind_all_ok P _ _ true (combine_binds_ok _ _ Hvt) _ _ He0) as He2.
      assert (Wb : WTb wt_fuel ([] :: tbind_all ([] :: consts_tenv P) (fn_params d) true) (fn_body d) tb).
      { split; [assumption|]. intro Hs. exact (Hfrag Hs d Hin). }
      eapply res_bind; [apply (IHb _ _ _ _ _ Wb (genv_push _ _ Hg1) (push_ok _ _ _ He2))|].
      intros [v en2] [Hv _]. cbn [fst snd] in *. cbn [res]. split; cbn [fst snd scopes].
      - eapply has_ty_compat_l; [exact Hret|]. eapply has_ty_compat_l; eassumption.
      - exact He1.
    Qed.

    Lemma case_join fw g jt ha a b m t en :
      WTe fw g (Ex (EJoin jt ha a b) m t) -> genv P g -> env_ok P (scopes en) g ->
      res (QE g t) (eval (S n) P en (Ex (EJoin jt ha a b) m t)).
    Proof.
      intros Hw Hg He. rewrite eval_eq. cbn zeta. wt_start Hw Hf. cbn [res].
      apply SA_of_nofrag; [cbn; tauto|]. intro Hs. specialize (Hf Hs). discriminate Hf.
    Qed.

    Theorem Pe_step : Pe (S n).
    Proof.
      intros fw g [ei m t] en Hw Hg He. cbn [e_ty].
      destruct ei.
      - match goal with |- context [eval _ _ _ (Ex ?ei _ _)] => apply (case_lit fw g ei m t en I Hw Hg He) end.
      - match goal with |- context [eval _ _ _ (Ex ?ei _ _)] => apply (case_lit fw g ei m t en I Hw Hg He) end.
      - match goal with |- context [eval _ _ _ (Ex ?ei _ _)] => apply (case_lit fw g ei m t en I Hw Hg He) end.
      - match goal with |- context [eval _ _ _ (Ex ?ei _ _)] => apply (case_lit fw g ei m t en I Hw Hg He) end.
      - now apply case_id with (fw := fw).
      - now apply case_arrlit with (fw := fw).
      - now apply case_arrrep with (fw := fw).
      - now apply case_idx with (fw := fw).
      - now apply case_tuplit with (fw := fw).
      - now apply case_tupacc with (fw := fw).
      - now apply case_fld with (fw := fw).
      - now apply case_structlit with (fw := fw).
      - now apply case_enumlit with (fw := fw).
      - now apply case_match with (fw := fw).
      - now apply case_neg with (fw := fw).
      - now apply case_not with (fw := fw).
      - now apply case_op with (fw := fw).
      - now apply case_block with (fw := fw).
      - now apply case_call with (fw := fw).
      - now apply case_join with (fw := fw).
      - now apply case_if with (fw := fw).
      - now apply case_cast with (fw := fw).
      - match goal with |- context [eval _ _ _ (Ex ?ei _ _)] => apply (case_lit fw g ei m t en I Hw Hg He) end.
    Qed.

  End Cases.

  (* ---------------------------------------------------------- blocks *)

  Lemma xb_go_sound n (IHs : Ps n) f : forall ss g lt lv en t,
    wt_go (wt_stmt f P) ss g lt = Some t ->
    (strict = true -> forallb (frag_stmt f) ss = true) ->
    genv P g -> env_ok P (scopes en) g -> has_ty P lv lt = true ->
    res (fun r => has_ty P (fst r) t = true /\ env_ok P (tl (scopes (snd r))) (tl g))
        (xb_go (exec n P) ss lv en).
  Proof.
    induction ss as [|s r IH]; intros g lt lv en t Hw Hf Hg He Hl; cbn [wt_go xb_go] in *.
    - injection Hw as <-. cbn [res fst snd]. split; [assumption|now apply pop_ok].
    - destruct (wt_stmt f P g s) as [[g' t1]|] eqn:Es; [|discriminate Hw].
      assert (Ws : WTs f g s g' t1).
      { split; [assumption|]. intro Hs. specialize (Hf Hs). cbn [forallb] in Hf. andb_all. assumption. }
      eapply res_bind; [apply (IHs _ _ _ _ _ _ Ws Hg He)|].
      intros [v en1] [Hv He1]. cbn [fst snd] in *.
      destruct (wt_stmt_genv _ _ _ _ _ _ Es Hg) as [Hg' Htl]. rewrite <- Htl.
      apply (IH g' t1 v en1 t Hw); try assumption.
      intro Hs. specialize (Hf Hs). cbn [forallb] in Hf. andb_all. assumption.
  Qed.

  Theorem Pb_step n : Ps n -> Pb (S n).
  Proof.
    intros IHs fw g b en t [Hw Hf] Hg He. destruct fw as [|f]; [discriminate Hw|].
    rewrite wt_block_eq in Hw. rewrite exec_block_eq. cbn [frag_block] in Hf.
    eapply xb_go_sound; try eassumption. reflexivity.
  Qed.

  (* ---------------------------------------------------------- statements *)

  Section Stmts.
    Variable n : nat.
    Hypothesis IHe : Pe n.
    Hypothesis IHb : Pb n.

    (* a body guarded by a pattern, run in its own scope (loop iterations) *)
    Lemma guarded_body f g p tbs body tb v en :
      genv P g -> env_ok P (scopes en) g ->
      wt_pat P p = Some tbs -> has_ty P v (p_ty p) = true ->
      WTb f (tbind_all ([] :: g) tbs false) body tb ->
      forall bs, pmatch P p v = Some bs ->
      res (fun r : value * env => env_ok P (scopes (pop_scope (snd r))) g)
          (exec_block n P (bind_all (push_scope en) bs) body).
    Proof.
      intros Hg He Hwp Hv Wb bs Hm.
      destruct (pmatch_sound P p v tbs Hwp Hv) as [Hm1 _]. specialize (Hm1 bs Hm).
      destruct (genv_tbind_all P tbs false ([] :: g) (genv_push _ _ Hg)) as [Hg' Htl].
      assert (He' : env_ok P (scopes (bind_all (push_scope en) bs)) (tbind_all ([] :: g) tbs false))
        by (apply bind_all_ok; [assumption|now apply push_ok]).
      eapply res_weaken; [apply (IHb _ _ _ _ _ Wb Hg' He')|].
      intros [rv en1] [_ He1]. cbn [fst snd pop_scope scopes] in *. now rewrite Htl in He1.
    Qed.

    Lemma x_for_sound f g p tbs body tb el :
      genv P g -> wt_pat P p = Some tbs -> ty_eqb (p_ty p) el = true ->
      WTb f (tbind_all ([] :: g) tbs false) body tb ->
      (strict = true -> irrefutable p = true) ->
      forall vs en, Forall (fun v => has_ty P v el = true) vs -> env_ok P (scopes en) g ->
      res (fun en' : env => env_ok P (scopes en') g) (x_for P (exec_block n P) p body vs en).
    Proof.
      intros Hg Hwp Hel Wb Hirr vs. induction vs as [|v r IH]; intros en Hvs He; cbn [x_for].
      - exact He.
      - inversion Hvs as [|v' r' Hv Hr]; subst.
        assert (Hvp : has_ty P v (p_ty p) = true) by (eapply has_ty_compat_r; eassumption).
        destruct (pmatch P p v) as [bs|] eqn:Em.
        + eapply res_bind; [apply (guarded_body f g p tbs body tb v en Hg He Hwp Hvp Wb bs Em)|].
          intros [rv en1] He1. cbn [snd] in He1. now apply IH.
        + apply SA_of_nofrag; [cbn; tauto|]. intro Hs.
          destruct (proj2 (pmatch_sound P p v tbs Hwp Hvp) (Hirr Hs)) as [bs Hbs]. congruence.
    Qed.

    Lemma x_join_sound f g p tbs body tb jt ta tb' ys :
      genv P g -> wt_pat P p = Some tbs -> ty_eqb (p_ty p) (TTup [ta; tb']) = true ->
      WTb f (tbind_all ([] :: g) tbs false) body tb ->
      strict = false ->
      Forall (fun v => has_ty P v tb' = true) ys ->
      forall xs en, Forall (fun v => has_ty P v ta = true) xs -> env_ok P (scopes en) g ->
      res (fun en' : env => env_ok P (scopes en') g)
          (x_join P (exec_block n P) p body jt ta tb' ys xs en).
    Proof.
      intros Hg Hwp Hel Wb Hns Hys xs. induction xs as [|x r IH]; intros en Hxs He; cbn [x_join].
      - exact He.
      - inversion Hxs as [|x' r' Hx Hr]; subst.
        destruct (join_key P jt ta x) as [kx|]; [|split; [cbn; tauto|assumption]].
        match goal with |- context [find ?h ys] => destruct (find h ys) as [y|] eqn:Efind end;
          [|now apply IH].
        apply find_some in Efind as [Hy _]. rewrite Forall_forall in Hys. specialize (Hys y Hy).
        assert (Hvp : has_ty P (VTup [x; y]) (p_ty p) = true).
        { eapply has_ty_compat_r; [eassumption|]. rewrite has_ty_tup. cbn [forallb2].
          now rewrite Hx, Hys. }
        destruct (pmatch P p (VTup [x; y])) as [bs|] eqn:Em; [|split; [cbn; tauto|assumption]].
        eapply res_bind; [apply (guarded_body f g p tbs body tb _ en Hg He Hwp Hvp Wb bs Em)|].
        intros [rv en1] He1. cbn [snd] in He1. now apply IH.
    Qed.

    (* accessor paths *)
    Fixpoint path_ok (path : list rstep) (t tf : ty) : Prop :=
      match path with
      | [] => t = tf
      | RIdx i :: r => exists el k, t = TArr el k /\ i < k /\ path_ok r el tf
      | RPos i :: r =>
          (exists ts ti, t = TTup ts /\ nthN ts i = Some ti /\ path_ok r ti tf) \/
          (exists name def ti, t = TStruct name /\ assocN name (p_structs P) = Some def /\
                               nthN (map snd def) i = Some ti /\ path_ok r ti tf)
      end.

    Lemma path_ok_app p1 : forall p2 t tm tf, path_ok p1 t tm -> path_ok p2 tm tf -> path_ok (p1 ++ p2) t tf.
    Proof.
      induction p1 as [|[i|i] r IH]; intros p2 t tm tf H1 H2; cbn [path_ok app] in *.
      - now subst.
      - destruct H1 as [el [k [-> [Hi Hr]]]]. exists el, k. eauto.
      - destruct H1 as [[ts [ti [-> [Hn Hr]]]]|[name [def [ti [-> [Hd [Hn Hr]]]]]]].
        + left. exists ts, ti. eauto.
        + right. exists name, def, ti. eauto 6.
    Qed.

    Lemma x_accs_sound f g m tf : genv P g -> forall accs ct cur en prev,
      wt_accs P (wt_expr f P) g accs ct = Some tf ->
      (strict = true -> forallb (fun a => match a with AIdx _ i => frag_expr f i | _ => true end) accs = true) ->
      has_ty P cur ct = true -> env_ok P (scopes en) g ->
      res (fun r => (exists path, fst r = rev prev ++ path /\ path_ok path ct tf) /\
                    env_ok P (scopes (snd r)) g)
          (x_accs P (eval n P) m accs cur en prev).
    Proof.
      intros Hg accs. induction accs as [|a r IH]; intros ct cur en prev Hw Hf Hc He; cbn [wt_accs x_accs] in *.
      - injection Hw as <-. cbn [res fst snd]. split; [|assumption]. exists []. rewrite app_nil_r. now split.
      - assert (Hfr : strict = true -> forallb (fun a => match a with AIdx _ i => frag_expr f i | _ => true end) r = true).
        { intro Hs. specialize (Hf Hs). cbn [forallb] in Hf. andb_all. assumption. }
        destruct a as [aty ie|tty i|sty fld].
        + destruct ct as [| |el k| | |]; try discriminate Hw.
          destruct (ty_eqb aty (TArr el k) && is_unsigned (e_ty ie) && wt_expr f P g ie) eqn:Ec; [|discriminate Hw].
          andb_all.
          assert (Wi : WTe f g ie).
          { split; [assumption|]. intro Hs. specialize (Hf Hs). cbn [forallb] in Hf. andb_all. assumption. }
          use_IH IHe Wi Hg He vi en1 Hvi He1.
          destruct (has_ty_arr_inv _ _ _ _ Hc) as [vs [-> [Hlen Hall]]].
          match goal with H : is_unsigned (e_ty ie) = true |- _ => destruct (is_unsigned_inv _ H) as [b Ei] end.
          rewrite Ei in Hvi. destruct (has_ty_int_inv _ _ _ _ Hvi) as [z ->].
          destruct ((0 <=? z)%Z && (z <? Z.of_nat (length vs))%Z) eqn:Eb; [|exact I].
          apply andb_prop in Eb as [E1 E2]. apply Z.leb_le in E1. apply Z.ltb_lt in E2.
          destruct (nth_error vs (Z.to_nat z)) as [sub|] eqn:En.
          * eapply res_weaken; [apply (IH el sub en1 (RIdx (Z.to_N z) :: prev) Hw Hfr)|]; try assumption.
            -- apply nth_error_In in En. rewrite Forall_forall in Hall. now apply Hall.
            -- intros [path' en2] [[path [Hp1 Hp2]] He2]. cbn [fst snd] in *. split; [|assumption].
               exists (RIdx (Z.to_N z) :: path). split.
               ++ rewrite Hp1. cbn [rev]. now rewrite <- app_assoc.
               ++ cbn [path_ok]. exists el, k. split; [reflexivity|]. split; [|assumption].
                  unfold lenN in Hlen. lia.
          * exfalso. apply nth_error_None in En. lia.
        + destruct ct as [| | |ts| |]; try discriminate Hw.
          destruct (ty_eqb tty (TTup ts)); [|discriminate Hw].
          destruct (nthN ts i) as [ti|] eqn:Ei; [|discriminate Hw].
          destruct (has_ty_tup_inv _ _ _ Hc) as [vs [-> Hvs]].
          destruct (Forall2_nthN _ _ _ _ _ Hvs Ei) as [sub [Hsub Hst]]. rewrite Hsub.
          eapply res_weaken; [apply (IH ti sub en (RPos i :: prev) Hw Hfr)|]; try assumption.
          intros [path' en2] [[path [Hp1 Hp2]] He2]. cbn [fst snd] in *. split; [|assumption].
          exists (RPos i :: path). split.
          * rewrite Hp1. cbn [rev]. now rewrite <- app_assoc.
          * cbn [path_ok]. left. exists ts, ti. auto.
        + destruct ct as [| | | |name|]; try discriminate Hw.
          destruct (ty_eqb sty (TStruct name)) eqn:Es; [|discriminate Hw].
          destruct sty as [| | | |name'|]; try discriminate Es. cbn [ty_eqb] in Es. apply N.eqb_eq in Es. subst name'.
          destruct (assocN name (p_structs P)) as [def|] eqn:Ed; [|discriminate Hw].
          destruct (assocN fld def) as [ft|] eqn:Ef; [|discriminate Hw].
          destruct (has_ty_struct_inv _ _ _ Hc) as [vs [def' [-> [Ed' Hvs]]]].
          rewrite Ed in Ed'. injection Ed' as <-.
          destruct (assoc_index def fld ft 0 Ef) as [k [Hk1 Hk2]]. rewrite N.add_0_l in Hk1. rewrite Hk1.
          destruct (Forall2_nthN _ _ _ _ _ Hvs Hk2) as [sub [Hsub Hst]]. rewrite Hsub.
          eapply res_weaken; [apply (IH ft sub en (RPos k :: prev) Hw Hfr)|]; try assumption.
          intros [path' en2] [[path [Hp1 Hp2]] He2]. cbn [fst snd] in *. split; [|assumption].
          exists (RPos k :: path). split.
          * rewrite Hp1. cbn [rev]. now rewrite <- app_assoc.
          * cbn [path_ok]. right. exists name, def, ft. auto.
    Qed.

    Lemma set_nth_Forall (Q : value -> Prop) vs : forall i x,
      Forall Q vs -> Q x -> (i < length vs)%nat ->
      exists vs', set_nth_val vs i x = Some vs' /\ Forall Q vs' /\ length vs' = length vs.
    Proof.
      induction vs as [|v r IH]; intros i x Hall Hx Hi; cbn [length] in Hi; [lia|].
      inversion Hall; subst. destruct i as [|i]; cbn [set_nth_val].
      - eexists. split; [reflexivity|]. split; [constructor; assumption|reflexivity].
      - destruct (IH i x) as [r' [Hs [Hf Hl]]]; try assumption; [lia|]. rewrite Hs.
        eexists. split; [reflexivity|]. split; [constructor; assumption|]. cbn [length]. now rewrite Hl.
    Qed.

    Lemma set_nth_Forall2 (R : value -> ty -> Prop) vs ts : Forall2 R vs ts -> forall i x ti,
      nth_error ts i = Some ti -> R x ti ->
      exists vs', set_nth_val vs i x = Some vs' /\ Forall2 R vs' ts.
    Proof.
      induction 1 as [|v t vr tr Hv Hr IH]; intros i x ti Hn Hx; [destruct i; discriminate|].
      destruct i as [|i]; cbn [nth_error set_nth_val] in *.
      - injection Hn as ->. eexists. split; [reflexivity|]. constructor; assumption.
      - destruct (IH i x ti Hn Hx) as [r' [Hs Hf]]. rewrite Hs. eexists. split; [reflexivity|].
        constructor; assumption.
    Qed.

    Lemma write_path_ok tf nv : has_ty P nv tf = true -> forall path t v,
      path_ok path t tf -> has_ty P v t = true ->
      exists whole, write_path v path nv = Some whole /\ has_ty P whole t = true.
    Proof.
      intros Hnv path. induction path as [|[i|i] r IH]; intros t v Hp Hv; cbn [path_ok write_path] in *.
      - subst. eauto.
      - destruct Hp as [el [k [-> [Hi Hr]]]].
        destruct (has_ty_arr_inv _ _ _ _ Hv) as [vs [-> [Hlen Hall]]].
        assert (Hsub : exists sub, nthN vs i = Some sub) by (apply nthN_Some; lia).
        destruct Hsub as [sub Hsub]. rewrite Hsub.
        assert (Hst : has_ty P sub el = true).
        { rewrite nthN_spec in Hsub. apply nth_error_In in Hsub. rewrite Forall_forall in Hall. now apply Hall. }
        destruct (IH el sub Hr Hst) as [sub' [Hw Hs']]. rewrite Hw.
        destruct (set_nth_Forall (fun x => has_ty P x el = true) vs (N.to_nat i) sub' Hall Hs')
          as [vs' [Hset [Hall' Hlen']]]; [unfold lenN in Hlen; lia|].
        rewrite Hset. eexists. split; [reflexivity|]. rewrite has_ty_arr. apply andb_true_intro. split.
        + apply N.eqb_eq. unfold lenN in *. now rewrite Hlen'.
        + now apply forallb_Forall.
      - destruct Hp as [[ts [ti [-> [Hn Hr]]]]|[name [def [ti [-> [Hd [Hn Hr]]]]]]].
        + destruct (has_ty_tup_inv _ _ _ Hv) as [vs [-> Hvs]].
          destruct (Forall2_nthN _ _ _ _ _ Hvs Hn) as [sub [Hsub Hst]]. rewrite Hsub.
          destruct (IH ti sub Hr Hst) as [sub' [Hw Hs']]. rewrite Hw.
          rewrite nthN_spec in Hn.
          destruct (set_nth_Forall2 _ _ _ Hvs (N.to_nat i) sub' ti Hn Hs') as [vs' [Hset Hall']].
          rewrite Hset. eexists. split; [reflexivity|]. rewrite has_ty_tup. now apply forallb2_Forall2.
        + destruct (has_ty_struct_inv _ _ _ Hv) as [vs [def' [-> [Hd' Hvs]]]].
          rewrite Hd in Hd'. injection Hd' as <-.
          destruct (Forall2_nthN _ _ _ _ _ Hvs Hn) as [sub [Hsub Hst]]. rewrite Hsub.
          destruct (IH ti sub Hr Hst) as [sub' [Hw Hs']]. rewrite Hw.
          rewrite nthN_spec in Hn.
          destruct (set_nth_Forall2 _ _ _ Hvs (N.to_nat i) sub' ti Hn Hs') as [vs' [Hset Hall']].
          rewrite Hset. eexists. split; [reflexivity|]. rewrite has_ty_struct, Hd. now apply forallb2_Forall2.
    Qed.

    Theorem Ps_step : Ps (S n).
    Proof.
      intros fw g [si m] en g' t [Hw Hf] Hg He. destruct fw as [|f]; [discriminate Hw|].
      rewrite wt_stmt_eq in Hw. rewrite exec_eq. cbn zeta. cbn [frag_stmt] in Hf.
      destruct si as [p e|x e|x accs e|p arr body|p jt a b body|e].
      - (* let *)
        destruct (wt_expr f P g e && ty_eqb (p_ty p) (e_ty e)) eqn:Ec; [|discriminate Hw].
        destruct (wt_pat P p) as [tbs|] eqn:Ep; [|discriminate Hw]. injection Hw as <- <-. andb_all.
        assert (We : WTe f g e) by sub_wte.
        use_IH IHe We Hg He v en1 Hv He1.
        assert (Hvp : has_ty P v (p_ty p) = true) by (eapply has_ty_compat_r; eassumption).
        destruct (pmatch_sound P p v tbs Ep Hvp) as [Hm1 Hm2].
        destruct (pmatch P p v) as [bs|] eqn:Em.
        + cbn [res]. split; cbn [fst snd]; [reflexivity|]. apply bind_all_ok; [now apply Hm1|assumption].
        + apply SA_of_nofrag; [cbn; tauto|]. intro Hs. specialize (Hf Hs). andb_all.
          match goal with H : irrefutable p = true |- _ => destruct (Hm2 H) as [bs Hbs]; discriminate Hbs end.
      - (* let mut *)
        destruct (wt_expr f P g e) eqn:Ec; [|discriminate Hw]. injection Hw as <- <-.
        assert (We : WTe f g e) by (split; assumption).
        use_IH IHe We Hg He v en1 Hv He1.
        cbn [res]. split; cbn [fst snd]; [reflexivity|]. now apply bind_var_ok.
      - (* assignment *)
        destruct (tlookup g x) as [[tx [|]]|] eqn:El; try discriminate Hw.
        destruct (wt_accs P (wt_expr f P) g accs tx) as [tf|] eqn:Ea; [|discriminate Hw].
        destruct (ty_eqb tf (e_ty e) && wt_expr f P g e) eqn:Ec; [|discriminate Hw].
        injection Hw as <- <-. andb_all.
        assert (We : WTe f g e) by sub_wte.
        use_IH IHe We Hg He nv en0 Hnv He0.
        destruct (lookup_ok _ _ _ _ _ _ He0 El) as [cur [Hcur Hct]]. unfold lookup_var at 1. rewrite Hcur.
        eapply res_bind; [apply (x_accs_sound f g m tf Hg accs tx cur en0 [] Ea)|]; try assumption.
        { intro Hs. specialize (Hf Hs). andb_all. assumption. }
        intros [path en2] [[path' [Hp1 Hp2]] He2]. cbn [fst snd rev app] in *. subst path'.
        destruct (lookup_ok _ _ _ _ _ _ He2 El) as [cur2 [Hcur2 Hct2]]. unfold lookup_var. rewrite Hcur2.
        assert (Hnv' : has_ty P nv tf = true) by (eapply has_ty_compat_r; eassumption).
        destruct (write_path_ok tf nv Hnv' path tx cur2 Hp2 Hct2) as [whole [Hwr Hwt]]. rewrite Hwr.
        destruct (assign_ok _ _ _ _ _ _ _ He2 El Hwt) as [en3 [Has He3]]. rewrite Has.
        cbn [res]. split; cbn [fst snd]; [reflexivity|assumption].
      - (* for *)
        destruct (e_ty arr) as [| |el k| | |] eqn:Earr; try discriminate Hw.
        destruct (wt_expr f P g arr && ty_eqb (p_ty p) el) eqn:Ec; [|discriminate Hw].
        destruct (wt_pat P p) as [tbs|] eqn:Ep; [|discriminate Hw].
        destruct (wt_block f P (tbind_all ([] :: g) tbs false) body) as [tb|] eqn:Eb; [|discriminate Hw].
        injection Hw as <- <-. andb_all.
        assert (Wa : WTe f g arr) by sub_wte.
        use_IH IHe Wa Hg He va en1 Hva He1. rewrite Earr in Hva.
        destruct (has_ty_arr_inv _ _ _ _ Hva) as [vs [-> [Hlen Hall]]].
        assert (Wb : WTb f (tbind_all ([] :: g) tbs false) body tb).
        { split; [assumption|]. intro Hs. specialize (Hf Hs). andb_all. assumption. }
        eapply res_bind; [eapply (x_for_sound f g p tbs body tb el Hg Ep)|]; try eassumption.
        { intro Hs. specialize (Hf Hs). andb_all. assumption. }
        intros en2 He2. cbn [res]. split; cbn [fst snd]; [reflexivity|assumption].
      - (* join loop *)
        assert (Hns : strict = false) by (destruct strict; [discriminate (Hf eq_refl)|reflexivity]).
        destruct (e_ty a) as [| |ta ka| | |] eqn:Eta; try discriminate Hw.
        destruct (e_ty b) as [| |tb' kb| | |] eqn:Etb; try discriminate Hw.
        destruct (wt_expr f P g a && wt_expr f P g b && ty_eqb (p_ty p) (TTup [ta; tb'])) eqn:Ec; [|discriminate Hw].
        destruct (wt_pat P p) as [tbs|] eqn:Ep; [|discriminate Hw].
        destruct (wt_block f P (tbind_all ([] :: g) tbs false) body) as [tb|] eqn:Eb; [|discriminate Hw].
        injection Hw as <- <-. andb_all.
        assert (Wa : WTe f g a) by (split; [assumption|intro Hs; congruence]).
        assert (Wb' : WTe f g b) by (split; [assumption|intro Hs; congruence]).
        use_IH IHe Wa Hg He va en1 Hva He1. use_IH IHe Wb' Hg He1 vb en2 Hvb He2.
        rewrite Eta in Hva. rewrite Etb in Hvb.
        destruct (has_ty_arr_inv _ _ _ _ Hva) as [xs [-> [_ Hxs]]].
        destruct (has_ty_arr_inv _ _ _ _ Hvb) as [ys [-> [_ Hys]]].
        cbn [elem_ty_of].
        assert (Wb : WTb f (tbind_all ([] :: g) tbs false) body tb)
          by (split; [assumption|intro Hs; congruence]).
        eapply res_bind; [eapply (x_join_sound f g p tbs body tb jt ta tb' ys Hg Ep)|]; try eassumption.
        intros en3 He3. cbn [res]. split; cbn [fst snd]; [reflexivity|assumption].
      - (* expression statement *)
        destruct (wt_expr f P g e) eqn:Ec; [|discriminate Hw]. injection Hw as <- <-.
        assert (We : WTe f g e) by (split; assumption).
        exact (IHe _ _ _ _ We Hg He).
    Qed.
  End Stmts.

  Theorem sound_all : forall n, Pe n /\ Pb n /\ Ps n.
  Proof.
    induction n as [|n [IHe [IHb IHs]]].
    - split; [|split]; red; intros; exact I.
    - assert (Hs : Ps (S n)) by (apply Ps_step; assumption).
      split; [apply Pe_step; assumption|]. split; [|exact Hs]. apply Pb_step. exact IHs.
  Qed.
End Sound.

(* ------------------------------------------------------------ the theorems *)

Lemma wt_program_fns P : wt_program P = true ->
  forall d, In d (p_fns P) -> wt_fn P (consts_tenv P) d = true.
Proof.
  unfold wt_program. intros H d Hd. apply andb_prop in H as [_ H]. rewrite forallb_forall in H. now apply H.
Qed.

Lemma frag_program_fns P (strict : bool) : (strict = true -> frag_program P = true) ->
  strict = true -> forall d, In d (p_fns P) -> frag_block wt_fuel (fn_body d) = true.
Proof.
  intros H Hs d Hd. specialize (H Hs). unfold frag_program in H. rewrite forallb_forall in H. now apply H.
Qed.

(* Preservation and progress for expressions, every construct of the language.
   [strict = false]: evaluation of a checked expression in a typed environment never gets
   stuck except with one of the codes [stuck_allowed] (pattern-match failure, join);
   [strict = true]: inside the syntactic fragment [frag_*] it never gets stuck at all. *)
Theorem wt_sound_expr P (strict : bool) :
  wt_program P = true -> (strict = true -> frag_program P = true) ->
  forall n fw g e en,
    wt_expr fw P g e = true -> (strict = true -> frag_expr fw e = true) ->
    genv P g -> env_ok P (scopes en) g ->
    match eval n P en e with
    | Done (v, en') => has_ty P v (e_ty e) = true /\ env_ok P (scopes en') g
    | Stuck c => In c stuck_allowed /\ strict = false
    | Panicked _ _ | NoFuel => True
    end.
Proof.
  intros Hwt Hfr n fw g e en Hw Hf Hg He.
  destruct (sound_all P strict (wt_program_fns P Hwt) (frag_program_fns P strict Hfr) n) as [HPe _].
  specialize (HPe fw g e en (conj Hw Hf) Hg He). unfold res, SA, QE in HPe.
  destruct (eval n P en e) as [[v en']| | |]; exact HPe.
Qed.

Theorem wt_sound_block P (strict : bool) :
  wt_program P = true -> (strict = true -> frag_program P = true) ->
  forall n fw g b en t,
    wt_block fw P g b = Some t -> (strict = true -> frag_block fw b = true) ->
    genv P g -> env_ok P (scopes en) g ->
    match exec_block n P en b with
    | Done (v, en') => has_ty P v t = true /\ env_ok P (tl (scopes en')) (tl g)
    | Stuck c => In c stuck_allowed /\ strict = false
    | Panicked _ _ | NoFuel => True
    end.
Proof.
  intros Hwt Hfr n fw g b en t Hw Hf Hg He.
  destruct (sound_all P strict (wt_program_fns P Hwt) (frag_program_fns P strict Hfr) n) as [_ [HPb _]].
  specialize (HPb fw g b en t (conj Hw Hf) Hg He). unfold res, SA in HPb.
  destruct (exec_block n P en b) as [[v en']| | |]; exact HPb.
Qed.

Theorem wt_sound_stmt P (strict : bool) :
  wt_program P = true -> (strict = true -> frag_program P = true) ->
  forall n fw g s en g' t,
    wt_stmt fw P g s = Some (g', t) -> (strict = true -> frag_stmt fw s = true) ->
    genv P g -> env_ok P (scopes en) g ->
    match exec n P en s with
    | Done (v, en') => has_ty P v t = true /\ env_ok P (scopes en') g'
    | Stuck c => In c stuck_allowed /\ strict = false
    | Panicked _ _ | NoFuel => True
    end.
Proof.
  intros Hwt Hfr n fw g s en g' t Hw Hf Hg He.
  destruct (sound_all P strict (wt_program_fns P Hwt) (frag_program_fns P strict Hfr) n) as [_ [_ HPs]].
  specialize (HPs fw g s en g' t (conj Hw Hf) Hg He). unfold res, SA, QE in HPs.
  destruct (exec n P en s) as [[v en']| | |]; exact HPs.
Qed.

(* global constants: literals, evaluated into the outermost scope *)
Lemma eval_lit_ok P fuel en e :
  is_lit e = true -> wt_expr wt_fuel P [] e = true ->
  match eval fuel P en e with
  | Done (v, en') => en' = en /\ has_ty P v (e_ty e) = true
  | NoFuel => True
  | _ => False
  end.
Proof.
  intros Hl Hw. rewrite wt_fuel_S in Hw. destruct fuel as [|n]; [exact I|].
  destruct e as [ei m t]. rewrite eval_eq. cbn zeta. cbn [wt_expr] in Hw. cbn [e_ty].
  destruct ei; try discriminate Hl; (split; [reflexivity|]).
  - apply is_bool_inv in Hw. now subst.
  - apply is_bool_inv in Hw. now subst.
  - destruct t; try discriminate Hw. reflexivity.
  - destruct t; try discriminate Hw. reflexivity.
Qed.

Lemma eval_consts_ok P fuel : wt_program P = true ->
  match eval_consts fuel P with
  | Done en0 => env_ok P (scopes en0) (consts_tenv P)
  | NoFuel => True
  | _ => False
  end.
Proof.
  unfold wt_program, eval_consts, consts_tenv, tbind_all. intro H. apply andb_prop in H as [H _].
  assert (He : env_ok P (scopes (mkEnv [[]] false)) [[]]) by (repeat constructor).
  revert He. generalize (mkEnv [[]] false) as en. generalize ([[]] : tenv) as g.
  induction (p_consts P) as [|[x e] cs IH]; intros g en He; cbn [map fold_left].
  - exact He.
  - cbn [forallb] in H. apply andb_prop in H as [Hc Hr]. cbn [snd fst] in *. apply andb_prop in Hc as [Hl Hw].
    pose proof (eval_lit_ok P fuel en e Hl Hw) as Hev.
    destruct (eval fuel P en e) as [[v en1]| | |]; try contradiction; [|exact I].
    destruct Hev as [-> Hv]. cbn [obind]. apply (IH Hr). now apply bind_var_ok.
Qed.

(* Theorem 3 at the level of values: the body of [main], run as [run_main] runs it *)
Theorem wt_main_values P d fuel args :
  wt_program P = true -> find_fn P (p_main P) = Some d -> binds_ok P args (fn_params d) ->
  match eval_consts fuel P with
  | Done en0 =>
      match exec_block fuel P (push_scope (bind_all (push_scope en0) args)) (fn_body d) with
      | Done (v, _) => has_ty P v (fn_ret d) = true
      | Stuck c => In c stuck_allowed /\ frag_program P = false
      | Panicked _ _ | NoFuel => True
      end
  | NoFuel => True
  | Stuck _ | Panicked _ _ => False
  end.
Proof.
  intros Hwt Hfn Hargs. pose proof (eval_consts_ok P fuel Hwt) as Hc.
  destruct (eval_consts fuel P) as [en0| | |]; try contradiction; [|exact I].
  assert (Hin : In d (p_fns P)) by (unfold find_fn in Hfn; apply find_some in Hfn; tauto).
  destruct (wt_fn_inv _ _ _ (wt_program_fns P Hwt d Hin)) as [tb [Eb Hret]].
  assert (Hg0 : genv P ([] :: consts_tenv P)) by (rewrite consts_tenv_one; exists [], []; reflexivity).
  destruct (genv_tbind_all P (fn_params d) true _ Hg0) as [Hg1 _].
  pose proof (bind_all_ok P _ _ true Hargs _ _ (push_ok _ _ _ Hc)) as He1.
  pose proof (wt_sound_block P (frag_program P) Hwt (fun H => H) fuel wt_fuel _ (fn_body d) _ tb Eb
                (fun Hs => frag_program_fns P (frag_program P) (fun H => H) Hs d Hin)
                (genv_push _ _ Hg1) (push_ok _ _ _ He1)) as Hb.
  destruct (exec_block fuel P _ (fn_body d)) as [[v en']| | |]; try exact Hb.
  destruct Hb as [Hv _]. eapply has_ty_compat_l; eassumption.
Qed.
