(* THE TWO ENCODINGS OF VALUES ARE THE SAME.

   (A) Lang/Types.v + Lang/Literal.v: the model of the real crate's `Literal` API (type test
       `is_of_type`, encoder `as_bits`, decoder `from_bits`), tied to the Rust code;
   (B) Lang/Sem.v ([Sem.encode] / [Sem.decode]) and Compile/ValEnc.v ([has_enc]), which the
       theorems "bit-level semantics = source semantics" (Compile/TSemSemFull.v) speak about.

   1  translations:  [rty_of] / [ty_of_ast] (an Ast type with the struct / enum names of the
      program resolved into a Types.rty; variants are named by their position, which is what
      Sem's [VEnum tag] carries), [enum_env] (the enum environment `as_bits` consults),
      [lit_of_value] (the canonical literal of a value)
   2  [lit_enc_agree]: for [has_enc P t v w] the literal of v is a value of the translated
      type ([has_type], [is_of_type]), `as_bits` yields exactly w, and ([lit_enc_decode])
      `from_bits` at the translated type yields the literal back; sizes ([size_agree]) and
      tag widths ([tag_bits_log2_up]) of the two models agree
   3  [lit_program_agree]: for a program of the full fragment, from the real API's encoder
      to the real API's decoder through [tsem_program]
   4  [LitEncExample] *)
From Coq Require Import Lia ZArith.
From GV Require Import Base.Util Lang.Types Lang.Literal Lang.LiteralProofs.
From GV Require Import Lang.Ast Lang.Wt Lang.ValTy Lang.WtSound Lang.WtShape Compile.Lower Compile.TSem
  Compile.TSemArith1 Compile.TSemSemExpr Compile.ValEnc.
From GV Require Lang.Sem.
Local Open Scope N_scope.

(* ------------------------------------------------------------------ 1. translations *)

(* integer types: the Ast carries the width only (usize and the unsuffixed types are 32 bits
   there); the translation picks the sized type of that width *)
Definition uty_of (b : N) : option uty :=
  if b =? 8 then Some U8 else if b =? 16 then Some U16 else if b =? 32 then Some U32
  else if b =? 64 then Some U64 else None.
Definition sty_of (b : N) : option sty :=
  if b =? 8 then Some I8 else if b =? 16 then Some I16 else if b =? 32 then Some I32
  else if b =? 64 then Some I64 else None.

Section RtyAux.
  Variable rt : Ast.ty -> option rty.

  Fixpoint rtys_of (ts : list Ast.ty) : option rtys :=
    match ts with
    | [] => Some RsNil
    | t :: r =>
        match rt t, rtys_of r with
        | Some a, Some b => Some (RsCons a b)
        | _, _ => None
        end
    end.

  (* fields in the order of the definition *)
  Fixpoint rfields_of (fs : list (N * Ast.ty)) : option rfields :=
    match fs with
    | [] => Some RFNil
    | (fn, ft) :: r =>
        match rt ft, rfields_of r with
        | Some a, Some b => Some (RFCons fn a b)
        | _, _ => None
        end
    end.

  (* variant number k is named k; no payload = unit variant *)
  Fixpoint rvariants_of (vs : list (list Ast.ty)) (k : N) : option rvariants :=
    match vs with
    | [] => Some RVNil
    | ts :: r =>
        match ts with
        | [] => option_map (RVUnit k) (rvariants_of r (k + 1))
        | _ :: _ =>
            match rtys_of ts, rvariants_of r (k + 1) with
            | Some a, Some b => Some (RVTuple k a b)
            | _, _ => None
            end
        end
    end.
End RtyAux.

Fixpoint rty_of (f : nat) (P : program) (t : Ast.ty) : option rty :=
  match f with
  | O => None
  | S f' =>
      match t with
      | TBool => Some RBool
      | TInt false b => option_map RUnsigned (uty_of b)
      | TInt true b => option_map RSigned (sty_of b)
      | TArr el n => option_map (fun r => RArray r n) (rty_of f' P el)
      | TTup ts => option_map RTuple (rtys_of (rty_of f' P) ts)
      | TStruct name =>
          match assocN name (p_structs P) with
          | Some def => option_map (RStruct name) (rfields_of (rty_of f' P) def)
          | None => None
          end
      | TEnum name =>
          match assocN name (p_enums P) with
          | Some variants => option_map (REnum name) (rvariants_of (rty_of f' P) variants 0)
          | None => None
          end
      end
  end.

Definition lit_fuel : nat := pred Sem.ty_fuel.

Definition ty_of_ast (P : program) (t : Ast.ty) : option rty := rty_of lit_fuel P t.

(* the enum environment `Literal::as_bits` looks enum names up in *)
Fixpoint enum_env_of (f : nat) (P : program) (es : list (N * list (list Ast.ty))) : list (N * rvariants) :=
  match es with
  | [] => []
  | (n, vs) :: r =>
      match rvariants_of (rty_of f P) vs 0 with
      | Some rvs => (n, rvs) :: enum_env_of f P r
      | None => enum_env_of f P r
      end
  end.

Definition enum_env (P : program) : list (N * rvariants) := enum_env_of lit_fuel P (p_enums P).

Section LitAux.
  Variable lo : Sem.value -> Ast.ty -> option lit.

  Fixpoint lits_zip (vs : list Sem.value) (ts : list Ast.ty) : option lits :=
    match vs, ts with
    | [], [] => Some LsNil
    | v :: vr, t :: tr =>
        match lo v t, lits_zip vr tr with
        | Some a, Some b => Some (LsCons a b)
        | _, _ => None
        end
    | _, _ => None
    end.

  Fixpoint lits_all (vs : list Sem.value) (el : Ast.ty) : option lits :=
    match vs with
    | [] => Some LsNil
    | v :: vr =>
        match lo v el, lits_all vr el with
        | Some a, Some b => Some (LsCons a b)
        | _, _ => None
        end
    end.

  Fixpoint lfields_zip (vs : list Sem.value) (fs : list (N * Ast.ty)) : option lfields :=
    match vs, fs with
    | [], [] => Some LFNil
    | v :: vr, (fn, ft) :: fr =>
        match lo v ft, lfields_zip vr fr with
        | Some a, Some b => Some (LFCons fn a b)
        | _, _ => None
        end
    | _, _ => None
    end.
End LitAux.

(* the canonical literal of a value of an Ast type *)
Fixpoint lit_of_value (P : program) (v : Sem.value) (t : Ast.ty) {struct v} : option lit :=
  match v, t with
  | Sem.VBool b, TBool => Some (if b then LTrue else LFalse)
  | Sem.VInt z, TInt false b => option_map (LUnsigned (Z.to_N z)) (uty_of b)
  | Sem.VInt z, TInt true b => option_map (LSigned z) (sty_of b)
  | Sem.VArr vs, TArr el n => option_map LArray (lits_all (lit_of_value P) vs el)
  | Sem.VTup vs, TTup ts => option_map LTuple (lits_zip (lit_of_value P) vs ts)
  | Sem.VTup vs, TStruct name =>
      match assocN name (p_structs P) with
      | Some def => option_map (LStruct name) (lfields_zip (lit_of_value P) vs def)
      | None => None
      end
  | Sem.VEnum tag vs, TEnum name =>
      match assocN name (p_enums P) with
      | Some variants =>
          match nthN variants tag with
          | Some [] => match vs with [] => Some (LEnumUnit name tag) | _ :: _ => None end
          | Some (t0 :: tr) => option_map (LEnumTuple name tag) (lits_zip (lit_of_value P) vs (t0 :: tr))
          | None => None
          end
      | None => None
      end
  | _, _ => None
  end.

(* ------------------------------------------------------------------ integers *)

Lemma ubits_of_bits_of_Z k n : ubits_of k n = Sem.bits_of_Z k (Z.of_N n).
Proof.
  induction k as [|k IH]; [reflexivity|]. cbn [ubits_of Sem.bits_of_Z]. rewrite IH. f_equal.
  rewrite <- nat_N_Z. symmetry. apply Z.testbit_of_N.
Qed.

Lemma sbits_of_bits_of_Z k z : sbits_of k z = Sem.bits_of_Z k z.
Proof. induction k as [|k IH]; [reflexivity|]. cbn [sbits_of Sem.bits_of_Z]. now rewrite IH. Qed.

Lemma uty_of_cases b u : uty_of b = Some u ->
  (b = 8 /\ u = U8) \/ (b = 16 /\ u = U16) \/ (b = 32 /\ u = U32) \/ (b = 64 /\ u = U64).
Proof.
  unfold uty_of. destruct (N.eqb_spec b 8); [intros [= <-]; auto|].
  destruct (N.eqb_spec b 16); [intros [= <-]; auto|].
  destruct (N.eqb_spec b 32); [intros [= <-]; auto|].
  destruct (N.eqb_spec b 64); [intros [= <-]; auto 6|discriminate].
Qed.

Lemma sty_of_cases b s : sty_of b = Some s ->
  (b = 8 /\ s = I8) \/ (b = 16 /\ s = I16) \/ (b = 32 /\ s = I32) \/ (b = 64 /\ s = I64).
Proof.
  unfold sty_of. destruct (N.eqb_spec b 8); [intros [= <-]; auto|].
  destruct (N.eqb_spec b 16); [intros [= <-]; auto|].
  destruct (N.eqb_spec b 32); [intros [= <-]; auto|].
  destruct (N.eqb_spec b 64); [intros [= <-]; auto 6|discriminate].
Qed.

Lemma uty_of_bits b u : uty_of b = Some u -> ubits u = b.
Proof. intro H. destruct (uty_of_cases b u H) as [[-> ->]|[[-> ->]|[[-> ->]|[-> ->]]]]; reflexivity. Qed.

Lemma sty_of_bits b s : sty_of b = Some s -> sbits s = b.
Proof. intro H. destruct (sty_of_cases b s H) as [[-> ->]|[[-> ->]|[[-> ->]|[-> ->]]]]; reflexivity. Qed.

(* the range of the Ast type is the range of the sized type *)
Lemma uty_of_range b u z : uty_of b = Some u -> Sem.in_range false b z = true ->
  (0 <= z)%Z /\ u_in_range (Z.to_N z) u = true.
Proof.
  intros H Hr. unfold Sem.in_range in Hr. apply andb_prop in Hr as [H1 H2].
  apply Z.leb_le in H1. apply Z.ltb_lt in H2. split; [exact H1|].
  unfold u_in_range.
  destruct (uty_of_cases b u H) as [[-> ->]|[[-> ->]|[[-> ->]|[-> ->]]]]; cbn [umax]; apply N.leb_le.
  - change (2 ^ Z.of_N 8)%Z with 256%Z in H2. lia.
  - change (2 ^ Z.of_N 16)%Z with 65536%Z in H2. lia.
  - change (2 ^ Z.of_N 32)%Z with 4294967296%Z in H2. lia.
  - change (2 ^ Z.of_N 64)%Z with 18446744073709551616%Z in H2. lia.
Qed.

Lemma sty_of_range b s z : sty_of b = Some s -> Sem.in_range true b z = true -> s_in_range z s = true.
Proof.
  intros H Hr. unfold Sem.in_range in Hr. apply andb_prop in Hr as [H1 H2].
  apply Z.leb_le in H1. apply Z.ltb_lt in H2. unfold s_in_range.
  destruct (sty_of_cases b s H) as [[-> ->]|[[-> ->]|[[-> ->]|[-> ->]]]]; cbn [smin smax];
    apply andb_true_intro; split; try apply Z.leb_le.
  - change (2 ^ (Z.of_N 8 - 1))%Z with 128%Z in H1. lia.
  - change (2 ^ (Z.of_N 8 - 1))%Z with 128%Z in H2. lia.
  - change (2 ^ (Z.of_N 16 - 1))%Z with 32768%Z in H1. lia.
  - change (2 ^ (Z.of_N 16 - 1))%Z with 32768%Z in H2. lia.
  - change (2 ^ (Z.of_N 32 - 1))%Z with 2147483648%Z in H1. lia.
  - change (2 ^ (Z.of_N 32 - 1))%Z with 2147483648%Z in H2. lia.
  - change (2 ^ (Z.of_N 64 - 1))%Z with 9223372036854775808%Z in H1. lia.
  - change (2 ^ (Z.of_N 64 - 1))%Z with 9223372036854775808%Z in H2. lia.
Qed.

(* ------------------------------------------------------------------ the tag width: Sem.tag_bits
   (a search up to 64) is compile.rs' enum_tag_size (log2_up) for at most 2^64 variants *)

Lemma tag_bits_aux_min fuel : forall b n k, (forall j, j < b -> 2 ^ j < n) ->
  k < Sem.tag_bits_aux fuel b n -> 2 ^ k < n.
Proof.
  induction fuel as [|f IH]; intros b n k Hb Hk; cbn [Sem.tag_bits_aux] in Hk.
  - now apply Hb.
  - destruct (N.ltb_spec (2 ^ b) n) as [Hlt|Hge]; [|now apply Hb].
    apply (IH (b + 1) n k); [|exact Hk]. intros j Hj.
    destruct (N.eq_dec j b) as [->|Hne]; [exact Hlt|apply Hb; lia].
Qed.

Lemma tag_bits_log2_up n : n <= 2 ^ 64 -> Sem.tag_bits n = N.log2_up n.
Proof.
  intro Hn. pose proof (tag_bits_spec n Hn) as Hup.
  assert (Hmin : forall k, k < Sem.tag_bits n -> 2 ^ k < n).
  { intros k Hk. apply (tag_bits_aux_min 64 0 n k); [intros j Hj; lia|exact Hk]. }
  destruct (N.le_gt_cases n 1) as [H1|H1].
  - rewrite N.log2_up_eqn0 by exact H1. destruct (N.eq_0_gt_0_cases (Sem.tag_bits n)) as [E|E]; [exact E|].
    specialize (Hmin 0 E). change (2 ^ 0) with 1 in Hmin. lia.
  - symmetry. assert (Hpos : 0 < Sem.tag_bits n).
    { destruct (N.eq_0_gt_0_cases (Sem.tag_bits n)) as [E|E]; [|exact E].
      rewrite E in Hup. change (2 ^ 0) with 1 in Hup. lia. }
    apply N.log2_up_unique; [exact Hpos|]. split; [apply Hmin; lia|exact Hup].
Qed.

(* ... and beyond 2^64 variants the two functions differ (only as mathematical objects) *)
Example tag_bits_capped : Sem.tag_bits (2 ^ 64 + 1) = 64 /\ N.log2_up (2 ^ 64 + 1) = 65.
Proof. split; vm_compute; reflexivity. Qed.

(* ------------------------------------------------------------------ the type translation:
   more fuel changes nothing; success means the type is within the fuel *)

Lemma rtys_of_mono (r1 r2 : Ast.ty -> option rty) : (forall t x, r1 t = Some x -> r2 t = Some x) ->
  forall ts x, rtys_of r1 ts = Some x -> rtys_of r2 ts = Some x.
Proof.
  intros H. induction ts as [|t ts IH]; intros x Hx; cbn [rtys_of] in *; [exact Hx|].
  destruct (r1 t) as [a|] eqn:Ea; [|discriminate Hx].
  destruct (rtys_of r1 ts) as [b|] eqn:Eb; [|discriminate Hx].
  now rewrite (H t a Ea), (IH b eq_refl).
Qed.

Lemma rfields_of_mono (r1 r2 : Ast.ty -> option rty) : (forall t x, r1 t = Some x -> r2 t = Some x) ->
  forall fs x, rfields_of r1 fs = Some x -> rfields_of r2 fs = Some x.
Proof.
  intros H. induction fs as [|[fn ft] fs IH]; intros x Hx; cbn [rfields_of] in *; [exact Hx|].
  destruct (r1 ft) as [a|] eqn:Ea; [|discriminate Hx].
  destruct (rfields_of r1 fs) as [b|] eqn:Eb; [|discriminate Hx].
  now rewrite (H ft a Ea), (IH b eq_refl).
Qed.

Lemma rvariants_of_mono (r1 r2 : Ast.ty -> option rty) : (forall t x, r1 t = Some x -> r2 t = Some x) ->
  forall vs k x, rvariants_of r1 vs k = Some x -> rvariants_of r2 vs k = Some x.
Proof.
  intros H. induction vs as [|ts vs IH]; intros k x Hx; cbn [rvariants_of] in *; [exact Hx|].
  destruct ts as [|t0 tr].
  - destruct (rvariants_of r1 vs (k + 1)) as [b|] eqn:Eb; [|discriminate Hx].
    now rewrite (IH _ b Eb).
  - destruct (rtys_of r1 (t0 :: tr)) as [a|] eqn:Ea; [|discriminate Hx].
    destruct (rvariants_of r1 vs (k + 1)) as [b|] eqn:Eb; [|discriminate Hx].
    now rewrite (rtys_of_mono r1 r2 H _ a Ea), (IH _ b Eb).
Qed.

Lemma rty_of_mono P : forall f t x, rty_of f P t = Some x -> forall g, (f <= g)%nat -> rty_of g P t = Some x.
Proof.
  induction f as [|f IH]; intros t x Hx g Hg; [discriminate Hx|].
  destruct g as [|g]; [lia|]. assert (Hfg : (f <= g)%nat) by lia.
  assert (Hm : forall t0 x0, rty_of f P t0 = Some x0 -> rty_of g P t0 = Some x0)
    by (intros t0 x0 H0; exact (IH t0 x0 H0 g Hfg)).
  destruct t as [|sg b|el n|ts|name|name]; cbn [rty_of] in Hx |- *; try exact Hx.
  - destruct (rty_of f P el) as [r|] eqn:Er; [|discriminate Hx]. now rewrite (Hm el r Er).
  - destruct (rtys_of (rty_of f P) ts) as [r|] eqn:Er; [|discriminate Hx].
    now rewrite (rtys_of_mono _ _ Hm ts r Er).
  - destruct (assocN name (p_structs P)) as [def|]; [|discriminate Hx].
    destruct (rfields_of (rty_of f P) def) as [r|] eqn:Er; [|discriminate Hx].
    now rewrite (rfields_of_mono _ _ Hm def r Er).
  - destruct (assocN name (p_enums P)) as [variants|]; [|discriminate Hx].
    destruct (rvariants_of (rty_of f P) variants 0) as [r|] eqn:Er; [|discriminate Hx].
    now rewrite (rvariants_of_mono _ _ Hm variants 0 r Er).
Qed.

Lemma rtys_of_In (r : Ast.ty -> option rty) ts x : rtys_of r ts = Some x ->
  forall t, In t ts -> exists y, r t = Some y.
Proof.
  revert x. induction ts as [|t0 ts IH]; intros x Hx t Hin; [contradiction|]. cbn [rtys_of] in Hx.
  destruct (r t0) as [a|] eqn:Ea; [|discriminate Hx].
  destruct (rtys_of r ts) as [b|] eqn:Eb; [|discriminate Hx].
  destruct Hin as [<-|Hin]; [eauto|exact (IH b eq_refl t Hin)].
Qed.

Lemma rfields_of_In (r : Ast.ty -> option rty) fs x : rfields_of r fs = Some x ->
  forall nt, In nt fs -> exists y, r (snd nt) = Some y.
Proof.
  revert x. induction fs as [|[fn ft] fs IH]; intros x Hx nt Hin; [contradiction|]. cbn [rfields_of] in Hx.
  destruct (r ft) as [a|] eqn:Ea; [|discriminate Hx].
  destruct (rfields_of r fs) as [b|] eqn:Eb; [|discriminate Hx].
  destruct Hin as [<-|Hin]; [cbn [snd]; eauto|exact (IH b eq_refl nt Hin)].
Qed.

Lemma rvariants_of_In (r : Ast.ty -> option rty) vs : forall k x, rvariants_of r vs k = Some x ->
  forall ts t, In ts vs -> In t ts -> exists y, r t = Some y.
Proof.
  induction vs as [|ts0 vs IH]; intros k x Hx ts t Hin Ht; [contradiction|]. cbn [rvariants_of] in Hx.
  destruct ts0 as [|t0 tr].
  - destruct (rvariants_of r vs (k + 1)) as [b|] eqn:Eb; [|discriminate Hx].
    destruct Hin as [<-|Hin]; [contradiction|exact (IH _ b Eb ts t Hin Ht)].
  - destruct (rtys_of r (t0 :: tr)) as [a|] eqn:Ea; [|discriminate Hx].
    destruct (rvariants_of r vs (k + 1)) as [b|] eqn:Eb; [|discriminate Hx].
    destruct Hin as [<-|Hin]; [exact (rtys_of_In r _ a Ea t Ht)|exact (IH _ b Eb ts t Hin Ht)].
Qed.

Lemma rty_of_ty_ok P : forall f t x, rty_of f P t = Some x -> ty_ok f P t = true.
Proof.
  induction f as [|f IH]; intros t x Hx; [discriminate Hx|].
  destruct t as [|sg b|el n|ts|name|name]; cbn [rty_of] in Hx; cbn [ty_ok]; try reflexivity.
  - destruct (rty_of f P el) as [r|] eqn:Er; [|discriminate Hx]. exact (IH el r Er).
  - destruct (rtys_of (rty_of f P) ts) as [r|] eqn:Er; [|discriminate Hx].
    apply forallb_forall. intros t Ht. destruct (rtys_of_In _ _ _ Er t Ht) as [y Hy]. exact (IH t y Hy).
  - destruct (assocN name (p_structs P)) as [def|]; [|discriminate Hx].
    destruct (rfields_of (rty_of f P) def) as [r|] eqn:Er; [|discriminate Hx].
    apply forallb_forall. intros nt Hnt. destruct (rfields_of_In _ _ _ Er nt Hnt) as [y Hy]. exact (IH _ y Hy).
  - destruct (assocN name (p_enums P)) as [variants|]; [|discriminate Hx].
    destruct (rvariants_of (rty_of f P) variants 0) as [r|] eqn:Er; [|discriminate Hx].
    apply forallb_forall. intros ts Hts. apply forallb_forall. intros t Ht.
    destruct (rvariants_of_In _ _ _ _ Er ts t Hts Ht) as [y Hy]. exact (IH t y Hy).
Qed.

Lemma rty_of_fits P f t x : rty_of f P t = Some x -> (f <= lit_fuel)%nat -> ty_fits P t.
Proof. intros Hx Hf. exact (ty_fits_of_ty_ok P f t (rty_of_ty_ok P f t x Hx) Hf). Qed.

Lemma ty_of_ast_fits P t x : ty_of_ast P t = Some x -> ty_fits P t.
Proof. intro H. exact (rty_of_fits P _ t x H (le_n _)). Qed.

(* ------------------------------------------------------------------ sizes agree *)

Lemma rvariants_of_count (r : Ast.ty -> option rty) vs : forall k x, rvariants_of r vs k = Some x ->
  nvariants x = lenN vs.
Proof.
  induction vs as [|ts vs IH]; intros k x Hx; cbn [rvariants_of] in Hx.
  - injection Hx as <-. reflexivity.
  - rewrite lenN_cons. destruct ts as [|t0 tr].
    + destruct (rvariants_of r vs (k + 1)) as [b|] eqn:Eb; [|discriminate Hx]. injection Hx as <-.
      cbn [nvariants]. now rewrite (IH _ b Eb).
    + destruct (rtys_of r (t0 :: tr)) as [a|]; [|discriminate Hx].
      destruct (rvariants_of r vs (k + 1)) as [b|] eqn:Eb; [|discriminate Hx]. injection Hx as <-.
      cbn [nvariants]. now rewrite (IH _ b Eb).
Qed.

Section SizeAux.
  Variable r : Ast.ty -> option rty.
  Variable sz : Ast.ty -> N.
  Hypothesis Hr : forall t x, r t = Some x -> size x = sz t.

  Lemma size_rtys_of ts : forall x, rtys_of r ts = Some x -> size_tys x = Sem.sum_map sz ts.
  Proof.
    induction ts as [|t ts IH]; intros x Hx; cbn [rtys_of] in Hx.
    - injection Hx as <-. reflexivity.
    - destruct (r t) as [a|] eqn:Ea; [|discriminate Hx].
      destruct (rtys_of r ts) as [b|] eqn:Eb; [|discriminate Hx]. injection Hx as <-.
      cbn [size_tys Sem.sum_map]. now rewrite (Hr t a Ea), (IH b eq_refl).
  Qed.

  Lemma size_rfields_of fs : forall x, rfields_of r fs = Some x ->
    size_fields x = Sem.sum_map (fun nt => sz (snd nt)) fs.
  Proof.
    induction fs as [|[fn ft] fs IH]; intros x Hx; cbn [rfields_of] in Hx.
    - injection Hx as <-. reflexivity.
    - destruct (r ft) as [a|] eqn:Ea; [|discriminate Hx].
      destruct (rfields_of r fs) as [b|] eqn:Eb; [|discriminate Hx]. injection Hx as <-.
      cbn [size_fields Sem.sum_map snd]. now rewrite (Hr ft a Ea), (IH b eq_refl).
  Qed.

  Lemma size_rvariants_of vs : forall k x, rvariants_of r vs k = Some x ->
    max_payload x = fold_right N.max 0 (map (fun ts => Sem.sum_map sz ts) vs).
  Proof.
    induction vs as [|ts vs IH]; intros k x Hx; cbn [rvariants_of] in Hx.
    - injection Hx as <-. reflexivity.
    - cbn [map fold_right]. destruct ts as [|t0 tr].
      + destruct (rvariants_of r vs (k + 1)) as [b|] eqn:Eb; [|discriminate Hx]. injection Hx as <-.
        cbn [max_payload Sem.sum_map]. rewrite (IH _ b Eb). lia.
      + destruct (rtys_of r (t0 :: tr)) as [a|] eqn:Ea; [|discriminate Hx].
        destruct (rvariants_of r vs (k + 1)) as [b|] eqn:Eb; [|discriminate Hx]. injection Hx as <-.
        cbn [max_payload]. now rewrite (size_rtys_of _ a Ea), (IH _ b Eb).
  Qed.
End SizeAux.

(* the size of the translated type (compile.rs) is the size Sem.v / Lower.v use *)
Lemma size_agree_fuel P : enums_small P = true ->
  forall f t x, rty_of f P t = Some x -> size x = Sem.size_of f P t.
Proof.
  intros Hsm. induction f as [|f IH]; intros t x Hx; [discriminate Hx|].
  destruct t as [|sg b|el n|ts|name|name]; cbn [rty_of] in Hx; cbn [Sem.size_of].
  - injection Hx as <-. reflexivity.
  - destruct sg.
    + destruct (sty_of b) as [s|] eqn:Es; [|discriminate Hx]. injection Hx as <-. exact (sty_of_bits b s Es).
    + destruct (uty_of b) as [u|] eqn:Eu; [|discriminate Hx]. injection Hx as <-. exact (uty_of_bits b u Eu).
  - destruct (rty_of f P el) as [r|] eqn:Er; [|discriminate Hx]. injection Hx as <-.
    cbn [size]. now rewrite (IH el r Er).
  - destruct (rtys_of (rty_of f P) ts) as [r|] eqn:Er; [|discriminate Hx]. injection Hx as <-.
    cbn [size]. exact (size_rtys_of _ _ IH ts r Er).
  - destruct (assocN name (p_structs P)) as [def|]; [|discriminate Hx].
    destruct (rfields_of (rty_of f P) def) as [r|] eqn:Er; [|discriminate Hx]. injection Hx as <-.
    cbn [size]. exact (size_rfields_of _ _ IH def r Er).
  - destruct (assocN name (p_enums P)) as [variants|] eqn:Hd; [|discriminate Hx].
    destruct (rvariants_of (rty_of f P) variants 0) as [r|] eqn:Er; [|discriminate Hx]. injection Hx as <-.
    cbn [size]. rewrite (size_rvariants_of _ _ IH variants 0 r Er), (rvariants_of_count _ _ _ _ Er).
    unfold tag_size. rewrite <- tag_bits_log2_up by exact (enums_small_variants P name variants Hsm Hd). lia.
Qed.

Theorem size_agree P t x : enums_small P = true -> ty_of_ast P t = Some x -> size x = Sem.sizeof P t.
Proof.
  intros Hsm Hx. unfold Sem.sizeof. rewrite (size_agree_fuel P Hsm _ t x Hx).
  symmetry. apply (size_of_ge P _ t (rty_of_ty_ok P _ t x Hx)). unfold lit_fuel. apply Nat.le_pred_l.
Qed.

Lemma size_szn P f t x : enums_small P = true -> rty_of f P t = Some x -> (f <= lit_fuel)%nat ->
  szn P t = N.to_nat (size x).
Proof.
  intros Hsm Hx Hf. rewrite (size_agree_fuel P Hsm f t x Hx).
  apply szn_eq; [exact (rty_of_ty_ok P f t x Hx)|]. unfold lit_fuel in Hf.
  pose proof (Nat.le_pred_l Sem.ty_fuel). lia.
Qed.

(* ------------------------------------------------------------------ the enum environment *)

Lemma enum_env_lookup P f name variants rvs : assocN name (p_enums P) = Some variants ->
  rvariants_of (rty_of f P) variants 0 = Some rvs -> (f <= lit_fuel)%nat ->
  assoc name (enum_env P) = Some rvs.
Proof.
  intros Hd Hr Hf. unfold enum_env.
  assert (Hr' : rvariants_of (rty_of lit_fuel P) variants 0 = Some rvs).
  { apply (rvariants_of_mono (rty_of f P)); [|exact Hr]. intros t x Hx. exact (rty_of_mono P f t x Hx _ Hf). }
  clear Hr. revert Hd. generalize (p_enums P) as es.
  induction es as [|[n0 vs0] es IH]; intro Hd; cbn [assocN] in Hd; [discriminate Hd|].
  cbn [enum_env_of]. destruct (N.eqb_spec name n0) as [->|Hne].
  - injection Hd as ->. rewrite Hr'. cbn [assoc]. now rewrite N.eqb_refl.
  - destruct (rvariants_of (rty_of lit_fuel P) vs0 0) as [r0|]; [|exact (IH Hd)].
    cbn [assoc]. destruct (N.eqb_spec name n0) as [E|_]; [contradiction|exact (IH Hd)].
Qed.

(* variant number j of the translated definition is found under the name j, at index j *)
Lemma find_variant_of (r : Ast.ty -> option rty) : forall vs k x j ts i,
  rvariants_of r vs k = Some x -> nth_error vs j = Some ts ->
  find_variant x (k + N.of_nat j) i =
    Some (i + N.of_nat j,
          match ts with [] => VIUnit | _ :: _ => match rtys_of r ts with Some a => VITuple a | None => VIUnit end end).
Proof.
  induction vs as [|ts0 vs IH]; intros k x j ts i Hx Hj; [destruct j; discriminate Hj|].
  cbn [rvariants_of] in Hx. destruct j as [|j]; cbn [nth_error] in Hj.
  - injection Hj as ->. replace (k + N.of_nat 0) with k by lia. replace (i + N.of_nat 0) with i by lia.
    destruct ts as [|t0 tr].
    + destruct (rvariants_of r vs (k + 1)) as [b|]; [|discriminate Hx]. injection Hx as <-.
      cbn [find_variant]. now rewrite N.eqb_refl.
    + destruct (rtys_of r (t0 :: tr)) as [a|]; [|discriminate Hx].
      destruct (rvariants_of r vs (k + 1)) as [b|]; [|discriminate Hx]. injection Hx as <-.
      cbn [find_variant]. now rewrite N.eqb_refl.
  - assert (Hne : (k =? k + N.of_nat (S j)) = false) by (apply N.eqb_neq; lia).
    replace (k + N.of_nat (S j)) with (k + 1 + N.of_nat j) in * by lia.
    replace (i + N.of_nat (S j)) with (i + 1 + N.of_nat j) by lia.
    destruct ts0 as [|t0 tr].
    + destruct (rvariants_of r vs (k + 1)) as [b|] eqn:Eb; [|discriminate Hx]. injection Hx as <-.
      cbn [find_variant]. rewrite Hne. exact (IH _ b j ts (i + 1) Eb Hj).
    + destruct (rtys_of r (t0 :: tr)) as [a|]; [|discriminate Hx].
      destruct (rvariants_of r vs (k + 1)) as [b|] eqn:Eb; [|discriminate Hx]. injection Hx as <-.
      cbn [find_variant]. rewrite Hne. exact (IH _ b j ts (i + 1) Eb Hj).
Qed.

(* the payload types of a variant translate *)
Lemma rvariants_of_nth (r : Ast.ty -> option rty) : forall vs k x j t0 tr,
  rvariants_of r vs k = Some x -> nth_error vs j = Some (t0 :: tr) -> exists a, rtys_of r (t0 :: tr) = Some a.
Proof.
  induction vs as [|ts0 vs IH]; intros k x j t0 tr Hx Hj; [destruct j; discriminate Hj|].
  cbn [rvariants_of] in Hx. destruct j as [|j]; cbn [nth_error] in Hj.
  - injection Hj as ->. destruct (rtys_of r (t0 :: tr)) as [a|]; [eauto|discriminate Hx].
  - destruct ts0 as [|t1 tr1].
    + destruct (rvariants_of r vs (k + 1)) as [b|] eqn:Eb; [|discriminate Hx]. exact (IH _ b j t0 tr Eb Hj).
    + destruct (rtys_of r (t1 :: tr1)); [|discriminate Hx].
      destruct (rvariants_of r vs (k + 1)) as [b|] eqn:Eb; [|discriminate Hx]. exact (IH _ b j t0 tr Eb Hj).
Qed.

(* ------------------------------------------------------------------ well-formedness (Types.wf)
   of the translated types: enums are the environment's; struct fields ascending by name,
   which is a property of the program (the parser sorts the fields of a definition) *)

Fixpoint names_sorted (lo : option N) (l : list N) : bool :=
  match l with
  | [] => true
  | n :: r => (match lo with None => true | Some p => p <? n end) && names_sorted (Some n) r
  end.

Definition structs_sorted (P : program) : bool :=
  forallb (fun d : N * list (N * Ast.ty) => names_sorted None (map fst (snd d))) (p_structs P).

Lemma assocN_In_pair {A} k (l : list (N * A)) a : assocN k l = Some a -> In (k, a) l.
Proof.
  induction l as [|[k0 a0] l IH]; cbn [assocN]; [discriminate|].
  destruct (N.eqb_spec k k0) as [->|_]; [intros [= ->]; now left|intro H; right; now apply IH].
Qed.

Lemma rty_eqb_refl :
  (forall a, rty_eqb a a = true) /\ (forall a, rtys_eqb a a = true) /\
  (forall a, rfields_eqb a a = true) /\ (forall a, rvariants_eqb a a = true).
Proof.
  apply rty_mutind; intros; cbn [rty_eqb rtys_eqb rfields_eqb rvariants_eqb];
    rewrite ?N.eqb_refl, ?uty_eqb_refl, ?sty_eqb_refl; cbn [andb];
    repeat match goal with H : _ = true |- _ => rewrite H end; reflexivity.
Qed.

Section WfAux.
  Variable E : list (N * rvariants).
  Variable r : Ast.ty -> option rty.
  Hypothesis Hr : forall t x, r t = Some x -> wf E x = true.

  Lemma wf_rtys_of ts : forall x, rtys_of r ts = Some x -> wf_tys E x = true.
  Proof.
    induction ts as [|t ts IH]; intros x Hx; cbn [rtys_of] in Hx.
    - injection Hx as <-. reflexivity.
    - destruct (r t) as [a|] eqn:Ea; [|discriminate Hx].
      destruct (rtys_of r ts) as [b|] eqn:Eb; [|discriminate Hx]. injection Hx as <-.
      cbn [wf_tys]. now rewrite (Hr t a Ea), (IH b eq_refl).
  Qed.

  Lemma wf_rfields_of fs : forall x lo, rfields_of r fs = Some x -> names_sorted lo (map fst fs) = true ->
    wf_fields E x = true /\ fields_sorted lo x = true.
  Proof.
    induction fs as [|[fn ft] fs IH]; intros x lo Hx Hs; cbn [rfields_of] in Hx.
    - injection Hx as <-. split; reflexivity.
    - destruct (r ft) as [a|] eqn:Ea; [|discriminate Hx].
      destruct (rfields_of r fs) as [b|] eqn:Eb; [|discriminate Hx]. injection Hx as <-.
      cbn [map fst names_sorted] in Hs. apply andb_prop in Hs as [H1 H2].
      destruct (IH b (Some fn) eq_refl H2) as [I1 I2].
      cbn [wf_fields fields_sorted]. now rewrite (Hr ft a Ea), I1, I2, H1.
  Qed.

  Lemma wf_rvariants_of vs : forall k x, rvariants_of r vs k = Some x -> wf_variants E x = true.
  Proof.
    induction vs as [|ts vs IH]; intros k x Hx; cbn [rvariants_of] in Hx.
    - injection Hx as <-. reflexivity.
    - destruct ts as [|t0 tr].
      + destruct (rvariants_of r vs (k + 1)) as [b|] eqn:Eb; [|discriminate Hx]. injection Hx as <-.
        cbn [wf_variants]. exact (IH _ b Eb).
      + destruct (rtys_of r (t0 :: tr)) as [a|] eqn:Ea; [|discriminate Hx].
        destruct (rvariants_of r vs (k + 1)) as [b|] eqn:Eb; [|discriminate Hx]. injection Hx as <-.
        cbn [wf_variants]. now rewrite (wf_rtys_of _ a Ea), (IH _ b Eb).
  Qed.
End WfAux.

Lemma rty_of_wf P : structs_sorted P = true ->
  forall f t x, rty_of f P t = Some x -> (f <= lit_fuel)%nat -> wf (enum_env P) x = true.
Proof.
  intro Hss. induction f as [|f IH]; intros t x Hx Hf; [discriminate Hx|].
  assert (IH' : forall t0 x0, rty_of f P t0 = Some x0 -> wf (enum_env P) x0 = true)
    by (intros t0 x0 H0; apply (IH t0 x0 H0); lia).
  destruct t as [|sg b|el n|ts|name|name]; cbn [rty_of] in Hx.
  - injection Hx as <-. reflexivity.
  - destruct sg.
    + destruct (sty_of b); [|discriminate Hx]. injection Hx as <-. reflexivity.
    + destruct (uty_of b); [|discriminate Hx]. injection Hx as <-. reflexivity.
  - destruct (rty_of f P el) as [r|] eqn:Er; [|discriminate Hx]. injection Hx as <-. cbn [wf]. exact (IH' el r Er).
  - destruct (rtys_of (rty_of f P) ts) as [r|] eqn:Er; [|discriminate Hx]. injection Hx as <-.
    cbn [wf]. exact (wf_rtys_of _ _ IH' ts r Er).
  - destruct (assocN name (p_structs P)) as [def|] eqn:Hd; [|discriminate Hx].
    destruct (rfields_of (rty_of f P) def) as [r|] eqn:Er; [|discriminate Hx]. injection Hx as <-.
    cbn [wf]. unfold structs_sorted in Hss. rewrite forallb_forall in Hss.
    pose proof (Hss _ (assocN_In_pair _ _ _ Hd)) as Hs. cbn [snd] in Hs.
    destruct (wf_rfields_of _ _ IH' def r None Er Hs) as [I1 I2]. now rewrite I1, I2.
  - destruct (assocN name (p_enums P)) as [variants|] eqn:Hd; [|discriminate Hx].
    destruct (rvariants_of (rty_of f P) variants 0) as [r|] eqn:Er; [|discriminate Hx]. injection Hx as <-.
    cbn [wf]. rewrite (enum_env_lookup P f name variants r Hd Er) by lia.
    rewrite (proj2 (proj2 (proj2 rty_eqb_refl)) r). cbn [andb]. exact (wf_rvariants_of _ _ IH' variants 0 r Er).
Qed.

Theorem ty_of_ast_wf P t x : structs_sorted P = true -> ty_of_ast P t = Some x -> wf (enum_env P) x = true.
Proof. intros Hss Hx. exact (rty_of_wf P Hss _ t x Hx (le_n _)). Qed.

(* ------------------------------------------------------------------ 2. the encodings agree *)

Section Agree.
  Variable P : program.
  Hypothesis Hsmall : enums_small P = true.
  Let E := enum_env P.

  (* what is shown for a value v of type t with encoding w (Sem.v / has_enc) *)
  Definition agree_at (t : Ast.ty) (v : Sem.value) (w : list bool) : Prop :=
    forall f x, rty_of f P t = Some x -> (f <= lit_fuel)%nat ->
    exists l, lit_of_value P v t = Some l /\ has_type l x = true /\ as_bits E l = Ok w.

  Lemma agree_zip ts vs ws : Forall3 agree_at ts vs ws ->
    forall f rts, rtys_of (rty_of f P) ts = Some rts -> (f <= lit_fuel)%nat ->
    exists ls, lits_zip (lit_of_value P) vs ts = Some ls /\ zip_has_type ls rts = true /\
               as_bits_list E ls = Ok (concat ws).
  Proof.
    induction 1 as [|t v w ts vs ws Hq _ IH]; intros f rts Hr Hf; cbn [rtys_of] in Hr.
    - injection Hr as <-. exists LsNil. repeat split.
    - destruct (rty_of f P t) as [a|] eqn:Ea; [|discriminate Hr].
      destruct (rtys_of (rty_of f P) ts) as [b|] eqn:Eb; [|discriminate Hr]. injection Hr as <-.
      destruct (Hq f a Ea Hf) as (l & Hl & Ht & Hb). destruct (IH f b Eb Hf) as (ls & Hls & Hts & Hbs).
      exists (LsCons l ls). cbn [lits_zip zip_has_type as_bits_list concat]. rewrite Hl, Hls, Ht, Hts, Hb, Hbs.
      repeat split.
  Qed.

  Lemma agree_all el vs elems : Forall2 (agree_at el) vs elems ->
    forall f rel, rty_of f P el = Some rel -> (f <= lit_fuel)%nat ->
    exists ls, lits_all (lit_of_value P) vs el = Some ls /\ all_has_type ls rel = true /\
               lits_len ls = lenN vs /\ as_bits_list E ls = Ok (concat elems).
  Proof.
    induction 1 as [|v w vs elems Hq _ IH]; intros f rel Hr Hf.
    - exists LsNil. repeat split.
    - destruct (Hq f rel Hr Hf) as (l & Hl & Ht & Hb). destruct (IH f rel Hr Hf) as (ls & Hls & Hts & Hn & Hbs).
      exists (LsCons l ls). cbn [lits_all all_has_type as_bits_list concat lits_len].
      rewrite Hl, Hls, Ht, Hts, Hb, Hbs, Hn, lenN_cons. repeat split.
  Qed.

  Lemma agree_fields : forall def vs ws, Forall3 agree_at (map snd def) vs ws ->
    forall f rfs, rfields_of (rty_of f P) def = Some rfs -> (f <= lit_fuel)%nat ->
    exists lfs, lfields_zip (lit_of_value P) vs def = Some lfs /\ fields_has_type lfs rfs = true /\
                as_bits_fields E lfs = Ok (concat ws).
  Proof.
    induction def as [|[fn ft] def IH]; intros vs ws H3 f rfs Hr Hf; cbn [map snd] in H3; cbn [rfields_of] in Hr.
    - inversion H3; subst. injection Hr as <-. exists LFNil. repeat split.
    - inversion H3 as [|t v w ts vs' ws' Hq H3']; subst.
      destruct (rty_of f P ft) as [a|] eqn:Ea; [|discriminate Hr].
      destruct (rfields_of (rty_of f P) def) as [b|] eqn:Eb; [|discriminate Hr]. injection Hr as <-.
      destruct (Hq f a Ea Hf) as (l & Hl & Ht & Hb). destruct (IH _ _ H3' f b Eb Hf) as (lfs & Hls & Hts & Hbs).
      exists (LFCons fn l lfs). cbn [lfields_zip fields_has_type as_bits_fields concat].
      rewrite Hl, Hls, Ht, Hts, Hb, Hbs, N.eqb_refl. repeat split.
  Qed.

  Lemma sum_szn_rtys f : (f <= lit_fuel)%nat -> forall ts rts, rtys_of (rty_of f P) ts = Some rts ->
    sum_szn P ts = N.to_nat (size_tys rts) /\ Forall (ty_fits P) ts.
  Proof.
    intro Hf. induction ts as [|t ts IH]; intros rts Hr; cbn [rtys_of] in Hr.
    - injection Hr as <-. split; [reflexivity|constructor].
    - destruct (rty_of f P t) as [a|] eqn:Ea; [|discriminate Hr].
      destruct (rtys_of (rty_of f P) ts) as [b|] eqn:Eb; [|discriminate Hr]. injection Hr as <-.
      destruct (IH b eq_refl) as [I1 I2]. split.
      + rewrite sum_szn_cons, I1, (size_szn P f t a Hsmall Ea Hf). cbn [size_tys]. lia.
      + constructor; [exact (rty_of_fits P f t a Ea Hf)|exact I2].
  Qed.

  (* the enum layouts: tag (same width, same bits), payload, zero padding to the same size *)
  Lemma enum_bits_agree f name variants rvs tag p : assocN name (p_enums P) = Some variants ->
    rvariants_of (rty_of f P) variants 0 = Some rvs -> (S f <= lit_fuel)%nat ->
    ubits_of (N.to_nat (tag_size (nvariants rvs))) tag ++ p ++
      repeat false (N.to_nat (enum_size rvs - tag_size (nvariants rvs) - lenN p))
    = ValEnc.enum_bits P name variants tag p.
  Proof.
    intros Hd Hr Hf.
    assert (Hx : rty_of (S f) P (TEnum name) = Some (REnum name rvs)) by (cbn [rty_of]; now rewrite Hd, Hr).
    pose proof (size_szn P (S f) _ _ Hsmall Hx Hf) as Hsz. cbn [size] in Hsz. fold (enum_size rvs) in Hsz.
    assert (Hts : N.to_nat (tag_size (nvariants rvs)) = enum_tag_size variants).
    { unfold tag_size, enum_tag_size. rewrite (rvariants_of_count _ _ _ _ Hr).
      now rewrite <- tag_bits_log2_up by exact (enums_small_variants P name variants Hsmall Hd). }
    unfold ValEnc.enum_bits. cbv zeta. rewrite Hsz, Hts, ubits_of_bits_of_Z, enc_bits_of_Z, <- app_assoc.
    f_equal. f_equal. f_equal. rewrite app_length, WtShape.bits_of_Z_length. unfold lenN.
    rewrite <- Hts. unfold enum_size. lia.
  Qed.

  Lemma agree_all_types : forall t v w, has_enc P t v w -> agree_at t v w.
  Proof.
    apply has_enc_ind2.
    - (* bool *)
      intros b f x Hx _. destruct f as [|f]; [discriminate Hx|]. cbn [rty_of] in Hx. injection Hx as <-.
      exists (if b then LTrue else LFalse). destruct b; repeat split.
    - (* integers *)
      intros sg n z Hr f x Hx _. destruct f as [|f]; [discriminate Hx|]. cbn [rty_of] in Hx.
      rewrite enc_bits_of_Z. destruct sg; cbn [lit_of_value].
      + destruct (sty_of n) as [s|] eqn:Es; [|discriminate Hx]. injection Hx as <-.
        exists (LSigned z s). cbn [option_map has_type as_bits].
        rewrite sty_eqb_refl, (sty_of_range n s z Es Hr), (sty_of_bits n s Es), sbits_of_bits_of_Z. repeat split.
      + destruct (uty_of n) as [u|] eqn:Eu; [|discriminate Hx]. injection Hx as <-.
        destruct (uty_of_range n u z Eu Hr) as [Hz Hur].
        exists (LUnsigned (Z.to_N z) u). cbn [option_map has_type as_bits].
        rewrite uty_eqb_refl, Hur, (uty_of_bits n u Eu), ubits_of_bits_of_Z, Z2N.id by exact Hz. repeat split.
    - (* arrays *)
      intros el n vs elems Hn _ HQ f x Hx Hf. destruct f as [|f]; [discriminate Hx|]. cbn [rty_of] in Hx.
      destruct (rty_of f P el) as [rel|] eqn:Er; [|discriminate Hx]. injection Hx as <-.
      destruct (agree_all el vs elems HQ f rel Er ltac:(lia)) as (ls & Hls & Ht & Hlen & Hb).
      exists (LArray ls). cbn [lit_of_value]. rewrite Hls. cbn [option_map has_type as_bits].
      rewrite Hlen, Hn, N.eqb_refl, Ht. repeat split. exact Hb.
    - (* tuples *)
      intros ts vs ws _ HQ f x Hx Hf. destruct f as [|f]; [discriminate Hx|]. cbn [rty_of] in Hx.
      destruct (rtys_of (rty_of f P) ts) as [rts|] eqn:Er; [|discriminate Hx]. injection Hx as <-.
      destruct (agree_zip ts vs ws HQ f rts Er ltac:(lia)) as (ls & Hls & Ht & Hb).
      exists (LTuple ls). cbn [lit_of_value]. rewrite Hls. cbn [option_map has_type as_bits]. auto.
    - (* structs *)
      intros name def vs ws Hd _ HQ f x Hx Hf. destruct f as [|f]; [discriminate Hx|]. cbn [rty_of] in Hx.
      rewrite Hd in Hx. destruct (rfields_of (rty_of f P) def) as [rfs|] eqn:Er; [|discriminate Hx]. injection Hx as <-.
      destruct (agree_fields def vs ws HQ f rfs Er ltac:(lia)) as (lfs & Hls & Ht & Hb).
      exists (LStruct name lfs). cbn [lit_of_value]. rewrite Hd, Hls. cbn [option_map has_type as_bits].
      rewrite N.eqb_refl, Ht. auto.
    - (* enums *)
      intros name variants tag ts vs ws Hd Hnth Henc HQ f x Hx Hf. destruct f as [|f]; [discriminate Hx|].
      cbn [rty_of] in Hx. rewrite Hd in Hx.
      destruct (rvariants_of (rty_of f P) variants 0) as [rvs|] eqn:Er; [|discriminate Hx]. injection Hx as <-.
      pose proof (enum_env_lookup P f name variants rvs Hd Er ltac:(lia)) as HE. fold E in HE.
      pose proof Hnth as Hnth'. rewrite nthN_spec in Hnth'.
      pose proof (find_variant_of _ variants 0 rvs (N.to_nat tag) ts 0 Er Hnth') as Hfv.
      rewrite N2Nat.id, !N.add_0_l in Hfv.
      cbn [lit_of_value]. rewrite Hd, Hnth.
      destruct ts as [|t0 tr].
      + inversion HQ; subst. cbn [concat].
        destruct (enum_encode E name tag rvs tag VIUnit [] HE Hfv ltac:(unfold lenN; cbn [length]; lia))
          as (bits & Hb & _ & Heq & _).
        exists (LEnumUnit name tag). cbn [has_type as_bits]. rewrite N.eqb_refl, Hfv, Hb. repeat split.
        f_equal. rewrite Heq. exact (enum_bits_agree f name variants rvs tag [] Hd Er Hf).
      + destruct (rvariants_of_nth _ variants 0 rvs _ t0 tr Er Hnth') as (rts & Hrts). rewrite Hrts in Hfv.
        destruct (agree_zip _ vs ws HQ f rts Hrts ltac:(lia)) as (ls & Hls & Ht & Hb).
        destruct (sum_szn_rtys f ltac:(lia) _ rts Hrts) as [Hsum Hfits].
        assert (Hlen : lenN (concat ws) = size_tys rts).
        { unfold lenN. rewrite (has_encs_length_sum P (t0 :: tr) vs (concat ws)); [rewrite Hsum; lia| |exact Hfits].
          apply has_encs_F3. eauto. }
        destruct (enum_encode E name tag rvs tag (VITuple rts) (concat ws) HE Hfv
                    ltac:(rewrite Hlen; exact (find_variant_payload _ _ _ _ _ Hfv)))
          as (bits & Hbits & _ & Heq & _).
        exists (LEnumTuple name tag ls). rewrite Hls. cbn [option_map has_type as_bits].
        rewrite N.eqb_refl, Hfv, Ht, Hb, Hbits. repeat split.
        f_equal. rewrite Heq. exact (enum_bits_agree f name variants rvs tag _ Hd Er Hf).
  Qed.
End Agree.

(* a canonical value of a type passes the type test (no hypothesis on the type) *)
Lemma has_type_is_of_type :
  (forall v T, has_type v T = true -> is_of_type v T = true) /\
  (forall vs, (forall t, all_has_type vs t = true -> all_of_type vs t = true) /\
              (forall ts, zip_has_type vs ts = true -> zip_of_type vs ts = true)) /\
  (forall fs dfs, fields_has_type fs dfs = true -> fields_of_type fs dfs = true).
Proof.
  apply lit_mutind.
  - intros T H. destruct T; try discriminate. reflexivity.
  - intros T H. destruct T; try discriminate. reflexivity.
  - intros n u T H. destruct T; try discriminate. exact H.
  - intros z s T H. destruct T; try discriminate. exact H.
  - intros e _ n T H. destruct T; discriminate.
  - intros vs [IH _] T H. destruct T as [| | |et n| | |]; try discriminate.
    cbn [has_type] in H. apply andb_prop in H as [H1 H2]. cbn [is_of_type]. now rewrite H1, (IH et H2).
  - intros vs [_ IH] T H. destruct T as [| | | |ts| |]; try discriminate. cbn [has_type] in H. exact (IH ts H).
  - intros name fs IH T H. destruct T as [| | | | |name' dfs|]; try discriminate.
    cbn [has_type] in H. apply andb_prop in H as [H1 H2]. cbn [is_of_type]. now rewrite H1, (IH dfs H2).
  - intros name v T H. destruct T; try discriminate. exact H.
  - intros name v es [_ IH] T H. destruct T as [| | | | | |name' vs]; try discriminate.
    cbn [has_type] in H. apply andb_prop in H as [H1 H2]. cbn [is_of_type]. rewrite H1. cbn [andb].
    destruct (find_variant vs v 0) as [[idx [|ts]]|]; try discriminate. exact (IH ts H2).
  - intros mn mx u T H. destruct T; discriminate.
  - split; intros t H; [reflexivity|]. destruct t; [reflexivity|discriminate].
  - intros v IHv r [IHr1 IHr2]. split.
    + intros t H. cbn [all_has_type] in H. apply andb_prop in H as [H1 H2].
      cbn [all_of_type]. now rewrite (IHv t H1), (IHr1 t H2).
    + intros ts H. destruct ts as [|t tr]; [discriminate|]. cbn [zip_has_type] in H.
      apply andb_prop in H as [H1 H2]. cbn [zip_of_type]. now rewrite (IHv t H1), (IHr2 tr H2).
  - intros dfs H. destruct dfs; [reflexivity|discriminate].
  - intros n v IHv r IHr dfs H. destruct dfs as [|dn t dr]; [discriminate|].
    cbn [fields_has_type] in H. apply andb_prop in H as [H12 H3]. apply andb_prop in H12 as [H1 H2].
    cbn [fields_of_type]. now rewrite H1, (IHv t H2), (IHr dr H3).
Qed.

(* THE THEOREM: the literal of a value is a value of the translated type, accepted by the
   real type test, and the real encoder produces exactly the bits of Sem.encode / has_enc *)
Theorem lit_enc_agree P t v w rt : enums_small P = true ->
  has_enc P t v w -> ty_of_ast P t = Some rt ->
  exists l, lit_of_value P v t = Some l /\
            has_type l rt = true /\ is_of_type l rt = true /\
            as_bits (enum_env P) l = Ok w.
Proof.
  intros Hsm HV Hrt. destruct (agree_all_types P Hsm t v w HV _ rt Hrt (le_n _)) as (l & Hl & Ht & Hb).
  exists l. repeat split; try assumption. exact (proj1 has_type_is_of_type l rt Ht).
Qed.

(* ... and the real decoder, at the translated type, gives the literal back *)
Theorem lit_enc_decode P t v w rt l : enums_small P = true -> structs_sorted P = true ->
  has_enc P t v w -> ty_of_ast P t = Some rt -> lit_of_value P v t = Some l ->
  from_bits rt w = Ok (Some l) /\ lenN w = size rt.
Proof.
  intros Hsm Hss HV Hrt Hl. destruct (lit_enc_agree P t v w rt Hsm HV Hrt) as (l' & Hl' & Ht & _ & Hb).
  assert (l' = l) as -> by congruence.
  pose proof (ty_of_ast_wf P t rt Hss Hrt) as Hwf.
  destruct (LiteralProofs.decode_encode (enum_env P) l rt Hwf Ht) as (bits & Hb' & Hd).
  assert (bits = w) as -> by congruence. split; [exact Hd|].
  destruct (LiteralProofs.encode_size (enum_env P) l rt Hwf Ht) as (bits' & Hb'' & Hlen).
  assert (bits' = w) as -> by congruence. exact Hlen.
Qed.

(* in terms of the executable encoder / decoder of Sem.v *)
Corollary lit_enc_sem P t v w rt : enums_small P = true -> structs_sorted P = true ->
  ty_of_ast P t = Some rt -> Sem.encode Sem.ty_fuel P t v = Some w -> in_rng P v t = true ->
  exists l, lit_of_value P v t = Some l /\ is_of_type l rt = true /\
            as_bits (enum_env P) l = Ok w /\ from_bits rt w = Ok (Some l) /\
            Sem.decode Sem.ty_fuel P t w = Some (v, []).
Proof.
  intros Hsm Hss Hrt He Hr. pose proof (ty_of_ast_fits P t rt Hrt) as Hfit.
  pose proof (encode_has_enc P t v w Hfit He Hr) as HV.
  destruct (lit_enc_agree P t v w rt Hsm HV Hrt) as (l & Hl & _ & Hi & Hb).
  exists l. repeat split; try assumption.
  - exact (proj1 (lit_enc_decode P t v w rt l Hsm Hss HV Hrt Hl)).
  - exact (has_enc_decode_all P t v w Hsm HV Hfit).
Qed.

(* typed, in-range values: the literal exists and encodes without a panic *)
Corollary lit_enc_total P t v rt : enums_small P = true -> ty_of_ast P t = Some rt ->
  has_ty P v t = true -> in_rng P v t = true ->
  exists l w, lit_of_value P v t = Some l /\ is_of_type l rt = true /\
              as_bits (enum_env P) l = Ok w /\ has_enc P t v w.
Proof.
  intros Hsm Hrt Hty Hr. destruct (has_enc_total P t v (ty_of_ast_fits P t rt Hrt) Hty Hr) as (w & HV).
  destruct (lit_enc_agree P t v w rt Hsm HV Hrt) as (l & Hl & _ & Hi & Hb). exists l, w. auto.
Qed.

(* usize and u32 (and the unsuffixed types) are the same 32 bits: the choice of U32 / I32
   for width 32 in [uty_of] / [sty_of] does not matter for the bits *)
Lemma usize_bits_u32 E n : as_bits E (LUnsigned n Usize) = as_bits E (LUnsigned n U32) /\
  as_bits E (LUnsigned n UUnspec) = as_bits E (LUnsigned n U32) /\ size (RUnsigned Usize) = size (RUnsigned U32).
Proof. repeat split. Qed.

Print Assumptions lit_enc_agree.
Print Assumptions lit_enc_decode.
Print Assumptions lit_enc_sem.
Print Assumptions size_agree.

(* ------------------------------------------------------------------ 3. programs: from the real
   API's encoder to the real API's decoder, through the bit-level semantics *)
From GV Require Import Panic.PanicRec Panic.PanicSem Compile.TSemSemStmt Compile.TSemSemAgg Compile.TSemSemFull.

(* the value main returns in Sem.v (what [Sem.run_main] encodes) *)
Definition sem_main_value (fuel : nat) (P : program) (inputs : list (list bool)) : option Sem.value :=
  match find_fn P (p_main P) with
  | Some d =>
      match Sem.decode_args P (fn_params d) inputs with
      | Some args =>
          match Sem.eval_consts fuel P with
          | Sem.Done en0 =>
              match Sem.exec_block fuel P (Sem.push_scope (Sem.bind_all (Sem.push_scope en0) args)) (fn_body d) with
              | Sem.Done (v, _) => Some v
              | _ => None
              end
          | _ => None
          end
      | None => None
      end
  | None => None
  end.

Lemma run_main_value fuel P inputs bits len : Sem.run_main fuel P inputs = Sem.RunOk bits len ->
  exists d v, find_fn P (p_main P) = Some d /\ sem_main_value fuel P inputs = Some v /\
              Sem.encode Sem.ty_fuel P (fn_ret d) v = Some bits.
Proof.
  unfold Sem.run_main, sem_main_value. destruct (find_fn P (p_main P)) as [d|]; [|discriminate].
  destruct (Sem.decode_args P (fn_params d) inputs) as [args|]; [|discriminate].
  destruct (Sem.eval_consts fuel P) as [en0| | |]; try discriminate.
  destruct (Sem.exec_block fuel P _ (fn_body d)) as [[v en]| | |]; try discriminate.
  destruct (Sem.encode Sem.ty_fuel P (fn_ret d) v) as [b|] eqn:Ee; [|discriminate].
  intros [= <- _]. exists d, v. auto.
Qed.

(* the arguments: a value of each parameter type, its literal, the bits the encoder of the
   real API produces for the literal *)
Inductive args_enc (P : program) : list (N * Ast.ty) -> list Sem.value -> list lit -> list (list bool) -> Prop :=
| AE_nil : args_enc P [] [] [] []
| AE_cons x t ps v vs l ls a args rt :
    ty_of_ast P t = Some rt -> has_ty P v t = true -> in_rng P v t = true ->
    lit_of_value P v t = Some l -> as_bits (enum_env P) l = Ok a ->
    args_enc P ps vs ls args -> args_enc P ((x, t) :: ps) (v :: vs) (l :: ls) (a :: args).

Lemma bits_eqb_refl a : Sem.bits_eqb a a = true.
Proof. induction a as [|b a IH]; [reflexivity|]. cbn [Sem.bits_eqb]. now rewrite Bool.eqb_reflx, IH. Qed.

(* the encoded literals are accepted by the type test, are CANONICAL argument bits, and Sem.v
   decodes them to the values *)
Lemma args_enc_canonical P : enums_small P = true -> forall ps vs ls args, args_enc P ps vs ls args ->
  canonical_args P ps args = true /\
  Sem.decode_args P ps args = Some (combine (map fst ps) vs) /\
  Forall2 (fun (l : lit) (p : N * Ast.ty) => exists rt, ty_of_ast P (snd p) = Some rt /\ is_of_type l rt = true) ls ps.
Proof.
  intro Hsm. induction 1 as [|x t ps v vs l ls a args rt Hrt Hty Hr Hl Hb _ (IH1 & IH2 & IH3)].
  - repeat split. constructor.
  - destruct (lit_enc_total P t v rt Hsm Hrt Hty Hr) as (l' & w & Hl' & Hi & Hb' & HV).
    assert (l' = l) as -> by congruence. assert (w = a) as -> by congruence.
    pose proof (ty_of_ast_fits P t rt Hrt) as Hfit.
    pose proof (has_enc_decode_all P t v a Hsm HV Hfit) as Hd.
    split; [|split].
    + unfold canonical_args in *. cbn [forallb2 snd]. rewrite IH1, andb_true_r.
      unfold canonical_arg, ty_fits_b. rewrite Hfit, Hd, Hr, (has_enc_encode P t v a HV Hfit), bits_eqb_refl.
      reflexivity.
    + cbn [Sem.decode_args map fst combine]. now rewrite Hd, IH2.
    + constructor; [|exact IH3]. exists rt. auto.
Qed.

(* the replay of the proof of [tsem_sem_program_full], keeping the value *)
Lemma main_value_enc P d fuel fw fT args o outs v :
  enums_small P = true -> p_consts P = [] -> find_fn P (p_main P) = Some d ->
  scf_block fw P ([] :: tbind_all [[]; []] (fn_params d) true) (fn_body d) = Some (fn_ret d) ->
  canonical_args P (fn_params d) args = true ->
  tsem_program fT P args = Ok (o, outs) -> sem_main_value fuel P args = Some v ->
  o = None /\ has_enc P (fn_ret d) v outs /\ ty_fits P (fn_ret d).
Proof.
  intros Hsm Hc Hfind Hsc Hcan Hrun Hv.
  unfold tsem_program in Hrun. rewrite Hfind in Hrun.
  destruct (negb (same_len (fn_params d) args)); [discriminate Hrun|].
  unfold main_env, global_scope in Hrun. rewrite Hc in Hrun. cbn [fold_left bind] in Hrun.
  destruct (fold_left (fun Er b => let* E := Er in env_let E (fst b) (snd b))
              (combine (map fst (fn_params d)) args) (Ok (env_push [[]]))) as [E0| |] eqn:Ef;
    cbn [bind] in Hrun; try discriminate Hrun.
  destruct (lower_block tops fT P (fn_body d) E0 None) as [[[w E'] o1]| |] eqn:Hb; cbn [bind] in Hrun;
    try discriminate Hrun. injection Hrun as <- <-.
  unfold sem_main_value in Hv. rewrite Hfind in Hv.
  destruct (Sem.decode_args P (fn_params d) args) as [vals|] eqn:Ed; [|discriminate Hv].
  unfold Sem.eval_consts in Hv. rewrite Hc in Hv.
  assert (Hrel0 : env_rel3 (VRa P) (Sem.push_scope (Sem.mkEnv [[]] false)) (env_push [[]]) ([] :: [[]])).
  { apply rel_push. unfold env_rel3. cbn [Sem.scopes]. constructor; [|constructor].
    split; [exact I|]. intro x. cbn. auto. }
  pose proof (init_rel_f P _ _ _ Ed Hcan _ _ _ _ Hrel0 Ef) as Hrel.
  pose proof (tsem_sem_full_block P fuel fw _ _ _ _ _ fT _ _ _ Hsm Hsc Hrel Hb) as H. revert H Hv.
  destruct (Sem.exec_block fuel P (Sem.push_scope (Sem.bind_all (Sem.push_scope (Sem.mkEnv [[]] false)) vals))
              (fn_body d)) as [[v' en1]|r m|c|]; cbn [Sem.obind]; intros H Hv; try discriminate Hv.
  injection Hv as ->. destruct H as (-> & [HV Hfit] & _). auto.
Qed.

(* THE COROLLARY.  A program of the full fragment (Compile/TSemSemFull.v), argument VALUES vs
   of the parameter types with their literals ls; [args] = what the model of
   `Literal::as_bits` produces for the literals.  Then the literals pass `is_of_type`; Sem.v
   runs main on exactly vs; and if Sem.v returns (RunOk) while the bit-level semantics of the
   compiled program returns [outs], then decoding [outs] with the model of
   `Literal::from_result_bits` at the translated return type yields exactly the literal of the
   value v that Sem.v computed (and nothing panicked). *)
Theorem lit_program_agree P fuel fw fT d vs ls args o outs bits len rt :
  in_full_fragment fw P = true -> structs_sorted P = true ->
  find_fn P (p_main P) = Some d -> args_enc P (fn_params d) vs ls args ->
  ty_of_ast P (fn_ret d) = Some rt ->
  tsem_program fT P args = Ok (o, outs) ->
  Sem.run_main fuel P args = Sem.RunOk bits len ->
  Sem.decode_args P (fn_params d) args = Some (combine (map fst (fn_params d)) vs) /\
  Forall2 (fun (l : lit) (p : N * Ast.ty) => exists rt', ty_of_ast P (snd p) = Some rt' /\ is_of_type l rt' = true)
          ls (fn_params d) /\
  exists v l,
    sem_main_value fuel P args = Some v /\ lit_of_value P v (fn_ret d) = Some l /\
    o = None /\ outs = bits /\
    is_of_type l rt = true /\ from_bits rt outs = Ok (Some l).
Proof.
  intros Hfrag Hss Hfind Hargs Hrt Hrun Hsem.
  unfold in_full_fragment in Hfrag. destruct (p_consts P) eqn:Hc; [|discriminate Hfrag].
  rewrite Hfind in Hfrag. apply andb_prop in Hfrag as [Hsm Hfrag].
  destruct (scf_block fw P _ (fn_body d)) as [t|] eqn:Hsc; [|discriminate Hfrag].
  apply ty_beq_eq in Hfrag. subst t.
  destruct (args_enc_canonical P Hsm _ _ _ _ Hargs) as (Hcan & Hdec & Hty).
  split; [exact Hdec|]. split; [exact Hty|].
  destruct (run_main_value fuel P args bits len Hsem) as (d' & v & Hfind' & Hv & He).
  assert (d' = d) as -> by congruence.
  destruct (main_value_enc P d fuel fw fT args o outs v Hsm Hc Hfind Hsc Hcan Hrun Hv) as (-> & HV & Hfit).
  assert (outs = bits) as -> by (pose proof (has_enc_encode P _ _ _ HV Hfit); congruence).
  destruct (lit_enc_agree P _ v bits rt Hsm HV Hrt) as (l & Hl & _ & Hi & _).
  exists v, l. repeat split; try assumption.
  exact (proj1 (lit_enc_decode P _ v bits rt l Hsm Hss HV Hrt Hl)).
Qed.
Print Assumptions lit_program_agree.

(* ------------------------------------------------------------------ 4. examples *)

Module LitEncExample.
  (* the program, type and value of Compile/ValEnc.v's example:
     struct S { a: u8, b: bool }   enum E { A, B(u8), C(S, bool) }   (S, E, [(bool, i8); 2], E) *)
  Definition prog := ValEncExample.prog.
  Definition t := ValEncExample.t.
  Definition v := ValEncExample.v.
  Definition bits := ValEncExample.bits.

  Definition rS : rty := RStruct 1 (RFCons 10 (RUnsigned U8) (RFCons 11 RBool RFNil)).
  Definition rE : rty :=
    REnum 2 (RVUnit 0 (RVTuple 1 (RsCons (RUnsigned U8) RsNil) (RVTuple 2 (RsCons rS (RsCons RBool RsNil)) RVNil))).
  Definition rt : rty :=
    RTuple (RsCons rS (RsCons rE
      (RsCons (RArray (RTuple (RsCons RBool (RsCons (RSigned I8) RsNil))) 2) (RsCons rE RsNil)))).

  Definition lS (a : N) (b : lit) : lit := LStruct 1 (LFCons 10 (LUnsigned a U8) (LFCons 11 b LFNil)).
  Definition l : lit :=
    LTuple (LsCons (lS 200 LTrue)
           (LsCons (LEnumTuple 2 1 (LsCons (LUnsigned 7 U8) LsNil))
           (LsCons (LArray (LsCons (LTuple (LsCons LTrue (LsCons (LSigned (-3) I8) LsNil)))
                           (LsCons (LTuple (LsCons LFalse (LsCons (LSigned 5 I8) LsNil))) LsNil)))
           (LsCons (LEnumTuple 2 2 (LsCons (lS 1 LFalse) (LsCons LTrue LsNil))) LsNil)))).

  Example translations : ty_of_ast prog t = Some rt /\ lit_of_value prog v t = Some l /\
    enums_small prog = true /\ structs_sorted prog = true /\ wf (enum_env prog) rt = true.
  Proof. vm_compute. auto. Qed.

  (* by computation: the real type test accepts, the real encoder gives the bits of Sem.encode,
     the real decoder gives the literal back *)
  Example computed : is_of_type l rt = true /\ as_bits (enum_env prog) l = Ok bits /\
    from_bits rt bits = Ok (Some l) /\ Sem.encode Sem.ty_fuel prog t v = Some bits /\ size rt = 51.
  Proof. vm_compute. auto. Qed.

  (* the same from the theorems *)
  Example by_theorem : is_of_type l rt = true /\ as_bits (enum_env prog) l = Ok bits /\
    from_bits rt bits = Ok (Some l).
  Proof.
    destruct translations as (Hrt & Hl & Hsm & Hss & _).
    destruct (lit_enc_agree prog t v bits rt Hsm ValEncExample.v_has_enc Hrt) as (l' & Hl' & _ & Hi & Hb).
    assert (l' = l) as -> by congruence.
    split; [exact Hi|]. split; [exact Hb|].
    exact (proj1 (lit_enc_decode prog t v bits rt l Hsm Hss ValEncExample.v_has_enc Hrt Hl)).
  Qed.

  (* a program: Compile/TSemSemFull.v's example
       pub fn main(a: [u8; 3], s: Shape) -> u8 { .. match s { Dot => t + p.x, Line(n) => t + n } }
     on the argument literals  [10u8, 20u8, 30u8]  and  Shape::Line(7u8)  : the result literal 52u8 *)
  Definition P0 := SanityFull.P0.
  Definition arg_values : list Sem.value :=
    [Sem.VArr [Sem.VInt 10; Sem.VInt 20; Sem.VInt 30]; Sem.VEnum 1 [Sem.VInt 7]].
  Definition arg_lits : list lit :=
    [LArray (LsCons (LUnsigned 10 U8) (LsCons (LUnsigned 20 U8) (LsCons (LUnsigned 30 U8) LsNil)));
     LEnumTuple 30 1 (LsCons (LUnsigned 7 U8) LsNil)].
  Definition arg_bits : list (list bool) :=
    Eval vm_compute in
      map (fun a => match as_bits (enum_env P0) a with Ok b => b | _ => [] end) arg_lits.

  Lemma args_ok : args_enc P0 (fn_params SanityFull.main_fn) arg_values arg_lits arg_bits.
  Proof.
    unfold arg_values, arg_lits, arg_bits. cbn [fn_params SanityFull.main_fn].
    eapply AE_cons; try (vm_compute; reflexivity).
    eapply AE_cons; try (vm_compute; reflexivity).
    constructor.
  Qed.

  Example program_level : exists o outs,
    tsem_program 16 P0 arg_bits = Ok (o, outs) /\ o = None /\
    sem_main_value 16 P0 arg_bits = Some (Sem.VInt 52) /\
    from_bits (RUnsigned U8) outs = Ok (Some (LUnsigned 52 U8)).
  Proof.
    destruct (tsem_program 16 P0 arg_bits) as [[o outs]| |] eqn:Hrun;
      [|vm_compute in Hrun; discriminate Hrun|vm_compute in Hrun; discriminate Hrun].
    assert (exists len, Sem.run_main 16 P0 arg_bits = Sem.RunOk (enc 8 52) len) as [len Hsem]
      by (eexists; vm_compute; reflexivity).
    assert (Hss : structs_sorted P0 = true) by (vm_compute; reflexivity).
    destruct (lit_program_agree P0 16 14 16 SanityFull.main_fn arg_values arg_lits arg_bits o outs _ len
                (RUnsigned U8) SanityFull.accepted Hss eq_refl args_ok eq_refl Hrun Hsem)
      as (_ & _ & v & l & Hv & Hl & -> & -> & _ & Hd).
    assert (Hv' : sem_main_value 16 P0 arg_bits = Some (Sem.VInt 52)) by (vm_compute; reflexivity).
    rewrite Hv' in Hv. injection Hv as <-. vm_compute in Hl. injection Hl as <-.
    exists None, (enc 8 52). auto.
  Qed.
End LitEncExample.
Print Assumptions LitEncExample.by_theorem.
Print Assumptions LitEncExample.program_level.
