(* C17: the re-checker Lang/Wt.v rejects every tree that violates one of the documented
   static rules AT ITS ROOT, for all programs, contexts and fuels (not only for examples),
   and a rejected function body makes the whole program rejected. *)
From GV Require Import Base.Util Lang.Ast Lang.Sem Lang.Wt Lang.ValTy Lang.WtSound.
Open Scope N_scope.

(* unknown / out-of-scope identifier *)
Lemma wt_rejects_unbound fw P g x m t :
  tlookup g x = None -> wt_expr fw P g (Ex (EId x) m t) = false.
Proof. intro H. destruct fw as [|f]; [reflexivity|]. cbn [wt_expr]. now rewrite H. Qed.

(* operand types that do not agree ([wtop] is the operand rule table of Wt.v) *)
Lemma wt_rejects_operands fw P g o x y m t :
  wtop o t (e_ty x) (e_ty y) = false -> wt_expr fw P g (Ex (EOp o x y) m t) = false.
Proof.
  intro H. destruct fw as [|f]; [reflexivity|]. cbn [wt_expr].
  change (wt_expr f P g x && wt_expr f P g y && wtop o t (e_ty x) (e_ty y) = false).
  rewrite H. apply andb_false_r.
Qed.

Lemma wt_rejects_arith_mismatch fw P g o x y m t :
  In o [OAdd; OSub; OMul; ODiv; OMod] ->
  ty_eqb (e_ty x) t = false \/ ty_eqb (e_ty y) t = false \/ is_int t = false ->
  wt_expr fw P g (Ex (EOp o x y) m t) = false.
Proof.
  intros Ho H. apply wt_rejects_operands.
  cbn [In] in Ho. destruct Ho as [<-|[<-|[<-|[<-|[<-|[]]]]]]; cbn [wtop];
    destruct H as [H|[H|H]]; rewrite H; rewrite ?andb_false_r; reflexivity.
Qed.

Lemma wt_rejects_compare_mismatch fw P g o x y m t :
  In o [OEq; ONe; OLt; OGt] -> ty_eqb (e_ty x) (e_ty y) = false ->
  wt_expr fw P g (Ex (EOp o x y) m t) = false.
Proof.
  intros Ho H. apply wt_rejects_operands.
  cbn [In] in Ho. destruct Ho as [<-|[<-|[<-|[<-|[]]]]]; cbn [wtop]; rewrite H; apply andb_false_r.
Qed.

(* non-Boolean condition *)
Lemma wt_rejects_nonbool_cond fw P g c a b m t :
  is_bool (e_ty c) = false -> wt_expr fw P g (Ex (EIf c a b) m t) = false.
Proof. intro H. destruct fw as [|f]; [reflexivity|]. cbn [wt_expr]. now rewrite H. Qed.

(* branch types that do not agree with the type of the [if] *)
Lemma wt_rejects_branch_mismatch fw P g c a b m t :
  ty_eqb (e_ty a) t = false \/ ty_eqb (e_ty b) t = false ->
  wt_expr fw P g (Ex (EIf c a b) m t) = false.
Proof.
  intro H. destruct fw as [|f]; [reflexivity|]. cbn [wt_expr].
  destruct H as [H|H]; rewrite H; rewrite ?andb_false_r; reflexivity.
Qed.

(* a match arm whose type or pattern type does not agree *)
Lemma wt_rejects_arm_mismatch fw P g s arms m t arm :
  In arm arms ->
  ty_eqb (e_ty (snd arm)) t = false \/ ty_eqb (p_ty (fst arm)) (e_ty s) = false ->
  wt_expr fw P g (Ex (EMatch s arms) m t) = false.
Proof.
  intros Hin H. destruct fw as [|f]; [reflexivity|]. cbn [wt_expr].
  apply andb_false_intro2. apply not_true_is_false. intro Hall.
  rewrite forallb_forall in Hall. specialize (Hall arm Hin).
  apply andb_prop in Hall as [Hall _]. apply andb_prop in Hall as [H1 H2].
  destruct H as [H|H]; congruence.
Qed.

(* assignment to a binding that is unknown or not declared [mut] *)
Lemma wt_rejects_immutable_assign fw P g x accs e m :
  (forall tx, tlookup g x <> Some (tx, true)) ->
  wt_stmt fw P g (St (SAssign x accs e) m) = None.
Proof.
  intro H. destruct fw as [|f]; [reflexivity|]. rewrite wt_stmt_eq.
  destruct (tlookup g x) as [[tx [|]]|] eqn:E; try reflexivity. exfalso. now apply (H tx).
Qed.

(* wrong number of arguments, unknown function *)
Lemma forallb2_length {A B} (f : A -> B -> bool) xs ys : forallb2 f xs ys = true -> length xs = length ys.
Proof.
  revert ys. induction xs as [|x xr IH]; intros [|y yr]; cbn [forallb2 length]; try discriminate; [reflexivity|].
  intro H. apply andb_prop in H as [_ H]. now rewrite (IH _ H).
Qed.

Lemma wt_rejects_arity fw P g fn args m t d :
  find_fn P fn = Some d -> length args <> length (fn_params d) ->
  wt_expr fw P g (Ex (ECall fn args) m t) = false.
Proof.
  intros Hf Hl. destruct fw as [|f]; [reflexivity|]. cbn [wt_expr]. rewrite Hf.
  apply andb_false_intro2. apply not_true_is_false. intro H. apply forallb2_length in H. contradiction.
Qed.

Lemma wt_rejects_unknown_fn fw P g fn args m t :
  find_fn P fn = None -> wt_expr fw P g (Ex (ECall fn args) m t) = false.
Proof. intro Hf. destruct fw as [|f]; [reflexivity|]. cbn [wt_expr]. now rewrite Hf. Qed.

(* argument type that does not agree with the parameter type *)
Lemma wt_rejects_arg_mismatch fw P g fn a x tx m t :
  find_fn P fn = Some (mkFn fn [(x, tx)] t []) -> ty_eqb (e_ty a) tx = false ->
  wt_expr fw P g (Ex (ECall fn [a]) m t) = false.
Proof.
  intros Hf Ha. destruct fw as [|f]; [reflexivity|]. cbn [wt_expr]. rewrite Hf.
  cbn [fn_ret fn_params forallb2 snd]. rewrite Ha. cbn [andb]. apply andb_false_r.
Qed.

(* a rejected statement makes every block that contains it rejected *)
Lemma wt_go_rejects (ws : tenv -> stmt -> option (tenv * ty)) s :
  (forall g, ws g s = None) -> forall pre post g lt, wt_go ws (pre ++ s :: post) g lt = None.
Proof.
  intros Hs pre. induction pre as [|a r IH]; intros post g lt; cbn [app wt_go].
  - now rewrite Hs.
  - destruct (ws g a) as [[g' t]|]; [apply IH|reflexivity].
Qed.

Lemma wt_block_rejects fw P s pre post :
  (forall f g, wt_stmt f P g s = None) -> forall g, wt_block fw P g (pre ++ s :: post) = None.
Proof.
  intros Hs g. destruct fw as [|f]; [reflexivity|]. rewrite wt_block_eq. apply wt_go_rejects. apply Hs.
Qed.

(* an expression statement / let whose expression is rejected is rejected *)
Lemma wt_stmt_rejects_expr fw P g e m :
  (forall f, wt_expr f P g e = false) -> wt_stmt fw P g (St (SExpr e) m) = None.
Proof. intro H. destruct fw as [|f]; [reflexivity|]. rewrite wt_stmt_eq. now rewrite H. Qed.

Lemma wt_stmt_rejects_let fw P g p e m :
  (forall f, wt_expr f P g e = false) \/ ty_eqb (p_ty p) (e_ty e) = false ->
  wt_stmt fw P g (St (SLet p e) m) = None.
Proof.
  intro H. destruct fw as [|f]; [reflexivity|]. rewrite wt_stmt_eq.
  destruct H as [H|H]; rewrite H; rewrite ?andb_false_r; reflexivity.
Qed.

(* a function whose body or return type is rejected makes the program rejected *)
Lemma wt_program_rejects_fn P d :
  In d (p_fns P) -> wt_fn P (consts_tenv P) d = false -> wt_program P = false.
Proof.
  intros Hin H. unfold wt_program. apply andb_false_intro2. apply not_true_is_false. intro Hall.
  rewrite forallb_forall in Hall. rewrite (Hall d Hin) in H. discriminate H.
Qed.

Lemma wt_fn_rejects_ret P gc d tb :
  wt_block wt_fuel P ([] :: tbind_all ([] :: gc) (fn_params d) true) (fn_body d) = Some tb ->
  ty_eqb tb (fn_ret d) = false -> wt_fn P gc d = false.
Proof. intros Hb Hr. unfold wt_fn. now rewrite Hb. Qed.
