(* The builder-form gadgets of Gadgets.v denote the pure functions of GadgetSpec.v.
   Everything is proved from the interface [builder_ops_sound inv] only.
   Technique: a small Hoare-style layer.  With the input assignment [inp] fixed,
   [is_ inp b w v] says that wire [w] is valid in [b] and denotes the boolean [v]; values are
   plain booleans, hence stable under builder extension.  [ok b m Q] says that the monadic
   computation [m] succeeds with a result satisfying [Q] in an extended builder that still
   satisfies the invariant.  Each gadget is first proved in this form ([*_ok]), then the
   [fin_*] lemmas turn the per-input statement into the final [*_sound] theorems. *)
From GV Require Import Base.Util Base.NMap Builder.Builder Builder.BuilderSem
  Builder.BuilderSpec Gadgets.Gadgets Gadgets.GadgetSpec.

(* ------------------------------------------------------------------ generic Forall2 facts *)

Section F2.
  Context {A B : Type} (R : A -> B -> Prop).

  Lemma F2_length l1 l2 : Forall2 R l1 l2 -> length l1 = length l2.
  Proof. induction 1 as [|a b l1 l2 Hab Hl IH]; cbn [length]; [reflexivity|now f_equal]. Qed.

  Lemma F2_app l1 l2 r1 r2 : Forall2 R l1 l2 -> Forall2 R r1 r2 -> Forall2 R (l1 ++ r1) (l2 ++ r2).
  Proof. induction 1 as [|a b l1 l2 Hab Hl IH]; cbn [app]; intro Hr; [exact Hr|]. constructor; auto. Qed.

  Lemma F2_rev l1 l2 : Forall2 R l1 l2 -> Forall2 R (rev l1) (rev l2).
  Proof.
    induction 1 as [|a b l1 l2 Hab Hl IH]; cbn [rev]; [constructor|].
    apply F2_app; [exact IH|]. constructor; [exact Hab|constructor].
  Qed.

  Lemma F2_firstn n : forall l1 l2, Forall2 R l1 l2 -> Forall2 R (firstn n l1) (firstn n l2).
  Proof.
    induction n as [|n IH]; intros l1 l2 H; cbn [firstn]; [constructor|].
    destruct H as [|a b l1 l2 Hab Hl]; constructor; auto.
  Qed.

  Lemma F2_skipn n : forall l1 l2, Forall2 R l1 l2 -> Forall2 R (skipn n l1) (skipn n l2).
  Proof.
    induction n as [|n IH]; intros l1 l2 H; cbn [skipn]; [exact H|].
    destruct H as [|a b l1 l2 Hab Hl]; [constructor|]. auto.
  Qed.

  Lemma F2_repeat a b n : R a b -> Forall2 R (repeat a n) (repeat b n).
  Proof. intro H. induction n as [|n IH]; cbn [repeat]; constructor; auto. Qed.
End F2.

Lemma F2_impl {A B} (R R' : A -> B -> Prop) l1 l2 :
  (forall a b, R a b -> R' a b) -> Forall2 R l1 l2 -> Forall2 R' l1 l2.
Proof. intro Himp. induction 1 as [|a b l1 l2 Hab Hl IH]; constructor; auto. Qed.

Lemma len_test {A C} (x : list A) (y : list C) :
  length x = length y -> negb (length x =? length y)%nat = false.
Proof. intro H. rewrite (proj2 (Nat.eqb_eq _ _) H). reflexivity. Qed.

Lemma len_test2 {A C} (x : list A) (y : list C) bits :
  (bits <= length x)%nat -> (bits <= length y)%nat ->
  ((length x <? bits) || (length y <? bits))%nat = false.
Proof.
  intros H1 H2. rewrite (proj2 (Nat.ltb_ge _ _) H1), (proj2 (Nat.ltb_ge _ _) H2). reflexivity.
Qed.

(* ------------------------------------------------------------------ pure length lemmas *)

Lemma add_loop_s_length xys : forall c cp acc,
  length (fst (fst (add_loop_s xys c cp acc))) = (length xys + length acc)%nat.
Proof.
  induction xys as [|[x y] r IH]; intros c cp acc; cbn [add_loop_s adder_s fst length].
  - reflexivity.
  - rewrite IH. cbn [length]. lia.
Qed.

Lemma addition_s_length x y :
  length x = length y -> length (fst (fst (addition_s x y))) = length x.
Proof.
  intro Hl. unfold addition_s. rewrite add_loop_s_length, rev_length, combine_length.
  cbn [length]. lia.
Qed.

Lemma neg_loop_s_length xs : forall c acc,
  length (neg_loop_s xs c acc) = (length xs + length acc)%nat.
Proof.
  induction xs as [|x r IH]; intros c acc; cbn [neg_loop_s length].
  - reflexivity.
  - rewrite IH. cbn [length]. lia.
Qed.

Lemma negation_s_length x : length (negation_s x) = length x.
Proof. unfold negation_s. rewrite neg_loop_s_length, rev_length. cbn [length]. lia. Qed.

Lemma mux_all_s_length s xs : forall ys,
  length (mux_all_s s xs ys) = Nat.min (length xs) (length ys).
Proof.
  induction xs as [|x xr IH]; intros [|y yr]; cbn [mux_all_s length Nat.min]; try reflexivity.
  now rewrite IH.
Qed.

(* projection form of [subtraction_s] *)
Lemma subtraction_s_eq x y sg :
  subtraction_s x y sg =
  let se := fst (fst (addition_s ((if sg then hd false x else false) :: x)
                                 (negation_s ((if sg then hd false y else false) :: y)))) in
  if sg then (tl se, xorb (hd false se) (hd false (tl se))) else (tl se, hd false se).
Proof. unfold subtraction_s. destruct (addition_s _ _) as [[se c1] c2]. reflexivity. Qed.

Lemma subtraction_s_length x y sg :
  length x = length y -> length (fst (subtraction_s x y sg)) = length x.
Proof.
  intro Hl. rewrite subtraction_s_eq. cbv zeta.
  match goal with |- context [addition_s ?a ?b] =>
    assert (Hs : length (fst (fst (addition_s a b))) = S (length x))
      by (rewrite addition_s_length; [reflexivity|rewrite negation_s_length; cbn [length]; lia])
  end.
  destruct (fst (fst (addition_s _ _))) as [|s0 se]; [discriminate Hs|].
  cbn [length] in Hs. destruct sg; cbn [fst tl]; lia.
Qed.

Lemma udiv_step_s_eq y sa r :
  udiv_step_s y sa r =
  let sub := subtraction_s r (skipn sa y ++ repeat false sa) false in
  let ov := or_all_s false (firstn sa y) in
  (mux_all_s (orb (snd sub) ov) r (fst sub), mux_s ov false (negb (snd sub))).
Proof. unfold udiv_step_s. destruct (subtraction_s _ _ _) as [xs c]. reflexivity. Qed.

Lemma shifted_length {A} (y : list A) (z : A) sa :
  (sa <= length y)%nat -> length (skipn sa y ++ repeat z sa) = length y.
Proof. intro H. rewrite app_length, skipn_length, repeat_length. lia. Qed.

Lemma udiv_step_s_length y sa r :
  (sa <= length y)%nat -> length r = length y -> length (fst (udiv_step_s y sa r)) = length r.
Proof.
  intros Hsa Hl. rewrite udiv_step_s_eq. cbv zeta. cbn [fst].
  rewrite mux_all_s_length, subtraction_s_length; [lia|].
  rewrite shifted_length; assumption.
Qed.

Lemma udiv_loop_s_eq y sa sas r q :
  udiv_loop_s y (sa :: sas) r q =
  udiv_loop_s y sas (fst (udiv_step_s y sa r)) (snd (udiv_step_s y sa r) :: q).
Proof. cbn [udiv_loop_s]. destruct (udiv_step_s y sa r) as [r' q']. reflexivity. Qed.

Lemma udiv_loop_s_length y sas : forall r q,
  Forall (fun sa => (sa <= length y)%nat) sas -> length r = length y ->
  length (fst (udiv_loop_s y sas r q)) = (length sas + length q)%nat /\
  length (snd (udiv_loop_s y sas r q)) = length r.
Proof.
  induction sas as [|sa sas IH]; intros r q Hsas Hl.
  - cbn [udiv_loop_s fst snd length]. rewrite rev_length. split; reflexivity.
  - rewrite udiv_loop_s_eq. inversion Hsas as [|sa' sas' Hsa Hsas']; subst.
    pose proof (udiv_step_s_length y sa r Hsa Hl) as Hl'.
    destruct (IH (fst (udiv_step_s y sa r)) (snd (udiv_step_s y sa r) :: q) Hsas')
      as [IH1 IH2]; [lia|].
    rewrite IH1, IH2. cbn [length]. split; lia.
Qed.

Lemma seq_rev_bound n : Forall (fun sa => (sa <= n)%nat) (rev (seq 0 n)).
Proof.
  apply Forall_forall. intros sa Hin. apply in_rev in Hin. apply in_seq in Hin. lia.
Qed.

Lemma udiv_s_length x y :
  length x = length y ->
  length (fst (udiv_s x y)) = length x /\ length (snd (udiv_s x y)) = length x.
Proof.
  intro Hl. unfold udiv_s.
  destruct (udiv_loop_s_length y (rev (seq 0 (length x))) x []) as [H1 H2].
  - rewrite Hl. apply seq_rev_bound.
  - exact Hl.
  - rewrite H1, H2, rev_length, seq_length. cbn [length]. split; lia.
Qed.

Lemma sdiv_s_eq x y :
  sdiv_s x y =
  let x0 := hd false x in
  let y0 := hd false y in
  let d := udiv_s (mux_all_s x0 (negation_s x) x) (mux_all_s y0 (negation_s y) y) in
  (mux_all_s (xorb x0 y0) (negation_s (fst d)) (fst d), mux_all_s x0 (negation_s (snd d)) (snd d)).
Proof. unfold sdiv_s. destruct (udiv_s _ _) as [q r]. reflexivity. Qed.

(* named version of the local loop of push_eq_circuit / eq_s *)
Fixpoint eq_go (b : B) (acc : W) (xys : list (W * W)) : res (W * B) :=
  match xys with
  | [] => Ok (acc, b)
  | (x, y) :: r =>
      let* (e, b1) := push_eq b x y in
      let* (acc', b2) := push_and_top b1 acc e in
      eq_go b2 acc' r
  end.

Fixpoint eq_go_s (acc : bool) (xys : list (bool * bool)) : bool :=
  match xys with
  | [] => acc
  | (x, y) :: r => eq_go_s (andb acc (negb (xorb x y))) r
  end.

Lemma push_eq_circuit_eq b x y :
  push_eq_circuit b x y =
  if negb (length x =? length y)%nat then Ok (0, b) else eq_go b 1 (combine x y).
Proof. reflexivity. Qed.

Lemma eq_s_eq x y :
  eq_s x y = if negb (length x =? length y)%nat then false else eq_go_s true (combine x y).
Proof. reflexivity. Qed.

(* validity / denotation of a list of wire pairs (operands of the helper loops) *)
Definition valids2 (b : builder) (xys : list (N * N)) : Prop :=
  Forall (fun p => valid b (fst p) /\ valid b (snd p)) xys.
Definition dens2 (inp : list bool) (b : builder) (xys : list (N * N)) : list (bool * bool) :=
  map (fun p => (den inp b (fst p), den inp b (snd p))) xys.

(* ------------------------------------------------------------------ the Hoare layer *)

Section S.
Variable inv : builder -> Prop.
Hypothesis ops : builder_ops_sound inv.

Definition ok {A} (b : builder) (m : res (A * builder)) (Q : A -> builder -> Prop) : Prop :=
  exists r b', m = Ok (r, b') /\ inv b' /\ ext b b' /\ Q r b'.

Lemma ok_ret {A} b (r : A) (Q : A -> builder -> Prop) : inv b -> Q r b -> ok b (Ok (r, b)) Q.
Proof.
  intros Hi Hq. exists r, b. split; [reflexivity|]. split; [exact Hi|].
  split; [apply ext_refl|exact Hq].
Qed.

Lemma ok_bind {A C} b (m : res (A * builder)) (k : A * builder -> res (C * builder))
    (Q : A -> builder -> Prop) (R : C -> builder -> Prop) :
  ok b m Q ->
  (forall r b1, inv b1 -> ext b b1 -> Q r b1 -> ok b1 (k (r, b1)) R) ->
  ok b (bind m k) R.
Proof.
  intros (r & b1 & Em & Hi & He & Hq) Hk.
  destruct (Hk r b1 Hi He Hq) as (r2 & b2 & Ek & Hi2 & He2 & Hr).
  exists r2, b2. rewrite Em. cbn [bind]. split; [exact Ek|]. split; [exact Hi2|].
  split; [eapply ext_trans; eauto|exact Hr].
Qed.

Lemma ok_weaken {A} b (m : res (A * builder)) (Q Q' : A -> builder -> Prop) :
  ok b m Q -> (forall r b', inv b' -> ext b b' -> Q r b' -> Q' r b') -> ok b m Q'.
Proof.
  intros (r & b1 & Em & Hi & He & Hq) Hw. exists r, b1.
  split; [exact Em|]. split; [exact Hi|]. split; [exact He|]. apply Hw; assumption.
Qed.

Lemma finalize {A} b (m : res (A * builder)) (Q : list bool -> A -> builder -> Prop) :
  (forall inp, ok b m (Q inp)) ->
  exists r b', m = Ok (r, b') /\ inv b' /\ ext b b' /\ forall inp, Q inp r b'.
Proof.
  intro H. destruct (H []) as (r & b' & E & Hi & He & _).
  exists r, b'. split; [exact E|]. split; [exact Hi|]. split; [exact He|]. intro inp.
  destruct (H inp) as (r2 & b2 & E2 & _ & _ & Hq).
  rewrite E in E2. inversion E2; subst. exact Hq.
Qed.

Section Inp.
Variable inp : list bool.

Definition is_ (b : builder) (w : N) (v : bool) : Prop :=
  valid b w /\ (ins_ok b inp -> den inp b w = v).
Definition are (b : builder) (ws : list N) (vs : list bool) : Prop := Forall2 (is_ b) ws vs.
Definition is2 (b : builder) (p : N * N) (q : bool * bool) : Prop :=
  is_ b (fst p) (fst q) /\ is_ b (snd p) (snd q).
Definition are2 (b : builder) (xys : list (N * N)) (vxys : list (bool * bool)) : Prop :=
  Forall2 (is2 b) xys vxys.

Lemma is_ext b b' w v : ext b b' -> is_ b w v -> is_ b' w v.
Proof.
  intros E [Hv Hd]. split; [eapply ext_valid; eauto|].
  intro Hok'. assert (Hok : ins_ok b inp).
  { destruct E as (Es & _). unfold ins_ok in *. congruence. }
  rewrite (ext_den _ _ _ _ E Hok Hv). auto.
Qed.

Lemma are_ext b b' ws vs : ext b b' -> are b ws vs -> are b' ws vs.
Proof.
  intros E H. unfold are in *. eapply F2_impl; [|exact H].
  intros w v. apply is_ext; assumption.
Qed.

Lemma are2_ext b b' ws vs : ext b b' -> are2 b ws vs -> are2 b' ws vs.
Proof.
  intros E H. unfold are2 in *. eapply F2_impl; [|exact H].
  intros p q [H1 H2]. split; eapply is_ext; eauto.
Qed.

Lemma is_const0 b : inv b -> is_ b 0 false.
Proof.
  intro Hi. split; [apply (bs_consts_valid _ ops b Hi)|].
  intro Hok. apply (bs_const0 _ ops); assumption.
Qed.

Lemma is_const1 b : inv b -> is_ b 1 true.
Proof.
  intro Hi. split; [apply (bs_consts_valid _ ops b Hi)|].
  intro Hok. apply (bs_const1 _ ops); assumption.
Qed.

Lemma are_nil b : are b [] [].
Proof. constructor. Qed.

Lemma are_cons b w ws v vs : is_ b w v -> are b ws vs -> are b (w :: ws) (v :: vs).
Proof. intros H1 H2. constructor; assumption. Qed.

Lemma are_nil_inv b vs : are b [] vs -> vs = [].
Proof. intro H. inversion H. reflexivity. Qed.

Lemma are_cons_inv b w ws vs :
  are b (w :: ws) vs -> exists v vs', vs = v :: vs' /\ is_ b w v /\ are b ws vs'.
Proof.
  intro H. inversion H as [|w' v ws' vs' Hw Hws]; subst. exists v, vs'. split; [reflexivity|]. split; assumption.
Qed.

Lemma are_length b ws vs : are b ws vs -> length ws = length vs.
Proof. apply F2_length. Qed.

Lemma are_app b ws1 vs1 ws2 vs2 :
  are b ws1 vs1 -> are b ws2 vs2 -> are b (ws1 ++ ws2) (vs1 ++ vs2).
Proof. apply F2_app. Qed.

Lemma are_rev b ws vs : are b ws vs -> are b (rev ws) (rev vs).
Proof. apply F2_rev. Qed.

Lemma are_firstn b n ws vs : are b ws vs -> are b (firstn n ws) (firstn n vs).
Proof. apply F2_firstn. Qed.

Lemma are_skipn b n ws vs : are b ws vs -> are b (skipn n ws) (skipn n vs).
Proof. apply F2_skipn. Qed.

Lemma are_repeat b w v n : is_ b w v -> are b (repeat w n) (repeat v n).
Proof. apply F2_repeat. Qed.

Lemma are_hd b w ws vs : are b (w :: ws) vs -> is_ b w (hd false vs).
Proof. intro H. destruct (are_cons_inv _ _ _ _ H) as (v & vs' & -> & Hw & _). exact Hw. Qed.

Lemma are_tl b w ws vs : are b (w :: ws) vs -> are b ws (tl vs).
Proof. intro H. destruct (are_cons_inv _ _ _ _ H) as (v & vs' & -> & _ & Hws). exact Hws. Qed.

Lemma are2_nil_inv b vs : are2 b [] vs -> vs = [].
Proof. intro H. inversion H. reflexivity. Qed.

Lemma are2_cons_inv b x y r vs :
  are2 b ((x, y) :: r) vs ->
  exists vx vy vr, vs = (vx, vy) :: vr /\ is_ b x vx /\ is_ b y vy /\ are2 b r vr.
Proof.
  intro H. inversion H as [|p [vx vy] r' vr [Hx Hy] Hr]; subst.
  exists vx, vy, vr. split; [reflexivity|]. split; [assumption|]. split; assumption.
Qed.

Lemma are2_rev b ws vs : are2 b ws vs -> are2 b (rev ws) (rev vs).
Proof. apply F2_rev. Qed.

Lemma are2_combine b xs : forall vxs ys vys,
  are b xs vxs -> are b ys vys -> are2 b (combine xs ys) (combine vxs vys).
Proof.
  induction xs as [|x xr IH]; intros vxs ys vys Hx Hy.
  - apply are_nil_inv in Hx. subst. constructor.
  - destruct (are_cons_inv _ _ _ _ Hx) as (vx & vxr & -> & Hx0 & Hxr).
    destruct ys as [|y yr].
    + apply are_nil_inv in Hy. subst. constructor.
    + destruct (are_cons_inv _ _ _ _ Hy) as (vy & vyr & -> & Hy0 & Hyr).
      cbn [combine]. constructor; [split; assumption|]. apply IH; assumption.
Qed.

(* two values of the same wire agree as soon as the input assignment fits *)
Lemma is_det b w v1 v2 : is_ b w v1 -> is_ b w v2 -> ins_ok b inp -> v1 = v2.
Proof. intros [_ H1] [_ H2] Hok. rewrite <- (H1 Hok). apply H2, Hok. Qed.

(* -------------------------------------------------------------- primitive requests *)

Lemma ok_binop (f : builder -> N -> N -> res (N * builder)) (op : bool -> bool -> bool) :
  binop_sound inv f op ->
  forall b x y vx vy, inv b -> is_ b x vx -> is_ b y vy ->
    ok b (f b x y) (fun r b' => is_ b' r (op vx vy)).
Proof.
  intros Hf b x y vx vy Hi [Hvx Hdx] [Hvy Hdy].
  destruct (Hf b x y Hi Hvx Hvy) as (r & b' & E & Hi' & He & Hvr & Hd).
  exists r, b'. split; [exact E|]. split; [exact Hi'|]. split; [exact He|].
  split; [exact Hvr|]. intro Hok'. assert (Hok : ins_ok b inp).
  { destruct He as (Es & _). unfold ins_ok in *. congruence. }
  rewrite (Hd inp Hok), (Hdx Hok), (Hdy Hok). reflexivity.
Qed.

Lemma ok_xor b x y vx vy : inv b -> is_ b x vx -> is_ b y vy ->
  ok b (push_xor_top b x y) (fun r b' => is_ b' r (xorb vx vy)).
Proof. apply (ok_binop _ _ (bs_xor _ ops)). Qed.

Lemma ok_and b x y vx vy : inv b -> is_ b x vx -> is_ b y vy ->
  ok b (push_and_top b x y) (fun r b' => is_ b' r (andb vx vy)).
Proof. apply (ok_binop _ _ (bs_and _ ops)). Qed.

Lemma ok_or b x y vx vy : inv b -> is_ b x vx -> is_ b y vy ->
  ok b (push_or b x y) (fun r b' => is_ b' r (orb vx vy)).
Proof. apply (ok_binop _ _ (bs_or _ ops)). Qed.

Lemma ok_eq b x y vx vy : inv b -> is_ b x vx -> is_ b y vy ->
  ok b (push_eq b x y) (fun r b' => is_ b' r (negb (xorb vx vy))).
Proof. apply (ok_binop _ _ (bs_eq _ ops)). Qed.

Lemma ok_not b x vx : inv b -> is_ b x vx ->
  ok b (push_not b x) (fun r b' => is_ b' r (negb vx)).
Proof.
  intros Hi [Hvx Hdx].
  destruct (bs_not _ ops b x Hi Hvx) as (r & b' & E & Hi' & He & Hvr & Hd).
  exists r, b'. split; [exact E|]. split; [exact Hi'|]. split; [exact He|].
  split; [exact Hvr|]. intro Hok'. assert (Hok : ins_ok b inp).
  { destruct He as (Es & _). unfold ins_ok in *. congruence. }
  rewrite (Hd inp Hok), (Hdx Hok). reflexivity.
Qed.

Lemma ok_mux b s x0 x1 vs v0 v1 : inv b -> is_ b s vs -> is_ b x0 v0 -> is_ b x1 v1 ->
  ok b (push_mux b s x0 x1) (fun r b' => is_ b' r (mux_s vs v0 v1)).
Proof.
  intros Hi [Hvs Hds] [Hv0 Hd0] [Hv1 Hd1].
  destruct (bs_mux _ ops b s x0 x1 Hi Hvs Hv0 Hv1) as (r & b' & E & Hi' & He & Hvr & Hd).
  exists r, b'. split; [exact E|]. split; [exact Hi'|]. split; [exact He|].
  split; [exact Hvr|]. intro Hok'. assert (Hok : ins_ok b inp).
  { destruct He as (Es & _). unfold ins_ok in *. congruence. }
  rewrite (Hd inp Hok), (Hds Hok), (Hd0 Hok), (Hd1 Hok). reflexivity.
Qed.

(* [call lem]: the next request of the monadic program is handled by [lem];
   [nxt He]: move every fact about the old builder to the extended one *)
Ltac call lem := eapply ok_bind; [eapply lem; eassumption|].

Ltac transport E :=
  match type of E with
  | ext ?b ?b' =>
      repeat match goal with
      | H : is_ b _ _ |- _ => apply (is_ext _ _ _ _ E) in H
      | H : are b _ _ |- _ => apply (are_ext _ _ _ _ E) in H
      | H : are2 b _ _ |- _ => apply (are2_ext _ _ _ _ E) in H
      end
  end.

Ltac nxt E := cbn beta in *; transport E; cbn beta iota.

(* -------------------------------------------------------------- adder, addition *)

Lemma push_adder_ok b x y c vx vy vc :
  inv b -> is_ b x vx -> is_ b y vy -> is_ b c vc ->
  ok b (push_adder b x y c)
    (fun r b' => is_ b' (fst r) (fst (adder_s vx vy vc)) /\ is_ b' (snd r) (snd (adder_s vx vy vc))).
Proof.
  intros Hi Hx Hy Hc. unfold push_adder.
  call ok_xor. intros u b1 Hi1 He1 Hu. nxt He1.
  call ok_and. intros v b2 Hi2 He2 Hv. nxt He2.
  call ok_xor. intros s b3 Hi3 He3 Hs. nxt He3.
  call ok_and. intros w b4 Hi4 He4 Hw. nxt He4.
  call ok_or. intros c' b5 Hi5 He5 Hc'. nxt He5.
  apply ok_ret; [assumption|]. cbn [fst snd adder_s]. split; assumption.
Qed.

Lemma push_multiplier_ok b x y z c vx vy vz vc :
  inv b -> is_ b x vx -> is_ b y vy -> is_ b z vz -> is_ b c vc ->
  ok b (push_multiplier b x y z c)
    (fun r b' => is_ b' (fst r) (fst (multiplier_s vx vy vz vc)) /\
                 is_ b' (snd r) (snd (multiplier_s vx vy vz vc))).
Proof.
  intros Hi Hx Hy Hz Hc. unfold push_multiplier, multiplier_s.
  call ok_and. intros xy b1 Hi1 He1 Hxy. nxt He1.
  apply push_adder_ok; assumption.
Qed.

Lemma add_loop_ok : forall xys vxys b c vc cp vcp acc vacc,
  inv b -> are2 b xys vxys -> is_ b c vc -> is_ b cp vcp -> are b acc vacc ->
  ok b (add_loop b xys c cp acc)
    (fun r b' => are b' (fst (fst r)) (fst (fst (add_loop_s vxys vc vcp vacc))) /\
                 is_ b' (snd (fst r)) (snd (fst (add_loop_s vxys vc vcp vacc))) /\
                 is_ b' (snd r) (snd (add_loop_s vxys vc vcp vacc))).
Proof.
  induction xys as [|[x y] r IH]; intros vxys b c vc cp vcp acc vacc Hi Hxys Hc Hcp Hacc.
  - apply are2_nil_inv in Hxys. subst vxys. cbn [add_loop add_loop_s fst snd].
    apply ok_ret; [assumption|]. cbn [fst snd]. split; [assumption|]. split; assumption.
  - destruct (are2_cons_inv _ _ _ _ _ Hxys) as (vx & vy & vr & -> & Hx & Hy & Hr).
    cbn [add_loop].
    call push_adder_ok. intros [s c'] b1 Hi1 He1 [Hs Hc']. nxt He1. cbn [fst snd] in Hs, Hc'.
    cbn [add_loop_s]. destruct (adder_s vx vy vc) as [vs vc'] eqn:Ea. cbn [fst snd] in Hs, Hc'.
    apply IH; try assumption. apply are_cons; assumption.
Qed.

Lemma push_addition_circuit_ok b x y vx vy :
  inv b -> are b x vx -> are b y vy -> length x = length y ->
  ok b (push_addition_circuit b x y)
    (fun r b' => are b' (fst (fst r)) (fst (fst (addition_s vx vy))) /\
                 is_ b' (snd (fst r)) (snd (fst (addition_s vx vy))) /\
                 is_ b' (snd r) (snd (addition_s vx vy))).
Proof.
  intros Hi Hx Hy Hl. unfold push_addition_circuit, addition_s.
  rewrite len_test by exact Hl.
  pose proof (is_const0 b Hi) as H0.
  apply add_loop_ok; try assumption.
  - apply are2_rev, are2_combine; assumption.
  - apply are_nil.
Qed.

(* -------------------------------------------------------------- negation *)

Lemma neg_loop_ok : forall xs vxs b c vc acc vacc,
  inv b -> are b xs vxs -> is_ b c vc -> are b acc vacc ->
  ok b (neg_loop b xs c acc) (fun r b' => are b' r (neg_loop_s vxs vc vacc)).
Proof.
  induction xs as [|x r IH]; intros vxs b c vc acc vacc Hi Hxs Hc Hacc.
  - apply are_nil_inv in Hxs. subst vxs. cbn [neg_loop neg_loop_s].
    apply ok_ret; assumption.
  - destruct (are_cons_inv _ _ _ _ Hxs) as (vx & vr & -> & Hx & Hr).
    cbn [neg_loop neg_loop_s].
    call ok_not. intros nx b1 Hi1 He1 Hnx. nxt He1.
    call ok_xor. intros s b2 Hi2 He2 Hs. nxt He2.
    call ok_and. intros c' b3 Hi3 He3 Hc'. nxt He3.
    apply IH; try assumption. apply are_cons; assumption.
Qed.

Lemma push_negation_circuit_ok b x vx :
  inv b -> are b x vx ->
  ok b (push_negation_circuit b x) (fun r b' => are b' r (negation_s vx)).
Proof.
  intros Hi Hx. unfold push_negation_circuit, negation_s.
  pose proof (is_const1 b Hi) as H1.
  apply neg_loop_ok; try assumption.
  - apply are_rev; assumption.
  - apply are_nil.
Qed.

(* -------------------------------------------------------------- subtraction *)

Lemma push_subtraction_circuit_ok b x y sg vx vy :
  inv b -> are b x vx -> are b y vy -> length x = length y -> (sg = true -> x <> []) ->
  ok b (push_subtraction_circuit b x y sg)
    (fun r b' => are b' (fst r) (fst (subtraction_s vx vy sg)) /\
                 is_ b' (snd r) (snd (subtraction_s vx vy sg))).
Proof.
  intros Hi Hx Hy Hl Hne. unfold push_subtraction_circuit. unfold W, B.
  rewrite len_test by exact Hl. rewrite subtraction_s_eq. cbv zeta.
  pose proof (is_const0 b Hi) as H0.
  set (vx0 := if sg then hd false vx else false).
  set (vy0 := if sg then hd false vy else false).
  assert (Hhd : exists x0 y0,
             (if sg then hd_res x else Ok 0) = Ok x0 /\ (if sg then hd_res y else Ok 0) = Ok y0 /\
             is_ b x0 vx0 /\ is_ b y0 vy0).
  { subst vx0 vy0. destruct sg.
    - destruct x as [|x0 x']; [exfalso; apply Hne; reflexivity|].
      destruct y as [|y0 y']; [discriminate Hl|].
      exists x0, y0. cbn [hd_res]. split; [reflexivity|]. split; [reflexivity|].
      split; eapply are_hd; eassumption.
    - exists 0, 0. split; [reflexivity|]. split; [reflexivity|]. split; assumption. }
  destruct Hhd as (x0 & y0 & -> & -> & Hx0 & Hy0). cbn [bind].
  assert (Hxe : are b (x0 :: x) (vx0 :: vx)) by (apply are_cons; assumption).
  assert (Hye : are b (y0 :: y) (vy0 :: vy)) by (apply are_cons; assumption).
  call push_negation_circuit_ok. intros yn b1 Hi1 He1 Hyn. nxt He1.
  assert (Hlyn : length (x0 :: x) = length yn).
  { rewrite (are_length _ _ _ Hyn), negation_s_length. cbn [length].
    rewrite <- (are_length _ _ _ Hy). lia. }
  eapply ok_bind; [eapply push_addition_circuit_ok; eassumption|].
  intros [[se c1] c2] b2 Hi2 He2 (Hse & _ & _). nxt He2. cbn [fst snd] in Hse.
  set (vse := fst (fst (addition_s (vx0 :: vx) (negation_s (vy0 :: vy))))) in *.
  assert (Hlse : length se = S (length x)).
  { rewrite (are_length _ _ _ Hse). subst vse. rewrite addition_s_length.
    - cbn [length]. rewrite <- (are_length _ _ _ Hx). reflexivity.
    - rewrite negation_s_length. cbn [length].
      rewrite <- (are_length _ _ _ Hx), <- (are_length _ _ _ Hy). lia. }
  destruct se as [|sign sum]; [discriminate Hlse|]. cbn [hd_res bind tl].
  pose proof (are_hd _ _ _ _ Hse) as Hsign. pose proof (are_tl _ _ _ _ Hse) as Hsum.
  destruct sg.
  - destruct sum as [|s0 sum'].
    { exfalso. cbn [length] in Hlse. destruct x; [apply Hne; reflexivity|discriminate Hlse]. }
    cbn [hd_res bind]. pose proof (are_hd _ _ _ _ Hsum) as Hs0.
    call ok_xor. intros ov b3 Hi3 He3 Hov. nxt He3.
    apply ok_ret; [assumption|]. cbn [fst snd]. split; assumption.
  - apply ok_ret; [assumption|]. cbn [fst snd]. split; assumption.
Qed.

(* -------------------------------------------------------------- or_all, mux_all *)

Lemma or_all_ok : forall ys vys b acc vacc,
  inv b -> is_ b acc vacc -> are b ys vys ->
  ok b (or_all b acc ys) (fun r b' => is_ b' r (or_all_s vacc vys)).
Proof.
  induction ys as [|y r IH]; intros vys b acc vacc Hi Hacc Hys.
  - apply are_nil_inv in Hys. subst vys. cbn [or_all or_all_s]. apply ok_ret; assumption.
  - destruct (are_cons_inv _ _ _ _ Hys) as (vy & vr & -> & Hy & Hr).
    cbn [or_all or_all_s].
    call ok_or. intros o b1 Hi1 He1 Ho. nxt He1.
    apply IH; assumption.
Qed.

Lemma mux_all_ok : forall xs vxs b s vs ys vys,
  inv b -> is_ b s vs -> are b xs vxs -> are b ys vys ->
  ok b (mux_all b s xs ys) (fun r b' => are b' r (mux_all_s vs vxs vys)).
Proof.
  induction xs as [|x xr IH]; intros vxs b s vs ys vys Hi Hs Hxs Hys.
  - apply are_nil_inv in Hxs. subst vxs. cbn [mux_all mux_all_s].
    apply ok_ret; [assumption|apply are_nil].
  - destruct (are_cons_inv _ _ _ _ Hxs) as (vx & vxr & -> & Hx & Hxr).
    destruct ys as [|y yr].
    + apply are_nil_inv in Hys. subst vys. cbn [mux_all mux_all_s].
      apply ok_ret; [assumption|apply are_nil].
    + destruct (are_cons_inv _ _ _ _ Hys) as (vy & vyr & -> & Hy & Hyr).
      cbn [mux_all mux_all_s].
      call ok_mux. intros m b1 Hi1 He1 Hm. nxt He1.
      eapply ok_bind; [eapply IH; eassumption|]. intros rest b2 Hi2 He2 Hrest. nxt He2.
      apply ok_ret; [assumption|]. apply are_cons; assumption.
Qed.

(* -------------------------------------------------------------- comparison *)

Lemma gt_loop_ok : forall xys vxys b c vc,
  inv b -> are2 b xys vxys -> is_ b c vc ->
  ok b (gt_loop b xys c) (fun r b' => is_ b' r (gt_loop_s vxys vc)).
Proof.
  induction xys as [|[x y] r IH]; intros vxys b c vc Hi Hxys Hc.
  - apply are2_nil_inv in Hxys. subst vxys. cbn [gt_loop gt_loop_s]. apply ok_ret; assumption.
  - destruct (are2_cons_inv _ _ _ _ _ Hxys) as (vx & vy & vr & -> & Hx & Hy & Hr).
    cbn [gt_loop gt_loop_s].
    call ok_xor. intros xc b1 Hi1 He1 Hxc. nxt He1.
    call ok_xor. intros yc b2 Hi2 He2 Hyc. nxt He2.
    call ok_not. intros nyc b3 Hi3 He3 Hnyc. nxt He3.
    call ok_and. intros an b4 Hi4 He4 Han. nxt He4.
    call ok_xor. intros c' b5 Hi5 He5 Hc'. nxt He5.
    apply IH; assumption.
Qed.

Lemma push_gt_circuit_ok b bits x y vx vy :
  inv b -> are b x vx -> are b y vy -> (bits <= length x)%nat -> (bits <= length y)%nat ->
  ok b (push_gt_circuit b bits x y) (fun r b' => is_ b' r (gt_s bits vx vy)).
Proof.
  intros Hi Hx Hy Hbx Hby. unfold push_gt_circuit, gt_s.
  rewrite len_test2 by assumption.
  pose proof (is_const0 b Hi) as H0.
  apply gt_loop_ok; try assumption.
  apply are2_rev, are2_combine; apply are_firstn; assumption.
Qed.

Lemma cmp_loop_ok : forall xys vxys b first signed ag vag al val,
  inv b -> are2 b xys vxys -> is_ b ag vag -> is_ b al val ->
  ok b (cmp_loop b first signed xys ag al)
    (fun r b' => is_ b' (fst r) (fst (cmp_loop_s first signed vxys vag val)) /\
                 is_ b' (snd r) (snd (cmp_loop_s first signed vxys vag val))).
Proof.
  induction xys as [|[x y] r IH]; intros vxys b first signed ag vag al val Hi Hxys Hag Hal.
  - apply are2_nil_inv in Hxys. subst vxys. cbn [cmp_loop cmp_loop_s].
    apply ok_ret; [assumption|]. cbn [fst snd]. split; assumption.
  - destruct (are2_cons_inv _ _ _ _ _ Hxys) as (vx & vy & vr & -> & Hx & Hy & Hr).
    cbn [cmp_loop cmp_loop_s].
    call ok_xor. intros xo b1 Hi1 He1 Hxo. nxt He1.
    call ok_and. intros xa b2 Hi2 He2 Hxa. nxt He2.
    call ok_and. intros ya b3 Hi3 He3 Hya. nxt He3.
    destruct (first && signed); cbn beta iota zeta;
    ( call ok_or; intros gt' b4 Hi4 He4 Hgt'; nxt He4;
      call ok_or; intros lt' b5 Hi5 He5 Hlt'; nxt He5;
      call ok_not; intros nag b6 Hi6 He6 Hnag; nxt He6;
      call ok_not; intros nal b7 Hi7 He7 Hnal; nxt He7;
      call ok_and; intros ag' b8 Hi8 He8 Hag'; nxt He8;
      call ok_and; intros al' b9 Hi9 He9 Hal'; nxt He9;
      apply IH; assumption ).
Qed.

Lemma push_comparator_circuit_ok b bits x sx y sy vx vy :
  inv b -> are b x vx -> are b y vy -> (bits <= length x)%nat -> (bits <= length y)%nat ->
  ok b (push_comparator_circuit b bits x sx y sy)
    (fun r b' => is_ b' (fst r) (fst (cmp_s bits vx sx vy sy)) /\
                 is_ b' (snd r) (snd (cmp_s bits vx sx vy sy))).
Proof.
  intros Hi Hx Hy Hbx Hby. unfold push_comparator_circuit, cmp_s.
  rewrite len_test2 by assumption.
  pose proof (is_const0 b Hi) as H0.
  apply cmp_loop_ok; try assumption.
  apply are2_combine; apply are_firstn; assumption.
Qed.

(* -------------------------------------------------------------- equality *)

Lemma eq_go_ok : forall xys vxys b acc vacc,
  inv b -> are2 b xys vxys -> is_ b acc vacc ->
  ok b (eq_go b acc xys) (fun r b' => is_ b' r (eq_go_s vacc vxys)).
Proof.
  induction xys as [|[x y] r IH]; intros vxys b acc vacc Hi Hxys Hacc.
  - apply are2_nil_inv in Hxys. subst vxys. cbn [eq_go eq_go_s]. apply ok_ret; assumption.
  - destruct (are2_cons_inv _ _ _ _ _ Hxys) as (vx & vy & vr & -> & Hx & Hy & Hr).
    cbn [eq_go eq_go_s].
    call ok_eq. intros e b1 Hi1 He1 He. nxt He1.
    call ok_and. intros acc' b2 Hi2 He2 Hacc'. nxt He2.
    apply IH; assumption.
Qed.

Lemma push_eq_circuit_ok b x y vx vy :
  inv b -> are b x vx -> are b y vy ->
  ok b (push_eq_circuit b x y) (fun r b' => is_ b' r (eq_s vx vy)).
Proof.
  intros Hi Hx Hy. rewrite push_eq_circuit_eq, eq_s_eq. unfold W, B.
  rewrite <- (are_length _ _ _ Hx), <- (are_length _ _ _ Hy).
  destruct (negb (length x =? length y)%nat).
  - apply ok_ret; [assumption|]. apply is_const0; assumption.
  - pose proof (is_const1 b Hi) as H1.
    apply eq_go_ok; try assumption. apply are2_combine; assumption.
Qed.

(* -------------------------------------------------------------- conditional swap *)

Lemma push_condswap_ok b s x y vs vx vy :
  inv b -> is_ b s vs -> is_ b x vx -> is_ b y vy ->
  ok b (push_condswap b s x y)
    (fun r b' => is_ b' (fst r) (fst (condswap_s vs vx vy)) /\
                 is_ b' (snd r) (snd (condswap_s vs vx vy))).
Proof.
  intros Hi Hs Hx Hy. unfold push_condswap. destruct (N.eqb_spec x y) as [E|E].
  - subst y. apply ok_ret; [assumption|]. cbn [fst snd].
    assert (Hsame : ins_ok b inp -> condswap_s vs vx vy = (vx, vx)).
    { intro Hok. rewrite <- (is_det _ _ _ _ Hx Hy Hok). unfold condswap_s.
      destruct vx, vs; reflexivity. }
    split; (split; [apply Hx|]); intro Hok; rewrite (Hsame Hok); cbn [fst snd];
      apply Hx; exact Hok.
  - call ok_xor. intros xy b1 Hi1 He1 Hxy. nxt He1.
    call ok_and. intros sw b2 Hi2 He2 Hsw. nxt He2.
    call ok_xor. intros xs b3 Hi3 He3 Hxs. nxt He3.
    call ok_xor. intros ys b4 Hi4 He4 Hys. nxt He4.
    apply ok_ret; [assumption|]. cbn [fst snd condswap_s]. split; assumption.
Qed.

(* -------------------------------------------------------------- division *)

Lemma udiv_step_ok b y vy bits sa rem vrem :
  inv b -> are b y vy -> are b rem vrem -> (sa <= length y)%nat -> length rem = length y ->
  ok b (udiv_step b y bits sa rem)
    (fun r b' => are b' (fst r) (fst (udiv_step_s vy sa vrem)) /\
                 is_ b' (snd r) (snd (udiv_step_s vy sa vrem))).
Proof.
  intros Hi Hy Hrem Hsa Hl. unfold udiv_step. rewrite udiv_step_s_eq. cbv zeta. cbn [fst snd].
  pose proof (is_const0 b Hi) as H0.
  eapply ok_bind; [eapply or_all_ok; [eassumption|eassumption|apply are_firstn; eassumption]|].
  intros ov b1 Hi1 He1 Hov. nxt He1.
  assert (Hsh : are b1 (skipn sa y ++ repeat 0 sa) (skipn sa vy ++ repeat false sa)).
  { apply are_app; [apply are_skipn; assumption|apply are_repeat; assumption]. }
  assert (Hlsh : length rem = length (skipn sa y ++ repeat 0 sa)).
  { rewrite shifted_length; assumption. }
  eapply ok_bind;
    [eapply push_subtraction_circuit_ok; [eassumption|eassumption|exact Hsh|exact Hlsh|discriminate]|].
  intros [xsub carry] b2 Hi2 He2 [Hxs Hca]. nxt He2. cbn [fst snd] in Hxs, Hca.
  call ok_or. intros coo b3 Hi3 He3 Hcoo. nxt He3.
  call mux_all_ok. intros rem' b4 Hi4 He4 Hrem'. nxt He4.
  call ok_not. intros qb b5 Hi5 He5 Hqb. nxt He5.
  call ok_mux. intros q b6 Hi6 He6 Hq. nxt He6.
  apply ok_ret; [assumption|]. cbn [fst snd]. split; assumption.
Qed.

Lemma udiv_loop_ok : forall sas b y vy bits rem vrem q vq,
  inv b -> are b y vy -> are b rem vrem -> are b q vq ->
  Forall (fun sa => (sa <= length y)%nat) sas -> length rem = length y ->
  ok b (udiv_loop b y bits sas rem q)
    (fun r b' => are b' (fst r) (fst (udiv_loop_s vy sas vrem vq)) /\
                 are b' (snd r) (snd (udiv_loop_s vy sas vrem vq))).
Proof.
  induction sas as [|sa sas IH]; intros b y vy bits rem vrem q vq Hi Hy Hrem Hq Hsas Hl.
  - cbn [udiv_loop udiv_loop_s]. apply ok_ret; [assumption|]. cbn [fst snd].
    split; [apply are_rev; assumption|assumption].
  - rewrite udiv_loop_s_eq. cbn [udiv_loop].
    inversion Hsas as [|sa' sas' Hsa Hsas']; subst.
    eapply ok_bind; [eapply udiv_step_ok; eassumption|].
    intros [rem' qb] b1 Hi1 He1 [Hrem' Hqb]. nxt He1. cbn [fst snd] in Hrem', Hqb.
    apply IH; try assumption.
    + apply are_cons; assumption.
    + rewrite (are_length _ _ _ Hrem'), udiv_step_s_length.
      * rewrite <- (are_length _ _ _ Hrem). exact Hl.
      * rewrite <- (are_length _ _ _ Hy). exact Hsa.
      * rewrite <- (are_length _ _ _ Hy), <- (are_length _ _ _ Hrem). exact Hl.
Qed.

Lemma push_unsigned_division_circuit_ok b x y vx vy :
  inv b -> are b x vx -> are b y vy -> length x = length y ->
  ok b (push_unsigned_division_circuit b x y)
    (fun r b' => are b' (fst r) (fst (udiv_s vx vy)) /\ are b' (snd r) (snd (udiv_s vx vy))).
Proof.
  intros Hi Hx Hy Hl. unfold push_unsigned_division_circuit, udiv_s.
  rewrite len_test by exact Hl. cbv zeta.
  rewrite <- (are_length _ _ _ Hx).
  apply udiv_loop_ok; try assumption.
  - apply are_nil.
  - rewrite Hl. apply seq_rev_bound.
Qed.

Lemma push_signed_division_circuit_ok b x y vx vy :
  inv b -> are b x vx -> are b y vy -> length x = length y -> x <> [] ->
  ok b (push_signed_division_circuit b x y)
    (fun r b' => are b' (fst r) (fst (sdiv_s vx vy)) /\ are b' (snd r) (snd (sdiv_s vx vy))).
Proof.
  intros Hi Hx Hy Hl Hne. unfold push_signed_division_circuit. unfold W, B.
  rewrite len_test by exact Hl. rewrite sdiv_s_eq. cbv zeta. cbn [fst snd].
  destruct x as [|x0 x']; [exfalso; apply Hne; reflexivity|].
  destruct y as [|y0 y']; [discriminate Hl|].
  cbn [hd_res bind].
  pose proof (are_hd _ _ _ _ Hx) as Hx0. pose proof (are_hd _ _ _ _ Hy) as Hy0.
  set (x := x0 :: x') in *. set (y := y0 :: y') in *.
  call ok_xor. intros isneg b1 Hi1 He1 Hisneg. nxt He1.
  call push_negation_circuit_ok. intros xneg b2 Hi2 He2 Hxneg. nxt He2.
  call mux_all_ok. intros xa b3 Hi3 He3 Hxa. nxt He3.
  call push_negation_circuit_ok. intros yneg b4 Hi4 He4 Hyneg. nxt He4.
  call mux_all_ok. intros ya b5 Hi5 He5 Hya. nxt He5.
  assert (Hla : length xa = length ya).
  { rewrite (are_length _ _ _ Hxa), (are_length _ _ _ Hya), !mux_all_s_length,
      !negation_s_length, <- (are_length _ _ _ Hx), <- (are_length _ _ _ Hy). lia. }
  eapply ok_bind; [eapply push_unsigned_division_circuit_ok; eassumption|].
  intros [q r] b6 Hi6 He6 [Hq Hr]. nxt He6. cbn [fst snd] in Hq, Hr.
  call push_negation_circuit_ok. intros qneg b7 Hi7 He7 Hqneg. nxt He7.
  call mux_all_ok. intros q' b8 Hi8 He8 Hq'. nxt He8.
  call push_negation_circuit_ok. intros rneg b9 Hi9 He9 Hrneg. nxt He9.
  call mux_all_ok. intros r' b10 Hi10 He10 Hr'. nxt He10.
  apply ok_ret; [assumption|]. cbn [fst snd]. split; assumption.
Qed.

End Inp.

(* ------------------------------------------------------------------ finalisation *)

Lemma is_of_valid inp b w : valid b w -> is_ inp b w (den inp b w).
Proof. intro H. split; [exact H|]. intros _. reflexivity. Qed.

Lemma are_of_valids inp b ws : valids b ws -> are inp b ws (dens inp b ws).
Proof.
  intro H. unfold valids in H. unfold are, dens.
  induction H as [|w ws Hw Hws IH]; cbn [map]; constructor; [apply is_of_valid; exact Hw|exact IH].
Qed.

Lemma are2_of_valids2 inp b xys : valids2 b xys -> are2 inp b xys (dens2 inp b xys).
Proof.
  intro H. unfold valids2 in H. unfold are2, dens2.
  induction H as [|[x y] r [Hx Hy] Hr IH]; cbn [map fst snd]; constructor; [|exact IH].
  split; cbn [fst snd]; apply is_of_valid; assumption.
Qed.

Lemma are_dens inp b ws vs :
  are inp b ws vs -> valids b ws /\ (ins_ok b inp -> dens inp b ws = vs).
Proof.
  intro H. unfold are in H. unfold valids, dens.
  induction H as [|w v ws vs [Hv Hd] Hr [IHv IHd]]; split.
  - constructor.
  - intros _. reflexivity.
  - constructor; assumption.
  - intro Hok. cbn [map]. rewrite (Hd Hok), (IHd Hok). reflexivity.
Qed.

Lemma is_fin b b' w (f : list bool -> bool) :
  ext b b' -> (forall inp, is_ inp b' w (f inp)) ->
  valid b' w /\ forall inp, ins_ok b inp -> den inp b' w = f inp.
Proof.
  intros He H. split; [apply (H [])|].
  intros inp Hok. apply (H inp). eapply ext_ins_ok; eauto.
Qed.

Lemma are_fin b b' ws (f : list bool -> list bool) :
  ext b b' -> (forall inp, are inp b' ws (f inp)) ->
  valids b' ws /\ forall inp, ins_ok b inp -> dens inp b' ws = f inp.
Proof.
  intros He H. split; [apply (are_dens [] _ _ _ (H []))|].
  intros inp Hok. apply (are_dens inp _ _ _ (H inp)). eapply ext_ins_ok; eauto.
Qed.

Lemma fin_w b (m : res (N * builder)) (f : list bool -> bool) :
  (forall inp, ok b m (fun r b' => is_ inp b' r (f inp))) ->
  exists r b', m = Ok (r, b') /\ inv b' /\ ext b b' /\ valid b' r /\
    forall inp, ins_ok b inp -> den inp b' r = f inp.
Proof.
  intro H. destruct (finalize b m _ H) as (r & b' & E & Hi & He & Hq).
  exists r, b'. split; [exact E|]. split; [exact Hi|]. split; [exact He|].
  apply (is_fin b b' r f He Hq).
Qed.

Lemma fin_ws b (m : res (list N * builder)) (f : list bool -> list bool) :
  (forall inp, ok b m (fun r b' => are inp b' r (f inp))) ->
  exists r b', m = Ok (r, b') /\ inv b' /\ ext b b' /\ valids b' r /\
    forall inp, ins_ok b inp -> dens inp b' r = f inp.
Proof.
  intro H. destruct (finalize b m _ H) as (r & b' & E & Hi & He & Hq).
  exists r, b'. split; [exact E|]. split; [exact Hi|]. split; [exact He|].
  apply (are_fin b b' r f He Hq).
Qed.

Lemma fin_ww b (m : res ((N * N) * builder)) (f : list bool -> bool * bool) :
  (forall inp, ok b m (fun r b' => is_ inp b' (fst r) (fst (f inp)) /\
                                   is_ inp b' (snd r) (snd (f inp)))) ->
  exists r b', m = Ok (r, b') /\ inv b' /\ ext b b' /\ valid b' (fst r) /\ valid b' (snd r) /\
    forall inp, ins_ok b inp -> (den inp b' (fst r), den inp b' (snd r)) = f inp.
Proof.
  intro H. destruct (finalize b m _ H) as (r & b' & E & Hi & He & Hq).
  exists r, b'. split; [exact E|]. split; [exact Hi|]. split; [exact He|].
  destruct (is_fin b b' (fst r) (fun inp => fst (f inp)) He (fun inp => proj1 (Hq inp))) as [V1 D1].
  destruct (is_fin b b' (snd r) (fun inp => snd (f inp)) He (fun inp => proj2 (Hq inp))) as [V2 D2].
  split; [exact V1|]. split; [exact V2|]. intros inp Hok.
  rewrite (D1 inp Hok), (D2 inp Hok). symmetry. apply surjective_pairing.
Qed.

Lemma fin_wsw b (m : res ((list N * N) * builder)) (f : list bool -> list bool * bool) :
  (forall inp, ok b m (fun r b' => are inp b' (fst r) (fst (f inp)) /\
                                   is_ inp b' (snd r) (snd (f inp)))) ->
  exists r b', m = Ok (r, b') /\ inv b' /\ ext b b' /\ valids b' (fst r) /\ valid b' (snd r) /\
    forall inp, ins_ok b inp -> (dens inp b' (fst r), den inp b' (snd r)) = f inp.
Proof.
  intro H. destruct (finalize b m _ H) as (r & b' & E & Hi & He & Hq).
  exists r, b'. split; [exact E|]. split; [exact Hi|]. split; [exact He|].
  destruct (are_fin b b' (fst r) (fun inp => fst (f inp)) He (fun inp => proj1 (Hq inp))) as [V1 D1].
  destruct (is_fin b b' (snd r) (fun inp => snd (f inp)) He (fun inp => proj2 (Hq inp))) as [V2 D2].
  split; [exact V1|]. split; [exact V2|]. intros inp Hok.
  rewrite (D1 inp Hok), (D2 inp Hok). symmetry. apply surjective_pairing.
Qed.

Lemma fin_wsws b (m : res ((list N * list N) * builder)) (f : list bool -> list bool * list bool) :
  (forall inp, ok b m (fun r b' => are inp b' (fst r) (fst (f inp)) /\
                                   are inp b' (snd r) (snd (f inp)))) ->
  exists r b', m = Ok (r, b') /\ inv b' /\ ext b b' /\ valids b' (fst r) /\ valids b' (snd r) /\
    forall inp, ins_ok b inp -> (dens inp b' (fst r), dens inp b' (snd r)) = f inp.
Proof.
  intro H. destruct (finalize b m _ H) as (r & b' & E & Hi & He & Hq).
  exists r, b'. split; [exact E|]. split; [exact Hi|]. split; [exact He|].
  destruct (are_fin b b' (fst r) (fun inp => fst (f inp)) He (fun inp => proj1 (Hq inp))) as [V1 D1].
  destruct (are_fin b b' (snd r) (fun inp => snd (f inp)) He (fun inp => proj2 (Hq inp))) as [V2 D2].
  split; [exact V1|]. split; [exact V2|]. intros inp Hok.
  rewrite (D1 inp Hok), (D2 inp Hok). symmetry. apply surjective_pairing.
Qed.

Lemma fin_wsww b (m : res ((list N * N * N) * builder)) (f : list bool -> list bool * bool * bool) :
  (forall inp, ok b m (fun r b' => are inp b' (fst (fst r)) (fst (fst (f inp))) /\
                                   is_ inp b' (snd (fst r)) (snd (fst (f inp))) /\
                                   is_ inp b' (snd r) (snd (f inp)))) ->
  exists r b', m = Ok (r, b') /\ inv b' /\ ext b b' /\
    valids b' (fst (fst r)) /\ valid b' (snd (fst r)) /\ valid b' (snd r) /\
    forall inp, ins_ok b inp ->
      (dens inp b' (fst (fst r)), den inp b' (snd (fst r)), den inp b' (snd r)) = f inp.
Proof.
  intro H. destruct (finalize b m _ H) as (r & b' & E & Hi & He & Hq).
  exists r, b'. split; [exact E|]. split; [exact Hi|]. split; [exact He|].
  destruct (are_fin b b' (fst (fst r)) (fun inp => fst (fst (f inp))) He
              (fun inp => proj1 (Hq inp))) as [V1 D1].
  destruct (is_fin b b' (snd (fst r)) (fun inp => snd (fst (f inp))) He
              (fun inp => proj1 (proj2 (Hq inp)))) as [V2 D2].
  destruct (is_fin b b' (snd r) (fun inp => snd (f inp)) He
              (fun inp => proj2 (proj2 (Hq inp)))) as [V3 D3].
  split; [exact V1|]. split; [exact V2|]. split; [exact V3|]. intros inp Hok.
  rewrite (D1 inp Hok), (D2 inp Hok), (D3 inp Hok).
  destruct (f inp) as [[l c1] c2]. reflexivity.
Qed.

(* ------------------------------------------------------------------ the soundness theorems *)

Theorem push_eq_circuit_sound b x y :
  inv b -> valids b x -> valids b y ->
  exists r b', push_eq_circuit b x y = Ok (r, b') /\ inv b' /\ ext b b' /\ valid b' r /\
    forall inp, ins_ok b inp -> den inp b' r = eq_s (dens inp b x) (dens inp b y).
Proof.
  intros Hi Hx Hy. apply (fin_w _ _ (fun inp => eq_s (dens inp b x) (dens inp b y))).
  intro inp. cbn beta. apply push_eq_circuit_ok; auto using are_of_valids.
Qed.

Theorem push_adder_sound b x y c :
  inv b -> valid b x -> valid b y -> valid b c ->
  exists r b', push_adder b x y c = Ok (r, b') /\ inv b' /\ ext b b' /\
    valid b' (fst r) /\ valid b' (snd r) /\
    forall inp, ins_ok b inp ->
      (den inp b' (fst r), den inp b' (snd r))
      = adder_s (den inp b x) (den inp b y) (den inp b c).
Proof.
  intros Hi Hx Hy Hc.
  apply (fin_ww _ _ (fun inp => adder_s (den inp b x) (den inp b y) (den inp b c))).
  intro inp. cbn beta. apply push_adder_ok; auto using is_of_valid.
Qed.

Theorem push_multiplier_sound b x y z c :
  inv b -> valid b x -> valid b y -> valid b z -> valid b c ->
  exists r b', push_multiplier b x y z c = Ok (r, b') /\ inv b' /\ ext b b' /\
    valid b' (fst r) /\ valid b' (snd r) /\
    forall inp, ins_ok b inp ->
      (den inp b' (fst r), den inp b' (snd r))
      = multiplier_s (den inp b x) (den inp b y) (den inp b z) (den inp b c).
Proof.
  intros Hi Hx Hy Hz Hc.
  apply (fin_ww _ _ (fun inp =>
           multiplier_s (den inp b x) (den inp b y) (den inp b z) (den inp b c))).
  intro inp. cbn beta. apply push_multiplier_ok; auto using is_of_valid.
Qed.

Theorem add_loop_sound b xys c cp acc :
  inv b -> valids2 b xys -> valid b c -> valid b cp -> valids b acc ->
  exists r b', add_loop b xys c cp acc = Ok (r, b') /\ inv b' /\ ext b b' /\
    valids b' (fst (fst r)) /\ valid b' (snd (fst r)) /\ valid b' (snd r) /\
    forall inp, ins_ok b inp ->
      (dens inp b' (fst (fst r)), den inp b' (snd (fst r)), den inp b' (snd r))
      = add_loop_s (dens2 inp b xys) (den inp b c) (den inp b cp) (dens inp b acc).
Proof.
  intros Hi Hxys Hc Hcp Hacc.
  apply (fin_wsww _ _ (fun inp =>
           add_loop_s (dens2 inp b xys) (den inp b c) (den inp b cp) (dens inp b acc))).
  intro inp. cbn beta.
  apply add_loop_ok; auto using is_of_valid, are_of_valids, are2_of_valids2.
Qed.

Theorem push_addition_circuit_sound b x y :
  inv b -> valids b x -> valids b y -> length x = length y ->
  exists r b', push_addition_circuit b x y = Ok (r, b') /\ inv b' /\ ext b b' /\
    valids b' (fst (fst r)) /\ valid b' (snd (fst r)) /\ valid b' (snd r) /\
    forall inp, ins_ok b inp ->
      (dens inp b' (fst (fst r)), den inp b' (snd (fst r)), den inp b' (snd r))
      = addition_s (dens inp b x) (dens inp b y).
Proof.
  intros Hi Hx Hy Hl.
  apply (fin_wsww _ _ (fun inp => addition_s (dens inp b x) (dens inp b y))).
  intro inp. cbn beta. apply push_addition_circuit_ok; auto using are_of_valids.
Qed.

Theorem neg_loop_sound b xs c acc :
  inv b -> valids b xs -> valid b c -> valids b acc ->
  exists r b', neg_loop b xs c acc = Ok (r, b') /\ inv b' /\ ext b b' /\ valids b' r /\
    forall inp, ins_ok b inp ->
      dens inp b' r = neg_loop_s (dens inp b xs) (den inp b c) (dens inp b acc).
Proof.
  intros Hi Hxs Hc Hacc.
  apply (fin_ws _ _ (fun inp => neg_loop_s (dens inp b xs) (den inp b c) (dens inp b acc))).
  intro inp. cbn beta. apply neg_loop_ok; auto using is_of_valid, are_of_valids.
Qed.

Theorem push_negation_circuit_sound b x :
  inv b -> valids b x ->
  exists r b', push_negation_circuit b x = Ok (r, b') /\ inv b' /\ ext b b' /\ valids b' r /\
    forall inp, ins_ok b inp -> dens inp b' r = negation_s (dens inp b x).
Proof.
  intros Hi Hx. apply (fin_ws _ _ (fun inp => negation_s (dens inp b x))).
  intro inp. cbn beta. apply push_negation_circuit_ok; auto using are_of_valids.
Qed.

Theorem push_subtraction_circuit_sound b x y is_signed :
  inv b -> valids b x -> valids b y -> length x = length y ->
  (is_signed = true -> x <> []) ->
  exists r b', push_subtraction_circuit b x y is_signed = Ok (r, b') /\ inv b' /\ ext b b' /\
    valids b' (fst r) /\ valid b' (snd r) /\
    forall inp, ins_ok b inp ->
      (dens inp b' (fst r), den inp b' (snd r))
      = subtraction_s (dens inp b x) (dens inp b y) is_signed.
Proof.
  intros Hi Hx Hy Hl Hne.
  apply (fin_wsw _ _ (fun inp => subtraction_s (dens inp b x) (dens inp b y) is_signed)).
  intro inp. cbn beta. apply push_subtraction_circuit_ok; auto using are_of_valids.
Qed.

Theorem or_all_sound b acc ys :
  inv b -> valid b acc -> valids b ys ->
  exists r b', or_all b acc ys = Ok (r, b') /\ inv b' /\ ext b b' /\ valid b' r /\
    forall inp, ins_ok b inp -> den inp b' r = or_all_s (den inp b acc) (dens inp b ys).
Proof.
  intros Hi Hacc Hys. apply (fin_w _ _ (fun inp => or_all_s (den inp b acc) (dens inp b ys))).
  intro inp. cbn beta. apply or_all_ok; auto using is_of_valid, are_of_valids.
Qed.

Theorem mux_all_sound b s xs ys :
  inv b -> valid b s -> valids b xs -> valids b ys ->
  exists r b', mux_all b s xs ys = Ok (r, b') /\ inv b' /\ ext b b' /\ valids b' r /\
    forall inp, ins_ok b inp ->
      dens inp b' r = mux_all_s (den inp b s) (dens inp b xs) (dens inp b ys).
Proof.
  intros Hi Hs Hxs Hys.
  apply (fin_ws _ _ (fun inp => mux_all_s (den inp b s) (dens inp b xs) (dens inp b ys))).
  intro inp. cbn beta. apply mux_all_ok; auto using is_of_valid, are_of_valids.
Qed.

Theorem udiv_step_sound b y bits sa remainder :
  inv b -> valids b y -> valids b remainder ->
  (sa <= length y)%nat -> length remainder = length y ->
  exists r b', udiv_step b y bits sa remainder = Ok (r, b') /\ inv b' /\ ext b b' /\
    valids b' (fst r) /\ valid b' (snd r) /\
    forall inp, ins_ok b inp ->
      (dens inp b' (fst r), den inp b' (snd r))
      = udiv_step_s (dens inp b y) sa (dens inp b remainder).
Proof.
  intros Hi Hy Hrem Hsa Hl.
  apply (fin_wsw _ _ (fun inp => udiv_step_s (dens inp b y) sa (dens inp b remainder))).
  intro inp. cbn beta. apply udiv_step_ok; auto using are_of_valids.
Qed.

Theorem udiv_loop_sound b y bits sas remainder quot_rev :
  inv b -> valids b y -> valids b remainder -> valids b quot_rev ->
  Forall (fun sa => (sa <= length y)%nat) sas -> length remainder = length y ->
  exists r b', udiv_loop b y bits sas remainder quot_rev = Ok (r, b') /\ inv b' /\ ext b b' /\
    valids b' (fst r) /\ valids b' (snd r) /\
    forall inp, ins_ok b inp ->
      (dens inp b' (fst r), dens inp b' (snd r))
      = udiv_loop_s (dens inp b y) sas (dens inp b remainder) (dens inp b quot_rev).
Proof.
  intros Hi Hy Hrem Hq Hsas Hl.
  apply (fin_wsws _ _ (fun inp =>
           udiv_loop_s (dens inp b y) sas (dens inp b remainder) (dens inp b quot_rev))).
  intro inp. cbn beta. apply udiv_loop_ok; auto using are_of_valids.
Qed.

Theorem push_unsigned_division_circuit_sound b x y :
  inv b -> valids b x -> valids b y -> length x = length y ->
  exists r b', push_unsigned_division_circuit b x y = Ok (r, b') /\ inv b' /\ ext b b' /\
    valids b' (fst r) /\ valids b' (snd r) /\
    forall inp, ins_ok b inp ->
      (dens inp b' (fst r), dens inp b' (snd r)) = udiv_s (dens inp b x) (dens inp b y).
Proof.
  intros Hi Hx Hy Hl.
  apply (fin_wsws _ _ (fun inp => udiv_s (dens inp b x) (dens inp b y))).
  intro inp. cbn beta. apply push_unsigned_division_circuit_ok; auto using are_of_valids.
Qed.

Theorem push_signed_division_circuit_sound b x y :
  inv b -> valids b x -> valids b y -> length x = length y -> x <> [] ->
  exists r b', push_signed_division_circuit b x y = Ok (r, b') /\ inv b' /\ ext b b' /\
    valids b' (fst r) /\ valids b' (snd r) /\
    forall inp, ins_ok b inp ->
      (dens inp b' (fst r), dens inp b' (snd r)) = sdiv_s (dens inp b x) (dens inp b y).
Proof.
  intros Hi Hx Hy Hl Hne.
  apply (fin_wsws _ _ (fun inp => sdiv_s (dens inp b x) (dens inp b y))).
  intro inp. cbn beta. apply push_signed_division_circuit_ok; auto using are_of_valids.
Qed.

Theorem gt_loop_sound b xys c :
  inv b -> valids2 b xys -> valid b c ->
  exists r b', gt_loop b xys c = Ok (r, b') /\ inv b' /\ ext b b' /\ valid b' r /\
    forall inp, ins_ok b inp -> den inp b' r = gt_loop_s (dens2 inp b xys) (den inp b c).
Proof.
  intros Hi Hxys Hc. apply (fin_w _ _ (fun inp => gt_loop_s (dens2 inp b xys) (den inp b c))).
  intro inp. cbn beta. apply gt_loop_ok; auto using is_of_valid, are2_of_valids2.
Qed.

Theorem push_gt_circuit_sound b bits x y :
  inv b -> valids b x -> valids b y -> (bits <= length x)%nat -> (bits <= length y)%nat ->
  exists r b', push_gt_circuit b bits x y = Ok (r, b') /\ inv b' /\ ext b b' /\ valid b' r /\
    forall inp, ins_ok b inp -> den inp b' r = gt_s bits (dens inp b x) (dens inp b y).
Proof.
  intros Hi Hx Hy Hbx Hby.
  apply (fin_w _ _ (fun inp => gt_s bits (dens inp b x) (dens inp b y))).
  intro inp. cbn beta. apply push_gt_circuit_ok; auto using are_of_valids.
Qed.

Theorem cmp_loop_sound b first signed xys acc_gt acc_lt :
  inv b -> valids2 b xys -> valid b acc_gt -> valid b acc_lt ->
  exists r b', cmp_loop b first signed xys acc_gt acc_lt = Ok (r, b') /\ inv b' /\ ext b b' /\
    valid b' (fst r) /\ valid b' (snd r) /\
    forall inp, ins_ok b inp ->
      (den inp b' (fst r), den inp b' (snd r))
      = cmp_loop_s first signed (dens2 inp b xys) (den inp b acc_gt) (den inp b acc_lt).
Proof.
  intros Hi Hxys Hg Hl.
  apply (fin_ww _ _ (fun inp =>
           cmp_loop_s first signed (dens2 inp b xys) (den inp b acc_gt) (den inp b acc_lt))).
  intro inp. cbn beta. apply cmp_loop_ok; auto using is_of_valid, are2_of_valids2.
Qed.

Theorem push_comparator_circuit_sound b bits x sx y sy :
  inv b -> valids b x -> valids b y -> (bits <= length x)%nat -> (bits <= length y)%nat ->
  exists r b', push_comparator_circuit b bits x sx y sy = Ok (r, b') /\ inv b' /\ ext b b' /\
    valid b' (fst r) /\ valid b' (snd r) /\
    forall inp, ins_ok b inp ->
      (den inp b' (fst r), den inp b' (snd r))
      = cmp_s bits (dens inp b x) sx (dens inp b y) sy.
Proof.
  intros Hi Hx Hy Hbx Hby.
  apply (fin_ww _ _ (fun inp => cmp_s bits (dens inp b x) sx (dens inp b y) sy)).
  intro inp. cbn beta. apply push_comparator_circuit_ok; auto using are_of_valids.
Qed.

Theorem push_condswap_sound b s x y :
  inv b -> valid b s -> valid b x -> valid b y ->
  exists r b', push_condswap b s x y = Ok (r, b') /\ inv b' /\ ext b b' /\
    valid b' (fst r) /\ valid b' (snd r) /\
    forall inp, ins_ok b inp ->
      (den inp b' (fst r), den inp b' (snd r))
      = condswap_s (den inp b s) (den inp b x) (den inp b y).
Proof.
  intros Hi Hs Hx Hy.
  apply (fin_ww _ _ (fun inp => condswap_s (den inp b s) (den inp b x) (den inp b y))).
  intro inp. cbn beta. apply push_condswap_ok; auto using is_of_valid.
Qed.

End S.
