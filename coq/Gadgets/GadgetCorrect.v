(* The gadget theorems composed: builder-form gadget (Gadgets.v, what circuit.rs does)
   --GadgetHoare--> pure boolean function (GadgetSpec.v) --Arith--> numbers.
   Everything is parametric in an invariant [inv] with [builder_ops_sound inv]
   (BuilderSpec.v; proved for the concrete invariant in Builder/BuilderProofs.v). *)
From GV Require Import Base.Util Base.NMap Base.Bits Base.BitsProofs
  Builder.Builder Builder.BuilderSem Builder.BuilderSpec
  Gadgets.Gadgets Gadgets.GadgetSpec Gadgets.Arith Gadgets.GadgetHoare.

Lemma dens_length inp b ws : length (dens inp b ws) = length ws.
Proof. unfold dens. apply map_length. Qed.

Lemma dens_lenN inp b ws : lenN (dens inp b ws) = lenN ws.
Proof. unfold lenN. now rewrite dens_length. Qed.

Lemma dens_tl inp b ws : tl (dens inp b ws) = dens inp b (tl ws).
Proof. destruct ws; reflexivity. Qed.

Lemma dens_firstn inp b n ws : firstn n (dens inp b ws) = dens inp b (firstn n ws).
Proof. unfold dens. apply firstn_map. Qed.

Lemma dens_nonempty inp b ws : ws <> [] -> dens inp b ws <> [].
Proof. destruct ws; [congruence|discriminate]. Qed.

Section S.
Variable inv : builder -> Prop.
Hypothesis ops : builder_ops_sound inv.

(* x + y: sum bits, carry out, carry into the most significant position *)
Theorem add_gadget_correct b x y :
  inv b -> valids b x -> valids b y -> length x = length y ->
  exists sum c cp b',
    push_addition_circuit b x y = Ok ((sum, c, cp), b') /\ inv b' /\ ext b b' /\
    valids b' sum /\ valid b' c /\ valid b' cp /\
    forall inp, ins_ok b inp ->
      let X := bits_to_N (dens inp b x) in let Y := bits_to_N (dens inp b y) in
      length sum = length x /\
      bits_to_N (dens inp b' sum) = (X + Y) mod 2 ^ lenN x /\
      N.b2n (den inp b' c) = (X + Y) / 2 ^ lenN x /\
      (den inp b' c = true <-> 2 ^ lenN x <= X + Y) /\
      N.b2n (den inp b' cp)
      = (bits_to_N (dens inp b (tl x)) + bits_to_N (dens inp b (tl y))) / 2 ^ lenN (tl x).
Proof.
  intros Hi Hx Hy Hl.
  destruct (push_addition_circuit_sound inv ops b x y Hi Hx Hy Hl)
    as ([[sum c] cp] & b' & E & Hi' & He & Vs & Vc & Vcp & Hd). cbn [fst snd] in *.
  exists sum, c, cp, b'. repeat (split; [assumption|]).
  intros inp Hok. specialize (Hd inp Hok). cbv zeta.
  assert (length (dens inp b x) = length (dens inp b y)) as Hl' by (rewrite !dens_length; exact Hl).
  pose proof (adder_correct _ _ Hl') as Ha. pose proof (adder_carry_iff _ _ Hl') as Hc.
  rewrite <- Hd in Ha, Hc. cbn [fst snd] in Hc. destruct Ha as (HL & HS & HC & HP).
  rewrite !dens_length in HL. rewrite !dens_lenN, ?dens_tl in *. rewrite dens_lenN in HP.
  repeat split; try assumption; apply Hc.
Qed.

(* signed reading of the same circuit: overflow = carry xor carry_prev *)
Theorem add_gadget_signed b x y :
  inv b -> valids b x -> valids b y -> length x = length y -> x <> [] ->
  exists sum c cp b',
    push_addition_circuit b x y = Ok ((sum, c, cp), b') /\ inv b' /\ ext b b' /\
    forall inp, ins_ok b inp ->
      let D := (bits_to_Z_signed (dens inp b x) + bits_to_Z_signed (dens inp b y))%Z in
      let H := Z.of_N (2 ^ (lenN x - 1)) in
      Z.of_N (bits_to_N (dens inp b' sum)) = (D mod Z.of_N (2 ^ lenN x))%Z /\
      (xorb (den inp b' c) (den inp b' cp) = true <-> ~ (- H <= D < H)%Z) /\
      (xorb (den inp b' c) (den inp b' cp) = false -> bits_to_Z_signed (dens inp b' sum) = D).
Proof.
  intros Hi Hx Hy Hl Hne.
  destruct (push_addition_circuit_sound inv ops b x y Hi Hx Hy Hl)
    as ([[sum c] cp] & b' & E & Hi' & He & Vs & Vc & Vcp & Hd). cbn [fst snd] in *.
  exists sum, c, cp, b'. repeat (split; [assumption|]).
  intros inp Hok. specialize (Hd inp Hok).
  assert (length (dens inp b x) = length (dens inp b y)) as Hl' by (rewrite !dens_length; exact Hl).
  pose proof (add_signed_overflow _ _ (dens_nonempty inp b x Hne) Hl') as Ha.
  rewrite <- Hd in Ha. rewrite !dens_lenN in Ha. exact Ha.
Qed.

(* two's complement negation *)
Theorem neg_gadget_correct b x :
  inv b -> valids b x ->
  exists r b', push_negation_circuit b x = Ok (r, b') /\ inv b' /\ ext b b' /\ valids b' r /\
    forall inp, ins_ok b inp ->
      length r = length x /\
      bits_to_N (dens inp b' r) = (2 ^ lenN x - bits_to_N (dens inp b x)) mod 2 ^ lenN x.
Proof.
  intros Hi Hx.
  destruct (push_negation_circuit_sound inv ops b x Hi Hx) as (r & b' & E & Hi' & He & Vr & Hd).
  exists r, b'. repeat (split; [assumption|]).
  intros inp Hok. specialize (Hd inp Hok).
  destruct (neg_correct (dens inp b x)) as [HL HV]. rewrite <- Hd in HL, HV.
  rewrite !dens_length in HL. rewrite dens_lenN in HV. split; assumption.
Qed.

(* x - y, unsigned: difference mod 2^n and the borrow *)
Theorem sub_gadget_unsigned b x y :
  inv b -> valids b x -> valids b y -> length x = length y ->
  exists d ov b', push_subtraction_circuit b x y false = Ok ((d, ov), b') /\ inv b' /\ ext b b' /\
    valids b' d /\ valid b' ov /\
    forall inp, ins_ok b inp ->
      let X := bits_to_N (dens inp b x) in let Y := bits_to_N (dens inp b y) in
      length d = length x /\
      bits_to_N (dens inp b' d) = (X + 2 ^ lenN x - Y) mod 2 ^ lenN x /\
      Z.of_N (bits_to_N (dens inp b' d)) = ((Z.of_N X - Z.of_N Y) mod Z.of_N (2 ^ lenN x))%Z /\
      den inp b' ov = (X <? Y).
Proof.
  intros Hi Hx Hy Hl.
  destruct (push_subtraction_circuit_sound inv ops b x y false Hi Hx Hy Hl) as ([d ov] & b' & E & Hi' & He & Vd & Vo & Hd);
    [discriminate|]. cbn [fst snd] in *.
  exists d, ov, b'. repeat (split; [assumption|]).
  intros inp Hok. specialize (Hd inp Hok). cbv zeta.
  assert (length (dens inp b x) = length (dens inp b y)) as Hl' by (rewrite !dens_length; exact Hl).
  pose proof (sub_correct_unsigned _ _ Hl') as Hs. pose proof (sub_correct_unsigned_Z _ _ Hl') as Hz.
  rewrite <- Hd in Hs, Hz. cbn [fst] in Hz. destruct Hs as (HL & HV & HO).
  rewrite !dens_length in HL. rewrite !dens_lenN in *. repeat split; assumption.
Qed.

(* x - y, signed: difference in two's complement and the overflow bit *)
Theorem sub_gadget_signed b x y :
  inv b -> valids b x -> valids b y -> length x = length y -> x <> [] ->
  exists d ov b', push_subtraction_circuit b x y true = Ok ((d, ov), b') /\ inv b' /\ ext b b' /\
    valids b' d /\ valid b' ov /\
    forall inp, ins_ok b inp ->
      let D := (bits_to_Z_signed (dens inp b x) - bits_to_Z_signed (dens inp b y))%Z in
      let H := Z.of_N (2 ^ (lenN x - 1)) in
      length d = length x /\
      Z.of_N (bits_to_N (dens inp b' d)) = (D mod Z.of_N (2 ^ lenN x))%Z /\
      (den inp b' ov = true <-> ~ (- H <= D < H)%Z) /\
      (den inp b' ov = false -> bits_to_Z_signed (dens inp b' d) = D).
Proof.
  intros Hi Hx Hy Hl Hne.
  destruct (push_subtraction_circuit_sound inv ops b x y true Hi Hx Hy Hl (fun _ => Hne))
    as ([d ov] & b' & E & Hi' & He & Vd & Vo & Hd). cbn [fst snd] in *.
  exists d, ov, b'. repeat (split; [assumption|]).
  intros inp Hok. specialize (Hd inp Hok).
  assert (length (dens inp b x) = length (dens inp b y)) as Hl' by (rewrite !dens_length; exact Hl).
  pose proof (sub_correct_signed _ _ (dens_nonempty inp b x Hne) Hl') as Hs.
  rewrite <- Hd in Hs. rewrite !dens_length, !dens_lenN in Hs. exact Hs.
Qed.

(* unsigned division *)
Theorem udiv_gadget_correct b x y :
  inv b -> valids b x -> valids b y -> length x = length y ->
  exists q r b', push_unsigned_division_circuit b x y = Ok ((q, r), b') /\ inv b' /\ ext b b' /\
    valids b' q /\ valids b' r /\
    forall inp, ins_ok b inp ->
      let X := bits_to_N (dens inp b x) in let Y := bits_to_N (dens inp b y) in
      let Q := bits_to_N (dens inp b' q) in let R := bits_to_N (dens inp b' r) in
      length q = length x /\ length r = length x /\
      X = Q * Y + R /\
      (0 < Y -> R < Y /\ Q = X / Y /\ R = X mod Y) /\
      (Y = 0 -> Q = 2 ^ lenN x - 1 /\ R = X).
Proof.
  intros Hi Hx Hy Hl.
  destruct (push_unsigned_division_circuit_sound inv ops b x y Hi Hx Hy Hl)
    as ([q r] & b' & E & Hi' & He & Vq & Vr & Hd). cbn [fst snd] in *.
  exists q, r, b'. repeat (split; [assumption|]).
  intros inp Hok. specialize (Hd inp Hok). cbv zeta.
  assert (length (dens inp b x) = length (dens inp b y)) as Hl' by (rewrite !dens_length; exact Hl).
  pose proof (udiv_correct _ _ Hl') as Hu. pose proof (udiv_correct_divmod _ _ Hl') as Hdm.
  rewrite <- Hd in Hu, Hdm. cbn [fst snd] in Hdm. cbv zeta in Hu.
  destruct Hu as (HLq & HLr & HE & HB & HZ). rewrite !dens_length in HLq, HLr. rewrite dens_lenN in HZ.
  repeat split; try assumption.
  - apply HB. assumption.
  - apply Hdm. assumption.
  - apply Hdm. assumption.
  - apply HZ. assumption.
  - apply HZ. assumption.
Qed.

(* signed division: Rust's truncating quotient / remainder, and the exact behaviour where
   Rust panics (divisor 0, MIN / -1) -- compile.rs has to raise those panics itself *)
Theorem sdiv_gadget_correct b x y :
  inv b -> valids b x -> valids b y -> length x = length y -> x <> [] ->
  exists q r b', push_signed_division_circuit b x y = Ok ((q, r), b') /\ inv b' /\ ext b b' /\
    valids b' q /\ valids b' r /\
    forall inp, ins_ok b inp ->
      let SX := bits_to_Z_signed (dens inp b x) in let SY := bits_to_Z_signed (dens inp b y) in
      let MIN := (- Z.of_N (2 ^ (lenN x - 1)))%Z in
      length q = length x /\ length r = length x /\
      (SY <> 0%Z -> ~ (SX = MIN /\ SY = (-1)%Z) ->
         bits_to_Z_signed (dens inp b' q) = Z.quot SX SY /\
         bits_to_Z_signed (dens inp b' r) = Z.rem SX SY) /\
      (SX = MIN -> SY = (-1)%Z ->
         bits_to_Z_signed (dens inp b' q) = MIN /\ bits_to_N (dens inp b' r) = 0) /\
      (SY = 0%Z ->
         bits_to_N (dens inp b' q) = (if (SX <? 0)%Z then 1 else 2 ^ lenN x - 1) /\
         bits_to_N (dens inp b' r) = bits_to_N (dens inp b x)).
Proof.
  intros Hi Hx Hy Hl Hne.
  destruct (push_signed_division_circuit_sound inv ops b x y Hi Hx Hy Hl Hne)
    as ([q r] & b' & E & Hi' & He & Vq & Vr & Hd). cbn [fst snd] in *.
  exists q, r, b'. repeat (split; [assumption|]).
  intros inp Hok. specialize (Hd inp Hok). cbv zeta.
  assert (length (dens inp b x) = length (dens inp b y)) as Hl' by (rewrite !dens_length; exact Hl).
  pose proof (dens_nonempty inp b x Hne) as Hne'.
  pose proof (sdiv_correct _ _ Hne' Hl') as Hs.
  pose proof (sdiv_correct_signed _ _ Hne' Hl') as Hsg.
  pose proof (sdiv_min_minus_one _ _ Hne' Hl') as Hmin.
  rewrite <- Hd in Hs, Hsg, Hmin. cbn [fst snd] in Hsg, Hmin. cbv zeta in Hs, Hsg.
  destruct Hs as (HLq & HLr & _ & HZ). rewrite !dens_length in HLq, HLr. rewrite !dens_lenN in *.
  repeat split; try assumption.
  - apply Hsg; assumption.
  - apply Hsg; assumption.
  - apply Hmin; assumption.
  - apply Hmin; assumption.
  - apply HZ; assumption.
  - apply HZ; assumption.
Qed.

(* unsigned x > y on the first [bits] positions *)
Theorem gt_gadget_correct b bits x y :
  inv b -> valids b x -> valids b y -> (bits <= length x)%nat -> (bits <= length y)%nat ->
  exists r b', push_gt_circuit b bits x y = Ok (r, b') /\ inv b' /\ ext b b' /\ valid b' r /\
    forall inp, ins_ok b inp ->
      den inp b' r = (bits_to_N (dens inp b (firstn bits y)) <? bits_to_N (dens inp b (firstn bits x))).
Proof.
  intros Hi Hx Hy Hbx Hby.
  destruct (push_gt_circuit_sound inv ops b bits x y Hi Hx Hy Hbx Hby) as (r & b' & E & Hi' & He & Vr & Hd).
  exists r, b'. repeat (split; [assumption|]).
  intros inp Hok. rewrite (Hd inp Hok), gt_correct by (rewrite dens_length; assumption).
  rewrite !dens_firstn. reflexivity.
Qed.

(* comparator: (lt, gt), unsigned or signed *)
Theorem cmp_gadget_unsigned b bits x y :
  inv b -> valids b x -> valids b y -> (bits <= length x)%nat -> (bits <= length y)%nat ->
  exists lt gt b', push_comparator_circuit b bits x false y false = Ok ((lt, gt), b') /\
    inv b' /\ ext b b' /\ valid b' lt /\ valid b' gt /\
    forall inp, ins_ok b inp ->
      let X := bits_to_N (dens inp b (firstn bits x)) in
      let Y := bits_to_N (dens inp b (firstn bits y)) in
      den inp b' lt = (X <? Y) /\ den inp b' gt = (Y <? X).
Proof.
  intros Hi Hx Hy Hbx Hby.
  destruct (push_comparator_circuit_sound inv ops b bits x false y false Hi Hx Hy Hbx Hby)
    as ([lt gt] & b' & E & Hi' & He & Vl & Vg & Hd). cbn [fst snd] in *.
  exists lt, gt, b'. repeat (split; [assumption|]).
  intros inp Hok. specialize (Hd inp Hok). cbv zeta.
  rewrite cmp_correct_unsigned in Hd by (rewrite dens_length; assumption).
  rewrite !dens_firstn in Hd. injection Hd as -> ->. split; reflexivity.
Qed.

Theorem cmp_gadget_signed b bits x sx y sy :
  inv b -> valids b x -> valids b y -> (bits <= length x)%nat -> (bits <= length y)%nat ->
  sx || sy = true ->
  exists lt gt b', push_comparator_circuit b bits x sx y sy = Ok ((lt, gt), b') /\
    inv b' /\ ext b b' /\ valid b' lt /\ valid b' gt /\
    forall inp, ins_ok b inp ->
      let SX := bits_to_Z_signed (dens inp b (firstn bits x)) in
      let SY := bits_to_Z_signed (dens inp b (firstn bits y)) in
      den inp b' lt = (SX <? SY)%Z /\ den inp b' gt = (SY <? SX)%Z.
Proof.
  intros Hi Hx Hy Hbx Hby Hs.
  destruct (push_comparator_circuit_sound inv ops b bits x sx y sy Hi Hx Hy Hbx Hby)
    as ([lt gt] & b' & E & Hi' & He & Vl & Vg & Hd). cbn [fst snd] in *.
  exists lt, gt, b'. repeat (split; [assumption|]).
  intros inp Hok. specialize (Hd inp Hok). cbv zeta.
  rewrite cmp_correct_signed in Hd by (rewrite ?dens_length; assumption).
  rewrite !dens_firstn in Hd. injection Hd as -> ->. split; reflexivity.
Qed.

(* equality of two vectors *)
Theorem eq_gadget_correct b x y :
  inv b -> valids b x -> valids b y ->
  exists r b', push_eq_circuit b x y = Ok (r, b') /\ inv b' /\ ext b b' /\ valid b' r /\
    forall inp, ins_ok b inp ->
      (den inp b' r = true <-> dens inp b x = dens inp b y) /\
      (length x = length y ->
       den inp b' r = (bits_to_N (dens inp b x) =? bits_to_N (dens inp b y))).
Proof.
  intros Hi Hx Hy.
  destruct (push_eq_circuit_sound inv ops b x y Hi Hx Hy) as (r & b' & E & Hi' & He & Vr & Hd).
  exists r, b'. repeat (split; [assumption|]).
  intros inp Hok. rewrite (Hd inp Hok). split.
  - apply eq_correct.
  - intro Hl. apply eq_correct_N. rewrite !dens_length. exact Hl.
Qed.

(* multiplexer and conditional swap *)
Theorem mux_gadget_correct b s x0 x1 :
  inv b -> valid b s -> valid b x0 -> valid b x1 ->
  exists r b', push_mux b s x0 x1 = Ok (r, b') /\ inv b' /\ ext b b' /\ valid b' r /\
    forall inp, ins_ok b inp -> den inp b' r = if den inp b s then den inp b x0 else den inp b x1.
Proof. intros. apply (bs_mux inv ops); assumption. Qed.

Theorem condswap_gadget_correct b s x y :
  inv b -> valid b s -> valid b x -> valid b y ->
  exists x' y' b', push_condswap b s x y = Ok ((x', y'), b') /\ inv b' /\ ext b b' /\
    valid b' x' /\ valid b' y' /\
    forall inp, ins_ok b inp ->
      (den inp b' x', den inp b' y')
      = if den inp b s then (den inp b y, den inp b x) else (den inp b x, den inp b y).
Proof.
  intros Hi Hs Hx Hy.
  destruct (push_condswap_sound inv ops b s x y Hi Hs Hx Hy) as ([x' y'] & b' & E & Hi' & He & V1 & V2 & Hd).
  cbn [fst snd] in *. exists x', y', b'. repeat (split; [assumption|]).
  intros inp Hok. rewrite (Hd inp Hok). apply condswap_correct.
Qed.

(* one cell of the array multiplier: x*y + z + carry as a two-bit number *)
Theorem multiplier_gadget_correct b x y z c :
  inv b -> valid b x -> valid b y -> valid b z -> valid b c ->
  exists s c' b', push_multiplier b x y z c = Ok ((s, c'), b') /\ inv b' /\ ext b b' /\
    valid b' s /\ valid b' c' /\
    forall inp, ins_ok b inp ->
      N.b2n (den inp b' s) + 2 * N.b2n (den inp b' c')
      = N.b2n (den inp b x) * N.b2n (den inp b y) + N.b2n (den inp b z) + N.b2n (den inp b c).
Proof.
  intros Hi Hx Hy Hz Hc.
  destruct (push_multiplier_sound inv ops b x y z c Hi Hx Hy Hz Hc) as ([s c'] & b' & E & Hi' & He & V1 & V2 & Hd).
  cbn [fst snd] in *. exists s, c', b'. repeat (split; [assumption|]).
  intros inp Hok. specialize (Hd inp Hok).
  pose proof (multiplier_s_spec (den inp b x) (den inp b y) (den inp b z) (den inp b c)) as Hm.
  rewrite <- Hd in Hm. exact Hm.
Qed.

End S.
