(* Pure [list bool] (MSB first) versions of the gadgets of Gadgets.v: the same recursion
   structure, with xorb/andb/orb/negb in place of builder requests.  GadgetHoare.v shows
   that the builder-form gadgets denote these functions; Arith.v shows what these
   functions compute on numbers. *)
From GV Require Import Base.Util.

Definition mux_s (s x0 x1 : bool) : bool := if s then x0 else x1.

Definition eq_s (x y : list bool) : bool :=
  if negb (length x =? length y)%nat then false else
  (fix go (acc : bool) (xys : list (bool * bool)) : bool :=
     match xys with
     | [] => acc
     | (x, y) :: r => go (andb acc (negb (xorb x y))) r
     end) true (combine x y).

Definition adder_s (x y carry : bool) : bool * bool :=
  let u := xorb x y in
  (xorb u carry, orb (andb x y) (andb u carry)).

Definition multiplier_s (x y z carry : bool) : bool * bool :=
  adder_s (andb x y) z carry.

Fixpoint add_loop_s (xys : list (bool * bool)) (carry carry_prev : bool) (acc : list bool)
  : list bool * bool * bool :=
  match xys with
  | [] => (acc, carry, carry_prev)
  | (x, y) :: r =>
      let '(s, c) := adder_s x y carry in
      add_loop_s r c carry (s :: acc)
  end.

Definition addition_s (x y : list bool) : list bool * bool * bool :=
  add_loop_s (rev (combine x y)) false false [].

Fixpoint neg_loop_s (xs : list bool) (carry : bool) (acc : list bool) : list bool :=
  match xs with
  | [] => acc
  | x :: r =>
      let nx := negb x in
      neg_loop_s r (andb carry nx) (xorb carry nx :: acc)
  end.

Definition negation_s (x : list bool) : list bool := neg_loop_s (rev x) true [].

Definition subtraction_s (x y : list bool) (is_signed : bool) : list bool * bool :=
  let x0 := if is_signed then hd false x else false in
  let y0 := if is_signed then hd false y else false in
  let y_neg := negation_s (y0 :: y) in
  let '(sum_ext, _, _) := addition_s (x0 :: x) y_neg in
  let sign := hd false sum_ext in
  let sum := tl sum_ext in
  if is_signed then (sum, xorb sign (hd false sum)) else (sum, sign).

Fixpoint or_all_s (acc : bool) (ys : list bool) : bool :=
  match ys with
  | [] => acc
  | y :: r => or_all_s (orb acc y) r
  end.

Fixpoint mux_all_s (s : bool) (xs ys : list bool) : list bool :=
  match xs, ys with
  | x :: xr, y :: yr => mux_s s x y :: mux_all_s s xr yr
  | _, _ => []
  end.

Definition udiv_step_s (y : list bool) (sa : nat) (remainder : list bool) : list bool * bool :=
  let overflow := or_all_s false (firstn sa y) in
  let y_shifted := skipn sa y ++ repeat false sa in
  let '(x_sub, carry) := subtraction_s remainder y_shifted false in
  let coo := orb carry overflow in
  let rem' := mux_all_s coo remainder x_sub in
  let q := mux_s overflow false (negb carry) in
  (rem', q).

Fixpoint udiv_loop_s (y : list bool) (sas : list nat) (remainder quot_rev : list bool)
  : list bool * list bool :=
  match sas with
  | [] => (rev quot_rev, remainder)
  | sa :: r =>
      let '(rem', q) := udiv_step_s y sa remainder in
      udiv_loop_s y r rem' (q :: quot_rev)
  end.

Definition udiv_s (x y : list bool) : list bool * list bool :=
  udiv_loop_s y (rev (seq 0 (length x))) x [].

Definition sdiv_s (x y : list bool) : list bool * list bool :=
  let x0 := hd false x in
  let y0 := hd false y in
  let is_neg := xorb x0 y0 in
  let xa := mux_all_s x0 (negation_s x) x in
  let ya := mux_all_s y0 (negation_s y) y in
  let '(q, r) := udiv_s xa ya in
  (mux_all_s is_neg (negation_s q) q, mux_all_s x0 (negation_s r) r).

Fixpoint gt_loop_s (xys : list (bool * bool)) (carry : bool) : bool :=
  match xys with
  | [] => carry
  | (x, y) :: r =>
      let xc := xorb x carry in
      let yc := xorb y carry in
      gt_loop_s r (xorb (andb xc (negb yc)) carry)
  end.

Definition gt_s (bits : nat) (x y : list bool) : bool :=
  gt_loop_s (rev (combine (firstn bits x) (firstn bits y))) false.

Fixpoint cmp_loop_s (first signed : bool) (xys : list (bool * bool)) (acc_gt acc_lt : bool)
  : bool * bool :=
  match xys with
  | [] => (acc_lt, acc_gt)
  | (x, y) :: r =>
      let xo := xorb x y in
      let xa := andb xo x in
      let ya := andb xo y in
      let '(gt, lt) := if first && signed then (ya, xa) else (xa, ya) in
      let gt' := orb gt acc_gt in
      let lt' := orb lt acc_lt in
      cmp_loop_s false signed r (andb gt' (negb acc_lt)) (andb lt' (negb acc_gt))
  end.

(* returns (lt, gt) like push_comparator_circuit *)
Definition cmp_s (bits : nat) (x : list bool) (sx : bool) (y : list bool) (sy : bool)
  : bool * bool :=
  cmp_loop_s true (sx || sy) (combine (firstn bits x) (firstn bits y)) false false.

Definition condswap_s (s x y : bool) : bool * bool :=
  let sw := andb (xorb x y) s in
  (xorb x sw, xorb y sw).
