(* Model of compile.rs [extend_to_bits] (1696-1710, with the repaired fill count
   [bits - old_size]) and of the truncating slice of [ExprEnum::Cast]; wires MSB first.
   No gate is emitted: widening only copies the sign wire (or the constant-false wire 0). *)
From GV Require Import Base.Util.

(* [Crash]: [bits - old_size] underflows (a debug-build panic); never reached by compile.rs,
   which always passes [bits >= v.len()] *)
Definition extend_to_bits (v : list N) (signed : bool) (bits : nat) : res (list N) :=
  match v with
  | [] => Ok (repeat 0 bits)
  | msb :: _ =>
      if (length v =? bits)%nat then Ok v else
      if (bits <? length v)%nat then Crash else
      Ok (repeat (if signed then msb else 0) (bits - length v) ++ v)
  end.

(* ExprEnum::Cast to a narrower type: expr[(expr.len() - size_after_cast)..] *)
Definition cast_truncate {A} (v : list A) (size_after_cast : nat) : list A :=
  skipn (length v - size_after_cast) v.

(* the pure counterparts *)
Definition extend_s (v : list bool) (signed : bool) (bits : nat) : list bool :=
  match v with
  | [] => repeat false bits
  | msb :: _ => repeat (if signed then msb else false) (bits - length v) ++ v
  end.
