(* What the pure gadget functions of GadgetSpec.v compute on numbers, for EVERY width
   (induction on the bit lists; no bound).  Bit vectors are MSB first; [bits_to_N] is the
   unsigned reading, [bits_to_Z_signed] the two's-complement reading (Base/Bits.v). *)
From GV Require Import Base.Util Base.Bits Base.BitsProofs Gadgets.GadgetSpec.

(* ------------------------------------------------------------------ arithmetic helpers *)

Lemma divmod_unique (p s q t : N) : s < p -> s + p * q = t -> s = t mod p /\ q = t / p.
Proof.
  intros Hs He. split.
  - apply (N.mod_unique t p q s); lia.
  - apply (N.div_unique t p q s); lia.
Qed.

Lemma mod_cases (m a : N) : 0 < m -> a < 2 * m -> a mod m = if a <? m then a else a - m.
Proof.
  intros Hm Ha. destruct (N.ltb_spec a m) as [Hlt|Hge].
  - apply N.mod_small. exact Hlt.
  - symmetry. apply (N.mod_unique a m 1 (a - m)); lia.
Qed.

Lemma map_fst_combine {A B} (x : list A) (y : list B) :
  length x = length y -> map fst (combine x y) = x.
Proof.
  revert y. induction x as [|a x IH]; intros [|b y] Hl; try discriminate; [reflexivity|].
  cbn [combine map fst]. f_equal. apply IH. now injection Hl.
Qed.

Lemma map_snd_combine {A B} (x : list A) (y : list B) :
  length x = length y -> map snd (combine x y) = y.
Proof.
  revert y. induction x as [|a x IH]; intros [|b y] Hl; try discriminate; [reflexivity|].
  cbn [combine map snd]. f_equal. apply IH. now injection Hl.
Qed.

Lemma combine_length_eq {A B} (x : list A) (y : list B) :
  length x = length y -> length (combine x y) = length x.
Proof. intro Hl. rewrite combine_length. lia. Qed.

(* ------------------------------------------------------------------ full adder, ripple-carry addition *)

Lemma adder_s_spec x y c :
  N.b2n (fst (adder_s x y c)) + 2 * N.b2n (snd (adder_s x y c)) = N.b2n x + N.b2n y + N.b2n c.
Proof. destruct x, y, c; reflexivity. Qed.

Lemma multiplier_s_spec x y z c :
  N.b2n (fst (multiplier_s x y z c)) + 2 * N.b2n (snd (multiplier_s x y z c))
  = N.b2n x * N.b2n y + N.b2n z + N.b2n c.
Proof. destruct x, y, z, c; reflexivity. Qed.

(* invariant of the ripple-carry loop; [xys] is least significant pair first *)
Lemma add_loop_s_spec xys : forall c cp acc,
  exists S, fst (fst (add_loop_s xys c cp acc)) = S ++ acc /\ length S = length xys /\
    bits_to_N S + 2 ^ lenN xys * N.b2n (snd (fst (add_loop_s xys c cp acc)))
    = lsb_to_N (map fst xys) + lsb_to_N (map snd xys) + N.b2n c.
Proof.
  induction xys as [|[x y] r IH]; intros c cp acc.
  - exists []. cbn. repeat split. lia.
  - cbn [add_loop_s]. pose proof (adder_s_spec x y c) as Ha.
    destruct (adder_s x y c) as [s c1]. cbn [fst snd] in Ha.
    destruct (IH c1 c (s :: acc)) as (S & HS & HL & HV).
    exists (S ++ [s]). rewrite <- app_assoc. cbn [app]. split; [exact HS|]. split.
    + rewrite app_length. cbn [length]. lia.
    + rewrite bits_to_N_snoc, lenN_cons, pow2_succ. cbn [map fst snd lsb_to_N]. lia.
Qed.

Lemma add_loop_s_snoc l x y : forall c cp acc,
  add_loop_s (l ++ [(x, y)]) c cp acc =
  let '(a, c1, _) := add_loop_s l c cp acc in
  let '(s, c2) := adder_s x y c1 in (s :: a, c2, c1).
Proof.
  induction l as [|[x' y'] l IH]; intros c cp acc.
  - cbn [app add_loop_s]. destruct (adder_s x y c) as [s c2]. reflexivity.
  - cbn [app add_loop_s]. destruct (adder_s x' y' c) as [s c1]. apply IH.
Qed.

Lemma addition_s_value x y : length x = length y ->
  exists S, fst (fst (addition_s x y)) = S /\ length S = length x /\
    bits_to_N S + 2 ^ lenN x * N.b2n (snd (fst (addition_s x y))) = bits_to_N x + bits_to_N y.
Proof.
  intro Hl. unfold addition_s.
  destruct (add_loop_s_spec (rev (combine x y)) false false []) as (S & HS & HL & HV).
  exists S. rewrite app_nil_r in HS. split; [exact HS|].
  rewrite rev_length, combine_length_eq in HL by exact Hl. split; [exact HL|].
  rewrite !map_rev, map_fst_combine, map_snd_combine, !lsb_to_N_rev in HV by exact Hl.
  rewrite lenN_rev in HV. unfold lenN in HV. rewrite combine_length_eq in HV by exact Hl.
  cbn [N.b2n] in HV. unfold lenN. lia.
Qed.

(* carry_prev = the carry out of the addition of the n-1 low bits = the carry into the MSB *)
Lemma addition_s_carry_prev x0 xr y0 yr :
  snd (addition_s (x0 :: xr) (y0 :: yr)) = snd (fst (addition_s xr yr)).
Proof.
  unfold addition_s. cbn [combine rev]. rewrite add_loop_s_snoc.
  destruct (add_loop_s (rev (combine xr yr)) false false []) as [[a c1] cp1].
  destruct (adder_s x0 y0 c1) as [s c2]. reflexivity.
Qed.

Theorem adder_correct x y : length x = length y ->
  let '(sum, c, cp) := addition_s x y in
  length sum = length x /\
  bits_to_N sum = (bits_to_N x + bits_to_N y) mod 2 ^ lenN x /\
  N.b2n c = (bits_to_N x + bits_to_N y) / 2 ^ lenN x /\
  N.b2n cp = (bits_to_N (tl x) + bits_to_N (tl y)) / 2 ^ lenN (tl x).
Proof.
  intro Hl.
  destruct (addition_s_value x y Hl) as (S & HS & HL & HV).
  assert (N.b2n (snd (addition_s x y)) = (bits_to_N (tl x) + bits_to_N (tl y)) / 2 ^ lenN (tl x)) as Hcp.
  { destruct x as [|x0 xr], y as [|y0 yr]; try discriminate.
    - reflexivity.
    - rewrite addition_s_carry_prev. cbn [tl]. injection Hl as Hl.
      destruct (addition_s_value xr yr Hl) as (S' & _ & HL' & HV').
      pose proof (bits_to_N_lt S') as Hlt. rewrite (lenN_length _ _ HL') in Hlt.
      apply (divmod_unique _ _ _ _ Hlt HV'). }
  destruct (addition_s x y) as [[sum c] cp]. cbn [fst snd] in *. subst S.
  pose proof (bits_to_N_lt sum) as Hlt. rewrite (lenN_length _ _ HL) in Hlt.
  destruct (divmod_unique _ _ _ _ Hlt HV) as [Hm Hd].
  repeat split; assumption.
Qed.

(* carry <-> the exact sum does not fit *)
Corollary adder_carry_iff x y : length x = length y ->
  snd (fst (addition_s x y)) = true <-> 2 ^ lenN x <= bits_to_N x + bits_to_N y.
Proof.
  intro Hl. pose proof (adder_correct x y Hl) as H.
  destruct (addition_s x y) as [[sum c] cp]. destruct H as (HL & HS & HC & _). cbn [fst snd].
  pose proof (pow2_pos (lenN x)) as Hp.
  pose proof (N.div_mod (bits_to_N x + bits_to_N y) (2 ^ lenN x)) as Hdm.
  pose proof (N.mod_upper_bound (bits_to_N x + bits_to_N y) (2 ^ lenN x)) as Hub.
  destruct c; cbn [N.b2n] in HC; split; intro Hx; try reflexivity; try discriminate; nia.
Qed.

(* ------------------------------------------------------------------ two's complement negation *)

Lemma neg_loop_s_spec xs : forall c acc,
  exists S cf, neg_loop_s xs c acc = S ++ acc /\ length S = length xs /\
    bits_to_N S + 2 ^ lenN xs * N.b2n cf + lsb_to_N xs + 1 = 2 ^ lenN xs + N.b2n c.
Proof.
  induction xs as [|x r IH]; intros c acc.
  - exists [], c. cbn. repeat split. lia.
  - cbn [neg_loop_s].
    destruct (IH (andb c (negb x)) (xorb c (negb x) :: acc)) as (S & cf & HS & HL & HV).
    exists (S ++ [xorb c (negb x)]), cf. rewrite <- app_assoc. cbn [app]. split; [exact HS|]. split.
    + rewrite app_length. cbn [length]. lia.
    + rewrite bits_to_N_snoc, lenN_cons, pow2_succ. cbn [lsb_to_N].
      destruct c, x; cbn [andb negb xorb N.b2n] in *; lia.
Qed.

Theorem neg_correct x :
  length (negation_s x) = length x /\
  bits_to_N (negation_s x) = (2 ^ lenN x - bits_to_N x) mod 2 ^ lenN x.
Proof.
  unfold negation_s.
  destruct (neg_loop_s_spec (rev x) true []) as (S & cf & HS & HL & HV).
  rewrite app_nil_r in HS. rewrite HS. rewrite rev_length in HL. split; [exact HL|].
  rewrite lenN_rev, lsb_to_N_rev in HV. cbn [N.b2n] in HV.
  pose proof (bits_to_N_lt S) as Hlt. rewrite (lenN_length _ _ HL) in Hlt.
  pose proof (bits_to_N_lt x) as Hx. pose proof (pow2_pos (lenN x)) as Hp.
  destruct cf; cbn [N.b2n] in HV.
  - assert (bits_to_N x = 0) as -> by lia. rewrite N.sub_0_r, N.mod_same by lia. lia.
  - rewrite N.mod_small by lia. lia.
Qed.

(* ------------------------------------------------------------------ subtraction through the (n+1)-bit extension *)

Ltac ltb_cases :=
  repeat match goal with
         | H : context [N.ltb ?a ?b] |- _ => destruct (N.ltb_spec a b)
         | |- context [N.ltb ?a ?b] => destruct (N.ltb_spec a b)
         end.

(* the common part: the (n+1)-bit sum  x_ext + (- y_ext) *)
Lemma sub_ext_value (xe ye : list bool) : length xe = length ye ->
  exists se, fst (fst (addition_s xe (negation_s ye))) = se /\ length se = length xe /\
    let P2 := 2 ^ lenN xe in
    let NV := if bits_to_N ye =? 0 then 0 else P2 - bits_to_N ye in
    bits_to_N se = if bits_to_N xe + NV <? P2 then bits_to_N xe + NV else bits_to_N xe + NV - P2.
Proof.
  intro Hl. destruct (neg_correct ye) as [HLn HVn].
  assert (length xe = length (negation_s ye)) as Hl2 by congruence.
  pose proof (adder_correct xe (negation_s ye) Hl2) as Ha.
  destruct (addition_s xe (negation_s ye)) as [[se c] cp]. destruct Ha as (HLs & HVs & _ & _).
  exists se. cbn [fst]. split; [reflexivity|]. split; [exact HLs|].
  cbv zeta. rewrite <- (lenN_length _ _ Hl) in HVn.
  pose proof (pow2_pos (lenN xe)) as Hp. pose proof (bits_to_N_lt xe) as Hx.
  pose proof (bits_to_N_lt ye) as Hy. rewrite <- (lenN_length _ _ Hl) in Hy.
  assert (bits_to_N (negation_s ye) = if bits_to_N ye =? 0 then 0 else 2 ^ lenN xe - bits_to_N ye) as HN.
  { rewrite HVn. destruct (N.eqb_spec (bits_to_N ye) 0) as [E|E].
    - rewrite E, N.sub_0_r, N.mod_same by lia. reflexivity.
    - apply N.mod_small. lia. }
  rewrite HN in HVs. rewrite HVs. apply mod_cases; [exact Hp|].
  destruct (N.eqb_spec (bits_to_N ye) 0); lia.
Qed.

Theorem sub_correct_unsigned x y : length x = length y ->
  let '(d, ov) := subtraction_s x y false in
  length d = length x /\
  bits_to_N d = (bits_to_N x + 2 ^ lenN x - bits_to_N y) mod 2 ^ lenN x /\
  ov = (bits_to_N x <? bits_to_N y).
Proof.
  intro Hl. unfold subtraction_s.
  assert (length (false :: x) = length (false :: y)) as Hle by (cbn [length]; congruence).
  destruct (sub_ext_value (false :: x) (false :: y) Hle) as (se & Hse & HLs & HV).
  destruct (addition_s (false :: x) (negation_s (false :: y))) as [[se' c] cp]. cbn [fst] in Hse. subst se'.
  destruct se as [|sgn d]; [discriminate|]. cbn [hd tl]. cbn [length] in HLs. injection HLs as HLd.
  split; [exact HLd|].
  cbv zeta in HV. rewrite !bits_to_N_cons, lenN_cons, pow2_succ in HV. cbn [N.b2n] in HV.
  rewrite !N.mul_0_l, !N.add_0_l in HV. rewrite (lenN_length _ _ HLd) in HV.
  pose proof (bits_to_N_lt d) as Hd. rewrite (lenN_length _ _ HLd) in Hd.
  pose proof (bits_to_N_lt x) as Hx. pose proof (bits_to_N_lt y) as Hy.
  rewrite <- (lenN_length _ _ Hl) in Hy. pose proof (pow2_pos (lenN x)) as Hp.
  rewrite mod_cases by lia.
  destruct (N.eqb_spec (bits_to_N y) 0); destruct sgn; cbn [N.b2n] in HV; ltb_cases; split; lia.
Qed.

Corollary sub_correct_unsigned_Z x y : length x = length y ->
  Z.of_N (bits_to_N (fst (subtraction_s x y false)))
  = ((Z.of_N (bits_to_N x) - Z.of_N (bits_to_N y)) mod Z.of_N (2 ^ lenN x))%Z.
Proof.
  intro Hl. pose proof (sub_correct_unsigned x y Hl) as H.
  destruct (subtraction_s x y false) as [d ov]. destruct H as (_ & HV & _). cbn [fst].
  pose proof (bits_to_N_lt x) as Hx. pose proof (bits_to_N_lt y) as Hy.
  rewrite <- (lenN_length _ _ Hl) in Hy. pose proof (pow2_pos (lenN x)) as Hp.
  rewrite mod_cases in HV by lia.
  destruct (N.ltb_spec (bits_to_N x + 2 ^ lenN x - bits_to_N y) (2 ^ lenN x)).
  - apply (Z.mod_unique_pos _ _ (-1)); lia.
  - apply (Z.mod_unique_pos _ _ 0); lia.
Qed.

Theorem sub_correct_signed x y : x <> [] -> length x = length y ->
  let '(d, ov) := subtraction_s x y true in
  let D := (bits_to_Z_signed x - bits_to_Z_signed y)%Z in
  let H := Z.of_N (2 ^ (lenN x - 1)) in
  length d = length x /\
  Z.of_N (bits_to_N d) = (D mod Z.of_N (2 ^ lenN x))%Z /\
  (ov = true <-> ~ (- H <= D < H)%Z) /\
  (ov = false -> bits_to_Z_signed d = D).
Proof.
  intros Hne Hl. destruct x as [|x0 xr]; [congruence|]. destruct y as [|y0 yr]; [discriminate|].
  unfold subtraction_s. cbn [hd].
  assert (length (x0 :: x0 :: xr) = length (y0 :: y0 :: yr)) as Hle by (cbn [length] in *; congruence).
  destruct (sub_ext_value (x0 :: x0 :: xr) (y0 :: y0 :: yr) Hle) as (se & Hse & HLs & HV).
  destruct (addition_s (x0 :: x0 :: xr) (negation_s (y0 :: y0 :: yr))) as [[se' c] cp].
  cbn [fst] in Hse. subst se'.
  destruct se as [|sgn d]; [discriminate|]. cbn [hd tl]. cbn [length] in HLs. injection HLs as HLd.
  destruct d as [|s0 dr]; [discriminate|]. cbn [hd]. cbn [length] in HLd. injection HLd as HLr.
  injection Hl as Hl.
  split; [cbn [length]; congruence|].
  cbv zeta in HV. rewrite !bits_to_N_cons, !lenN_cons, !pow2_succ in HV.
  rewrite (lenN_length _ _ HLr) in HV. rewrite <- (lenN_length _ _ Hl) in HV.
  unfold bits_to_Z_signed. rewrite !bits_to_N_cons, !lenN_cons.
  replace (1 + lenN xr - 1) with (lenN xr) by lia. rewrite pow2_succ.
  rewrite (lenN_length _ _ HLr). rewrite <- (lenN_length _ _ Hl).
  pose proof (bits_to_N_lt dr) as Hd. rewrite (lenN_length _ _ HLr) in Hd.
  pose proof (bits_to_N_lt xr) as Hx. pose proof (bits_to_N_lt yr) as Hy.
  rewrite <- (lenN_length _ _ Hl) in Hy. pose proof (pow2_pos (lenN xr)) as Hp.
  remember (2 ^ lenN xr) as H eqn:EH. clear EH.
  remember (bits_to_N xr) as Xr eqn:EX. clear EX.
  remember (bits_to_N yr) as Yr eqn:EY. clear EY.
  remember (bits_to_N dr) as Dr eqn:ED. clear ED.
  cbv zeta.
  assert (forall a b q r : Z, (0 <= r < b)%Z -> a = (b * q + r)%Z -> r = (a mod b)%Z) as Hmu
    by (intros; eapply Z.mod_unique_pos; eassumption).
  destruct x0, y0, sgn, s0; cbn [N.b2n xorb] in *;
    rewrite ?N.mul_1_l, ?N.mul_0_l, ?N.add_0_l in *;
    match type of HV with context [N.eqb ?a 0] => destruct (N.eqb_spec a 0) end;
    ltb_cases; try lia;
    (split; [| split; [split; [intro Hov; try discriminate Hov|intro; try reflexivity; exfalso] | intro; try discriminate]]; try lia);
    try (apply (Hmu _ _ 0%Z); lia); try (apply (Hmu _ _ (-1)%Z); lia); try (apply (Hmu _ _ 1%Z); lia).
Qed.

(* ------------------------------------------------------------------ comparison: push_gt_circuit *)

Ltac cmp_cases :=
  repeat match goal with
         | |- context [N.ltb ?a ?b] => destruct (N.ltb_spec a b)
         | |- context [N.eqb ?a ?b] => destruct (N.eqb_spec a b)
         | |- context [Z.ltb ?a ?b] => destruct (Z.ltb_spec a b)
         end.

(* [xys] least significant pair first *)
Lemma gt_loop_s_spec xys : forall c,
  gt_loop_s xys c =
  (lsb_to_N (map snd xys) <? lsb_to_N (map fst xys))
  || ((lsb_to_N (map fst xys) =? lsb_to_N (map snd xys)) && c).
Proof.
  induction xys as [|[x y] r IH]; intro c.
  - cbn. reflexivity.
  - cbn [gt_loop_s map fst snd lsb_to_N]. rewrite IH.
    remember (lsb_to_N (map fst r)) as X eqn:EX. remember (lsb_to_N (map snd r)) as Y eqn:EY.
    clear. destruct x, y, c; cbn [xorb andb negb orb N.b2n]; cmp_cases; cbn [orb andb]; try reflexivity; lia.
Qed.

Theorem gt_correct bits x y : (bits <= length x)%nat -> (bits <= length y)%nat ->
  gt_s bits x y = (bits_to_N (firstn bits y) <? bits_to_N (firstn bits x)).
Proof.
  intros Hx Hy. unfold gt_s. rewrite gt_loop_s_spec.
  assert (length (firstn bits x) = length (firstn bits y)) as Hl
    by (rewrite !firstn_length_le by assumption; reflexivity).
  rewrite !map_rev, map_fst_combine, map_snd_combine, !lsb_to_N_rev by exact Hl.
  rewrite andb_false_r, orb_false_r. reflexivity.
Qed.

(* ------------------------------------------------------------------ comparison: push_comparator_circuit *)

(* after the first (sign) position; [xys] most significant pair first *)
Lemma cmp_loop_s_spec sg xys : forall ag al, ag && al = false ->
  cmp_loop_s false sg xys ag al =
  if ag then (false, true) else if al then (true, false) else
  (bits_to_N (map fst xys) <? bits_to_N (map snd xys),
   bits_to_N (map snd xys) <? bits_to_N (map fst xys)).
Proof.
  induction xys as [|[x y] r IH]; intros ag al Hna.
  - destruct ag, al; try discriminate; reflexivity.
  - cbn [cmp_loop_s andb map fst snd]. rewrite IH.
    + rewrite !bits_to_N_cons.
      assert (lenN (map fst r) = lenN (map snd r)) as El
        by (unfold lenN; rewrite !map_length; reflexivity).
      rewrite El.
      pose proof (bits_to_N_lt (map fst r)) as Hx. rewrite El in Hx.
      pose proof (bits_to_N_lt (map snd r)) as Hy.
      remember (bits_to_N (map fst r)) as X eqn:EX. remember (bits_to_N (map snd r)) as Y eqn:EY.
      remember (2 ^ lenN (map snd r)) as P eqn:EP. clear - Hx Hy Hna.
      destruct ag, al, x, y; try discriminate; cbn [xorb andb negb orb N.b2n];
        rewrite ?N.mul_1_l, ?N.mul_0_l, ?N.add_0_l; try reflexivity;
        cmp_cases; try reflexivity; lia.
    + destruct ag, al, x, y; try discriminate; reflexivity.
Qed.

Lemma cmp_loop_s_first_unsigned xys ag al :
  cmp_loop_s true false xys ag al = cmp_loop_s false false xys ag al.
Proof. destruct xys as [|[x y] r]; reflexivity. Qed.

Lemma firstn_same_length {A} bits (x y : list A) :
  (bits <= length x)%nat -> (bits <= length y)%nat ->
  length (firstn bits x) = length (firstn bits y).
Proof. intros. rewrite !firstn_length_le by assumption. reflexivity. Qed.

(* returns (lt, gt) *)
Theorem cmp_correct_unsigned bits x y : (bits <= length x)%nat -> (bits <= length y)%nat ->
  cmp_s bits x false y false =
  (bits_to_N (firstn bits x) <? bits_to_N (firstn bits y),
   bits_to_N (firstn bits y) <? bits_to_N (firstn bits x)).
Proof.
  intros Hx Hy. unfold cmp_s. cbn [orb]. rewrite cmp_loop_s_first_unsigned.
  rewrite cmp_loop_s_spec by reflexivity. cbn iota.
  pose proof (firstn_same_length bits x y Hx Hy) as Hl.
  rewrite map_fst_combine, map_snd_combine by exact Hl. reflexivity.
Qed.

Theorem cmp_correct_signed bits x sx y sy :
  (bits <= length x)%nat -> (bits <= length y)%nat -> sx || sy = true ->
  cmp_s bits x sx y sy =
  ((bits_to_Z_signed (firstn bits x) <? bits_to_Z_signed (firstn bits y))%Z,
   (bits_to_Z_signed (firstn bits y) <? bits_to_Z_signed (firstn bits x))%Z).
Proof.
  intros Hx Hy Hs. unfold cmp_s. rewrite Hs.
  pose proof (firstn_same_length bits x y Hx Hy) as Hl.
  destruct (firstn bits x) as [|x0 xr]; destruct (firstn bits y) as [|y0 yr]; try discriminate.
  - reflexivity.
  - injection Hl as Hl. cbn [combine cmp_loop_s andb orb]. rewrite cmp_loop_s_spec.
    + rewrite map_fst_combine, map_snd_combine by exact Hl.
      unfold bits_to_Z_signed. rewrite (lenN_length _ _ Hl).
      pose proof (bits_to_N_lt xr) as Hxr. rewrite (lenN_length _ _ Hl) in Hxr.
      pose proof (bits_to_N_lt yr) as Hyr.
      remember (bits_to_N xr) as X eqn:EX. remember (bits_to_N yr) as Y eqn:EY.
      remember (2 ^ lenN yr) as P eqn:EP. clear - Hxr Hyr.
      destruct x0, y0; cbn [xorb andb negb orb N.b2n];
        rewrite ?N.mul_1_l, ?N.mul_0_l; cmp_cases; try reflexivity; lia.
    + destruct x0, y0; reflexivity.
Qed.

(* ------------------------------------------------------------------ equality, mux, conditional swap *)

Theorem eq_correct x y : eq_s x y = true <-> x = y.
Proof.
  unfold eq_s. destruct (Nat.eqb_spec (length x) (length y)) as [Hl|Hl]; cbn [negb].
  2: { split; [discriminate|]. intros ->. congruence. }
  enough (forall acc,
    (fix go (acc : bool) (xys : list (bool * bool)) {struct xys} : bool :=
       match xys with
       | [] => acc
       | (x0, y0) :: r => go (acc && negb (xorb x0 y0)) r
       end) acc (combine x y) = true <-> acc = true /\ x = y) as Hgo.
  { rewrite Hgo. split; [intros [_ E]; exact E | intro E; split; [reflexivity | exact E]]. }
  revert y Hl. induction x as [|a x IH]; intros [|c y] Hl acc; try discriminate.
  - cbn. split; [intro E; split; [exact E | reflexivity] | intros [E _]; exact E].
  - injection Hl as Hl. cbn [combine]. rewrite (IH y Hl).
    destruct acc, a, c; cbn [xorb negb andb]; split; intros [E1 E2]; try discriminate;
      split; try reflexivity; try congruence.
Qed.

Corollary eq_correct_N x y : length x = length y ->
  eq_s x y = (bits_to_N x =? bits_to_N y).
Proof.
  intro Hl. destruct (N.eqb_spec (bits_to_N x) (bits_to_N y)) as [E|E].
  - apply eq_correct. apply bits_to_N_inj; assumption.
  - destruct (eq_s x y) eqn:Eq; [|reflexivity]. apply eq_correct in Eq. congruence.
Qed.

Lemma eq_s_length_mismatch x y : length x <> length y -> eq_s x y = false.
Proof. intro Hl. unfold eq_s. destruct (Nat.eqb_spec (length x) (length y)); [contradiction|reflexivity]. Qed.

Theorem mux_correct s x0 x1 : mux_s s x0 x1 = if s then x0 else x1.
Proof. reflexivity. Qed.

Theorem mux_all_correct s xs ys : length xs = length ys ->
  mux_all_s s xs ys = if s then xs else ys.
Proof.
  revert ys. induction xs as [|x xs IH]; intros [|y ys] Hl; try discriminate.
  - destruct s; reflexivity.
  - injection Hl as Hl. cbn [mux_all_s]. rewrite (IH ys Hl). destruct s; reflexivity.
Qed.

Theorem condswap_correct s x y : condswap_s s x y = if s then (y, x) else (x, y).
Proof. destruct s, x, y; reflexivity. Qed.

(* ------------------------------------------------------------------ restoring division (unsigned) *)

Lemma or_all_s_spec ys : forall acc, or_all_s acc ys = acc || negb (bits_to_N ys =? 0).
Proof.
  induction ys as [|y r IH]; intro acc.
  - cbn. now rewrite orb_false_r.
  - cbn [or_all_s]. rewrite IH, bits_to_N_cons.
    pose proof (pow2_pos (lenN r)) as Hp.
    destruct y; cbn [N.b2n]; rewrite ?N.mul_1_l, ?N.mul_0_l, ?N.add_0_l.
    + destruct (N.eqb_spec (2 ^ lenN r + bits_to_N r) 0); [lia|].
      destruct acc, (bits_to_N r =? 0); reflexivity.
    + now rewrite orb_false_r.
Qed.

Lemma mux_all_s_length s xs ys : length xs = length ys -> length (mux_all_s s xs ys) = length xs.
Proof. intro Hl. rewrite mux_all_correct by exact Hl. destruct s; congruence. Qed.

(* one step: subtract y * 2^sa from the remainder if it fits; the quotient bit says whether it did *)
Lemma udiv_step_s_spec y sa rem :
  (sa <= length y)%nat -> length rem = length y ->
  let Y := bits_to_N y in let R := bits_to_N rem in let D := Y * 2 ^ N.of_nat sa in
  length (fst (udiv_step_s y sa rem)) = length y /\
  bits_to_N (fst (udiv_step_s y sa rem)) = (if D <=? R then R - D else R) /\
  snd (udiv_step_s y sa rem) = (D <=? R).
Proof.
  intros Hsa Hl. cbv zeta. unfold udiv_step_s.
  assert (length (skipn sa y ++ repeat false sa) = length y) as Hlsh
    by (rewrite app_length, skipn_length, repeat_length; lia).
  assert (length rem = length (skipn sa y ++ repeat false sa)) as Hl2 by congruence.
  pose proof (sub_correct_unsigned rem _ Hl2) as Hs.
  destruct (subtraction_s rem (skipn sa y ++ repeat false sa) false) as [d carry].
  destruct Hs as (HLd & HVd & Hc). cbn [fst snd].
  rewrite mux_all_correct by congruence. rewrite or_all_s_spec. cbn [orb].
  (* values *)
  rewrite bits_to_N_app, bits_to_N_repeat_false, lenN_repeat, N.add_0_r in HVd, Hc.
  assert (bits_to_N y = bits_to_N (firstn sa y) * 2 ^ lenN (skipn sa y) + bits_to_N (skipn sa y)) as HY
    by (rewrite <- bits_to_N_app, firstn_skipn; reflexivity).
  assert (2 ^ lenN (skipn sa y) * 2 ^ N.of_nat sa = 2 ^ lenN rem) as HP.
  { rewrite <- N.pow_add_r. f_equal. unfold lenN. rewrite skipn_length. lia. }
  pose proof (bits_to_N_lt (skipn sa y)) as HB. pose proof (bits_to_N_lt rem) as HR.
  pose proof (pow2_pos (lenN (skipn sa y))) as Hp1. pose proof (pow2_pos (N.of_nat sa)) as Hp2.
  rewrite HY.
  remember (bits_to_N (firstn sa y)) as A eqn:EA. remember (bits_to_N (skipn sa y)) as Bv eqn:EB.
  remember (2 ^ lenN (skipn sa y)) as Q1 eqn:EQ1. remember (2 ^ N.of_nat sa) as Q2 eqn:EQ2.
  remember (2 ^ lenN rem) as P eqn:EP. remember (bits_to_N rem) as R eqn:ER.
  assert ((A * Q1 + Bv) * Q2 = A * P + Bv * Q2) as HD by (rewrite <- HP; ring).
  rewrite HD. assert (Bv * Q2 < P) as Hsh by (rewrite <- HP; nia).
  rewrite mod_cases in HVd by lia.
  split; [destruct (carry || negb (A =? 0)); congruence|].
  destruct (N.eqb_spec A 0) as [EA0|EA0]; cbn [negb].
  - rewrite EA0, !N.mul_0_l, !N.add_0_l. rewrite orb_false_r. unfold mux_s.
    subst carry. destruct (N.ltb_spec R (Bv * Q2)); destruct (N.leb_spec (Bv * Q2) R); try lia;
      cbn [negb]; split; try reflexivity.
    destruct (N.ltb_spec (R + P - Bv * Q2) P); lia.
  - rewrite orb_true_r. unfold mux_s. assert (P <= A * P) by nia.
    destruct (N.leb_spec (A * P + Bv * Q2) R); [lia|]. split; [lia | reflexivity].
Qed.

Lemma rev_seq_S k : rev (seq 0 (S k)) = k :: rev (seq 0 k).
Proof. rewrite seq_S, rev_app_distr. reflexivity. Qed.

Lemma udiv_loop_s_spec y : forall k rem qr,
  (k <= length y)%nat -> length rem = length y ->
  exists qs,
    fst (udiv_loop_s y (rev (seq 0 k)) rem qr) = rev qr ++ qs /\ length qs = k /\
    length (snd (udiv_loop_s y (rev (seq 0 k)) rem qr)) = length y /\
    let Y := bits_to_N y in let R' := bits_to_N (snd (udiv_loop_s y (rev (seq 0 k)) rem qr)) in
    bits_to_N rem = bits_to_N qs * Y + R' /\
    (bits_to_N rem < Y * 2 ^ N.of_nat k -> R' < Y) /\
    (Y = 0 -> bits_to_N qs + 1 = 2 ^ N.of_nat k).
Proof.
  induction k as [|k IH]; intros rem qr Hk Hl.
  - cbn [seq rev udiv_loop_s fst snd]. exists []. rewrite app_nil_r. cbn [bits_to_N length].
    repeat split; try assumption; try lia.
  - rewrite rev_seq_S. cbn [udiv_loop_s].
    destruct (udiv_step_s_spec y k rem) as (HL1 & HV1 & HQ1); [lia|exact Hl|].
    destruct (udiv_step_s y k rem) as [rem1 q]. cbn [fst snd] in HL1, HV1, HQ1.
    destruct (IH rem1 (q :: qr)) as (qs & Hq & HLq & HLr & HE & HB & HZ); [lia|exact HL1|].
    exists (q :: qs). cbn [rev] in Hq. rewrite <- app_assoc in Hq. cbn [app] in Hq.
    split; [exact Hq|]. split; [cbn [length]; lia|]. split; [exact HLr|].
    cbv zeta in *. rewrite bits_to_N_cons. rewrite (lenN_length qs (repeat false k)) by (rewrite repeat_length; exact HLq).
    rewrite lenN_repeat.
    replace (N.of_nat (S k)) with (1 + N.of_nat k) by lia. rewrite pow2_succ.
    remember (bits_to_N (snd (udiv_loop_s y (rev (seq 0 k)) rem1 (q :: qr)))) as R' eqn:ER'.
    remember (2 ^ N.of_nat k) as Pk eqn:EPk. remember (bits_to_N y) as Y eqn:EY.
    remember (bits_to_N rem) as R eqn:ER. remember (bits_to_N rem1) as R1 eqn:ER1.
    remember (bits_to_N qs) as Q eqn:EQ.
    pose proof (pow2_pos (N.of_nat k)) as Hp. rewrite <- EPk in Hp.
    subst q. destruct (N.leb_spec (Y * Pk) R) as [Hge|Hlt]; cbn [N.b2n].
    + split; [nia|]. split; [intro; apply HB; nia|]. intro HY0. specialize (HZ HY0). nia.
    + split; [nia|]. split; [intro; apply HB; nia|]. intro HY0. subst Y. lia.
Qed.

Theorem udiv_correct x y : length x = length y ->
  let '(q, r) := udiv_s x y in
  let X := bits_to_N x in let Y := bits_to_N y in
  length q = length x /\ length r = length x /\
  X = bits_to_N q * Y + bits_to_N r /\
  (0 < Y -> bits_to_N r < Y) /\
  (Y = 0 -> bits_to_N q = 2 ^ lenN x - 1 /\ bits_to_N r = X).
Proof.
  intro Hl. unfold udiv_s.
  destruct (udiv_loop_s_spec y (length x) x []) as (qs & Hq & HLq & HLr & HE & HB & HZ); [lia|exact Hl|].
  destruct (udiv_loop_s y (rev (seq 0 (length x))) x []) as [q r]. cbn [fst snd rev app] in *. subst qs.
  cbv zeta in *. split; [exact HLq|]. split; [congruence|]. split; [exact HE|].
  pose proof (bits_to_N_lt x) as Hx. fold (lenN x) in HB, HZ.
  pose proof (pow2_pos (lenN x)) as Hp.
  split.
  - intro HY. apply HB. nia.
  - intro HY0. specialize (HZ HY0). rewrite HY0 in HE. split; lia.
Qed.

(* for a non-zero divisor the gadget is Euclidean division *)
Corollary udiv_correct_divmod x y : length x = length y -> 0 < bits_to_N y ->
  bits_to_N (fst (udiv_s x y)) = bits_to_N x / bits_to_N y /\
  bits_to_N (snd (udiv_s x y)) = bits_to_N x mod bits_to_N y.
Proof.
  intros Hl HY. pose proof (udiv_correct x y Hl) as H.
  destruct (udiv_s x y) as [q r]. cbv zeta in H. destruct H as (_ & _ & HE & HB & _). cbn [fst snd].
  specialize (HB HY). split.
  - apply (N.div_unique _ _ _ (bits_to_N r)); lia.
  - apply (N.mod_unique _ _ (bits_to_N q)); lia.
Qed.

(* ------------------------------------------------------------------ signed division through absolute values *)

(* unsigned reading, sign bit and two's-complement reading of a non-empty vector *)
Lemma signed_facts x : x <> [] ->
  let X := bits_to_N x in let P := 2 ^ lenN x in let x0 := hd false x in
  X < P /\ 2 <= P /\ (x0 = true -> P <= 2 * X) /\ (x0 = false -> 2 * X < P) /\
  bits_to_Z_signed x = (Z.of_N X - (if x0 then Z.of_N P else 0))%Z.
Proof.
  destruct x as [|x0 xr]; [congruence|intros _]. cbv zeta. cbn [hd].
  pose proof (bits_to_N_lt (x0 :: xr)) as HX. split; [exact HX|].
  unfold bits_to_Z_signed. rewrite bits_to_N_cons, lenN_cons, pow2_succ in *.
  pose proof (bits_to_N_lt xr) as Hr. pose proof (pow2_pos (lenN xr)) as Hp.
  destruct x0; cbn [N.b2n]; rewrite ?N.mul_1_l, ?N.mul_0_l, ?N.add_0_l;
    repeat split; try discriminate; try lia.
Qed.

Lemma hd_mux_all_abs x : x <> [] ->
  let xa := mux_all_s (hd false x) (negation_s x) x in
  length xa = length x /\
  bits_to_N xa = (if hd false x then 2 ^ lenN x - bits_to_N x else bits_to_N x) /\
  Z.of_N (bits_to_N xa) = Z.abs (bits_to_Z_signed x).
Proof.
  intro Hne. cbv zeta. destruct (neg_correct x) as [HLn HVn].
  rewrite mux_all_correct by exact HLn.
  destruct (signed_facts x Hne) as (HX & HP & H1 & H0 & HS). rewrite HS.
  destruct (hd false x).
  - specialize (H1 eq_refl). split; [exact HLn|]. rewrite HVn, N.mod_small by lia. split; lia.
  - specialize (H0 eq_refl). split; [reflexivity|]. split; lia.
Qed.

Lemma neg_mod_Z (P Q : N) : 0 < P -> Q < P ->
  Z.of_N ((P - Q) mod P) = ((- Z.of_N Q) mod Z.of_N P)%Z.
Proof.
  intros HP HQ. destruct (N.eqb_spec Q 0) as [->|Hq].
  - rewrite N.sub_0_r, N.mod_same by lia. change (- Z.of_N 0)%Z with 0%Z. rewrite Z.mod_0_l by lia. reflexivity.
  - rewrite N.mod_small by lia. apply (Z.mod_unique_pos _ _ (-1)); lia.
Qed.

Lemma quot_rem_signs (A Bq : Z) (sa sb : bool) : (0 <= A)%Z -> (0 < Bq)%Z ->
  let SX := if sa then (- A)%Z else A in
  let SY := if sb then (- Bq)%Z else Bq in
  Z.quot SX SY = (if xorb sa sb then - (A / Bq) else A / Bq)%Z /\
  Z.rem SX SY = (if sa then - (A mod Bq) else A mod Bq)%Z.
Proof.
  intros HA HB. cbv zeta.
  destruct sa, sb; cbn [xorb];
    rewrite ?Z.quot_opp_opp, ?Z.quot_opp_l, ?Z.quot_opp_r, ?Z.rem_opp_opp, ?Z.rem_opp_l, ?Z.rem_opp_r by lia;
    rewrite Z.quot_div_nonneg, Z.rem_mod_nonneg by lia; split; reflexivity.
Qed.

Theorem sdiv_correct x y : x <> [] -> length x = length y ->
  let '(q, r) := sdiv_s x y in
  let SX := bits_to_Z_signed x in let SY := bits_to_Z_signed y in
  let P := Z.of_N (2 ^ lenN x) in
  length q = length x /\ length r = length x /\
  (SY <> 0%Z ->
     Z.of_N (bits_to_N q) = (Z.quot SX SY mod P)%Z /\
     Z.of_N (bits_to_N r) = (Z.rem SX SY mod P)%Z) /\
  (SY = 0%Z ->
     bits_to_N q = (if (SX <? 0)%Z then 1 else 2 ^ lenN x - 1) /\
     bits_to_N r = bits_to_N x).
Proof.
  intros Hnx Hl. assert (y <> []) as Hny by (destruct x, y; try discriminate; congruence).
  unfold sdiv_s.
  destruct (hd_mux_all_abs x Hnx) as (HLxa & HVxa & HZxa).
  destruct (hd_mux_all_abs y Hny) as (HLya & HVya & HZya). cbv zeta in *.
  destruct (signed_facts x Hnx) as (HX & HP & Hx1 & Hx0 & HSX).
  destruct (signed_facts y Hny) as (HY & _ & Hy1 & Hy0 & HSY). cbv zeta in *.
  rewrite <- (lenN_length _ _ Hl) in HY, Hy1, Hy0, HSY, HVya.
  remember (mux_all_s (hd false x) (negation_s x) x) as xa eqn:Exa.
  remember (mux_all_s (hd false y) (negation_s y) y) as ya eqn:Eya.
  assert (length xa = length ya) as Hla by congruence.
  pose proof (udiv_correct xa ya Hla) as Hu.
  pose proof (udiv_correct_divmod xa ya Hla) as Hdm.
  destruct (udiv_s xa ya) as [q r]. cbv zeta in Hu. cbn [fst snd] in Hdm.
  destruct Hu as (HLq & HLr & HE & HB & HZ).
  destruct (neg_correct q) as [HLnq HVnq]. destruct (neg_correct r) as [HLnr HVnr].
  rewrite !mux_all_correct by assumption.
  assert (lenN q = lenN x) as Eq by (apply lenN_length; congruence).
  assert (lenN r = lenN x) as Er by (apply lenN_length; congruence).
  rewrite Eq in HVnq. rewrite Er in HVnr.
  pose proof (bits_to_N_lt q) as HQ. rewrite Eq in HQ.
  pose proof (bits_to_N_lt r) as HR. rewrite Er in HR.
  rewrite (lenN_length _ _ HLxa) in HZ.
  split; [destruct (xorb (hd false x) (hd false y)); congruence|].
  split; [destruct (hd false x); congruence|].
  remember (2 ^ lenN x) as P eqn:EP. remember (bits_to_N x) as X eqn:EX.
  remember (bits_to_N y) as Y eqn:EY. remember (bits_to_N xa) as A eqn:EA.
  remember (bits_to_N ya) as Bv eqn:EB. remember (bits_to_N q) as Q eqn:EQ.
  remember (bits_to_N r) as R eqn:ER.
  split.
  - intro HSY0.
    assert (0 < Bv) as HBpos by lia.
    destruct (Hdm HBpos) as [HQd HRd].
    destruct (quot_rem_signs (Z.of_N A) (Z.of_N Bv) (hd false x) (hd false y)) as [Hquot Hrem]; [lia|lia|].
    cbv zeta in Hquot, Hrem.
    assert (bits_to_Z_signed x = if hd false x then (- Z.of_N A)%Z else Z.of_N A) as HSXA
      by (destruct (hd false x); [specialize (Hx1 eq_refl)|specialize (Hx0 eq_refl)]; lia).
    assert (bits_to_Z_signed y = if hd false y then (- Z.of_N Bv)%Z else Z.of_N Bv) as HSYB
      by (destruct (hd false y); [specialize (Hy1 eq_refl)|specialize (Hy0 eq_refl)]; lia).
    rewrite HSXA, HSYB, Hquot, Hrem.
    rewrite <- N2Z.inj_div, <- N2Z.inj_mod, <- HQd, <- HRd.
    split.
    + destruct (xorb (hd false x) (hd false y)).
      * rewrite HVnq. apply neg_mod_Z; lia.
      * rewrite <- EQ. symmetry. apply Z.mod_small. lia.
    + destruct (hd false x).
      * rewrite HVnr. apply neg_mod_Z; lia.
      * rewrite <- ER. symmetry. apply Z.mod_small. lia.
  - intro HSY0.
    assert (Bv = 0) as HB0 by lia. destruct (HZ HB0) as [HQ0 HR0].
    assert (hd false y = false) as Hy by (destruct (hd false y); [specialize (Hy1 eq_refl); lia | reflexivity]).
    rewrite Hy, xorb_false_r.
    destruct (hd false x).
    + specialize (Hx1 eq_refl). rewrite HVnq, HVnr.
      destruct (Z.ltb_spec (bits_to_Z_signed x) 0); [|lia].
      split.
      * rewrite HQ0. replace (P - (P - 1)) with 1 by lia. apply N.mod_small. lia.
      * rewrite HR0, HVxa. replace (P - (P - X)) with X by lia. apply N.mod_small. lia.
    + specialize (Hx0 eq_refl). destruct (Z.ltb_spec (bits_to_Z_signed x) 0); [lia|].
      rewrite <- EQ, <- ER. split; lia.
Qed.

(* reading a vector as signed when its unsigned reading is [v mod 2^n] and v is in range *)
Lemma signed_of_mod l (v : Z) : l <> [] ->
  (- Z.of_N (2 ^ (lenN l - 1)) <= v < Z.of_N (2 ^ (lenN l - 1)))%Z ->
  Z.of_N (bits_to_N l) = (v mod Z.of_N (2 ^ lenN l))%Z ->
  bits_to_Z_signed l = v.
Proof.
  intros Hne Hv Hm. destruct (signed_facts l Hne) as (HX & HP & H1 & H0 & HS). cbv zeta in *.
  assert (2 ^ lenN l = 2 * 2 ^ (lenN l - 1)) as HPH.
  { rewrite <- pow2_succ. f_equal. destruct l; [congruence|]. rewrite lenN_cons. lia. }
  rewrite HS. remember (2 ^ lenN l) as P eqn:EP. remember (2 ^ (lenN l - 1)) as H eqn:EH.
  pose proof (Z.div_mod v (Z.of_N P)) as Hdm. rewrite <- Hm in Hdm.
  remember (v / Z.of_N P)%Z as k eqn:Ek. remember (bits_to_N l) as X eqn:EX.
  destruct (hd false l); [specialize (H1 eq_refl)|specialize (H0 eq_refl)].
  - assert (k = -1)%Z by nia. lia.
  - assert (k = 0)%Z by nia. lia.
Qed.

(* range of the truncating quotient: only MIN / -1 leaves [-H, H) *)
Lemma quot_in_range (SX SY H : Z) : (0 < H)%Z -> (- H <= SX < H)%Z -> (- H <= SY < H)%Z ->
  SY <> 0%Z -> ~ (SX = (- H)%Z /\ SY = (-1)%Z) ->
  (- H <= Z.quot SX SY < H)%Z /\ (- H <= Z.rem SX SY < H)%Z.
Proof.
  intros HH RX RY HSY Hnot. split.
  - pose proof (Z.quot_abs SX SY HSY) as Habs.
    rewrite Z.quot_div_nonneg in Habs by lia.
    assert (Z.abs SX / Z.abs SY <= Z.abs SX)%Z as Hle
      by (apply Z.div_le_upper_bound; [lia|nia]).
    destruct (Z.eq_dec (Z.abs SY) 1) as [E1|E1].
    + rewrite E1, Z.div_1_r in Habs.
      destruct (Z.eq_dec SY 1) as [->|Hn1].
      * rewrite Z.quot_1_r. lia.
      * assert (SY = (-1)%Z) as -> by lia. assert (SX <> (- H)%Z) by tauto. lia.
    + destruct (Z.eq_dec SX 0) as [->|Hx0].
      * rewrite Z.quot_0_l by lia. lia.
      * assert (Z.abs SX / Z.abs SY < Z.abs SX)%Z by (apply Z.div_lt; lia). lia.
  - pose proof (Z.rem_bound_abs SX SY HSY). lia.
Qed.

(* away from MIN / -1 the signed readings are Rust's truncating quotient and remainder *)
Corollary sdiv_correct_signed x y : x <> [] -> length x = length y ->
  let SX := bits_to_Z_signed x in let SY := bits_to_Z_signed y in
  let MIN := (- Z.of_N (2 ^ (lenN x - 1)))%Z in
  SY <> 0%Z -> ~ (SX = MIN /\ SY = (-1)%Z) ->
  bits_to_Z_signed (fst (sdiv_s x y)) = Z.quot SX SY /\
  bits_to_Z_signed (snd (sdiv_s x y)) = Z.rem SX SY.
Proof.
  intros Hnx Hl. cbv zeta. intros HSY Hnot.
  pose proof (sdiv_correct x y Hnx Hl) as H. destruct (sdiv_s x y) as [q r]. cbv zeta in H.
  destruct H as (HLq & HLr & Hnz & _). destruct (Hnz HSY) as [Hq Hr]. cbn [fst snd].
  assert (y <> []) as Hny by (destruct x, y; try discriminate; congruence).
  pose proof (bits_to_Z_signed_range x Hnx) as RX. pose proof (bits_to_Z_signed_range y Hny) as RY.
  rewrite <- (lenN_length _ _ Hl) in RY. rewrite <- (N2Z.inj_pow 2) in RX, RY.
  assert (q <> []) as Hnq by (destruct q, x; try discriminate; congruence).
  assert (r <> []) as Hnr by (destruct r, x; try discriminate; congruence).
  rewrite <- (lenN_length _ _ HLq) in Hq. rewrite <- (lenN_length _ _ HLr) in Hr.
  assert (0 < Z.of_N (2 ^ (lenN x - 1)))%Z as HH by (pose proof (pow2_pos (lenN x - 1)); lia).
  destruct (quot_in_range _ _ _ HH RX RY HSY Hnot) as [Rq Rr].
  split.
  - apply signed_of_mod; [exact Hnq| |exact Hq]. rewrite (lenN_length _ _ HLq). exact Rq.
  - apply signed_of_mod; [exact Hnr| |exact Hr]. rewrite (lenN_length _ _ HLr). exact Rr.
Qed.

(* MIN / -1: the exact quotient 2^(n-1) is not representable; the gadget returns MIN (and
   remainder 0) without any overflow signal of its own -- compile.rs must add the panic *)
Corollary sdiv_min_minus_one x y : x <> [] -> length x = length y ->
  bits_to_Z_signed x = (- Z.of_N (2 ^ (lenN x - 1)))%Z -> bits_to_Z_signed y = (-1)%Z ->
  bits_to_Z_signed (fst (sdiv_s x y)) = (- Z.of_N (2 ^ (lenN x - 1)))%Z /\
  bits_to_N (snd (sdiv_s x y)) = 0.
Proof.
  intros Hnx Hl HSX HSY.
  pose proof (sdiv_correct x y Hnx Hl) as H. destruct (sdiv_s x y) as [q r]. cbv zeta in H.
  destruct H as (HLq & HLr & Hnz & _). rewrite HSX, HSY in Hnz.
  destruct Hnz as [Hq Hr]; [lia|]. cbn [fst snd].
  change (-1)%Z with (- (1))%Z in Hq, Hr.
  rewrite Z.quot_opp_opp, Z.quot_1_r in Hq by lia. rewrite Z.rem_opp_opp, Z.rem_1_r in Hr by lia.
  assert (2 ^ lenN x = 2 * 2 ^ (lenN x - 1)) as HPH.
  { rewrite <- pow2_succ. f_equal. destruct x; [congruence|]. rewrite lenN_cons. lia. }
  pose proof (pow2_pos (lenN x - 1)) as Hp.
  rewrite Z.mod_small in Hq by lia. rewrite Z.mod_0_l in Hr by lia.
  assert (q <> []) as Hnq by (destruct q, x; try discriminate; congruence).
  destruct (signed_facts q Hnq) as (HX & HP & H1 & H0 & HS). cbv zeta in *.
  rewrite (lenN_length _ _ HLq) in *.
  split; [|lia]. rewrite HS.
  destruct (hd false q); [lia|]. specialize (H0 eq_refl). lia.
Qed.

(* ------------------------------------------------------------------ signed addition: overflow = carry xor carry_prev
   (how compile.rs derives the Overflow panic of a signed [+] from push_addition_circuit) *)
Theorem add_signed_overflow x y : x <> [] -> length x = length y ->
  let '(sum, c, cp) := addition_s x y in
  let D := (bits_to_Z_signed x + bits_to_Z_signed y)%Z in
  let H := Z.of_N (2 ^ (lenN x - 1)) in
  Z.of_N (bits_to_N sum) = (D mod Z.of_N (2 ^ lenN x))%Z /\
  (xorb c cp = true <-> ~ (- H <= D < H)%Z) /\
  (xorb c cp = false -> bits_to_Z_signed sum = D).
Proof.
  intros Hnx Hl. pose proof (adder_correct x y Hl) as Ha.
  destruct (addition_s x y) as [[sum c] cp]. destruct Ha as (HLs & HVs & HC & HCP).
  destruct x as [|x0 xr]; [congruence|]. destruct y as [|y0 yr]; [discriminate|].
  injection Hl as Hl. cbn [tl] in HCP.
  assert (sum <> []) as Hns by (destruct sum; [discriminate|congruence]).
  cbv zeta.
  assert (Z.of_N (bits_to_N sum) =
          ((bits_to_Z_signed (x0 :: xr) + bits_to_Z_signed (y0 :: yr)) mod Z.of_N (2 ^ lenN (x0 :: xr)))%Z /\
          (xorb c cp = true <->
           ~ (- Z.of_N (2 ^ (lenN (x0 :: xr) - 1)) <= bits_to_Z_signed (x0 :: xr) + bits_to_Z_signed (y0 :: yr)
              < Z.of_N (2 ^ (lenN (x0 :: xr) - 1)))%Z)) as [Hm Hov].
  { unfold bits_to_Z_signed. rewrite !bits_to_N_cons, lenN_cons, pow2_succ in *.
    replace (1 + lenN xr - 1) with (lenN xr) by lia.
    rewrite <- (lenN_length _ _ Hl) in *.
    pose proof (bits_to_N_lt xr) as Hx. pose proof (bits_to_N_lt yr) as Hy.
    rewrite <- (lenN_length _ _ Hl) in Hy. pose proof (pow2_pos (lenN xr)) as Hp.
    remember (2 ^ lenN xr) as H eqn:EH. remember (bits_to_N xr) as Xr eqn:EX.
    remember (bits_to_N yr) as Yr eqn:EY. remember (bits_to_N sum) as S eqn:ES.
    pose proof (N.div_mod (N.b2n x0 * H + Xr + (N.b2n y0 * H + Yr)) (2 * H)) as D1.
    pose proof (N.mod_upper_bound (N.b2n x0 * H + Xr + (N.b2n y0 * H + Yr)) (2 * H)) as B1.
    pose proof (N.div_mod (Xr + Yr) H) as D2. pose proof (N.mod_upper_bound (Xr + Yr) H) as B2.
    rewrite <- HVs, <- HC in D1. rewrite <- HVs in B1. rewrite <- HCP in D2.
    remember ((Xr + Yr) mod H) as T eqn:ET. clear HVs HC HCP ET.
    specialize (D1 ltac:(lia)). specialize (B1 ltac:(lia)). specialize (D2 ltac:(lia)). specialize (B2 ltac:(lia)).
    split.
    - apply (Z.mod_unique_pos _ _ (Z.of_N (N.b2n c) - Z.of_N (N.b2n x0) - Z.of_N (N.b2n y0))); [lia|].
      destruct x0, y0, c; cbn [N.b2n] in *; lia.
    - destruct x0, y0, c, cp; cbn [N.b2n xorb] in *;
        (split; [intro Hx1; try discriminate Hx1 | intro Hx1; try reflexivity; exfalso]); lia. }
  split; [exact Hm|]. split; [exact Hov|].
  intro Hno. apply signed_of_mod; [exact Hns| |].
  - rewrite (lenN_length _ _ HLs).
    destruct (xorb c cp); [discriminate|].
    destruct (Z_le_dec (- Z.of_N (2 ^ (lenN (x0 :: xr) - 1)))
                (bits_to_Z_signed (x0 :: xr) + bits_to_Z_signed (y0 :: yr))) as [L1|L1];
      destruct (Z_lt_dec (bits_to_Z_signed (x0 :: xr) + bits_to_Z_signed (y0 :: yr))
                  (Z.of_N (2 ^ (lenN (x0 :: xr) - 1)))) as [L2|L2]; try lia;
      exfalso; assert (false = true) as Hf by (apply Hov; lia); discriminate Hf.
  - rewrite (lenN_length _ _ HLs). exact Hm.
Qed.

(* ------------------------------------------------------------------ the overflow signals compile.rs derives from the gadgets
   (the repairs of DESIGN.md §6-4: unary minus and signed division raise Overflow exactly
   at MIN resp. MIN / -1) *)

Lemma pow2_half {A} (l : list A) : l <> [] -> 2 ^ lenN l = 2 * 2 ^ (lenN l - 1).
Proof.
  intro Hne. rewrite <- pow2_succ. f_equal. destruct l as [|a l]; [congruence|]. rewrite lenN_cons. lia.
Qed.

(* -x: sign(x) && sign(-x)  <->  x = MIN;  otherwise the result is the exact negation *)
Theorem neg_overflow_signal (x : list bool) : x <> [] ->
  let SX := bits_to_Z_signed x in let MIN := (- Z.of_N (2 ^ (lenN x - 1)))%Z in
  (hd false x && hd false (negation_s x) = true <-> SX = MIN) /\
  (SX <> MIN -> bits_to_Z_signed (negation_s x) = (- SX)%Z).
Proof.
  intro Hne. cbv zeta. destruct (neg_correct x) as [HL HV].
  assert (negation_s x <> []) as Hnn by (destruct (negation_s x), x; try discriminate; congruence).
  destruct (signed_facts x Hne) as (HX & HP & Hx1 & Hx0 & HSX).
  destruct (signed_facts _ Hnn) as (HN & _ & Hn1 & Hn0 & HSN). cbv zeta in *.
  rewrite (lenN_length _ _ HL) in *. rewrite HSX, HSN.
  pose proof (pow2_half x Hne) as HPH.
  remember (2 ^ lenN x) as P eqn:EP. remember (2 ^ (lenN x - 1)) as H eqn:EH.
  remember (bits_to_N x) as X eqn:EX. remember (bits_to_N (negation_s x)) as NV eqn:EN.
  assert (NV = if X =? 0 then 0 else P - X) as HNV.
  { rewrite HV. destruct (N.eqb_spec X 0) as [->|Hx].
    - rewrite N.sub_0_r, N.mod_same by lia. reflexivity.
    - apply N.mod_small. lia. }
  clear HV. destruct (N.eqb_spec X 0) as [E0|E0];
    destruct (hd false x); destruct (hd false (negation_s x));
    try specialize (Hx1 eq_refl); try specialize (Hx0 eq_refl);
    try specialize (Hn1 eq_refl); try specialize (Hn0 eq_refl);
    cbn [andb]; (split; [split; [intro Hf; try discriminate Hf|intro Hm; try reflexivity; exfalso]|intro Hm]); lia.
Qed.

(* x / y: sign(x) && sign(y) && sign(quotient)  <->  x = MIN and y = -1 *)
Theorem sdiv_overflow_signal x y : x <> [] -> length x = length y ->
  let SX := bits_to_Z_signed x in let SY := bits_to_Z_signed y in
  let MIN := (- Z.of_N (2 ^ (lenN x - 1)))%Z in
  hd false x && hd false y && hd false (fst (sdiv_s x y)) = true <-> (SX = MIN /\ SY = (-1)%Z).
Proof.
  intros Hnx Hl. cbv zeta.
  assert (y <> []) as Hny by (destruct x, y; try discriminate; congruence).
  pose proof (sdiv_correct x y Hnx Hl) as Hc.
  pose proof (sdiv_correct_signed x y Hnx Hl) as Hs.
  pose proof (sdiv_min_minus_one x y Hnx Hl) as Hm.
  destruct (sdiv_s x y) as [q r]. cbv zeta in Hc, Hs. cbn [fst snd] in *.
  destruct Hc as (HLq & _ & _ & _).
  assert (q <> []) as Hnq by (destruct q, x; try discriminate; congruence).
  destruct (signed_facts x Hnx) as (HX & HP & Hx1 & Hx0 & HSX).
  destruct (signed_facts y Hny) as (HY & _ & Hy1 & Hy0 & HSY).
  destruct (signed_facts q Hnq) as (HQ & _ & Hq1 & Hq0 & HSQ). cbv zeta in *.
  rewrite <- (lenN_length _ _ Hl) in *. rewrite (lenN_length _ _ HLq) in *.
  pose proof (pow2_half x Hnx) as HPH. pose proof (pow2_pos (lenN x - 1)) as Hp.
  split.
  - intro Hall. apply andb_prop in Hall. destruct Hall as [Hxy Hq]. apply andb_prop in Hxy.
    destruct Hxy as [Hx Hy]. rewrite Hx, Hy, Hq in *.
    specialize (Hx1 eq_refl). specialize (Hy1 eq_refl). specialize (Hq1 eq_refl).
    destruct (Z.eq_dec (bits_to_Z_signed x) (- Z.of_N (2 ^ (lenN x - 1)))) as [E1|E1];
      destruct (Z.eq_dec (bits_to_Z_signed y) (-1)) as [E2|E2]; try (split; assumption); exfalso.
    all: destruct Hs as [Hsq _]; [lia|tauto|].
    all: assert (0 <= Z.quot (bits_to_Z_signed x) (bits_to_Z_signed y))%Z as Hpos
        by (rewrite <- Z.quot_opp_opp by lia; apply Z.quot_pos; lia).
    all: lia.
  - intros [E1 E2]. destruct (Hm E1 E2) as [Hq _].
    destruct (hd false x); [|specialize (Hx0 eq_refl); lia].
    destruct (hd false y); [|specialize (Hy0 eq_refl); lia].
    destruct (hd false q); [reflexivity|specialize (Hq0 eq_refl); lia].
Qed.
