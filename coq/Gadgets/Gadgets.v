(* Builder-form arithmetic gadgets: transliteration of circuit.rs:1019-1327.
   Bit vectors are lists of wires, most significant bit first, as in the Rust code. *)
From GV Require Import Base.Util Base.NMap Builder.Builder.

Definition W := N.
Definition B := builder.

Definition push_eq_circuit (b : B) (x y : list W) : res (W * B) :=
  if negb (length x =? length y)%nat then Ok (0, b) else
  (fix go (b : B) (acc : W) (xys : list (W * W)) : res (W * B) :=
     match xys with
     | [] => Ok (acc, b)
     | (x, y) :: r =>
         let* (e, b1) := push_eq b x y in
         let* (acc', b2) := push_and_top b1 acc e in
         go b2 acc' r
     end) b 1 (combine x y).

Definition push_adder (b : B) (x y carry : W) : res ((W * W) * B) :=
  let* (u, b1) := push_xor_top b x y in
  let* (v, b2) := push_and_top b1 x y in
  let* (s, b3) := push_xor_top b2 u carry in
  let* (w, b4) := push_and_top b3 u carry in
  let* (c, b5) := push_or b4 v w in
  Ok ((s, c), b5).

Definition push_multiplier (b : B) (x y z carry : W) : res ((W * W) * B) :=
  let* (xy, b1) := push_and_top b x y in
  push_adder b1 xy z carry.

(* [xys]: operand pairs, least significant first; [acc]: sum bits produced so far (MSB first) *)
Fixpoint add_loop (b : B) (xys : list (W * W)) (carry carry_prev : W) (acc : list W)
  : res ((list W * W * W) * B) :=
  match xys with
  | [] => Ok ((acc, carry, carry_prev), b)
  | (x, y) :: r =>
      let* ((s, c), b1) := push_adder b x y carry in
      add_loop b1 r c carry (s :: acc)
  end.

Definition push_addition_circuit (b : B) (x y : list W) : res ((list W * W * W) * B) :=
  if negb (length x =? length y)%nat then Crash else
  add_loop b (rev (combine x y)) 0 0 [].

Fixpoint neg_loop (b : B) (xs : list W) (carry : W) (acc : list W) : res (list W * B) :=
  match xs with
  | [] => Ok (acc, b)
  | x :: r =>
      let* (nx, b1) := push_not b x in
      let* (s, b2) := push_xor_top b1 carry nx in
      let* (c, b3) := push_and_top b2 carry nx in
      neg_loop b3 r c (s :: acc)
  end.

Definition push_negation_circuit (b : B) (x : list W) : res (list W * B) :=
  neg_loop b (rev x) 1 [].

Definition hd_res {A} (l : list A) : res A :=
  match l with a :: _ => Ok a | [] => Crash end.

Definition push_subtraction_circuit (b : B) (x y : list W) (is_signed : bool)
  : res ((list W * W) * B) :=
  if negb (length x =? length y)%nat then Crash else
  let* x0 := if is_signed then hd_res x else Ok 0 in
  let* y0 := if is_signed then hd_res y else Ok 0 in
  let x_ext := x0 :: x in
  let y_ext := y0 :: y in
  let* (y_neg, b1) := push_negation_circuit b y_ext in
  let* ((sum_ext, _, _), b2) := push_addition_circuit b1 x_ext y_neg in
  let* sign := hd_res sum_ext in
  let sum := tl sum_ext in
  if is_signed then
    let* s0 := hd_res sum in
    let* (ov, b3) := push_xor_top b2 sign s0 in
    Ok ((sum, ov), b3)
  else Ok ((sum, sign), b2).

Fixpoint or_all (b : B) (acc : W) (ys : list W) : res (W * B) :=
  match ys with
  | [] => Ok (acc, b)
  | y :: r => let* (o, b1) := push_or b acc y in or_all b1 o r
  end.

Fixpoint mux_all (b : B) (s : W) (xs ys : list W) : res (list W * B) :=
  match xs, ys with
  | x :: xr, y :: yr =>
      let* (m, b1) := push_mux b s x y in
      let* (rest, b2) := mux_all b1 s xr yr in
      Ok (m :: rest, b2)
  | _, _ => Ok ([], b)
  end.

(* one iteration of the restoring division for [sa] = shift_amount *)
Definition udiv_step (b : B) (y : list W) (bits : nat) (sa : nat) (remainder : list W)
  : res ((list W * W) * B) :=
  let* (overflow, b1) := or_all b 0 (firstn sa y) in
  let y_shifted := skipn sa y ++ repeat 0 sa in
  let* ((x_sub, carry), b2) := push_subtraction_circuit b1 remainder y_shifted false in
  let* (coo, b3) := push_or b2 carry overflow in
  let* (rem', b4) := mux_all b3 coo remainder x_sub in
  let* (qb, b5) := push_not b4 carry in
  let* (q, b6) := push_mux b5 overflow 0 qb in
  Ok ((rem', q), b6).

(* [sas]: the shift amounts still to do, in order (bits-1 first) *)
Fixpoint udiv_loop (b : B) (y : list W) (bits : nat) (sas : list nat) (remainder : list W)
    (quot_rev : list W) : res ((list W * list W) * B) :=
  match sas with
  | [] => Ok ((rev quot_rev, remainder), b)
  | sa :: r =>
      let* ((rem', q), b1) := udiv_step b y bits sa remainder in
      udiv_loop b1 y bits r rem' (q :: quot_rev)
  end.

Definition push_unsigned_division_circuit (b : B) (x y : list W)
  : res ((list W * list W) * B) :=
  if negb (length x =? length y)%nat then Crash else
  let bits := length x in
  udiv_loop b y bits (rev (seq 0 bits)) x [].

Definition push_signed_division_circuit (b : B) (x y : list W)
  : res ((list W * list W) * B) :=
  if negb (length x =? length y)%nat then Crash else
  let* x0 := hd_res x in
  let* y0 := hd_res y in
  let* (is_neg, b1) := push_xor_top b x0 y0 in
  let* (x_neg, b2) := push_negation_circuit b1 x in
  let* (xa, b3) := mux_all b2 x0 x_neg x in
  let* (y_neg, b4) := push_negation_circuit b3 y in
  let* (ya, b5) := mux_all b4 y0 y_neg y in
  let* ((q, r), b6) := push_unsigned_division_circuit b5 xa ya in
  let* (q_neg, b7) := push_negation_circuit b6 q in
  let* (q', b8) := mux_all b7 is_neg q_neg q in
  let* (r_neg, b9) := push_negation_circuit b8 r in
  let* (r', b10) := mux_all b9 x0 r_neg r in
  Ok ((q', r'), b10).

(* [xys]: the first [bits] operand pairs, least significant first *)
Fixpoint gt_loop (b : B) (xys : list (W * W)) (carry : W) : res (W * B) :=
  match xys with
  | [] => Ok (carry, b)
  | (x, y) :: r =>
      let* (xc, b1) := push_xor_top b x carry in
      let* (yc, b2) := push_xor_top b1 y carry in
      let* (nyc, b3) := push_not b2 yc in
      let* (an, b4) := push_and_top b3 xc nyc in
      let* (c, b5) := push_xor_top b4 an carry in
      gt_loop b5 r c
  end.

Definition push_gt_circuit (b : B) (bits : nat) (x y : list W) : res (W * B) :=
  if ((length x <? bits) || (length y <? bits))%nat then Crash else
  gt_loop b (rev (combine (firstn bits x) (firstn bits y))) 0.

Fixpoint cmp_loop (b : B) (first signed : bool) (xys : list (W * W)) (acc_gt acc_lt : W)
  : res ((W * W) * B) :=
  match xys with
  | [] => Ok ((acc_lt, acc_gt), b)
  | (x, y) :: r =>
      let* (xo, b1) := push_xor_top b x y in
      let* (xa, b2) := push_and_top b1 xo x in
      let* (ya, b3) := push_and_top b2 xo y in
      let '(gt, lt) := if first && signed then (ya, xa) else (xa, ya) in
      let* (gt', b4) := push_or b3 gt acc_gt in
      let* (lt', b5) := push_or b4 lt acc_lt in
      let* (nag, b6) := push_not b5 acc_gt in
      let* (nal, b7) := push_not b6 acc_lt in
      let* (ag, b8) := push_and_top b7 gt' nal in
      let* (al, b9) := push_and_top b8 lt' nag in
      cmp_loop b9 false signed r ag al
  end.

Definition push_comparator_circuit (b : B) (bits : nat) (x : list W) (sx : bool)
    (y : list W) (sy : bool) : res ((W * W) * B) :=
  if ((length x <? bits) || (length y <? bits))%nat then Crash else
  cmp_loop b true (sx || sy) (combine (firstn bits x) (firstn bits y)) 0 0.

Definition push_condswap (b : B) (s x y : W) : res ((W * W) * B) :=
  if x =? y then Ok ((x, y), b) else
  let* (xy, b1) := push_xor_top b x y in
  let* (sw, b2) := push_and_top b1 xy s in
  let* (xs, b3) := push_xor_top b2 x sw in
  let* (ys, b4) := push_xor_top b3 y sw in
  Ok ((xs, ys), b4).

Fixpoint condswap_all (b : B) (s : W) (xys : list (W * W)) : res ((list W * list W) * B) :=
  match xys with
  | [] => Ok (([], []), b)
  | (x, y) :: r =>
      let* ((a, c), b1) := push_condswap b s x y in
      let* ((mn, mx), b2) := condswap_all b1 s r in
      Ok ((a :: mn, c :: mx), b2)
  end.

Definition push_sorter (b : B) (bits : nat) (x y : list W) : res ((list W * list W) * B) :=
  let* (gt, b1) := push_gt_circuit b bits x y in
  condswap_all b1 gt (combine x y).

(* greatest power of two strictly below n (n >= 2): next_power_of_two(n) / 2 *)
Fixpoint pow2_below (fuel : nat) (p n : nat) : nat :=
  match fuel with
  | O => p
  | S f => if (2 * p <? n)%nat then pow2_below f (2 * p) n else p
  end.

(* compare-exchange of lower[i] with upper[i] for the first |upper| positions *)
Fixpoint merge_pairs (b : B) (bits : nat) (ascending : bool) (lower upper : list (list W))
  : res ((list (list W) * list (list W)) * B) :=
  match lower, upper with
  | x :: lr, y :: ur =>
      let* ((mn, mx), b1) := push_sorter b bits x y in
      let '(lo, hi) := if ascending then (mn, mx) else (mx, mn) in
      let* ((lr', ur'), b2) := merge_pairs b1 bits ascending lr ur in
      Ok ((lo :: lr', hi :: ur'), b2)
  | _, _ => Ok ((lower, upper), b)
  end.

Fixpoint push_bitonic_merger (fuel : nat) (b : B) (bits : nat) (ascending : bool)
    (v : list (list W)) : res (list (list W) * B) :=
  match fuel with
  | O => OutOfFuel
  | S f =>
      if (length v <=? 1)%nat then Ok (v, b) else
      let m := pow2_below (length v) 1 (length v) in
      let* ((lower, upper), b1) := merge_pairs b bits ascending (firstn m v) (skipn m v) in
      let* (lower', b2) := push_bitonic_merger f b1 bits ascending lower in
      let* (upper', b3) := push_bitonic_merger f b2 bits ascending upper in
      Ok (lower' ++ upper', b3)
  end.

Fixpoint sorter_inner (fuel : nat) (b : B) (bits : nat) (ascending : bool) (v : list (list W))
  : res (list (list W) * B) :=
  match fuel with
  | O => OutOfFuel
  | S f =>
      if (length v <=? 1)%nat then Ok (v, b) else
      let h := (length v / 2)%nat in
      let* (lower, b1) := sorter_inner f b bits (negb ascending) (firstn h v) in
      let* (upper, b2) := sorter_inner f b1 bits ascending (skipn h v) in
      push_bitonic_merger (S (length v)) b2 bits ascending (lower ++ upper)
  end.

Definition push_bitonic_sorter (b : B) (bits : nat) (v : list (list W)) : res (list (list W) * B) :=
  sorter_inner (S (length v)) b bits true v.
