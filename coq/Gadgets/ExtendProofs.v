(* Casts: zero / sign extension and truncation are exact (every width). *)
From GV Require Import Base.Util Base.NMap Base.Bits Base.BitsProofs
  Builder.Builder Builder.BuilderSem Builder.BuilderSpec Gadgets.Extend.

Lemma bits_to_N_repeat_false_app k v : bits_to_N (repeat false k ++ v) = bits_to_N v.
Proof. rewrite bits_to_N_app, bits_to_N_repeat_false. lia. Qed.

Lemma bits_to_N_repeat_true k : bits_to_N (repeat true k) + 1 = 2 ^ N.of_nat k.
Proof.
  induction k as [|k IH]; [reflexivity|].
  cbn [repeat]. rewrite bits_to_N_cons, lenN_repeat. cbn [N.b2n].
  replace (N.of_nat (S k)) with (1 + N.of_nat k) by lia. rewrite pow2_succ. lia.
Qed.

(* zero extension keeps the unsigned value *)
Theorem zext_correct v bits : bits_to_N (extend_s v false bits) = bits_to_N v.
Proof.
  destruct v as [|m r]; cbn [extend_s].
  - now rewrite bits_to_N_repeat_false.
  - apply bits_to_N_repeat_false_app.
Qed.

(* sign extension keeps the two's-complement value *)
Theorem sext_correct v bits : v <> [] -> bits_to_Z_signed (extend_s v true bits) = bits_to_Z_signed v.
Proof.
  destruct v as [|m r]; [congruence|intros _]. cbn [extend_s].
  remember (bits - length (m :: r))%nat as k eqn:Ek. clear Ek.
  induction k as [|k IH]; [reflexivity|].
  cbn [repeat app]. rewrite <- IH. clear IH.
  destruct m.
  - unfold bits_to_Z_signed at 1. cbn [N.b2n]. rewrite N.mul_1_l.
    destruct k as [|k].
    + cbn [repeat app]. unfold bits_to_Z_signed. rewrite bits_to_N_cons, !lenN_cons, pow2_succ.
      cbn [N.b2n]. lia.
    + cbn [repeat app]. unfold bits_to_Z_signed. rewrite !bits_to_N_cons, !lenN_cons, !pow2_succ.
      cbn [N.b2n]. lia.
  - unfold bits_to_Z_signed at 1. cbn [N.b2n]. rewrite N.mul_0_l.
    destruct k as [|k]; cbn [repeat app]; unfold bits_to_Z_signed; rewrite !bits_to_N_cons;
      cbn [N.b2n]; lia.
Qed.

Lemma extend_s_length v signed bits : (length v <= bits)%nat -> length (extend_s v signed bits) = bits.
Proof.
  intro Hl. destruct v as [|m r]; cbn [extend_s].
  - apply repeat_length.
  - rewrite app_length, repeat_length. lia.
Qed.

(* truncation keeps the value modulo 2^k (Rust's `as` to a narrower type) *)
Theorem truncate_correct (v : list bool) k : (k <= length v)%nat ->
  length (cast_truncate v k) = k /\
  bits_to_N (cast_truncate v k) = bits_to_N v mod 2 ^ N.of_nat k.
Proof.
  intro Hk. unfold cast_truncate.
  assert (length (skipn (length v - k) v) = k) as HL by (rewrite skipn_length; lia).
  split; [exact HL|].
  assert (bits_to_N v = bits_to_N (firstn (length v - k) v) * 2 ^ lenN (skipn (length v - k) v)
                        + bits_to_N (skipn (length v - k) v)) as Hsplit
    by (rewrite <- bits_to_N_app, firstn_skipn; reflexivity).
  rewrite Hsplit. clear Hsplit.
  pose proof (bits_to_N_lt (skipn (length v - k) v)) as Hlt.
  assert (lenN (skipn (length v - k) v) = N.of_nat k) as El by (unfold lenN; now rewrite HL).
  rewrite El in *. pose proof (pow2_pos (N.of_nat k)) as Hp.
  rewrite N.add_comm, N.mod_add by lia. rewrite N.mod_small by lia. reflexivity.
Qed.

Lemma map_repeat {A B} (f : A -> B) a n : map f (repeat a n) = repeat (f a) n.
Proof. induction n as [|n IH]; [reflexivity|]. cbn [repeat map]. now rewrite IH. Qed.

(* the builder level: widening emits no gate; the new wires denote the sign / false *)
Section S.
Variable inv : builder -> Prop.
Hypothesis ops : builder_ops_sound inv.

Theorem extend_to_bits_sound b v signed bits r :
  inv b -> valids b v -> extend_to_bits v signed bits = Ok r ->
  valids b r /\ length r = bits /\
  forall inp, ins_ok b inp -> dens inp b r = extend_s (dens inp b v) signed bits.
Proof.
  intros Hi Hv E. destruct (bs_consts_valid inv ops b Hi) as [V0 _].
  unfold extend_to_bits in E. destruct v as [|m t].
  - injection E as <-. split; [|split].
    + unfold valids. apply Forall_forall. intros w Hw. apply repeat_spec in Hw. now subst.
    + apply repeat_length.
    + intros inp Hok. cbn [dens map extend_s]. unfold dens. rewrite map_repeat. f_equal.
      apply (bs_const0 inv ops b inp Hi Hok).
  - destruct (Nat.eqb_spec (length (m :: t)) bits) as [El|Nl].
    + injection E as <-. split; [exact Hv|]. split; [exact El|].
      intros inp Hok. cbn [dens map extend_s]. fold (dens inp b t).
      assert (bits - length (den inp b m :: dens inp b t) = 0)%nat as Ez.
      { cbn [length] in El |- *. unfold dens. rewrite map_length. lia. }
      rewrite Ez. reflexivity.
    + destruct (Nat.ltb_spec bits (length (m :: t))) as [Hlt|Hge]; [discriminate|].
      injection E as <-. split; [|split].
      * unfold valids. apply Forall_app. split; [|exact Hv].
        apply Forall_forall. intros w Hw. apply repeat_spec in Hw. subst w.
        destruct signed; [|exact V0]. unfold valids in Hv. now inversion Hv.
      * rewrite app_length, repeat_length. cbn [length] in Hge |- *. lia.
      * intros inp Hok. unfold dens. rewrite map_app, map_repeat. cbn [map extend_s length].
        rewrite map_length. f_equal. f_equal.
        destruct signed; [reflexivity|]. apply (bs_const0 inv ops b inp Hi Hok).
Qed.

(* compile.rs always asks for at least the current width: no Crash *)
Lemma extend_to_bits_total v signed bits :
  (length v <= bits)%nat -> exists r, extend_to_bits v signed bits = Ok r.
Proof.
  intro Hl. unfold extend_to_bits. destruct v as [|m t]; [eauto|].
  destruct (Nat.eqb_spec (length (m :: t)) bits); [eauto|].
  destruct (Nat.ltb_spec bits (length (m :: t))); [lia|eauto].
Qed.

(* cast to a wider type, composed *)
Theorem cast_widen_correct b v signed bits :
  inv b -> valids b v -> (length v <= bits)%nat ->
  exists r, extend_to_bits v signed bits = Ok r /\ valids b r /\ length r = bits /\
    forall inp, ins_ok b inp ->
      (signed = false -> bits_to_N (dens inp b r) = bits_to_N (dens inp b v)) /\
      (signed = true -> v <> [] ->
       bits_to_Z_signed (dens inp b r) = bits_to_Z_signed (dens inp b v)).
Proof.
  intros Hi Hv Hl. destruct (extend_to_bits_total v signed bits Hl) as [r E].
  destruct (extend_to_bits_sound b v signed bits r Hi Hv E) as (Vr & Lr & Hd).
  exists r. repeat (split; [assumption|]).
  intros inp Hok. rewrite (Hd inp Hok). split.
  - intros ->. apply zext_correct.
  - intros -> Hne. apply sext_correct. destruct v; [congruence|discriminate].
Qed.

End S.
