(* What a panic record MEANS for a fixed input assignment (definitions only):
   [obs] = the observable content of a record (None, or the preason number and location),
   the invariant [pstate_ok] of a record with its set of cached conditions, and the
   reference semantics [psem] of the usage protocol (first failing push on the executed
   path wins; branches not taken are silent). *)
From GV Require Import Base.Util Base.NMap Builder.Builder Builder.BuilderSem Panic.PanicRec.

Definition field_val (inp : list bool) (b : builder) (ws : list N) : N := bits_val (dens inp b ws).

Definition rec_type (inp : list bool) (b : builder) (R : prec) : N := field_val inp b (pr_type R).

Definition rec_loc (inp : list bool) (b : builder) (R : prec) : ploc :=
  mkPLoc (field_val inp b (pr_sl R)) (field_val inp b (pr_sc R))
         (field_val inp b (pr_el R)) (field_val inp b (pr_ec R)).

(* the bits of a record, field by field *)
Definition prec_den (inp : list bool) (b : builder) (R : prec)
  : bool * list bool * list bool * list bool * list bool * list bool :=
  (den inp b (pr_flag R), dens inp b (pr_type R), dens inp b (pr_sl R), dens inp b (pr_sc R),
   dens inp b (pr_el R), dens inp b (pr_ec R)).

(* decoded (flag; if set: reason number, location) *)
Definition obs (inp : list bool) (b : builder) (R : prec) : option (N * ploc) :=
  if den inp b (pr_flag R) then Some (rec_type inp b R, rec_loc inp b R) else None.

(* the 161 output bits of a record *)
Definition rec_bits (inp : list bool) (b : builder) (R : prec) : list bool := dens inp b (prec_wires R).

(* unsigned_as_usize_bits keeps the low 32 bits of each coordinate *)
Definition ploc32 (m : ploc) : ploc :=
  mkPLoc (pl_sl m mod 2 ^ 32) (pl_sc m mod 2 ^ 32) (pl_el m mod 2 ^ 32) (pl_ec m mod 2 ^ 32).

(* the law of push_panic_if on observations: first failure wins *)
Definition push_spec (o : option (N * ploc)) (c : bool) (r : preason) (m : ploc) : option (N * ploc) :=
  match o with
  | Some x => Some x
  | None => if c then Some (preason_num r, ploc32 m) else None
  end.

Definition prec_wf (R : prec) : Prop :=
  length (pr_type R) = USIZE_BITS /\ length (pr_sl R) = USIZE_BITS /\ length (pr_sc R) = USIZE_BITS /\
  length (pr_el R) = USIZE_BITS /\ length (pr_ec R) = USIZE_BITS.

Definition prec_valid (b : builder) (R : prec) : Prop :=
  valid b (pr_flag R) /\ valids b (pr_type R) /\ valids b (pr_sl R) /\ valids b (pr_sc R) /\
  valids b (pr_el R) /\ valids b (pr_ec R).

(* the panic_type field always decodes to a valid reason number, flag set or not *)
Definition type_ok (inp : list bool) (b : builder) (R : prec) : Prop :=
  1 <= rec_type inp b R <= 3.

(* every cached condition implies the flag: what makes a cache hit a no-op *)
Definition cache_inv (inp : list bool) (b : builder) (P : pstate) : Prop :=
  forall k, nmem k (ps_cache P) = true -> den inp b k = true -> den inp b (pr_flag (ps_rec P)) = true.

Definition pstate_ok (b : builder) (P : pstate) : Prop :=
  prec_wf (ps_rec P) /\ prec_valid b (ps_rec P) /\
  (forall k, nmem k (ps_cache P) = true -> valid b k) /\
  forall inp, ins_ok b inp -> type_ok inp b (ps_rec P) /\ cache_inv inp b P.

(* Reference semantics of the protocol, on observations: [dn] gives the truth value of the
   condition wires on the input under consideration. *)
Fixpoint psem (dn : N -> bool) (code : pcode) (o : option (N * ploc)) : option (N * ploc) :=
  match code with
  | PSkip => o
  | PPush c r m => push_spec o (dn c) r m
  | PSeq x y => psem dn y (psem dn x o)
  | PIf c t f => if dn c then psem dn t o else psem dn f o
  end.

(* the result EvalPanic::parse must give for a record followed by [rest] *)
Definition parse_spec (o : option (N * ploc)) (rest : list bool) : res (list bool + preason * ploc) :=
  match o with
  | None => Ok (inl rest)
  | Some (n, m) => let* r := preason_from_num n in Ok (inr (r, m))
  end.
