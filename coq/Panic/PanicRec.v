(* Model of the panic record of CircuitBuilder (src/circuit.rs):
     PanicResult / CachedPanicResult / PanicReason, PanicResult::ok, unsigned_as_usize_bits,
     push_panic_if, peek_panic / replace_panic_with (states are plain values here),
     mux_uncached_panic, mux_panic, EvalPanic::parse (+ PanicReason::from_num, wires_as_unsigned).

   Two variants are modelled:
   * the REPAIRED code (/repo commit c5c1727): a cache hit returns without touching the
     record; mux_panic keeps the conditions cached in BOTH branches and emits no gate for the
     cache.  The Rust cache is still a HashMap<usize, PanicResult>, but its values are never
     read any more, so it is modelled as a SET of condition wires.  [push_panic_if], [mux_panic].
   * the code as found ([_old]): the cache maps a condition wire to the record as it was
     right after that condition was pushed; a hit REPLACES the record by the cached one;
     mux_panic walks `cache_t.keys().chain(cache_f.keys())` -- HashMap iteration order --
     and emits mux gates per common key.  The iteration order is the explicit argument
     [keys] (the same model serves C06).  Used only for the `_refuted` witnesses.

   A record is 1 flag wire + 5 fields of 32 wires, most significant bit first; the Rust
   arrays have the fixed length 32 and are indexed, which the model mirrors with [nth]. *)
From Coq Require Import FMapPositive.
From GV Require Import Base.Util Base.NMap Builder.Builder.

Definition USIZE_BITS : nat := 32.

(* ------------------------------------------------------------------ PanicReason, MetaInfo *)

Inductive preason := Overflow | DivByZero | OutOfBounds.

Definition preason_num (r : preason) : N :=
  match r with Overflow => 1 | DivByZero => 2 | OutOfBounds => 3 end.

(* PanicReason::from_num: `r => panic!("Invalid panic reason: {r}")` *)
Definition preason_from_num (n : N) : res preason :=
  if n =? 1 then Ok Overflow else
  if n =? 2 then Ok DivByZero else
  if n =? 3 then Ok OutOfBounds else Crash.

(* MetaInfo { start: (line, column), end: (line, column) } *)
Record ploc := mkPLoc { pl_sl : N; pl_sc : N; pl_el : N; pl_ec : N }.

(* unsigned_as_usize_bits: bits[i] = (n >> (31 - i)) & 1, as the constant wires 0 / 1 *)
Definition usize_bits (n : N) : list N :=
  map (fun i => if N.testbit n (N.of_nat (USIZE_BITS - 1 - i)) then 1 else 0) (seq 0 USIZE_BITS).

(* ------------------------------------------------------------------ PanicResult *)

Record prec := mkPrec {
  pr_flag : N;            (* has_panicked *)
  pr_type : list N;       (* panic_type *)
  pr_sl : list N;         (* start_line *)
  pr_sc : list N;         (* start_column *)
  pr_el : list N;         (* end_line *)
  pr_ec : list N          (* end_column *)
}.

(* the 161 wires in output order (build: has_panicked, panic_type, start_line, start_column,
   end_line, end_column) *)
Definition prec_wires (p : prec) : list N :=
  pr_flag p :: pr_type p ++ pr_sl p ++ pr_sc p ++ pr_el p ++ pr_ec p.

(* PanicResult::ok() *)
Definition panic_ok : prec :=
  mkPrec 0 (usize_bits (preason_num Overflow))
    (repeat 0 USIZE_BITS) (repeat 0 USIZE_BITS) (repeat 0 USIZE_BITS) (repeat 0 USIZE_BITS).

(* ------------------------------------------------------------------ mux helpers *)

(* push_mux for every pair, in order *)
Fixpoint mux_seq (b : builder) (s : N) (pairs : list (N * N)) : res (list N * builder) :=
  match pairs with
  | [] => Ok ([], b)
  | (x0, x1) :: r =>
      let* (w, b1) := push_mux b s x0 x1 in
      let* (ws, b2) := mux_seq b1 s r in
      Ok (w :: ws, b2)
  end.

(* rows of pairs, row by row *)
Fixpoint mux_rows (b : builder) (s : N) (rows : list (list (N * N))) : res (list (list N) * builder) :=
  match rows with
  | [] => Ok ([], b)
  | row :: r =>
      let* (ws, b1) := mux_seq b s row in
      let* (wss, b2) := mux_rows b1 s r in
      Ok (ws :: wss, b2)
  end.

Definition col (k : nat) (rows : list (list N)) : list N := map (fun r => nth k r 0) rows.

(* the pairs (xs[i], ys[i]) for i in 0..32 *)
Definition pairs32 (xs ys : list N) : list (N * N) :=
  map (fun i => (nth i xs 0, nth i ys 0)) (seq 0 USIZE_BITS).

(* one 32-wire field: result[i] = push_mux(s, xs[i], ys[i]) *)
Definition mux_field (b : builder) (s : N) (xs ys : list N) : res (list N * builder) :=
  mux_seq b s (pairs32 xs ys).

(* mux_uncached_panic: flag, then the fields panic_type, start_line, start_column, end_line,
   end_column one after the other, each for i in 0..32 *)
Definition mux_uncached_panic (b : builder) (c : N) (t f : prec) : res (prec * builder) :=
  let* (fl, b1) := push_mux b c (pr_flag t) (pr_flag f) in
  let* (rs, b2) := mux_rows b1 c [ pairs32 (pr_type t) (pr_type f); pairs32 (pr_sl t) (pr_sl f);
                                   pairs32 (pr_sc t) (pr_sc f); pairs32 (pr_el t) (pr_el f);
                                   pairs32 (pr_ec t) (pr_ec f) ] in
  Ok (mkPrec fl (nth 0 rs []) (nth 1 rs []) (nth 2 rs []) (nth 3 rs []) (nth 4 rs []), b2).

(* The gate-emitting part of push_panic_if (after the cache lookup):
     has_panicked = push_or(has_panicked, cond);
     for i in 0..32 { start_line[i]; start_column[i]; end_line[i]; end_column[i] }  (interleaved)
     for i in 0..32 { panic_type[i] }
   every mux selects the OLD wire when the record had already panicked. *)
Definition push_record (b : builder) (p : prec) (cond : N) (r : preason) (m : ploc)
  : res (prec * builder) :=
  let already := pr_flag p in
  let* (fl, b1) := push_or b already cond in
  let csl := usize_bits (pl_sl m) in
  let csc := usize_bits (pl_sc m) in
  let cel := usize_bits (pl_el m) in
  let cec := usize_bits (pl_ec m) in
  let rows := map (fun i => [ (nth i (pr_sl p) 0, nth i csl 0); (nth i (pr_sc p) 0, nth i csc 0);
                              (nth i (pr_el p) 0, nth i cel 0); (nth i (pr_ec p) 0, nth i cec 0) ])
                  (seq 0 USIZE_BITS) in
  let* (rs, b2) := mux_rows b1 already rows in
  let* (ty, b3) := mux_field b2 already (pr_type p) (usize_bits (preason_num r)) in
  Ok (mkPrec fl ty (col 0 rs) (col 1 rs) (col 2 rs) (col 3 rs), b3).

(* ------------------------------------------------------------------ repaired code *)

(* sets of condition wires *)
Definition nset := nmap unit.
Definition nmem (k : N) (s : nset) : bool :=
  match nfind k s with Some _ => true | None => false end.
Definition both (a b : option unit) : option unit :=
  match a, b with Some _, Some _ => Some tt | _, _ => None end.
Definition ninter (s1 s2 : nset) : nset := PositiveMap._map2 both s1 s2.
Definition nset_keys (s : nset) : list N :=
  map (fun kv => Pos.pred_N (fst kv)) (PositiveMap.elements s).

(* CachedPanicResult { result, cache }: only the key set of the cache matters *)
Record pstate := mkPState { ps_rec : prec; ps_cache : nset }.

Definition pstate_new : pstate := mkPState panic_ok nempty.

Definition push_panic_if (b : builder) (P : pstate) (cond : N) (r : preason) (m : ploc)
  : res (pstate * builder) :=
  if nmem cond (ps_cache P) then Ok (P, b) else
  let* (p', b') := push_record b (ps_rec P) cond r m in
  Ok (mkPState p' (nadd cond tt (ps_cache P)), b').

(* no iteration order any more: the cache of the result is a pure function of the two caches *)
Definition mux_panic (b : builder) (c : N) (T F : pstate) : res (pstate * builder) :=
  let* (p, b') := mux_uncached_panic b c (ps_rec T) (ps_rec F) in
  Ok (mkPState p (ninter (ps_cache T) (ps_cache F)), b').

(* The one hash-map iteration that is left in the repaired mux_panic:
     for (k, t) in cache_t.iter() { if cache_f.contains_key(k) { cache.insert(k, t.clone());  } }
   walks cache_t in its (arbitrary) iteration order [keys] and inserts the keys also present
   in cache_f into a fresh map.  No gate is emitted; PanicProofs.mux_panic_order_irrelevant
   shows [keys] does not matter. *)
Definition inter_by (keys : list N) (cf : nset) : nset :=
  fold_left (fun acc k => if nmem k cf then nadd k tt acc else acc) keys nempty.

Definition mux_panic_keys (keys : list N) (b : builder) (c : N) (T F : pstate) : res (pstate * builder) :=
  let* (p, b') := mux_uncached_panic b c (ps_rec T) (ps_rec F) in
  Ok (mkPState p (inter_by keys (ps_cache F)), b').

(* ------------------------------------------------------------------ code as found *)

Record pstate_old := mkPStateOld { po_rec : prec; po_cache : nmap prec }.

Definition pstate_old_new : pstate_old := mkPStateOld panic_ok nempty.

Definition push_panic_if_old (b : builder) (P : pstate_old) (cond : N) (r : preason) (m : ploc)
  : res (pstate_old * builder) :=
  match nfind cond (po_cache P) with
  | Some existing => Ok (mkPStateOld existing (po_cache P), b)
  | None =>
      let* (p', b') := push_record b (po_rec P) cond r m in
      Ok (mkPStateOld p' (nadd cond p' (po_cache P)), b')
  end.

(* the loop `for k in cache_t.keys().chain(cache_f.keys())`; [keys] is that chain *)
Fixpoint mux_cache_old (b : builder) (c : N) (ct cf : nmap prec) (keys : list N) (acc : nmap prec)
  : res (nmap prec * builder) :=
  match keys with
  | [] => Ok (acc, b)
  | k :: r =>
      match nfind k ct, nfind k cf with
      | None, None => mux_cache_old b c ct cf r acc
      | None, Some e | Some e, None => mux_cache_old b c ct cf r (nadd k e acc)
      | Some t, Some f =>
          let* (e, b1) := mux_uncached_panic b c t f in
          mux_cache_old b1 c ct cf r (nadd k e acc)
      end
  end.

Definition mux_panic_old (keys : list N) (b : builder) (c : N) (T F : pstate_old)
  : res (pstate_old * builder) :=
  let* (p, b1) := mux_uncached_panic b c (po_rec T) (po_rec F) in
  let* (cache, b2) := mux_cache_old b1 c (po_cache T) (po_cache F) keys nempty in
  Ok (mkPStateOld p cache, b2).

(* ------------------------------------------------------------------ EvalPanic::parse *)

(* wires_as_unsigned: n += bit << (len - 1 - i) *)
Fixpoint bits_val (l : list bool) : N :=
  match l with
  | [] => 0
  | x :: r => (if x then 2 ^ lenN r else 0) + bits_val r
  end.

(* bits[from..from+32]; the callers have checked the length *)
Definition field_at (bits : list bool) (k : nat) : list bool :=
  firstn USIZE_BITS (skipn (1 + k * USIZE_BITS) bits).

(* Ok (inl rest): no panic, [rest] = the bits after the record; Ok (inr (reason, location));
   Crash: slice index out of range (fewer than 161 bits) or PanicReason::from_num's panic!
   (evaluated BEFORE the flag is looked at). *)
Definition parse_panic (bits : list bool) : res (list bool + preason * ploc) :=
  if (length bits <? 1 + 5 * USIZE_BITS)%nat then Crash else
  let has_panicked := hd false bits in
  let* r := preason_from_num (bits_val (field_at bits 0)) in
  if has_panicked then
    Ok (inr (r, mkPLoc (bits_val (field_at bits 1)) (bits_val (field_at bits 2))
                      (bits_val (field_at bits 3)) (bits_val (field_at bits 4))))
  else Ok (inl (skipn (1 + 5 * USIZE_BITS) bits)).

(* ------------------------------------------------------------------ usage protocol *)

(* The way compile.rs drives the record (If, Match arms, && / ||, JoinLoop): both branches
   start from the state saved before the conditional (peek_panic().clone() /
   replace_panic_with), then the two resulting states are merged with mux_panic and installed.
   Conditions are wires of the builder. *)
Inductive pcode :=
| PSkip
| PPush (cond : N) (r : preason) (m : ploc)
| PSeq (a b : pcode)
| PIf (c : N) (t f : pcode).

Fixpoint run_pcode (b : builder) (P : pstate) (code : pcode) : res (pstate * builder) :=
  match code with
  | PSkip => Ok (P, b)
  | PPush c r m => push_panic_if b P c r m
  | PSeq x y => let* (P1, b1) := run_pcode b P x in run_pcode b1 P1 y
  | PIf c t f =>
      let* (PT, b1) := run_pcode b P t in
      let* (PF, b2) := run_pcode b1 P f in
      mux_panic b2 c PT PF
  end.

Fixpoint pcode_conds (code : pcode) : list N :=
  match code with
  | PSkip => []
  | PPush c _ _ => [c]
  | PSeq x y => pcode_conds x ++ pcode_conds y
  | PIf c t f => c :: pcode_conds t ++ pcode_conds f
  end.
