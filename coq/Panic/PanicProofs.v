(* Proofs about the panic record: the algebra of observations (push / mux), validity of the
   reason field, the cache invariant, stickiness, the protocol semantics, EvalPanic::parse. *)
From Coq Require Import FMapPositive.
From GV Require Import Base.Util Base.NMap Builder.Builder Builder.BuilderSem Builder.BuilderSpec
  Panic.PanicRec Panic.PanicSem.

(* ------------------------------------------------------------------ lists *)

Lemma map_nth_seq {A} (l : list A) (d : A) :
  map (fun i => nth i l d) (seq 0 (length l)) = l.
Proof.
  induction l as [|a l IH]; [reflexivity|].
  cbn [length seq map nth]. f_equal.
  rewrite <- seq_shift, map_map. exact IH.
Qed.

Lemma firstn_app_exact {A} (a b : list A) n : length a = n -> firstn n (a ++ b) = a.
Proof.
  intros <-. rewrite firstn_app, Nat.sub_diag, firstn_all. cbn [firstn]. apply app_nil_r.
Qed.

Lemma skipn_app_exact {A} (a b : list A) n : length a = n -> skipn n (a ++ b) = b.
Proof.
  intros <-. rewrite skipn_app, Nat.sub_diag, skipn_all. reflexivity.
Qed.

Lemma skipn_add_app {A} (a b : list A) n k : length a = n -> skipn (n + k) (a ++ b) = skipn k b.
Proof.
  intros <-. revert k. induction a as [|x a IH]; intro k; [reflexivity|].
  cbn [length Nat.add app skipn]. apply IH.
Qed.

(* ------------------------------------------------------------------ bits *)

Lemma bits_val_lt (l : list bool) : bits_val l < 2 ^ lenN l.
Proof.
  induction l as [|x l IH]; cbn [bits_val]; [reflexivity|].
  rewrite lenN_cons, N.add_1_l, N.pow_succ_r'. destruct x; lia.
Qed.

Definition tbits (n : N) (k : nat) : list bool :=
  map (fun i => N.testbit n (N.of_nat (k - 1 - i))) (seq 0 k).

Lemma tbits_S n k : tbits n (S k) = N.testbit n (N.of_nat k) :: tbits n k.
Proof.
  unfold tbits. cbn [seq map]. f_equal; [f_equal; lia|].
  rewrite <- seq_shift, map_map. apply map_ext. intro i. f_equal. lia.
Qed.

Lemma tbits_length n k : length (tbits n k) = k.
Proof. unfold tbits. now rewrite map_length, seq_length. Qed.

Lemma bits_val_tbits n k : bits_val (tbits n k) = n mod 2 ^ N.of_nat k.
Proof.
  induction k as [|k IH].
  - cbn. now rewrite N.mod_1_r.
  - rewrite tbits_S. cbn [bits_val]. rewrite IH. unfold lenN. rewrite tbits_length.
    rewrite Nat2N.inj_succ, N.pow_succ_r'.
    set (K := N.of_nat k).
    assert (P : 2 ^ K <> 0) by (apply N.pow_nonzero; lia).
    rewrite (N.mul_comm 2), N.mod_mul_r by lia.
    rewrite <- N.bit0_mod, <- N.shiftr_div_pow2, N.shiftr_spec', N.add_0_l.
    destruct (N.testbit n K); cbn [N.b2n]; lia.
Qed.

(* ------------------------------------------------------------------ builder clients *)

Section S.
Variable inv : builder -> Prop.
Hypothesis ops : builder_ops_sound inv.

Definition pair_valid (b : builder) (p : N * N) : Prop := valid b (fst p) /\ valid b (snd p).
Definition pair_den (inp : list bool) (b : builder) (s : N) (p : N * N) : bool :=
  if den inp b s then den inp b (fst p) else den inp b (snd p).

Lemma pair_valid_ext b b' p : ext b b' -> pair_valid b p -> pair_valid b' p.
Proof. intros X [H1 H2]. split; eapply ext_valid; eauto. Qed.

Lemma pair_den_ext b b' inp s p :
  ext b b' -> ins_ok b inp -> valid b s -> pair_valid b p -> pair_den inp b' s p = pair_den inp b s p.
Proof.
  intros X Hi Hs [H1 H2]. unfold pair_den.
  now rewrite !(ext_den _ _ _ _ X Hi) by assumption.
Qed.

Lemma mux_seq_sound : forall pairs b s,
  inv b -> valid b s -> Forall (pair_valid b) pairs ->
  exists rs b', mux_seq b s pairs = Ok (rs, b') /\ inv b' /\ ext b b' /\ valids b' rs /\
    length rs = length pairs /\
    forall inp, ins_ok b inp -> dens inp b' rs = map (pair_den inp b s) pairs.
Proof.
  induction pairs as [|[x0 x1] r IH]; intros b s Hinv Hs Hv.
  - exists [], b. cbn [mux_seq]. split; [reflexivity|]. split; [exact Hinv|]. split; [apply ext_refl|].
    split; [constructor|]. split; [reflexivity|]. intros inp _. reflexivity.
  - inversion Hv as [|p l Hp Hr]; subst. destruct Hp as [Hx0 Hx1]. cbn [fst snd] in Hx0, Hx1.
    destruct (bs_mux _ ops b s x0 x1 Hinv Hs Hx0 Hx1) as (w & b1 & E1 & I1 & X1 & V1 & D1).
    assert (Hr1 : Forall (pair_valid b1) r).
    { eapply Forall_impl; [|exact Hr]. intros p. now apply pair_valid_ext. }
    destruct (IH b1 s I1 (ext_valid _ _ _ X1 Hs) Hr1) as (ws & b2 & E2 & I2 & X2 & V2 & L2 & D2).
    exists (w :: ws), b2. cbn [mux_seq]. rewrite E1. cbn [bind]. rewrite E2. cbn [bind].
    split; [reflexivity|]. split; [exact I2|]. split; [eapply ext_trans; eauto|].
    split; [constructor; [eapply ext_valid; eauto|exact V2]|].
    split; [cbn [length]; lia|].
    intros inp Hi. unfold dens in *. cbn [map]. f_equal.
    + rewrite (ext_den _ _ _ _ X2 (ext_ins_ok _ _ _ X1 Hi) V1). rewrite (D1 inp Hi). reflexivity.
    + rewrite (D2 inp (ext_ins_ok _ _ _ X1 Hi)). apply map_ext_in. intros p Hin.
      apply pair_den_ext; auto. rewrite Forall_forall in Hr. now apply Hr.
Qed.

Lemma mux_rows_sound : forall rows b s,
  inv b -> valid b s -> Forall (Forall (pair_valid b)) rows ->
  exists rss b', mux_rows b s rows = Ok (rss, b') /\ inv b' /\ ext b b' /\ Forall (valids b') rss /\
    length rss = length rows /\
    forall inp, ins_ok b inp -> map (dens inp b') rss = map (map (pair_den inp b s)) rows.
Proof.
  induction rows as [|row r IH]; intros b s Hinv Hs Hv.
  - exists [], b. cbn [mux_rows]. split; [reflexivity|]. split; [exact Hinv|]. split; [apply ext_refl|].
    split; [constructor|]. split; [reflexivity|]. intros inp _. reflexivity.
  - inversion Hv as [|p l Hp Hr]; subst.
    destruct (mux_seq_sound row b s Hinv Hs Hp) as (ws & b1 & E1 & I1 & X1 & V1 & L1 & D1).
    assert (Hr1 : Forall (Forall (pair_valid b1)) r).
    { eapply Forall_impl; [|exact Hr]. intros ps Hps. eapply Forall_impl; [|exact Hps].
      intros p. now apply pair_valid_ext. }
    destruct (IH b1 s I1 (ext_valid _ _ _ X1 Hs) Hr1) as (wss & b2 & E2 & I2 & X2 & V2 & L2 & D2).
    exists (ws :: wss), b2. cbn [mux_rows]. rewrite E1. cbn [bind]. rewrite E2. cbn [bind].
    split; [reflexivity|]. split; [exact I2|]. split; [eapply ext_trans; eauto|].
    split; [constructor; [eapply ext_valids; eauto|exact V2]|].
    split; [cbn [length]; lia|].
    intros inp Hi. cbn [map]. f_equal.
    + rewrite (ext_dens _ _ _ _ X2 (ext_ins_ok _ _ _ X1 Hi) V1). apply (D1 inp Hi).
    + rewrite (D2 inp (ext_ins_ok _ _ _ X1 Hi)). apply map_ext_in. intros ps Hin.
      apply map_ext_in. intros p Hp2. apply pair_den_ext; auto.
      rewrite Forall_forall in Hr. specialize (Hr ps Hin). rewrite Forall_forall in Hr. now apply Hr.
Qed.

Lemma valid_nth b (l : list N) i : inv b -> valids b l -> valid b (nth i l 0).
Proof.
  intros Hinv Hl. destruct (Nat.lt_ge_cases i (length l)) as [H|H].
  - unfold valids in Hl. rewrite Forall_forall in Hl. apply Hl. now apply nth_In.
  - rewrite nth_overflow by assumption. apply (bs_consts_valid _ ops b Hinv).
Qed.

(* value of a 32-wire field under a mux *)
Lemma mux_field_sound b s xs ys :
  inv b -> valid b s -> valids b xs -> valids b ys ->
  length xs = USIZE_BITS -> length ys = USIZE_BITS ->
  exists rs b', mux_field b s xs ys = Ok (rs, b') /\ inv b' /\ ext b b' /\ valids b' rs /\
    length rs = USIZE_BITS /\
    forall inp, ins_ok b inp ->
      dens inp b' rs = if den inp b s then dens inp b xs else dens inp b ys.
Proof.
  intros Hinv Hs Hx Hy Lx Ly. unfold mux_field.
  destruct (mux_seq_sound (pairs32 xs ys) b s Hinv Hs) as (rs & b' & E & I & X & V & L & D).
  { unfold pairs32. apply Forall_forall. intros p Hin. apply in_map_iff in Hin.
    destruct Hin as (i & <- & _). split; cbn [fst snd]; now apply valid_nth. }
  exists rs, b'. split; [exact E|]. split; [exact I|]. split; [exact X|]. split; [exact V|]. split.
  - rewrite L. unfold pairs32. now rewrite map_length, seq_length.
  - intros inp Hi. rewrite (D inp Hi). unfold pairs32. rewrite map_map. unfold pair_den. cbn [fst snd].
    destruct (den inp b s).
    + unfold dens. transitivity (map (den inp b) (map (fun i => nth i xs 0) (seq 0 USIZE_BITS))).
      * now rewrite map_map.
      * f_equal. rewrite <- Lx. apply map_nth_seq.
    + unfold dens. transitivity (map (den inp b) (map (fun i => nth i ys 0) (seq 0 USIZE_BITS))).
      * now rewrite map_map.
      * f_equal. rewrite <- Ly. apply map_nth_seq.
Qed.

Lemma pairs32_valid b xs ys : inv b -> valids b xs -> valids b ys -> Forall (pair_valid b) (pairs32 xs ys).
Proof.
  intros Hinv Hx Hy. unfold pairs32. apply Forall_forall. intros p Hin. apply in_map_iff in Hin.
  destruct Hin as (i & <- & _). split; cbn [fst snd]; now apply valid_nth.
Qed.

Lemma pairs32_den inp b s xs ys :
  length xs = USIZE_BITS -> length ys = USIZE_BITS ->
  map (pair_den inp b s) (pairs32 xs ys) = if den inp b s then dens inp b xs else dens inp b ys.
Proof.
  intros Lx Ly. unfold pairs32. rewrite map_map. unfold pair_den. cbn [fst snd].
  destruct (den inp b s).
  - unfold dens. transitivity (map (den inp b) (map (fun i => nth i xs 0) (seq 0 USIZE_BITS))).
    + now rewrite map_map.
    + f_equal. rewrite <- Lx. apply map_nth_seq.
  - unfold dens. transitivity (map (den inp b) (map (fun i => nth i ys 0) (seq 0 USIZE_BITS))).
    + now rewrite map_map.
    + f_equal. rewrite <- Ly. apply map_nth_seq.
Qed.

Lemma pairs32_length xs ys : length (pairs32 xs ys) = USIZE_BITS.
Proof. unfold pairs32. now rewrite map_length, seq_length. Qed.

Definition sel {A} (c : bool) (x y : A) : A := if c then x else y.

Lemma mux_uncached_sound b c T F :
  inv b -> valid b c -> prec_wf T -> prec_wf F -> prec_valid b T -> prec_valid b F ->
  exists R b', mux_uncached_panic b c T F = Ok (R, b') /\ inv b' /\ ext b b' /\
    prec_wf R /\ prec_valid b' R /\
    forall inp, ins_ok b inp ->
      prec_den inp b' R = sel (den inp b c) (prec_den inp b T) (prec_den inp b F).
Proof.
  intros Hinv Hc (LT1 & LT2 & LT3 & LT4 & LT5) (LF1 & LF2 & LF3 & LF4 & LF5)
         (VT0 & VT1 & VT2 & VT3 & VT4 & VT5) (VF0 & VF1 & VF2 & VF3 & VF4 & VF5).
  unfold mux_uncached_panic.
  destruct (bs_mux _ ops b c _ _ Hinv Hc VT0 VF0) as (fl & b1 & E1 & I1 & X1 & V1 & D1).
  rewrite E1. cbn [bind].
  set (rows := [pairs32 (pr_type T) (pr_type F); pairs32 (pr_sl T) (pr_sl F); pairs32 (pr_sc T) (pr_sc F);
                pairs32 (pr_el T) (pr_el F); pairs32 (pr_ec T) (pr_ec F)]).
  assert (Hrows : Forall (Forall (pair_valid b1)) rows).
  { subst rows.
    repeat (apply Forall_cons; [apply pairs32_valid; [exact I1|eapply ext_valids; eauto|eapply ext_valids; eauto]|]).
    apply Forall_nil. }
  destruct (mux_rows_sound rows b1 c I1 (ext_valid _ _ _ X1 Hc) Hrows)
    as (rss & b2 & E2 & I2 & X2 & V2 & L2 & D2).
  rewrite E2. cbn [bind].
  destruct rss as [|r0 [|r1 [|r2 [|r3 [|r4 [|r5 rss]]]]]]; try discriminate L2.
  cbn [nth].
  eexists _, b2. split; [reflexivity|]. split; [exact I2|]. split; [eapply ext_trans; eauto|].
  inversion V2 as [|? ? W0 V2a]; subst. inversion V2a as [|? ? W1 V2b]; subst.
  inversion V2b as [|? ? W2 V2c]; subst. inversion V2c as [|? ? W3 V2d]; subst.
  inversion V2d as [|? ? W4 _]; subst.
  assert (Hlen : forall inp, ins_ok b inp ->
     dens inp b2 r0 = sel (den inp b c) (dens inp b (pr_type T)) (dens inp b (pr_type F)) /\
     dens inp b2 r1 = sel (den inp b c) (dens inp b (pr_sl T)) (dens inp b (pr_sl F)) /\
     dens inp b2 r2 = sel (den inp b c) (dens inp b (pr_sc T)) (dens inp b (pr_sc F)) /\
     dens inp b2 r3 = sel (den inp b c) (dens inp b (pr_el T)) (dens inp b (pr_el F)) /\
     dens inp b2 r4 = sel (den inp b c) (dens inp b (pr_ec T)) (dens inp b (pr_ec F))).
  { intros inp Hi. pose proof (ext_ins_ok _ _ _ X1 Hi) as Hi1.
    specialize (D2 inp Hi1). subst rows. cbn [map] in D2.
    rewrite !pairs32_den in D2 by assumption.
    rewrite (ext_den _ _ _ _ X1 Hi Hc) in D2.
    rewrite !(ext_dens _ _ _ _ X1 Hi) in D2 by assumption.
    injection D2 as -> -> -> -> ->. unfold sel. destruct (den inp b c); repeat split; reflexivity. }
  split.
  { (* lengths: from the denotation on any input?  no: from the structure *)
    unfold prec_wf. cbn [pr_type pr_sl pr_sc pr_el pr_ec].
    clear Hlen D2.
    assert (HL : map (@length N) [r0; r1; r2; r3; r4] = map (@length (N * N)) rows).
    { (* lengths are preserved by mux_rows *)
      revert E2. clear. revert b1 b2. generalize rows. generalize [r0; r1; r2; r3; r4].
      assert (Hseq : forall ps b s rs b', mux_seq b s ps = Ok (rs, b') -> length rs = length ps).
      { induction ps as [|[x0 x1] ps IH]; intros b s rs b' H; cbn [mux_seq] in H.
        - now inversion H.
        - destruct (push_mux b s x0 x1) as [[w b1]| |]; cbn [bind] in H; try discriminate.
          destruct (mux_seq b1 s ps) as [[ws b2]| |] eqn:E; cbn [bind] in H; try discriminate.
          inversion H; subst. cbn [length]. f_equal. eapply IH; eauto. }
      intros l rws. revert l. induction rws as [|row rws IH]; intros l b1 b2 H; cbn [mux_rows] in H.
      - now inversion H.
      - destruct (mux_seq b1 c row) as [[ws b3]| |] eqn:E1; cbn [bind] in H; try discriminate.
        destruct (mux_rows b3 c rws) as [[wss b4]| |] eqn:E2; cbn [bind] in H; try discriminate.
        inversion H; subst. cbn [map]. f_equal; [eapply Hseq; eauto|eapply IH; eauto]. }
    subst rows. cbn [map] in HL. rewrite !pairs32_length in HL.
    injection HL as -> -> -> -> ->. repeat split; reflexivity. }
  split.
  { unfold prec_valid. cbn [pr_flag pr_type pr_sl pr_sc pr_el pr_ec].
    split; [eapply ext_valid; eauto|]. repeat split; assumption. }
  intros inp Hi. destruct (Hlen inp Hi) as (H0 & H1 & H2 & H3 & H4).
  unfold prec_den. cbn [pr_flag pr_type pr_sl pr_sc pr_el pr_ec].
  rewrite H0, H1, H2, H3, H4.
  rewrite (ext_den _ _ _ _ X2 (ext_ins_ok _ _ _ X1 Hi) V1), (D1 inp Hi).
  unfold sel. destruct (den inp b c); reflexivity.
Qed.

(* ------------------------------------------------------------------ constants *)

Lemma usize_bits_length n : length (usize_bits n) = USIZE_BITS.
Proof. unfold usize_bits. now rewrite map_length, seq_length. Qed.

Lemma usize_bits_valid b n : inv b -> valids b (usize_bits n).
Proof.
  intro Hinv. unfold usize_bits, valids. apply Forall_forall. intros w Hin.
  apply in_map_iff in Hin. destruct Hin as (i & <- & _).
  destruct (bs_consts_valid _ ops b Hinv). now destruct (N.testbit _ _).
Qed.

Lemma usize_bits_dens b inp n : inv b -> ins_ok b inp -> dens inp b (usize_bits n) = tbits n USIZE_BITS.
Proof.
  intros Hinv Hi. unfold usize_bits, tbits, dens. rewrite map_map. apply map_ext. intro i.
  destruct (N.testbit _ _); [apply (bs_const1 _ ops)|apply (bs_const0 _ ops)]; assumption.
Qed.

Lemma repeat0_valid b k : inv b -> valids b (repeat 0 k).
Proof.
  intro Hinv. apply Forall_forall. intros w Hin. apply repeat_spec in Hin. subst.
  apply (bs_consts_valid _ ops b Hinv).
Qed.

(* ------------------------------------------------------------------ push_record *)

Lemma col_dens inp b k rss :
  dens inp b (col k rss) = map (fun bs => nth k bs (den inp b 0)) (map (dens inp b) rss).
Proof.
  unfold col, dens. rewrite !map_map. apply map_ext. intro r. symmetry. apply map_nth.
Qed.

Lemma col_valid b k rss : inv b -> Forall (valids b) rss -> valids b (col k rss).
Proof.
  intros Hinv H. unfold col. apply Forall_forall. intros w Hin. apply in_map_iff in Hin.
  destruct Hin as (r & <- & Hr). apply valid_nth; auto. rewrite Forall_forall in H. now apply H.
Qed.

Lemma col_length k (rss : list (list N)) : length (col k rss) = length rss.
Proof. unfold col. apply map_length. Qed.

(* the record after the gate-emitting part of push_panic_if *)
Definition pushed_den (inp : list bool) (b : builder) (p : prec) (cond : N) (r : preason) (m : ploc) :=
  let f := den inp b (pr_flag p) in
  (orb f (den inp b cond),
   sel f (dens inp b (pr_type p)) (tbits (preason_num r) USIZE_BITS),
   sel f (dens inp b (pr_sl p)) (tbits (pl_sl m) USIZE_BITS),
   sel f (dens inp b (pr_sc p)) (tbits (pl_sc m) USIZE_BITS),
   sel f (dens inp b (pr_el p)) (tbits (pl_el m) USIZE_BITS),
   sel f (dens inp b (pr_ec p)) (tbits (pl_ec m) USIZE_BITS)).

Lemma push_record_sound b p cond r m :
  inv b -> prec_wf p -> prec_valid b p -> valid b cond ->
  exists p' b', push_record b p cond r m = Ok (p', b') /\ inv b' /\ ext b b' /\
    prec_wf p' /\ prec_valid b' p' /\
    forall inp, ins_ok b inp -> prec_den inp b' p' = pushed_den inp b p cond r m.
Proof.
  intros Hinv (L1 & L2 & L3 & L4 & L5) (V0 & V1 & V2 & V3 & V4 & V5) Hc.
  unfold push_record.
  destruct (bs_or _ ops b _ _ Hinv V0 Hc) as (fl & b1 & E1 & I1 & X1 & W1 & D1).
  rewrite E1. cbn [bind].
  set (csl := usize_bits (pl_sl m)). set (csc := usize_bits (pl_sc m)).
  set (cel := usize_bits (pl_el m)). set (cec := usize_bits (pl_ec m)).
  set (row := fun i : nat => [(nth i (pr_sl p) 0, nth i csl 0); (nth i (pr_sc p) 0, nth i csc 0);
                              (nth i (pr_el p) 0, nth i cel 0); (nth i (pr_ec p) 0, nth i cec 0)]).
  assert (V0' : valid b1 (pr_flag p)) by (eapply ext_valid; eauto).
  assert (Hrows : Forall (Forall (pair_valid b1)) (map row (seq 0 USIZE_BITS))).
  { apply Forall_forall. intros ps Hin. apply in_map_iff in Hin. destruct Hin as (i & <- & _).
    subst row. cbn beta.
    repeat (apply Forall_cons; [split; cbn [fst snd]; apply valid_nth;
        solve [exact I1 | eapply ext_valids; eauto | apply usize_bits_valid; exact I1]|]).
    apply Forall_nil. }
  destruct (mux_rows_sound _ b1 (pr_flag p) I1 V0' Hrows) as (rss & b2 & E2 & I2 & X2 & W2 & Len2 & D2).
  rewrite E2. cbn [bind].
  destruct (mux_field_sound b2 (pr_flag p) (pr_type p) (usize_bits (preason_num r)) I2)
    as (ty & b3 & E3 & I3 & X3 & W3 & Len3 & D3).
  { eapply ext_valid; eauto. }
  { eapply ext_valids; [exact X2|]. eapply ext_valids; eauto. }
  { apply usize_bits_valid; exact I2. }
  { exact L1. }
  { apply usize_bits_length. }
  rewrite E3. cbn [bind].
  eexists _, b3. split; [reflexivity|]. split; [exact I3|].
  assert (X13 : ext b1 b3) by exact (ext_trans _ _ _ X2 X3).
  assert (X03 : ext b b3) by exact (ext_trans _ _ _ X1 X13).
  assert (X02 : ext b b2) by exact (ext_trans _ _ _ X1 X2).
  split; [exact X03|].
  assert (Lrss : length rss = USIZE_BITS) by (rewrite Len2, map_length, seq_length; reflexivity).
  split.
  { unfold prec_wf. cbn [pr_type pr_sl pr_sc pr_el pr_ec]. rewrite !col_length. repeat split; assumption. }
  assert (W2' : Forall (valids b3) rss).
  { eapply Forall_impl; [|exact W2]. intros ws. apply ext_valids. exact X3. }
  split.
  { unfold prec_valid. cbn [pr_flag pr_type pr_sl pr_sc pr_el pr_ec].
    split; [eapply ext_valid; [exact X13|exact W1]|].
    split; [exact W3|]. repeat split; apply col_valid; assumption. }
  intros inp Hi.
  pose proof (ext_ins_ok _ _ _ X1 Hi) as Hi1. pose proof (ext_ins_ok _ _ _ X02 Hi) as Hi2.
  assert (Hcol : forall k xs cs, (k < 4)%nat ->
            (forall i, nth k (row i) (0, 0) = (nth i xs 0, nth i cs 0)) ->
            length xs = USIZE_BITS -> length cs = USIZE_BITS -> valids b xs ->
            (forall b', inv b' -> valids b' cs) ->
            dens inp b3 (col k rss) =
              sel (den inp b (pr_flag p)) (dens inp b xs) (dens inp b cs)).
  { intros k xs cs Hk Hrow Lx Lc Vx Vc.
    rewrite (ext_dens _ _ _ _ X3 Hi2) by (apply col_valid; assumption).
    rewrite col_dens, (D2 inp Hi1), !map_map.
    transitivity (map (pair_den inp b1 (pr_flag p)) (pairs32 xs cs)).
    - unfold pairs32. rewrite map_map. apply map_ext. intro i.
      rewrite <- (Hrow i).
      change (den inp b2 0) with (den inp b2 0).
      subst row. cbn beta.
      destruct k as [|[|[|[|k]]]]; cbn [map nth]; try reflexivity. lia.
    - rewrite pairs32_den by assumption. unfold sel.
      rewrite (ext_den _ _ _ _ X1 Hi V0).
      rewrite (ext_dens _ _ _ _ X1 Hi Vx).
      rewrite (ext_dens _ _ _ _ X1 Hi (Vc b Hinv)). reflexivity. }
  unfold prec_den, pushed_den. cbn [pr_flag pr_type pr_sl pr_sc pr_el pr_ec].
  rewrite (Hcol 0%nat (pr_sl p) csl), (Hcol 1%nat (pr_sc p) csc), (Hcol 2%nat (pr_el p) cel),
          (Hcol 3%nat (pr_ec p) cec);
    try lia; try assumption; try (intro i; reflexivity); try apply usize_bits_length;
    try (intros b' Hb'; apply usize_bits_valid; exact Hb').
  subst csl csc cel cec. rewrite !(usize_bits_dens b inp) by assumption.
  rewrite (D3 inp Hi2).
  rewrite (ext_den _ _ _ _ X02 Hi V0), (ext_dens _ _ _ _ X02 Hi V1).
  rewrite (usize_bits_dens b2 inp) by assumption.
  rewrite (ext_den _ _ _ _ X13 Hi1 W1), (D1 inp Hi).
  unfold sel. reflexivity.
Qed.

(* ------------------------------------------------------------------ sets of conditions *)

Lemma nmem_empty k : nmem k nempty = false.
Proof. unfold nmem. now rewrite nfind_empty. Qed.

Lemma nmem_add k k' s : nmem k' (nadd k tt s) = (k =? k') || nmem k' s.
Proof. unfold nmem. rewrite nfind_add. now destruct (k =? k'). Qed.

Lemma nmem_inter k s1 s2 : nmem k (ninter s1 s2) = nmem k s1 && nmem k s2.
Proof.
  unfold nmem, ninter, nfind. rewrite PositiveMap.gmap2 by reflexivity.
  destruct (PositiveMap.find _ s1) as [[]|], (PositiveMap.find _ s2) as [[]|]; reflexivity.
Qed.

(* ------------------------------------------------------------------ observations *)

Definition obs_of (d : bool * list bool * list bool * list bool * list bool * list bool)
  : option (N * ploc) :=
  let '(f, ty, sl, sc, el, ec) := d in
  if f then Some (bits_val ty, mkPLoc (bits_val sl) (bits_val sc) (bits_val el) (bits_val ec)) else None.

Lemma obs_prec_den inp b R : obs inp b R = obs_of (prec_den inp b R).
Proof. reflexivity. Qed.

Definition type_of (d : bool * list bool * list bool * list bool * list bool * list bool) : N :=
  let '(_, ty, _, _, _, _) := d in bits_val ty.

Lemma rec_type_prec_den inp b R : rec_type inp b R = type_of (prec_den inp b R).
Proof. reflexivity. Qed.

Lemma prec_den_ext b b' inp R :
  ext b b' -> ins_ok b inp -> prec_valid b R -> prec_den inp b' R = prec_den inp b R.
Proof.
  intros X Hi (V0 & V1 & V2 & V3 & V4 & V5). unfold prec_den.
  rewrite (ext_den _ _ _ _ X Hi V0).
  now rewrite !(ext_dens _ _ _ _ X Hi) by assumption.
Qed.

Lemma obs_ext b b' inp R :
  ext b b' -> ins_ok b inp -> prec_valid b R -> obs inp b' R = obs inp b R.
Proof. intros. rewrite !obs_prec_den. f_equal. now apply prec_den_ext. Qed.

Lemma prec_valid_ext b b' R : ext b b' -> prec_valid b R -> prec_valid b' R.
Proof.
  intros X (V0 & V1 & V2 & V3 & V4 & V5).
  repeat split; first [eapply ext_valid; eassumption | eapply ext_valids; eassumption].
Qed.

Lemma ins_ok_ext_back b b' inp : ext b b' -> ins_ok b' inp -> ins_ok b inp.
Proof. intros (S & _) H. unfold ins_ok in *. congruence. Qed.

Lemma pstate_ok_ext b b' P : ext b b' -> pstate_ok b P -> pstate_ok b' P.
Proof.
  intros X (Wf & Va & Ck & Sem). split; [exact Wf|]. split; [now apply (prec_valid_ext b)|].
  split; [intros k Hk; eapply ext_valid; eauto|].
  intros inp Hi'. pose proof (ins_ok_ext_back _ _ _ X Hi') as Hi.
  destruct (Sem inp Hi) as [Ty Ci]. split.
  - unfold type_ok in *. rewrite rec_type_prec_den in *. now rewrite (prec_den_ext _ _ _ _ X Hi Va).
  - intros k Hk Hd. destruct Va as (V0 & _).
    rewrite (ext_den _ _ _ _ X Hi V0). apply (Ci k Hk).
    now rewrite <- (ext_den _ _ _ _ X Hi (Ck k Hk)).
Qed.

Lemma preason_num_range r : 1 <= preason_num r <= 3.
Proof. destruct r; cbn; lia. Qed.

Lemma bits_val_tbits32 n : bits_val (tbits n USIZE_BITS) = n mod 2 ^ 32.
Proof. apply (bits_val_tbits n 32). Qed.

Lemma pstate_new_ok b : inv b -> pstate_ok b pstate_new.
Proof.
  intro Hinv. unfold pstate_new, pstate_ok. cbn [ps_rec ps_cache].
  split; [repeat split; try apply repeat_length; apply usize_bits_length|].
  split.
  { unfold prec_valid, panic_ok. cbn [pr_flag pr_type pr_sl pr_sc pr_el pr_ec].
    split; [apply (bs_consts_valid _ ops b Hinv)|].
    split; [now apply usize_bits_valid|]. repeat split; now apply repeat0_valid. }
  split; [intros k Hk; now rewrite nmem_empty in Hk|].
  intros inp Hi. split.
  - unfold type_ok, rec_type, field_val, panic_ok. cbn [pr_type].
    rewrite (usize_bits_dens b inp) by assumption. rewrite bits_val_tbits32. cbn. lia.
  - intros k Hk. now rewrite nmem_empty in Hk.
Qed.

(* ------------------------------------------------------------------ push_panic_if *)

Theorem push_obs b P cond r m :
  inv b -> pstate_ok b P -> valid b cond ->
  exists P' b', push_panic_if b P cond r m = Ok (P', b') /\ inv b' /\ ext b b' /\ pstate_ok b' P' /\
    forall inp, ins_ok b inp ->
      obs inp b' (ps_rec P') = push_spec (obs inp b (ps_rec P)) (den inp b cond) r m.
Proof.
  intros Hinv Hok Hc. pose proof Hok as (Wf & Va & Ck & Sem).
  unfold push_panic_if. destruct (nmem cond (ps_cache P)) eqn:Hit.
  - (* cache hit: nothing changes, and nothing needs to *)
    exists P, b. split; [reflexivity|]. split; [exact Hinv|]. split; [apply ext_refl|].
    split; [exact Hok|]. intros inp Hi. destruct (Sem inp Hi) as [_ Ci].
    unfold push_spec, obs. destruct (den inp b (pr_flag (ps_rec P))) eqn:Fl; [reflexivity|].
    destruct (den inp b cond) eqn:Dc; [|reflexivity].
    specialize (Ci cond Hit Dc). congruence.
  - destruct (push_record_sound b (ps_rec P) cond r m Hinv Wf Va Hc)
      as (p' & b' & E & I & X & Wf' & Va' & D).
    rewrite E. cbn [bind]. eexists _, b'. split; [reflexivity|]. split; [exact I|]. split; [exact X|].
    cbn [ps_rec ps_cache].
    split.
    { split; [exact Wf'|]. split; [exact Va'|]. cbn [ps_rec ps_cache].
      split.
      { intros k Hk. rewrite nmem_add in Hk. apply orb_true_iff in Hk. destruct Hk as [Hk|Hk].
        - apply N.eqb_eq in Hk. subst k. eapply ext_valid; eauto.
        - eapply ext_valid; eauto. }
      intros inp Hi'. pose proof (ins_ok_ext_back _ _ _ X Hi') as Hi.
      destruct (Sem inp Hi) as [Ty Ci]. specialize (D inp Hi). split.
      - unfold type_ok in *. rewrite rec_type_prec_den in *. rewrite D. unfold pushed_den, type_of.
        unfold prec_den, type_of in Ty. unfold sel. destruct (den inp b (pr_flag (ps_rec P))); [exact Ty|].
        rewrite bits_val_tbits32. pose proof (preason_num_range r).
        rewrite N.mod_small; [assumption|]. apply N.le_lt_trans with 3; [lia|reflexivity].
      - intros k Hk Hd. cbn [ps_rec ps_cache] in Hk, Hd |- *.
        assert (Fl : fst (fst (fst (fst (fst (prec_den inp b' p'))))) = true).
        { rewrite D. unfold pushed_den. cbn [fst]. rewrite nmem_add in Hk.
          apply orb_true_iff in Hk. destruct Hk as [Hk|Hk].
          - apply N.eqb_eq in Hk. subst k. rewrite (ext_den _ _ _ _ X Hi Hc) in Hd. rewrite Hd.
            apply orb_true_r.
          - rewrite (ext_den _ _ _ _ X Hi (Ck k Hk)) in Hd. rewrite (Ci k Hk Hd). reflexivity. }
        exact Fl. }
    intros inp Hi. rewrite !obs_prec_den, (D inp Hi). unfold pushed_den, prec_den, obs_of, push_spec, sel.
    destruct (den inp b (pr_flag (ps_rec P))); cbn [orb]; [reflexivity|].
    destruct (den inp b cond); [|reflexivity].
    rewrite !bits_val_tbits32. unfold ploc32. f_equal. f_equal.
    pose proof (preason_num_range r). apply N.mod_small. apply N.le_lt_trans with 3; [lia|reflexivity].
Qed.

(* ------------------------------------------------------------------ mux_panic *)

Theorem mux_obs b c T F :
  inv b -> valid b c -> pstate_ok b T -> pstate_ok b F ->
  exists P' b', mux_panic b c T F = Ok (P', b') /\ inv b' /\ ext b b' /\ pstate_ok b' P' /\
    forall inp, ins_ok b inp ->
      obs inp b' (ps_rec P') = if den inp b c then obs inp b (ps_rec T) else obs inp b (ps_rec F).
Proof.
  intros Hinv Hc (WfT & VaT & CkT & SemT) (WfF & VaF & CkF & SemF).
  unfold mux_panic.
  destruct (mux_uncached_sound b c _ _ Hinv Hc WfT WfF VaT VaF) as (R & b' & E & I & X & Wf & Va & D).
  rewrite E. cbn [bind]. eexists _, b'. split; [reflexivity|]. split; [exact I|]. split; [exact X|].
  split.
  { split; [exact Wf|]. split; [exact Va|]. cbn [ps_rec ps_cache].
    split.
    { intros k Hk. rewrite nmem_inter in Hk. apply andb_true_iff in Hk. eapply ext_valid; [exact X|].
      apply CkT. tauto. }
    intros inp Hi'. pose proof (ins_ok_ext_back _ _ _ X Hi') as Hi.
    destruct (SemT inp Hi) as [TyT CiT]. destruct (SemF inp Hi) as [TyF CiF]. specialize (D inp Hi).
    split.
    - unfold type_ok in *. rewrite rec_type_prec_den in *. rewrite D. unfold sel.
      destruct (den inp b c); assumption.
    - intros k Hk Hd. cbn [ps_rec ps_cache] in Hk, Hd |- *.
      rewrite nmem_inter in Hk. apply andb_true_iff in Hk. destruct Hk as [HkT HkF].
      rewrite (ext_den _ _ _ _ X Hi (CkT k HkT)) in Hd.
      assert (Fl : fst (fst (fst (fst (fst (prec_den inp b' R))))) = true).
      { rewrite D. unfold sel. destruct (den inp b c); unfold prec_den; cbn [fst].
        - apply (CiT k HkT Hd).
        - apply (CiF k HkF Hd). }
      exact Fl. }
  intros inp Hi. cbn [ps_rec]. rewrite !obs_prec_den, (D inp Hi). unfold sel.
  destruct (den inp b c); reflexivity.
Qed.

(* ------------------------------------------------------------------ the protocol *)

Lemma push_spec_sticky x c r m : push_spec (Some x) c r m = Some x.
Proof. reflexivity. Qed.

Lemma psem_sticky dn code x : psem dn code (Some x) = Some x.
Proof.
  induction code as [|c r m|a IHa b0 IHb|c t IHt f IHf]; cbn [psem].
  - reflexivity.
  - reflexivity.
  - now rewrite IHa, IHb.
  - destruct (dn c); assumption.
Qed.

Lemma psem_ext dn dn' code o :
  (forall c, In c (pcode_conds code) -> dn c = dn' c) -> psem dn code o = psem dn' code o.
Proof.
  revert o. induction code as [|c r m|a IHa b0 IHb|c t IHt f IHf]; intros o H; cbn [psem pcode_conds] in *.
  - reflexivity.
  - now rewrite (H c (or_introl eq_refl)).
  - rewrite IHa by (intros; apply H; apply in_or_app; now left).
    apply IHb. intros; apply H; apply in_or_app; now right.
  - rewrite (H c (or_introl eq_refl)).
    rewrite IHt by (intros; apply H; right; apply in_or_app; now left).
    rewrite IHf by (intros; apply H; right; apply in_or_app; now right).
    reflexivity.
Qed.

Theorem run_pcode_obs : forall code b P,
  inv b -> pstate_ok b P -> Forall (valid b) (pcode_conds code) ->
  exists P' b', run_pcode b P code = Ok (P', b') /\ inv b' /\ ext b b' /\ pstate_ok b' P' /\
    forall inp, ins_ok b inp ->
      obs inp b' (ps_rec P') = psem (den inp b) code (obs inp b (ps_rec P)).
Proof.
  induction code as [|c r m|x IHx y IHy|c t IHt f IHf]; intros b P Hinv Hok Hv;
    cbn [run_pcode pcode_conds psem] in *.
  - exists P, b. split; [reflexivity|]. split; [exact Hinv|]. split; [apply ext_refl|].
    split; [exact Hok|]. reflexivity.
  - inversion Hv as [|? ? Hc _]; subst. apply push_obs; assumption.
  - apply Forall_app in Hv. destruct Hv as [Hvx Hvy].
    destruct (IHx b P Hinv Hok Hvx) as (P1 & b1 & E1 & I1 & X1 & Ok1 & D1).
    assert (Hvy1 : Forall (valid b1) (pcode_conds y)).
    { eapply Forall_impl; [|exact Hvy]. intro w. now apply ext_valid. }
    destruct (IHy b1 P1 I1 Ok1 Hvy1) as (P2 & b2 & E2 & I2 & X2 & Ok2 & D2).
    exists P2, b2. rewrite E1. cbn [bind]. split; [exact E2|]. split; [exact I2|].
    split; [exact (ext_trans _ _ _ X1 X2)|]. split; [exact Ok2|].
    intros inp Hi. rewrite (D2 inp (ext_ins_ok _ _ _ X1 Hi)), (D1 inp Hi).
    apply psem_ext. intros c Hin. apply (ext_den _ _ _ _ X1 Hi).
    rewrite Forall_forall in Hvy. now apply Hvy.
  - inversion Hv as [|? ? Hc Hv']; subst. apply Forall_app in Hv'. destruct Hv' as [Hvt Hvf].
    destruct (IHt b P Hinv Hok Hvt) as (PT & b1 & E1 & I1 & X1 & OkT & DT).
    assert (Hvf1 : Forall (valid b1) (pcode_conds f)).
    { eapply Forall_impl; [|exact Hvf]. intro w. now apply ext_valid. }
    (* the else-branch starts from the state saved before the conditional *)
    destruct (IHf b1 P I1 (pstate_ok_ext _ _ _ X1 Hok) Hvf1) as (PF & b2 & E2 & I2 & X2 & OkF & DF).
    destruct (mux_obs b2 c PT PF I2) as (PM & b3 & E3 & I3 & X3 & OkM & DM).
    { eapply ext_valid; [exact X2|]. eapply ext_valid; eauto. }
    { exact (pstate_ok_ext _ _ _ X2 OkT). }
    { exact OkF. }
    exists PM, b3. rewrite E1. cbn [bind]. rewrite E2. cbn [bind].
    split; [exact E3|]. split; [exact I3|].
    assert (X02 : ext b b2) by exact (ext_trans _ _ _ X1 X2).
    split; [exact (ext_trans _ _ _ X02 X3)|]. split; [exact OkM|].
    intros inp Hi. pose proof (ext_ins_ok _ _ _ X1 Hi) as Hi1. pose proof (ext_ins_ok _ _ _ X02 Hi) as Hi2.
    rewrite (DM inp Hi2). rewrite (ext_den _ _ _ _ X02 Hi Hc).
    destruct (den inp b c).
    + destruct OkT as (_ & VaT & _). rewrite (obs_ext _ _ _ _ X2 Hi1 VaT). apply (DT inp Hi).
    + rewrite (DF inp Hi1). destruct Hok as (_ & Va & _). rewrite (obs_ext _ _ _ _ X1 Hi Va).
      apply psem_ext. intros k Hin. apply (ext_den _ _ _ _ X1 Hi).
      rewrite Forall_forall in Hvf. now apply Hvf.
Qed.

(* a panic once raised is never dropped or overwritten by code that runs afterwards *)
Theorem sticky code b P :
  inv b -> pstate_ok b P -> Forall (valid b) (pcode_conds code) ->
  exists P' b', run_pcode b P code = Ok (P', b') /\
    forall inp x, ins_ok b inp -> obs inp b (ps_rec P) = Some x -> obs inp b' (ps_rec P') = Some x.
Proof.
  intros Hinv Hok Hv. destruct (run_pcode_obs code b P Hinv Hok Hv) as (P' & b' & E & _ & _ & _ & D).
  exists P', b'. split; [exact E|]. intros inp x Hi Hx. rewrite (D inp Hi), Hx. apply psem_sticky.
Qed.

(* ------------------------------------------------------------------ EvalPanic::parse *)

Lemma field_at_cons f l k : field_at (f :: l) k = firstn USIZE_BITS (skipn (k * USIZE_BITS) l).
Proof. unfold field_at. reflexivity. Qed.

Lemma fields5 (f : bool) A0 A1 A2 A3 A4 rest :
  length A0 = USIZE_BITS -> length A1 = USIZE_BITS -> length A2 = USIZE_BITS ->
  length A3 = USIZE_BITS -> length A4 = USIZE_BITS ->
  let bits := (f :: A0 ++ A1 ++ A2 ++ A3 ++ A4) ++ rest in
  field_at bits 0 = A0 /\ field_at bits 1 = A1 /\ field_at bits 2 = A2 /\ field_at bits 3 = A3 /\
  field_at bits 4 = A4 /\ skipn (1 + 5 * USIZE_BITS) bits = rest /\
  length bits = (1 + 5 * USIZE_BITS + length rest)%nat.
Proof.
  intros L0 L1 L2 L3 L4 bits. subst bits. rewrite <- app_comm_cons, <- !app_assoc.
  rewrite !field_at_cons.
  change (0 * USIZE_BITS)%nat with 0%nat.
  change (1 * USIZE_BITS)%nat with (USIZE_BITS + 0)%nat.
  change (2 * USIZE_BITS)%nat with (USIZE_BITS + (USIZE_BITS + 0))%nat.
  change (3 * USIZE_BITS)%nat with (USIZE_BITS + (USIZE_BITS + (USIZE_BITS + 0)))%nat.
  change (4 * USIZE_BITS)%nat with (USIZE_BITS + (USIZE_BITS + (USIZE_BITS + (USIZE_BITS + 0))))%nat.
  change (1 + 5 * USIZE_BITS)%nat
    with (S (USIZE_BITS + (USIZE_BITS + (USIZE_BITS + (USIZE_BITS + (USIZE_BITS + 0))))))%nat.
  cbn [skipn].
  rewrite !skipn_add_app by assumption. cbn [skipn].
  rewrite !firstn_app_exact by assumption.
  repeat split. cbn [length]. rewrite !app_length, L0, L1, L2, L3, L4. reflexivity.
Qed.

Lemma preason_from_num_ok n : 1 <= n <= 3 -> exists r, preason_from_num n = Ok r /\ preason_num r = n.
Proof.
  intro H. unfold preason_from_num.
  destruct (N.eqb_spec n 1) as [->|]; [exists Overflow; split; reflexivity|].
  destruct (N.eqb_spec n 2) as [->|]; [exists DivByZero; split; reflexivity|].
  destruct (N.eqb_spec n 3) as [->|]; [exists OutOfBounds; split; reflexivity|]. lia.
Qed.

(* the decoder applied to the outputs of a well-formed record never reaches from_num's
   panic! and returns exactly the observation *)
Theorem parse_record b P inp rest :
  pstate_ok b P -> ins_ok b inp ->
  parse_panic (rec_bits inp b (ps_rec P) ++ rest) = parse_spec (obs inp b (ps_rec P)) rest /\
  parse_panic (rec_bits inp b (ps_rec P) ++ rest) <> Crash.
Proof.
  intros (Wf & _ & _ & Sem) Hi. destruct (Sem inp Hi) as [Ty _].
  destruct Wf as (L1 & L2 & L3 & L4 & L5).
  set (R := ps_rec P) in *.
  unfold rec_bits, prec_wires, dens. cbn [map]. rewrite !map_app.
  destruct (fields5 (den inp b (pr_flag R)) (map (den inp b) (pr_type R)) (map (den inp b) (pr_sl R))
              (map (den inp b) (pr_sc R)) (map (den inp b) (pr_el R)) (map (den inp b) (pr_ec R)) rest)
    as (F0 & F1 & F2 & F3 & F4 & Sk & Len); try (rewrite map_length; assumption).
  unfold parse_panic. rewrite Len.
  replace (_ <? _)%nat with false by (symmetry; apply Nat.ltb_ge; lia).
  rewrite F0, F1, F2, F3, F4, Sk. cbn [hd app].
  unfold type_ok, rec_type, field_val, dens in Ty.
  destruct (preason_from_num_ok _ Ty) as (r & Er & _). rewrite Er. cbn [bind].
  unfold parse_spec, obs. fold R. destruct (den inp b (pr_flag R)).
  - unfold rec_type, rec_loc, field_val, dens. rewrite Er. cbn [bind]. split; [reflexivity|discriminate].
  - split; [reflexivity|discriminate].
Qed.

(* a cache hit is a no-op, and that is all it has to be *)
Theorem cache_hit_noop b P cond r m :
  pstate_ok b P -> nmem cond (ps_cache P) = true ->
  push_panic_if b P cond r m = Ok (P, b) /\
  forall inp, ins_ok b inp ->
    (den inp b cond = true -> den inp b (pr_flag (ps_rec P)) = true) /\
    push_spec (obs inp b (ps_rec P)) (den inp b cond) r m = obs inp b (ps_rec P).
Proof.
  intros (_ & _ & _ & Sem) Hit. unfold push_panic_if. rewrite Hit. split; [reflexivity|].
  intros inp Hi. destruct (Sem inp Hi) as [_ Ci]. split; [apply (Ci cond Hit)|].
  unfold push_spec, obs. destruct (den inp b (pr_flag (ps_rec P))) eqn:Fl; [reflexivity|].
  destruct (den inp b cond) eqn:Dc; [|reflexivity]. specialize (Ci cond Hit Dc). congruence.
Qed.

(* everything the protocol can reach from a fresh builder *)
Theorem protocol_from_new dedup inputs code :
  let b0 := new_builder dedup inputs in
  Forall (valid b0) (pcode_conds code) ->
  exists P' b', run_pcode b0 pstate_new code = Ok (P', b') /\ pstate_ok b' P' /\
    forall inp, ins_ok b0 inp ->
      obs inp b' (ps_rec P') = psem (den inp b0) code None /\
      1 <= rec_type inp b' (ps_rec P') <= 3 /\
      forall rest, parse_panic (rec_bits inp b' (ps_rec P') ++ rest)
                   = parse_spec (psem (den inp b0) code None) rest
                   /\ parse_panic (rec_bits inp b' (ps_rec P') ++ rest) <> Crash.
Proof.
  intros b0 Hv. pose proof (bs_new _ ops dedup inputs) as Hinv. fold b0 in Hinv.
  destruct (run_pcode_obs code b0 pstate_new Hinv (pstate_new_ok b0 Hinv) Hv)
    as (P' & b' & E & I & X & Ok' & D).
  exists P', b'. split; [exact E|]. split; [exact Ok'|]. intros inp Hi.
  pose proof (ext_ins_ok _ _ _ X Hi) as Hi'.
  assert (O0 : obs inp b0 (ps_rec pstate_new) = None).
  { unfold obs, pstate_new, panic_ok. cbn [ps_rec pr_flag]. now rewrite (bs_const0 _ ops b0 inp Hinv Hi). }
  rewrite <- O0, <- (D inp Hi). split; [reflexivity|]. split.
  - destruct Ok' as (_ & _ & _ & Sem). apply (Sem inp Hi').
  - intro rest. apply parse_record; assumption.
Qed.

End S.

(* ------------------------------------------------------------------ C06: iteration order *)

Lemma inter_by_mem_acc keys cf : forall acc k,
  nmem k (fold_left (fun acc k => if nmem k cf then nadd k tt acc else acc) keys acc)
  = nmem k acc || (existsb (N.eqb k) keys && nmem k cf).
Proof.
  induction keys as [|x keys IH]; intros acc k; cbn [fold_left existsb].
  - now rewrite andb_false_l, orb_false_r.
  - rewrite IH. destruct (nmem x cf) eqn:Hx.
    + rewrite nmem_add. destruct (N.eqb_spec x k) as [->|Hne].
      * rewrite N.eqb_refl, Hx. cbn [orb andb]. now rewrite !orb_true_r.
      * replace (k =? x) with false by (symmetry; apply N.eqb_neq; congruence). reflexivity.
    + destruct (N.eqb_spec k x) as [->|Hne]; [|reflexivity].
      rewrite Hx. cbn [orb]. now rewrite !andb_false_r.
Qed.

Lemma inter_by_mem keys cf k : nmem k (inter_by keys cf) = existsb (N.eqb k) keys && nmem k cf.
Proof. unfold inter_by. rewrite inter_by_mem_acc, nmem_empty. reflexivity. Qed.

(* The repaired mux_panic: whatever the iteration order of the set [cache_t], the builder
   (all gates, all wire numbers) and the record are the same, and the resulting set has the
   same members -- namely those of [mux_panic], which has no order argument at all. *)
Theorem mux_panic_order_irrelevant keys b c T F :
  (forall k, In k keys <-> nmem k (ps_cache T) = true) ->
  match mux_panic_keys keys b c T F, mux_panic b c T F with
  | Ok (P1, b1), Ok (P2, b2) =>
      b1 = b2 /\ ps_rec P1 = ps_rec P2 /\ forall k, nmem k (ps_cache P1) = nmem k (ps_cache P2)
  | Crash, Crash | OutOfFuel, OutOfFuel => True
  | _, _ => False
  end.
Proof.
  intro Hk. unfold mux_panic_keys, mux_panic.
  destruct (mux_uncached_panic b c (ps_rec T) (ps_rec F)) as [[p b']| |]; cbn [bind]; auto.
  split; [reflexivity|]. split; [reflexivity|]. intro k. cbn [ps_cache].
  rewrite inter_by_mem, nmem_inter. f_equal.
  destruct (nmem k (ps_cache T)) eqn:E.
  - apply existsb_exists. exists k. split; [now apply Hk|apply N.eqb_refl].
  - destruct (existsb (N.eqb k) keys) eqn:Ex; [|reflexivity].
    apply existsb_exists in Ex. destruct Ex as (x & Hin & Heq). apply N.eqb_eq in Heq. subst x.
    apply Hk in Hin. congruence.
Qed.

Corollary mux_panic_two_orders keys1 keys2 b c T F :
  (forall k, In k keys1 <-> nmem k (ps_cache T) = true) ->
  (forall k, In k keys2 <-> nmem k (ps_cache T) = true) ->
  match mux_panic_keys keys1 b c T F, mux_panic_keys keys2 b c T F with
  | Ok (P1, b1), Ok (P2, b2) =>
      b1 = b2 /\ ps_rec P1 = ps_rec P2 /\ forall k, nmem k (ps_cache P1) = nmem k (ps_cache P2)
  | Crash, Crash | OutOfFuel, OutOfFuel => True
  | _, _ => False
  end.
Proof.
  intros H1 H2. pose proof (mux_panic_order_irrelevant keys1 b c T F H1) as A.
  pose proof (mux_panic_order_irrelevant keys2 b c T F H2) as B.
  destruct (mux_panic_keys keys1 b c T F) as [[P1 b1]| |], (mux_panic_keys keys2 b c T F) as [[P2 b2]| |],
    (mux_panic b c T F) as [[P3 b3]| |]; try contradiction; auto.
  destruct A as (-> & -> & A3), B as (-> & -> & B3). split; [reflexivity|]. split; [reflexivity|].
  intro k. now rewrite A3, B3.
Qed.

(* ------------------------------------------------------------------ the code as found *)

Definition ex_loc (i : N) : ploc := mkPLoc i 1 i 5.

(* DESIGN §6-1: push A; push B; push A.  On the input A = false, B = true the record holds
   B's panic after the second push and NO panic after the third. *)
Example push_cached_refuted :
  let b0 := new_builder true [2] in
  match push_panic_if_old b0 pstate_old_new 2 Overflow (ex_loc 1) with
  | Ok (P1, b1) =>
    match push_panic_if_old b1 P1 3 DivByZero (ex_loc 2) with
    | Ok (P2, b2) =>
      match push_panic_if_old b2 P2 2 OutOfBounds (ex_loc 3) with
      | Ok (P3, b3) =>
          let inp := [false; true] in
          obs inp b2 (po_rec P2) = Some (2, ex_loc 2) /\ obs inp b3 (po_rec P3) = None
      | _ => False
      end
    | _ => False
    end
  | _ => False
  end.
Proof. vm_compute. split; reflexivity. Qed.

(* the same script on the repaired code keeps B's panic *)
Example push_cached_repaired :
  let b0 := new_builder true [2] in
  match run_pcode b0 pstate_new
          (PSeq (PPush 2 Overflow (ex_loc 1)) (PSeq (PPush 3 DivByZero (ex_loc 2)) (PPush 2 OutOfBounds (ex_loc 3)))) with
  | Ok (P3, b3) =>
      obs [false; true] b3 (ps_rec P3) = Some (2, ex_loc 2) /\
      obs [true; true] b3 (ps_rec P3) = Some (1, ex_loc 1) /\
      obs [false; false] b3 (ps_rec P3) = None
  | _ => False
  end.
Proof. vm_compute. repeat split; reflexivity. Qed.

(* one-sided key: `if X { push A } else { }; push A` -- the code as found keeps A's cache entry
   of the then-branch; the later push replaces the muxed record by it: on X = false, A = true
   the location reported is the one inside the branch that was NOT taken. *)
Example one_sided_key_refuted :
  let b0 := new_builder true [2] in
  let P0 := pstate_old_new in
  match push_panic_if_old b0 P0 2 Overflow (ex_loc 1) with
  | Ok (PT, b1) =>
    match mux_panic_old [2] b1 3 PT P0 with
    | Ok (PM, b2) =>
      match push_panic_if_old b2 PM 2 DivByZero (ex_loc 2) with
      | Ok (P3, b3) => obs [true; false] b3 (po_rec P3) = Some (1, ex_loc 1)
      | _ => False
      end
    | _ => False
    end
  | _ => False
  end.
Proof. vm_compute. reflexivity. Qed.

Fixpoint gates_eqb (l1 l2 : list bgate) : bool :=
  match l1, l2 with
  | [], [] => true
  | BXor a b :: r1, BXor c d :: r2 | BAnd a b :: r1, BAnd c d :: r2 =>
      (a =? c) && (b =? d) && gates_eqb r1 r2
  | _, _ => false
  end.

Lemma gates_eqb_refl l : gates_eqb l l = true.
Proof. induction l as [|[a b|a b] l IH]; cbn [gates_eqb]; [reflexivity| |]; now rewrite !N.eqb_refl. Qed.

(* DESIGN §6-2 / C06: both branches push A and B (in different orders); the code as found emits
   the mux gates of the two common cache entries in the order of [keys]: two orders, two
   different gate lists. *)
Example mux_panic_old_order_refuted :
  let b0 := new_builder false [3] in
  let P0 := pstate_old_new in
  match push_panic_if_old b0 P0 2 Overflow (ex_loc 1) with
  | Ok (T1, b1) =>
    match push_panic_if_old b1 T1 3 DivByZero (ex_loc 2) with
    | Ok (T2, b2) =>
      match push_panic_if_old b2 P0 3 DivByZero (ex_loc 3) with
      | Ok (F1, b3) =>
        match push_panic_if_old b3 F1 2 Overflow (ex_loc 4) with
        | Ok (F2, b4) =>
          match mux_panic_old [2; 3; 2; 3] b4 4 T2 F2, mux_panic_old [3; 2; 3; 2] b4 4 T2 F2 with
          | Ok (_, bA), Ok (_, bB) => gates_eqb (b_gates_rev bA) (b_gates_rev bB) = false
          | _, _ => False
          end
        | _ => False
        end
      | _ => False
      end
    | _ => False
    end
  | _ => False
  end.
Proof. vm_compute. reflexivity. Qed.
