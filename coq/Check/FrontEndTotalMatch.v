(* C07 from the text, for programs WITH match: the front end (Check/FrontEndTotal.v) never answers
   FInternal when the computable depth bound of the parsed program is within the oracle's depth:
   InferFuel6.check_terminates_match plugged into FrontEndTotal.front_end_total_gen. *)
From Coq Require Import Lia Bool.
From GV Require Import Base.Util Front.Scan Front.ParseExpr Check.UAst Check.Infer Check.InferFuel
  Check.InferFuel4 Check.InferFuel5 Check.InferFuel6 Check.FrontEndTotal.

Theorem front_end_total_match intern bytes main :
  (forall a b, intern a = intern b -> a = b) ->
  match parsed_program bytes main with Some P => (ty_depth_bound P <= 64)%nat | None => True end ->
  front_end intern bytes main <> FInternal.
Proof.
  intros inj H. apply front_end_total_gen. intros P EP. rewrite EP in H.
  apply (check_terminates_match intern inj); [exact H|apply le_n].
Qed.

(* both computable tests together: no oracle, or the depth bound *)
Corollary front_end_total_computable intern bytes main :
  (forall a b, intern a = intern b -> a = b) ->
  match parsed_program bytes main with
  | Some P => no_oracle P || Nat.leb (ty_depth_bound P) 64 = true
  | None => True
  end ->
  front_end intern bytes main <> FInternal.
Proof.
  intros inj H. apply front_end_total_gen. intros P EP. rewrite EP in H. apply orb_true_iff in H. destruct H as [H|H].
  - apply check_terminates_no_oracle; [exact H|apply le_n].
  - apply Nat.leb_le in H. apply (check_terminates_match intern inj); [exact H|apply le_n].
Qed.

Print Assumptions front_end_total_match.
Print Assumptions front_end_total_computable.

(* non-vacuity, from a text with a match: the oracle is consulted (no_oracle fails), the depth bound is 2,
   the front end accepts *)
From Coq Require Import String.
Module FrontEndMatchExamples.
Local Open Scope string_scope.
Definition txt := "enum E { A, B(u8) } pub fn main(x: u8) -> u8 { let e = E::B(x); match e { E::A => 0u8, E::B(v) => v } }".
Example match_text :
  match parsed_program (codes txt) (codes "main") with
  | Some P => no_oracle P = false /\ ty_depth_bound P = 2%nat
  | None => False
  end /\ FrontEndExamples.run txt = 0%N.
Proof. vm_compute. repeat split; reflexivity. Qed.
End FrontEndMatchExamples.
