(* (B) "accepted implies every sub-term was accepted in some state": the lifting of the local
   rejection lemmas of InferProofs.v to every syntactic context. *)
From GV Require Import Base.Util Front.Scan Front.ParseExpr Check.UAst Check.Infer Check.InferProofs.
Local Open Scope N_scope.

Inductive node := NE (e : xexpr) | NS (s : xstmt).

(* the direct sub-terms (expressions and statements) of an expression / a statement *)
Inductive child : node -> node -> Prop :=
| c_arrlit e es : In e es -> child (NE e) (NE (XArrayLiteral es))
| c_arrrep e n : child (NE e) (NE (XArrayRepeatLiteral e n))
| c_idx_a a i : child (NE a) (NE (XArrayAccess a i))
| c_idx_i a i : child (NE i) (NE (XArrayAccess a i))
| c_tuplit e es : In e es -> child (NE e) (NE (XTupleLiteral es))
| c_tupacc e i : child (NE e) (NE (XTupleAccess e i))
| c_fld e f : child (NE e) (NE (XStructAccess e f))
| c_structlit n f e fields : In (f, e) fields -> child (NE e) (NE (XStructLiteral n fields))
| c_enumlit en v e es : In e es -> child (NE e) (NE (XEnumLiteral en v (Some es)))
| c_match_s e arms : child (NE e) (NE (XMatch e arms))
| c_match_arm s p e arms : In (p, e) arms -> child (NE e) (NE (XMatch s arms))
| c_unop o e : child (NE e) (NE (XUnaryOp o e))
| c_op_l o l r : child (NE l) (NE (XOp o l r))
| c_op_r o l r : child (NE r) (NE (XOp o l r))
| c_block s b : In s b -> child (NS s) (NE (XBlock b))
| c_call f e args : In e args -> child (NE e) (NE (XFnCall f args))
| c_if_c c t e : child (NE c) (NE (XIf c t e))
| c_if_t c t e : child (NE t) (NE (XIf c t e))
| c_if_e c t e : child (NE e) (NE (XIf c t e))
| c_cast ty e : child (NE e) (NE (XCast ty e))
| c_let p ty e : child (NE e) (NS (XSLet p ty e))
| c_letmut x ty e : child (NE e) (NS (XSLetMut x ty e))
| c_assign_v x accs e : child (NE e) (NS (XSVarAssign x accs e))
| c_assign_i x accs i e : In (XAArray i) accs -> child (NE i) (NS (XSVarAssign x accs e))
| c_for_e p e body : child (NE e) (NS (XSForEach p e body))
| c_for_body p e s body : In s body -> child (NS s) (NS (XSForEach p e body))
| c_sexpr e : child (NE e) (NS (XSExpr e)).

(* reflexive-transitive closure: [sub n m] = n occurs in m *)
Inductive sub : node -> node -> Prop :=
| sub_refl n : sub n n
| sub_step n m k : sub n m -> child m k -> sub n k.

Section Sub.
Variable intern : list N -> N.
Variable D : defs.
Notation check_expr := (check_expr intern).
Notation check_stmt := (check_stmt intern).

(* the node is accepted with some fuel in some state *)
Definition acc (n : node) : Prop :=
  exists f st,
    match n with
    | NE e => is_ok (check_expr f D st e) = true
    | NS s => is_ok (check_stmt f D st s) = true
    end.

Lemma mapM_st_In {A B} (g : cstate -> A -> cres (B * cstate)) x :
  forall l st r, mapM_st g st l = COk r -> In x l -> exists st', is_ok (g st' x) = true.
Proof.
  induction l as [|y l IH]; intros st r H Hin; [destruct Hin|].
  cbn [mapM_st] in H. inv_all. destruct Hin as [->|Hin].
  - eexists. rewrite Hb. reflexivity.
  - eapply IH; eauto.
Qed.

Lemma accs_loop_In ce fu i :
  forall accs st t r, accs_loop ce fu D st t accs = COk r -> In (XAArray i) accs ->
  exists st', is_ok (ce st' i) = true.
Proof.
  induction accs as [|a accs IH]; intros st t r H Hin; [destruct Hin|].
  cbn [accs_loop] in H.
  apply cbind_ok in H. destruct H as [[[ta t'] st'] [H1 H2]]. cbv beta iota in H2.
  apply cbind_ok in H2. destruct H2 as [[[tas tf] st''] [H2 H3]].
  destruct Hin as [->|Hin]; [|eapply IH; eauto].
  inv_all. eexists. rewrite Hb0. reflexivity.
Qed.

Lemma struct_lit_loop_In ce f sd fn e :
  forall fields seen st r, struct_lit_loop ce f sd seen st fields = COk r -> In (fn, e) fields ->
  exists st', is_ok (ce st' e) = true.
Proof.
  induction fields as [|[fname fv] fields IH]; intros seen st r H Hin; [destruct Hin|].
  cbn [struct_lit_loop] in H. destruct (memL fname seen); [discriminate|].
  destruct (assocL fname sd); [|discriminate]. inv_all.
  destruct Hin as [Heq|Hin]; [inversion Heq; subst; eexists; rewrite Hb; reflexivity|eapply IH; eauto].
Qed.

Ltac refold H :=
  fold (Infer.check_expr intern) (Infer.check_stmts intern) (Infer.check_block intern)
       (Infer.check_fn intern) (Infer.check_stmt intern) in H.

Ltac got := match goal with H : Infer.check_expr _ ?f _ ?st ?e = COk _ |- acc (NE ?e) =>
              exists f, st; cbn beta iota; rewrite H; reflexivity end.

Lemma child_acc c p : child c p -> acc p -> acc c.
Proof.
  intros Hc [f [st Hp]]. destruct f as [|f]; [destruct p; discriminate|].
  destruct Hc; cbn beta iota in Hp; apply is_ok_COk in Hp; destruct Hp as [rr Hp];
    [cbn [Infer.check_expr] in Hp .. | cbn [Infer.check_stmt] in Hp | cbn [Infer.check_stmt] in Hp
     | cbn [Infer.check_stmt] in Hp | cbn [Infer.check_stmt] in Hp | cbn [Infer.check_stmt] in Hp
     | cbn [Infer.check_stmt] in Hp | cbn [Infer.check_stmt] in Hp ]; refold Hp.
  all: try (inv_all; got).
  all: try solve [ inv_all; match goal with Hm : mapM_st _ _ _ = COk _, Hi : In _ _ |- _ =>
                     destruct (mapM_st_In _ _ _ _ _ Hm Hi) as [st' Hx]; exists f, st'; exact Hx end ].
  all: try solve [ destruct o; inv_all; got ].
  all: try solve [ destruct (assocL n (d_structs D)); [|discriminate]; inv_all;
                   match goal with Hm : struct_lit_loop _ _ _ _ _ _ = COk _, Hi : In _ _ |- _ =>
                     destruct (struct_lit_loop_In _ _ _ _ _ _ _ _ _ Hm Hi) as [st' Hx]; exists f, st'; exact Hx end ].
  all: try solve [ destruct (assocL en (d_enums D)) as [ed|]; [|discriminate];
                   destruct (assocL v ed) as [[?|]|]; try discriminate; inv_all;
                   match goal with Hm : mapM_st _ _ _ = COk _, Hi : In _ _ |- _ =>
                     destruct (mapM_st_In _ _ _ _ _ Hm Hi) as [st' Hx]; exists f, st'; exact Hx end ].
  all: try solve [ inv_all; destruct (ty_of (fst a)); try discriminate; inv_all;
                   match goal with Hm : mapM_st _ _ _ = COk _, Hi : In _ _ |- _ =>
                     destruct (mapM_st_In _ _ _ _ _ Hm Hi) as [st' Hx]; apply is_ok_COk in Hx; destruct Hx as [rx Hx];
                     inv_all; cbn [snd] in *; got end ].
  all: try solve [ apply cbind_ok in Hp; destruct Hp as [[[body ty] st'] [H1 H2]];
                   destruct f as [|f]; [discriminate|]; cbn [Infer.check_block] in H1; refold H1; inv_all;
                   match goal with Hm : mapM_st _ _ _ = COk _, Hi : In _ _ |- _ =>
                     destruct (mapM_st_In _ _ _ _ _ Hm Hi) as [st2 Hx]; exists f, st2; exact Hx end ].
  all: try solve [ apply cbind_ok in Hp; destruct Hp as [st1 [_ Hp]]; cbv beta in Hp;
                   destruct (assocL f0 (st_typed st1)); [|discriminate];
                   destruct (env_get (st_env st1) f0); [discriminate|]; inv_all;
                   match goal with Hm : mapM_st _ _ _ = COk _, Hi : In _ _ |- _ =>
                     destruct (mapM_st_In _ _ _ _ _ Hm Hi) as [st' Hx]; exists f, st'; exact Hx end ].
  all: try solve [ destruct (env_get (st_env st) x) as [[t [|]]|]; try discriminate;
                   apply cbind_ok in Hp; destruct Hp as [[[tas t'] st1] [H1 H2]]; cbv beta iota in H2; inv_all; got ].
  all: try solve [ destruct (env_get (st_env st) x) as [[t [|]]|]; try discriminate;
                   apply cbind_ok in Hp; destruct Hp as [[[tas t'] st1] [H1 H2]];
                   match goal with Hi : In _ _ |- _ =>
                     destruct (accs_loop_In _ _ _ _ _ _ _ H1 Hi) as [st' Hx]; exists f, st'; exact Hx end ].
  all: try solve [ inv_all; destruct f as [|f]; [discriminate|];
                   match goal with Hm : Infer.check_stmts _ _ _ _ _ = COk _, Hi : In _ _ |- _ =>
                     cbn [Infer.check_stmts] in Hm; refold Hm;
                     destruct (mapM_st_In _ _ _ _ _ Hm Hi) as [st' Hx]; exists f, st'; exact Hx end ].
Qed.

(* THE LIFTING LEMMA: every node that occurs in an accepted node is accepted (with some fuel, in
   some state) *)
Theorem sub_acc n m : sub n m -> acc m -> acc n.
Proof. induction 1; auto. intro Hk. apply IHsub. eapply child_acc; eauto. Qed.

(* contrapositive: a node that is rejected in EVERY state makes every context rejected *)
Definition never_ok (n : node) : Prop :=
  forall f st,
    match n with
    | NE e => is_ok (check_expr f D st e) = false
    | NS s => is_ok (check_stmt f D st s) = false
    end.

Corollary context_rejected n m : sub n m -> never_ok n -> never_ok m.
Proof.
  intros Hs Hn f st. destruct (match m with NE e => is_ok (check_expr f D st e) | NS s => is_ok (check_stmt f D st s) end) eqn:E; [|destruct m; exact E].
  assert (Ha : acc m) by (exists f, st; destruct m; exact E).
  destruct (sub_acc _ _ Hs Ha) as [f' [st' H']]. specialize (Hn f' st'). destruct n; congruence.
Qed.

End Sub.

(* ------------------------------------------------------------------ an invariant of TypedFns.typed *)

Ltac destr_tuples := repeat match goal with x : (_ * _)%type |- _ => destruct x end.
Ltac inv_all' := repeat (progress (inv_all; destr_tuples; cbn [fst snd] in * )).

Section TypedInv.
Variable intern : list N -> N.
Variable D : defs.
Notation check_expr := (check_expr intern).
Notation check_stmt := (check_stmt intern).
Notation check_stmts := (check_stmts intern).
Notation check_block := (check_block intern).
Notation check_fn := (check_fn intern).

(* a property of the entries of `typed` that holds for whatever a successful function check
   inserts is an invariant of the whole checker *)
Variable Q : list N * tfndef -> Prop.
Hypothesis Q_ins : forall f st ufd r id,
  find (fun d => list_eqb (uf_name d) id) (d_fns D) = Some ufd ->
  check_fn f D st ufd = COk r -> Q (id, fst r).

Definition R (st st' : cstate) : Prop := Forall Q (st_typed st) -> Forall Q (st_typed st').

Lemma R_refl st : R st st. Proof. unfold R; auto. Qed.
Lemma R_trans a b c : R a b -> R b c -> R a c. Proof. unfold R; auto. Qed.

Lemma mapM_st_R {A B} (g : cstate -> A -> cres (B * cstate)) :
  (forall st x r, g st x = COk r -> R st (snd r)) ->
  forall l st r, mapM_st g st l = COk r -> R st (snd r).
Proof.
  intros Hg. induction l as [|x l IH]; intros st r H; cbn [mapM_st] in H; inv_all; [apply R_refl|].
  cbn [snd]. eapply R_trans; [eapply Hg; eauto|eapply IH; eauto].
Qed.

Lemma accs_loop_R ce fu :
  (forall st x r, ce st x = COk r -> R st (snd r)) ->
  forall accs st t r, accs_loop ce fu D st t accs = COk r -> R st (snd r).
Proof.
  intros Hce. induction accs as [|a accs IH]; intros st t r H; cbn [accs_loop] in H; [inv_all; apply R_refl|].
  apply cbind_ok in H. destruct H as [[[ta t'] st'] [H1 H2]]. cbv beta iota in H2.
  apply cbind_ok in H2. destruct H2 as [[[tas tf] st''] [H2 H3]]. cbv beta iota in H3. inv_all. cbn [snd].
  apply IH in H2. cbn [snd] in H2. eapply R_trans; [|exact H2]. clear H2 IH.
  destruct a.
  - inv_all'. match goal with H : ce _ _ = _ |- _ => apply Hce in H; exact H end.
  - inv_all'. destruct (nthN _ _); inv_all. apply R_refl.
  - inv_all'. destruct (assocL _ (d_structs D)); [|discriminate]. destruct (assocL _ _); inv_all. apply R_refl.
Qed.

Lemma struct_lit_loop_R ce f sd :
  (forall st x r, ce st x = COk r -> R st (snd r)) ->
  forall fields seen st r, struct_lit_loop ce f sd seen st fields = COk r -> R st (snd r).
Proof.
  intros Hce. induction fields as [|[fname fv] fields IH]; intros seen st r H; cbn [struct_lit_loop] in H; inv_all; [apply R_refl|].
  destruct (assocL fname sd); [|discriminate]. inv_all. cbn [snd].
  eapply R_trans; [eapply Hce; eauto|eapply IH; eauto].
Qed.

Ltac refold H :=
  fold (Infer.check_expr intern) (Infer.check_stmts intern) (Infer.check_block intern)
       (Infer.check_fn intern) (Infer.check_stmt intern) in H.

Ltac use_R IHe IHss IHb IHs IHf := repeat match goal with
  | H : Infer.check_expr _ _ _ _ _ = COk _ |- _ => apply IHe in H
  | H : Infer.check_stmts _ _ _ _ _ = COk _ |- _ => apply IHss in H
  | H : Infer.check_block _ _ _ _ _ = COk _ |- _ => apply IHb in H
  | H : Infer.check_fn _ _ _ _ _ = COk _ |- _ => apply IHf in H
  | H : mapM_st (Infer.check_expr _ _ _) _ _ = COk _ |- _ => apply (mapM_st_R _ IHe) in H
  | H : mapM_st (Infer.check_stmt _ _ _) _ _ = COk _ |- _ => apply (mapM_st_R _ IHs) in H
  | H : accs_loop _ _ _ _ _ _ = COk _ |- _ => apply (accs_loop_R _ _ IHe) in H
  | H : struct_lit_loop _ _ _ _ _ _ = COk _ |- _ => apply (struct_lit_loop_R _ _ _ IHe) in H
  end.

Ltac finR := unfold R in *; cbn [snd fst st_typed with_env] in *; eauto 12.

Theorem check_typed_inv f :
  (forall st e r, check_expr f D st e = COk r -> R st (snd r)) /\
  (forall st b r, check_stmts f D st b = COk r -> R st (snd r)) /\
  (forall st b r, check_block f D st b = COk r -> R st (snd r)) /\
  (forall st s r, check_stmt f D st s = COk r -> R st (snd r)) /\
  (forall st fd r, check_fn f D st fd = COk r -> R st (snd r)).
Proof.
  induction f as [|f IH].
  { repeat split; intros; discriminate. }
  destruct IH as (IHe & IHss & IHb & IHs & IHf).
  split; [|split; [|split; [|split]]].
  - intros st e r H. destruct e; cbn [Infer.check_expr] in H; refold H.
    + inv_all; apply R_refl.
    + inv_all; apply R_refl.
    + inv_all; apply R_refl.
    + inv_all; apply R_refl.
    + destruct (env_get (st_env st) s) as [[? ?]|]; [inv_all; apply R_refl|].
      destruct (assocL s (d_consts D)); inv_all; apply R_refl.
    + inv_all. destruct (fst a) eqn:E; [discriminate|]. inv_all. use_R IHe IHss IHb IHs IHf. finR.
    + inv_all. use_R IHe IHss IHb IHs IHf. finR.
    + discriminate.
    + inv_all. use_R IHe IHss IHb IHs IHf. finR.
    + inv_all. use_R IHe IHss IHb IHs IHf. finR.
    + inv_all. destruct (nthN _ _); inv_all. use_R IHe IHss IHb IHs IHf. finR.
    + inv_all. destruct (assocL _ (d_structs D)); [|discriminate]. destruct (assocL _ _); inv_all. use_R IHe IHss IHb IHs IHf. finR.
    + destruct (assocL name (d_structs D)); [|discriminate]. inv_all. use_R IHe IHss IHb IHs IHf. finR.
    + destruct (assocL e (d_enums D)) as [ed|]; [|discriminate]. destruct (assocL v ed) as [[?|]|]; try discriminate;
        destruct args; try discriminate; inv_all; use_R IHe IHss IHb IHs IHf; finR.
    + (* match *)
      inv_all. destruct (ty_of (fst a)) eqn:Ety; try discriminate; inv_all;
      (destruct (fst a0) as [|[? ?] ?] eqn:E0; [discriminate|]; inv_all; cbn [snd];
       match goal with H1 : mapM_st _ _ _ = COk ?a0 |- R _ (snd ?a0) =>
         apply mapM_st_R in H1;
         [use_R IHe IHss IHb IHs IHf; finR
         |intros st0 pc r0 H0; inv_all; use_R IHe IHss IHb IHs IHf; finR] end).
    + destruct o; inv_all; use_R IHe IHss IHb IHs IHf; finR.
    + inv_all. destruct o; inv_all;
        try (match goal with x : texpr * texpr * cty |- _ => destruct x as [[? ?] ?] end; inv_all);
        try (destruct (ty_of (fst a)); try discriminate; destruct (ty_of (fst a0)); try discriminate; inv_all);
        use_R IHe IHss IHb IHs IHf; finR.
    + apply cbind_ok in H. destruct H as [[[body ty] st'] [H1 H]]. cbv beta iota in H. inv_all.
      use_R IHe IHss IHb IHs IHf. finR.
    + (* call *)
      apply cbind_ok in H. destruct H as [st1 [H1 H]]. cbv beta in H.
      assert (Hst1 : R st st1).
      { destruct (negb _) in H1; [|inv_all; apply R_refl].
        destruct (find _ (d_fns D)) eqn:Ef; [|inv_all; apply R_refl].
        apply cbind_ok in H1. destruct H1 as [[fd1 st2] [H1 H2]]. cbv beta in H2. inv_all.
        pose proof (Q_ins _ _ _ _ _ Ef H1) as Hq. apply IHf in H1. unfold R in *. cbn [snd fst st_typed] in *.
        intro H0. constructor; auto. }
      clear H1.
      destruct (assocL f0 (st_typed st1)); [|discriminate].
      destruct (env_get (st_env st1) f0); [discriminate|]. inv_all. use_R IHe IHss IHb IHs IHf. finR.
    + discriminate.
    + inv_all. destruct a3 as [[? ?] ?]. inv_all. use_R IHe IHss IHb IHs IHf. finR.
    + inv_all. use_R IHe IHss IHb IHs IHf. finR.
    + inv_all. apply R_refl.
  - intros st b r H. cbn [Infer.check_stmts] in H. refold H. use_R IHe IHss IHb IHs IHf. exact H.
  - intros st b r H. cbn [Infer.check_block] in H. refold H. inv_all. use_R IHe IHss IHb IHs IHf. finR.
  - intros st s r H. destruct s; cbn [Infer.check_stmt] in H; refold H.
    + inv_all. use_R IHe IHss IHb IHs IHf. finR.
    + inv_all. use_R IHe IHss IHb IHs IHf. finR.
    + destruct (env_get (st_env st) x) as [[t [|]]|]; try discriminate.
      apply cbind_ok in H. destruct H as [[[tas t'] st1] [H1 H]]. cbv beta iota in H. inv_all.
      use_R IHe IHss IHb IHs IHf. finR.
    + inv_all. use_R IHe IHss IHb IHs IHf. finR.
    + inv_all. use_R IHe IHss IHb IHs IHf. finR.
  - intros st fd r H. cbn [Infer.check_fn] in H. refold H. inv_all.
    destruct a0 as [[body ?] st1]. inv_all. use_R IHe IHss IHb IHs IHf. finR.
Qed.

End TypedInv.

(* ------------------------------------------------------------------ whole programs *)

Section Program.
Variable intern : list N -> N.

Definition body_acc (D : defs) (fd : ufndef) : Prop :=
  forall s, In s (uf_body fd) -> acc intern D (NS s).

Ltac refold H :=
  fold (Infer.check_expr intern) (Infer.check_stmts intern) (Infer.check_block intern)
       (Infer.check_fn intern) (Infer.check_stmt intern) in H.

Lemma check_fn_body_acc f D st fd r : check_fn intern f D st fd = COk r -> body_acc D fd.
Proof.
  destruct f as [|f]; [discriminate|]. cbn [check_fn]. intro H. refold H. inv_all.
  match goal with Hblk : Infer.check_block _ _ _ _ _ = COk _ |- _ =>
    destruct f as [|f]; [discriminate|]; cbn [check_block] in Hblk; refold Hblk end. inv_all.
  intros s Hs.
  match goal with Hm : mapM_st _ _ (uf_body fd) = COk _ |- _ =>
    destruct (mapM_st_In _ _ _ _ _ Hm Hs) as [st' Hx] end. exists f, st'. exact Hx.
Qed.

(* the entries of `typed`: the function of that name (the first one in the program) has an
   accepted body *)
Definition Qb (D : defs) (nd : list N * tfndef) : Prop :=
  forall ufd, find (fun d => list_eqb (uf_name d) (fst nd)) (d_fns D) = Some ufd -> body_acc D ufd.

Lemma Qb_ins D : forall f st ufd r id,
  find (fun d => list_eqb (uf_name d) id) (d_fns D) = Some ufd ->
  check_fn intern f D st ufd = COk r -> Qb D (id, fst r).
Proof.
  intros f st ufd r id Hf Hc ufd' Hf'. cbn [fst] in Hf'. rewrite Hf in Hf'. inversion Hf'; subst.
  eapply check_fn_body_acc; eauto.
Qed.

Lemma Forall_filter {A} (Q : A -> Prop) p l : Forall Q l -> Forall Q (filter p l).
Proof. rewrite !Forall_forall. intros H x Hx. apply filter_In in Hx. apply H, Hx. Qed.

Lemma pub_loop D fuel : forall fns st st',
  (fix go (fns : list ufndef) (st : cstate) : cres cstate :=
     match fns with
     | [] => COk st
     | fd :: r =>
         if uf_pub fd then
           match uf_params fd with
           | [] => CErr E_PubFnWithoutParams
           | _ =>
               do r1 <- check_fn intern fuel D st fd;
               go r (mkSt (st_env (snd r1))
                          ((uf_name fd, fst r1) ::
                           filter (fun nd => negb (list_eqb (fst nd) (uf_name fd))) (st_typed (snd r1)))
                          (st_checking (snd r1)))
           end
         else go r st
     end) fns st = COk st' ->
  (forall fd, In fd fns -> find (fun d => list_eqb (uf_name d) (uf_name fd)) (d_fns D) = Some fd) ->
  Forall (Qb D) (st_typed st) ->
  Forall (Qb D) (st_typed st') /\ (forall fd, In fd fns -> uf_pub fd = true -> body_acc D fd).
Proof.
  induction fns as [|fd fns IH]; intros st st' H Hnd HQ.
  - inv_all. split; [assumption|]. intros fd [].
  - destruct (uf_pub fd) eqn:Epub.
    + destruct (uf_params fd) eqn:Epar; [discriminate|].
      apply cbind_ok in H. destruct H as [[tfd st1] [H1 H2]]. cbv beta in H2. cbn [fst snd] in H2.
      pose proof (check_fn_body_acc _ _ _ _ _ H1) as Hbody.
      apply IH in H2; [|intros; apply Hnd; right; assumption|].
      * destruct H2 as [HQ' Hin]. split; [assumption|].
        intros fd' [<-|Hin'] Hp; [exact Hbody|apply Hin; assumption].
      * cbn [st_typed]. constructor.
        -- intros ufd Hf. cbn [fst] in Hf.
           (* the entry describes the FIRST function of that name; its body is accepted by the
              invariant or because it is [fd] itself *)
           rewrite (Hnd fd (or_introl eq_refl)) in Hf. inversion Hf; subst. exact Hbody.
        -- apply Forall_filter.
           exact (proj2 (proj2 (proj2 (proj2 (check_typed_inv intern D (Qb D) (Qb_ins D) fuel)))) _ _ _ H1 HQ).
    + apply IH in H; [|intros; apply Hnd; right; assumption|assumption]. destruct H as [HQ' Hin]. split; [assumption|].
      intros fd' [<-|Hin'] Hp; [congruence|apply Hin; assumption].
Qed.

Lemma find_by_name (l : list ufndef) : NoDup (map uf_name l) ->
  forall fd, In fd l -> find (fun d => list_eqb (uf_name d) (uf_name fd)) l = Some fd.
Proof.
  induction l as [|d l IH]; intros Hnd fd Hin; [destruct Hin|].
  inversion Hnd as [|? ? Hnotin Hnd']; subst. cbn [find].
  destruct Hin as [->|Hin]; [rewrite list_eqb_refl; reflexivity|].
  destruct (list_eqb (uf_name d) (uf_name fd)) eqn:E; [|apply IH; assumption].
  apply list_eqb_eq in E. exfalso. apply Hnotin. rewrite E. apply in_map. assumption.
Qed.

(* a node occurs in the program: in the body of one of its functions *)
Definition occurs (n : node) (P : uprogram) : Prop :=
  exists fd s, In fd (up_fns P) /\ In s (uf_body fd) /\ sub n (NS s).

(* ACCEPTED IMPLIES EVERY SUB-TERM WAS ACCEPTED: if the program is accepted, every expression and
   statement of every function (pub or not) was accepted by check_expr / check_stmt with some
   fuel in some state, under the definitions D of the program *)
Theorem accepted_all_nodes fuel P T :
  NoDup (map uf_name (up_fns P)) ->
  check_program_t intern fuel P = COk T ->
  exists D, d_fns D = up_fns P /\ forall n, occurs n P -> acc intern D n.
Proof.
  intros Hnd H. unfold check_program_t in H.
  apply cbind_ok in H. destruct H as [consts [_ H]].
  apply cbind_ok in H. destruct H as [structs [_ H]].
  apply cbind_ok in H. destruct H as [enums [_ H]].
  apply cbind_ok in H. destruct H as [u [_ H]].
  cbv zeta in H.
  match type of H with context [check_fn intern fuel ?D0] => set (D := D0) in * end.
  apply cbind_ok in H. destruct H as [stf [Hloop H]].
  exists D. split; [reflexivity|].
  apply pub_loop in Hloop; [| intros fd Hfd; apply (find_by_name _ Hnd _ Hfd) | constructor].
  destruct Hloop as [HQ Hpub].
  match type of H with (if ?c then _ else _) = _ => destruct c eqn:Eun; [discriminate|] end.
  assert (Hall : forall fd, In fd (up_fns P) -> body_acc D fd).
  { intros fd Hfd. destruct (uf_pub fd) eqn:Epub; [apply Hpub; assumption|].
    rewrite <- not_true_iff_false in Eun. rewrite existsb_exists in Eun.
    destruct (assocL (uf_name fd) (st_typed stf)) as [tfd|] eqn:Ea.
    - assert (Hin : exists nd, In nd (st_typed stf) /\ fst nd = uf_name fd).
      { clear - Ea. induction (st_typed stf) as [|[k v] l IH]; [discriminate|]. cbn [assocL] in Ea.
        destruct (list_eqb (uf_name fd) k) eqn:E.
        - apply list_eqb_eq in E. exists (k, v). split; [left; reflexivity|auto].
        - destruct (IH Ea) as [nd [? ?]]. exists nd. split; [right; assumption|assumption]. }
      destruct Hin as [nd [Hnd1 Hnd2]]. rewrite Forall_forall in HQ. specialize (HQ nd Hnd1).
      apply HQ. rewrite Hnd2. apply (find_by_name _ Hnd _ Hfd).
    - exfalso. apply Eun. exists fd. split; [assumption|]. rewrite Epub, Ea. reflexivity. }
  intros n [fd [s [Hfd [Hs Hsub]]]]. eapply sub_acc; [exact Hsub|]. apply (Hall fd Hfd s Hs).
Qed.

(* the lifting in its contrapositive form: a program that contains, anywhere, a node that the
   checker rejects in EVERY state (under every definition table) is rejected *)
Corollary node_never_ok_program_rejected fuel P n :
  NoDup (map uf_name (up_fns P)) -> occurs n P ->
  (forall D, d_fns D = up_fns P -> never_ok intern D n) ->
  is_ok (check_program_t intern fuel P) = false /\ is_ok (check_program intern fuel P) = false.
Proof.
  intros Hnd Hocc Hnever.
  assert (H1 : is_ok (check_program_t intern fuel P) = false).
  { destruct (check_program_t intern fuel P) as [T| | |] eqn:E; try reflexivity.
    destruct (accepted_all_nodes _ _ _ Hnd E) as [D [HD Hacc]].
    destruct (Hacc n Hocc) as [f [st Hok]]. specialize (Hnever D HD f st). destruct n; congruence. }
  split; [exact H1|]. unfold check_program. destruct (check_program_t intern fuel P); try discriminate; reflexivity.
Qed.

End Program.

(* ------------------------------------------------------------------ the C17 rules, in every context *)

Section Rules.
Variable intern : list N -> N.
Notation check_expr := (check_expr intern).
Notation check_stmt := (check_stmt intern).

(* a sub-expression that is accepted always gets a type satisfying [bad] *)
Definition always_ty (D : defs) (e : xexpr) (bad : cty -> Prop) : Prop :=
  forall f st e1 st1, check_expr f D st e = COk (e1, st1) -> bad (ty_of e1).

Lemma not_ok_of {A} (r : cres A) : (forall a, r <> COk a) -> is_ok r = false.
Proof. destruct r; intro H; try reflexivity. exfalso. eapply H. reflexivity. Qed.

Lemma never_ok_if D c a b : always_ty D c (fun t => t <> CBool) -> never_ok intern D (NE (XIf c a b)).
Proof.
  intros Hc [|f] st; [reflexivity|]. cbn beta iota.
  destruct (check_expr f D st c) as [[c1 st1]| | |] eqn:E.
  - eapply if_cond_not_bool_rejected; [exact E|]. eapply Hc. exact E.
  - cbn [Infer.check_expr]. rewrite E. reflexivity.
  - cbn [Infer.check_expr]. rewrite E. reflexivity.
  - cbn [Infer.check_expr]. rewrite E. reflexivity.
Qed.

(* operands whose types can never be unified *)
Lemma never_ok_op D op x y (bx by_ : cty -> Prop) :
  uses_unify op = true -> always_ty D x bx -> always_ty D y by_ ->
  (forall t1 t2, bx t1 -> by_ t2 -> unify_compat t1 t2 = false) ->
  never_ok intern D (NE (XOp op x y)).
Proof.
  intros Hop Hx Hy Hbad [|f] st; [reflexivity|]. cbn beta iota.
  destruct (check_expr f D st x) as [[x1 st1]| | |] eqn:Ex; try (cbn [Infer.check_expr]; rewrite Ex; reflexivity).
  destruct (check_expr f D st1 y) as [[y1 st2]| | |] eqn:Ey;
    try (cbn [Infer.check_expr]; rewrite Ex; cbn [cbind snd]; rewrite Ey; reflexivity).
  rewrite (operands_differ_rejected intern f D st op x y x1 st1 y1 st2 Hop Ex Ey); [reflexivity|].
  apply Hbad; [eapply Hx; exact Ex|eapply Hy; exact Ey].
Qed.

Lemma never_ok_index D a i :
  always_ty D i (fun t => t <> CUnsigned Usize /\ t <> CUnsigned UnspecifiedU) ->
  never_ok intern D (NE (XArrayAccess a i)).
Proof.
  intros Hi [|f] st; [reflexivity|]. cbn beta iota.
  destruct (check_expr f D st a) as [[a1 st1]| | |] eqn:Ea; try (cbn [Infer.check_expr]; rewrite Ea; reflexivity).
  destruct (check_expr f D st1 i) as [[i1 st2]| | |] eqn:Ei;
    try (cbn [Infer.check_expr]; rewrite Ea; cbn [cbind snd]; rewrite Ei; reflexivity).
  destruct (Hi _ _ _ _ Ei) as [H1 H2].
  eapply index_not_usize_rejected; eauto.
Qed.

Lemma never_ok_neg D x : always_ty D x (fun t => forall s, t <> CSigned s) ->
  never_ok intern D (NE (XUnaryOp UoNeg x)).
Proof.
  intros Hx [|f] st; [reflexivity|]. cbn beta iota.
  destruct (check_expr f D st x) as [[x1 st1]| | |] eqn:Ex; try (cbn [Infer.check_expr]; rewrite Ex; reflexivity).
  rewrite (neg_unsigned_rejected intern f D st x x1 st1 Ex); [reflexivity|]. eapply Hx. exact Ex.
Qed.

Lemma never_ok_shift D op x y : op = BShiftLeft \/ op = BShiftRight ->
  always_ty D y (fun t => t <> CUnsigned U8 /\ t <> CUnsigned UnspecifiedU) ->
  never_ok intern D (NE (XOp op x y)).
Proof.
  intros Hop Hy [|f] st; [reflexivity|]. cbn beta iota.
  destruct (check_expr f D st x) as [[x1 st1]| | |] eqn:Ex; try (cbn [Infer.check_expr]; rewrite Ex; reflexivity).
  destruct (check_expr f D st1 y) as [[y1 st2]| | |] eqn:Ey;
    try (cbn [Infer.check_expr]; rewrite Ex; cbn [cbind snd]; rewrite Ey; reflexivity).
  destruct (Hy _ _ _ _ Ey) as [H1 H2].
  eapply shift_amount_not_u8_rejected; eauto.
Qed.

Lemma never_ok_tuple_index D e i n :
  always_ty D e (fun t => exists ts, t = CTuple ts /\ lenN ts = n) -> n <= i ->
  never_ok intern D (NE (XTupleAccess e i)).
Proof.
  intros He Hi [|f] st; [reflexivity|]. cbn beta iota.
  destruct (check_expr f D st e) as [[e1 st1]| | |] eqn:Ee; try (cbn [Infer.check_expr]; rewrite Ee; reflexivity).
  destruct (He _ _ _ _ Ee) as [ts [Ht Hn]].
  rewrite (tuple_index_out_of_range_rejected intern f D st e i e1 st1 ts Ee Ht); [reflexivity|lia].
Qed.

(* an identifier / an assignment target that no state can resolve: stated for the states the
   checker can be in is beyond a syntactic lemma; the local forms are [unknown_identifier_rejected],
   [assign_unbound_rejected], [assign_immutable_rejected], [unknown_function_rejected]; they lift
   through [context_rejected] to every context that is checked in such a state. *)

(* the types of literals *)
Lemma always_ty_num_u D n t : always_ty D (XNumUnsigned n t) (fun ty => ty = CUnsigned t).
Proof. intros [|f] st e1 st1 H; [discriminate|]. cbn in H. inversion H. reflexivity. Qed.
Lemma always_ty_num_s D z t : always_ty D (XNumSigned z t) (fun ty => ty = CSigned t).
Proof. intros [|f] st e1 st1 H; [discriminate|]. cbn in H. inversion H. reflexivity. Qed.
Lemma always_ty_true D : always_ty D XTrue (fun ty => ty = CBool).
Proof. intros [|f] st e1 st1 H; [discriminate|]. cbn in H. inversion H. reflexivity. Qed.
Lemma always_ty_false D : always_ty D XFalse (fun ty => ty = CBool).
Proof. intros [|f] st e1 st1 H; [discriminate|]. cbn in H. inversion H. reflexivity. Qed.

Lemma always_ty_weaken D e (b1 b2 : cty -> Prop) : (forall t, b1 t -> b2 t) -> always_ty D e b1 -> always_ty D e b2.
Proof. intros Hw H f st e1 st1 Hc. apply Hw. eapply H. exact Hc. Qed.

(* syntactically ill-typed nodes: rejected in every state *)
Definition is_num_lit (e : xexpr) : bool :=
  match e with XNumUnsigned _ _ | XNumSigned _ _ => true | _ => false end.
Definition is_bool_lit (e : xexpr) : bool :=
  match e with XTrue | XFalse => true | _ => false end.
Definition num_ty (t : cty) : Prop := (exists u, t = CUnsigned u) \/ (exists s, t = CSigned s).

Lemma lit_bool D e : is_bool_lit e = true -> always_ty D e (fun t => t = CBool).
Proof. destruct e; try discriminate; intros _; [apply always_ty_true|apply always_ty_false]. Qed.
Lemma lit_num D e : is_num_lit e = true -> always_ty D e num_ty.
Proof.
  destruct e; try discriminate; intros _.
  - eapply always_ty_weaken; [|apply always_ty_num_u]. intros ? ->. left. eauto.
  - eapply always_ty_weaken; [|apply always_ty_num_s]. intros ? ->. right. eauto.
Qed.

Definition bad_if (n : node) : bool :=                      (* `if 1 { .. } else { .. }` *)
  match n with NE (XIf c _ _) => is_num_lit c | _ => false end.
Definition bad_neg (n : node) : bool :=                     (* `-true`, `-(5u8)` *)
  match n with
  | NE (XUnaryOp UoNeg x) => is_bool_lit x || match x with XNumUnsigned _ _ => true | _ => false end
  | _ => false
  end.
Definition bad_index (n : node) : bool :=                   (* `a[true]` *)
  match n with NE (XArrayAccess _ i) => is_bool_lit i | _ => false end.
Definition bad_operands (n : node) : bool :=                (* `true + 1`, `1 == false` *)
  match n with
  | NE (XOp op x y) => uses_unify op && ((is_bool_lit x && is_num_lit y) || (is_num_lit x && is_bool_lit y))
  | _ => false
  end.
Definition bad_shift (n : node) : bool :=                   (* `x << true` *)
  match n with
  | NE (XOp BShiftLeft _ y) | NE (XOp BShiftRight _ y) => is_bool_lit y
  | _ => false
  end.
Definition bad_node (n : node) : bool :=
  bad_if n || bad_neg n || bad_index n || bad_operands n || bad_shift n.

Lemma bad_if_never_ok D n : bad_if n = true -> never_ok intern D n.
Proof.
  destruct n as [[]|]; try discriminate. cbn [bad_if]. intro H. apply never_ok_if.
  eapply always_ty_weaken; [|apply lit_num; exact H]. intros tt [[u ->]|[s0 ->]]; discriminate.
Qed.

Lemma bad_neg_never_ok D n : bad_neg n = true -> never_ok intern D n.
Proof.
  destruct n as [[]|]; try discriminate. cbn [bad_neg].
  match goal with |- context [match ?o with UoNot => _ | UoNeg => _ end] => destruct o end; [discriminate|].
  intro H. apply never_ok_neg. apply orb_true_iff in H. destruct H as [H|H].
  - eapply always_ty_weaken; [|apply lit_bool; exact H]. intros tt -> s0. discriminate.
  - match goal with |- always_ty _ ?x _ => destruct x; try discriminate end.
    eapply always_ty_weaken; [|apply always_ty_num_u]. intros ? -> s0. discriminate.
Qed.

Lemma bad_index_never_ok D n : bad_index n = true -> never_ok intern D n.
Proof.
  destruct n as [[]|]; try discriminate. cbn [bad_index]. intro H. apply never_ok_index.
  eapply always_ty_weaken; [|apply lit_bool; exact H]. intros tt ->. split; discriminate.
Qed.

Lemma bad_operands_never_ok D n : bad_operands n = true -> never_ok intern D n.
Proof.
  destruct n as [[]|]; try discriminate. cbn [bad_operands]. intro H.
  apply andb_true_iff in H. destruct H as [Hop H]. apply orb_true_iff in H.
  destruct H as [H|H]; apply andb_true_iff in H; destruct H as [Hl Hr].
  - eapply never_ok_op; [exact Hop|apply lit_bool; exact Hl|apply lit_num; exact Hr|].
    intros t1 t2 -> [[u ->]|[s0 ->]]; [destruct u|destruct s0]; reflexivity.
  - eapply never_ok_op; [exact Hop|apply lit_num; exact Hl|apply lit_bool; exact Hr|].
    intros t1 t2 [[u ->]|[s0 ->]] ->; [destruct u|destruct s0]; reflexivity.
Qed.

Lemma bad_shift_never_ok D n : bad_shift n = true -> never_ok intern D n.
Proof.
  destruct n as [[]|]; try discriminate. cbn [bad_shift].
  match goal with |- context [match ?o with BAdd => _ | _ => _ end] => destruct o end; try discriminate;
    (intro H; apply never_ok_shift; [auto|];
     eapply always_ty_weaken; [|apply lit_bool; exact H]; intros tt ->; split; discriminate).
Qed.

Lemma bad_node_never_ok D n : bad_node n = true -> never_ok intern D n.
Proof.
  unfold bad_node. intro H. repeat (apply orb_true_iff in H; destruct H as [H|H]).
  - apply bad_if_never_ok; assumption.
  - apply bad_neg_never_ok; assumption.
  - apply bad_index_never_ok; assumption.
  - apply bad_operands_never_ok; assumption.
  - apply bad_shift_never_ok; assumption.
Qed.

(* C17, syntactic form: a program that contains one of these nodes ANYWHERE (in any function,
   at any depth, in any context) is rejected *)
Theorem contains_bad_node_rejected fuel P n :
  NoDup (map uf_name (up_fns P)) -> occurs n P -> bad_node n = true ->
  is_ok (check_program_t intern fuel P) = false /\ is_ok (check_program intern fuel P) = false.
Proof.
  intros Hnd Hocc Hbad. eapply node_never_ok_program_rejected; eauto.
  intros D _. apply bad_node_never_ok. exact Hbad.
Qed.

(* C17, semantic form (one instance per rule): the node occurs anywhere and its operand can never
   have an admissible type *)
Theorem if_cond_never_bool_rejected fuel P c a b :
  NoDup (map uf_name (up_fns P)) -> occurs (NE (XIf c a b)) P ->
  (forall D, d_fns D = up_fns P -> always_ty D c (fun t => t <> CBool)) ->
  is_ok (check_program intern fuel P) = false.
Proof.
  intros Hnd Hocc Hc. eapply node_never_ok_program_rejected; eauto.
  intros D HD. apply never_ok_if. auto.
Qed.

Theorem operands_never_unify_rejected fuel P op x y (bx by_ : cty -> Prop) :
  NoDup (map uf_name (up_fns P)) -> occurs (NE (XOp op x y)) P -> uses_unify op = true ->
  (forall D, d_fns D = up_fns P -> always_ty D x bx /\ always_ty D y by_) ->
  (forall t1 t2, bx t1 -> by_ t2 -> unify_compat t1 t2 = false) ->
  is_ok (check_program intern fuel P) = false.
Proof.
  intros Hnd Hocc Hop Hxy Hbad. eapply node_never_ok_program_rejected; eauto.
  intros D HD. destruct (Hxy D HD). eapply never_ok_op; eauto.
Qed.

Theorem index_never_usize_rejected fuel P a i :
  NoDup (map uf_name (up_fns P)) -> occurs (NE (XArrayAccess a i)) P ->
  (forall D, d_fns D = up_fns P -> always_ty D i (fun t => t <> CUnsigned Usize /\ t <> CUnsigned UnspecifiedU)) ->
  is_ok (check_program intern fuel P) = false.
Proof.
  intros Hnd Hocc Hi. eapply node_never_ok_program_rejected; eauto.
  intros D HD. apply never_ok_index. auto.
Qed.

Theorem tuple_index_never_in_range_rejected fuel P e i n :
  NoDup (map uf_name (up_fns P)) -> occurs (NE (XTupleAccess e i)) P -> n <= i ->
  (forall D, d_fns D = up_fns P -> always_ty D e (fun t => exists ts, t = CTuple ts /\ lenN ts = n)) ->
  is_ok (check_program intern fuel P) = false.
Proof.
  intros Hnd Hocc Hi He. eapply node_never_ok_program_rejected; eauto.
  intros D HD. eapply never_ok_tuple_index; eauto.
Qed.

End Rules.

Print Assumptions child_acc.
Print Assumptions sub_acc.
Print Assumptions context_rejected.
Print Assumptions check_typed_inv.
Print Assumptions accepted_all_nodes.
Print Assumptions node_never_ok_program_rejected.
Print Assumptions contains_bad_node_rejected.
Print Assumptions if_cond_never_bool_rejected.
Print Assumptions operands_never_unify_rejected.
Print Assumptions index_never_usize_rejected.
Print Assumptions tuple_index_never_in_range_rejected.
