(* C07, the headline statement for the modelled stages, FROM THE TEXT: bytes -> scanner (Front/Scan.v) ->
   parser (Front/ParseExpr.v) -> type checker and exporter (Check/Infer.v), each run with a fuel computed
   from its input.  The front end always answers with tokens errors, a parse error, a type error, "outside
   the checker model" or a typed program: it never runs out of fuel, never crashes, never panics. *)
From Coq Require Import Lia Bool.
From GV Require Import Base.Util Front.Scan Front.ScanProofs Front.ParseExpr Front.ParseTotal Check.UAst Check.Infer
  Check.InferTotal Front.ParseWf Check.InferFuel Check.InferFuel2 Check.InferFuel4.
From GV Require Lang.Ast.
Local Open Scope N_scope.

Inductive front_result :=
| FOk (A : Ast.program)                 (* accepted: the exported typed program *)
| FScanErrors (es : list scan_error)    (* the scanner's errors *)
| FParseError                           (* the parser's Err (POutside, which the parser model no longer produces, is folded in here) *)
| FTypeError (code : N)                 (* the checker's first TypeError *)
| FOutside                              (* a construct outside the checker model: join, const-sized arrays, non-literal consts *)
| FInternal.                            (* out of fuel / crash / panic: NEVER the answer (front_end_total) *)

Definition front_end (intern : list N -> N) (bytes : list N) (main : list N) : front_result :=
  match scan_text bytes with
  | Ok (STokens ts) =>
      match parse_program_text (length ts + 4) ts with
      | POk up _ =>
          let P := uprogram_of_parsed up main in
          match check_program intern (check_fuel_needed P) P with
          | COk A => FOk A
          | CErr c => if c =? E_Panic then FInternal else FTypeError c
          | COutside => FOutside
          | CNoFuel => FInternal
          end
      | PNoFuel => FInternal
      | PErr | POutside _ => FParseError
      end
  | Ok (SErrors es) => FScanErrors es
  | Crash | OutOfFuel => FInternal
  end.

(* the program the checker is run on, if the text scans and parses *)
Definition parsed_program (bytes : list N) (main : list N) : option uprogram :=
  match scan_text bytes with
  | Ok (STokens ts) =>
      match parse_program_text (length ts + 4) ts with
      | POk up _ => Some (uprogram_of_parsed up main)
      | _ => None
      end
  | _ => None
  end.

(* (1) the scanner never runs out of fuel and never crashes *)
Lemma scan_text_total bytes : exists out, scan_text bytes = Ok out.
Proof. unfold scan_text. apply scan_total_lemma. Qed.

(* (2) the parser never runs out of fuel *)
Lemma parse_total ts : parse_program_text (length ts + 4) ts <> PNoFuel.
Proof. apply parse_program_text_total. lia. Qed.

(* (3) the checker never panics on what the parser produces, whatever the fuel *)
Lemma check_no_panic intern ts f up st main g :
  parse_program_text f ts = POk up st -> check_program intern g (uprogram_of_parsed up main) <> CErr E_Panic.
Proof. apply front_end_never_panics. Qed.

Lemma check_program_nofuel intern f P : check_program intern f P = CNoFuel -> check_program_t intern f P = CNoFuel.
Proof. unfold check_program. destruct (check_program_t intern f P); cbn [cbind]; congruence. Qed.

(* the common part: if the checker's fuel is adequate for the parsed program, the front end is total *)
Lemma front_end_total_gen intern bytes main :
  (forall P, parsed_program bytes main = Some P -> check_program_t intern (check_fuel_needed P) P <> CNoFuel) ->
  front_end intern bytes main <> FInternal.
Proof.
  intro Hfuel. unfold front_end. unfold parsed_program in Hfuel.
  destruct (scan_text_total bytes) as [out Eo]. rewrite Eo in *. destruct out as [ts|es]; [|discriminate].
  pose proof (parse_total ts) as Hp.
  destruct (parse_program_text (length ts + 4) ts) as [up st| | |o] eqn:Ep; try discriminate; [|congruence].
  cbv zeta. specialize (Hfuel _ eq_refl).
  pose proof (check_no_panic intern ts _ up st main (check_fuel_needed (uprogram_of_parsed up main)) Ep) as Hnp.
  destruct (check_program intern _ (uprogram_of_parsed up main)) as [A|c| |] eqn:Ec; try discriminate.
  - destruct (c =? E_Panic) eqn:E; [|discriminate]. apply N.eqb_eq in E. subst c. congruence.
  - exfalso. apply Hfuel. apply check_program_nofuel. exact Ec.
Qed.

(* THE FRONT END IS TOTAL, unconditionally for programs that never run the exhaustiveness oracle (no `match`,
   irrefutable `let` / `for` patterns: the computable test InferFuel4.no_oracle on the parsed program) *)
Theorem front_end_total intern bytes main :
  match parsed_program bytes main with Some P => no_oracle P = true | None => True end ->
  front_end intern bytes main <> FInternal.
Proof.
  intro H. apply front_end_total_gen. intros P EP. rewrite EP in H.
  apply check_terminates_no_oracle; [exact H|apply le_n].
Qed.

(* ... and for ALL programs, provided the exhaustiveness oracle (Exhaust/Useful.v, run with its own fuel bound)
   does not run out of ITS fuel (UsefulProofs.useful_fuel proves that for well-typed patterns) *)
Theorem front_end_total_hex intern bytes main :
  (forall D ps ty, nf (check_exhaustiveness intern D ps ty)) ->
  front_end intern bytes main <> FInternal.
Proof.
  intro Hex. apply front_end_total_gen. intros P _. apply adequacy_program; [exact Hex|apply le_n].
Qed.

(* the result is one of the five answers *)
Corollary front_end_five intern bytes main :
  match parsed_program bytes main with Some P => no_oracle P = true | None => True end ->
  (exists A, front_end intern bytes main = FOk A) \/ (exists es, front_end intern bytes main = FScanErrors es) \/
  front_end intern bytes main = FParseError \/ (exists c, front_end intern bytes main = FTypeError c /\ c <> E_Panic) \/
  front_end intern bytes main = FOutside.
Proof.
  intro H. pose proof (front_end_total intern bytes main H) as Ht.
  destruct (front_end intern bytes main) as [A|es| |c| |] eqn:E; try (exfalso; apply Ht; reflexivity); eauto 6.
  right. right. right. left. exists c. split; [reflexivity|]. intro Hc. subst c.
  unfold front_end in E. destruct (scan_text bytes) as [[ts|es]| |]; try discriminate E.
  destruct (parse_program_text (length ts + 4) ts) as [up st| | |]; try discriminate E. cbv zeta in E.
  destruct (check_program intern _ _) as [A|c| |]; try discriminate E.
  destruct (c =? E_Panic) eqn:Ec; [discriminate E|]. injection E as ->. rewrite N.eqb_refl in Ec. discriminate Ec.
Qed.

Print Assumptions front_end_total.
Print Assumptions front_end_total_hex.
Print Assumptions front_end_five.

(* non-vacuity (vm_compute): the five answers from texts *)
From Coq Require Import String.
From GV Require Check.InferExamples.
Module FrontEndExamples.
Local Open Scope string_scope.
Definition kind (r : front_result) : N :=
  match r with FOk _ => 0 | FScanErrors _ => 1 | FParseError => 2 | FTypeError c => 100 + c | FOutside => 3 | FInternal => 4 end.
Definition run (txt : string) : N := kind (front_end InferExamples.ex_intern (codes txt) (codes "main")).
Example answers :
  map run [ "pub fn main(x: u8) -> u8 { let a = [x, 1]; a[0] + 1 }";
            "pub fn main(x: u8) -> u8 { x # 1 }";
            "pub fn main(x: u8) -> u8 { let a = []; x }";
            "pub fn main(x: u8) -> bool { x }";
            "pub fn main(x: [u8; 2]) -> u8 { for i in join(x, x) { } x[0] }" ]
  = [0; 1; 2; 100 + E_UnexpectedType; 3].
Proof. vm_compute. reflexivity. Qed.
End FrontEndExamples.
